/-
Helper lemmas for `Props/C01b.lean`: the conversion of documents with indented code blocks, code spans and one level
of emphasis, for every spelling.  Built on `Lemmas/DocParse.lean` (flat documents) and `Lemmas/CodePipe.lean` (C03:
code through the pipeline).  Core Lean only.
-/
import MdVerif.Spec.DocFlat2
import MdVerif.Lemmas.DocParse
import MdVerif.Lemmas.CodePipe
import MdVerif.Props.C03

namespace MdVerif.DocParse2
open Py DocSpec CodeLaw Inline DocParse Block Escape

/-! ### 1. the lines of a code block as runs of lines -/

/-- leading blank lines, first run, further runs (each after `e + 1` blank lines) -/
def groupRuns : List Str → Nat × List Str × List (Nat × List Str)
  | [] => (0, [], [])
  | l :: r =>
    match groupRuns r with
    | (k, f, m) =>
      if l.isEmpty then (k + 1, f, m)
      else if k = 0 then (0, l :: f, m)
      else (0, [l], (k - 1, f) :: m)

theorem groupRuns_spec (ls : List Str) (hlast : ∀ x, ls.getLast? = some x → x ≠ []) :
    ls = List.replicate (groupRuns ls).1 [] ++ allLines (groupRuns ls).2.1 (groupRuns ls).2.2 ∧
    (ls ≠ [] → (groupRuns ls).2.1 ≠ []) ∧ (∀ x ∈ (groupRuns ls).2.1, x ≠ []) ∧
    (∀ er ∈ (groupRuns ls).2.2, er.2 ≠ [] ∧ ∀ x ∈ er.2, x ≠ []) := by
  induction ls with
  | nil => simp [groupRuns, allLines]
  | cons l r ih =>
    have hr : ∀ x, r.getLast? = some x → x ≠ [] := by
      intro x hx
      cases r with
      | nil => simp at hx
      | cons a b => exact hlast x (by simpa [List.getLast?_cons_cons] using hx)
    obtain ⟨h1, h2, h3, h4⟩ := ih hr
    rcases hg : groupRuns r with ⟨k, f, m⟩
    rw [hg] at h1 h2 h3 h4
    simp only at h1 h2 h3 h4
    by_cases hl : l.isEmpty = true
    · have hle : l = [] := by simpa using hl
      have hrne : r ≠ [] := by
        intro e; subst e; exact hlast l (by simp) hle
      simp only [groupRuns, hg, hl, if_true]
      refine ⟨?_, fun _ => h2 hrne, h3, h4⟩
      rw [List.replicate_succ, List.cons_append, ← h1, hle]
    · have hlne : l ≠ [] := by simpa using hl
      by_cases hk : k = 0
      · subst hk
        simp only [groupRuns, hg, hl, Bool.false_eq_true, if_false, if_true]
        refine ⟨?_, fun _ => by simp, ?_, h4⟩
        · simp only [List.replicate_zero, List.nil_append, allLines, List.cons_append] at h1 ⊢
          rw [← h1]
        · intro x hx
          rcases List.mem_cons.1 hx with rfl | hx
          · exact hlne
          · exact h3 x hx
      · have hrne : r ≠ [] := by
          intro e; subst e; simp [groupRuns] at hg; omega
        simp only [groupRuns, hg, hl, hk, Bool.false_eq_true, if_false]
        refine ⟨?_, fun _ => by simp, ?_, ?_⟩
        · simp only [List.replicate_zero, List.nil_append, allLines, List.flatMap_cons, List.cons_append]
          rw [show k - 1 + 1 = k by omega]
          simp only [allLines] at h1
          rw [h1]; simp
        · intro x hx; have : x = l := by simpa using hx
          subst this; exact hlne
        · intro er her
          rcases List.mem_cons.1 her with rfl | her
          · exact ⟨h2 hrne, h3⟩
          · exact h4 er her

theorem nl_comm (n : Nat) (X : Str) :
    List.replicate n '\n' ++ '\n' :: X = '\n' :: (List.replicate n '\n' ++ X) := by
  induction n with
  | zero => rfl
  | succ n ih => simp [List.replicate_succ, ih]

/-- the flat list of lines and the runs structure render to the same text -/
theorem joinLines_allLines (g : List Str → List Str) (hg : ∀ r, r ≠ [] → g r ≠ []) (gnil : ∀ n, g (List.replicate n []) = List.replicate n [])
    (gapp : ∀ a b, g (a ++ b) = g a ++ g b) (m : List (Nat × List Str)) :
    ∀ (f : List Str), f ≠ [] → (∀ er ∈ m, er.2 ≠ []) →
      joinLines (g (allLines f m)) = runsText (fun r => joinLines (g r)) f m := by
  induction m with
  | nil => intro f _ _; simp [allLines, runsText]
  | cons er m ih =>
    intro f hf hm
    have her := hm er List.mem_cons_self
    have ih' := ih er.2 her (fun x hx => hm x (List.mem_cons_of_mem _ hx))
    have e : allLines f (er :: m) = (f ++ List.replicate (er.1 + 1) []) ++ allLines er.2 m := by
      simp [allLines, List.append_assoc]
    have hne2 : g (allLines er.2 m) ≠ [] := hg _ (by simp [allLines, her])
    have hrep : joinLines (List.replicate (er.1 + 1) ([] : Str)) = nls er.1 := by
      induction er.1 with
      | zero => rfl
      | succ n ihn =>
        rw [List.replicate_succ, List.replicate_succ, Block.joinLines_cons_cons, ← List.replicate_succ, ihn]
        simp [nls, List.replicate_succ]
    rw [e, gapp, gapp, gnil, Block.joinLines_append _ _ (by simp [List.replicate_succ]) hne2,
      Block.joinLines_append _ _ (hg f hf) (by simp [List.replicate_succ]), hrep, ih']
    simp [runsText, nls, List.replicate_succ, List.append_assoc, nl_comm]

theorem indentLines_append (tab : Nat) (a b : List Str) :
    indentLines tab (a ++ b) = indentLines tab a ++ indentLines tab b := by simp [indentLines]

theorem indentLines_replicate (tab n : Nat) : indentLines tab (List.replicate n []) = List.replicate n [] := by
  simp [indentLines, indentLine]

theorem indentLines_ne_nil (tab : Nat) (r : List Str) (h : r ≠ []) : indentLines tab r ≠ [] := by
  simpa [indentLines] using h

theorem codeSource_of_lines (tab : Nat) (f : List Str) (m : List (Nat × List Str)) (hf : f ≠ [])
    (hm : ∀ er ∈ m, er.2 ≠ []) : joinLines (indentLines tab (allLines f m)) = codeSource tab f m :=
  joinLines_allLines (indentLines tab) (indentLines_ne_nil tab) (indentLines_replicate tab) (indentLines_append tab)
    m f hf hm

theorem codeTyped_of_lines (f : List Str) (m : List (Nat × List Str)) (hf : f ≠ [])
    (hm : ∀ er ∈ m, er.2 ≠ []) : joinLines (allLines f m) = codeTyped f m :=
  joinLines_allLines id (fun _ h => h) (fun _ => rfl) (fun _ _ => rfl) m f hf hm

theorem prefixLines_eq (ls : List Str) : prefixLines (rep 4 ' ') ls = indentLines 4 ls := rfl


/-! ### 2. well-formed code lines are code lines in the sense of C03 -/

theorem printable_facts {c : Char} (h : isPrintable c = true) :
    c ≠ '\n' ∧ c ≠ '\r' ∧ c ≠ '\t' ∧ c ≠ Char.ofNat 2 ∧ c ≠ Char.ofNat 3 ∧ (c ≠ ' ' → isSpace c = false) := by
  have h128 : c.toNat < 128 := by
    simp only [isPrintable, Bool.and_eq_true, decide_eq_true_eq] at h; omega
  have key : ∀ n, n < 128 → isPrintable (Char.ofNat n) = true →
      Char.ofNat n ≠ '\n' ∧ Char.ofNat n ≠ '\r' ∧ Char.ofNat n ≠ '\t' ∧ Char.ofNat n ≠ Char.ofNat 2 ∧
      Char.ofNat n ≠ Char.ofNat 3 ∧ (Char.ofNat n ≠ ' ' → isSpace (Char.ofNat n) = false) := by decide
  exact RefDef.char_of_ascii (fun c => isPrintable c = true → c ≠ '\n' ∧ c ≠ '\r' ∧ c ≠ '\t' ∧ c ≠ Char.ofNat 2 ∧
      c ≠ Char.ofNat 3 ∧ (c ≠ ' ' → isSpace c = false)) key c h128 h

/-- no `&#` in a string: every reference is closed -/
theorem refsClosed_of_noAmpHash (s : Str) (h : noAmpHash s = true) : refsClosed s = true := by
  simp only [noAmpHash, Bool.not_eq_true'] at h
  induction s with
  | nil => rfl
  | cons c r ih =>
    obtain ⟨h1, h2⟩ := contains_cons_eq_false h
    simp only [refsClosed, Bool.and_eq_true, Bool.or_eq_true, bne_iff_ne, ne_eq]
    refine ⟨?_, ih h2⟩
    by_cases hc : c = '&'
    · subst hc
      right
      cases r with
      | nil => rfl
      | cons d r' =>
        have hd : d ≠ '#' := by
          intro e; subst e; simp [startsWith, S] at h1
        unfold refClosedAt
        split
        · rename_i heq; simp only [List.cons.injEq] at heq; exact absurd heq.1 hd
        · rfl
    · exact Or.inl hc

/-- a non-empty well-formed code line without `<` is a code line of the C03 theorems, with a visible last character -/
theorem codeLine_of_wf (l : Str) (hw : wfCodeLine l = true) (hlt : noLt l = true) (hne : l ≠ []) :
    isCodeLine l = true ∧ ∃ z, l.getLast? = some z ∧ isSpace z = false := by
  simp only [wfCodeLine, Bool.and_eq_true, List.all_eq_true, bne_iff_ne, ne_eq] at hw
  obtain ⟨⟨hp, hlast⟩, hamp⟩ := hw
  obtain ⟨z, hz⟩ : ∃ z, l.getLast? = some z := by
    cases h : l.getLast? with
    | none => exact absurd (List.getLast?_eq_none_iff.1 h) hne
    | some z => exact ⟨z, rfl⟩
  have hzm : z ∈ l := List.mem_of_getLast? hz
  have hzs : z ≠ ' ' := fun e => hlast (e ▸ hz)
  have hzv : isSpace z = false := (printable_facts (hp z hzm)).2.2.2.2.2 hzs
  refine ⟨?_, z, hz, hzv⟩
  simp only [isCodeLine, Bool.and_eq_true, List.all_eq_true, List.any_eq_true]
  refine ⟨⟨fun c hc => ?_, ⟨z, hzm, by simpa using hzs⟩⟩, refsClosed_of_noAmpHash l hamp⟩
  obtain ⟨a1, a2, a3, a4, a5, _⟩ := printable_facts (hp c hc)
  have hlt' : c ≠ '<' := by
    intro e; subst e
    simp only [noLt, Bool.not_eq_true'] at hlt
    have : l.contains '<' = true := List.contains_iff_mem.2 hc
    rw [hlt] at this; cases this
  simp [isCodeChar, hlt', a1, a2, a3, a4, a5]


theorem joinLines_getLast (r : List Str) (x : Str) (hx : r.getLast? = some x) (hne : x ≠ []) :
    (joinLines r).getLast? = x.getLast? := by
  induction r with
  | nil => simp at hx
  | cons a r ih =>
    cases r with
    | nil =>
      have : a = x := by simpa using hx
      subst this; rfl
    | cons b r' =>
      have hx' : (b :: r').getLast? = some x := by simpa [List.getLast?_cons_cons] using hx
      have hj : joinLines (b :: r') ≠ [] := by
        intro e
        have := ih hx'
        rw [e] at this
        cases hxl : x.getLast? with
        | none => exact hne (List.getLast?_eq_none_iff.1 hxl)
        | some z => rw [hxl] at this; simp at this
      rw [Block.joinLines_cons_cons, List.getLast?_append, List.getLast?_cons]
      rw [← ih hx']
      cases hjl : (joinLines (b :: r')).getLast? with
      | none => exact absurd (List.getLast?_eq_none_iff.1 hjl) hj
      | some z => simp

theorem rstrip_of_visible_last (s : Str) (z : Char) (h : s.getLast? = some z) (hz : isSpace z = false) :
    rstrip s = s := by
  unfold rstrip
  rw [rstripP_eq_self_iff]
  intro c hc
  rw [h] at hc; cases hc; exact hz

theorem runsText_congr (g h : List Str → Str) (f : List Str) (m : List (Nat × List Str)) (hf : g f = h f)
    (hm : ∀ er ∈ m, g er.2 = h er.2) : runsText g f m = runsText h f m := by
  simp only [runsText, hf]
  congr 1
  induction m with
  | nil => rfl
  | cons er m ih =>
    simp only [List.flatMap_cons, hm er List.mem_cons_self,
      ih (fun x hx => hm x (List.mem_cons_of_mem _ hx))]

open Code in
theorem htmlEsc_eq_codeEscape (s : Str) : htmlEsc s = Code.codeEscape s := by
  rw [codeEscape_onepass]
  induction s with
  | nil => rfl
  | cons c r ih =>
    by_cases h1 : c = '&'
    · simp [htmlEsc, codeEscape1, esc1Char, h1, ih, S]
    · by_cases h2 : c = '<'
      · simp [htmlEsc, codeEscape1, esc1Char, h2, ih, S]
      · by_cases h3 : c = '>'
        · simp [htmlEsc, codeEscape1, esc1Char, h3, ih, S]
        · simp [htmlEsc, codeEscape1, esc1Char, h1, h2, h3, ih]

/-- what `groupRuns` gives for the lines of a well-formed code block -/
theorem codeLines_runs (ls : List Str) (hw : wfCodeLines ls = true) (hlt : ls.all noLt = true) :
    ∃ (f : List Str) (m : List (Nat × List Str)), ls = allLines f m ∧ isCodeRun f = true ∧
      (∀ er ∈ m, isCodeRun er.2 = true) ∧ (allLines f m).any (fun l => !isBlank l) = true ∧
      joinLines (indentLines 4 ls) = codeSource 4 f m ∧ trimSpec f m = joinLines ls := by
  simp only [wfCodeLines, Bool.and_eq_true, List.all_eq_true] at hw
  obtain ⟨⟨hall, hhead⟩, hlastb⟩ := hw
  have hlts : ∀ l ∈ ls, noLt l = true := by simpa [List.all_eq_true] using hlt
  obtain ⟨l0, r0, rfl⟩ : ∃ l0 r0, ls = l0 :: r0 := by
    cases ls with
    | nil => simp at hhead
    | cons a b => exact ⟨a, b, rfl⟩
  have hl0 : l0 ≠ [] := by simpa using hhead
  have hlast : ∀ x, (l0 :: r0).getLast? = some x → x ≠ [] := by
    intro x hx; rw [hx] at hlastb; simpa using hlastb
  obtain ⟨h1, h2, h3, h4⟩ := groupRuns_spec (l0 :: r0) hlast
  have hk : (groupRuns (l0 :: r0)).1 = 0 := by
    simp only [groupRuns]
    rcases groupRuns r0 with ⟨k, f, m⟩
    have : l0.isEmpty = false := by
      cases l0 with
      | nil => exact absurd rfl hl0
      | cons _ _ => rfl
    simp only [this, Bool.false_eq_true, if_false]
    split <;> rfl
  rw [hk] at h1
  simp only [List.replicate_zero, List.nil_append] at h1
  generalize (groupRuns (l0 :: r0)).2.1 = f at h1 h2 h3 h4
  generalize (groupRuns (l0 :: r0)).2.2 = m at h1 h3 h4
  have hf := h2 (by simp)
  have hmne : ∀ er ∈ m, er.2 ≠ [] := fun er her => (h4 er her).1
  -- every non-empty line is a code line with a visible last character
  have hmemf : ∀ x ∈ f, x ∈ l0 :: r0 := by
    intro x hx; rw [h1]; simp [allLines, hx]
  have hmemm : ∀ er ∈ m, ∀ x ∈ er.2, x ∈ l0 :: r0 := by
    intro er her x hx; rw [h1]
    simp only [allLines, List.mem_append, List.mem_flatMap]
    exact Or.inr ⟨er, her, Or.inr hx⟩
  have hline : ∀ x ∈ l0 :: r0, x ≠ [] → isCodeLine x = true ∧ ∃ z, x.getLast? = some z ∧ isSpace z = false :=
    fun x hx hne => codeLine_of_wf x (hall x hx) (hlts x hx) hne
  have hrunf : isCodeRun f = true := by
    simp only [isCodeRun, Bool.and_eq_true, Bool.not_eq_true', List.all_eq_true]
    exact ⟨by cases f <;> simp_all, fun x hx => (hline x (hmemf x hx) (h3 x hx)).1⟩
  have hrunm : ∀ er ∈ m, isCodeRun er.2 = true := by
    intro er her
    simp only [isCodeRun, Bool.and_eq_true, Bool.not_eq_true', List.all_eq_true]
    refine ⟨?_, fun x hx => (hline x (hmemm er her x hx) ((h4 er her).2 x hx)).1⟩
    have := hmne er her
    cases h : er.2 with
    | nil => exact absurd h this
    | cons _ _ => rfl
  -- right-trimming changes nothing
  have hrs0 : ∀ (r : List Str) (x : Str), r.getLast? = some x → x ∈ l0 :: r0 → x ≠ [] →
      rstrip (joinLines r) = joinLines r := by
    intro r x hxl hxm hxne
    obtain ⟨_, z, hz, hzv⟩ := hline x hxm hxne
    exact rstrip_of_visible_last _ z (by rw [joinLines_getLast r x hxl hxne, hz]) hzv
  have hrs : ∀ r : List Str, r ≠ [] → (∀ x ∈ r, x ∈ l0 :: r0 ∧ x ≠ []) → rstrip (joinLines r) = joinLines r := by
    intro r hr hx
    obtain ⟨x, hxl⟩ : ∃ x, r.getLast? = some x := by
      cases h : r.getLast? with
      | none => exact absurd (List.getLast?_eq_none_iff.1 h) hr
      | some x => exact ⟨x, rfl⟩
    obtain ⟨hxm, hxne⟩ := hx x (List.mem_of_getLast? hxl)
    exact hrs0 r x hxl hxm hxne
  refine ⟨f, m, h1, hrunf, hrunm, ?_, ?_, ?_⟩
  · rw [← h1]
    simp only [List.any_cons, Bool.or_eq_true, Bool.not_eq_true']
    left
    obtain ⟨_, z, hz, hzv⟩ := hline l0 List.mem_cons_self hl0
    cases hb : isBlank l0 with
    | false => rfl
    | true =>
      have := (isBlank_iff l0).1 hb z (List.mem_of_getLast? hz)
      rw [hzv] at this; cases this
  · rw [h1]; exact codeSource_of_lines 4 f m hf hmne
  · unfold trimSpec
    rw [runsText_congr (fun r => rstrip (joinLines r)) joinLines f m
      (hrs f hf (fun x hx => ⟨hmemf x hx, h3 x hx⟩))
      (fun er her => hrs er.2 (hmne er her) (fun x hx => ⟨hmemm er her x hx, (h4 er her).2 x hx⟩))]
    have : runsText joinLines f m = joinLines (l0 :: r0) := by
      rw [h1]; exact (codeTyped_of_lines f m hf hmne).symm
    rw [this]
    obtain ⟨x, hxl⟩ : ∃ x, (l0 :: r0).getLast? = some x := by
      cases h : (l0 :: r0).getLast? with
      | none => simp at h
      | some x => exact ⟨x, rfl⟩
    exact hrs0 (l0 :: r0) x hxl (List.mem_of_getLast? hxl) (hlast x hxl)


/-! ### 3. rung A, one block: an indented code block in every spelling (there is one) -/

theorem print_code (ls : List Str) (sp : Spelling) : print [.code ls] sp = joinLines (indentLines 4 ls) := by
  simp [print, printBlocks, printBlock, joinLines, prefixLines_eq]

theorem wf_code (ls : List Str) (h : WF [.code ls] = true) : wfCodeLines ls = true := by
  simp only [WF, Bool.and_eq_true] at h
  have hb := DocParse.wfBlockList_mem h.1.2 (.code ls) List.mem_cons_self
  simp only [wfBlock, Bool.and_eq_true] at hb
  exact hb.1

theorem convert_code_block (ls : List Str) (sp : Spelling) (hwf : WF [Block.code ls] = true) (hlt : ls.all noLt = true) :
    Pipeline.convert {} (print [Block.code ls] sp) = .ok (spec [Block.code ls]) := by
  obtain ⟨f, m, _, hf, hm, hvis, hsrc, htrim⟩ := codeLines_runs ls (wf_code ls hwf) hlt
  rw [print_code, hsrc]
  have h := C03_block_top 4 f m hf (List.all_eq_true.2 (fun er her => hm er her)) hvis
  have e : spec [Block.code ls] = "<pre><code>".toList ++ htmlEsc (joinLines ls) ++ "\n</code></pre>".toList := by
    rw [spec, DocParse.specBlocks_one]; rfl
  rw [e, ← htrim, htmlEsc_eq_codeEscape]
  exact h

/-! ### 4. top-level elements through the stages after the block parser, generically -/

/-- one child of the root `<div>` at every stage, with what the inline stage adds to the stash (when the stash has
    `n` entries already: an element that is stashed with unresolved placeholders in its text depends on `n`) and pushes
    on its stack when the element is the `i`-th child -/
structure Elem where
  src : Node
  mid : Node
  items : Nat → List StashItem
  pushes : Nat → List Path
  pretty : Node
  fin : Node
  out : Str

/-- the inline processor leaves this element alone when it visits it as a child -/
def Still (cfg : Inline.Cfg) (c : Node) : Prop :=
  ∀ v : Visit, visitChild cfg c v =
    some (c, [], { v with pushes := if c.children.isEmpty then v.pushes else [v.done.length] :: v.pushes })

theorem still_of_calm (cfg : Inline.Cfg) (c : Node) (h : calmNode c = true) : Still cfg c :=
  fun v => visitChild_calm cfg c v h

/-- every element below `n` is left alone by the inline processor, and has at most `b` children -/
def StillBelow (cfg : Inline.Cfg) (b : Nat) (n : Node) : Prop :=
  ∀ p cur, getAt n p = some cur → cur.children.length ≤ b ∧ ∀ c ∈ cur.children, Still cfg c

/-- the usual case: the children are left alone and have no children themselves -/
theorem stillBelow_of_childless (cfg : Inline.Cfg) (b : Nat) (n : Node) (hlen : n.children.length ≤ b)
    (h : ∀ c ∈ n.children, Still cfg c ∧ c.children = []) : StillBelow cfg b n := by
  intro p cur hp
  cases p with
  | nil =>
    simp only [getAt, Option.some.injEq] at hp; subst hp
    exact ⟨hlen, fun c hc => (h c hc).1⟩
  | cons j q =>
    simp only [getAt] at hp
    cases hc : n.children[j]? with
    | none => rw [hc] at hp; cases hp
    | some c =>
      rw [hc] at hp
      have hcc := (h c (List.mem_of_getElem? hc)).2
      cases q with
      | nil =>
        simp only [getAt, Option.some.injEq] at hp; subst hp
        rw [hcc]; exact ⟨by simp, fun x hx => by cases hx⟩
      | cons j' q' =>
        simp only [getAt, hcc] at hp
        simp at hp

theorem stillBelow_child (cfg : Inline.Cfg) (b : Nat) (n c : Node) (j : Nat) (h : StillBelow cfg b n)
    (hc : n.children[j]? = some c) : StillBelow cfg b c := by
  intro p cur hp
  apply h (j :: p) cur
  simp only [getAt, hc]; exact hp

structure ElemOK (cfg : Inline.Cfg) (e : Elem) : Prop where
  visit : ∀ v : Visit, visitChild cfg e.src v =
    some (e.mid, [], { v with pushes := e.pushes v.done.length ++ v.pushes,
                              st := { v.st with stash := v.st.stash ++ e.items v.st.stash.length } })
  pushBound : ∀ i, (e.pushes i).length ≤ Inline.size e.src
  weight : ∀ i, mStack e.mid ((e.pushes i).map (fun q => q.drop 1)) ≤ Inline.size e.src
  pushOk : ∀ i q, q ∈ e.pushes i → ∃ rel cur, q = i :: rel ∧ getAt e.mid rel = some cur ∧
    StillBelow cfg (Inline.size e.src) cur
  block : TreeProc.isBlockLevel TreeProc.defaultBlockLevel e.mid.tag = true
  pretty : TreeProc.mapTree TreeProc.preRule (TreeProc.mapTree TreeProc.brRule
    (TreeProc.prettifyETree TreeProc.defaultBlockLevel e.mid)) = e.pretty
  unesc : TreeProc.unescapeTree e.pretty = some e.fin
  ser : Ser.serialize .xhtml e.fin = e.out ++ ['\n']
  outOk : Post.STX ∉ e.out ∧ e.out.head? = some '<' ∧ e.out.getLast? = some '>'

/-- everything pushed while the children `L` (the first one being child number `i`) are visited, last pushed first -/
def allPushes : List Elem → Nat → List Path
  | [], _ => []
  | e :: r, i => allPushes r (i + 1) ++ e.pushes i

def allItems : List Elem → Nat → List StashItem
  | [], _ => []
  | e :: r, n => e.items n ++ allItems r (n + (e.items n).length)

theorem visitLoop_elems (cfg : Inline.Cfg) (L : List Elem) (hL : ∀ e ∈ L, ElemOK cfg e) :
    ∀ (i : Nat) (v : Visit) (g : Nat), v.done.length = i → L.length + 1 ≤ g →
      ∃ pm, visitLoop cfg g (withIdx (L.map (·.src)) i) v =
        some { done := (L.map (·.mid)).reverse ++ v.done, posmap := pm, pushes := allPushes L i ++ v.pushes,
               st := { v.st with stash := v.st.stash ++ allItems L v.st.stash.length } } := by
  induction L with
  | nil =>
    intro i v g _ hg
    obtain ⟨g', rfl⟩ : ∃ g', g = g' + 1 := ⟨g - 1, by simp at hg; omega⟩
    exact ⟨v.posmap, by simp [withIdx, visitLoop, allPushes, allItems]⟩
  | cons e r ih =>
    intro i v g hv hg
    obtain ⟨g', rfl⟩ : ∃ g', g = g' + 1 := ⟨g - 1, by simp at hg; omega⟩
    have he := (hL e List.mem_cons_self).visit v
    simp only [List.map_cons, withIdx, visitLoop, he, List.map_nil, List.nil_append]
    obtain ⟨pm, hpm⟩ := ih (fun x hx => hL x (List.mem_cons_of_mem _ hx)) (i + 1)
      { done := e.mid :: v.done, posmap := (i, v.done.length) :: v.posmap,
        pushes := e.pushes v.done.length ++ v.pushes,
        st := { v.st with stash := v.st.stash ++ e.items v.st.stash.length } } g' (by simp [hv])
      (by simp at hg ⊢; omega)
    refine ⟨pm, ?_⟩
    rw [hpm]
    simp [allPushes, allItems, hv, List.append_assoc]

theorem pushesRev_childless (kids : List Node) (h : ∀ c ∈ kids, c.children = []) (i : Nat) : pushesRev kids i = [] := by
  induction kids generalizing i with
  | nil => rfl
  | cons c r ih =>
    simp [pushesRev, h c List.mem_cons_self, ih (fun x hx => h x (List.mem_cons_of_mem _ hx))]

theorem visitLoop_still (cfg : Inline.Cfg) (kids : List Node) :
    ∀ (i : Nat) (v : Visit) (g : Nat), (∀ c ∈ kids, Still cfg c) → v.done.length = i → kids.length + 1 ≤ g →
      visitLoop cfg g (withIdx kids i) v = some (vl kids i v) := by
  induction kids with
  | nil =>
    intro i v g _ _ hg
    obtain ⟨g', rfl⟩ : ∃ g', g = g' + 1 := ⟨g - 1, by simp at hg; omega⟩
    rfl
  | cons c r ih =>
    intro i v g hc hv hg
    obtain ⟨g', rfl⟩ : ∃ g', g = g' + 1 := ⟨g - 1, by simp at hg; omega⟩
    simp only [withIdx, visitLoop, hc c List.mem_cons_self v, List.map_nil, List.nil_append]
    have := ih (i + 1) (vlStep c i v) g' (fun d hd => hc d (List.mem_cons_of_mem _ hd))
      (by simp [vlStep, hv]) (by simp at hg ⊢; omega)
    simp only [vl]
    rw [← this]
    simp [vlStep, hv]

theorem mem_pushesRev (kids : List Node) : ∀ (i : Nat) (x : Path), x ∈ pushesRev kids i →
    ∃ j c, x = [i + j] ∧ kids[j]? = some c := by
  induction kids with
  | nil => intro i x h; simp [pushesRev] at h
  | cons c r ih =>
    intro i x h
    simp only [pushesRev, List.mem_append] at h
    rcases h with h | h
    · obtain ⟨j, d, hx, hd⟩ := ih (i + 1) x h
      exact ⟨j + 1, d, by rw [hx]; congr 1; omega, by simpa using hd⟩
    · split at h
      · cases h
      · have : x = [i] := by simpa using h
        exact ⟨0, c, by simpa using this, rfl⟩

/-- the stack loop when every element below the stacked paths is left alone by the processor: nothing changes -/
theorem runLoop_still (cfg : Inline.Cfg) (g2 : Nat) (root : Node) (st : St) :
    ∀ (g : Nat) (stack : List Path), mStack root stack + 1 ≤ g →
      (∀ q ∈ stack, ∀ cur, getAt root q = some cur → ∃ b, b + 1 ≤ g2 ∧ StillBelow cfg b cur) →
      runLoop cfg g2 g root stack st = some (root, st) := by
  intro g
  induction g with
  | zero => intro stack h; omega
  | succ g ih =>
    intro stack h hs
    cases stack with
    | nil => rfl
    | cons p stack =>
      rw [mStack_cons] at h
      have hs' : ∀ q ∈ stack, ∀ cur, getAt root q = some cur → ∃ b, b + 1 ≤ g2 ∧ StillBelow cfg b cur :=
        fun q hq => hs q (List.mem_cons_of_mem _ hq)
      cases hcur : getAt root p with
      | none =>
        simp only [runLoop, hcur]
        apply ih _ _ hs'
        simp only [wPath, hcur] at h
        omega
      | some cur =>
        obtain ⟨b, hb, hsb⟩ := hs p List.mem_cons_self cur hcur
        obtain ⟨hlen, hkids⟩ := hsb [] cur rfl
        have hvl := visitLoop_still cfg cur.children 0 { st := st } g2 hkids rfl (by omega)
        obtain ⟨v1, v2, v3, v4⟩ := vl_spec cur.children 0 { st := st }
        simp only [runLoop, hcur, hvl, v1, v2, List.append_nil, List.reverse_reverse]
        have hroot : setAt root p cur = root := setAt_getAt root p cur hcur
        have e : (⟨cur.tag, cur.attrs, cur.text, cur.textAtomic, cur.children, cur.tail, cur.tailAtomic⟩ : Node) = cur := by
          cases cur; rfl
        rw [e]
        rw [hroot, v3]
        have hmap : stack.map (remap p (vl cur.children 0 { st := st }).posmap) = stack := by
          have hid := v4 (by simp)
          rw [show remap p (vl cur.children 0 { st := st }).posmap = id from funext (remap_id p _ hid)]
          simp
        rw [hmap]
        apply ih
        · simp only [List.append_nil, mStack_append]
          have := mStack_pushes root p cur hcur cur.children 0 (fun j c hj => by simpa using hj)
          simp only [wPath, hcur, below_eq cur] at h
          omega
        · intro q hq cur' hq'
          simp only [List.append_nil, List.mem_append, List.mem_map] at hq
          rcases hq with ⟨x, hx, rfl⟩ | hq
          · obtain ⟨j, c, hxe, hc⟩ := mem_pushesRev cur.children 0 x hx
            rw [hxe, Nat.zero_add, getAt_append root p cur j hcur, hc] at hq'
            have : c = cur' := by simpa using hq'
            subst this
            exact ⟨b, hb, stillBelow_child cfg b cur c j hsb hc⟩
          · exact hs' q hq cur' hq'

theorem mem_allPushes (L : List Elem) : ∀ (i : Nat) (q : Path), q ∈ allPushes L i →
    ∃ (k : Nat) (e : Elem), L[k]? = some e ∧ q ∈ e.pushes (i + k) := by
  induction L with
  | nil => intro i q h; simp [allPushes] at h
  | cons e r ih =>
    intro i q h
    simp only [allPushes, List.mem_append] at h
    rcases h with h | h
    · obtain ⟨k, e', hk, hq⟩ := ih (i + 1) q h
      exact ⟨k + 1, e', by simpa using hk, by rwa [show i + (k + 1) = i + 1 + k by omega]⟩
    · exact ⟨0, e, rfl, h⟩

theorem length_allPushes (cfg : Inline.Cfg) (L : List Elem) (hL : ∀ e ∈ L, ElemOK cfg e) (i : Nat) :
    (allPushes L i).length ≤ Inline.sizeList (L.map (·.src)) := by
  induction L generalizing i with
  | nil => simp [allPushes, Inline.sizeList]
  | cons e r ih =>
    have h1 := (hL e List.mem_cons_self).pushBound i
    have h2 := ih (fun x hx => hL x (List.mem_cons_of_mem _ hx)) (i + 1)
    simp only [allPushes, List.length_append, List.map_cons, Inline.sizeList]
    omega

theorem wPath_div (mids : List Node) (k : Nat) (m : Node) (hk : mids[k]? = some m) (rel : Path) :
    wPath (divOf mids) (k :: rel) = wPath m rel := by
  simp [wPath, getAt, divOf, hk]

/-- the stack after the children loop weighs at most the size of the sources -/
theorem weight_allPushes (cfg : Inline.Cfg) (All : List Elem) (hAll : ∀ e ∈ All, ElemOK cfg e) (L : List Elem) :
    ∀ (i : Nat), (∀ k e, L[k]? = some e → All[i + k]? = some e) →
      mStack (divOf (All.map (·.mid))) (allPushes L i) ≤ Inline.sizeList (L.map (·.src)) := by
  induction L with
  | nil => intro i _; simp [allPushes, mStack, Inline.sizeList]
  | cons e r ih =>
    intro i hk
    have he : All[i]? = some e := by simpa using hk 0 e rfl
    have heA : e ∈ All := List.mem_of_getElem? he
    have h2 := ih (i + 1) (fun k e' hk' => by
      have := hk (k + 1) e' (by simpa using hk')
      rwa [show i + (k + 1) = i + 1 + k by omega] at this)
    have h1 := (hAll e heA).weight i
    have hw : mStack (divOf (All.map (·.mid))) (e.pushes i) = mStack e.mid ((e.pushes i).map (fun q => q.drop 1)) := by
      simp only [mStack, List.map_map]
      congr 1
      apply List.map_congr_left
      intro q hq
      obtain ⟨rel, cur, rfl, _, _⟩ := (hAll e heA).pushOk i q hq
      simp only [Function.comp, List.drop_succ_cons, List.drop_zero]
      exact wPath_div _ i e.mid (by simp [he]) rel
    simp only [allPushes, mStack_append, List.map_cons, Inline.sizeList, hw]
    omega

/-- **`InlineProcessor.run`** on a `<div>` of elements -/
theorem run_elems (cfg : Inline.Cfg) (L : List Elem) (hL : ∀ e ∈ L, ElemOK cfg e) (html : List Str) :
    Inline.run cfg (divOf (L.map (·.src))) html =
      some (divOf (L.map (·.mid)), { stash := allItems L 0, html := html }) := by
  have hsl := CodeLaw.length_le_sizeList (L.map (·.src))
  have hsz : Inline.size (divOf (L.map (·.src))) = 1 + Inline.sizeList (L.map (·.src)) := by
    simp [divOf, Inline.size]
  obtain ⟨g, hg⟩ : ∃ g, runFuel (divOf (L.map (·.src))) = g + 1 := ⟨runFuel (divOf (L.map (·.src))) - 1, by
    simp [runFuel]⟩
  have hgf : 16 * (1 + Inline.sizeList (L.map (·.src))) + 64 = g + 1 := by rw [← hg, runFuel, hsz]
  obtain ⟨pm, hpm⟩ := visitLoop_elems cfg L hL 0 { st := { html := html } } (g + 1) rfl (by
    simp only [List.length_map] at hsl; omega)
  simp only [Inline.run]
  rw [hg]
  simp only [runLoop, getAt, show (divOf (L.map (·.src))).children = L.map (·.src) from rfl, hpm]
  simp only [List.append_nil, List.reverse_reverse, List.map_nil, List.nil_append, setAt]
  simp only [List.map_id']
  have hroot : ({ divOf (L.map (·.src)) with children := L.map (·.mid) } : Node) = divOf (L.map (·.mid)) := rfl
  rw [hroot]
  have := runLoop_still cfg (g + 1) (divOf (L.map (·.mid))) { stash := allItems L 0, html := html } g (allPushes L 0)
    (by
      have h2 := weight_allPushes cfg L hL L 0 (fun k e hk => by simpa using hk)
      omega)
    (by
      intro q hq cur hcur
      obtain ⟨k, e, hk, hqe⟩ := mem_allPushes L 0 q hq
      rw [Nat.zero_add] at hqe
      have heL : e ∈ L := List.mem_of_getElem? hk
      obtain ⟨rel, cur', rfl, hget, hsb⟩ := (hL e heL).pushOk k q hqe
      have hc' : getAt (divOf (L.map (·.mid))) (k :: rel) = some cur' := by
        simp only [getAt, divOf, List.getElem?_map, hk, Option.map_some]
        exact hget
      rw [hc'] at hcur
      have : cur' = cur := by simpa using hcur
      subst this
      refine ⟨Inline.size e.src, ?_, hsb⟩
      have := CodeLaw.size_mem_le (L.map (·.src)) e.src (List.mem_map.2 ⟨e, heL, rfl⟩)
      omega)
  simpa using this


/-! #### prettify, unescape, serializer, end of `convert` -/

theorem prettifyKids_block (ns : List Node)
    (h : ∀ n ∈ ns, TreeProc.isBlockLevel TreeProc.defaultBlockLevel n.tag = true) :
    TreeProc.prettifyKids TreeProc.defaultBlockLevel ns =
      ns.map (TreeProc.prettifyETree TreeProc.defaultBlockLevel) := by
  induction ns with
  | nil => rfl
  | cons n r ih =>
    simp only [TreeProc.prettifyKids, h n List.mem_cons_self, if_true, List.map_cons,
      ih (fun x hx => h x (List.mem_cons_of_mem _ hx))]

theorem mapKids_eq_map (f : Node → Node) (ns : List Node) : TreeProc.mapKids f ns = ns.map (TreeProc.mapTree f) := by
  induction ns with
  | nil => rfl
  | cons n r ih => simp only [TreeProc.mapKids, List.map_cons, ih]

/-- the outputs, one per line -/
def joinOutS : List Str → Str
  | [] => []
  | [o] => o
  | o :: o' :: r => o ++ ['\n'] ++ joinOutS (o' :: r)

theorem prettify_elems (cfg : Inline.Cfg) (L : List Elem) (hne : L ≠ []) (hL : ∀ e ∈ L, ElemOK cfg e) :
    TreeProc.prettify (divOf (L.map (·.mid))) = prettyDiv (L.map (·.pretty)) := by
  have h1 : TreeProc.isBlockLevel TreeProc.defaultBlockLevel (.name "div".toList) = true := by decide
  have h3 : (Tag.name "div".toList == Tag.name "code".toList) = false := by decide
  have h4 : (Tag.name "div".toList == Tag.name "pre".toList) = false := by decide
  have h7 : (Tag.name "div".toList == Tag.name "br".toList) = false := by decide
  obtain ⟨l, r, rfl⟩ : ∃ l r, L = l :: r := by
    cases L with
    | nil => exact absurd rfl hne
    | cons l r => exact ⟨l, r, rfl⟩
  have hb : TreeProc.isBlockLevel TreeProc.defaultBlockLevel l.mid.tag = true := (hL l List.mem_cons_self).block
  have hk := prettifyKids_block ((l :: r).map (·.mid)) (by
    intro n hn; obtain ⟨e, he, rfl⟩ := List.mem_map.1 hn; exact (hL e he).block)
  have hm : ((l :: r).map (·.mid)).map (fun n => TreeProc.mapTree TreeProc.preRule (TreeProc.mapTree TreeProc.brRule
      (TreeProc.prettifyETree TreeProc.defaultBlockLevel n))) = (l :: r).map (·.pretty) := by
    rw [List.map_map]
    apply List.map_congr_left
    intro e he
    exact (hL e he).pretty
  simp only [List.map_cons] at hk hm
  simp only [TreeProc.prettify, divOf, List.map_cons, TreeProc.prettifyETree, h1, h3, hb, TreeProc.blankOrNone,
    Node.truthy, Bool.not_false, Bool.true_or, Bool.and_self, if_true, hk, TreeProc.mapTree,
    TreeProc.brRule, TreeProc.preRule, TreeProc.tagIs, h7, h4, Bool.false_eq_true, if_false, prettyDiv,
    mapKids_eq_map, List.map_cons, List.map_map]
  simp only [List.map_map] at hm
  simp only [Function.comp_def] at hm ⊢
  rw [← hm]

theorem unescapeKids_elems (cfg : Inline.Cfg) (L : List Elem) (hL : ∀ e ∈ L, ElemOK cfg e) :
    TreeProc.unescapeKids (L.map (·.pretty)) = some (L.map (·.fin)) := by
  induction L with
  | nil => rfl
  | cons l r ih =>
    simp only [List.map_cons, TreeProc.unescapeKids, (hL l List.mem_cons_self).unesc,
      ih (fun x hx => hL x (List.mem_cons_of_mem _ hx))]

theorem unescapeTree_elems (cfg : Inline.Cfg) (L : List Elem) (hL : ∀ e ∈ L, ElemOK cfg e) :
    TreeProc.unescapeTree (prettyDiv (L.map (·.pretty))) = some (prettyDiv (L.map (·.fin))) := by
  have hnl : TreeProc.unescapeText 0 ['\n'] = some ['\n'] := by decide
  simp [prettyDiv, TreeProc.unescapeTree, unescapeKids_elems cfg L hL, TreeProc.unescAttrs, hnl, Node.truthy]

theorem serializeList_elems (cfg : Inline.Cfg) (L : List Elem) (hne : L ≠ []) (hL : ∀ e ∈ L, ElemOK cfg e) :
    Ser.serializeList .xhtml (L.map (·.fin)) = joinOutS (L.map (·.out)) ++ ['\n'] := by
  induction L with
  | nil => exact absurd rfl hne
  | cons l r ih =>
    have hl := (hL l List.mem_cons_self).ser
    cases r with
    | nil => simp [Ser.serializeList, hl, joinOutS]
    | cons l' r' =>
      have := ih (by simp) (fun x hx => hL x (List.mem_cons_of_mem _ hx))
      simp only [List.map_cons, Ser.serializeList] at this ⊢
      rw [hl, this]
      simp [joinOutS, List.append_assoc]

theorem serialize_elems (cfg : Inline.Cfg) (L : List Elem) (hne : L ≠ []) (hL : ∀ e ∈ L, ElemOK cfg e) :
    Ser.serialize .xhtml (prettyDiv (L.map (·.fin))) =
      "<div>".toList ++ ('\n' :: joinOutS (L.map (·.out)) ++ ['\n']) ++ "</div>\n".toList := by
  have h1 : Ser.isEmptyTag "div".toList = false := by decide
  have h3 : Ser.isRawTextTag "div".toList = false := by decide
  have h5 : Ser.escCdata ['\n'] = ['\n'] := by decide
  simp only [prettyDiv, Ser.serialize, Ser.element, Ser.sortAttrs, List.foldr_nil, Ser.writeAttrs, h1, h3, h5,
    Node.truthy, Option.getD_some, Bool.false_eq_true, if_false, if_true, List.append_nil,
    serializeList_elems cfg L hne hL, Bool.and_false]
  simp [List.append_assoc]

theorem joinOutS_facts (outs : List Str) (hne : outs ≠ [])
    (h : ∀ o ∈ outs, Post.STX ∉ o ∧ o.head? = some '<' ∧ o.getLast? = some '>') :
    Post.STX ∉ joinOutS outs ∧ (joinOutS outs).head? = some '<' ∧ (joinOutS outs).getLast? = some '>' := by
  induction outs with
  | nil => exact absurd rfl hne
  | cons o r ih =>
    have ho := h o List.mem_cons_self
    cases r with
    | nil => simpa [joinOutS] using ho
    | cons o' r' =>
      have ih' := ih (by simp) (fun x hx => h x (List.mem_cons_of_mem _ hx))
      refine ⟨?_, ?_, ?_⟩
      · intro hm
        simp only [joinOutS, List.mem_append, List.mem_singleton] at hm
        rcases hm with (h' | h') | h'
        · exact ho.1 h'
        · exact absurd h' (by decide)
        · exact ih'.1 h'
      · simp only [joinOutS, List.append_assoc]
        cases hlo : o with
        | nil => rw [hlo] at ho; simp at ho
        | cons a b => rw [hlo] at ho; simpa using ho.2.1
      · simp only [joinOutS]
        rw [List.getLast?_append, ih'.2.2]; rfl

/-- **the stages after the block parser** on a `<div>` of elements -/
theorem render_elems (cfg : Pipeline.Cfg) (hbl : cfg.blockLevel = TreeProc.defaultBlockLevel)
    (hfmt : cfg.fmt = .xhtml) (refs : List (Str × Str × Option Str)) (L : List Elem) (hne : L ≠ [])
    (hL : ∀ e ∈ L, ElemOK { esc := cfg.esc, refs := refs } e) :
    Probe.render cfg refs (divOf (L.map (·.src))) = .ok (joinOutS (L.map (·.out))) := by
  have h1 := run_elems { esc := cfg.esc, refs := refs } L hL []
  have h2 := prettify_elems _ L hne hL
  have h3 := unescapeTree_elems _ L hL
  have h4 := serialize_elems _ L hne hL
  obtain ⟨j1, j2, j3⟩ := joinOutS_facts (L.map (·.out)) (by simpa using hne) (by
    intro o ho; obtain ⟨e, he, rfl⟩ := List.mem_map.1 ho; exact (hL e he).outOk)
  have h5 := finish_wrapped cfg.blockLevel (joinOutS (L.map (·.out))) j1
    (fun c hc => by rw [j2] at hc; cases hc; decide) (fun c hc => by rw [j3] at hc; cases hc; decide)
  simp only [Probe.render, h1, hbl, h2, h3, hfmt, h4]
  rw [hbl] at h5
  simp only [h5]


/-- the weight of the paths pushed for the children of `mid` -/
theorem mStack_range (mid : Node) (i : Nat) :
    ∀ n, n ≤ mid.children.length →
      mStack mid ((((List.range n).map (fun k => [i, k])).reverse).map (fun q => q.drop 1)) =
        ((mid.children.take n).map (fun c => 1 + below c)).sum := by
  intro n
  induction n with
  | zero => intro _; simp [mStack]
  | succ n ih =>
    intro hn
    have ihn := ih (by omega)
    obtain ⟨c, hc⟩ : ∃ c, mid.children[n]? = some c := by
      cases hx : mid.children[n]? with
      | none => rw [List.getElem?_eq_none_iff] at hx; omega
      | some c => exact ⟨c, rfl⟩
    have htake : mid.children.take (n + 1) = mid.children.take n ++ [c] := by
      rw [List.take_add_one, hc]; rfl
    have hw : wPath mid [n] = 1 + below c := by simp [wPath, getAt, hc]
    simp only [List.range_succ, List.map_append, List.map_cons, List.map_nil, List.reverse_append,
      List.reverse_cons, List.reverse_nil, List.nil_append, List.drop_succ_cons, List.drop_zero,
      List.singleton_append] at ihn ⊢
    rw [mStack_cons, ihn, htake, hw]
    simp only [List.map_append, List.map_cons, List.map_nil, List.sum_append, List.sum_cons, List.sum_nil]
    omega

theorem mStack_range_all (mid : Node) (i : Nat) :
    mStack mid ((((List.range mid.children.length).map (fun k => [i, k])).reverse).map (fun q => q.drop 1)) =
      (mid.children.map (fun c => 1 + below c)).sum := by
  rw [mStack_range mid i _ (Nat.le_refl _), List.take_length]

theorem sum_childless (kids : List Node) (h : ∀ c ∈ kids, c.children = []) :
    (kids.map (fun c => 1 + below c)).sum = kids.length := by
  induction kids with
  | nil => rfl
  | cons c r ih =>
    have hc : below c = 0 := by rw [below_eq, h c List.mem_cons_self]; rfl
    simp only [List.map_cons, List.sum_cons, hc, List.length_cons,
      ih (fun x hx => h x (List.mem_cons_of_mem _ hx))]
    omega

theorem weight_childless (mid : Node) (n i : Nat) (hn : mid.children.length = n)
    (hc : ∀ c ∈ mid.children, c.children = []) :
    mStack mid ((((List.range n).map (fun k => [i, k])).reverse).map (fun q => q.drop 1)) = n := by
  subst hn
  rw [mStack_range_all, sum_childless _ hc]

/-! #### the elements of flat documents, and code blocks, as `Elem`s -/

/-- a leaf of `Lemmas/DocParse.lean` (`hr`, or `p`/`h1`–`h6` with escaped text) -/
def leafElem (esc : List Char) (l : Leaf) : Elem :=
  ⟨l.src esc, l.mid esc, fun _ => l.stash esc, fun _ => [], l.pretty esc, l.fin, l.out⟩

theorem leafElem_ok (cfg : Inline.Cfg) (hE : EscOK cfg.esc) (l : Leaf) (hl : l.ok = true) :
    ElemOK cfg (leafElem cfg.esc l) where
  visit := fun v => by simpa [leafElem] using visitChild_leaf cfg hE l hl v
  pushBound := fun _ => by simp [leafElem]
  weight := fun _ => by simp [leafElem, mStack]
  pushOk := fun _ q hq => by simp [leafElem] at hq
  block := by
    have hf := tagFacts _ (leaf_tag_mem hl)
    cases l <;> exact hf.1
  pretty := by
    show TreeProc.mapTree TreeProc.preRule (TreeProc.mapTree TreeProc.brRule
      (TreeProc.prettifyETree TreeProc.defaultBlockLevel (l.mid cfg.esc))) = l.pretty cfg.esc
    rw [prettifyETree_leaf cfg.esc l hl, mapTree_rules_leaf cfg.esc l hl]
  unesc := unescapeTree_leaf cfg.esc l hl
  ser := serialize_leaf l hl
  outOk := out_facts l hl

/-- a code block whose accumulated text is `t` -/
def codeElem (t : Str) : Elem :=
  ⟨codePre t, codePre t, fun _ => [], fun i => [[i]], { codePre (rstrip t ++ ['\n']) with tail := some ['\n'] },
   { codePre (rstrip t ++ ['\n']) with tail := some ['\n'] },
   "<pre><code>".toList ++ Ser.escCdata (rstrip t ++ ['\n']) ++ "</code></pre>".toList⟩

theorem bl_pre' : TreeProc.isBlockLevel TreeProc.defaultBlockLevel (.name "pre".toList) = true := by decide

theorem codeElem_ok (cfg : Inline.Cfg) (t : Str) (hstx : Post.STX ∉ t) : ElemOK cfg (codeElem t) where
  visit := fun v => by
    have := visitChild_inert cfg (codePre t) v rfl
    simpa [codeElem, codePre] using this
  pushBound := fun _ => by simp [codeElem, codePre, Inline.size, Inline.sizeList, Node.el]
  weight := fun _ => by
    simp [codeElem, codePre, mStack, wPath, getAt, below, belowKids, Inline.size, Inline.sizeList, Node.el]
    omega
  pushOk := fun i q hq => by
    have : q = [i] := by simpa [codeElem] using hq
    subst this
    refine ⟨[], codePre t, rfl, rfl, stillBelow_of_childless cfg _ _ ?_ ?_⟩
    · simp [codeElem, codePre, Inline.size, Inline.sizeList, Node.el]
    · intro c hc
      have : c = codeSpan t := by simpa [codePre, codeSpan] using hc
      subst this
      exact ⟨still_of_calm cfg _ (by simp [calmNode, codeSpan, Node.el]), rfl⟩
  block := bl_pre'
  pretty := rfl
  unesc := by
    simp [codeElem, TreeProc.unescapeTree, TreeProc.unescapeKids, TreeProc.unescapeText, TreeProc.unescAttrs,
      codePre, Node.el, Node.truthy]
  ser := by
    have e7 : Ser.escCdata ['\n'] = ['\n'] := by decide
    obtain ⟨c, r, hcr⟩ : ∃ c r, rstrip t ++ ['\n'] = c :: r := by
      cases h : rstrip t ++ ['\n'] with
      | nil => simp at h
      | cons c r => exact ⟨c, r, rfl⟩
    simp only [codeElem, codePre, Node.el, hcr]
    rw [serialize_plain _ _ _ _ _ _ _ (by decide) (by decide)]
    simp only [Ser.serializeList]
    rw [serialize_plain _ _ _ _ _ _ _ (by decide) (by decide)]
    simp [Node.truthy, Ser.serializeList, e7]
  outOk := by
    refine ⟨?_, rfl, ?_⟩
    · intro hm
      simp only [codeElem, List.mem_append] at hm
      rcases hm with (hm | hm) | hm
      · revert hm; decide
      · rw [Ser.onepass_cdata'] at hm
        refine Escape.stx_not_mem_esc1 _ _ _ ?_ hm
        intro h
        rcases List.mem_append.1 h with h | h
        · exact hstx ((rstrip_prefix t).subset h)
        · revert h; decide
      · revert hm; decide
    · have e : (codeElem t).out = ("<pre><code>".toList ++ Ser.escCdata (rstrip t ++ ['\n']) ++ "</code></pre".toList) ++ ['>'] := by
        simp [codeElem]
      rw [e, List.getLast?_append]; rfl

/-! ### 5. the block parser on a document of pieces, some of which are code blocks -/

/-- a top-level block of the document at the block stage -/
structure BPiece where
  /-- its lines -/
  g : List Str
  /-- the blocks `text.split("\n\n")` cuts it into -/
  blocks : List Str
  isCode : Bool
  /-- the element it appends to the parent -/
  node : Node
  /-- the same after the empty block that ends the document -/
  nodeLast : Node

/-- the last child of `parent`, if any, is neither a list nor a code block -/
def cleanLast (parent : Node) : Prop := ∀ sib, parent.last? = some sib → isListTag sib = false ∧ preCode sib = none

structure BPieceOK (tab : Nat) (p : BPiece) : Prop where
  ne : p.g ≠ []
  split : ∀ Y, splitAux ['\n', '\n'] 0 (joinLines p.g ++ '\n' :: '\n' :: Y) = p.blocks ++ splitAux ['\n', '\n'] 0 Y
  prod : ∀ (refs : Refs) (parent : Node) (rest : List Str) (f : Nat), isItemTag parent = false →
    (p.isCode = true → cleanLast parent) →
    ∃ k, parseBlocks tab (f + k) [] refs parent (p.blocks ++ rest) =
      parseBlocks tab f [] refs (parent.append p.node) rest
  clean : p.isCode = false → isListTag p.node = false ∧ preCode p.node = none
  last : ∀ (pb : PB) (refs : Refs) (parent : Node),
    dispatch tab pb [] refs (parent.append p.node) [] [] = some (parent.append p.nodeLast, refs, [])

/-- no code block directly after a code block -/
def noCodeAfterCode : List BPiece → Prop
  | a :: b :: r => (b.isCode = true → a.isCode = false) ∧ noCodeAfterCode (b :: r)
  | _ => True

/-- the children the pieces give: the last one as the final empty block leaves it -/
def finalNodes : List BPiece → List Node
  | [] => []
  | [p] => [p.nodeLast]
  | p :: q :: r => p.node :: finalNodes (q :: r)

def blocksOf (ps : List BPiece) : List Str := ps.flatMap (·.blocks)

theorem splitS_pieces (tab : Nat) (ps : List BPiece) (hne : ps ≠ []) (hP : ∀ p ∈ ps, BPieceOK tab p) :
    splitS ['\n', '\n'] (joinChunks (ps.map (fun p => joinLines p.g)) ++ ['\n', '\n']) = blocksOf ps ++ [[]] := by
  induction ps with
  | nil => exact absurd rfl hne
  | cons p r ih =>
    have hp := hP p List.mem_cons_self
    cases r with
    | nil =>
      simp only [List.map_cons, List.map_nil, joinChunks, splitS, blocksOf, List.flatMap_cons, List.flatMap_nil,
        List.append_nil]
      have := hp.split []
      simpa [splitAux] using this
    | cons q r' =>
      have := ih (by simp) (fun x hx => hP x (List.mem_cons_of_mem _ hx))
      simp only [List.map_cons, joinChunks, splitS, blocksOf, List.flatMap_cons, List.append_assoc,
        List.cons_append, List.nil_append] at this ⊢
      rw [hp.split, this]

theorem parse_pieces (tab : Nat) (refs : Refs) (ps : List BPiece) (hne : ps ≠ []) (hP : ∀ p ∈ ps, BPieceOK tab p)
    (hadj : noCodeAfterCode ps) :
    ∀ (parent : Node), isItemTag parent = false →
      (∀ p, ps.head? = some p → p.isCode = true → cleanLast parent) →
      ∃ F, parseBlocks tab F [] refs parent (blocksOf ps ++ [[]]) =
        some ({ parent with children := parent.children ++ finalNodes ps }, refs) := by
  induction ps with
  | nil => exact absurd rfl hne
  | cons p r ih =>
    intro parent hpar hhead
    have hp := hP p List.mem_cons_self
    cases r with
    | nil =>
      obtain ⟨k, hk⟩ := hp.prod refs parent [[]] 1 hpar (hhead p rfl)
      refine ⟨1 + k, ?_⟩
      simp only [blocksOf, List.flatMap_cons, List.flatMap_nil, List.append_nil, finalNodes]
      rw [hk, parseBlocks_step, hp.last]
      simp [parseBlocks, Node.append]
    | cons q r' =>
      have hadj' : noCodeAfterCode (q :: r') := hadj.2
      obtain ⟨F, hF⟩ := ih (by simp) (fun x hx => hP x (List.mem_cons_of_mem _ hx)) hadj' (parent.append p.node)
        (by rw [isItemTag_append]; exact hpar)
        (by
          intro q' hq' hc
          have : q' = q := by simpa using hq'.symm
          subst this
          intro sib hs
          rw [last_append] at hs
          cases hs
          exact hp.clean (hadj.1 hc))
      obtain ⟨k, hk⟩ := hp.prod refs parent (blocksOf (q :: r') ++ [[]]) F hpar (hhead p rfl)
      refine ⟨F + k, ?_⟩
      have e : blocksOf (p :: q :: r') ++ [[]] = p.blocks ++ (blocksOf (q :: r') ++ [[]]) := by
        simp [blocksOf, List.append_assoc]
      rw [e, hk, hF]
      simp [Node.append, finalNodes, List.append_assoc]

/-- **the block parser on a document of pieces** -/
theorem parseDocument_pieces (tab : Nat) (ps : List BPiece) (hne : ps ≠ []) (hP : ∀ p ∈ ps, BPieceOK tab p)
    (hadj : noCodeAfterCode ps) :
    parseDocument tab (joinChunks (ps.map (fun p => joinLines p.g)) ++ ['\n', '\n']) =
      some (divOf (finalNodes ps), []) := by
  obtain ⟨F, hF⟩ := parse_pieces tab [] ps hne hP hadj (Node.el "div") rfl
    (fun p _ _ sib hs => by simp [Node.last?, Node.el] at hs)
  rw [← splitS_pieces tab ps hne hP] at hF
  obtain ⟨r, hr⟩ := Option.isSome_iff_exists.1
    (parseDocument_total tab (joinChunks (ps.map (fun p => joinLines p.g)) ++ ['\n', '\n']))
  rw [hr]
  simp only [parseDocument, parseDocumentWith, parseChunk] at hr
  have a1 := parseBlocks_fuel_mono (fuelFor (joinChunks (ps.map (fun p => joinLines p.g)) ++ ['\n', '\n']).length) hF
  have a2 := parseBlocks_fuel_mono F hr
  rw [Nat.add_comm] at a2
  rw [a2] at a1
  rw [a1]
  simp [divOf, Node.el]


/-! #### the two kinds of pieces -/

/-- a piece of `Lemmas/DocParse.lean`: one chunk without empty line, one element -/
def chunkPiece (esc : List Char) (p : Piece) : BPiece :=
  ⟨p.g, [joinLines p.g], false, p.leaf.src esc, p.leaf.src esc⟩

theorem isListTag_leaf (esc : List Char) (l : Leaf) (hl : l.ok = true) : isListTag (l.src esc) = false := by
  have hmem := leaf_tag_mem hl
  have key : ∀ tag ∈ "hr".toList :: textTags, tag ≠ "ul".toList ∧ tag ≠ "ol".toList := by decide
  have := key _ hmem
  cases l with
  | hr => simp only [Leaf.src, isListTag, Node.isTag]; decide
  | txt tag t =>
    simp only [Leaf.tag] at this
    have a1 : tag ≠ ['u', 'l'] := this.1
    have a2 : tag ≠ ['o', 'l'] := this.2
    simp [Leaf.src, isListTag, Node.isTag, a1, a2]

theorem chunkPiece_ok (esc : List Char) (tab : Nat) (p : Piece) (h : PieceOK esc tab p) :
    BPieceOK tab (chunkPiece esc p) where
  ne := h.ne
  split := fun Y => by
    simpa [chunkPiece] using splitAux_chunk true (joinLines p.g) Y h.nel
  prod := fun refs parent rest f _ _ => ⟨1, by
    simp only [chunkPiece, List.singleton_append, parseBlocks_step, h.prod _ refs parent rest]⟩
  clean := fun _ => ⟨isListTag_leaf esc p.leaf h.ok, preCode_leaf esc p.leaf h.ok⟩
  last := fun pb refs parent => by
    apply dispatch_empty_block
    intro sib hs
    rw [last_append] at hs
    cases hs
    exact preCode_leaf esc p.leaf h.ok

/-- the blocks of the further runs of a code block -/
def moreBlocks (tab : Nat) (more : List (Nat × List Str)) : List Str := more.flatMap (fun er => gapBlocks tab er.1 er.2)

/-- the text after the `"\n\n"` that ends the first run, followed by `"\n\n"` and `Y` -/
def restTextY (tab : Nat) (Y : Str) : List (Nat × List Str) → Str
  | [] => Y
  | er :: more => nls er.1 ++ indentRun tab er.2 ++ '\n' :: '\n' :: restTextY tab Y more

theorem codeSource_then (tab : Nat) (first : List Str) (more : List (Nat × List Str)) (Y : Str) :
    codeSource tab first more ++ '\n' :: '\n' :: Y = indentRun tab first ++ '\n' :: '\n' :: restTextY tab Y more := by
  have e : ∀ more : List (Nat × List Str),
      more.flatMap (fun er => nls (er.1 + 2) ++ joinLines (indentLines tab er.2)) ++ '\n' :: '\n' :: Y =
        '\n' :: '\n' :: restTextY tab Y more := by
    intro more
    induction more with
    | nil => rfl
    | cons er more ih =>
      simp only [List.flatMap_cons, List.append_assoc, ih, restTextY, indentRun]
      simp [nls, List.replicate_succ]
  simp only [codeSource, runsText, List.append_assoc, e, indentRun]

theorem splitAux_restTextY (tab : Nat) (Y : Str) (more : List (Nat × List Str)) (h : ∀ er ∈ more, RunOk er.2) :
    splitAux ['\n', '\n'] 0 (restTextY tab Y more) = moreBlocks tab more ++ splitAux ['\n', '\n'] 0 Y := by
  induction more with
  | nil => rfl
  | cons er more ih =>
    simp only [restTextY, moreBlocks, List.flatMap_cons, List.append_assoc]
    rw [← List.append_assoc, splitAux_gap tab er.2 (h er List.mem_cons_self),
      ih (fun x hx => h x (List.mem_cons_of_mem _ hx))]
    rfl

/-- the further runs of a code block, followed by any blocks -/
theorem parse_more (tab : Nat) (state : List BState) (refs : Refs) (parent : Node) (hp : isItemTag parent = false)
    (bs : List Str) (more : List (Nat × List Str)) (h : ∀ er ∈ more, RunOk er.2) :
    ∀ (t : Str) (f : Nat), ∃ k,
      parseBlocks tab (f + k) state refs (parent.append (codePre t)) (moreBlocks tab more ++ bs) =
        parseBlocks tab f state refs
          (parent.append (codePre (t ++ more.flatMap (fun er => nls (er.1 + 1) ++ runText er.2)))) bs := by
  induction more with
  | nil => intro t f; exact ⟨0, by simp [moreBlocks]⟩
  | cons er more ih =>
    intro t f
    obtain ⟨k1, h1⟩ := ih (fun x hx => h x (List.mem_cons_of_mem _ hx)) (t ++ nls (er.1 + 1) ++ runText er.2) f
    obtain ⟨k2, h2⟩ := parse_gap tab state refs parent hp er.2 (h er List.mem_cons_self) (moreBlocks tab more ++ bs)
      er.1 t (f + k1)
    refine ⟨k1 + k2, ?_⟩
    simp only [moreBlocks, List.flatMap_cons, List.append_assoc] at h1 h2 ⊢
    rw [← Nat.add_assoc, h2, h1]

/-- an indented code block as a piece -/
def codePiece (tab : Nat) (first : List Str) (more : List (Nat × List Str)) : BPiece :=
  ⟨indentLines tab (allLines first more), indentRun tab first :: moreBlocks tab more, true,
   codePre (codeAccum first more), codePre (codeAccum first more ++ ['\n', '\n'])⟩

theorem codePiece_ok (tab : Nat) (first : List Str) (more : List (Nat × List Str)) (h1 : RunOk first)
    (h : ∀ er ∈ more, RunOk er.2) : BPieceOK tab (codePiece tab first more) where
  ne := by
    have := h1.1
    cases first with
    | nil => exact absurd rfl this
    | cons a b => simp [codePiece, indentLines, allLines]
  split := fun Y => by
    have hsrc : joinLines (codePiece tab first more).g = codeSource tab first more :=
      codeSource_of_lines tab first more h1.1 (fun er her => (h er her).1)
    rw [hsrc, codeSource_then]
    open Escape in
    rw [splitAux_tight true _ (tight_indentRun tab h1), splitAux_restTextY tab Y more h]
    rfl
  prod := fun refs parent rest f hpar hclean => by
    obtain ⟨c, l, ls, rfl, hc⟩ := h1.shape
    obtain ⟨k, hk⟩ := parse_more tab [] refs parent hpar rest more h (runText ((c :: l) :: ls)) f
    refine ⟨k + 1, ?_⟩
    simp only [codePiece, List.cons_append]
    rw [← Nat.add_assoc, parseBlocks_step]
    simp only [indentRun]
    rw [dispatch_run tab _ [] refs _ c l ls _ hc hpar (fun sib hs => (hclean rfl sib hs).1),
      codeP_fresh tab refs _ _ _ h1.1 h1.nl (fun sib hs => (hclean rfl sib hs).2)]
    simpa [codeAccum] using hk
  clean := fun hc => by simp [codePiece] at hc
  last := fun pb refs parent => by
    rw [dispatch_nil]
    show some (emptyP refs (parent.append (codePre (codeAccum first more))) [] []) = _
    rw [emptyP_nil]; rfl

/-! ### 6. the conversion of a document of pieces -/

/-- a piece at the block stage with its element (and the element it is when it ends the document) -/
structure Piece2 where
  b : BPiece
  elem : Elem
  elemLast : Elem

structure Piece2OK (cfg : Pipeline.Cfg) (p : Piece2) : Prop where
  bok : BPieceOK cfg.tab p.b
  safe : ∀ l ∈ p.b.g, lineSafe l = true ∧ '<' ∉ l ∧ refsClosed l = true
  vis : ∃ c ∈ joinLines p.b.g, isSpace c = false
  src : p.elem.src = p.b.node
  srcLast : p.elemLast.src = p.b.nodeLast
  eok : ∀ refs, ElemOK { esc := cfg.esc, refs := refs } p.elem
  eokLast : ∀ refs, ElemOK { esc := cfg.esc, refs := refs } p.elemLast
  out : p.elemLast.out = p.elem.out

/-- the elements of the document: the last piece contributes its `elemLast` -/
def finalElems : List Piece2 → List Elem
  | [] => []
  | [p] => [p.elemLast]
  | p :: q :: r => p.elem :: finalElems (q :: r)

theorem finalElems_src (cfg : Pipeline.Cfg) (ps : List Piece2) (hP : ∀ p ∈ ps, Piece2OK cfg p) :
    (finalElems ps).map (·.src) = finalNodes (ps.map (·.b)) := by
  induction ps with
  | nil => rfl
  | cons p r ih =>
    cases r with
    | nil => simp [finalElems, finalNodes, (hP p List.mem_cons_self).srcLast]
    | cons q r' =>
      have := ih (fun x hx => hP x (List.mem_cons_of_mem _ hx))
      simp only [List.map_cons] at this
      simp [finalElems, finalNodes, (hP p List.mem_cons_self).src, this]

theorem finalElems_out (cfg : Pipeline.Cfg) (ps : List Piece2) (hP : ∀ p ∈ ps, Piece2OK cfg p) :
    (finalElems ps).map (·.out) = ps.map (·.elem.out) := by
  induction ps with
  | nil => rfl
  | cons p r ih =>
    cases r with
    | nil => simp [finalElems, (hP p List.mem_cons_self).out]
    | cons q r' =>
      have := ih (fun x hx => hP x (List.mem_cons_of_mem _ hx))
      simp only [List.map_cons] at this
      simp [finalElems, this]

theorem finalElems_ok (cfg : Pipeline.Cfg) (ps : List Piece2) (hP : ∀ p ∈ ps, Piece2OK cfg p) (refs) :
    ∀ e ∈ finalElems ps, ElemOK { esc := cfg.esc, refs := refs } e := by
  induction ps with
  | nil => intro e he; simp [finalElems] at he
  | cons p r ih =>
    cases r with
    | nil =>
      intro e he
      have : e = p.elemLast := by simpa [finalElems] using he
      subst this; exact (hP p List.mem_cons_self).eokLast refs
    | cons q r' =>
      intro e he
      simp only [finalElems, List.mem_cons] at he
      rcases he with rfl | he
      · exact (hP p List.mem_cons_self).eok refs
      · exact ih (fun x hx => hP x (List.mem_cons_of_mem _ hx)) e (by simpa [finalElems] using he)

theorem finalElems_ne (ps : List Piece2) (h : ps ≠ []) : finalElems ps ≠ [] := by
  cases ps with
  | nil => exact absurd rfl h
  | cons p r => cases r <;> simp [finalElems]

theorem noAmpHash_of_no_amp (l : Str) (h : '&' ∉ l) : noAmpHash l = true := by
  simp only [noAmpHash, Bool.not_eq_true']
  rw [contains_eq_false_iff]
  intro pre post e
  apply h
  rw [e]; simp [S]

/-- lines without `&#`: the text they make has closed references -/
theorem refsClosed_lines (ls : List Str) (h : ∀ l ∈ ls, refsClosed l = true) :
    refsClosed (joinLines ls ++ ['\n', '\n']) = true := by
  induction ls with
  | nil => decide
  | cons l r ih =>
    have hl := h l List.mem_cons_self
    have ihr := ih (fun x hx => h x (List.mem_cons_of_mem _ hx))
    cases r with
    | nil =>
      simp only [joinLines, join_singleton]
      exact refsClosed_append l '\n' ['\n'] (by decide) hl (by decide)
    | cons l' r' =>
      rw [joinLines_cons_cons, List.append_assoc, List.cons_append]
      exact refsClosed_append l '\n' _ (by decide) hl (refsClosed_cons_of_ne (by decide) ihr)

/-- **`Markdown.convert`** on a document made of pieces separated by blank lines: the outputs of the pieces, one per
    line -/
theorem convert_pieces2 (cfg : Pipeline.Cfg) (hbl : cfg.blockLevel = TreeProc.defaultBlockLevel)
    (hfmt : cfg.fmt = .xhtml) (ps : List Piece2) (hne : ps ≠ []) (hP : ∀ p ∈ ps, Piece2OK cfg p)
    (hadj : noCodeAfterCode (ps.map (·.b))) :
    Pipeline.convert cfg (joinLines (flatLines (ps.map (·.b.g)))) = .ok (joinOutS (ps.map (·.elem.out))) := by
  have hgne : ∀ g ∈ ps.map (·.b.g), g ≠ [] := by
    intro g hg; obtain ⟨p, hp, rfl⟩ := List.mem_map.1 hg; exact (hP p hp).bok.ne
  have hlines : ∀ l ∈ flatLines (ps.map (·.b.g)), lineSafe l = true ∧ '<' ∉ l ∧ refsClosed l = true := by
    intro l hl
    rcases mem_flatLines hl with rfl | ⟨g, hg, hlg⟩
    · exact ⟨by decide, by simp, rfl⟩
    · obtain ⟨p, hp, rfl⟩ := List.mem_map.1 hg
      exact (hP p hp).safe l hlg
  have hfl : flatLines (ps.map (·.b.g)) ≠ [] := by
    obtain ⟨p, r, rfl⟩ : ∃ p r, ps = p :: r := by
      cases ps with
      | nil => exact absurd rfl hne
      | cons p r => exact ⟨p, r, rfl⟩
    have := (hP p List.mem_cons_self).bok.ne
    cases r with
    | nil => simpa [flatLines] using this
    | cons a b => simp [flatLines, this]
  generalize hsrc : joinLines (flatLines (ps.map (·.b.g))) = src
  have hchunks : src = joinChunks ((ps.map (·.b)).map (fun p => joinLines p.g)) := by
    rw [← hsrc, joinLines_flatLines _ hgne, List.map_map, List.map_map]; rfl
  have hlt : ∀ c ∈ src, c ≠ '<' := by
    intro c hc
    rw [← hsrc] at hc
    rcases DocParse.mem_joinLines hc with rfl | ⟨l, hl, hcl⟩
    · decide
    · exact fun e => (hlines l hl).2.1 (e ▸ hcl)
  have h1 : src.contains '<' = false := by
    cases hc : src.contains '<' with
    | false => rfl
    | true => exact absurd rfl (hlt _ (List.contains_iff_mem.1 hc))
  have h2 : Normalize.isBlankDoc src = false := by
    rw [Normalize.isBlankDoc_eq_all]
    obtain ⟨p, r, rfl⟩ : ∃ p r, ps = p :: r := by
      cases ps with
      | nil => exact absurd rfl hne
      | cons p r => exact ⟨p, r, rfl⟩
    obtain ⟨c, hc, hcs⟩ := (hP p List.mem_cons_self).vis
    have hmem : c ∈ src := by
      rw [hchunks]
      cases r with
      | nil => simpa [joinChunks] using hc
      | cons a b => simp [joinChunks, hc]
    cases hall : src.all isSpace with
    | false => rfl
    | true =>
      have := List.all_eq_true.1 hall c hmem
      rw [hcs] at this; cases this
  have h3 : Pipeline.prepare cfg src = src ++ ['\n', '\n'] := by
    rw [Pipeline.prepare, ← hsrc, normalize_lines cfg.tab _ hfl (fun l hl => (hlines l hl).1)]
    exact extract_id _ (refsClosed_lines _ (fun l hl => (hlines l hl).2.2))
  have h4 := parseDocument_pieces cfg.tab (ps.map (·.b)) (by simpa using hne)
    (by intro b hb; obtain ⟨p, hp, rfl⟩ := List.mem_map.1 hb; exact (hP p hp).bok) hadj
  rw [← hchunks, ← finalElems_src cfg ps hP] at h4
  have h5 := render_elems cfg hbl hfmt [] (finalElems ps) (finalElems_ne ps hne) (finalElems_ok cfg ps hP [])
  rw [finalElems_out cfg ps hP] at h5
  rw [Probe.convert_eq_render]
  simp only [h1, h2, Bool.false_eq_true, if_false, h3, h4, List.reverse_nil, h5]

/-! ### 7. the printed form of a block as a piece -/

/-- a piece of a flat document -/
def piece2OfPiece (esc : List Char) (p : Piece) : Piece2 :=
  ⟨chunkPiece esc p, leafElem esc p.leaf, leafElem esc p.leaf⟩

theorem piece2OfPiece_ok (p : Piece) (h : PieceOK Generated.escapedChars 4 p) :
    Piece2OK {} (piece2OfPiece Generated.escapedChars p) where
  bok := chunkPiece_ok _ 4 p h
  safe := fun l hl => ⟨(h.safe l hl).1, (h.safe l hl).2.1, refsClosed_of_no_amp l (h.safe l hl).2.2⟩
  vis := h.vis
  src := rfl
  srcLast := rfl
  eok := fun refs => leafElem_ok { esc := Generated.escapedChars, refs := refs } escOK_generated p.leaf h.ok
  eokLast := fun refs => leafElem_ok { esc := Generated.escapedChars, refs := refs } escOK_generated p.leaf h.ok
  out := rfl

/-- a code block -/
def codePiece2 (f : List Str) (m : List (Nat × List Str)) : Piece2 :=
  ⟨codePiece 4 f m, codeElem (codeAccum f m), codeElem (codeAccum f m ++ ['\n', '\n'])⟩

theorem mem_codeAccum {f : List Str} {m : List (Nat × List Str)} {c : Char} (h : c ∈ codeAccum f m) :
    c = '\n' ∨ c ∈ "&amp;lt;gt;".toList ∨ (∃ l ∈ f, c ∈ l) ∨ ∃ er ∈ m, ∃ l ∈ er.2, c ∈ l := by
  rw [codeAccum_eq] at h
  rcases List.mem_append.1 h with h | h
  · rcases mem_codeEscape h with h | h
    · simp only [runsText, List.mem_append, List.mem_flatMap] at h
      rcases h with h | ⟨er, her, h | h⟩
      · rcases CodeLaw.mem_joinLines ((rstrip_prefix _).subset h) with h | h
        · exact Or.inl h
        · exact Or.inr (Or.inr (Or.inl h))
      · exact Or.inl (List.eq_of_mem_replicate h)
      · rcases CodeLaw.mem_joinLines ((rstrip_prefix _).subset h) with h | h
        · exact Or.inl h
        · exact Or.inr (Or.inr (Or.inr ⟨er, her, h⟩))
    · exact Or.inr (Or.inl h)
  · exact Or.inl (by simpa using h)

open Code in
/-- what `PrettifyTreeprocessor` leaves of the code text when the block does not end the document -/
theorem prettified_codeAccum' (first : List Str) (more : List (Nat × List Str)) :
    rstrip (codeAccum first more) ++ ['\n'] = Code.codeEscape (trimSpec first more) ++ ['\n'] := by
  have h3 : (['\n'] : Str).all isSpace = true := by decide
  rw [codeAccum_eq]
  unfold rstrip at *
  rw [rstripP_append_of_all h3]
  exact congrArg (· ++ ['\n']) (rstrip_codeEscape _)

theorem rstrip_nl2 (t : Str) : rstrip (t ++ ['\n', '\n']) = rstrip t := by
  unfold rstrip; exact rstripP_append_of_all (by decide) t

theorem codePiece2_ok (f : List Str) (m : List (Nat × List Str))
    (hf : isCodeRun f = true) (hm : ∀ er ∈ m, isCodeRun er.2 = true)
    (hvis : (allLines f m).any (fun l => !isBlank l) = true) :
    Piece2OK {} (codePiece2 f m) := by
  obtain ⟨i1, r1, c1⟩ := isCodeRun_spec hf
  have hm' := fun er her => isCodeRun_spec (hm er her)
  have hstx : Post.STX ∉ codeAccum f m := by
    intro h
    rcases mem_codeAccum h with h | h | ⟨l, hl, hc⟩ | ⟨er, her, l, hl, hc⟩
    · revert h; decide
    · revert h; decide
    · exact (isCodeChar_spec (c1 l hl _ hc)).2.2.2.2.1 rfl
    · exact (isCodeChar_spec ((hm' er her).2.2 l hl _ hc)).2.2.2.2.1 rfl
  have hlineOk : ∀ l ∈ allLines f m, l = [] ∨ (isCodeLine l = true) := by
    intro l hl
    simp only [allLines, List.mem_append, List.mem_flatMap] at hl
    rcases hl with hl | ⟨er, her, hl | hl⟩
    · have := hf; simp only [isCodeRun, Bool.and_eq_true, List.all_eq_true] at this; exact Or.inr (this.2 l hl)
    · exact Or.inl (List.eq_of_mem_replicate hl)
    · have := hm er her; simp only [isCodeRun, Bool.and_eq_true, List.all_eq_true] at this; exact Or.inr (this.2 l hl)
  refine ⟨codePiece_ok 4 f m i1.ok (fun er her => (hm' er her).1.ok), ?_, ?_, rfl, rfl,
    fun refs => codeElem_ok _ _ hstx, fun refs => codeElem_ok _ _ ?_, ?_⟩
  · intro l hl
    obtain ⟨l0, hl0, rfl⟩ := List.mem_map.1 hl
    rcases hlineOk l0 hl0 with rfl | hcl
    · exact ⟨by decide, by simp [indentLine], rfl⟩
    · simp only [isCodeLine, Bool.and_eq_true, List.all_eq_true, List.any_eq_true] at hcl
      obtain ⟨⟨hch, x, hx, hxs⟩, hrc⟩ := hcl
      have hne : l0 ≠ [] := by intro e; subst e; simp at hx
      have hil : indentLine 4 l0 = spaces 4 ++ l0 := by
        cases l0 with
        | nil => exact absurd rfl hne
        | cons a b => rfl
      refine ⟨?_, ?_, refsClosed_indentLine 4 hrc⟩
      · rw [hil]
        simp only [lineSafe, Bool.and_eq_true, List.all_eq_true, Bool.or_eq_true, List.any_eq_true, bne_iff_ne, ne_eq]
        refine ⟨?_, Or.inr ⟨x, List.mem_append_right _ hx, by simpa using hxs⟩⟩
        intro c hc
        rcases List.mem_append.1 hc with hc | hc
        · rw [List.eq_of_mem_replicate hc]; decide
        · obtain ⟨_, a2, a3, a4, a5, a6⟩ := isCodeChar_spec (hch c hc)
          exact ⟨⟨⟨⟨a2, a5⟩, a6⟩, a3⟩, a4⟩
      · rw [hil]
        intro hc
        rcases List.mem_append.1 hc with hc | hc
        · exact absurd (List.eq_of_mem_replicate hc) (by decide)
        · exact (isCodeChar_spec (hch _ hc)).1 rfl
  · obtain ⟨l, hl, hb⟩ := List.any_eq_true.1 hvis
    have hb' : isBlank l = false := by simpa using hb
    have : ¬ (∀ c ∈ l, isSpace c = true) := fun hall => by
      rw [(isBlank_iff l).2 hall] at hb'; cases hb'
    have hex : ∃ c ∈ l, isSpace c = false := by
      apply Decidable.by_contra
      intro hn
      apply this
      intro c hc
      cases hs : isSpace c with
      | true => rfl
      | false => exact absurd ⟨c, hc, hs⟩ hn
    obtain ⟨c, hc, hcs⟩ := hex
    refine ⟨c, ?_, hcs⟩
    show c ∈ joinLines (indentLines 4 (allLines f m))
    rw [codeSource_of_lines 4 f m i1.1 (fun er her => (hm' er her).1.1)]
    exact mem_codeSource_of_line hl hc
  · intro h
    rcases List.mem_append.1 h with h | h
    · exact hstx h
    · revert h; decide
  · show (codeElem (codeAccum f m ++ ['\n', '\n'])).out = (codeElem (codeAccum f m)).out
    simp only [codeElem, rstrip_nl2]


theorem specBlock_code (ls : List Str) :
    specBlock (.code ls) = S "<pre><code>" ++ htmlEsc (join ['\n'] ls) ++ S "\n</code></pre>" := rfl

/-- every printed form of a well-formed block of the sub-grammar is a piece whose output is what `spec` prescribes -/
theorem printBlock_flatCode (b : DocSpec.Block) (hf : isFlatCodeBlock b = true) (hw : wfBlock none b = true)
    (st : PSt) :
    ∃ (p : Piece2) (st' : PSt), printBlock true b st = (p.b.g, st') ∧ st'.defs = st.defs ∧
      Piece2OK {} p ∧ p.elem.out = specBlock b ∧ p.b.isCode = isCode b := by
  by_cases hc : isCode b = true
  · cases b with
    | code ls =>
      simp only [isFlatCodeBlock] at hf
      simp only [wfBlock, Bool.and_eq_true] at hw
      obtain ⟨f, m, hls, hfr, hmr, hvis, _, htrim⟩ := codeLines_runs ls hw.1 hf
      refine ⟨codePiece2 f m, st, ?_, rfl, codePiece2_ok f m hfr hmr hvis, ?_, rfl⟩
      · show (prefixLines (rep 4 ' ') ls, st) = _
        rw [prefixLines_eq, hls]; rfl
      · show "<pre><code>".toList ++ Ser.escCdata (rstrip (codeAccum f m) ++ ['\n']) ++ "</code></pre>".toList = _
        rw [prettified_codeAccum', escCdata_code_nl, htrim, specBlock_code, htmlEsc_eq_codeEscape]
        simp [S, joinLines]
    | rule => simp [isCode] at hc
    | para _ => simp [isCode] at hc
    | atx _ _ => simp [isCode] at hc
    | setext _ _ => simp [isCode] at hc
    | quote _ => simp [isCode] at hc
    | ulist _ _ => simp [isCode] at hc
    | olist _ _ => simp [isCode] at hc
  · have hflat : isFlatBlock b = true := by
      cases b <;> simp_all [isFlatCodeBlock, isFlatBlock, isCode]
    obtain ⟨p, st', hp, hd, hok, hout⟩ := printBlock_flat b hflat hw st
    refine ⟨piece2OfPiece Generated.escapedChars p, st', hp, hd, piece2OfPiece_ok p hok, hout, ?_⟩
    simp only [Bool.not_eq_true] at hc
    rw [hc]; rfl

theorem okNexts_cons2 (a b : DocSpec.Block) (r : List DocSpec.Block) :
    okNexts (a :: b :: r) = (okNext a b && okNexts (b :: r)) := by rw [okNexts]

theorem printBlocks_flatCode (d : Doc) (hne : d ≠ []) (hf : ∀ b ∈ d, isFlatCodeBlock b = true)
    (hw : ∀ b ∈ d, wfBlock none b = true) (hnext : okNexts d = true) :
    ∀ st : PSt, ∃ (ps : List Piece2) (st' : PSt), printBlocks true d st = (flatLines (ps.map (·.b.g)), st') ∧
      st'.defs = st.defs ∧ ps ≠ [] ∧ (∀ p ∈ ps, Piece2OK {} p) ∧
      joinOutS (ps.map (·.elem.out)) = specBlocks d ∧ noCodeAfterCode (ps.map (·.b)) ∧
      (ps.head?.map (·.b.isCode) = d.head?.map isCode) := by
  induction d with
  | nil => exact absurd rfl hne
  | cons b r ih =>
    intro st
    obtain ⟨p, st1, hp, hd1, hok, hout, hcode⟩ :=
      printBlock_flatCode b (hf b List.mem_cons_self) (hw b List.mem_cons_self) st
    cases r with
    | nil =>
      refine ⟨[p], st1, ?_, hd1, by simp, ?_, ?_, trivial, by simp [hcode]⟩
      · rw [printBlocks_one, hp]; rfl
      · intro q hq; have : q = p := by simpa using hq
        subst this; exact hok
      · rw [specBlocks_one, ← hout]; rfl
    | cons b' r' =>
      rw [okNexts_cons2, Bool.and_eq_true] at hnext
      obtain ⟨ps, st2, hps, hd2, hpsne, hoks, houts, hadj, hhead⟩ := ih (by simp)
        (fun x hx => hf x (List.mem_cons_of_mem _ hx)) (fun x hx => hw x (List.mem_cons_of_mem _ hx)) hnext.2 st1
      obtain ⟨q, qs, rfl⟩ : ∃ q qs, ps = q :: qs := by
        cases ps with
        | nil => exact absurd rfl hpsne
        | cons q qs => exact ⟨q, qs, rfl⟩
      have hq : q.b.isCode = isCode b' := by simpa using hhead
      refine ⟨p :: q :: qs, st2, ?_, by rw [hd2, hd1], by simp, ?_, ?_, ?_, by simp [hcode]⟩
      · rw [printBlocks_cons2, hp]
        simp only [hps]
        rfl
      · intro x hx
        rcases List.mem_cons.1 hx with rfl | hx
        · exact hok
        · exact hoks x hx
      · rw [specBlocks_cons2, ← houts, ← hout]; rfl
      · refine ⟨?_, hadj⟩
        intro hqc
        rw [hq] at hqc
        rw [hcode]
        have h1 := hnext.1
        simp only [okNext, hqc, Bool.and_true, Bool.and_eq_true, Bool.not_eq_true', Bool.or_eq_false_iff] at h1
        exact h1.1.2.1

/-- **C01 on flat documents with indented code blocks**: every spelling of a well-formed document of the
    sub-grammar converts to what `spec` prescribes -/
theorem convert_flatCode (d : Doc) (sp : Spelling) (hwf : WF d = true) (hflat : FlatCodeDoc d = true) :
    Pipeline.convert {} (print d sp) = .ok (spec d) := by
  simp only [WF, Bool.and_eq_true, Bool.not_eq_true', List.isEmpty_eq_false_iff] at hwf
  obtain ⟨⟨⟨hne, hnx⟩, hbl⟩, _⟩ := hwf
  have hf : ∀ b ∈ d, isFlatCodeBlock b = true := by
    simpa [FlatCodeDoc, List.all_eq_true] using hflat
  obtain ⟨ps, st', hps, hdefs, hpsne, hoks, houts, hadj, _⟩ :=
    printBlocks_flatCode d hne hf (wfBlockList_mem hbl) hnx ⟨sp.choices, 1, []⟩
  have hprint : print d sp = joinLines (flatLines (ps.map (·.b.g))) := by
    simp only [print, hps]
    have : st'.defs = [] := hdefs
    simp [this, joinLines]
  rw [hprint, spec, ← houts]
  exact convert_pieces2 {} rfl rfl ps hpsne hoks hadj

/-! ### 8. code spans among words and escapes: the inline stage -/

/-- a code span as printed (fence, padded body, fence) and the plain text that follows it -/
structure SpanSeg where
  n : Nat
  b : Str
  t : Str

/-- the body with its padding -/
def padded (b : Str) : Str := codePad b ++ b ++ codePad b

def spanSrc (n : Nat) (b : Str) : Str := ticks n ++ (padded b ++ ticks n)

def rawSegs (esc : List Char) : List SpanSeg → Str
  | [] => []
  | s :: r => spanSrc s.n s.b ++ (escAll esc s.t ++ rawSegs esc r)

/-- the plain texts with the placeholders of the spans (numbered from `n`) between them -/
def embed (n : Nat) : List SpanSeg → Str
  | [] => []
  | s :: r => placeholder n ++ (s.t ++ embed (n + 1) r)

def spanNodes (segs : List SpanSeg) : List StashItem :=
  segs.map (fun s => .node (codeSpan (Code.codeEscape s.b)))

/-- what the backtick pattern needs of the spans: a fence that the padded body does not close, padding that `strip`
    removes, and between two spans a non-empty text that does not end with a backslash -/
def SegsOK : List SpanSeg → Prop
  | [] => True
  | s :: r => (∃ k, s.n = k + 1) ∧ spanBodyOk s.n (padded s.b) = true ∧ strip (padded s.b) = s.b ∧
      (r ≠ [] → s.t ≠ [] ∧ s.t.getLast? ≠ some '\\') ∧ SegsOK r

theorem countBs_escAll_append {esc : List Char} (r Z : Str) (hne : r ≠ []) (hl : r.getLast? ≠ some '\\') :
    countPrefix '\\' none (escAll esc r ++ Z) = countPrefix '\\' none (escAll esc r) ∧
    countPrefix '\\' none (escAll esc r) < (escAll esc r).length := by
  have hlast : (escAll esc r).getLast? ≠ some '\\' := by rw [getLast_escAll esc r hne]; exact hl
  have hnotall : (escAll esc r).all (· = '\\') = false := by
    cases h : (escAll esc r).all (· = '\\') with
    | false => rfl
    | true =>
      exfalso
      have hne' := escAll_ne_nil (esc := esc) hne
      cases hg : (escAll esc r).getLast? with
      | none => exact hne' (List.getLast?_eq_none_iff.1 hg)
      | some z =>
        have := List.all_eq_true.1 h z (List.mem_of_getLast? hg)
        simp only [decide_eq_true_eq] at this
        exact hlast (this ▸ hg)
  refine ⟨?_, ?_⟩
  · rw [countPrefix_none, countPrefix_none]
    exact spanLen_append_of_not_all _ _ _ hnotall
  · rw [countPrefix_none]
    have h1 := spanLen_le (· = '\\') (escAll esc r)
    have h2 : spanLen (· = '\\') (escAll esc r) ≠ (escAll esc r).length := by
      intro e
      rw [spanLen_eq_length_iff] at e
      rw [e] at hnotall; cases hnotall
    omega

theorem btAt_escAll_then {esc : List Char} (hb : '\\' ∈ esc) (ht : '`' ∈ esc) (prev : Option Char) (r Z : Str)
    (hne : r ≠ []) (hl : r.getLast? ≠ some '\\') (i : Nat) : btAt prev (escAll esc r ++ Z) i = none := by
  unfold btAt
  by_cases hp : prev = some '\\'
  · simp [hp]
  · have hp' : (prev == some '\\') = false := by simpa using hp
    simp only [hp', Bool.false_eq_true, if_false]
    obtain ⟨hk1, hk2⟩ := countBs_escAll_append (esc := esc) r Z hne hl
    have hpar := tick_after_run_odd hb ht r
    have hhead := head_escAll_ne_tick ht r
    rw [hk1, List.getElem?_append_left hk2]
    have hne' := escAll_ne_nil (esc := esc) hne
    generalize escAll esc r = s at hpar hhead hne' hk2
    have h1 : (decide (countPrefix '\\' none s ≥ 2) && countPrefix '\\' none s % 2 == 0 &&
        s[countPrefix '\\' none s]? == some '`') = false := by
      cases hx : s[countPrefix '\\' none s]? == some '`' with
      | false => simp
      | true =>
        have := hpar (by simpa using hx)
        simp [this]
    simp only [h1, Bool.false_eq_true, if_false]
    cases s with
    | nil => exact absurd rfl hne'
    | cons c s' =>
      have hc : c ≠ '`' := by simpa using hhead
      simp only [List.cons_append]
      split
      · rename_i heq
        exact absurd (List.cons.inj heq).1 hc
      · rfl

/-- the last character of `s`, or `prev` when `s` is empty -/
def lastOr (prev : Option Char) (s : Str) : Option Char :=
  match s.getLast? with
  | some c => some c
  | none => prev

/-- the backtick pattern walks over an escaped text that does not end with a backslash -/
theorem btScan_escAll_then {esc : List Char} (hb : '\\' ∈ esc) (ht : '`' ∈ esc) (Z : Str) (r : Str) :
    ∀ (prev : Option Char) (i : Nat), r.getLast? ≠ some '\\' →
      btScan prev (escAll esc r ++ Z) i = btScan (lastOr prev (escAll esc r)) Z (i + (escAll esc r).length) := by
  induction r with
  | nil => intro prev i _; simp [escAll, lastOr]
  | cons c r ih =>
    intro prev i hl
    have h0 := btAt_escAll_then hb ht prev (c :: r) Z (by simp) hl i
    have hl' : r.getLast? ≠ some '\\' := by
      cases r with
      | nil => simp
      | cons d r' => simpa [List.getLast?_cons_cons] using hl
    have hlast : ∀ (p : Option Char) (x : Char) (s : Str), lastOr p (x :: s) = lastOr (some x) s := by
      intro p x s
      cases s with
      | nil => rfl
      | cons y s' =>
        simp only [lastOr, List.getLast?_cons_cons]
        cases hg : (y :: s').getLast? with
        | none => exact absurd (List.getLast?_eq_none_iff.1 hg) (by simp)
        | some z => rfl
    by_cases h : c ∈ esc
    · rw [escAll_cons_mem h] at h0 ⊢
      simp only [List.cons_append] at h0 ⊢
      rw [btScan, h0]
      simp only
      rw [btScan]
      have : btAt (some '\\') (c :: (escAll esc r ++ Z)) (i + 1) = none := by simp [btAt]
      rw [this]
      simp only
      rw [ih (some c) (i + 1 + 1) hl', hlast, hlast]
      simp only [List.length_cons]
      congr 1; omega
    · rw [escAll_cons_not_mem h] at h0 ⊢
      simp only [List.cons_append] at h0 ⊢
      rw [btScan, h0]
      simp only
      rw [ih (some c) (i + 1) hl', hlast]
      simp only [List.length_cons]
      congr 1; omega


theorem lastOr_ne_bs {esc : List Char} (U : Str) (hU : U.getLast? ≠ some '\\') :
    lastOr none (escAll esc U) ≠ some '\\' := by
  cases U with
  | nil => simp [escAll, lastOr]
  | cons c r =>
    have := getLast_escAll esc (c :: r) (by simp)
    unfold lastOr
    rw [this]
    cases h : (c :: r).getLast? with
    | none => simp
    | some z =>
      simp only [ne_eq, Option.some.injEq]
      intro e; subst e; exact hU h

/-- one turn of the pattern loop at a code span that follows escaped text: the span becomes the next placeholder, its
    `<code>` (atomic, escaped, stripped body) goes into the stash -/
theorem applyPattern_seg (cfg : Inline.Cfg) (hi : HI) (hb : '\\' ∈ cfg.esc) (ht : '`' ∈ cfg.esc) (U : Str)
    (hU : U.getLast? ≠ some '\\') (k : Nat) (body X : Str) (hbody : spanBodyOk (k + 1) body = true)
    (hX : X.head? ≠ some '`') (st : St) :
    applyPattern cfg hi 0 (escAll cfg.esc U ++ (ticks (k + 1) ++ (body ++ (ticks (k + 1) ++ X)))) 0 st =
      some (escAll cfg.esc U ++ placeholder st.stash.length ++ X, true, 0,
        { st with stash := st.stash ++ [.node (codeSpan (Code.codeEscape (strip body)))] }) := by
  generalize hA : escAll cfg.esc U = A
  have hscan : btFind (A ++ (ticks (k + 1) ++ (body ++ (ticks (k + 1) ++ X)))) 0 =
      some ⟨.code, A.length, A.length + (k + 1) + body.length + (k + 1), body⟩ := by
    simp only [btFind, show ¬ (0 > (A ++ (ticks (k + 1) ++ (body ++ (ticks (k + 1) ++ X)))).length) by omega,
      if_false, if_true, List.drop_zero]
    rw [← hA, btScan_escAll_then hb ht _ U none 0 hU]
    have := btScan_span k body X hbody hX [] (fun c hc => by simp at hc) _ (0 + (escAll cfg.esc U).length)
      (lastOr_ne_bs (esc := cfg.esc) U hU)
    simp only [List.nil_append, List.length_nil, Nat.add_zero] at this
    rw [this]
    simp
  have hlen : (A ++ (ticks (k + 1) ++ (body ++ (ticks (k + 1) ++ X)))).length =
      A.length + (k + 1) + body.length + (k + 1) + X.length := by simp [ticks]; omega
  have h1 : (A ++ (ticks (k + 1) ++ (body ++ (ticks (k + 1) ++ X)))).take A.length = A := by simp
  have h2 : pyDrop (A ++ (ticks (k + 1) ++ (body ++ (ticks (k + 1) ++ X))))
      ((A.length + (k + 1) + body.length + (k + 1) : Nat) : Int) = X := by
    unfold pyDrop pyIdx
    rw [hlen]
    have : ¬ (((A.length + (k + 1) + body.length + (k + 1) : Nat) : Int) < 0) := by omega
    simp only [this, if_false, Int.toNat_natCast]
    rw [Nat.min_eq_left (by omega)]
    rw [← List.append_assoc, ← List.append_assoc, ← List.append_assoc, List.drop_left' (by simp [ticks]; omega)]
  unfold applyPattern findMatch
  simp only [show ¬ (0 > (A ++ (ticks (k + 1) ++ (body ++ (ticks (k + 1) ++ X)))).length) by omega, if_false, hscan]
  simp only [mkEl, Option.isSome_some, Bool.and_self, if_true, stashNode, h1, h2]
  rfl


theorem escAll_placeholder {esc : List Char} (hph : ∀ c ∈ esc, phChar c = false) (n : Nat) :
    escAll esc (placeholder n) = placeholder n :=
  escAll_of_no_esc _ (fun x hx hm => by
    have := phChar_of_mem_placeholder hx
    rw [hph x hm] at this; cases this)

theorem head_rawSegs (esc : List Char) (segs : List SpanSeg) (h : SegsOK segs) (hne : segs ≠ []) :
    (rawSegs esc segs).head? = some '`' := by
  cases segs with
  | nil => exact absurd rfl hne
  | cons s r =>
    obtain ⟨⟨k, hk⟩, _⟩ := h
    simp [rawSegs, spanSrc, hk, ticks, List.replicate_succ]

/-- **the backtick pass**: one turn of the pattern loop per code span, left to right -/
theorem pattern0_pass (cfg : Inline.Cfg) (hi : HI) (hb : '\\' ∈ cfg.esc) (ht : '`' ∈ cfg.esc)
    (hph : ∀ c ∈ cfg.esc, phChar c = false) (segs : List SpanSeg) :
    ∀ (U : Str) (st : St) (g : Nat), SegsOK segs → (segs ≠ [] → U.getLast? ≠ some '\\') →
      hiLoop (applyPattern cfg hi) (g + segs.length) (escAll cfg.esc U ++ rawSegs cfg.esc segs) 0 0 st =
      hiLoop (applyPattern cfg hi) g (escAll cfg.esc (U ++ embed st.stash.length segs)) 0 0
        { st with stash := st.stash ++ spanNodes segs } := by
  induction segs with
  | nil => intro U st g _ _; simp [rawSegs, embed, spanNodes]
  | cons s r ih =>
    intro U st g hok hU
    obtain ⟨⟨k, hk⟩, hbody, hstrip, hnext, hr⟩ := hok
    have hX : (escAll cfg.esc s.t ++ rawSegs cfg.esc r).head? ≠ some '`' := by
      by_cases hrn : r = []
      · subst hrn
        simp only [rawSegs, List.append_nil]
        exact head_escAll_ne_tick ht s.t
      · obtain ⟨htne, _⟩ := hnext hrn
        have := head_escAll_ne_tick (esc := cfg.esc) ht s.t
        have hne := escAll_ne_nil (esc := cfg.esc) htne
        cases hx : escAll cfg.esc s.t with
        | nil => exact absurd hx hne
        | cons a b => rw [hx] at this; simpa using this
    have hstep := applyPattern_seg cfg hi hb ht U (hU (by simp)) k (padded s.b)
      (escAll cfg.esc s.t ++ rawSegs cfg.esc r) (hk ▸ hbody) hX st
    rw [show g + (s :: r).length = (g + r.length) + 1 by simp; omega]
    have hdata : escAll cfg.esc U ++ rawSegs cfg.esc (s :: r) =
        escAll cfg.esc U ++ (ticks (k + 1) ++ (padded s.b ++ (ticks (k + 1) ++
          (escAll cfg.esc s.t ++ rawSegs cfg.esc r)))) := by
      simp [rawSegs, spanSrc, hk, List.append_assoc]
    rw [hdata, hiLoop_step _ _ _ 0 0 st (by omega) _ _ _ _ hstep]
    simp only [if_true]
    have hU' : r ≠ [] → (U ++ placeholder st.stash.length ++ s.t).getLast? ≠ some '\\' := by
      intro hrn
      obtain ⟨htne, htl⟩ := hnext hrn
      rw [List.getLast?_append]
      cases hx : s.t.getLast? with
      | none => exact absurd (List.getLast?_eq_none_iff.1 hx) htne
      | some z => rw [hx] at htl; simpa using htl
    have := ih (U ++ placeholder st.stash.length ++ s.t)
      { st with stash := st.stash ++ [.node (codeSpan (Code.codeEscape (strip (padded s.b))))] } g hr hU'
    have e1 : escAll cfg.esc U ++ placeholder st.stash.length ++ (escAll cfg.esc s.t ++ rawSegs cfg.esc r) =
        escAll cfg.esc (U ++ placeholder st.stash.length ++ s.t) ++ rawSegs cfg.esc r := by
      rw [escAll_append, escAll_append, escAll_placeholder hph]; simp [List.append_assoc]
    rw [e1, this, hstrip]
    simp [embed, spanNodes, List.append_assoc]


theorem escCount_append (esc : List Char) (a b : Str) : escCount esc (a ++ b) = escCount esc a + escCount esc b := by
  induction a with
  | nil => simp [escCount, stashOf]
  | cons c a ih =>
    by_cases h : c ∈ esc <;>
      simp only [escCount, stashOf, List.cons_append, List.contains_eq_mem, h, decide_true, decide_false, if_true,
        Bool.false_eq_true, if_false, List.length_cons] at ih ⊢ <;> omega

theorem stashOf_append (esc : List Char) (a b : Str) : stashOf esc (a ++ b) = stashOf esc a ++ stashOf esc b := by
  induction a with
  | nil => rfl
  | cons c a ih => by_cases h : c ∈ esc <;> simp [stashOf, h, ih]

theorem stashOf_no_esc {esc : List Char} (a : Str) (h : ∀ x ∈ a, x ∉ esc) : stashOf esc a = [] := by
  induction a with
  | nil => rfl
  | cons c a ih =>
    have hc := h c List.mem_cons_self
    simp [stashOf, hc, ih (fun x hx => h x (List.mem_cons_of_mem _ hx))]

theorem stashOf_placeholder {esc : List Char} (hph : ∀ c ∈ esc, phChar c = false) (n : Nat) :
    stashOf esc (placeholder n) = [] :=
  stashOf_no_esc _ (fun x hx hm => by
    have := phChar_of_mem_placeholder hx
    rw [hph x hm] at this; cases this)

/-- the escapable characters of the plain texts of a line -/
def escCountSegs (esc : List Char) : List SpanSeg → Nat
  | [] => 0
  | s :: r => escCount esc s.t + escCountSegs esc r

theorem escCount_embed {esc : List Char} (hph : ∀ c ∈ esc, phChar c = false) (segs : List SpanSeg) (n : Nat) :
    escCount esc (embed n segs) = escCountSegs esc segs := by
  induction segs generalizing n with
  | nil => rfl
  | cons s r ih =>
    simp only [embed, escCount_append, escCountSegs, ih]
    have : escCount esc (placeholder n) = 0 := by simp [escCount, stashOf_placeholder hph]
    omega

theorem escCountSegs_le (esc : List Char) (segs : List SpanSeg) (hok : SegsOK segs) :
    escCountSegs esc segs + segs.length ≤ (rawSegs esc segs).length := by
  induction segs with
  | nil => simp [escCountSegs, rawSegs]
  | cons s r ih =>
    obtain ⟨⟨k, hk⟩, _, _, _, hr⟩ := hok
    have := escCount_le esc s.t
    have := ih hr
    have hsp : 1 ≤ (spanSrc s.n s.b).length := by simp [spanSrc, hk, ticks]; omega
    simp only [escCountSegs, rawSegs, List.length_append, List.length_cons]
    omega

/-- the text of the line with the placeholders of its spans -/
def lineW (n : Nat) (t0 : Str) (segs : List SpanSeg) : Str := t0 ++ embed n segs

theorem mem_embed {n : Nat} {segs : List SpanSeg} {c : Char} (h : c ∈ embed n segs) :
    phChar c = true ∨ ∃ s ∈ segs, c ∈ s.t := by
  induction segs generalizing n with
  | nil => simp [embed] at h
  | cons s r ih =>
    simp only [embed, List.mem_append] at h
    rcases h with h | h | h
    · exact Or.inl (phChar_of_mem_placeholder h)
    · exact Or.inr ⟨s, List.mem_cons_self, h⟩
    · rcases ih h with h | ⟨x, hx, hc⟩
      · exact Or.inl h
      · exact Or.inr ⟨x, List.mem_cons_of_mem _ hx, hc⟩

/-- **`__handleInline` on a line of escaped text and code spans**: the spans are stashed by the backtick pattern, the
    escapes by the escape pattern, nothing else matches -/
theorem handleInlineTop_segs (cfg : Inline.Cfg) (hE : EscOK cfg.esc) (hph : ∀ c ∈ cfg.esc, phChar c = false)
    (t0 : Str) (segs : List SpanSeg) (st : St) (hok : SegsOK segs)
    (ht0 : segs ≠ [] → t0.getLast? ≠ some '\\')
    (hplain : ∀ c, (c ∈ t0 ∨ ∃ s ∈ segs, c ∈ s.t) → c ≠ '&' ∧ c ≠ '\n') :
    handleInlineTop cfg (escAll cfg.esc t0 ++ rawSegs cfg.esc segs) st =
      some (resid cfg.esc (st.stash.length + segs.length) (lineW st.stash.length t0 segs),
        { st with stash := st.stash ++ spanNodes segs ++ stashOf cfg.esc (lineW st.stash.length t0 segs) }) := by
  generalize hW : lineW st.stash.length t0 segs = W
  have hcount : escCount cfg.esc W = escCount cfg.esc t0 + escCountSegs cfg.esc segs := by
    rw [← hW, lineW, escCount_append, escCount_embed hph]
  have hWchars : ∀ c ∈ W, c ≠ '&' ∧ c ≠ '\n' := by
    intro c hc
    rw [← hW, lineW] at hc
    rcases List.mem_append.1 hc with hc | hc
    · exact hplain c (Or.inl hc)
    · rcases mem_embed hc with h | h
      · have := phChar_facts h; exact ⟨this.2.2.1, this.2.2.2.2.2.2.2⟩
      · exact hplain c (Or.inr h)
  have hamp : '&' ∉ W := fun h => (hWchars _ h).1 rfl
  have hbr : find [' ', ' ', '\n'] W = none := by
    rw [find_none_iff]; intro pre post e
    exact (hWchars '\n' (by rw [e]; simp)).2 rfl
  have h1 := escCount_le cfg.esc t0
  have h2 := escCountSegs_le cfg.esc segs hok
  generalize hraw : escAll cfg.esc t0 ++ rawSegs cfg.esc segs = raw
  have hrawlen : escCount cfg.esc W + segs.length ≤ raw.length := by
    rw [← hraw, hcount, List.length_append]; omega
  obtain ⟨x, hx⟩ : ∃ x, loopFuel raw.length = (((x + 15) + escCount cfg.esc W + 1) + 1) + segs.length :=
    ⟨loopFuel raw.length - escCount cfg.esc W - segs.length - 17, by
      have := CodeLaw.loopFuel_ge raw.length; omega⟩
  unfold handleInlineTop depthFuel
  rw [show raw.length + 20 = (raw.length + 19) + 1 from rfl]
  unfold handleInline
  rw [hx, ← hraw, pattern0_pass cfg _ hE.bs hE.tick hph segs t0 st _ hok ht0]
  change hiLoop _ _ (escAll cfg.esc (lineW st.stash.length t0 segs)) 0 0 _ = _
  rw [hW, hiLoop_step _ _ _ 0 0 _ (by omega) _ _ _ _
    (applyPattern_zero_none cfg _ _ _ (btFind_escAll hE.bs hE.tick W))]
  simp only [Bool.false_eq_true, if_false, Nat.zero_add]
  have := escape_pass cfg (fun d p s => handleInline cfg (raw.length + 19) d p s) hE.bs W []
    { st with stash := st.stash ++ spanNodes segs } (x + 15) (by simp)
  simp only [List.nil_append] at this
  rw [hraw] at *
  rw [this]
  have hlen : (st.stash ++ spanNodes segs).length = st.stash.length + segs.length := by simp [spanNodes]
  simp only [hlen]
  exact hiLoop_inert cfg _ _ _ (inert_resid hE.lbr hE.bang hE.star hE.under W hamp _) (find_break_resid W hbr _)
    x 14 2 rfl (by omega)

/-! ### 9. `__processPlaceholders` on the residue of such a line -/

/-- `linkText` of a plain (non-atomic) string on the state of the `while data` loop -/
def lt (x : Str) (rp : List Node × Node) : List Node × Node := linkText x false true rp.1 rp.2

theorem lt_nil (rp : List Node × Node) : lt [] rp = rp := by
  simp [lt, linkText]

theorem lt_lt (x y : Str) (rp : List Node × Node) : lt y (lt x rp) = lt (x ++ y) rp := by
  cases x with
  | nil => simp [lt_nil]
  | cons a x =>
    cases y with
    | nil => simp [lt_nil]
    | cons b y =>
      obtain ⟨res, par⟩ := rp
      cases res with
      | nil =>
        obtain ⟨tag, attrs, text, ta, children, tail, tla⟩ := par
        rcases text with _ | _ | ⟨h, tl⟩ <;> simp [lt, linkText, Node.truthy]
      | cons l r =>
        obtain ⟨tag, attrs, text, ta, children, tail, tla⟩ := l
        rcases tail with _ | _ | ⟨h, tl⟩ <;> simp [lt, linkText, Node.truthy]

/-- one turn of the loop at a placeholder whose stash entry is a string -/
theorem ppLoop_stepG (S : List StashItem) (nested : Node → Option Node) (data : Str) (g start : Nat)
    (rp : List Node × Node) (off : Nat) (id : Str) (phEnd : Nat) (s : Str) (h1 : start ≤ data.length)
    (h2 : find phPrefix (data.drop start) = some off) (h3 : findPh data (start + off) = (some id, phEnd))
    (h4 : stashGet S id = some (.str s)) :
    ppLoop S nested data false true (g + 1) start rp.1 rp.2 =
      ppLoop S nested data false true g phEnd (lt s (lt (Inline.slice data start (start + off)) rp)).1
        (lt s (lt (Inline.slice data start (start + off)) rp)).2 := by
  have hle : ¬ start > data.length := by omega
  simp only [ppLoop, hle, if_false, h2, h3, Option.bind_some, h4]
  by_cases hi : start + off > 0
  · simp [hi, lt]
  · have h0 : start = 0 ∧ off = 0 := by omega
    simp [h0.1, h0.2, Inline.slice, lt, linkText]

/-- one turn of the loop at a placeholder whose stash entry is an element that `nested` leaves alone -/
theorem ppLoop_stepNode (S : List StashItem) (nested : Node → Option Node) (data : Str) (g start : Nat)
    (rp : List Node × Node) (off : Nat) (id : Str) (phEnd : Nat) (nd : Node) (h1 : start ≤ data.length)
    (h2 : find phPrefix (data.drop start) = some off) (h3 : findPh data (start + off) = (some id, phEnd))
    (h4 : stashGet S id = some (.node nd)) (h5 : nested nd = some nd) :
    ppLoop S nested data false true (g + 1) start rp.1 rp.2 =
      ppLoop S nested data false true g phEnd (nd :: (lt (Inline.slice data start (start + off)) rp).1)
        (lt (Inline.slice data start (start + off)) rp).2 := by
  have hle : ¬ start > data.length := by omega
  simp only [ppLoop, hle, if_false, h2, h3, Option.bind_some, h4, h5]
  by_cases hi : start + off > 0
  · simp [hi, lt]
  · have h0 : start = 0 ∧ off = 0 := by omega
    simp [h0.1, h0.2, Inline.slice, lt, linkText]

theorem ppLoop_endG (S : List StashItem) (nested : Node → Option Node) (data : Str) (g start : Nat)
    (rp : List Node × Node) (h1 : start ≤ data.length) (h2 : find phPrefix (data.drop start) = none) :
    ppLoop S nested data false true (g + 1) start rp.1 rp.2 =
      some ((lt (data.drop start) rp).1.reverse, (lt (data.drop start) rp).2) := by
  have hle : ¬ start > data.length := by omega
  simp [ppLoop, hle, h2, lt]


/-- what follows a plain segment in the data: whatever text `B'` is still pending when the loop gets there, the loop
    continues as `K` says from the consumed prefix and the state after linking `B'` -/
def NextOK (S : List StashItem) (nested : Node → Option Node) (Z : Str) (g : Nat)
    (K : Str → List Node × Node → Option (List Node × Node)) : Prop :=
  ∀ (P' B' : Str) (rp' : List Node × Node), STX ∉ B' →
    ppLoop S nested (P' ++ B' ++ Z) false true g P'.length rp'.1 rp'.2 = K (P' ++ B') (lt B' rp')

/-- the loop over the residue of a plain segment: the stashed codes are put back, text is linked to the last node -/
theorem ppLoop_seg (esc : List Char) (S : List StashItem) (nested : Node → Option Node) (Z : Str) (g : Nat)
    (K : Str → List Node × Node → Option (List Node × Node)) (hK : NextOK S nested Z g K) (r : Str) :
    ∀ (P B : Str) (n : Nat) (rp : List Node × Node) (rest : List StashItem), STX ∉ B → STX ∉ r →
      S.drop n = stashOf esc r ++ rest →
      ppLoop S nested (P ++ B ++ resid esc n r ++ Z) false true (g + escCount esc r) P.length rp.1 rp.2 =
        K (P ++ B ++ resid esc n r) (lt (B ++ coded esc r) rp) := by
  induction r with
  | nil =>
    intro P B n rp rest hB _ _
    simp only [resid, List.append_nil, coded, escCount, stashOf, List.length_nil, Nat.add_zero]
    exact hK P B rp hB
  | cons c r ih =>
    intro P B n rp rest hB hr hS
    have hr' : STX ∉ r := fun h => hr (List.mem_cons_of_mem _ h)
    by_cases hc : c ∈ esc
    · have hcount : escCount esc (c :: r) = escCount esc r + 1 := by simp [escCount, stashOf, hc]
      have hres : resid esc n (c :: r) = placeholder n ++ resid esc (n + 1) r := by simp [resid, hc]
      have hst : stashOf esc (c :: r) = .str (escCode c) :: stashOf esc r := by simp [stashOf, hc]
      rw [hst] at hS
      have hSn : S[n]? = some (.str (escCode c)) := by
        have := congrArg List.head? hS
        simpa [List.head?_drop] using this
      have hS' : S.drop (n + 1) = stashOf esc r ++ rest := by
        have := congrArg List.tail hS
        simpa [List.tail_drop] using this
      generalize hX : resid esc (n + 1) r ++ Z = X
      have hdata : P ++ B ++ resid esc n (c :: r) ++ Z = (P ++ B) ++ placeholder n ++ X := by
        rw [hres, ← hX]; simp [List.append_assoc]
      have hdrop : (P ++ B ++ placeholder n ++ X).drop P.length = B ++ phPrefix ++ ((pad4 n ++ [ETX]) ++ X) := by
        rw [placeholder_eq]; simp [List.append_assoc]
      have hfind : find phPrefix ((P ++ B ++ placeholder n ++ X).drop P.length) = some B.length := by
        rw [hdrop]; exact find_prefix_after B _ hB
      have hph := findPh_placeholder (P ++ B) n X
      rw [List.length_append] at hph
      have hslice : Inline.slice (P ++ B ++ placeholder n ++ X) P.length (P.length + B.length) = B := by
        have : (P ++ B ++ placeholder n ++ X).take (P.length + B.length) = P ++ B := by
          rw [← List.length_append, List.append_assoc (P ++ B)]; exact List.take_left' rfl
        rw [Inline.slice, this]; simp
      rw [hdata, hcount, show g + (escCount esc r + 1) = (g + escCount esc r) + 1 by omega,
        ppLoop_stepG S nested _ _ P.length rp B.length (pad4 n) _ (escCode c) (by simp) hfind hph
          (by rw [stashGet_pad4]; exact hSn), hslice]
      have := ih (P ++ B ++ placeholder n) [] (n + 1) (lt (escCode c) (lt B rp)) rest (by simp) hr' hS'
      simp only [List.append_nil, List.nil_append] at this
      have e2 : P ++ B ++ placeholder n ++ X = P ++ B ++ placeholder n ++ resid esc (n + 1) r ++ Z := by
        rw [← hX]; simp [List.append_assoc]
      rw [e2, this, lt_lt, lt_lt, hres]
      simp [coded, hc, List.append_assoc]
    · have hcs : c ≠ STX := fun e => hr (e ▸ List.mem_cons_self)
      have hcount : escCount esc (c :: r) = escCount esc r := by simp [escCount, stashOf, hc]
      have hB' : STX ∉ B ++ [c] := by
        intro hh; rcases List.mem_append.1 hh with hh | hh
        · exact hB hh
        · have e : STX = c := by simpa using hh
          exact hcs e.symm
      have hst : stashOf esc (c :: r) = stashOf esc r := by simp [stashOf, hc]
      rw [hst] at hS
      have := ih P (B ++ [c]) n rp rest hB' hr' hS
      simp only [List.append_assoc, List.singleton_append] at this
      simp only [resid, coded, List.contains_eq_mem, hc, decide_false, Bool.false_eq_true, if_false, hcount,
        List.append_assoc]
      exact this


theorem nextOK_end (S : List StashItem) (nested : Node → Option Node) (g : Nat) :
    NextOK S nested [] (g + 1) (fun _ st => some (st.1.reverse, st.2)) := by
  intro P' B' rp' hB
  rw [List.append_nil, ppLoop_endG S nested _ g P'.length rp' (by simp)
    (by simp only [List.drop_left]; exact find_none_of_head hB)]
  simp

theorem nextOK_node (S : List StashItem) (nested : Node → Option Node) (g m : Nat) (Z' : Str) (nd : Node)
    (h1 : S[m]? = some (.node nd)) (h2 : nested nd = some nd) :
    NextOK S nested (placeholder m ++ Z') (g + 1)
      (fun pre st => ppLoop S nested (pre ++ placeholder m ++ Z') false true g (pre ++ placeholder m).length
        (nd :: st.1) st.2) := by
  intro P' B' rp' hB
  have hdata : P' ++ B' ++ (placeholder m ++ Z') = (P' ++ B') ++ placeholder m ++ Z' := by simp [List.append_assoc]
  have hdrop : (P' ++ B' ++ placeholder m ++ Z').drop P'.length = B' ++ phPrefix ++ ((pad4 m ++ [ETX]) ++ Z') := by
    rw [placeholder_eq]; simp [List.append_assoc]
  have hfind : find phPrefix ((P' ++ B' ++ placeholder m ++ Z').drop P'.length) = some B'.length := by
    rw [hdrop]; exact find_prefix_after B' _ hB
  have hph := findPh_placeholder (P' ++ B') m Z'
  rw [List.length_append] at hph
  have hslice : Inline.slice (P' ++ B' ++ placeholder m ++ Z') P'.length (P'.length + B'.length) = B' := by
    have : (P' ++ B' ++ placeholder m ++ Z').take (P'.length + B'.length) = P' ++ B' := by
      rw [← List.length_append, List.append_assoc (P' ++ B')]; exact List.take_left' rfl
    rw [Inline.slice, this]; simp
  rw [hdata, ppLoop_stepNode S nested _ g P'.length rp' B'.length (pad4 m) _ nd (by simp) hfind hph
    (by rw [stashGet_pad4]; exact h1) h2, hslice]

/-- the residue of the texts between the spans, with the placeholders of the spans -/
def residSegs (esc : List Char) : Nat → Nat → List SpanSeg → Str
  | _, _, [] => []
  | m, n, s :: r => placeholder n ++ (resid esc m s.t ++ residSegs esc (m + escCount esc s.t) (n + 1) r)

/-- the stash entries of the spans are where the placeholders say -/
def SegStash (S : List StashItem) : Nat → List SpanSeg → Prop
  | _, [] => True
  | n, s :: r => S[n]? = some (.node (codeSpan (Code.codeEscape s.b))) ∧ SegStash S (n + 1) r

def stashOfSegs (esc : List Char) : List SpanSeg → List StashItem
  | [] => []
  | s :: r => stashOf esc s.t ++ stashOfSegs esc r

/-- the state of the loop after the spans: each `<code>` becomes a node, the text after it its tail -/
def foldSegs (esc : List Char) : List SpanSeg → List Node × Node → List Node × Node
  | [], rp => rp
  | s :: r, rp => foldSegs esc r (lt (coded esc s.t) (codeSpan (Code.codeEscape s.b) :: rp.1, rp.2))

def costSegs (esc : List Char) : Str → List SpanSeg → Nat
  | t, [] => escCount esc t + 1
  | t, s :: r => escCount esc t + 1 + costSegs esc s.t r

theorem ppLoop_segs (esc : List Char) (S : List StashItem) (nested : Node → Option Node)
    (hnested : ∀ x : Str, STX ∉ x → nested (codeSpan x) = some (codeSpan x)) (segs : List SpanSeg) :
    ∀ (P t : Str) (m n : Nat) (rp : List Node × Node) (g : Nat) (rest : List StashItem), STX ∉ t →
      (∀ s ∈ segs, STX ∉ s.t ∧ STX ∉ Code.codeEscape s.b) →
      S.drop m = stashOf esc t ++ stashOfSegs esc segs ++ rest → SegStash S n segs →
      ppLoop S nested (P ++ resid esc m t ++ residSegs esc (m + escCount esc t) n segs) false true
        (g + costSegs esc t segs) P.length rp.1 rp.2 =
        some ((foldSegs esc segs (lt (coded esc t) rp)).1.reverse, (foldSegs esc segs (lt (coded esc t) rp)).2) := by
  induction segs with
  | nil =>
    intro P t m n rp g rest ht _ hS _
    have := ppLoop_seg esc S nested [] (g + 1) _ (nextOK_end S nested g) t P [] m rp (stashOfSegs esc [] ++ rest)
      (by simp) ht (by simpa [List.append_assoc] using hS)
    simp only [List.append_nil, List.nil_append] at this
    simp only [residSegs, List.append_nil, costSegs, foldSegs]
    rw [show g + (escCount esc t + 1) = g + 1 + escCount esc t by omega, this]
  | cons s r ih =>
    intro P t m n rp g rest ht hsegs hS hst
    obtain ⟨hs1, hs2⟩ := hsegs s List.mem_cons_self
    have hK := nextOK_node S nested (g + costSegs esc s.t r) n
      (resid esc (m + escCount esc t) s.t ++ residSegs esc (m + escCount esc t + escCount esc s.t) (n + 1) r)
      (codeSpan (Code.codeEscape s.b)) hst.1 (hnested _ hs2)
    have := ppLoop_seg esc S nested _ _ _ hK t P [] m rp (stashOfSegs esc (s :: r) ++ rest)
      (by simp) ht (by simpa [List.append_assoc] using hS)
    simp only [List.append_nil, List.nil_append] at this
    simp only [residSegs, costSegs, foldSegs]
    rw [show g + (escCount esc t + 1 + costSegs esc s.t r) = g + costSegs esc s.t r + 1 + escCount esc t by omega,
      this]
    have hS' : S.drop (m + escCount esc t) = stashOf esc s.t ++ stashOfSegs esc r ++ rest := by
      have : S.drop (m + escCount esc t) = (S.drop m).drop (escCount esc t) := by rw [List.drop_drop]
      rw [this, hS]
      simp [escCount, stashOfSegs, List.append_assoc]
    have := ih (P ++ resid esc m t ++ placeholder n) s.t (m + escCount esc t) (n + 1)
      (codeSpan (Code.codeEscape s.b) :: (lt (coded esc t) rp).1, (lt (coded esc t) rp).2) g rest hs1
      (fun x hx => hsegs x (List.mem_cons_of_mem _ hx)) hS' hst.2
    simp only [List.append_assoc] at this ⊢
    exact this


/-! #### the residue and the stash of a line -/

theorem resid_append (esc : List Char) (a b : Str) (m : Nat) :
    resid esc m (a ++ b) = resid esc m a ++ resid esc (m + escCount esc a) b := by
  induction a generalizing m with
  | nil => simp [resid, escCount, stashOf]
  | cons c a ih =>
    by_cases h : c ∈ esc
    · have : escCount esc (c :: a) = escCount esc a + 1 := by simp [escCount, stashOf, h]
      simp only [List.cons_append, resid, List.contains_eq_mem, h, decide_true, if_true, ih, this, List.append_assoc]
      rw [show m + 1 + escCount esc a = m + (escCount esc a + 1) by omega]
    · have : escCount esc (c :: a) = escCount esc a := by simp [escCount, stashOf, h]
      simp only [List.cons_append, resid, List.contains_eq_mem, h, decide_false, Bool.false_eq_true, if_false, ih,
        this, List.cons_append]

theorem resid_no_esc {esc : List Char} (a : Str) (h : ∀ x ∈ a, x ∉ esc) (m : Nat) : resid esc m a = a := by
  induction a with
  | nil => rfl
  | cons c a ih =>
    have hc := h c List.mem_cons_self
    simp [resid, hc, ih (fun x hx => h x (List.mem_cons_of_mem _ hx))]

theorem ph_no_esc {esc : List Char} (hph : ∀ c ∈ esc, phChar c = false) (n : Nat) : ∀ x ∈ placeholder n, x ∉ esc :=
  fun x hx hm => by
    have := phChar_of_mem_placeholder hx
    rw [hph x hm] at this; cases this

theorem resid_embed {esc : List Char} (hph : ∀ c ∈ esc, phChar c = false) (segs : List SpanSeg) :
    ∀ (m n : Nat), resid esc m (embed n segs) = residSegs esc m n segs := by
  induction segs with
  | nil => intro m n; rfl
  | cons s r ih =>
    intro m n
    have h0 : escCount esc (placeholder n) = 0 := by simp [escCount, stashOf_placeholder hph]
    simp only [embed, residSegs, resid_append, resid_no_esc _ (ph_no_esc hph n), h0, Nat.add_zero, ih]

theorem stashOf_embed {esc : List Char} (hph : ∀ c ∈ esc, phChar c = false) (segs : List SpanSeg) (n : Nat) :
    stashOf esc (embed n segs) = stashOfSegs esc segs := by
  induction segs generalizing n with
  | nil => rfl
  | cons s r ih => simp only [embed, stashOf_append, stashOf_placeholder hph, List.nil_append, stashOfSegs, ih]

theorem segStash_nodes (A : List StashItem) (segs : List SpanSeg) (E : List StashItem) :
    SegStash (A ++ spanNodes segs ++ E) A.length segs := by
  induction segs generalizing A with
  | nil => trivial
  | cons s r ih =>
    refine ⟨?_, ?_⟩
    · simp [spanNodes]
    · have := ih (A ++ [.node (codeSpan (Code.codeEscape s.b))])
      simpa [spanNodes, List.append_assoc] using this

/-- a `<code>` of a span with the text that follows it as its tail -/
def tailed (esc : List Char) (s : SpanSeg) : Node :=
  { codeSpan (Code.codeEscape s.b) with tail := optStr (coded esc s.t) }

theorem lt_code (x : Str) (t : Str) (res : List Node) (par : Node) :
    lt x (codeSpan t :: res, par) = ({ codeSpan t with tail := optStr x } :: res, par) := by
  cases x with
  | nil => simp [lt, linkText, optStr, codeSpan, Node.el]
  | cons c r => simp [lt, linkText, optStr, codeSpan, Node.el, Node.truthy]

theorem foldSegs_closed (esc : List Char) (segs : List SpanSeg) :
    ∀ (res : List Node) (par : Node), foldSegs esc segs (res, par) = ((segs.map (tailed esc)).reverse ++ res, par) := by
  induction segs with
  | nil => intro res par; rfl
  | cons s r ih =>
    intro res par
    simp only [foldSegs, lt_code, ih, List.map_cons, List.reverse_cons, List.append_assoc, List.singleton_append,
      tailed]

theorem costSegs_le (esc : List Char) (segs : List SpanSeg) :
    ∀ (t : Str) (m n : Nat),
      costSegs esc t segs ≤ (resid esc m t ++ residSegs esc (m + escCount esc t) n segs).length + 1 := by
  induction segs with
  | nil =>
    intro t m n
    have := escCount_le_resid esc t m
    simp only [costSegs, residSegs, List.append_nil]; omega
  | cons s r ih =>
    intro t m n
    have h1 := escCount_le_resid esc t m
    have h2 := ih s.t (m + escCount esc t) (n + 1)
    have h3 := placeholder_length_pos n
    simp only [costSegs, residSegs, List.length_append] at h2 ⊢
    omega


/-- **`__processPlaceholders`** on the residue of a line of escaped text and code spans -/
theorem ppTop_segs (esc : List Char) (hph : ∀ c ∈ esc, phChar c = false) (S0 : List StashItem) (html : List Str)
    (t0 : Str) (segs : List SpanSeg) (parent : Node) (hp1 : parent.text = none) (hp2 : parent.textAtomic = false)
    (ht0 : STX ∉ t0) (hsegs : ∀ s ∈ segs, STX ∉ s.t ∧ STX ∉ Code.codeEscape s.b) (hne : t0 ≠ [] ∨ segs ≠ []) :
    ppTop { stash := S0 ++ spanNodes segs ++ stashOf esc (lineW S0.length t0 segs), html := html }
        (resid esc (S0.length + segs.length) (lineW S0.length t0 segs)) false parent true =
      some (segs.map (tailed esc), { parent with text := optStr (coded esc t0) }) := by
  generalize hS : S0 ++ spanNodes segs ++ stashOf esc (lineW S0.length t0 segs) = S
  have hR : resid esc (S0.length + segs.length) (lineW S0.length t0 segs) =
      resid esc (S0.length + segs.length) t0 ++
        residSegs esc (S0.length + segs.length + escCount esc t0) S0.length segs := by
    rw [lineW, resid_append, resid_embed hph]
  have hE : stashOf esc (lineW S0.length t0 segs) = stashOf esc t0 ++ stashOfSegs esc segs := by
    rw [lineW, stashOf_append, stashOf_embed hph]
  have hdrop : S.drop (S0.length + segs.length) = stashOf esc t0 ++ stashOfSegs esc segs ++ [] := by
    rw [← hS, hE]
    have : (S0 ++ spanNodes segs).length = S0.length + segs.length := by simp [spanNodes]
    rw [← this, List.drop_left]; simp
  have hst : SegStash S S0.length segs := by rw [← hS]; exact segStash_nodes S0 segs _
  rw [hR]
  generalize hRR : resid esc (S0.length + segs.length) t0 ++
        residSegs esc (S0.length + segs.length + escCount esc t0) S0.length segs = R
  have hRne : R.isEmpty = false := by
    rw [← hRR]
    rcases hne with h | h
    · cases t0 with
      | nil => exact absurd rfl h
      | cons c r =>
        have := placeholder_length_pos (S0.length + segs.length)
        by_cases hc : c ∈ esc
        · simp only [resid, List.contains_eq_mem, hc, decide_true, if_true]
          cases hx : placeholder (S0.length + segs.length) with
          | nil => rw [hx] at this; simp at this
          | cons a b => simp
        · simp [resid, hc]
    · cases segs with
      | nil => exact absurd rfl h
      | cons s r =>
        have := placeholder_length_pos S0.length
        simp only [residSegs]
        cases hx : placeholder S0.length with
        | nil => rw [hx] at this; simp at this
        | cons a b => cases resid esc (S0.length + (s :: r).length) t0 <;> simp
  simp only [ppTop]
  rw [show S.length + 2 = (S.length + 1) + 1 from rfl]
  unfold processPlaceholders
  simp only [hRne, Bool.false_eq_true, if_false]
  have hcost := costSegs_le esc segs t0 (S0.length + segs.length) S0.length
  rw [hRR] at hcost
  obtain ⟨g, hg⟩ : ∃ g, R.length + 2 = g + costSegs esc t0 segs := ⟨R.length + 2 - costSegs esc t0 segs, by omega⟩
  rw [hg]
  have := ppLoop_segs esc S
    (procNode fun d a p t_1 => processPlaceholders S (S.length + 1) d a p t_1)
    (fun x hx => procNode_codeSpan S (S.length + 1) (by omega) x hx)
    segs [] t0 (S0.length + segs.length) S0.length ([], parent) g [] ht0 hsegs hdrop hst
  simp only [List.nil_append, List.length_nil] at this
  rw [hRR] at this
  rw [this]
  have hlt : lt (coded esc t0) ([], parent) = ([], { parent with text := optStr (coded esc t0) }) := by
    simp only [lt]; exact CodeLaw.linkText_text _ parent hp1 hp2
  rw [hlt, foldSegs_closed]
  simp

/-- a `p`/`h1`–`h6` element whose text is escaped text and code spans -/
def spanTxtSrc (esc : List Char) (tag : Str) (t0 : Str) (segs : List SpanSeg) : Node :=
  { tag := .name tag, text := some (escAll esc t0 ++ rawSegs esc segs) }

/-- the same after the inline processor -/
def spanTxtMid (esc : List Char) (tag : Str) (t0 : Str) (segs : List SpanSeg) : Node :=
  { tag := .name tag, text := optStr (coded esc t0), children := segs.map (tailed esc) }

theorem visitChild_spanTxt (cfg : Inline.Cfg) (hE : EscOK cfg.esc) (hph : ∀ c ∈ cfg.esc, phChar c = false)
    (tag t0 : Str) (segs : List SpanSeg) (hok : SegsOK segs) (ht0 : segs ≠ [] → t0.getLast? ≠ some '\\')
    (hplain : ∀ c, (c ∈ t0 ∨ ∃ s ∈ segs, c ∈ s.t) → c ≠ '&' ∧ c ≠ '\n' ∧ c ≠ STX)
    (hbody : ∀ s ∈ segs, STX ∉ Code.codeEscape s.b) (hne : t0 ≠ [] ∨ segs ≠ []) (v : Visit) :
    visitChild cfg (spanTxtSrc cfg.esc tag t0 segs) v =
      some (spanTxtMid cfg.esc tag t0 segs, [],
        { v with pushes := ((List.range segs.length).map (fun k => [v.done.length, k])).reverse ++ v.pushes,
                 st := { v.st with stash := v.st.stash ++ (spanNodes segs ++
                   stashOf cfg.esc (lineW v.st.stash.length t0 segs)) } }) := by
  have hraw : escAll cfg.esc t0 ++ rawSegs cfg.esc segs ≠ [] := by
    rcases hne with h | h
    · have := escAll_ne_nil (esc := cfg.esc) h
      cases hx : escAll cfg.esc t0 with
      | nil => exact absurd hx this
      | cons a b => simp
    · have := head_rawSegs cfg.esc segs hok h
      intro e
      have e2 : rawSegs cfg.esc segs = [] := (List.append_eq_nil_iff.1 e).2
      rw [e2] at this; simp at this
  have h1 := handleInlineTop_segs cfg hE hph t0 segs v.st hok ht0
    (fun c hc => ⟨(hplain c hc).1, (hplain c hc).2.1⟩)
  have h2 := ppTop_segs cfg.esc hph v.st.stash v.st.html t0 segs
    { tag := .name tag } rfl rfl (fun h => (hplain _ (Or.inl h)).2.2 rfl)
    (fun s hs => ⟨fun h => (hplain _ (Or.inr ⟨s, hs, h⟩)).2.2 rfl, hbody s hs⟩) hne
  simp only [spanTxtSrc, visitChild, truthy_some hraw, Bool.not_false, Bool.and_self, if_true, Option.getD_some, h1]
  rw [h2]
  simp [spanTxtMid, Node.truthy, List.append_assoc]

/-! ### 10. a text element with code spans through prettify, unescape and the serializer -/

theorem bl_code' : TreeProc.isBlockLevel TreeProc.defaultBlockLevel (.name "code".toList) = false := by decide

theorem prettifyKids_tailed (esc : List Char) (segs : List SpanSeg) :
    TreeProc.prettifyKids TreeProc.defaultBlockLevel (segs.map (tailed esc)) = segs.map (tailed esc) := by
  induction segs with
  | nil => rfl
  | cons s r ih =>
    have : TreeProc.isBlockLevel TreeProc.defaultBlockLevel (tailed esc s).tag = false := bl_code'
    simp only [List.map_cons, TreeProc.prettifyKids, this, Bool.false_eq_true, if_false, ih]

theorem mapKids_tailed (esc : List Char) (segs : List SpanSeg) :
    TreeProc.mapKids TreeProc.preRule (TreeProc.mapKids TreeProc.brRule (segs.map (tailed esc))) =
      segs.map (tailed esc) := by
  induction segs with
  | nil => rfl
  | cons s r ih =>
    simp only [List.map_cons, TreeProc.mapKids, ih]
    congr 1

/-- after prettify -/
def spanTxtPretty (esc : List Char) (tag : Str) (t0 : Str) (segs : List SpanSeg) : Node :=
  { tag := .name tag, text := optStr (coded esc t0), children := segs.map (tailed esc), tail := some ['\n'] }

theorem pretty_spanTxt (esc : List Char) (tag : Str) (htag : textTags.contains tag = true) (t0 : Str)
    (segs : List SpanSeg) :
    TreeProc.mapTree TreeProc.preRule (TreeProc.mapTree TreeProc.brRule
      (TreeProc.prettifyETree TreeProc.defaultBlockLevel (spanTxtMid esc tag t0 segs))) =
      spanTxtPretty esc tag t0 segs := by
  have hf := tagFacts tag (List.mem_cons_of_mem _ (List.contains_iff_mem.1 htag))
  have hbr : (Tag.name tag == Tag.name "br".toList) = false := by simpa using hf.2.2.2.1
  have hpre : (Tag.name tag == Tag.name "pre".toList) = false := by simpa using hf.2.2.1
  have hcode : (Tag.name tag == Tag.name "code".toList) = false := by simpa using hf.2.1
  have h1 : TreeProc.prettifyETree TreeProc.defaultBlockLevel (spanTxtMid esc tag t0 segs) =
      spanTxtPretty esc tag t0 segs := by
    cases segs with
    | nil => simp [spanTxtMid, spanTxtPretty, TreeProc.prettifyETree, TreeProc.prettifyKids, TreeProc.blankOrNone,
        Node.truthy]
    | cons s r =>
      have hk := prettifyKids_tailed esc (s :: r)
      simp only [List.map_cons] at hk
      have hb : TreeProc.isBlockLevel TreeProc.defaultBlockLevel (tailed esc s).tag = false := bl_code'
      simp only [spanTxtMid, spanTxtPretty, TreeProc.prettifyETree, List.map_cons, hb, hk, Bool.and_false,
        Bool.false_eq_true, if_false, hf.1, hcode, hpre, Bool.not_false, Bool.and_self, if_true,
        TreeProc.blankOrNone, Node.truthy, Bool.true_or]
  rw [h1]
  simp only [spanTxtPretty, TreeProc.mapTree, TreeProc.brRule, TreeProc.preRule, TreeProc.tagIs, hbr, hpre,
    Bool.false_eq_true, if_false, mapKids_tailed]


/-- a `<code>` of a span with the plain text that follows it (after unescape) as its tail -/
def tailedFin (s : SpanSeg) : Node := { codeSpan (Code.codeEscape s.b) with tail := optStr s.t }

/-- after unescape -/
def spanTxtFin (tag : Str) (t0 : Str) (segs : List SpanSeg) : Node :=
  { tag := .name tag, text := optStr t0, children := segs.map tailedFin, tail := some ['\n'] }

theorem unescOpt_coded (esc : List Char) (t : Str) (hstx : Inline.STX ∉ t) :
    (if Node.truthy (optStr (coded esc t)) = true then (TreeProc.unescapeText 0 ((optStr (coded esc t)).getD [])).map some
      else some (optStr (coded esc t))) = some (optStr t) := by
  cases t with
  | nil => rfl
  | cons c r =>
    have hne : coded esc (c :: r) ≠ [] := coded_ne_nil (by simp)
    obtain ⟨a, b, hab⟩ : ∃ a b, coded esc (c :: r) = a :: b := by
      cases h : coded esc (c :: r) with
      | nil => exact absurd h hne
      | cons a b => exact ⟨a, b, rfl⟩
    have hu := unescapeText_coded (esc := esc) (c :: r) hstx
    rw [hab] at hu
    simp [optStr, hab, Node.truthy, hu]

theorem unescapeTree_tailed (esc : List Char) (s : SpanSeg) (hs : Inline.STX ∉ s.t) :
    TreeProc.unescapeTree (tailed esc s) = some (tailedFin s) := by
  have h := unescOpt_coded esc s.t hs
  have t2 : Node.truthy none = false := rfl
  simp only [tailed, tailedFin, codeSpan, Node.el, TreeProc.unescapeTree, BEq.rfl, Bool.not_true, Bool.and_false,
    Bool.false_eq_true, if_false, h, TreeProc.unescAttrs, TreeProc.unescapeKids]
  by_cases ht : Node.truthy (optStr (coded esc s.t)) = true
  · simp [ht]
  · have : s.t = [] := by
      cases hst : s.t with
      | nil => rfl
      | cons c r =>
        exfalso; apply ht
        have hne : coded esc (c :: r) ≠ [] := coded_ne_nil (by simp)
        rw [hst]
        cases hc : coded esc (c :: r) with
        | nil => exact absurd hc hne
        | cons a b => simp [optStr, Node.truthy]
    simp [this, optStr, coded]

theorem unescapeKids_tailed (esc : List Char) (segs : List SpanSeg) (hs : ∀ s ∈ segs, Inline.STX ∉ s.t) :
    TreeProc.unescapeKids (segs.map (tailed esc)) = some (segs.map tailedFin) := by
  induction segs with
  | nil => rfl
  | cons s r ih =>
    simp only [List.map_cons, TreeProc.unescapeKids, unescapeTree_tailed esc s (hs s List.mem_cons_self),
      ih (fun x hx => hs x (List.mem_cons_of_mem _ hx))]

theorem unesc_spanTxt (esc : List Char) (tag : Str) (htag : textTags.contains tag = true) (t0 : Str)
    (segs : List SpanSeg) (h0 : Inline.STX ∉ t0) (hs : ∀ s ∈ segs, Inline.STX ∉ s.t) :
    TreeProc.unescapeTree (spanTxtPretty esc tag t0 segs) = some (spanTxtFin tag t0 segs) := by
  have hf := tagFacts tag (List.mem_cons_of_mem _ (List.contains_iff_mem.1 htag))
  have hcode : (Tag.name tag == Tag.name "code".toList) = false := by simpa using hf.2.1
  have hnl : TreeProc.unescapeText 0 ['\n'] = some ['\n'] := by decide
  have h := unescOpt_coded esc t0 h0
  have t1 : Node.truthy (some ['\n']) = true := rfl
  simp only [spanTxtPretty, spanTxtFin, TreeProc.unescapeTree, hcode, Bool.not_false, Bool.and_true, h,
    unescapeKids_tailed esc segs hs, TreeProc.unescAttrs, t1, if_true, Option.getD_some, hnl, Option.map_some]
  by_cases ht : Node.truthy (optStr (coded esc t0)) = true <;> simp [ht]


/-- serialised spans: `<code>…</code>` and the text after it -/
def outSegs : List SpanSeg → Str
  | [] => []
  | s :: r => "<code>".toList ++ Ser.escCdata (Code.codeEscape s.b) ++ "</code>".toList ++ Ser.escCdata s.t ++ outSegs r

def spanTxtOut (tag : Str) (t0 : Str) (segs : List SpanSeg) : Str :=
  '<' :: tag ++ ['>'] ++ Ser.escCdata t0 ++ outSegs segs ++ ('<' :: '/' :: tag ++ ['>'])

theorem serialize_tailedFin (s : SpanSeg) :
    Ser.serialize .xhtml (tailedFin s) =
      "<code>".toList ++ Ser.escCdata (Code.codeEscape s.b) ++ "</code>".toList ++ Ser.escCdata s.t := by
  have e : tailedFin s = ⟨.name "code".toList, [], some (Code.codeEscape s.b), true, [], optStr s.t, false⟩ := rfl
  rw [e, serialize_plain _ _ _ _ _ _ _ (by decide) (by decide)]
  simp only [Ser.serializeList, optEsc, someEsc]
  simp [List.append_assoc]

theorem serializeList_cons (fmt : Ser.Fmt) (n : Node) (r : List Node) :
    Ser.serializeList fmt (n :: r) = Ser.serialize fmt n ++ Ser.serializeList fmt r := by
  rw [Ser.serializeList]

theorem serializeList_tailed (segs : List SpanSeg) : Ser.serializeList .xhtml (segs.map tailedFin) = outSegs segs := by
  induction segs with
  | nil => rfl
  | cons s r ih =>
    rw [List.map_cons, serializeList_cons, ih, serialize_tailedFin]
    rfl

theorem ser_spanTxt (tag : Str) (htag : textTags.contains tag = true) (t0 : Str) (segs : List SpanSeg) :
    Ser.serialize .xhtml (spanTxtFin tag t0 segs) = spanTxtOut tag t0 segs ++ ['\n'] := by
  have hf := tagFacts tag (List.mem_cons_of_mem _ (List.contains_iff_mem.1 htag))
  have hnot : tag ≠ "hr".toList := by
    intro e
    have : textTags.contains "hr".toList = false := by decide
    rw [← e, htag] at this; cases this
  have he : Ser.isEmptyTag tag = false := by rw [hf.2.2.2.2.2.1]; simpa using hnot
  have e7 : Ser.escCdata ['\n'] = ['\n'] := by decide
  have t1 : Node.truthy (some ['\n']) = true := rfl
  simp only [spanTxtFin]
  rw [serialize_plain _ _ _ _ _ _ _ he hf.2.2.2.2.1]
  simp only [serializeList_tailed, optEsc, t1, if_true, Option.getD_some, e7, spanTxtOut]
  simp [List.append_assoc]


theorem stx_not_mem_escCdata (s : Str) (h : Post.STX ∉ s) : Post.STX ∉ Ser.escCdata s := by
  rw [Ser.onepass_cdata']; exact stx_not_mem_esc1 _ _ s h

theorem outSegs_cons (s : SpanSeg) (r : List SpanSeg) :
    outSegs (s :: r) = "<code>".toList ++ Ser.escCdata (Code.codeEscape s.b) ++ "</code>".toList ++ Ser.escCdata s.t ++
      outSegs r := rfl

theorem stx_not_mem_outSegs (segs : List SpanSeg)
    (h : ∀ s ∈ segs, Post.STX ∉ s.t ∧ Post.STX ∉ Code.codeEscape s.b) : Post.STX ∉ outSegs segs := by
  induction segs with
  | nil => intro hm; cases hm
  | cons s r ih =>
    obtain ⟨h1, h2⟩ := h s List.mem_cons_self
    intro hm
    rw [outSegs_cons] at hm
    simp only [List.mem_append] at hm
    rcases hm with (((hm | hm) | hm) | hm) | hm
    · revert hm; decide
    · exact stx_not_mem_escCdata _ h2 hm
    · revert hm; decide
    · exact stx_not_mem_escCdata _ h1 hm
    · exact ih (fun x hx => h x (List.mem_cons_of_mem _ hx)) hm

/-- a `p`/`h1`–`h6` element of escaped text and code spans, through the stages -/
def spanTxtElem (esc : List Char) (tag t0 : Str) (segs : List SpanSeg) : Elem :=
  ⟨spanTxtSrc esc tag t0 segs, spanTxtMid esc tag t0 segs,
   fun _ => spanNodes segs ++ (stashOf esc t0 ++ stashOfSegs esc segs),
   fun i => ((List.range segs.length).map (fun k => [i, k])).reverse,
   spanTxtPretty esc tag t0 segs, spanTxtFin tag t0 segs, spanTxtOut tag t0 segs⟩

/-- what the stages need of such a line -/
structure SpanTxtOK (esc : List Char) (tag t0 : Str) (segs : List SpanSeg) : Prop where
  htag : textTags.contains tag = true
  hsegs : SegsOK segs
  ht0 : segs ≠ [] → t0.getLast? ≠ some '\\'
  plain : ∀ c, (c ∈ t0 ∨ ∃ s ∈ segs, c ∈ s.t) → c ≠ '&' ∧ c ≠ '\n' ∧ c ≠ Inline.STX
  body : ∀ s ∈ segs, Inline.STX ∉ Code.codeEscape s.b
  ne : t0 ≠ [] ∨ segs ≠ []

theorem spanTxtElem_ok (cfg : Inline.Cfg) (hE : EscOK cfg.esc) (hph : ∀ c ∈ cfg.esc, phChar c = false)
    (tag t0 : Str) (segs : List SpanSeg) (h : SpanTxtOK cfg.esc tag t0 segs) :
    ElemOK cfg (spanTxtElem cfg.esc tag t0 segs) where
  visit := fun v => by
    have := visitChild_spanTxt cfg hE hph tag t0 segs h.hsegs h.ht0 h.plain h.body h.ne v
    have hE' : stashOf cfg.esc (lineW v.st.stash.length t0 segs) = stashOf cfg.esc t0 ++ stashOfSegs cfg.esc segs := by
      rw [lineW, stashOf_append, stashOf_embed hph]
    rw [hE'] at this
    exact this
  pushBound := fun i => by
    have h1 := escCountSegs_le cfg.esc segs h.hsegs
    simp only [spanTxtElem, List.length_reverse, List.length_map, List.length_range, spanTxtSrc, Inline.size,
      Option.getD_some, List.length_append, Inline.sizeList]
    omega
  weight := fun i => by
    have h1 := escCountSegs_le cfg.esc segs h.hsegs
    have hw := weight_childless (spanTxtMid cfg.esc tag t0 segs) segs.length i (by simp [spanTxtMid])
      (fun c hc => by
        simp only [spanTxtMid, List.mem_map] at hc
        obtain ⟨s, _, rfl⟩ := hc; rfl)
    show mStack (spanTxtMid cfg.esc tag t0 segs) _ ≤ _
    simp only [spanTxtElem]
    rw [hw]
    simp only [spanTxtSrc, Inline.size, Option.getD_some, List.length_append, Inline.sizeList]
    omega
  pushOk := fun i q hq => by
    simp only [spanTxtElem, List.mem_reverse, List.mem_map, List.mem_range] at hq
    obtain ⟨k, hk, rfl⟩ := hq
    obtain ⟨s, hs⟩ : ∃ s, segs[k]? = some s := by
      cases hx : segs[k]? with
      | none => rw [List.getElem?_eq_none_iff] at hx; omega
      | some s => exact ⟨s, rfl⟩
    refine ⟨[k], tailed cfg.esc s, rfl, ?_,
      stillBelow_of_childless cfg _ _ (by simp [tailed, codeSpan, Node.el]) ?_⟩
    · simp [spanTxtElem, spanTxtMid, getAt, hs]
    · intro c hc; simp [tailed, codeSpan, Node.el] at hc
  block := (tagFacts tag (List.mem_cons_of_mem _ (List.contains_iff_mem.1 h.htag))).1
  pretty := pretty_spanTxt cfg.esc tag h.htag t0 segs
  unesc := unesc_spanTxt cfg.esc tag h.htag t0 segs (fun hm => (h.plain _ (Or.inl hm)).2.2 rfl)
    (fun s hs hm => (h.plain _ (Or.inr ⟨s, hs, hm⟩)).2.2 rfl)
  ser := ser_spanTxt tag h.htag t0 segs
  outOk := by
    have hf := tagFacts tag (List.mem_cons_of_mem _ (List.contains_iff_mem.1 h.htag))
    refine ⟨?_, rfl, ?_⟩
    · intro hm
      simp only [spanTxtElem, spanTxtOut, List.mem_append, List.mem_cons] at hm
      have d1 : Post.STX ≠ '<' := by decide
      have d2 : Post.STX ≠ '>' := by decide
      have d3 : Post.STX ≠ '/' := by decide
      have h7 := hf.2.2.2.2.2.2
      have hE0 : Post.STX ∉ Ser.escCdata t0 :=
        stx_not_mem_escCdata _ (fun hm' => (h.plain _ (Or.inl hm')).2.2 rfl)
      have hEs : Post.STX ∉ outSegs segs := stx_not_mem_outSegs segs
        (fun s hs => ⟨fun hm' => (h.plain _ (Or.inr ⟨s, hs, hm'⟩)).2.2 rfl, h.body s hs⟩)
      rcases hm with (((h' | h' | h') | h') | h') | (h' | h' | h' | h') <;> simp_all
    · have e : (spanTxtElem cfg.esc tag t0 segs).out =
          ('<' :: tag ++ ['>'] ++ Ser.escCdata t0 ++ outSegs segs ++ ('<' :: '/' :: tag)) ++ ['>'] := by
        simp [spanTxtElem, spanTxtOut]
      rw [e, List.getLast?_append]; rfl

/-! ### 11. the block parser on a line of escaped text and code spans -/

/-- a line may start with the delimiters of an emphasis when something else that is not a space follows them -/
def EmStart (X : Str) : Prop :=
  ∃ d m x tail, X = List.replicate m d ++ x :: tail ∧ (d = '*' ∨ d = '_') ∧ 1 ≤ m ∧ m ≤ 2 ∧ x ≠ d ∧ x ≠ ' '

/-- what the block processors need of the content `X` of a one-line paragraph or heading -/
structure RawOK (X : Str) : Prop where
  shape : ∃ c tail, X = c :: tail ∧ isSpace c = false ∧ (c ∉ lineEsc ∨ EmStart X)
  nl : '\n' ∉ X
  last : ∀ d, X.getLast? = some d → isSpace d = false
  ol : olMarker X = none
  walk : ∀ (f : Nat) (Y h : Str) (n : Nat), hashHeader f Y = some (h, n) →
    hashHeader (f + X.length) (X ++ Y) = some (X ++ h, n + X.length)

theorem countPrefix_spaces (i lim : Nat) (c : Char) (tail : Str) (hi : i ≤ lim) (hc : c ≠ ' ') :
    countPrefix ' ' (some lim) (spaces i ++ c :: tail) = i := by
  induction i generalizing lim with
  | zero => cases lim <;> simp [spaces, countPrefix, hc]
  | succ i ih =>
    obtain ⟨l, rfl⟩ : ∃ l, lim = l + 1 := ⟨lim - 1, by omega⟩
    simp only [spaces, List.replicate_succ, List.cons_append, countPrefix, if_true, Option.map_some,
      Nat.add_sub_cancel] at ih ⊢
    rw [ih l (by omega)]

theorem startOk_raw (i : Nat) (c : Char) (tail : Str) (hc : c ≠ ' ') (hm : c ∉ lineEsc) :
    startOk lineEsc (spaces i ++ c :: tail) = true := by
  rw [startOk_spaces]; exact startOk_of_head c tail hc hm

/-- **A paragraph**: a one-line content `X`, indented by less than a tab, becomes a `p` whose text is `X` -/
theorem hrScan_delims (d x : Char) (tail : Str) (hx : x ≠ d) (hxs : x ≠ ' ') (m : Nat) :
    ∀ sp cnt, hrScan d sp cnt (List.replicate m d ++ x :: tail) = (cnt + m, x :: tail) := by
  induction m with
  | zero => intro sp cnt; simp [hrScan, hx, hxs]
  | succ m ih =>
    intro sp cnt
    simp only [List.replicate_succ, List.cons_append, hrScan, if_true, ih]
    congr 1; omega

theorem alnum_facts {x : Char} (h : isAsciiAlnum x = true) :
    x ≠ ' ' ∧ x ≠ '*' ∧ x ≠ '_' ∧ x ≠ '\n' ∧ isSpace x = false ∧ x ≠ '#' := by
  have h' : isAlnumSp x = true := by simp [isAlnumSp, h]
  have hs : x ≠ ' ' := by intro e; subst e; exact absurd h (by decide)
  refine ⟨hs, ?_, ?_, ?_, alnum_visible x h' hs, ?_⟩ <;> (intro e; subst e; exact absurd h (by decide))

/-- the processors before the paragraph processor do not want a line that starts like an emphasis -/
theorem emStart_searches (tab i : Nat) (hi : i < tab) (hi3 : i ≤ 3) (X : Str) (hnl : '\n' ∉ X) (hol : olMarker X = none)
    (hem : EmStart X) :
    hashSearch (spaces i ++ X) = none ∧ hrSearch (spaces i ++ X) = none ∧ quoteSearch (spaces i ++ X) = none ∧
      refSearch (spaces i ++ X) = none ∧ ∀ ol ul, listItemMatch tab ol ul (spaces i ++ X) = none := by
  obtain ⟨d, m, x, tail, rfl, hd, hm1, hm2, hxd, hxsp⟩ := hem
  obtain ⟨m', rfl⟩ : ∃ m', m = m' + 1 := ⟨m - 1, by omega⟩
  have hdsp : d ≠ ' ' := by rcases hd with e | e <;> rw [e] <;> decide
  have hX : List.replicate (m' + 1) d ++ x :: tail = d :: (List.replicate m' d ++ x :: tail) := by
    simp [List.replicate_succ]
  have hnlb : '\n' ∉ spaces i ++ (List.replicate (m' + 1) d ++ x :: tail) := by
    intro hm; rcases List.mem_append.1 hm with hm | hm
    · exact absurd (List.eq_of_mem_replicate hm) (by decide)
    · exact hnl hm
  have hl : LineStartsOk ['#', '>', '['] (spaces i ++ (List.replicate (m' + 1) d ++ x :: tail)) = true := by
    have h0 : startOk ['#', '>', '['] (d :: (List.replicate m' d ++ x :: tail)) = true := by
      have : (d == ' ') = false := by simpa using hdsp
      simp only [startOk, List.dropWhile_cons, this, Bool.false_eq_true, if_false]
      rcases hd with e | e <;> rw [e] <;> decide
    simp only [LineStartsOk, startOk_spaces, hX, h0, startsOkNl_of_no_nl _ _ (hX ▸ hnlb), Bool.and_self]
  refine ⟨hashSearch_eq_none (esc := ['#', '>', '[']) (by decide) _ hl, ?_,
    quoteSearch_eq_none (esc := ['#', '>', '[']) (by decide) _ hl,
    refSearch_eq_none (esc := ['#', '>', '[']) (by decide) _ hl, ?_⟩
  · have hlines : lines (spaces i ++ (List.replicate (m' + 1) d ++ x :: tail)) =
        [spaces i ++ (List.replicate (m' + 1) d ++ x :: tail)] := by
      unfold lines; exact splitC_noNl _ (notNl_of_not_mem hnlb)
    have h0 : countPrefix ' ' (some 3) (spaces i ++ d :: (List.replicate m' d ++ x :: tail)) = i :=
      countPrefix_spaces i 3 d _ hi3 hdsp
    have hdrop : (spaces i ++ d :: (List.replicate m' d ++ x :: tail)).drop i =
        d :: (List.replicate m' d ++ x :: tail) := by
      rw [List.drop_left' (by simp [spaces])]
    have hline : hrLine (spaces i ++ (List.replicate (m' + 1) d ++ x :: tail)) = false := by
      rw [hX]
      simp only [hrLine, h0, hdrop]
      have hsc := hrScan_delims d x tail hxd hxsp (m' + 1) 0 0
      rw [hX] at hsc
      have hdd : (d = '-' || d = '_' || d = '*') = true := by rcases hd with e | e <;> rw [e] <;> decide
      simp only [hdd, if_true, hsc]
      have : decide (0 + (m' + 1) ≥ 3) = false := by simp; omega
      simp only [this, Bool.false_and]
    simp [hrSearch, hlines, hrSearchLines, hline]
  · intro ol ul
    rw [hX]
    have h0 : countPrefix ' ' (some (tab - 1)) (spaces i ++ d :: (List.replicate m' d ++ x :: tail)) = i :=
      countPrefix_spaces i _ d _ (by omega) hdsp
    have hdrop : (spaces i ++ d :: (List.replicate m' d ++ x :: tail)).drop i =
        d :: (List.replicate m' d ++ x :: tail) := by
      rw [List.drop_left' (by simp [spaces])]
    have hol' : olMarker (d :: (List.replicate m' d ++ x :: tail)) = none := by rw [← hX]; exact hol
    have hsp : countSp (List.replicate m' d ++ x :: tail) = 0 := by
      unfold countSp
      apply countPrefix_zero_of_head
      cases m' with
      | zero => simpa using hxsp
      | succ k => simpa [List.replicate_succ] using hdsp
    simp only [listItemMatch, h0, hdrop, hol']
    rcases hd with e | e <;> subst e <;> cases ol <;> cases ul <;> simp [ulMarker, hsp]

/-- **A paragraph**: a one-line content `X`, indented by less than a tab, becomes a `p` whose text is `X` -/
theorem produces_para_raw (tab i : Nat) (hi : i < tab) (hi3 : i ≤ 3) (X : Str) (hX : RawOK X) :
    Produces tab (spaces i ++ X) { tag := .name "p".toList, text := some X } := by
  intro pb refs parent rest
  obtain ⟨c, tail, rfl, hcs, hce⟩ := hX.shape
  have hcsp : c ≠ ' ' := by intro e; subst e; exact absurd hcs (by decide)
  have hcnl : c ≠ '\n' := by intro e; subst e; exact absurd hcs (by decide)
  have hnlb : '\n' ∉ spaces i ++ c :: tail := by
    intro hm; rcases List.mem_append.1 hm with hm | hm
    · exact absurd (List.eq_of_mem_replicate hm) (by decide)
    · exact hX.nl hm
  have hsearch : hashSearch (spaces i ++ c :: tail) = none ∧ hrSearch (spaces i ++ c :: tail) = none ∧
      quoteSearch (spaces i ++ c :: tail) = none ∧ refSearch (spaces i ++ c :: tail) = none ∧
      ∀ ol ul, listItemMatch tab ol ul (spaces i ++ c :: tail) = none := by
    rcases hce with hce | hem
    · have hl : LineStartsOk lineEsc (spaces i ++ c :: tail) = true := by
        simp only [LineStartsOk, startOk_raw i c tail hcsp hce, startsOkNl_of_no_nl _ _ hnlb, Bool.and_self]
      have hmem : ∀ d ∈ lineEsc, c ≠ d := fun d hd e => hce (e ▸ hd)
      refine ⟨hashSearch_eq_none (esc := lineEsc) (by decide) _ hl,
        hrSearch_eq_none (esc := lineEsc) (by decide) (by decide) (by decide) _ hl,
        quoteSearch_eq_none (esc := lineEsc) (by decide) _ hl, refSearch_eq_none (esc := lineEsc) (by decide) _ hl, ?_⟩
      intro ol ul
      have h0 : countPrefix ' ' (some (tab - 1)) (spaces i ++ c :: tail) = i :=
        countPrefix_spaces i _ c tail (by omega) hcsp
      have hd : (spaces i ++ c :: tail).drop i = c :: tail := by
        rw [List.drop_left' (by simp [spaces])]
      have hu : ulMarker (c :: tail) = none := by
        simp [ulMarker, hmem '*' (by decide), hmem '+' (by decide), hmem '-' (by decide)]
      simp only [listItemMatch, h0, hd, hX.ol, hu]
      cases ol <;> cases ul <;> rfl
    · exact emStart_searches tab i hi hi3 _ hX.nl hX.ol hem
  obtain ⟨e1, e2, e3, e5, e4⟩ := hsearch
  have hlstrip := lstrip_indent i _ c tail rfl hcs
  have hblank : isBlank (spaces i ++ c :: tail) = false := by
    cases hb : isBlank (spaces i ++ c :: tail) with
    | false => rfl
    | true =>
      rw [isBlank_iff] at hb
      have := hb c (by simp)
      rw [hcs] at this; cases this
  generalize hb : spaces i ++ c :: tail = b at *
  have h1 : b.isEmpty = false := by rw [← hb]; cases i <;> simp [spaces, List.replicate_succ]
  have h2 : startsWith b ['\n'] = false := by
    rw [← hb]; cases i <;> simp [spaces, List.replicate_succ, hcnl]
  have h3 : startsWith b (spaces tab) = false := by
    rw [← hb]; exact startsWith_spaces_false _ tab c _ hi hcsp
  unfold dispatch
  simp only [h1, h2, h3, Bool.or_self, Bool.false_eq_true, if_false, Bool.false_and, e4, Option.isSome_none,
    e1, setextMatch_line b hnlb, e2, e3, e5]
  simp [paraP, hblank, hlstrip, isstate, mkText, Node.el]


/-- **A Setext heading**: a one-line content `X`, indented by less than a tab, over a line of `=` or `-` -/
theorem produces_setext_raw (tab i : Nat) (hi : i < tab) (X : Str) (hX : RawOK X) (lv k : Nat)
    (hlv : lv = 1 ∨ lv = 2) :
    Produces tab (spaces i ++ X ++ '\n' :: List.replicate (k + 1) (if lv = 1 then '=' else '-'))
      { tag := .name ('h' :: natToDec lv), text := some X } := by
  intro pb refs parent rest
  obtain ⟨c, tail, he, hcs, hce⟩ := hX.shape
  have hch : c ≠ '#' := by
    rcases hce with hce | ⟨d, m, x, tl, hx, hd, hm1, _, _⟩
    · exact fun e => hce (by rw [e]; decide)
    · obtain ⟨m', rfl⟩ : ∃ m', m = m' + 1 := ⟨m - 1, by omega⟩
      rw [he] at hx
      simp only [List.replicate_succ, List.cons_append, List.cons.injEq] at hx
      rw [hx.1]; rcases hd with e | e <;> rw [e] <;> decide
  have hnl := hX.nl
  have hlast := hX.last
  have hcsp : c ≠ ' ' := by intro e; subst e; exact absurd hcs (by decide)
  have hcnl : c ≠ '\n' := by intro e; subst e; exact absurd hcs (by decide)
  generalize hu : (if lv = 1 then '=' else '-') = ch
  have hch2 : ch = '=' ∨ ch = '-' := by rw [← hu]; split <;> simp
  have hl1nl : '\n' ∉ spaces i ++ X := by
    intro hm; rcases List.mem_append.1 hm with hm | hm
    · exact absurd (List.eq_of_mem_replicate hm) (by decide)
    · exact hnl hm
  have hunl : '\n' ∉ List.replicate (k + 1) ch := by
    intro hm; have := List.eq_of_mem_replicate hm
    rcases hch2 with h | h <;> rw [h] at this <;> exact absurd this (by decide)
  have hlines : lines (spaces i ++ X ++ '\n' :: List.replicate (k + 1) ch) =
      [spaces i ++ X, List.replicate (k + 1) ch] := by
    unfold lines
    rw [splitC_append_nl _ _ (notNl_of_not_mem hl1nl), splitC_noNl _ (notNl_of_not_mem hunl)]
  have h4 : hashSearch (spaces i ++ X ++ '\n' :: List.replicate (k + 1) ch) = none := by
    have hh1 : (spaces i ++ X ++ '\n' :: List.replicate (k + 1) ch).head? ≠ some '#' := by
      rw [he, List.append_assoc, List.cons_append, head?_spaces_cons]; split <;> simp [hch]
    have hh2 : (List.replicate (k + 1) ch).head? ≠ some '#' := by
      rcases hch2 with h | h <;> simp [List.replicate_succ, h]
    have s1 := hashSearchNl_skip (spaces i ++ X) ('\n' :: List.replicate (k + 1) ch) 0
      (notNl_of_not_mem hl1nl)
    have s2 := hashSearchNl_skip (List.replicate (k + 1) ch) [] (0 + (spaces i ++ X).length + 1)
      (notNl_of_not_mem hunl)
    simp only [List.append_nil] at s2
    simp only [hashSearch, hashAt_none _ hh1, s1, hashSearchNl, if_true, hashAt_none _ hh2, s2]
  have h5 : setextMatch (spaces i ++ X ++ '\n' :: List.replicate (k + 1) ch) = true := by
    rw [setextMatch_eq]
    simp only [secondLine, hlines, List.getElem?_cons_succ, List.getElem?_cons_zero, setextLine2]
    have hp : (fun c => decide (c = '=') || decide (c = '-')) ch = true := by rcases hch2 with h | h <;> simp [h]
    rw [spanLen_replicate _ _ _ hp]
    simp
  generalize hb : spaces i ++ X ++ '\n' :: List.replicate (k + 1) ch = b at *
  have hb' : b = spaces i ++ c :: (tail ++ '\n' :: List.replicate (k + 1) ch) := by rw [← hb, he]; simp
  have h1 : b.isEmpty = false := by rw [hb']; cases i <;> simp [spaces, List.replicate_succ]
  have h2 : startsWith b ['\n'] = false := by
    rw [hb']; cases i <;> simp [spaces, List.replicate_succ, hcnl]
  have h3 : startsWith b (spaces tab) = false := by
    rw [hb']; exact startsWith_spaces_false _ tab c _ hi hcsp
  have hstrip : strip (spaces i ++ X) = X := by
    have := strip_append_of_blank (a := spaces i) (b := []) (by simp [isBlank, spaces]) (by simp [isBlank]) X
    simp only [List.append_nil] at this
    rw [this]
    exact strip_eq_self (fun d hd => by rw [he] at hd; cases hd; exact hcs) hlast
  have hlevel : (if startsWith (List.replicate (k + 1) ch) ['='] = true then 1 else 2) = lv := by
    rcases hlv with h | h
    · subst h; simp only [if_true] at hu; subst hu; simp [List.replicate_succ]
    · subst h; simp only [show (2 : Nat) ≠ 1 by decide, if_false] at hu; subst hu; simp [List.replicate_succ]
  unfold dispatch
  simp only [h1, h2, h3, h4, h5, Bool.or_self, Bool.false_eq_true, if_false, Bool.false_and, if_true]
  simp [setextP, hlines, hstrip, hlevel, hTag]

/-- **An ATX heading**: one to six `#`, a space, a one-line content `X`, a closing sequence -/
theorem produces_atx_raw (tab : Nat) (htab : 0 < tab) (X : Str) (hX : RawOK X) (lv : Nat) (h1 : 1 ≤ lv)
    (h6 : lv ≤ 6) (Y : Str) (hY : Y = [] ∨ ∃ m, Y = ' ' :: List.replicate m '#') :
    Produces tab (List.replicate lv '#' ++ ' ' :: (X ++ Y)) { tag := .name ('h' :: natToDec lv), text := some X } := by
  intro pb refs parent rest
  obtain ⟨c, tail, he, hcs, hce⟩ := hX.shape
  have hlast := hX.last
  obtain ⟨ys, hys, hclose⟩ : ∃ ys, (ys = [] ∨ ys = [' ']) ∧ ∀ f, hashHeader (f + 2) Y = some (ys, Y.length) := by
    rcases hY with rfl | ⟨m, rfl⟩
    · exact ⟨[], Or.inl rfl, fun f => hashHeader_closing_nil (f + 1)⟩
    · exact ⟨[' '], Or.inr rfl, fun f => by rw [hashHeader_closing]; simp⟩
  generalize hb : List.replicate lv '#' ++ ' ' :: (X ++ Y) = b
  have hlen : b.length = lv + 1 + X.length + Y.length := by rw [← hb]; simp; omega
  have hdrop : b.drop lv = ' ' :: (X ++ Y) := by
    rw [← hb, List.drop_left' (by simp)]
  have hcount : countPrefix '#' (some 6) b = lv := by rw [← hb]; exact countHash_level lv 6 h6 _
  obtain ⟨f0, hf0⟩ : ∃ f0, b.length + 1 = ((f0 + 2) + X.length) + 1 := ⟨b.length - X.length - 2, by omega⟩
  have hhdr : hashHeader (b.length + 1) (b.drop lv) = some (' ' :: (X ++ ys), Y.length + X.length + 1) := by
    rw [hdrop, hf0]
    have hw := hX.walk (f0 + 2) Y ys Y.length (hclose f0)
    have hcl : hashClose (' ' :: (X ++ Y)) = none := hashClose_none_of_head _ _ (by decide) (by decide)
    simp [hashHeader, hcl, hw]
  have hat : hashAt b = some (lv, ' ' :: (X ++ ys), lv + (Y.length + X.length + 1)) := by
    unfold hashAt
    rw [hcount]
    apply firstDown_top _ 1 lv _ h1
    simp only [hhdr]
  have hen : lv + (Y.length + X.length + 1) = b.length := by rw [hlen]; omega
  have hsearch : hashSearch b = some (0, b.length, lv, ' ' :: (X ++ ys)) := by
    simp only [hashSearch, hat, hen]
  have hstrip : strip (' ' :: (X ++ ys)) = X := by
    have hbl : isBlank ys = true := by rcases hys with rfl | rfl <;> decide
    have := strip_append_of_blank (a := [' ']) (b := ys) (by decide) hbl X
    simp only [List.cons_append, List.nil_append] at this
    rw [this]
    exact strip_eq_self (fun d hd => by rw [he] at hd; cases hd; exact hcs) hlast
  have hb1 : ∃ r, b = '#' :: r := by
    obtain ⟨l', rfl⟩ : ∃ l', lv = l' + 1 := ⟨lv - 1, by omega⟩
    exact ⟨List.replicate l' '#' ++ ' ' :: (X ++ Y), by rw [← hb]; simp [List.replicate_succ]⟩
  obtain ⟨r0, hr0⟩ := hb1
  have g1 : b.isEmpty = false := by rw [hr0]; rfl
  have g2 : startsWith b ['\n'] = false := by rw [hr0]; simp
  have g3 : startsWith b (spaces tab) = false := by
    obtain ⟨tb, rfl⟩ : ∃ tb, tab = tb + 1 := ⟨tab - 1, by omega⟩
    rw [hr0]; simp [spaces, List.replicate_succ]
  unfold dispatch
  simp only [g1, g2, g3, Bool.or_self, Bool.false_eq_true, if_false, Bool.false_and, hsearch]
  simp [hashP, hstrip, hTag]


/-! #### the lazy header group of `HashHeaderProcessor.RE` walks over such content -/

theorem hashHeader_succ : ∀ (f : Nat) (s : Str) (r : Str × Nat), hashHeader f s = some r → hashHeader (f + 1) s = some r := by
  intro f
  induction f with
  | zero => intro s r h; simp [hashHeader] at h
  | succ f ih =>
    intro s r h
    unfold hashHeader at h ⊢
    cases hc : hashClose s with
    | some k => simp only [hc] at h ⊢; exact h
    | none =>
      simp only [hc] at h ⊢
      cases s with
      | nil => exact h
      | cons c t =>
        simp only at h ⊢
        by_cases hb : c = '\\'
        · simp only [hb, if_true] at h ⊢
          cases t with
          | nil => exact h
          | cons d t' =>
            simp only at h ⊢
            by_cases hd : d = '\n'
            · simp [hd] at h
            · simp only [hd, if_false] at h ⊢
              cases hh : hashHeader f t' with
              | none => simp [hh] at h
              | some p => rw [hh] at h; rw [ih t' p hh]; exact h
        · simp only [hb, if_false] at h ⊢
          cases hh : hashHeader f t with
          | none => simp [hh] at h
          | some p => rw [hh] at h; rw [ih t p hh]; exact h

theorem hashHeader_mono (k : Nat) {f : Nat} {s : Str} {r : Str × Nat} (h : hashHeader f s = some r) :
    hashHeader (f + k) s = some r := by
  induction k with
  | zero => exact h
  | succ k ih => exact hashHeader_succ _ _ _ ih

theorem hashClose_none_of_last (X Y : Str) (hnl : '\n' ∉ X) (z : Char) (hz : X.getLast? = some z) (hz1 : z ≠ '#') :
    hashClose (X ++ Y) = none := by
  have hnotall : X.all (· = '#') = false := by
    cases h : X.all (· = '#') with
    | false => rfl
    | true =>
      have := List.all_eq_true.1 h z (List.mem_of_getLast? hz)
      simp only [decide_eq_true_eq] at this
      exact absurd this hz1
  have hk : countPrefix '#' none (X ++ Y) = countPrefix '#' none X := by
    rw [countPrefix_none, countPrefix_none]; exact spanLen_append_of_not_all _ _ _ hnotall
  have hlt : countPrefix '#' none X < X.length := by
    rw [countPrefix_none]
    have h1 := spanLen_le (· = '#') X
    have h2 : spanLen (· = '#') X ≠ X.length := by
      intro e; rw [spanLen_eq_length_iff] at e; rw [e] at hnotall; cases hnotall
    omega
  unfold hashClose
  simp only [hk]
  rw [List.drop_append_of_le_length (by omega)]
  cases hd : X.drop (countPrefix '#' none X) with
  | nil =>
    have := congrArg List.length hd
    simp at this; omega
  | cons c t =>
    have hcm : c ∈ X := List.mem_of_mem_drop (by rw [hd]; simp)
    have hc : c ≠ '\n' := fun e => hnl (e ▸ hcm)
    simp [hc]

/-- the header group walks over any text without line feed whose last character is neither `#` nor a backslash -/
theorem hashHeader_walk : ∀ (n : Nat) (X : Str), X.length ≤ n → X ≠ [] → '\n' ∉ X →
    (∀ z, X.getLast? = some z → z ≠ '#' ∧ z ≠ '\\') →
    ∀ (f : Nat) (Y h : Str) (m : Nat), hashHeader f Y = some (h, m) →
      hashHeader (f + X.length) (X ++ Y) = some (X ++ h, m + X.length) := by
  intro n
  induction n with
  | zero => intro X hl hne; cases X <;> simp_all
  | succ n ih =>
    intro X hl hne hnl hlast f Y h m hY
    obtain ⟨z, hz⟩ : ∃ z, X.getLast? = some z := by
      cases hx : X.getLast? with
      | none => exact absurd (List.getLast?_eq_none_iff.1 hx) hne
      | some z => exact ⟨z, rfl⟩
    have hcl := hashClose_none_of_last X Y hnl z hz (hlast z hz).1
    cases X with
    | nil => exact absurd rfl hne
    | cons c X' =>
      have hcnl : c ≠ '\n' := fun e => hnl (by simp [e])
      rw [show f + (c :: X').length = (f + X'.length) + 1 by simp; omega]
      simp only [List.cons_append] at hcl ⊢
      unfold hashHeader
      simp only [hcl]
      by_cases hb : c = '\\'
      · subst hb
        simp only [if_true]
        cases X' with
        | nil => exact absurd rfl (hlast '\\' (by simp)).2
        | cons d X'' =>
          have hdnl : d ≠ '\n' := fun e => hnl (by simp [e])
          simp only [List.cons_append, hdnl, if_false]
          by_cases hx : X'' = []
          · subst hx
            simp only [List.nil_append, List.length_cons, List.length_nil]
            rw [hashHeader_mono 1 hY]
          · have hl' : X''.length ≤ n := by simp at hl; omega
            have hlast' : ∀ z, X''.getLast? = some z → z ≠ '#' ∧ z ≠ '\\' := by
              intro z hz'
              apply hlast z
              cases X'' with
              | nil => exact absurd rfl hx
              | cons e X3 => simpa [List.getLast?_cons_cons] using hz'
            have := ih X'' hl' hx (fun hm => hnl (by simp [hm])) hlast' (f + 1) Y h m (hashHeader_mono 1 hY)
            rw [show f + (d :: X'').length = f + 1 + X''.length by simp; omega, this]
            simp; omega
      · simp only [hb, if_false]
        by_cases hx : X' = []
        · subst hx
          simp only [List.nil_append, List.length_nil, Nat.add_zero, hY]
          simp
        · have hl' : X'.length ≤ n := by simp at hl; omega
          have hlast' : ∀ z, X'.getLast? = some z → z ≠ '#' ∧ z ≠ '\\' := by
            intro z hz'
            apply hlast z
            cases X' with
            | nil => exact absurd rfl hx
            | cons e X3 => simpa [List.getLast?_cons_cons] using hz'
          rw [ih X' hl' hx (fun hm => hnl (by simp [hm])) hlast' f Y h m hY]
          simp; omega


/-- the header group walks over `X` -/
def Walk (X : Str) : Prop := ∀ (f : Nat) (Y h : Str) (m : Nat), hashHeader f Y = some (h, m) →
  hashHeader (f + X.length) (X ++ Y) = some (X ++ h, m + X.length)

theorem walk_nil : Walk [] := fun f Y h m hY => by simpa using hY

theorem walk_append {A B : Str} (hA : Walk A) (hB : Walk B) : Walk (A ++ B) := by
  intro f Y h m hY
  have h1 := hB f Y h m hY
  have h2 := hA (f + B.length) (B ++ Y) (B ++ h) (m + B.length) h1
  rw [List.append_assoc, List.append_assoc, List.length_append,
    show f + (A.length + B.length) = f + B.length + A.length by omega,
    show m + (A.length + B.length) = m + B.length + A.length by omega]
  exact h2

theorem walk_escAll {esc : List Char} (hE : EscOK esc) (t : Str) (hnl : '\n' ∉ t) : Walk (escAll esc t) := by
  intro f Y h m hY
  have hle := length_le_escAll esc t
  have := hashHeader_escAll hE t hnl Y f
  rw [hY] at this
  simp only [Option.map_some] at this
  have := hashHeader_mono ((escAll esc t).length - t.length) this
  rw [show f + t.length + ((escAll esc t).length - t.length) = f + (escAll esc t).length by omega] at this
  exact this

theorem walk_spanSrc (k : Nat) (b : Str) (hnl : '\n' ∉ padded b) : Walk (spanSrc (k + 1) b) := by
  have hlast : (spanSrc (k + 1) b).getLast? = some '`' := by
    have : spanSrc (k + 1) b = (ticks (k + 1) ++ (padded b ++ ticks k)) ++ ['`'] := by
      simp [spanSrc, ticks, List.replicate_succ']
    rw [this, List.getLast?_append]; rfl
  apply hashHeader_walk _ _ (Nat.le_refl _)
  · simp [spanSrc, ticks, List.replicate_succ]
  · intro hm
    simp only [spanSrc, ticks, List.mem_append] at hm
    rcases hm with hm | hm | hm
    · exact absurd (List.eq_of_mem_replicate hm) (by decide)
    · exact hnl hm
    · exact absurd (List.eq_of_mem_replicate hm) (by decide)
  · intro z hz
    rw [hlast] at hz; cases hz; exact ⟨by decide, by decide⟩

theorem walk_rawSegs {esc : List Char} (hE : EscOK esc) (segs : List SpanSeg)
    (h : ∀ s ∈ segs, (∃ k, s.n = k + 1) ∧ '\n' ∉ padded s.b ∧ '\n' ∉ s.t) : Walk (rawSegs esc segs) := by
  induction segs with
  | nil => exact walk_nil
  | cons s r ih =>
    obtain ⟨⟨k, hk⟩, h1, h2⟩ := h s List.mem_cons_self
    simp only [rawSegs]
    rw [hk]
    exact walk_append (walk_spanSrc k s.b h1)
      (walk_append (walk_escAll hE s.t h2) (ih (fun x hx => h x (List.mem_cons_of_mem _ hx))))

/-- after the leading digits of escaped text (followed by something that starts with neither a digit nor a dot) there
    is no dot -/
theorem no_dot_after_digits {esc : List Char} (hdot : '.' ∈ esc) (t Z : Str)
    (hZ : ∀ c, Z.head? = some c → isDecimal c = false ∧ c ≠ '.') :
    (escAll esc t ++ Z)[spanLen isDecimal (escAll esc t ++ Z)]? ≠ some '.' := by
  induction t with
  | nil =>
    simp only [escAll, List.nil_append]
    cases Z with
    | nil => simp
    | cons c Z' =>
      obtain ⟨h1, h2⟩ := hZ c rfl
      simp [spanLen, h1, h2]
  | cons c r ih =>
    by_cases hc : c ∈ esc
    · rw [escAll_cons_mem hc]
      simp [spanLen, show isDecimal '\\' = false by decide]
    · rw [escAll_cons_not_mem hc]
      have hcd : c ≠ '.' := fun e => hc (e ▸ hdot)
      by_cases hd : isDecimal c = true
      · simp only [List.cons_append, spanLen, hd, if_true, List.getElem?_cons_succ]
        exact ih
      · simp [spanLen, hd, hcd]

theorem olMarker_none_of (s : Str) (h : s[spanLen isDecimal s]? ≠ some '.') : olMarker s = none := by
  unfold olMarker
  have : (s[spanLen isDecimal s]? == some '.') = false := by simpa using h
  simp [this]


/-- the plain text at the end of the line -/
def lastText (t0 : Str) (segs : List SpanSeg) : Str := (segs.getLast?.map (·.t)).getD t0

/-- what the block stage needs of a line of escaped text and code spans -/
structure LineOK (t0 : Str) (segs : List SpanSeg) : Prop where
  nl0 : '\n' ∉ t0
  nls : ∀ s ∈ segs, (∃ k, s.n = k + 1) ∧ '\n' ∉ padded s.b ∧ '\n' ∉ s.t
  ne : t0 ≠ [] ∨ segs ≠ []
  first : t0 ≠ [] → startsVisible t0 = true
  lastv : ∀ z, (lastText t0 segs).getLast? = some z → isSpace z = false

theorem lastText_cons (t0 : Str) (s : SpanSeg) (r : List SpanSeg) : lastText t0 (s :: r) = lastText s.t r := by
  cases r with
  | nil => rfl
  | cons a b =>
    simp only [lastText, List.getLast?_cons_cons]
    cases h : (a :: b).getLast? with
    | none => exact absurd (List.getLast?_eq_none_iff.1 h) (by simp)
    | some x => rfl

theorem mem_rawSegs {esc : List Char} {segs : List SpanSeg} {c : Char} (h : c ∈ rawSegs esc segs) :
    c = '`' ∨ ∃ s ∈ segs, c ∈ padded s.b ∨ c ∈ escAll esc s.t := by
  induction segs with
  | nil => simp [rawSegs] at h
  | cons s r ih =>
    simp only [rawSegs, spanSrc, ticks, List.mem_append] at h
    rcases h with (h | h | h) | h | h
    · exact Or.inl (List.eq_of_mem_replicate h)
    · exact Or.inr ⟨s, List.mem_cons_self, Or.inl h⟩
    · exact Or.inl (List.eq_of_mem_replicate h)
    · exact Or.inr ⟨s, List.mem_cons_self, Or.inr h⟩
    · rcases ih h with h | ⟨x, hx, hc⟩
      · exact Or.inl h
      · exact Or.inr ⟨x, List.mem_cons_of_mem _ hx, hc⟩

theorem spanSrc_last (k : Nat) (b : Str) : (spanSrc (k + 1) b).getLast? = some '`' := by
  have : spanSrc (k + 1) b = (ticks (k + 1) ++ (padded b ++ ticks k)) ++ ['`'] := by
    simp [spanSrc, ticks, List.replicate_succ']
  rw [this, List.getLast?_append]; rfl

theorem raw_last (esc : List Char) (segs : List SpanSeg) :
    ∀ (t0 : Str), (∀ s ∈ segs, ∃ k, s.n = k + 1) →
      (∀ z, (lastText t0 segs).getLast? = some z → isSpace z = false) →
      ∀ d, (escAll esc t0 ++ rawSegs esc segs).getLast? = some d → isSpace d = false := by
  induction segs with
  | nil =>
    intro t0 _ hl d hd
    simp only [rawSegs, List.append_nil] at hd
    cases t0 with
    | nil => simp [escAll] at hd
    | cons c r =>
      rw [getLast_escAll esc (c :: r) (by simp)] at hd
      exact hl d (by simpa [lastText] using hd)
  | cons s r ih =>
    intro t0 hn hl d hd
    obtain ⟨k, hk⟩ := hn s List.mem_cons_self
    have hsne : spanSrc s.n s.b ≠ [] := by rw [hk]; simp [spanSrc, ticks, List.replicate_succ]
    simp only [rawSegs] at hd
    rw [List.getLast?_append] at hd
    have hT : (spanSrc s.n s.b ++ (escAll esc s.t ++ rawSegs esc r)).getLast? ≠ none := by
      intro e; rw [List.getLast?_eq_none_iff] at e
      exact hsne (List.append_eq_nil_iff.1 e).1
    cases hx : (spanSrc s.n s.b ++ (escAll esc s.t ++ rawSegs esc r)).getLast? with
    | none => exact absurd hx hT
    | some x =>
      rw [hx] at hd
      simp only [Option.some_or, Option.some.injEq] at hd
      subst hd
      rw [List.getLast?_append] at hx
      cases hy : (escAll esc s.t ++ rawSegs esc r).getLast? with
      | none =>
        rw [hy, hk, spanSrc_last] at hx
        simp at hx; subst hx; decide
      | some y =>
        rw [hy] at hx
        simp only [Option.some_or, Option.some.injEq] at hx
        subst hx
        have hl' : ∀ z, (lastText s.t r).getLast? = some z → isSpace z = false := by
          intro z hz
          apply hl z
          rw [lastText_cons]; exact hz
        exact ih s.t (fun x hx => hn x (List.mem_cons_of_mem _ hx)) hl' y hy

theorem lineEsc_sub {esc : List Char} (hE : EscOK esc) {c : Char} (h : c ∉ esc) : c ∉ lineEsc := by
  intro hm
  simp only [lineEsc, List.mem_cons, List.not_mem_nil, or_false] at hm
  rcases hm with rfl | rfl | rfl | rfl | rfl | rfl | rfl
  · exact h hE.hash
  · exact h hE.dash
  · exact h hE.under
  · exact h hE.star
  · exact h hE.plus
  · exact h hE.gt
  · exact h hE.lbr

/-- such a line is content the block processors handle as plain content -/
theorem rawOK_line {esc : List Char} (hE : EscOK esc) (t0 : Str) (segs : List SpanSeg) (h : LineOK t0 segs) :
    RawOK (escAll esc t0 ++ rawSegs esc segs) where
  shape := by
    cases t0 with
    | nil =>
      rcases h.ne with h' | h'
      · exact absurd rfl h'
      · cases segs with
        | nil => exact absurd rfl h'
        | cons s r =>
          obtain ⟨⟨k, hk⟩, _⟩ := h.nls s List.mem_cons_self
          refine ⟨'`', ticks k ++ (padded s.b ++ ticks (k + 1)) ++ (escAll esc s.t ++ rawSegs esc r), ?_,
            by decide, Or.inl (by decide)⟩
          simp [escAll, rawSegs, spanSrc, hk, ticks, List.replicate_succ, List.append_assoc]
    | cons c r =>
      have hv := h.first (by simp)
      have hcs : isSpace c = false := by simpa [startsVisible] using hv
      by_cases hc : c ∈ esc
      · refine ⟨'\\', c :: escAll esc r ++ rawSegs esc segs, by rw [escAll_cons_mem hc]; rfl, by decide,
          Or.inl (by decide)⟩
      · exact ⟨c, escAll esc r ++ rawSegs esc segs, by rw [escAll_cons_not_mem hc]; rfl, hcs,
          Or.inl (lineEsc_sub hE hc)⟩
  nl := by
    intro hm
    rcases List.mem_append.1 hm with hm | hm
    · rcases mem_escAll hm with e | hm
      · exact absurd e (by decide)
      · exact h.nl0 hm
    · rcases mem_rawSegs hm with e | ⟨s, hs, hc | hc⟩
      · exact absurd e (by decide)
      · exact (h.nls s hs).2.1 hc
      · rcases mem_escAll hc with e | hc
        · exact absurd e (by decide)
        · exact (h.nls s hs).2.2 hc
  last := raw_last esc segs t0 (fun s hs => (h.nls s hs).1) h.lastv
  ol := by
    apply olMarker_none_of
    apply no_dot_after_digits hE.dot
    intro c hc
    cases segs with
    | nil => simp [rawSegs] at hc
    | cons s r =>
      obtain ⟨⟨k, hk⟩, _⟩ := h.nls s List.mem_cons_self
      simp [rawSegs, spanSrc, hk, ticks, List.replicate_succ] at hc
      subst hc; exact ⟨by decide, by decide⟩
  walk := walk_append (walk_escAll hE t0 h.nl0) (walk_rawSegs hE segs h.nls)

/-! ### 12. a paragraph or heading with code spans as a piece -/

/-- a chunk without empty line that produces one element -/
def chunkB (g : List Str) (node : Node) : BPiece := ⟨g, [joinLines g], false, node, node⟩

theorem chunkB_ok (tab : Nat) (g : List Str) (node : Node) (hne : g ≠ [])
    (hnel : noEmptyLineFrom true (joinLines g) = true) (hprod : Produces tab (joinLines g) node)
    (hlist : isListTag node = false) (hpre : preCode node = none) : BPieceOK tab (chunkB g node) where
  ne := hne
  split := fun Y => by simpa [chunkB] using splitAux_chunk true (joinLines g) Y hnel
  prod := fun refs parent rest f _ _ => ⟨1, by
    simp only [chunkB, List.singleton_append, parseBlocks_step, hprod _ refs parent rest]⟩
  clean := fun _ => ⟨hlist, hpre⟩
  last := fun pb refs parent => by
    apply dispatch_empty_block
    intro sib hs
    rw [last_append] at hs
    cases hs
    exact hpre

/-- a `p`/`h1`–`h6` element with code spans, printed as the lines `g` -/
def spanPiece (esc : List Char) (g : List Str) (tag t0 : Str) (segs : List SpanSeg) : Piece2 :=
  ⟨chunkB g (spanTxtSrc esc tag t0 segs), spanTxtElem esc tag t0 segs, spanTxtElem esc tag t0 segs⟩

theorem spanTxtSrc_clean (esc : List Char) (tag : Str) (htag : textTags.contains tag = true) (t0 : Str)
    (segs : List SpanSeg) :
    isListTag (spanTxtSrc esc tag t0 segs) = false ∧ preCode (spanTxtSrc esc tag t0 segs) = none := by
  have hmem : tag ∈ "hr".toList :: textTags := List.mem_cons_of_mem _ (List.contains_iff_mem.1 htag)
  have key : ∀ tag ∈ "hr".toList :: textTags, tag ≠ "ul".toList ∧ tag ≠ "ol".toList ∧ tag ≠ "pre".toList := by decide
  obtain ⟨a1, a2, a3⟩ := key _ hmem
  have b1 : tag ≠ ['u', 'l'] := a1
  have b2 : tag ≠ ['o', 'l'] := a2
  have b3 : tag ≠ ['p', 'r', 'e'] := a3
  constructor
  · simp [spanTxtSrc, isListTag, Node.isTag, b1, b2]
  · simp [spanTxtSrc, preCode, Node.isTag, b3]

theorem phChar_generated : ∀ c ∈ Generated.escapedChars, phChar c = false := by decide

theorem spanPiece_ok (g : List Str) (tag t0 : Str) (segs : List SpanSeg)
    (hok : SpanTxtOK Generated.escapedChars tag t0 segs) (hne : g ≠ [])
    (hnel : noEmptyLineFrom true (joinLines g) = true)
    (hprod : Produces 4 (joinLines g) (spanTxtSrc Generated.escapedChars tag t0 segs))
    (hsafe : ∀ l ∈ g, lineSafe l = true ∧ '<' ∉ l ∧ refsClosed l = true)
    (hvis : ∃ c ∈ joinLines g, isSpace c = false) :
    Piece2OK {} (spanPiece Generated.escapedChars g tag t0 segs) where
  bok := chunkB_ok 4 g _ hne hnel hprod (spanTxtSrc_clean _ tag hok.htag t0 segs).1
    (spanTxtSrc_clean _ tag hok.htag t0 segs).2
  safe := hsafe
  vis := hvis
  src := rfl
  srcLast := rfl
  eok := fun refs => spanTxtElem_ok { esc := Generated.escapedChars, refs := refs } escOK_generated
    phChar_generated tag t0 segs hok
  eokLast := fun refs => spanTxtElem_ok { esc := Generated.escapedChars, refs := refs } escOK_generated
    phChar_generated tag t0 segs hok
  out := rfl

/-! ### 13. the printed form of content with code spans -/

abbrev ESC : List Char := Generated.escapedChars

/-- the plain text before the first span, and for each span its body and the plain text after it -/
def splitSpans : List DocSpec.Inline → Str × List (Str × Str)
  | [] => ([], [])
  | .text w :: r => (w ++ (splitSpans r).1, (splitSpans r).2)
  | .esc c :: r => (c :: (splitSpans r).1, (splitSpans r).2)
  | .code b :: r => ([], (b, (splitSpans r).1) :: (splitSpans r).2)
  | _ :: r => splitSpans r

/-- the items of a well-formed run of words, escapes and code spans -/
def spanItemsOK : List DocSpec.Inline → Bool
  | [] => true
  | .text w :: r => wfWords w && spanItemsOK r
  | .esc c :: r => ESC.contains c && spanItemsOK r
  | .code b :: r => wfCodeSpan b && noLt b && spanItemsOK r
  | _ :: _ => false

theorem spanItemsOK_of_wf (c : List DocSpec.Inline) (brOk : Bool) (hp : c.all isSpanItem = true)
    (hw : wfInlineList false .none brOk c = true) : spanItemsOK c = true := by
  induction c with
  | nil => rfl
  | cons x r ih =>
    simp only [List.all_cons, Bool.and_eq_true] at hp
    simp only [wfInlineList, Bool.and_eq_true] at hw
    have ihr := ih hp.2 hw.2
    cases x with
    | text w => simp only [wfInline] at hw; simp [spanItemsOK, hw.1, ihr]
    | esc ch => simp only [wfInline] at hw; simp [spanItemsOK, List.contains_iff_mem.1 hw.1, ihr]
    | code b => simp only [wfInline] at hw; simp only [isSpanItem] at hp; simp [spanItemsOK, hw.1, hp.1, ihr]
    | em _ => simp [isSpanItem] at hp
    | strong _ => simp [isSpanItem] at hp
    | link _ _ _ => simp [isSpanItem] at hp
    | image _ _ _ => simp [isSpanItem] at hp
    | autolink _ => simp [isSpanItem] at hp
    | br => simp [isSpanItem] at hp

/-- the fence the printer may choose for the body `b` -/
def fenceOK (n : Nat) (b : Str) : Prop := longestTickRun b + 1 ≤ n ∧ n ≤ 3

theorem escAll_esc_cons (ch : Char) (h : ch ∈ ESC) (X : Str) : escAll ESC (ch :: X) = '\\' :: ch :: escAll ESC X :=
  escAll_cons_mem h X

/-- **the printed form**: escaped plain text and spans, with a fence the body does not contain -/
theorem printInlines_span (c : List DocSpec.Inline) (h : spanItemsOK c = true) :
    ∀ (pd : Option Char) (prevB endB : Bool) (st : PSt), ∃ (segs : List SpanSeg) (st' : PSt),
      printInlines pd prevB endB c st = (escAll ESC (splitSpans c).1 ++ rawSegs ESC segs, st') ∧
      st'.defs = st.defs ∧ segs.map (fun s => (s.b, s.t)) = (splitSpans c).2 ∧
      ∀ s ∈ segs, fenceOK s.n s.b := by
  induction c with
  | nil => intro pd prevB endB st; exact ⟨[], st, by simp [printInlines, splitSpans, rawSegs, escAll], rfl, rfl, by simp⟩
  | cons x r ih =>
    intro pd prevB endB st
    cases x with
    | text w =>
      simp only [spanItemsOK, Bool.and_eq_true, wfWords] at h
      obtain ⟨segs, st', hp, hd, hm, hf⟩ := ih h.2 pd (afterBoundary prevB w) endB st
      refine ⟨segs, st', ?_, hd, hm, hf⟩
      simp only [printInlines, printInline, hp, splitSpans]
      rw [escAll_words w h.1.1.2]; simp [List.append_assoc]
    | esc ch =>
      simp only [spanItemsOK, Bool.and_eq_true] at h
      obtain ⟨segs, st', hp, hd, hm, hf⟩ := ih h.2 pd (afterBoundary prevB ['\\', ch]) endB st
      refine ⟨segs, st', ?_, hd, hm, hf⟩
      simp only [printInlines, printInline, hp, splitSpans]
      rw [escAll_esc_cons ch (List.contains_iff_mem.1 h.1)]; simp
    | code b =>
      simp only [spanItemsOK, Bool.and_eq_true, wfCodeSpan, decide_eq_true_eq] at h
      have hL : longestTickRun b ≤ 2 := h.1.1.1.2
      generalize hn : longestTickRun b + 1 + (draw st).1 % (4 - (longestTickRun b + 1)) = n
      have hnb : fenceOK n b := by
        have : (draw st).1 % (4 - (longestTickRun b + 1)) < 4 - (longestTickRun b + 1) := Nat.mod_lt _ (by omega)
        constructor <;> omega
      obtain ⟨segs, st', hp, hd, hm, hf⟩ := ih h.2 pd
        (afterBoundary prevB (rep n '`' ++ codePad b ++ b ++ codePad b ++ rep n '`')) endB (draw st).2
      refine ⟨⟨n, b, (splitSpans r).1⟩ :: segs, st', ?_, by rw [hd, draw_defs], by simp [splitSpans, hm], ?_⟩
      · simp only [printInlines, printInline, hn, hp, splitSpans]
        simp [escAll, rawSegs, spanSrc, padded, rep, ticks, List.append_assoc]
      · intro s hs
        rcases List.mem_cons.1 hs with rfl | hs
        · exact hnb
        · exact hf s hs
    | em _ => simp [spanItemsOK] at h
    | strong _ => simp [spanItemsOK] at h
    | link _ _ _ => simp [spanItemsOK] at h
    | image _ _ _ => simp [spanItemsOK] at h
    | autolink _ => simp [spanItemsOK] at h
    | br => simp [spanItemsOK] at h


/-! #### what well-formedness gives about the split content -/

/-- a character of words or an escapable character -/
def plainCh (c : Char) : Prop := isAlnumSp c = true ∨ c ∈ ESC

theorem plainCh_facts {c : Char} (h : plainCh c) :
    isPlainChar c = true ∧ c ≠ '\n' ∧ c ≠ '&' ∧ c ≠ '<' ∧ c ≠ Inline.STX := by
  have key : ∀ c, isPlainChar c = true → c ≠ '&' ∧ c ≠ '<' ∧ c ≠ Inline.STX := by
    intro c hc
    simp only [isPlainChar, Bool.and_eq_true, bne_iff_ne, ne_eq] at hc
    exact ⟨hc.1.1.1.1.2, hc.1.1.1.1.1, hc.1.1.1.2⟩
  rcases h with h | h
  · have := alnumSp_facts h
    exact ⟨this.2.1, this.2.2, key c this.2.1⟩
  · have := escChar_facts c h
    exact ⟨this.1, this.2.1, key c this.1⟩

def startsCode : List DocSpec.Inline → Bool
  | .code _ :: _ => true
  | _ => false

theorem split_fst_nil (c : List DocSpec.Inline) (h : spanItemsOK c = true) :
    (splitSpans c).1 = [] ↔ c = [] ∨ startsCode c = true := by
  cases c with
  | nil => simp [splitSpans]
  | cons x r =>
    cases x with
    | text w =>
      simp only [spanItemsOK, Bool.and_eq_true, wfWords, Bool.not_eq_true'] at h
      have : w ≠ [] := by intro e; subst e; simp at h
      simp [splitSpans, startsCode, this]
    | esc ch => simp [splitSpans, startsCode]
    | code b => simp [splitSpans, startsCode]
    | em _ => simp [spanItemsOK] at h
    | strong _ => simp [spanItemsOK] at h
    | link _ _ _ => simp [spanItemsOK] at h
    | image _ _ _ => simp [spanItemsOK] at h
    | autolink _ => simp [spanItemsOK] at h
    | br => simp [spanItemsOK] at h

theorem split_chars (c : List DocSpec.Inline) (h : spanItemsOK c = true) :
    (∀ ch ∈ (splitSpans c).1, plainCh ch) ∧
    ∀ bt ∈ (splitSpans c).2, (∀ ch ∈ bt.2, plainCh ch) ∧ wfCodeSpan bt.1 = true ∧ noLt bt.1 = true := by
  induction c with
  | nil => simp [splitSpans]
  | cons x r ih =>
    cases x with
    | text w =>
      simp only [spanItemsOK, Bool.and_eq_true, wfWords] at h
      obtain ⟨i1, i2⟩ := ih h.2
      refine ⟨?_, i2⟩
      intro ch hch
      simp only [splitSpans, List.mem_append] at hch
      rcases hch with hch | hch
      · exact Or.inl (List.all_eq_true.1 h.1.1.2 ch hch)
      · exact i1 ch hch
    | esc e =>
      simp only [spanItemsOK, Bool.and_eq_true] at h
      obtain ⟨i1, i2⟩ := ih h.2
      refine ⟨?_, i2⟩
      intro ch hch
      simp only [splitSpans, List.mem_cons] at hch
      rcases hch with rfl | hch
      · exact Or.inr (List.contains_iff_mem.1 h.1)
      · exact i1 ch hch
    | code b =>
      simp only [spanItemsOK, Bool.and_eq_true] at h
      obtain ⟨i1, i2⟩ := ih h.2
      refine ⟨by simp [splitSpans], ?_⟩
      intro bt hbt
      simp only [splitSpans, List.mem_cons] at hbt
      rcases hbt with rfl | hbt
      · exact ⟨i1, h.1.1, h.1.2⟩
      · exact i2 bt hbt
    | em _ => simp [spanItemsOK] at h
    | strong _ => simp [spanItemsOK] at h
    | link _ _ _ => simp [spanItemsOK] at h
    | image _ _ _ => simp [spanItemsOK] at h
    | autolink _ => simp [spanItemsOK] at h
    | br => simp [spanItemsOK] at h

/-- between two spans there is text, and it does not end with a backslash -/
def gapsOK : List (Str × Str) → Prop
  | a :: b :: r => a.2 ≠ [] ∧ a.2.getLast? ≠ some '\\' ∧ gapsOK (b :: r)
  | _ => True

theorem okAdjacents_tail {x : DocSpec.Inline} {r : List DocSpec.Inline} (h : okAdjacents (x :: r) = true) :
    okAdjacents r = true := by
  cases r with
  | nil => rfl
  | cons y r' => rw [okAdjacents] at h; simp only [Bool.and_eq_true] at h; exact h.2

theorem noBs_tail {x : DocSpec.Inline} {r : List DocSpec.Inline} (h : noBsBeforeCode (x :: r) = true) :
    noBsBeforeCode r = true := by
  cases x with
  | esc c =>
    cases r with
    | nil => rfl
    | cons y r' =>
      cases y with
      | code b => simp only [noBsBeforeCode, Bool.and_eq_true] at h; exact h.2
      | text _ => simpa [noBsBeforeCode] using h
      | esc _ => simpa [noBsBeforeCode] using h
      | em _ => simpa [noBsBeforeCode] using h
      | strong _ => simpa [noBsBeforeCode] using h
      | link _ _ _ => simpa [noBsBeforeCode] using h
      | image _ _ _ => simpa [noBsBeforeCode] using h
      | autolink _ => simpa [noBsBeforeCode] using h
      | br => simpa [noBsBeforeCode] using h
  | text _ => simpa [noBsBeforeCode] using h
  | code _ => simpa [noBsBeforeCode] using h
  | em _ => simpa [noBsBeforeCode] using h
  | strong _ => simpa [noBsBeforeCode] using h
  | link _ _ _ => simpa [noBsBeforeCode] using h
  | image _ _ _ => simpa [noBsBeforeCode] using h
  | autolink _ => simpa [noBsBeforeCode] using h
  | br => simpa [noBsBeforeCode] using h

theorem alnumSp_ne_bs {c : Char} (h : isAlnumSp c = true) : c ≠ '\\' := by
  intro e; subst e; exact absurd h (by decide)

theorem split_gaps (c : List DocSpec.Inline) (h : spanItemsOK c = true) (ha : okAdjacents c = true)
    (hb : noBsBeforeCode c = true) :
    gapsOK (splitSpans c).2 ∧ ((splitSpans c).2 ≠ [] → (splitSpans c).1.getLast? ≠ some '\\') := by
  induction c with
  | nil => simp [splitSpans, gapsOK]
  | cons x r ih =>
    have har := okAdjacents_tail ha
    have hbr := noBs_tail hb
    cases x with
    | text w =>
      simp only [spanItemsOK, Bool.and_eq_true, wfWords, Bool.not_eq_true'] at h
      obtain ⟨i1, i2⟩ := ih h.2 har hbr
      refine ⟨i1, fun hne => ?_⟩
      simp only [splitSpans] at hne ⊢
      rw [List.getLast?_append]
      cases ht : (splitSpans r).1.getLast? with
      | none =>
        simp only [Option.none_or]
        intro hl
        exact alnumSp_ne_bs (List.all_eq_true.1 h.1.1.2 _ (List.mem_of_getLast? hl)) rfl
      | some z =>
        simp only [Option.some_or]
        have := i2 hne
        rw [ht] at this; exact this
    | esc e =>
      simp only [spanItemsOK, Bool.and_eq_true] at h
      obtain ⟨i1, i2⟩ := ih h.2 har hbr
      refine ⟨i1, fun hne => ?_⟩
      simp only [splitSpans] at hne ⊢
      cases ht : (splitSpans r).1 with
      | nil =>
        have hsc := (split_fst_nil r h.2).1 ht
        rcases hsc with rfl | hsc
        · simp [splitSpans] at hne
        · cases r with
          | nil => simp [startsCode] at hsc
          | cons y r' =>
            cases y <;> simp [startsCode] at hsc
            simp only [noBsBeforeCode, Bool.and_eq_true, bne_iff_ne, ne_eq] at hb
            simpa using hb.1
      | cons a b =>
        have := i2 hne
        rw [ht] at this
        simpa [List.getLast?_cons_cons] using this
    | code b =>
      simp only [spanItemsOK, Bool.and_eq_true] at h
      obtain ⟨i1, i2⟩ := ih h.2 har hbr
      refine ⟨?_, by simp [splitSpans]⟩
      simp only [splitSpans]
      cases hss : (splitSpans r).2 with
      | nil => trivial
      | cons q qs =>
        rw [hss] at i1 i2
        refine ⟨?_, i2 (by simp), i1⟩
        -- the next item is not a code span
        intro ht
        have hsc := (split_fst_nil r h.2).1 ht
        rcases hsc with rfl | hsc
        · simp [splitSpans] at hss
        · cases r with
          | nil => simp [startsCode] at hsc
          | cons y r' =>
            cases y <;> simp [startsCode] at hsc
            rw [okAdjacents] at ha
            simp [okAdjacent, isCodeSpan] at ha
    | em _ => simp [spanItemsOK] at h
    | strong _ => simp [spanItemsOK] at h
    | link _ _ _ => simp [spanItemsOK] at h
    | image _ _ _ => simp [spanItemsOK] at h
    | autolink _ => simp [spanItemsOK] at h
    | br => simp [spanItemsOK] at h


theorem alnumSp_last_visible (w : Str) (hw : wfWords w = true) (hl : w.getLast? ≠ some ' ') :
    ∀ z, w.getLast? = some z → isSpace z = false := by
  intro z hz
  simp only [wfWords, Bool.and_eq_true] at hw
  have hza : isAlnumSp z = true := List.all_eq_true.1 hw.1.2 z (List.mem_of_getLast? hz)
  exact alnum_visible z hza (fun e => hl (e ▸ hz))

theorem split_first (c : List DocSpec.Inline) (h : spanItemsOK c = true) (hs : startsOk c = true)
    (hne : (splitSpans c).1 ≠ []) : startsVisible (splitSpans c).1 = true := by
  cases c with
  | nil => simp [startsOk] at hs
  | cons x r =>
    cases x with
    | text w =>
      simp only [spanItemsOK, Bool.and_eq_true, wfWords, Bool.not_eq_true'] at h
      simp only [startsOk, bne_iff_ne, ne_eq] at hs
      cases w with
      | nil => simp at h
      | cons a b =>
        have ha : isAlnumSp a = true := by
          have := h.1.1.2; simp only [List.all_cons, Bool.and_eq_true] at this; exact this.1
        have : a ≠ ' ' := by simpa using hs
        simp [splitSpans, startsVisible, alnum_visible a ha this]
    | esc ch =>
      simp only [spanItemsOK, Bool.and_eq_true] at h
      simp [splitSpans, startsVisible, (escChar_facts _ (List.contains_iff_mem.1 h.1)).2.2]
    | code b => simp [splitSpans] at hne
    | em _ => simp [spanItemsOK] at h
    | strong _ => simp [spanItemsOK] at h
    | link _ _ _ => simp [spanItemsOK] at h
    | image _ _ _ => simp [spanItemsOK] at h
    | autolink _ => simp [spanItemsOK] at h
    | br => simp [spanItemsOK] at h

/-- the plain text at the end of the content -/
def lastTextS (p : Str × List (Str × Str)) : Str := (p.2.getLast?.map (·.2)).getD p.1

theorem endsOk_tail {x y : DocSpec.Inline} {r : List DocSpec.Inline} (h : endsOk (x :: y :: r) = true) :
    endsOk (y :: r) = true := by
  cases x <;> simpa [endsOk] using h

theorem split_nil_iff (c : List DocSpec.Inline) (h : spanItemsOK c = true) :
    ((splitSpans c).1 = [] ∧ (splitSpans c).2 = []) ↔ c = [] := by
  constructor
  · intro ⟨h1, h2⟩
    rcases (split_fst_nil c h).1 h1 with rfl | hsc
    · rfl
    · cases c with
      | nil => rfl
      | cons y r => cases y <;> simp [startsCode] at hsc; simp [splitSpans] at h2
  · intro e; subst e; simp [splitSpans]

theorem split_last (c : List DocSpec.Inline) (h : spanItemsOK c = true) (he : endsOk c = true) :
    ∀ z, (lastTextS (splitSpans c)).getLast? = some z → isSpace z = false := by
  induction c with
  | nil => simp [endsOk] at he
  | cons x r ih =>
    -- facts about the rest
    have hrest : r ≠ [] → ∀ z, (lastTextS (splitSpans r)).getLast? = some z → isSpace z = false := by
      intro hr
      cases r with
      | nil => exact absurd rfl hr
      | cons y r' =>
        have hok : spanItemsOK (y :: r') = true := by
          cases x <;> simp [spanItemsOK] at h <;> first | exact h.2 | skip
        exact ih hok (endsOk_tail he)
    have hlt : ∀ (t : Str) (ss : List (Str × Str)), ss ≠ [] → ∀ t', lastTextS (t, ss) = lastTextS (t', ss) := by
      intro t ss hss t'
      simp only [lastTextS]
      cases hg : ss.getLast? with
      | none => exact absurd (List.getLast?_eq_none_iff.1 hg) hss
      | some q => rfl
    cases x with
    | text w =>
      simp only [spanItemsOK, Bool.and_eq_true] at h
      intro z hz
      by_cases hss : (splitSpans r).2 = []
      · simp only [splitSpans, lastTextS, hss, List.getLast?_nil, Option.map_none, Option.getD_none] at hz
        by_cases ht : (splitSpans r).1 = []
        · have hr : r = [] := (split_nil_iff r h.2).1 ⟨ht, hss⟩
          subst hr
          simp only [ht, List.append_nil] at hz
          simp only [endsOk, bne_iff_ne, ne_eq] at he
          exact alnumSp_last_visible w h.1 he z hz
        · have hr : r ≠ [] := fun e => ht (by subst e; rfl)
          apply hrest hr z
          simp only [lastTextS, hss, List.getLast?_nil, Option.map_none, Option.getD_none]
          rw [List.getLast?_append] at hz
          cases hx : (splitSpans r).1.getLast? with
          | none => exact absurd (List.getLast?_eq_none_iff.1 hx) ht
          | some q => rw [hx] at hz; simpa using hz
      · have hr : r ≠ [] := fun e => hss (by subst e; rfl)
        apply hrest hr z
        rw [hlt _ _ hss (w ++ (splitSpans r).1)]
        exact hz
    | esc ch =>
      simp only [spanItemsOK, Bool.and_eq_true] at h
      intro z hz
      by_cases hss : (splitSpans r).2 = []
      · simp only [splitSpans, lastTextS, hss, List.getLast?_nil, Option.map_none, Option.getD_none] at hz
        by_cases ht : (splitSpans r).1 = []
        · simp only [ht, List.getLast?_singleton, Option.some.injEq] at hz
          subst hz
          exact (escChar_facts _ (List.contains_iff_mem.1 h.1)).2.2
        · have hr : r ≠ [] := fun e => ht (by subst e; rfl)
          apply hrest hr z
          simp only [lastTextS, hss, List.getLast?_nil, Option.map_none, Option.getD_none]
          cases hx : (splitSpans r).1 with
          | nil => exact absurd hx ht
          | cons a b => rw [hx] at hz; simpa [List.getLast?_cons_cons] using hz
      · have hr : r ≠ [] := fun e => hss (by subst e; rfl)
        apply hrest hr z
        rw [hlt _ _ hss (ch :: (splitSpans r).1)]
        exact hz
    | code b =>
      simp only [spanItemsOK, Bool.and_eq_true] at h
      intro z hz
      have hl : lastTextS (splitSpans (.code b :: r)) = lastTextS (splitSpans r) := by
        simp only [splitSpans, lastTextS]
        cases hss : (splitSpans r).2 with
        | nil => simp
        | cons q qs =>
          simp only [List.getLast?_cons_cons]
          cases hg : (q :: qs).getLast? with
          | none => exact absurd (List.getLast?_eq_none_iff.1 hg) (by simp)
          | some x => rfl
      rw [hl] at hz
      by_cases hr : r = []
      · subst hr; simp [splitSpans, lastTextS] at hz
      · exact hrest hr z hz
    | em _ => simp [spanItemsOK] at h
    | strong _ => simp [spanItemsOK] at h
    | link _ _ _ => simp [spanItemsOK] at h
    | image _ _ _ => simp [spanItemsOK] at h
    | autolink _ => simp [spanItemsOK] at h
    | br => simp [spanItemsOK] at h


/-! #### fences -/

theorem tickRunAux_mono (s : Str) : ∀ (c1 b1 c2 b2 : Nat), c1 ≤ c2 → b1 ≤ b2 → tickRunAux c1 b1 s ≤ tickRunAux c2 b2 s := by
  induction s with
  | nil => intro c1 b1 c2 b2 h1 h2; simp only [tickRunAux]; omega
  | cons c s ih =>
    intro c1 b1 c2 b2 h1 h2
    simp only [tickRunAux]
    split
    · exact ih _ _ _ _ (by omega) h2
    · exact ih _ _ _ _ (Nat.le_refl _) (by omega)

theorem tickRunAux_ge (s : Str) : ∀ (cur best : Nat),
    best ≤ tickRunAux cur best s ∧ cur + countPrefix '`' none s ≤ tickRunAux cur best s := by
  induction s with
  | nil => intro cur best; simp only [tickRunAux, countPrefix]; omega
  | cons c s ih =>
    intro cur best
    by_cases hc : c = '`'
    · have := ih (cur + 1) best
      simp only [tickRunAux, hc, if_true, countPrefix, Option.map_none]
      omega
    · have := ih 0 (max cur best)
      simp only [tickRunAux, hc, if_false, countPrefix]
      omega

/-- every run of backticks in `s` is at most the longest one -/
theorem countPrefix_le_longest (pre x : Str) : countPrefix '`' none x ≤ longestTickRun (pre ++ x) := by
  unfold longestTickRun
  have key : ∀ (pre : Str) (cur best : Nat), tickRunAux 0 0 x ≤ tickRunAux cur best (pre ++ x) := by
    intro pre
    induction pre with
    | nil => intro cur best; exact tickRunAux_mono x 0 0 cur best (by omega) (by omega)
    | cons c pre ih =>
      intro cur best
      simp only [List.cons_append, tickRunAux]
      split <;> exact ih _ _
  have := (tickRunAux_ge x 0 0).2
  have := key pre 0 0
  omega

theorem tickRunAux_snoc_space (s : Str) : ∀ (cur best : Nat), tickRunAux cur best (s ++ [' ']) = tickRunAux cur best s := by
  induction s with
  | nil => intro cur best; simp [tickRunAux]
  | cons c s ih => intro cur best; simp only [List.cons_append, tickRunAux]; split <;> exact ih _ _

theorem longest_padded (b : Str) : longestTickRun (padded b) = longestTickRun b := by
  unfold padded codePad
  split
  · simp only [List.cons_append, longestTickRun, tickRunAux,
      show (' ' : Char) ≠ '`' by decide, if_false, Nat.max_self]
    exact tickRunAux_snoc_space b 0 0
  · simp only [List.nil_append, List.append_nil]

theorem noCloser_of_short (k : Nat) (s : Str) (pre : Str) (prev : Char)
    (h : longestTickRun (pre ++ s) < k) : noCloser k prev s = true := by
  induction s generalizing pre prev with
  | nil => rfl
  | cons c s ih =>
    have h1 := countPrefix_le_longest pre (c :: s)
    have h2 : (countPrefix '`' none (c :: s) == k) = false := by
      simp only [beq_eq_false_iff_ne, ne_eq]; omega
    simp only [noCloser, h2, Bool.and_false, Bool.not_false, Bool.true_and]
    have := ih (pre ++ [c]) c (by simpa [List.append_assoc] using h)
    exact this

theorem lastCh_eq (prev : Char) (s : Str) : some (lastCh prev s) = lastOr (some prev) s := by
  induction s generalizing prev with
  | nil => rfl
  | cons c s ih =>
    simp only [lastCh]
    rw [ih c]
    cases s with
    | nil => rfl
    | cons d s' =>
      simp only [lastOr, List.getLast?_cons_cons]
      cases hg : (d :: s').getLast? with
      | none => exact absurd (List.getLast?_eq_none_iff.1 hg) (by simp)
      | some q => rfl

theorem wfCodeSpan_facts {b : Str} (h : wfCodeSpan b = true) :
    b ≠ [] ∧ (∀ c ∈ b, isPrintable c = true) ∧ b.head? ≠ some ' ' ∧ b.getLast? ≠ some ' ' ∧
      longestTickRun b ≤ 2 ∧ noAmpHash b = true := by
  simp only [wfCodeSpan, Bool.and_eq_true, Bool.not_eq_true', List.all_eq_true, bne_iff_ne, ne_eq,
    decide_eq_true_eq] at h
  obtain ⟨⟨⟨⟨⟨h1, h2⟩, h3⟩, h4⟩, h5⟩, h6⟩ := h
  exact ⟨by intro e; subst e; simp at h1, h2, h3, h4, h5, h6⟩

/-- the padded body of a well-formed code span, under a fence the printer may choose -/
theorem padded_ok (n : Nat) (b : Str) (hw : wfCodeSpan b = true) (hf : fenceOK n b) :
    (∃ k, n = k + 1) ∧ spanBodyOk n (padded b) = true ∧ strip (padded b) = b := by
  obtain ⟨hne, hpr, hh, hl, _, _⟩ := wfCodeSpan_facts hw
  refine ⟨⟨n - 1, by have := hf.1; omega⟩, ?_, ?_⟩
  · have hlong : longestTickRun (padded b) < n := by rw [longest_padded]; have := hf.1; omega
    obtain ⟨c0, r0, hb⟩ : ∃ c0 r0, b = c0 :: r0 := by
      cases b with
      | nil => exact absurd rfl hne
      | cons a r => exact ⟨a, r, rfl⟩
    obtain ⟨z, hz⟩ : ∃ z, b.getLast? = some z := by
      cases hx : b.getLast? with
      | none => exact absurd (List.getLast?_eq_none_iff.1 hx) hne
      | some z => exact ⟨z, rfl⟩
    by_cases hp : (b.head? = some '`' || b.getLast? = some '`') = true
    · have hpad : padded b = ' ' :: (b ++ [' ']) := by simp [padded, codePad, hp]
      rw [hpad]
      simp only [spanBodyOk, Bool.and_eq_true, bne_iff_ne, ne_eq]
      refine ⟨⟨by decide, ?_⟩, noCloser_of_short n _ [' '] ' ' (by rw [hpad] at hlong; simpa using hlong)⟩
      have := lastCh_eq ' ' (b ++ [' '])
      simp only [lastOr, List.getLast?_append, List.getLast?_singleton, Option.some_or] at this
      intro e; rw [e] at this; cases this
    · have hpad : padded b = b := by simp [padded, codePad, hp]
      have hp' : b.head? ≠ some '`' ∧ b.getLast? ≠ some '`' := by
        simp only [Bool.or_eq_true, decide_eq_true_eq, not_or] at hp; exact hp
      rw [hpad, hb]
      simp only [spanBodyOk, Bool.and_eq_true, bne_iff_ne, ne_eq]
      refine ⟨⟨?_, ?_⟩, noCloser_of_short n _ [c0] c0 (by rw [hpad, hb] at hlong; simpa using hlong)⟩
      · intro e; apply hp'.1; rw [hb, e]; rfl
      · have := lastCh_eq c0 r0
        intro e
        rw [e] at this
        apply hp'.2
        rw [hb]
        cases r0 with
        | nil => simp [lastOr] at this; simp [this.symm]
        | cons d r1 =>
          simp only [lastOr, List.getLast?_cons_cons] at this ⊢
          cases hg : (d :: r1).getLast? with
          | none => exact absurd (List.getLast?_eq_none_iff.1 hg) (by simp)
          | some q => rw [hg] at this; simpa using this.symm
  · have hpadb : ∀ p : Str, (p = [] ∨ p = [' ']) → isBlank p = true := by
      intro p hp; rcases hp with rfl | rfl <;> decide
    have hcp : codePad b = [] ∨ codePad b = [' '] := by unfold codePad; split <;> simp
    unfold padded
    rw [strip_append_of_blank (hpadb _ hcp) (hpadb _ hcp)]
    apply strip_eq_self
    · intro c hc
      have hcm : c ∈ b := List.mem_of_mem_head? hc
      exact (printable_facts (hpr c hcm)).2.2.2.2.2 (fun e => hh (e ▸ hc))
    · intro c hc
      have hcm : c ∈ b := List.mem_of_getLast? hc
      exact (printable_facts (hpr c hcm)).2.2.2.2.2 (fun e => hl (e ▸ hc))

/-! ### 14. from well-formed content to the facts the stages need -/

/-- everything the proofs use of well-formed content of words, escapes and code spans, about its split form `t0`,
    `segs` (the spans with the fences the printer chose) -/
structure ContentOK (c : List DocSpec.Inline) (t0 : Str) (segs : List SpanSeg) : Prop where
  items : spanItemsOK c = true
  run : wfRun .none c = true
  nobs : noBsBeforeCode c = true
  t0eq : t0 = (splitSpans c).1
  smap : segs.map (fun s => (s.b, s.t)) = (splitSpans c).2
  fences : ∀ s ∈ segs, fenceOK s.n s.b

theorem mem_segs_split {c : List DocSpec.Inline} {t0 : Str} {segs : List SpanSeg} (h : ContentOK c t0 segs)
    {s : SpanSeg} (hs : s ∈ segs) : (s.b, s.t) ∈ (splitSpans c).2 := by
  rw [← h.smap]; exact List.mem_map.2 ⟨s, hs, rfl⟩

theorem segsOK_of (segs : List SpanSeg) (h1 : gapsOK (segs.map (fun s => (s.b, s.t))))
    (h2 : ∀ s ∈ segs, wfCodeSpan s.b = true ∧ fenceOK s.n s.b) : SegsOK segs := by
  induction segs with
  | nil => trivial
  | cons s r ih =>
    obtain ⟨hw, hf⟩ := h2 s List.mem_cons_self
    obtain ⟨a1, a2, a3⟩ := padded_ok s.n s.b hw hf
    cases r with
    | nil => exact ⟨a1, a2, a3, fun hne => absurd rfl hne, trivial⟩
    | cons q r' =>
      simp only [List.map_cons, gapsOK] at h1
      exact ⟨a1, a2, a3, fun _ => ⟨h1.1, h1.2.1⟩,
        ih (by simpa using h1.2.2) (fun x hx => h2 x (List.mem_cons_of_mem _ hx))⟩

theorem lastText_eq (t0 : Str) (segs : List SpanSeg) :
    lastText t0 segs = lastTextS (t0, segs.map (fun s => (s.b, s.t))) := by
  simp only [lastText, lastTextS, List.getLast?_map]
  cases segs.getLast? <;> rfl

theorem ContentOK.facts {c : List DocSpec.Inline} {t0 : Str} {segs : List SpanSeg} (h : ContentOK c t0 segs) :
    SegsOK segs ∧ LineOK t0 segs ∧
    (∀ ch, (ch ∈ t0 ∨ ∃ s ∈ segs, ch ∈ s.t) → plainCh ch) ∧
    (∀ s ∈ segs, wfCodeSpan s.b = true ∧ noLt s.b = true) ∧
    (segs ≠ [] → t0.getLast? ≠ some '\\') := by
  have hrun := h.run
  simp only [wfRun, Bool.and_eq_true, decide_eq_true_eq, Bool.or_eq_true] at hrun
  obtain ⟨⟨⟨hst, hen⟩, hadj⟩, _⟩ := hrun
  obtain ⟨hc0, hcs⟩ := split_chars c h.items
  obtain ⟨hg, hgl⟩ := split_gaps c h.items hadj h.nobs
  have hbody : ∀ s ∈ segs, wfCodeSpan s.b = true ∧ noLt s.b = true :=
    fun s hs => (hcs _ (mem_segs_split h hs)).2
  have hplain : ∀ ch, (ch ∈ t0 ∨ ∃ s ∈ segs, ch ∈ s.t) → plainCh ch := by
    intro ch hch
    rcases hch with hch | ⟨s, hs, hch⟩
    · rw [h.t0eq] at hch; exact hc0 ch hch
    · exact (hcs _ (mem_segs_split h hs)).1 ch hch
  have hsegs : SegsOK segs := segsOK_of segs (by rw [h.smap]; exact hg)
    (fun s hs => ⟨(hbody s hs).1, h.fences s hs⟩)
  have hne : c ≠ [] := by intro e; subst e; simp [startsOk] at hst
  refine ⟨hsegs, ⟨?_, ?_, ?_, ?_, ?_⟩, hplain, hbody, ?_⟩
  · exact fun hm => (plainCh_facts (hplain _ (Or.inl hm))).2.1 rfl
  · intro s hs
    obtain ⟨hw, _⟩ := hbody s hs
    obtain ⟨_, hpr, _⟩ := wfCodeSpan_facts hw
    refine ⟨(padded_ok s.n s.b hw (h.fences s hs)).1, ?_, fun hm => (plainCh_facts (hplain _ (Or.inr ⟨s, hs, hm⟩))).2.1 rfl⟩
    intro hm
    simp only [padded, List.mem_append] at hm
    have hpad : ∀ x ∈ codePad s.b, x = ' ' := by
      intro x hx; unfold codePad at hx; split at hx <;> simp at hx; exact hx
    rcases hm with (hm | hm) | hm
    · exact absurd (hpad _ hm) (by decide)
    · exact (printable_facts (hpr _ hm)).1 rfl
    · exact absurd (hpad _ hm) (by decide)
  · by_cases ht : t0 = []
    · right
      intro hs
      have : (splitSpans c).1 = [] ∧ (splitSpans c).2 = [] := by
        rw [← h.t0eq, ← h.smap, hs]; exact ⟨ht, rfl⟩
      exact hne ((split_nil_iff c h.items).1 this)
    · exact Or.inl ht
  · intro ht
    rw [h.t0eq] at ht ⊢
    exact split_first c h.items hst ht
  · intro z hz
    rw [lastText_eq, h.smap, h.t0eq] at hz
    exact split_last c h.items hen z hz
  · intro hs
    rw [h.t0eq]
    apply hgl
    rw [← h.smap]
    simpa using hs

theorem ContentOK.spanTxtOK {c : List DocSpec.Inline} {t0 : Str} {segs : List SpanSeg} (h : ContentOK c t0 segs)
    (tag : Str) (htag : textTags.contains tag = true) : SpanTxtOK ESC tag t0 segs := by
  obtain ⟨h1, h2, h3, h4, h5⟩ := h.facts
  refine ⟨htag, h1, h5, fun ch hch => ?_, fun s hs => ?_, h2.ne⟩
  · obtain ⟨_, a2, a3, _, a5⟩ := plainCh_facts (h3 ch hch); exact ⟨a3, a2, a5⟩
  · intro hm
    obtain ⟨_, hpr, _⟩ := wfCodeSpan_facts (h4 s hs).1
    rcases mem_codeEscape hm with hm | hm
    · exact (printable_facts (hpr _ hm)).2.2.2.1 rfl
    · revert hm; decide


/-! #### the printed line is safe for the preprocessors -/

/-- a character that the preprocessors leave alone and that is not `<` -/
def okCh (c : Char) : Prop :=
  c ≠ '\n' ∧ c ≠ Normalize.STX ∧ c ≠ Normalize.ETX ∧ c ≠ '\r' ∧ c ≠ '\t' ∧ c ≠ '<'

theorem okCh_plain {c : Char} (h : isPlainChar c = true) (hnl : c ≠ '\n') : okCh c := by
  simp only [isPlainChar, Bool.and_eq_true, bne_iff_ne, ne_eq] at h
  exact ⟨hnl, h.1.1.1.2, h.1.1.2, h.2, h.1.2, h.1.1.1.1.1⟩

theorem okCh_printable {c : Char} (h : isPrintable c = true) (hlt : c ≠ '<') : okCh c := by
  obtain ⟨a1, a2, a3, a4, a5, _⟩ := printable_facts h
  exact ⟨a1, a4, a5, a2, a3, hlt⟩

theorem safe_of_okCh (L : Str) (hch : ∀ c ∈ L, okCh c) (hink : ∃ c ∈ L, c ≠ ' ') :
    lineSafe L = true ∧ '<' ∉ L := by
  refine ⟨?_, fun hm => (hch _ hm).2.2.2.2.2 rfl⟩
  simp only [lineSafe, Bool.and_eq_true, List.all_eq_true, Bool.or_eq_true, List.any_eq_true, bne_iff_ne, ne_eq]
  refine ⟨fun x hx => ?_, Or.inr ?_⟩
  · obtain ⟨a1, a2, a3, a4, a5, _⟩ := hch x hx
    exact ⟨⟨⟨⟨a1, a2⟩, a3⟩, a4⟩, a5⟩
  · obtain ⟨x, hx, hne⟩ := hink
    exact ⟨x, hx, by simpa using hne⟩

theorem raw_chars {c : List DocSpec.Inline} {t0 : Str} {segs : List SpanSeg} (h : ContentOK c t0 segs) :
    ∀ ch ∈ escAll ESC t0 ++ rawSegs ESC segs, okCh ch := by
  obtain ⟨_, _, h3, h4, _⟩ := h.facts
  have hpl : ∀ x, plainCh x → okCh x := fun x hx => okCh_plain (plainCh_facts hx).1 (plainCh_facts hx).2.1
  have hesc : ∀ (t : Str), (∀ x ∈ t, plainCh x) → ∀ x ∈ escAll ESC t, okCh x := by
    intro t ht x hx
    rcases mem_escAll hx with rfl | hx
    · exact ⟨by decide, by decide, by decide, by decide, by decide, by decide⟩
    · exact hpl x (ht x hx)
  intro ch hch
  rcases List.mem_append.1 hch with hch | hch
  · exact hesc t0 (fun x hx => h3 x (Or.inl hx)) ch hch
  · rcases mem_rawSegs hch with rfl | ⟨s, hs, hc | hc⟩
    · exact ⟨by decide, by decide, by decide, by decide, by decide, by decide⟩
    · obtain ⟨hw, hlt⟩ := h4 s hs
      obtain ⟨_, hpr, _⟩ := wfCodeSpan_facts hw
      simp only [padded, List.mem_append] at hc
      have hpad : ∀ x ∈ codePad s.b, x = ' ' := by
        intro x hx; unfold codePad at hx; split at hx <;> simp at hx; exact hx
      have hsp : okCh ' ' := ⟨by decide, by decide, by decide, by decide, by decide, by decide⟩
      rcases hc with (hc | hc) | hc
      · rw [hpad _ hc]; exact hsp
      · refine okCh_printable (hpr _ hc) ?_
        intro e; subst e
        simp only [noLt, Bool.not_eq_true'] at hlt
        have : s.b.contains '<' = true := List.contains_iff_mem.2 hc
        rw [hlt] at this; cases this
      · rw [hpad _ hc]; exact hsp
    · exact hesc s.t (fun x hx => h3 x (Or.inr ⟨s, hs, hx⟩)) ch hc

theorem refsClosed_noamp_append (A X : Str) (hA : '&' ∉ A) (hX : refsClosed X = true) : refsClosed (A ++ X) = true := by
  induction A with
  | nil => exact hX
  | cons a A ih =>
    exact refsClosed_cons_of_ne (fun e => hA (by simp [e])) (ih (fun hm => hA (List.mem_cons_of_mem _ hm)))

theorem no_amp_escAll (t : Str) (h : ∀ x ∈ t, plainCh x) : '&' ∉ escAll ESC t := by
  intro hm
  rcases mem_escAll hm with e | hm
  · exact absurd e (by decide)
  · exact (plainCh_facts (h _ hm)).2.2.1 rfl

theorem refsClosed_rawSegs (segs : List SpanSeg)
    (h : ∀ s ∈ segs, (∃ k, s.n = k + 1) ∧ wfCodeSpan s.b = true ∧ ∀ x ∈ s.t, plainCh x) (Z : Str)
    (hZ : refsClosed Z = true) : refsClosed (rawSegs ESC segs ++ Z) = true := by
  induction segs with
  | nil => simpa [rawSegs] using hZ
  | cons s r ih =>
    obtain ⟨⟨k, hk⟩, hw, hpl⟩ := h s List.mem_cons_self
    obtain ⟨_, _, _, _, _, hamp⟩ := wfCodeSpan_facts hw
    have ihr := ih (fun x hx => h x (List.mem_cons_of_mem _ hx))
    have hrest : refsClosed (escAll ESC s.t ++ (rawSegs ESC r ++ Z)) = true :=
      refsClosed_noamp_append _ _ (no_amp_escAll s.t hpl) ihr
    have hpad : '&' ∉ codePad s.b := by
      intro hm; unfold codePad at hm; split at hm <;> simp at hm
    -- after the body: padding, then the closing fence
    have hafter : ∃ c0 X0, codePad s.b ++ (ticks s.n ++ (escAll ESC s.t ++ (rawSegs ESC r ++ Z))) = c0 :: X0 ∧
        isNeutral c0 = true ∧ refsClosed (c0 :: X0) = true := by
      have hcl : refsClosed (ticks s.n ++ (escAll ESC s.t ++ (rawSegs ESC r ++ Z))) = true := refsClosed_ticks _ hrest
      unfold codePad
      split
      · exact ⟨' ', _, rfl, by decide, refsClosed_cons_of_ne (by decide) hcl⟩
      · rw [hk] at hcl ⊢
        exact ⟨'`', ticks k ++ (escAll ESC s.t ++ (rawSegs ESC r ++ Z)), by simp [ticks, List.replicate_succ],
          by decide, by simpa [ticks, List.replicate_succ] using hcl⟩
    obtain ⟨c0, X0, he, hn, hc⟩ := hafter
    have hbody : refsClosed (s.b ++ (codePad s.b ++ (ticks s.n ++ (escAll ESC s.t ++ (rawSegs ESC r ++ Z))))) = true := by
      rw [he]; exact refsClosed_append s.b c0 X0 hn (refsClosed_of_noAmpHash s.b hamp) hc
    have : rawSegs ESC (s :: r) ++ Z =
        ticks s.n ++ (codePad s.b ++ (s.b ++ (codePad s.b ++ (ticks s.n ++ (escAll ESC s.t ++ (rawSegs ESC r ++ Z)))))) := by
      simp [rawSegs, spanSrc, padded, List.append_assoc]
    rw [this]
    exact refsClosed_ticks _ (refsClosed_noamp_append _ _ hpad hbody)

theorem refsClosed_raw {c : List DocSpec.Inline} {t0 : Str} {segs : List SpanSeg} (h : ContentOK c t0 segs)
    (P Q : Str) (hP : '&' ∉ P) (hQ : '&' ∉ Q) :
    refsClosed (P ++ (escAll ESC t0 ++ rawSegs ESC segs) ++ Q) = true := by
  obtain ⟨h1, h2, h3, h4, _⟩ := h.facts
  have hQc : refsClosed Q = true := refsClosed_of_no_amp Q hQ
  have := refsClosed_rawSegs segs (fun s hs => ⟨(h2.nls s hs).1, (h4 s hs).1, fun x hx => h3 x (Or.inr ⟨s, hs, hx⟩)⟩) Q hQc
  have h0 := refsClosed_noamp_append _ _ (no_amp_escAll t0 (fun x hx => h3 x (Or.inl hx))) this
  have := refsClosed_noamp_append P _ hP h0
  simpa [List.append_assoc] using this

/-! ### 15. the specification side, and the pieces of paragraphs and headings with code spans -/

/-- what `spec` prescribes for the spans and the texts after them -/
def specSegs : List (Str × Str) → Str
  | [] => []
  | bt :: r => S "<code>" ++ htmlEsc bt.1 ++ S "</code>" ++ htmlEsc bt.2 ++ specSegs r

theorem splitSpans_text (w : Str) (r : List DocSpec.Inline) :
    splitSpans (.text w :: r) = (w ++ (splitSpans r).1, (splitSpans r).2) := rfl
theorem splitSpans_esc (ch : Char) (r : List DocSpec.Inline) :
    splitSpans (.esc ch :: r) = (ch :: (splitSpans r).1, (splitSpans r).2) := rfl
theorem splitSpans_code (b : Str) (r : List DocSpec.Inline) :
    splitSpans (.code b :: r) = ([], (b, (splitSpans r).1) :: (splitSpans r).2) := rfl
theorem specSegs_cons (bt : Str × Str) (r : List (Str × Str)) :
    specSegs (bt :: r) = S "<code>" ++ htmlEsc bt.1 ++ S "</code>" ++ htmlEsc bt.2 ++ specSegs r := rfl

theorem specInline_code (b : Str) : specInline (.code b) = S "<code>" ++ htmlEsc b ++ S "</code>" := rfl

theorem specInlines_split (c : List DocSpec.Inline) (h : spanItemsOK c = true) :
    specInlines c = htmlEsc (splitSpans c).1 ++ specSegs (splitSpans c).2 := by
  induction c with
  | nil => rfl
  | cons x r ih =>
    cases x with
    | text w =>
      simp only [spanItemsOK, Bool.and_eq_true] at h
      rw [specInlines_cons, specInline_text, ih h.2, splitSpans_text, htmlEsc_append, List.append_assoc]
    | esc ch =>
      simp only [spanItemsOK, Bool.and_eq_true] at h
      have : ch :: (splitSpans r).1 = [ch] ++ (splitSpans r).1 := rfl
      rw [specInlines_cons, specInline_esc, ih h.2, splitSpans_esc, this, htmlEsc_append, List.append_assoc]
    | code b =>
      simp only [spanItemsOK, Bool.and_eq_true] at h
      rw [specInlines_cons, specInline_code, ih h.2, splitSpans_code, specSegs_cons]
      simp only [List.append_assoc]
      rfl
    | em _ => simp [spanItemsOK] at h
    | strong _ => simp [spanItemsOK] at h
    | link _ _ _ => simp [spanItemsOK] at h
    | image _ _ _ => simp [spanItemsOK] at h
    | autolink _ => simp [spanItemsOK] at h
    | br => simp [spanItemsOK] at h

open Code in
theorem outSegs_eq (segs : List SpanSeg) (h : ∀ s ∈ segs, '&' ∉ s.t) :
    outSegs segs = specSegs (segs.map (fun s => (s.b, s.t))) := by
  induction segs with
  | nil => rfl
  | cons s r ih =>
    rw [outSegs_cons, List.map_cons, specSegs_cons, ih (fun x hx => h x (List.mem_cons_of_mem _ hx)),
      htmlEsc_eq_escCdata s.t (h s List.mem_cons_self), htmlEsc_eq_codeEscape s.b, codeEscape_onepass,
      escCdata_codeEscape1]

theorem spanTxtOut_eq {c : List DocSpec.Inline} {t0 : Str} {segs : List SpanSeg} (h : ContentOK c t0 segs)
    (tag : Str) : spanTxtOut tag t0 segs = '<' :: tag ++ ['>'] ++ specInlines c ++ ('<' :: '/' :: tag ++ ['>']) := by
  obtain ⟨_, _, h3, _, _⟩ := h.facts
  have ha0 : '&' ∉ t0 := fun hm => (plainCh_facts (h3 _ (Or.inl hm))).2.2.1 rfl
  have has : ∀ s ∈ segs, '&' ∉ s.t := fun s hs hm => (plainCh_facts (h3 _ (Or.inr ⟨s, hs, hm⟩))).2.2.1 rfl
  rw [specInlines_split c h.items, ← h.t0eq, ← h.smap, ← outSegs_eq segs has, htmlEsc_eq_escCdata t0 ha0]
  simp [spanTxtOut, List.append_assoc]


/-! #### the printed blocks as pieces -/

theorem printContent_span (c : List DocSpec.Inline) (brOk : Bool) (hp : spanRun c = true)
    (hw : wfInlines false .none brOk c = true) (st : PSt) :
    ∃ (t0 : Str) (segs : List SpanSeg) (st' : PSt),
      printContent c st = ([escAll ESC t0 ++ rawSegs ESC segs], st') ∧ st'.defs = st.defs ∧ ContentOK c t0 segs := by
  simp only [spanRun, Bool.and_eq_true] at hp
  simp only [wfInlines, Bool.and_eq_true] at hw
  have hitems := spanItemsOK_of_wf c brOk hp.1 hw.2
  obtain ⟨segs, st', hpr, hd, hm, hf⟩ := printInlines_span c hitems none true true st
  have hok : ContentOK c (splitSpans c).1 segs := ⟨hitems, hw.1, hp.2, rfl, hm, hf⟩
  refine ⟨(splitSpans c).1, segs, st', ?_, hd, hok⟩
  obtain ⟨_, h2, _⟩ := hok.facts
  have hnl := (rawOK_line escOK_generated _ segs h2).nl
  simp only [printContent, hpr]
  rw [splitC_noNl _ (notNl_of_not_mem hnl)]

/-- the facts about a line `P ++ raw ++ Q` around the content -/
theorem line_facts {c : List DocSpec.Inline} {t0 : Str} {segs : List SpanSeg} (h : ContentOK c t0 segs) (P Q : Str)
    (hP : ∀ x ∈ P, okCh x ∧ x ≠ '&') (hQ : ∀ x ∈ Q, okCh x ∧ x ≠ '&') :
    (lineSafe (P ++ (escAll ESC t0 ++ rawSegs ESC segs) ++ Q) = true ∧
      '<' ∉ P ++ (escAll ESC t0 ++ rawSegs ESC segs) ++ Q ∧
      refsClosed (P ++ (escAll ESC t0 ++ rawSegs ESC segs) ++ Q) = true) ∧
    '\n' ∉ P ++ (escAll ESC t0 ++ rawSegs ESC segs) ++ Q ∧
    ∃ x ∈ P ++ (escAll ESC t0 ++ rawSegs ESC segs) ++ Q, isSpace x = false := by
  obtain ⟨_, h2, _⟩ := h.facts
  have hraw := rawOK_line escOK_generated t0 segs h2
  obtain ⟨c0, tail, he, hcs, _⟩ := hraw.shape
  have hc0 : c0 ∈ P ++ (escAll ESC t0 ++ rawSegs ESC segs) ++ Q := by rw [he]; simp
  have hch : ∀ x ∈ P ++ (escAll ESC t0 ++ rawSegs ESC segs) ++ Q, okCh x := by
    intro x hx
    simp only [List.mem_append] at hx
    rcases hx with (hx | hx) | hx
    · exact (hP x hx).1
    · exact raw_chars h x (List.mem_append.2 hx)
    · exact (hQ x hx).1
  have hs := safe_of_okCh _ hch ⟨c0, hc0, by intro e; subst e; exact absurd hcs (by decide)⟩
  exact ⟨⟨hs.1, hs.2, refsClosed_raw h P Q (fun hm => (hP _ hm).2 rfl) (fun hm => (hQ _ hm).2 rfl)⟩,
    fun hm => (hch _ hm).1 rfl, c0, hc0, hcs⟩

theorem okCh_space : okCh ' ' ∧ (' ' : Char) ≠ '&' :=
  ⟨⟨by decide, by decide, by decide, by decide, by decide, by decide⟩, by decide⟩

theorem okCh_spaces (i : Nat) : ∀ x ∈ spaces i, okCh x ∧ x ≠ '&' := by
  intro x hx; rw [List.eq_of_mem_replicate hx]; exact okCh_space

/-- a paragraph with code spans, indented by `i < 4` -/
theorem spanPara_ok {c : List DocSpec.Inline} {t0 : Str} {segs : List SpanSeg} (h : ContentOK c t0 segs) (i : Nat)
    (hi : i < 4) :
    Piece2OK {} (spanPiece ESC [spaces i ++ (escAll ESC t0 ++ rawSegs ESC segs)] "p".toList t0 segs) := by
  obtain ⟨_, h2, _⟩ := h.facts
  have hraw := rawOK_line escOK_generated t0 segs h2
  obtain ⟨⟨hs1, hs2, hs3⟩, hnl, hvis⟩ := line_facts h (spaces i) [] (okCh_spaces i) (by simp)
  simp only [List.append_nil] at hs1 hs2 hs3 hnl hvis
  apply spanPiece_ok _ _ _ _ (h.spanTxtOK _ (by decide)) (by simp)
  · simp only [joinLines, join_singleton]
    apply nel_line _ _ hnl
    obtain ⟨x, hx, _⟩ := hvis
    intro e; rw [e] at hx; simp at hx
  · simp only [joinLines, join_singleton]
    exact produces_para_raw 4 i hi (by omega) _ hraw
  · intro l hl
    have : l = spaces i ++ (escAll ESC t0 ++ rawSegs ESC segs) := by simpa using hl
    subst this; exact ⟨hs1, hs2, hs3⟩
  · simpa [joinLines] using hvis


/-- a Setext heading with code spans -/
theorem spanSetext_ok {c : List DocSpec.Inline} {t0 : Str} {segs : List SpanSeg} (h : ContentOK c t0 segs)
    (i : Nat) (hi : i < 4) (lv k : Nat) (hlv : lv = 1 ∨ lv = 2) :
    Piece2OK {} (spanPiece ESC [spaces i ++ (escAll ESC t0 ++ rawSegs ESC segs),
      List.replicate (k + 1) (if lv = 1 then '=' else '-')] ('h' :: natToDec lv) t0 segs) := by
  obtain ⟨_, h2, _⟩ := h.facts
  have hraw := rawOK_line escOK_generated t0 segs h2
  obtain ⟨⟨hs1, hs2, hs3⟩, hnl, hvis⟩ := line_facts h (spaces i) [] (okCh_spaces i) (by simp)
  simp only [List.append_nil] at hs1 hs2 hs3 hnl hvis
  have hprod := produces_setext_raw 4 i hi _ hraw lv k hlv
  generalize hu : (if lv = 1 then '=' else '-') = ch at *
  have hch2 : ch = '=' ∨ ch = '-' := by rw [← hu]; split <;> simp
  have hunl : '\n' ∉ List.replicate (k + 1) ch := by
    intro hm; have := List.eq_of_mem_replicate hm
    rcases hch2 with h' | h' <;> rw [h'] at this <;> exact absurd this (by decide)
  have hjoin : joinLines [spaces i ++ (escAll ESC t0 ++ rawSegs ESC segs), List.replicate (k + 1) ch] =
      spaces i ++ (escAll ESC t0 ++ rawSegs ESC segs) ++ '\n' :: List.replicate (k + 1) ch := by
    simp [joinLines, join]
  have hlne : spaces i ++ (escAll ESC t0 ++ rawSegs ESC segs) ≠ [] := by
    obtain ⟨x, hx, _⟩ := hvis
    intro e; rw [e] at hx; simp at hx
  apply spanPiece_ok _ _ _ _ (h.spanTxtOK _ (hTag_mem lv (by omega) (by omega))) (by simp)
  · rw [hjoin]
    exact nel_two_lines _ _ hlne (by simp [List.replicate_succ]) hnl hunl
  · rw [hjoin]; exact hprod
  · intro l hl
    simp only [List.mem_cons, List.mem_nil_iff, or_false] at hl
    rcases hl with rfl | rfl
    · exact ⟨hs1, hs2, hs3⟩
    · have hall : ∀ x ∈ List.replicate (k + 1) ch, okCh x ∧ x ≠ '&' := by
        intro x hx; rw [List.eq_of_mem_replicate hx]
        rcases hch2 with h' | h' <;> rw [h'] <;>
          exact ⟨⟨by decide, by decide, by decide, by decide, by decide, by decide⟩, by decide⟩
      have := safe_of_okCh _ (fun x hx => (hall x hx).1)
        ⟨ch, by simp [List.replicate_succ], by rcases hch2 with h' | h' <;> rw [h'] <;> decide⟩
      exact ⟨this.1, this.2, refsClosed_of_no_amp _ (fun hm => (hall _ hm).2 rfl)⟩
  · obtain ⟨x, hx, hxs⟩ := hvis
    exact ⟨x, by rw [hjoin]; exact List.mem_append_left _ hx, hxs⟩

/-- an ATX heading with code spans -/
theorem spanAtx_ok {c : List DocSpec.Inline} {t0 : Str} {segs : List SpanSeg} (h : ContentOK c t0 segs)
    (lv : Nat) (h1 : 1 ≤ lv) (h6 : lv ≤ 6) (Y : Str) (hY : Y = [] ∨ ∃ m, Y = ' ' :: List.replicate m '#') :
    Piece2OK {} (spanPiece ESC [List.replicate lv '#' ++ ' ' :: ((escAll ESC t0 ++ rawSegs ESC segs) ++ Y)]
      ('h' :: natToDec lv) t0 segs) := by
  obtain ⟨_, h2, _⟩ := h.facts
  have hraw := rawOK_line escOK_generated t0 segs h2
  have hhash : okCh '#' ∧ ('#' : Char) ≠ '&' :=
    ⟨⟨by decide, by decide, by decide, by decide, by decide, by decide⟩, by decide⟩
  have hP : ∀ x ∈ List.replicate lv '#' ++ [' '], okCh x ∧ x ≠ '&' := by
    intro x hx
    rcases List.mem_append.1 hx with hx | hx
    · rw [List.eq_of_mem_replicate hx]; exact hhash
    · have : x = ' ' := by simpa using hx
      rw [this]; exact okCh_space
  have hQ : ∀ x ∈ Y, okCh x ∧ x ≠ '&' := by
    intro x hx
    rcases hY with rfl | ⟨m, rfl⟩
    · simp at hx
    · rcases List.mem_cons.1 hx with hx | hx
      · rw [hx]; exact okCh_space
      · rw [List.eq_of_mem_replicate hx]; exact hhash
  obtain ⟨⟨hs1, hs2, hs3⟩, hnl, hvis⟩ := line_facts h _ Y hP hQ
  have hline : List.replicate lv '#' ++ [' '] ++ (escAll ESC t0 ++ rawSegs ESC segs) ++ Y =
      List.replicate lv '#' ++ ' ' :: ((escAll ESC t0 ++ rawSegs ESC segs) ++ Y) := by simp [List.append_assoc]
  rw [hline] at hs1 hs2 hs3 hnl hvis
  apply spanPiece_ok _ _ _ _ (h.spanTxtOK _ (hTag_mem lv h1 h6)) (by simp)
  · simp only [joinLines, join_singleton]
    apply nel_line _ _ hnl
    obtain ⟨x, hx, _⟩ := hvis
    intro e; rw [e] at hx; simp at hx
  · simp only [joinLines, join_singleton]
    exact produces_atx_raw 4 (by omega) _ hraw lv h1 h6 Y hY
  · intro l hl
    have : l = List.replicate lv '#' ++ ' ' :: ((escAll ESC t0 ++ rawSegs ESC segs) ++ Y) := by simpa using hl
    subst this; exact ⟨hs1, hs2, hs3⟩
  · simpa [joinLines] using hvis


/-! #### every printed block of the sub-grammar -/

theorem spanPiece_out (g : List Str) (tag t0 : Str) (segs : List SpanSeg) :
    (spanPiece ESC g tag t0 segs).elem.out = spanTxtOut tag t0 segs := rfl

theorem printBlock_span (b : DocSpec.Block) (hf : isSpanBlock b = true) (hw : wfBlock none b = true) (st : PSt) :
    ∃ (p : Piece2) (st' : PSt), printBlock true b st = (p.b.g, st') ∧ st'.defs = st.defs ∧
      Piece2OK {} p ∧ p.elem.out = specBlock b ∧ p.b.isCode = isCode b := by
  cases b with
  | rule => exact printBlock_flatCode .rule rfl hw st
  | code ls => exact printBlock_flatCode (.code ls) hf hw st
  | para c =>
    simp only [isSpanBlock] at hf
    simp only [wfBlock] at hw
    obtain ⟨t0, segs, st', hpc, hd, hok⟩ := printContent_span c true hf hw (draw st).2
    refine ⟨spanPiece ESC [spaces ((draw st).1 % 4) ++ (escAll ESC t0 ++ rawSegs ESC segs)] "p".toList t0 segs,
      st', ?_, by rw [hd, draw_defs], spanPara_ok hok _ (Nat.mod_lt _ (by omega)), ?_, rfl⟩
    · rw [printBlock_para, hpc]; rfl
    · rw [spanPiece_out, spanTxtOut_eq hok, specBlock_para]
      simp [S]
  | atx l c =>
    simp only [isSpanBlock] at hf
    simp only [wfBlock, Bool.and_eq_true, decide_eq_true_eq] at hw
    obtain ⟨t0, segs, st', hpc, hd, hok⟩ := printContent_span c false hf hw.2 (draw st).2
    have hY : atxClosing (draw st).1 l = [] ∨ ∃ m, atxClosing (draw st).1 l = ' ' :: List.replicate m '#' := by
      unfold atxClosing
      split
      · exact Or.inl rfl
      · split
        · exact Or.inr ⟨1, rfl⟩
        · exact Or.inr ⟨l, rfl⟩
    refine ⟨spanPiece ESC [List.replicate l '#' ++ ' ' :: ((escAll ESC t0 ++ rawSegs ESC segs) ++
        atxClosing (draw st).1 l)] ('h' :: natToDec l) t0 segs,
      st', ?_, by rw [hd, draw_defs], spanAtx_ok hok l hw.1.1 hw.1.2 _ hY, ?_, rfl⟩
    · rw [printBlock_atx, hpc]
      simp [atxLine, join, rep, List.append_assoc, spanPiece, chunkB]
    · rw [spanPiece_out, spanTxtOut_eq hok, specBlock_atx]
      simp [S, List.append_assoc]
  | setext l c =>
    simp only [isSpanBlock] at hf
    simp only [wfBlock, Bool.and_eq_true, Bool.or_eq_true, decide_eq_true_eq] at hw
    obtain ⟨t0, segs, st', hpc, hd, hok⟩ := printContent_span c false hf hw.2 (draw (draw st).2).2
    refine ⟨spanPiece ESC [spaces ((draw st).1 % 4) ++ (escAll ESC t0 ++ rawSegs ESC segs),
          List.replicate ((draw (draw st).2).1 % 8 + 1) (if l = 1 then '=' else '-')] ('h' :: natToDec l) t0 segs,
      st', ?_, by rw [hd]; simp [draw_defs], spanSetext_ok hok _ (Nat.mod_lt _ (by omega)) l _ hw.1, ?_, rfl⟩
    · rw [printBlock_setext, hpc]; rfl
    · rw [spanPiece_out, spanTxtOut_eq hok, specBlock_setext]
      simp [S, List.append_assoc]
  | quote _ => simp [isSpanBlock] at hf
  | ulist _ _ => simp [isSpanBlock] at hf
  | olist _ _ => simp [isSpanBlock] at hf

theorem printBlocks_span (d : Doc) (hne : d ≠ []) (hf : ∀ b ∈ d, isSpanBlock b = true)
    (hw : ∀ b ∈ d, wfBlock none b = true) (hnext : okNexts d = true) :
    ∀ st : PSt, ∃ (ps : List Piece2) (st' : PSt), printBlocks true d st = (flatLines (ps.map (·.b.g)), st') ∧
      st'.defs = st.defs ∧ ps ≠ [] ∧ (∀ p ∈ ps, Piece2OK {} p) ∧
      joinOutS (ps.map (·.elem.out)) = specBlocks d ∧ noCodeAfterCode (ps.map (·.b)) ∧
      (ps.head?.map (·.b.isCode) = d.head?.map isCode) := by
  induction d with
  | nil => exact absurd rfl hne
  | cons b r ih =>
    intro st
    obtain ⟨p, st1, hp, hd1, hok, hout, hcode⟩ :=
      printBlock_span b (hf b List.mem_cons_self) (hw b List.mem_cons_self) st
    cases r with
    | nil =>
      refine ⟨[p], st1, ?_, hd1, by simp, ?_, ?_, trivial, by simp [hcode]⟩
      · rw [printBlocks_one, hp]; rfl
      · intro q hq; have : q = p := by simpa using hq
        subst this; exact hok
      · rw [specBlocks_one, ← hout]; rfl
    | cons b' r' =>
      rw [okNexts_cons2, Bool.and_eq_true] at hnext
      obtain ⟨ps, st2, hps, hd2, hpsne, hoks, houts, hadj, hhead⟩ := ih (by simp)
        (fun x hx => hf x (List.mem_cons_of_mem _ hx)) (fun x hx => hw x (List.mem_cons_of_mem _ hx)) hnext.2 st1
      obtain ⟨q, qs, rfl⟩ : ∃ q qs, ps = q :: qs := by
        cases ps with
        | nil => exact absurd rfl hpsne
        | cons q qs => exact ⟨q, qs, rfl⟩
      have hq : q.b.isCode = isCode b' := by simpa using hhead
      refine ⟨p :: q :: qs, st2, ?_, by rw [hd2, hd1], by simp, ?_, ?_, ?_, by simp [hcode]⟩
      · rw [printBlocks_cons2, hp]
        simp only [hps]
        rfl
      · intro x hx
        rcases List.mem_cons.1 hx with rfl | hx
        · exact hok
        · exact hoks x hx
      · rw [specBlocks_cons2, ← houts, ← hout]; rfl
      · refine ⟨?_, hadj⟩
        intro hqc
        rw [hq] at hqc
        rw [hcode]
        have h1 := hnext.1
        simp only [okNext, hqc, Bool.and_true, Bool.and_eq_true, Bool.not_eq_true', Bool.or_eq_false_iff] at h1
        exact h1.1.2.1

/-- **C01 on documents with code blocks and code spans**: every spelling of a well-formed document of the
    sub-grammar converts to what `spec` prescribes -/
theorem convert_spanDoc (d : Doc) (sp : Spelling) (hwf : WF d = true) (hs : DocSpec.SpanDoc d = true) :
    Pipeline.convert {} (print d sp) = .ok (spec d) := by
  simp only [WF, Bool.and_eq_true, Bool.not_eq_true', List.isEmpty_eq_false_iff] at hwf
  obtain ⟨⟨⟨hne, hnx⟩, hbl⟩, _⟩ := hwf
  have hf : ∀ b ∈ d, isSpanBlock b = true := by
    simpa [DocSpec.SpanDoc, List.all_eq_true] using hs
  obtain ⟨ps, st', hps, hdefs, hpsne, hoks, houts, hadj, _⟩ :=
    printBlocks_span d hne hf (wfBlockList_mem hbl) hnx ⟨sp.choices, 1, []⟩
  have hprint : print d sp = joinLines (flatLines (ps.map (·.b.g))) := by
    simp only [print, hps]
    have : st'.defs = [] := hdefs
    simp [this, joinLines]
  rw [hprint, spec, ← houts]
  exact convert_pieces2 {} rfl rfl ps hpsne hoks hadj

/-! ### 16. the emphasis engine on one level of emphasis around words -/

theorem countPrefix_lim_replicate (c : Char) (m lim : Nat) (X : Str) (hX : X.head? ≠ some c) :
    countPrefix c (some lim) (List.replicate m c ++ X) = min m lim := by
  induction m generalizing lim with
  | zero =>
    cases lim with
    | zero => simp
    | succ l =>
      cases X with
      | nil => simp
      | cons x X' =>
        have : x ≠ c := by simpa using hX
        simp [countPrefix, this]
  | succ m ih =>
    cases lim with
    | zero => simp
    | succ l =>
      simp only [List.replicate_succ, List.cons_append, countPrefix, if_true, Option.map_some, Nat.add_sub_cancel]
      rw [ih l]; omega

theorem lastOr_cons (prev : Option Char) (x : Char) (w : Str) : lastOr prev (x :: w) = lastOr (some x) w := by
  cases w with
  | nil => rfl
  | cons y w' =>
    simp only [lastOr, List.getLast?_cons_cons]
    cases hg : (y :: w').getLast? with
    | none => exact absurd (List.getLast?_eq_none_iff.1 hg) (by simp)
    | some q => rfl

/-- the greedy group `([^c]+)` over a word without `c`, followed by `c`: if the continuation succeeds at the `c` with
    the whole word as the group, that is the result (the longest group is tried first) -/
theorem greedyLoop_word (c : Char) (k : K) (gs : List Str) (w : Str) (hw : ∀ x ∈ w, x ≠ c) (Z : Str) :
    ∀ (prev : Option Char) (pos L : Nat) (acc : Str) (r : Nat × List Str), w ≠ [] ∨ L ≥ 1 →
      k (lastOr prev w) (c :: Z) (pos + w.length) ((acc.reverse ++ w) :: gs) = some r →
      greedyLoop c 1 k gs prev (w ++ c :: Z) pos L acc = some r := by
  induction w with
  | nil =>
    intro prev pos L acc r hL hk
    have : L ≥ 1 := by rcases hL with h | h; exact absurd rfl h; exact h
    simpa [greedyLoop, this, lastOr] using hk
  | cons x w ih =>
    intro prev pos L acc r _ hk
    have hx : x ≠ c := hw x List.mem_cons_self
    rw [lastOr_cons] at hk
    have e1 : pos + (x :: w).length = pos + 1 + w.length := by simp; omega
    have e2 : acc.reverse ++ x :: w = (x :: acc).reverse ++ w := by simp
    rw [e1, e2] at hk
    have := ih (fun y hy => hw y (List.mem_cons_of_mem _ hy)) (some x) (pos + 1) (L + 1) (x :: acc) r
      (Or.inr (by omega)) hk
    simp only [List.cons_append, greedyLoop, bne_iff_ne, ne_eq, hx, not_false_eq_true, if_true, this]

/-- the lazy group over a word without `c`: when the continuation fails inside the word and succeeds after it, that
    is the result -/
theorem lazyLoop_word (c : Char) (notc : Bool) (k : K) (gs : List Str) (Z : Str) (r : Nat × List Str) (w : Str)
    (hw : ∀ x ∈ w, x ≠ c) :
    ∀ (need : Nat) (prev : Option Char) (pos : Nat) (acc : Str), need ≤ w.length →
      (∀ (w1 w2 : Str), w = w1 ++ w2 → w2 ≠ [] → need ≤ w1.length →
        k (lastOr prev w1) (w2 ++ Z) (pos + w1.length) ((acc.reverse ++ w1) :: gs) = none) →
      k (lastOr prev w) Z (pos + w.length) ((acc.reverse ++ w) :: gs) = some r →
      lazyLoop c notc k gs need prev (w ++ Z) pos acc = some r := by
  induction w with
  | nil =>
    intro need prev pos acc hn _ hk
    have : need = 0 := by simpa using hn
    subst this
    simp only [lastOr, List.getLast?_nil, Nat.add_zero, List.append_nil, List.length_nil] at hk
    cases Z with
    | nil => simpa [lazyLoop] using hk
    | cons z Z' => simp [lazyLoop, hk]
  | cons x w ih =>
    intro need prev pos acc hn hfail hk
    have hx : x ≠ c := hw x List.mem_cons_self
    have hok : (!notc || x != c) = true := by simp [hx]
    rw [lastOr_cons] at hk
    have e1 : pos + (x :: w).length = pos + 1 + w.length := by simp; omega
    have e2 : acc.reverse ++ x :: w = (x :: acc).reverse ++ w := by simp
    rw [e1, e2] at hk
    have hfail' : ∀ (need' : Nat), need' + 1 ≥ need → ∀ (w1 w2 : Str), w = w1 ++ w2 → w2 ≠ [] → need' ≤ w1.length →
        k (lastOr (some x) w1) (w2 ++ Z) (pos + 1 + w1.length) (((x :: acc).reverse ++ w1) :: gs) = none := by
      intro need' hn' w1 w2 hw12 hw2 hl
      have := hfail (x :: w1) w2 (by rw [hw12]; rfl) hw2 (by simp; omega)
      rw [lastOr_cons] at this
      have e3 : pos + (x :: w1).length = pos + 1 + w1.length := by simp; omega
      have e4 : acc.reverse ++ x :: w1 = (x :: acc).reverse ++ w1 := by simp
      rw [e3, e4] at this
      exact this
    cases need with
    | zero =>
      have h0 := hfail [] (x :: w) rfl (by simp) (by simp)
      simp only [lastOr, List.getLast?_nil, List.length_nil, Nat.add_zero, List.append_nil, List.cons_append] at h0
      simp only [List.cons_append, lazyLoop, h0, hok, if_true]
      exact ih (fun y hy => hw y (List.mem_cons_of_mem _ hy)) 0 (some x) (pos + 1) (x :: acc) (by omega)
        (hfail' 0 (by omega)) hk
    | succ n =>
      simp only [List.cons_append, lazyLoop, hok, if_true]
      exact ih (fun y hy => hw y (List.mem_cons_of_mem _ hy)) n (some x) (pos + 1) (x :: acc)
        (by simp at hn; omega) (hfail' n (by omega)) hk

/-- the lazy group fails when the continuation fails wherever it is tried -/
theorem lazyLoop_none (c : Char) (notc : Bool) (k : K) (gs : List Str) (D : Str) :
    ∀ (need : Nat) (prev : Option Char) (pos : Nat) (acc : Str),
      (∀ (D1 D2 : Str), D = D1 ++ D2 → k (lastOr prev D1) D2 (pos + D1.length) ((acc.reverse ++ D1) :: gs) = none) →
      lazyLoop c notc k gs need prev D pos acc = none := by
  induction D with
  | nil =>
    intro need prev pos acc hfail
    cases need with
    | zero =>
      have := hfail [] [] rfl
      simpa [lazyLoop, lastOr] using this
    | succ n => simp [lazyLoop]
  | cons x D ih =>
    intro need prev pos acc hfail
    have hfail' : ∀ (D1 D2 : Str), D = D1 ++ D2 →
        k (lastOr (some x) D1) D2 (pos + 1 + D1.length) (((x :: acc).reverse ++ D1) :: gs) = none := by
      intro D1 D2 h12
      have := hfail (x :: D1) D2 (by rw [h12]; rfl)
      rw [lastOr_cons] at this
      have e3 : pos + (x :: D1).length = pos + 1 + D1.length := by simp; omega
      have e4 : acc.reverse ++ x :: D1 = (x :: acc).reverse ++ D1 := by simp
      rw [e3, e4] at this
      exact this
    cases need with
    | zero =>
      have h0 := hfail [] (x :: D) rfl
      simp only [lastOr, List.getLast?_nil, List.length_nil, Nat.add_zero, List.append_nil] at h0
      simp only [lazyLoop, h0]
      split
      · exact ih 0 (some x) (pos + 1) (x :: acc) hfail'
      · rfl
    | succ n =>
      simp only [lazyLoop]
      split
      · exact ih n (some x) (pos + 1) (x :: acc) hfail'
      · rfl

/-- a negated lazy group `([^c]+?)` stops at the first `c`: it fails when the continuation fails up to there -/
theorem lazyLoop_notc_none (c : Char) (k : K) (gs : List Str) (Z : Str) (w : Str) (hw : ∀ x ∈ w, x ≠ c) :
    ∀ (need : Nat) (prev : Option Char) (pos : Nat) (acc : Str),
      (∀ (w1 w2 : Str), w = w1 ++ w2 →
        k (lastOr prev w1) (w2 ++ c :: Z) (pos + w1.length) ((acc.reverse ++ w1) :: gs) = none) →
      lazyLoop c true k gs need prev (w ++ c :: Z) pos acc = none := by
  induction w with
  | nil =>
    intro need prev pos acc hfail
    have h0 := hfail [] [] rfl
    simp only [lastOr, List.getLast?_nil, List.length_nil, Nat.add_zero, List.append_nil, List.nil_append] at h0
    cases need <;> simp [lazyLoop, h0]
  | cons x w ih =>
    intro need prev pos acc hfail
    have hx : x ≠ c := hw x List.mem_cons_self
    have hfail' : ∀ (w1 w2 : Str), w = w1 ++ w2 →
        k (lastOr (some x) w1) (w2 ++ c :: Z) (pos + 1 + w1.length) (((x :: acc).reverse ++ w1) :: gs) = none := by
      intro w1 w2 h12
      have := hfail (x :: w1) w2 (by rw [h12]; rfl)
      rw [lastOr_cons] at this
      have e3 : pos + (x :: w1).length = pos + 1 + w1.length := by simp; omega
      have e4 : acc.reverse ++ x :: w1 = (x :: acc).reverse ++ w1 := by simp
      rw [e3, e4] at this
      exact this
    cases need with
    | zero =>
      have h0 := hfail [] (x :: w) rfl
      simp only [lastOr, List.getLast?_nil, List.length_nil, Nat.add_zero, List.append_nil, 
        List.cons_append] at h0
      simp only [List.cons_append, lazyLoop, h0, hx, bne_iff_ne, ne_eq, not_false_eq_true, Bool.not_true,
        Bool.false_or, if_true]
      exact ih (fun y hy => hw y (List.mem_cons_of_mem _ hy)) 0 (some x) (pos + 1) (x :: acc) hfail'
    | succ n =>
      simp only [List.cons_append, lazyLoop, hx, bne_iff_ne, ne_eq, not_false_eq_true, Bool.not_true,
        Bool.false_or, if_true]
      exact ih (fun y hy => hw y (List.mem_cons_of_mem _ hy)) n (some x) (pos + 1) (x :: acc) hfail'


/-! #### the four regular expressions that match, on their word -/

theorem seqMatch_at (A X : Str) (c : Char) (steps : List Step) :
    seqMatch (A ++ X) A.length c steps = seqGo c steps (lastOr none A) X A.length [] := by
  have hle : ¬ A.length > (A ++ X).length := by simp
  simp only [seqMatch, hle, if_false, List.drop_left]
  congr 1
  cases A with
  | nil => rfl
  | cons a A' =>
    have hne : (a :: A').length ≠ 0 := by simp
    simp only [hne, if_false, lastOr]
    have : (a :: A' ++ X)[(a :: A').length - 1]? = (a :: A').getLast? := by
      rw [List.getLast?_eq_getElem?, List.getElem?_append_left (by simp)]
    rw [this]
    cases hg : (a :: A').getLast? with
    | none => exact absurd (List.getLast?_eq_none_iff.1 hg) (by simp)
    | some q => rfl

theorem countPrefix_lim_self (c : Char) (m : Nat) (X : Str) : countPrefix c (some m) (List.replicate m c ++ X) = m := by
  induction m with
  | zero => simp
  | succ m ih => simp [List.replicate_succ, countPrefix, ih]

theorem seqGo_nil (c : Char) (prev : Option Char) (X : Str) (pos : Nat) (gs : List Str) :
    seqGo c [] prev X pos gs = some (pos, gs.reverse) := by simp [seqGo]
theorem seqGo_lazy (c : Char) (mn : Nat) (notc : Bool) (rest : List Step) (prev : Option Char) (X : Str) (pos : Nat)
    (gs : List Str) :
    seqGo c (.lazy mn notc :: rest) prev X pos gs = lazyLoop c notc (seqGo c rest) gs mn prev X pos [] := by
  simp [seqGo]
theorem seqGo_greedy (c : Char) (mn : Nat) (rest : List Step) (prev : Option Char) (X : Str) (pos : Nat)
    (gs : List Str) :
    seqGo c (.greedy mn :: rest) prev X pos gs = greedyLoop c mn (seqGo c rest) gs prev X pos 0 [] := by
  simp [seqGo]
theorem seqGo_notnext (c : Char) (rest : List Step) (prev : Option Char) (X : Str) (pos : Nat) (gs : List Str)
    (h : X.head? ≠ some c) : seqGo c (.notnext :: rest) prev X pos gs = seqGo c rest prev X pos gs := by
  simp [seqGo, h]
theorem seqGo_notnext_fail (c : Char) (rest : List Step) (prev : Option Char) (X : Str) (pos : Nat) (gs : List Str) :
    seqGo c (.notnext :: rest) prev (c :: X) pos gs = none := by
  simp [seqGo]
theorem seqGo_nbW (c : Char) (rest : List Step) (prev : Option Char) (X : Str) (pos : Nat) (gs : List Str)
    (h : isW prev = false) : seqGo c (.nbW :: rest) prev X pos gs = seqGo c rest prev X pos gs := by
  simp [seqGo, h]
theorem seqGo_nbC (c : Char) (rest : List Step) (prev : Option Char) (X : Str) (pos : Nat) (gs : List Str)
    (h : prev ≠ some c) : seqGo c (.nbC :: rest) prev X pos gs = seqGo c rest prev X pos gs := by
  simp [seqGo, h]
theorem seqGo_naW (c : Char) (rest : List Step) (prev : Option Char) (X : Str) (pos : Nat) (gs : List Str)
    (h : isW X.head? = false) : seqGo c (.naW :: rest) prev X pos gs = seqGo c rest prev X pos gs := by
  simp [seqGo, h]

theorem lit_ok (c : Char) (m : Nat) (hm : 0 < m) (X : Str) (rest : List Step) (prev : Option Char) (pos : Nat)
    (gs : List Str) :
    seqGo c (.lit m :: rest) prev (List.replicate m c ++ X) pos gs = seqGo c rest (some c) X (pos + m) gs := by
  simp [seqGo, hm, countPrefix_lim_self]

theorem lit1_ok (c : Char) (X : Str) (rest : List Step) (prev : Option Char) (pos : Nat) (gs : List Str) :
    seqGo c (.lit 1 :: rest) prev (c :: X) pos gs = seqGo c rest (some c) X (pos + 1) gs :=
  lit_ok c 1 (by omega) X rest prev pos gs

theorem lit2_ok (c : Char) (X : Str) (rest : List Step) (prev : Option Char) (pos : Nat) (gs : List Str) :
    seqGo c (.lit 2 :: rest) prev (c :: c :: X) pos gs = seqGo c rest (some c) X (pos + 2) gs :=
  lit_ok c 2 (by omega) X rest prev pos gs

theorem lit_fail (c : Char) (m : Nat) (X : Str) (rest : List Step) (prev : Option Char) (pos : Nat) (gs : List Str)
    (h : countPrefix c (some m) X ≠ m) : seqGo c (.lit m :: rest) prev X pos gs = none := by
  simp [seqGo, h]

theorem lit_fail_head (c : Char) (m : Nat) (hm : 0 < m) (y : Char) (hy : y ≠ c) (X : Str) (rest : List Step)
    (prev : Option Char) (pos : Nat) (gs : List Str) : seqGo c (.lit m :: rest) prev (y :: X) pos gs = none := by
  apply lit_fail
  cases m with
  | zero => omega
  | succ m => simp [countPrefix, hy]

/-- `(\*)([^\*]+)\1` on `*word*` -/
theorem em_greedy_match (c : Char) (w Z : Str) (hne : w ≠ []) (hw : ∀ x ∈ w, x ≠ c) (prev : Option Char) (i : Nat) :
    seqGo c [.lit 1, .greedy 1, .lit 1] prev (c :: (w ++ c :: Z)) i [] = some (i + 1 + w.length + 1, [w]) := by
  rw [lit1_ok, seqGo_greedy]
  apply greedyLoop_word c _ [] w hw Z (some c) (i + 1) 0 [] _ (Or.inl hne)
  rw [lit1_ok, seqGo_nil]
  rfl

/-- `(\*{2})(.+?)\1` on `**word**` -/
theorem strong_lazy_match (c : Char) (w Z : Str) (hne : w ≠ []) (hw : ∀ x ∈ w, x ≠ c) (prev : Option Char) (i : Nat) :
    seqGo c [.lit 2, .lazy 1 false, .lit 2] prev (c :: c :: (w ++ c :: c :: Z)) i [] =
      some (i + 2 + w.length + 2, [w]) := by
  rw [lit2_ok, seqGo_lazy]
  apply lazyLoop_word c false _ [] (c :: c :: Z) _ w hw 1 (some c) (i + 2) []
  · cases w with
    | nil => exact absurd rfl hne
    | cons a b => simp
  · intro w1 w2 h12 hw2 _
    cases w2 with
    | nil => exact absurd rfl hw2
    | cons y w2' =>
      have hy : y ≠ c := hw y (by rw [h12]; simp)
      exact lit_fail_head c 2 (by omega) y hy _ _ _ _ _
  · rw [lit2_ok, seqGo_nil]
    rfl


theorem lit_fail_run (c : Char) (m lim : Nat) (h : m < lim) (X : Str) (hX : X.head? ≠ some c) (rest : List Step)
    (prev : Option Char) (pos : Nat) (gs : List Str) :
    seqGo c (.lit lim :: rest) prev (List.replicate m c ++ X) pos gs = none := by
  apply lit_fail
  rw [countPrefix_lim_replicate c m lim X hX]; omega

theorem nbW_lit_fail_run (c : Char) (m lim : Nat) (h : m < lim) (X : Str) (hX : X.head? ≠ some c) (rest : List Step)
    (prev : Option Char) (pos : Nat) (gs : List Str) :
    seqGo c (.nbW :: .lit lim :: rest) prev (List.replicate m c ++ X) pos gs = none := by
  cases hp : isW prev with
  | true => simp [seqGo, hp]
  | false => rw [seqGo_nbW _ _ _ _ _ _ hp]; exact lit_fail_run c m lim h X hX _ _ _ _

theorem nbC_lit_fail_head (c : Char) (m : Nat) (hm : 0 < m) (y : Char) (hy : y ≠ c) (X : Str) (rest : List Step)
    (prev : Option Char) (pos : Nat) (gs : List Str) :
    seqGo c (.nbC :: .lit m :: rest) prev (y :: X) pos gs = none := by
  by_cases hp : prev = some c
  · simp [seqGo, hp]
  · rw [seqGo_nbC _ _ _ _ _ _ hp]; exact lit_fail_head c m hm y hy _ _ _ _ _

theorem lastOr_word_ne (c : Char) (w : Str) (hne : w ≠ []) (hw : ∀ x ∈ w, x ≠ c) (p : Option Char) :
    lastOr p w ≠ some c := by
  unfold lastOr
  cases hg : w.getLast? with
  | none => exact absurd (List.getLast?_eq_none_iff.1 hg) hne
  | some q =>
    intro e
    have : q = c := by simpa using e
    exact hw q (List.mem_of_getLast? hg) this

/-- `(?<!\w)(_)(?!\1)(.+?)(?<!\1)\1(?!\w)` and its two-underscore form on `_word_`, `__word__` between characters
    that are not word characters -/
theorem smart_match (c : Char) (m : Nat) (hm : 0 < m) (w Z : Str) (hne : w ≠ []) (hw : ∀ x ∈ w, x ≠ c)
    (prev : Option Char) (hprev : isW prev = false) (hZ : isW Z.head? = false) (i : Nat) :
    seqGo c [.nbW, .lit m, .notnext, .lazy 1 false, .nbC, .lit m, .naW] prev
        (List.replicate m c ++ (w ++ (List.replicate m c ++ Z))) i [] = some (i + m + w.length + m, [w]) := by
  have hhead : (w ++ (List.replicate m c ++ Z)).head? ≠ some c := by
    cases w with
    | nil => exact absurd rfl hne
    | cons a b => simpa using hw a List.mem_cons_self
  rw [seqGo_nbW _ _ _ _ _ _ hprev, lit_ok c m hm, seqGo_notnext _ _ _ _ _ _ hhead, seqGo_lazy]
  apply lazyLoop_word c false _ [] (List.replicate m c ++ Z) _ w hw 1 (some c) (i + m) []
  · cases w with
    | nil => exact absurd rfl hne
    | cons a b => simp
  · intro w1 w2 h12 hw2 _
    cases w2 with
    | nil => exact absurd rfl hw2
    | cons y w2' =>
      have hy : y ≠ c := hw y (by rw [h12]; simp)
      exact nbC_lit_fail_head c m hm y hy _ _ _ _ _
  · rw [seqGo_nbC _ _ _ _ _ _ (lastOr_word_ne c w hne hw _), lit_ok c m hm, seqGo_naW _ _ _ _ _ _ hZ, seqGo_nil]
    rfl

/-- no run of three `c` anywhere -/
def NoTriple (c : Char) (D : Str) : Prop := ∀ D1 D2, D = D1 ++ D2 → countPrefix c (some 3) D2 ≠ 3

theorem NoTriple.suffix {c : Char} {A D : Str} (h : NoTriple c (A ++ D)) : NoTriple c D :=
  fun D1 D2 e => h (A ++ D1) D2 (by rw [e, List.append_assoc])

/-- the inner part of `SMART_STRONG_EM_RE` needs `___` somewhere -/
theorem inner_fail (c : Char) (D : Str) (hD : NoTriple c D) (p : Option Char) (pos : Nat) (gs : List Str) :
    seqGo c [.nbW, .lit 1, .notnext, .lazy 1 false, .lit 3, .naW] p D pos gs = none := by
  cases hp : isW p with
  | true => simp [seqGo, hp]
  | false =>
    rw [seqGo_nbW _ _ _ _ _ _ hp]
    cases D with
    | nil => exact lit_fail _ _ _ _ _ _ _ (by simp)
    | cons y D3 =>
      by_cases hy : y = c
      · subst hy
        rw [lit1_ok]
        by_cases h3 : D3.head? = some y
        · cases D3 with
          | nil => simp at h3
          | cons z D4 =>
            have : z = y := by simpa using h3
            subst this
            exact seqGo_notnext_fail _ _ _ _ _ _
        · rw [seqGo_notnext _ _ _ _ _ _ h3, seqGo_lazy]
          apply lazyLoop_none
          intro E1 E2 e
          exact lit_fail _ _ _ _ _ _ _ (hD (y :: E1) E2 (by rw [e]; rfl))
      · exact lit_fail_head c 1 (by omega) y hy _ _ _ _ _

theorem smart_strong_em_fail (c : Char) (D : Str) (hD : NoTriple c D) (prev : Option Char) (i : Nat) :
    seqGo c [.nbW, .lit 2, .notnext, .lazy 1 false, .nbW, .lit 1, .notnext, .lazy 1 false, .lit 3, .naW] prev
        (c :: c :: D) i [] = none := by
  cases hp : isW prev with
  | true => simp [seqGo, hp]
  | false =>
    rw [seqGo_nbW _ _ _ _ _ _ hp, lit2_ok]
    by_cases h3 : D.head? = some c
    · cases D with
      | nil => simp at h3
      | cons z D4 =>
        have : z = c := by simpa using h3
        subst this
        exact seqGo_notnext_fail _ _ _ _ _ _
    · rw [seqGo_notnext _ _ _ _ _ _ h3, seqGo_lazy]
      apply lazyLoop_none
      intro E1 E2 e
      exact inner_fail c E2 (fun D1 D2 e2 => hD (E1 ++ D1) D2 (by rw [e, e2, List.append_assoc])) _ _ _

/-- `STRONG_EM3_RE` fails on `**word**`: its first group stops at the closing run, which is longer than one -/
theorem strong_em3_fail (c : Char) (w Z : Str) (hne : w ≠ []) (hw : ∀ x ∈ w, x ≠ c) (prev : Option Char) (i : Nat) :
    seqGo c [.lit 2, .notnext, .lazy 1 true, .lit 1, .notnext, .lazy 1 false, .lit 3] prev
        (c :: c :: (w ++ c :: c :: Z)) i [] = none := by
  have hhead : (w ++ c :: c :: Z).head? ≠ some c := by
    cases w with
    | nil => exact absurd rfl hne
    | cons a b => simpa using hw a List.mem_cons_self
  rw [lit2_ok, seqGo_notnext _ _ _ _ _ _ hhead, seqGo_lazy]
  apply lazyLoop_notc_none c _ [] (c :: Z) w hw
  intro w1 w2 _
  cases w2 with
  | nil => rw [List.nil_append, lit1_ok]; exact seqGo_notnext_fail _ _ _ _ _ _
  | cons y w2' =>
    have hy : y ≠ c := hw y (by simp_all)
    exact lit_fail_head c 1 (by omega) y hy _ _ _ _ _


/-! #### building the element: `parse_sub_patterns` on a word -/

theorem subLoop_word (bd : List Str → EmItem → Nat → Option Node) (w : Str) (c : Char) (hw : ∀ x ∈ w, x ≠ c)
    (idx : Nat) : ∀ (g : Nat) (s : SubSt), s.pos ≤ w.length → w.length - s.pos + 1 ≤ g →
      subLoop bd w c idx g s = some { s with pos := w.length } := by
  intro g
  induction g with
  | zero => intro s _ h; omega
  | succ g ih =>
    intro s hp hg
    by_cases hlt : s.pos < w.length
    · have hne : (w[s.pos]? == some c) = false := by
        rw [List.getElem?_eq_getElem hlt]
        have := hw _ (List.getElem_mem hlt)
        simpa using this
      simp only [subLoop, hlt, if_true, hne, Bool.false_eq_true, if_false]
      rw [ih _ (by simp; omega) (by simp; omega)]
    · have : s.pos = w.length := by omega
      simp only [subLoop, hlt, if_false]
      cases s; simp_all

theorem parseSub_word (bd : List Str → EmItem → Nat → Option Node) (w : Str) (hne : w ≠ []) (c : Char)
    (hw : ∀ x ∈ w, x ≠ c) (idx : Nat) (tag : String) :
    parseSub bd w (mkEl tag) false idx c = some { mkEl tag with text := some w } := by
  have := subLoop_word bd w c hw idx (w.length + 1) ⟨0, 0, mkEl tag, false, false⟩ (by simp) (by simp)
  simp only [parseSub, this, List.drop_zero, setTextOrTail]
  cases w with
  | nil => exact absurd rfl hne
  | cons a b => simp [mkEl]

theorem build_single (c : Char) (f : Nat) (w : Str) (hne : w ≠ []) (hw : ∀ x ∈ w, x ≠ c) (steps : List Step)
    (tag1 tag2 : String) (idx : Nat) :
    build c (f + 1) [w] ⟨steps, .single, tag1, tag2⟩ idx = some { mkEl tag1 with text := some w } := by
  simp only [build, List.headD_cons]
  exact parseSub_word _ w hne c hw idx tag1

/-! #### `handleMatch` at the delimiter of an emphasis -/

/-- the element of one emphasis -/
def emEl (strong : Bool) (w : Str) : Node := { mkEl (if strong then "strong" else "em") with text := some w }

theorem emHandle_star_em (A w Z : Str) (hne : w ≠ []) (hw : ∀ x ∈ w, x ≠ '*') :
    emHandle (A ++ '*' :: (w ++ '*' :: Z)) A.length '*' starPatterns 0 =
      some (some (emEl false w, A.length + 1 + w.length + 1)) := by
  have hhead : (w ++ '*' :: Z).head? ≠ some '*' := by
    cases w with
    | nil => exact absurd rfl hne
    | cons a b => simpa using hw a List.mem_cons_self
  have run : ∀ lim, 1 < lim → ∀ rest, seqGo '*' (.lit lim :: rest) (lastOr none A) ('*' :: (w ++ '*' :: Z)) A.length [] =
      none := fun lim h rest => lit_fail_run '*' 1 lim h _ hhead rest _ _ _
  simp only [emHandle, starPatterns, seqMatch_at, run 3 (by omega), run 2 (by omega),
    em_greedy_match '*' w Z hne hw, build_single '*' _ w hne hw]
  rfl

theorem emHandle_star_strong (A w Z : Str) (hne : w ≠ []) (hw : ∀ x ∈ w, x ≠ '*') :
    emHandle (A ++ '*' :: '*' :: (w ++ '*' :: '*' :: Z)) A.length '*' starPatterns 0 =
      some (some (emEl true w, A.length + 2 + w.length + 2)) := by
  have hhead : (w ++ '*' :: '*' :: Z).head? ≠ some '*' := by
    cases w with
    | nil => exact absurd rfl hne
    | cons a b => simpa using hw a List.mem_cons_self
  have run : ∀ rest, seqGo '*' (.lit 3 :: rest) (lastOr none A) ('*' :: '*' :: (w ++ '*' :: '*' :: Z)) A.length [] =
      none := fun rest => lit_fail_run '*' 2 3 (by omega) _ hhead rest _ _ _
  simp only [emHandle, starPatterns, seqMatch_at, run, strong_em3_fail '*' w Z hne hw,
    strong_lazy_match '*' w Z hne hw, build_single '*' _ w hne hw]
  rfl

theorem emHandle_under_em (A w Z : Str) (hne : w ≠ []) (hw : ∀ x ∈ w, x ≠ '_')
    (hprev : isW (lastOr none A) = false) (hZ : isW Z.head? = false) :
    emHandle (A ++ '_' :: (w ++ '_' :: Z)) A.length '_' underPatterns 0 =
      some (some (emEl false w, A.length + 1 + w.length + 1)) := by
  have hhead : (w ++ '_' :: Z).head? ≠ some '_' := by
    cases w with
    | nil => exact absurd rfl hne
    | cons a b => simpa using hw a List.mem_cons_self
  have run : ∀ lim, 1 < lim → ∀ rest, seqGo '_' (.lit lim :: rest) (lastOr none A) ('_' :: (w ++ '_' :: Z)) A.length [] =
      none := fun lim h rest => lit_fail_run '_' 1 lim h _ hhead rest _ _ _
  have run2 : ∀ rest, seqGo '_' (.nbW :: .lit 2 :: rest) (lastOr none A) ('_' :: (w ++ '_' :: Z)) A.length [] =
      none := fun rest => nbW_lit_fail_run '_' 1 2 (by omega) _ hhead rest _ _ _
  have hm := smart_match '_' 1 (by omega) w Z hne hw _ hprev hZ A.length
  simp only [List.replicate_one, List.singleton_append] at hm
  simp only [emHandle, underPatterns, seqMatch_at, run 3 (by omega), run2, hm,
    build_single '_' _ w hne hw]
  rfl

theorem emHandle_under_strong (A w Z : Str) (hne : w ≠ []) (hw : ∀ x ∈ w, x ≠ '_')
    (hprev : isW (lastOr none A) = false) (hZ : isW Z.head? = false) (h3 : NoTriple '_' (w ++ '_' :: '_' :: Z)) :
    emHandle (A ++ '_' :: '_' :: (w ++ '_' :: '_' :: Z)) A.length '_' underPatterns 0 =
      some (some (emEl true w, A.length + 2 + w.length + 2)) := by
  have hhead : (w ++ '_' :: '_' :: Z).head? ≠ some '_' := by
    cases w with
    | nil => exact absurd rfl hne
    | cons a b => simpa using hw a List.mem_cons_self
  have run : ∀ rest, seqGo '_' (.lit 3 :: rest) (lastOr none A) ('_' :: '_' :: (w ++ '_' :: '_' :: Z)) A.length [] =
      none := fun rest => lit_fail_run '_' 2 3 (by omega) _ hhead rest _ _ _
  have hm := smart_match '_' 2 (by omega) w Z hne hw _ hprev hZ A.length
  simp only [List.replicate_succ, List.replicate_zero, List.cons_append, List.nil_append] at hm
  simp only [emHandle, underPatterns, seqMatch_at, run, smart_strong_em_fail '_' _ h3, hm,
    build_single '_' _ w hne hw]
  rfl

/-! ### 17. the pattern loop on a line of escaped text and emphasised words -/

/-- one emphasis (`strong` or not, delimiter `d`, words `w`) and the plain text after it -/
structure EmSeg where
  strong : Bool
  d : Char
  w : Str
  t : Str

def EmSeg.delim (s : EmSeg) : Str := List.replicate (if s.strong then 2 else 1) s.d

def emSrc (s : EmSeg) : Str := s.delim ++ (s.w ++ s.delim)

def rawEm (esc : List Char) : List EmSeg → Str
  | [] => []
  | s :: r => emSrc s ++ (escAll esc s.t ++ rawEm esc r)

/-- letters, digits and spaces, at least one -/
def WordOK (w : Str) : Prop := w ≠ [] ∧ ∀ x ∈ w, isAlnumSp x = true

/-- the shape of the emphases -/
def EmShape (segs : List EmSeg) : Prop := ∀ s ∈ segs, (s.d = '*' ∨ s.d = '_') ∧ WordOK s.w

theorem wordCh_facts {x : Char} (h : isAlnumSp x = true) :
    x ≠ '*' ∧ x ≠ '_' ∧ x ≠ '`' ∧ x ≠ '\\' ∧ x ≠ '[' ∧ x ≠ '!' ∧ x ≠ '&' ∧ x ≠ '\n' ∧ x ≠ Inline.STX := by
  refine ⟨?_, ?_, ?_, ?_, ?_, ?_, ?_, ?_, ?_⟩ <;> (intro e; subst e; exact absurd h (by decide))

theorem word_quiet {w : Str} (h : WordOK w) : Quiet w := by
  intro c hc
  have := wordCh_facts (h.2 c hc)
  exact ⟨this.2.2.1, this.2.2.2.1, this.2.2.2.2.1, this.2.2.2.2.2.2.2.1, this.2.2.2.2.2.2.1, this.1, this.2.1⟩

theorem mem_delim {s : EmSeg} {c : Char} (h : c ∈ s.delim) : c = s.d := by
  simp only [EmSeg.delim] at h
  exact (List.mem_replicate.1 h).2

theorem mem_emSrc {s : EmSeg} {c : Char} (h : c ∈ emSrc s) : c = s.d ∨ c ∈ s.w := by
  simp only [emSrc, List.mem_append] at h
  rcases h with h | h | h
  · exact Or.inl (mem_delim h)
  · exact Or.inr h
  · exact Or.inl (mem_delim h)

theorem delim_cons (s : EmSeg) : ∃ r, s.delim = s.d :: r := by
  simp only [EmSeg.delim]
  cases s.strong <;> simp [List.replicate_succ]

theorem head_rawEm (esc : List Char) (segs : List EmSeg) (hs : EmShape segs) :
    (rawEm esc segs).head? ≠ some '`' ∧ (rawEm esc segs).head? ≠ some '\\' := by
  cases segs with
  | nil => simp [rawEm]
  | cons s r =>
    obtain ⟨q, hq⟩ := delim_cons s
    have hd := (hs s List.mem_cons_self).1
    simp only [rawEm, emSrc, hq, List.cons_append, List.head?_cons, ne_eq, Option.some.injEq]
    rcases hd with h | h <;> rw [h] <;> decide

/-! #### pattern 0: no code span -/

theorem spanLen_append_nohead (p : Char → Bool) (R : Str) (hR : ∀ c, R.head? = some c → p c = false) :
    ∀ L : Str, spanLen p (L ++ R) = spanLen p L := by
  intro L
  induction L with
  | nil =>
    cases R with
    | nil => rfl
    | cons c R => simp [spanLen, hR c rfl]
  | cons a L ih => simp only [List.cons_append, spanLen, ih]

theorem btAt_escAll_nt {esc : List Char} (hb : '\\' ∈ esc) (ht : '`' ∈ esc) (prev : Option Char) (r Z : Str)
    (hne : r ≠ []) (hZ1 : Z.head? ≠ some '`') (hZ2 : Z.head? ≠ some '\\') (i : Nat) :
    btAt prev (escAll esc r ++ Z) i = none := by
  unfold btAt
  by_cases hp : prev = some '\\'
  · simp [hp]
  · have hp' : (prev == some '\\') = false := by simpa using hp
    simp only [hp', Bool.false_eq_true, if_false]
    have hk : countPrefix '\\' none (escAll esc r ++ Z) = countPrefix '\\' none (escAll esc r) := by
      rw [countPrefix_none, countPrefix_none]
      exact spanLen_append_nohead _ Z (fun c hc => by
        have : c ≠ '\\' := fun e => hZ2 (e ▸ hc)
        simpa using this) _
    have hpar := tick_after_run_odd hb ht r
    have hhead := head_escAll_ne_tick ht r
    have hne' := escAll_ne_nil (esc := esc) hne
    have hle : countPrefix '\\' none (escAll esc r) ≤ (escAll esc r).length := by
      rw [countPrefix_none]; exact spanLen_le _ _
    rw [hk]
    generalize escAll esc r = s at hpar hhead hne' hle
    have h1 : (decide (countPrefix '\\' none s ≥ 2) && countPrefix '\\' none s % 2 == 0 &&
        (s ++ Z)[countPrefix '\\' none s]? == some '`') = false := by
      cases hx : (s ++ Z)[countPrefix '\\' none s]? == some '`' with
      | false => simp
      | true =>
        by_cases hlt : countPrefix '\\' none s < s.length
        · rw [List.getElem?_append_left hlt] at hx
          have := hpar (by simpa using hx)
          simp [this]
        · have e : countPrefix '\\' none s = s.length := by omega
          rw [e, List.getElem?_append_right (Nat.le_refl _), Nat.sub_self] at hx
          exfalso
          cases Z with
          | nil => simp at hx
          | cons z Z' =>
            have : z = '`' := by simpa using hx
            exact hZ1 (by simp [this])
    simp only [h1, Bool.false_eq_true, if_false]
    cases s with
    | nil => exact absurd rfl hne'
    | cons c s' =>
      have hc : c ≠ '`' := by simpa using hhead
      simp only [List.cons_append]
      split
      · rename_i heq
        exact absurd (List.cons.inj heq).1 hc
      · rfl

theorem btScan_escAll_nt {esc : List Char} (hb : '\\' ∈ esc) (ht : '`' ∈ esc) (Z : Str)
    (hZ1 : Z.head? ≠ some '`') (hZ2 : Z.head? ≠ some '\\') (r : Str) :
    ∀ (prev : Option Char) (i : Nat),
      btScan prev (escAll esc r ++ Z) i = btScan (lastOr prev (escAll esc r)) Z (i + (escAll esc r).length) := by
  induction r with
  | nil => intro prev i; simp [escAll, lastOr]
  | cons c r ih =>
    intro prev i
    have h0 := btAt_escAll_nt hb ht prev (c :: r) Z (by simp) hZ1 hZ2 i
    by_cases h : c ∈ esc
    · rw [escAll_cons_mem h] at h0 ⊢
      simp only [List.cons_append] at h0 ⊢
      rw [btScan, h0]
      simp only
      rw [btScan]
      have : btAt (some '\\') (c :: (escAll esc r ++ Z)) (i + 1) = none := by simp [btAt]
      rw [this]
      simp only
      rw [ih (some c) (i + 1 + 1), lastOr_cons, lastOr_cons]
      simp only [List.length_cons]
      congr 1; omega
    · rw [escAll_cons_not_mem h] at h0 ⊢
      simp only [List.cons_append] at h0 ⊢
      rw [btScan, h0]
      simp only
      rw [ih (some c) (i + 1), lastOr_cons]
      simp only [List.length_cons]
      congr 1; omega

theorem btScan_skip (X : Str) (hX : noTickBs X) (Z : Str) :
    ∀ (prev : Option Char) (i : Nat), btScan prev (X ++ Z) i = btScan (lastOr prev X) Z (i + X.length) := by
  induction X with
  | nil => intro prev i; simp [lastOr]
  | cons c r ih =>
    intro prev i
    obtain ⟨h1, h2⟩ := hX c List.mem_cons_self
    rw [List.cons_append, btScan, btAt_plain prev c _ i h1 h2]
    simp only
    rw [ih (fun d hd => hX d (List.mem_cons_of_mem _ hd)) (some c) (i + 1), lastOr_cons]
    simp only [List.length_cons]
    congr 1; omega

theorem noTickBs_emSrc {s : EmSeg} (hd : s.d = '*' ∨ s.d = '_') (hw : WordOK s.w) : noTickBs (emSrc s) := by
  intro c hc
  rcases mem_emSrc hc with h | h
  · rcases hd with e | e <;> rw [h, e] <;> decide
  · have := wordCh_facts (hw.2 c h)
    exact ⟨this.2.2.1, this.2.2.2.1⟩

theorem btScan_rawEm {esc : List Char} (hb : '\\' ∈ esc) (ht : '`' ∈ esc) (segs : List EmSeg) :
    ∀ (prev : Option Char) (i : Nat), EmShape segs → btScan prev (rawEm esc segs) i = none := by
  induction segs with
  | nil => intro prev i _; simp [rawEm, btScan, btAt_nil]
  | cons s r ih =>
    intro prev i hs
    have hr : EmShape r := fun x hx => hs x (List.mem_cons_of_mem _ hx)
    obtain ⟨hd, hw⟩ := hs s List.mem_cons_self
    obtain ⟨h1, h2⟩ := head_rawEm esc r hr
    rw [rawEm, btScan_skip _ (noTickBs_emSrc hd hw), btScan_escAll_nt hb ht _ h1 h2]
    exact ih _ _ hr

theorem btFind_em {esc : List Char} (hb : '\\' ∈ esc) (ht : '`' ∈ esc) (t0 : Str) (segs : List EmSeg)
    (hs : EmShape segs) : btFind (escAll esc t0 ++ rawEm esc segs) 0 = none := by
  obtain ⟨h1, h2⟩ := head_rawEm esc segs hs
  simp only [btFind, show ¬ (0 > (escAll esc t0 ++ rawEm esc segs).length) by omega, if_false, if_true,
    List.drop_zero]
  rw [btScan_escAll_nt hb ht _ h1 h2]
  exact btScan_rawEm hb ht segs _ _ hs

/-! #### pattern 1: the escapes, text by text -/

theorem escape_chunk (cfg : Inline.Cfg) (hi : HI) (hb : '\\' ∈ cfg.esc) (Z : Str) (r : Str) :
    ∀ (A : Str) (st : St) (g : Nat), '\\' ∉ A →
      hiLoop (applyPattern cfg hi) (g + escCount cfg.esc r) (A ++ (escAll cfg.esc r ++ Z)) 1 0 st =
      hiLoop (applyPattern cfg hi) g (A ++ (resid cfg.esc st.stash.length r ++ Z)) 1 0
        { st with stash := st.stash ++ stashOf cfg.esc r } := by
  induction r with
  | nil =>
    intro A st g _
    simp [escAll, resid, stashOf, escCount]
  | cons c r ih =>
    intro A st g hA
    by_cases h : c ∈ cfg.esc
    · have hcount : escCount cfg.esc (c :: r) = escCount cfg.esc r + 1 := by simp [escCount, stashOf, h]
      have hstep := applyPattern_esc_found cfg hi A st hA c (escAll cfg.esc r ++ Z) h
      rw [escAll_cons_mem h, hcount, show g + (escCount cfg.esc r + 1) = (g + escCount cfg.esc r) + 1 by omega]
      simp only [List.cons_append]
      rw [hiLoop_step _ _ _ 1 0 st (by omega) _ _ _ _ hstep]
      have hA' : '\\' ∉ A ++ placeholder st.stash.length := by
        intro hh; rcases List.mem_append.1 hh with hh | hh
        · exact hA hh
        · exact bs_not_mem_placeholder _ hh
      have := ih (A ++ placeholder st.stash.length) { st with stash := st.stash ++ [.str (escCode c)] } g hA'
      simp only [if_true, List.append_assoc] at this ⊢
      rw [this]
      simp [resid, stashOf, h, List.append_assoc]
    · have hcount : escCount cfg.esc (c :: r) = escCount cfg.esc r := by simp [escCount, stashOf, h]
      have hc : c ≠ '\\' := fun e => h (e ▸ hb)
      have hA' : '\\' ∉ A ++ [c] := by
        intro hh; rcases List.mem_append.1 hh with hh | hh
        · exact hA hh
        · have e : '\\' = c := by simpa using hh
          exact hc e.symm
      have := ih (A ++ [c]) st g hA'
      simp only [List.append_assoc, List.singleton_append] at this
      rw [escAll_cons_not_mem h, hcount]
      simp only [List.cons_append, resid, stashOf, List.contains_eq_mem, h, decide_false, Bool.false_eq_true, if_false]
      exact this

/-- the number of escapes in the texts after the emphases -/
def escCountEm (esc : List Char) : List EmSeg → Nat
  | [] => 0
  | s :: r => escCount esc s.t + escCountEm esc r

def stashOfEm (esc : List Char) : List EmSeg → List StashItem
  | [] => []
  | s :: r => stashOf esc s.t ++ stashOfEm esc r

/-- the line after the escape pass: the emphases still in source form, the texts with their placeholders -/
def stage1 (esc : List Char) : Nat → List EmSeg → Str
  | _, [] => []
  | m, s :: r => emSrc s ++ (resid esc m s.t ++ stage1 esc (m + escCount esc s.t) r)

theorem bs_not_mem_emSrc {s : EmSeg} (hd : s.d = '*' ∨ s.d = '_') (hw : WordOK s.w) : '\\' ∉ emSrc s :=
  fun h => (noTickBs_emSrc hd hw _ h).2 rfl

theorem bs_not_mem_resid {esc : List Char} (hb : '\\' ∈ esc) (t : Str) (n : Nat) : '\\' ∉ resid esc n t := by
  intro h
  rcases mem_resid h with ⟨_, h2⟩ | h2
  · exact h2 hb
  · exact (phChar_facts h2).2.2.2.2.2.1 rfl

theorem escape_em (cfg : Inline.Cfg) (hi : HI) (hb : '\\' ∈ cfg.esc) (segs : List EmSeg) :
    ∀ (A : Str) (st : St) (g : Nat), '\\' ∉ A → EmShape segs →
      hiLoop (applyPattern cfg hi) (g + escCountEm cfg.esc segs) (A ++ rawEm cfg.esc segs) 1 0 st =
      hiLoop (applyPattern cfg hi) g (A ++ stage1 cfg.esc st.stash.length segs) 1 0
        { st with stash := st.stash ++ stashOfEm cfg.esc segs } := by
  induction segs with
  | nil => intro A st g _ _; simp [rawEm, stage1, escCountEm, stashOfEm]
  | cons s r ih =>
    intro A st g hA hs
    have hr : EmShape r := fun x hx => hs x (List.mem_cons_of_mem _ hx)
    obtain ⟨hd, hw⟩ := hs s List.mem_cons_self
    have hA1 : '\\' ∉ A ++ emSrc s := by
      intro hh; rcases List.mem_append.1 hh with hh | hh
      · exact hA hh
      · exact bs_not_mem_emSrc hd hw hh
    have h1 := escape_chunk cfg hi hb (rawEm cfg.esc r) s.t (A ++ emSrc s) st (g + escCountEm cfg.esc r) hA1
    have hA2 : '\\' ∉ A ++ emSrc s ++ resid cfg.esc st.stash.length s.t := by
      intro hh; rcases List.mem_append.1 hh with hh | hh
      · exact hA1 hh
      · exact bs_not_mem_resid hb _ _ hh
    have h2 := ih (A ++ emSrc s ++ resid cfg.esc st.stash.length s.t)
      { st with stash := st.stash ++ stashOf cfg.esc s.t } g hA2 hr
    simp only [rawEm, stage1, escCountEm, stashOfEm, List.append_assoc] at h1 h2 ⊢
    rw [show g + (escCount cfg.esc s.t + escCountEm cfg.esc r) = g + escCountEm cfg.esc r + escCount cfg.esc s.t by omega,
      h1, h2]
    simp [escCount]


/-! #### patterns 2–12: nothing to find -/

/-- no bracket, no `!`, no `&`, no newline -/
def Mid (D : Str) : Prop := ∀ c ∈ D, c ≠ '[' ∧ c ≠ '!' ∧ c ≠ '&' ∧ c ≠ '\n'

theorem Mid.tail {c : Char} {D : Str} (h : Mid (c :: D)) : Mid D := fun d hd => h d (List.mem_cons_of_mem _ hd)

theorem Mid.append {A B : Str} (hA : Mid A) (hB : Mid B) : Mid (A ++ B) := by
  intro c hc
  rcases List.mem_append.1 hc with h | h
  · exact hA c h
  · exact hB c h

theorem linkScan_mid (cfg : Inline.Cfg) (stash : List StashItem) (pi : Nat) (data : Str) (s : Str)
    (h : Mid s) (prev : Option Char) (i : Nat) : linkScan cfg stash pi data prev s i = none := by
  induction s generalizing prev i with
  | nil => rfl
  | cons c r ih =>
    have hc := h c List.mem_cons_self
    simp only [linkScan, hc.1, hc.2.1, decide_false, Bool.false_and, Bool.false_eq_true, if_false, ite_self]
    exact ih h.tail _ _

theorem entityScan_mid (s : Str) (h : Mid s) (i : Nat) : entityScan s i = none := by
  induction s generalizing i with
  | nil => rfl
  | cons c r ih =>
    have hc := h c List.mem_cons_self
    simp only [entityScan, hc.2.2.1, if_false]
    exact ih h.tail _

theorem find_break_mid (s : Str) (h : Mid s) : find [' ', ' ', '\n'] s = none := by
  induction s with
  | nil => simp
  | cons c r ih =>
    rw [find_cons_none_iff]
    refine ⟨?_, ih h.tail⟩
    cases hsw : startsWith (c :: r) [' ', ' ', '\n'] with
    | false => rfl
    | true =>
      exfalso
      cases r with
      | nil => simp [startsWith] at hsw
      | cons d r' =>
        cases r' with
        | nil => simp [startsWith] at hsw
        | cons e r'' =>
          simp only [startsWith_cons_cons, Bool.and_eq_true, decide_eq_true_eq] at hsw
          exact (h e (by simp)).2.2.2 hsw.2.2.1

theorem applyPattern_mid (cfg : Inline.Cfg) (hi : HI) (pi : Nat) (h2 : 2 ≤ pi) (h13 : pi < 13) (D : Str) (st : St)
    (hD : Mid D) : applyPattern cfg hi pi D 0 st = some (D, false, 0, st) := by
  have hbr := find_break_mid D hD
  have : pi = 2 ∨ pi = 3 ∨ pi = 4 ∨ pi = 5 ∨ pi = 6 ∨ pi = 7 ∨ pi = 8 ∨ pi = 9 ∨ pi = 10 ∨ pi = 11 ∨ pi = 12 := by
    omega
  rcases this with rfl | rfl | rfl | rfl | rfl | rfl | rfl | rfl | rfl | rfl | rfl <;>
    simp [applyPattern, findMatch, linkScan_mid cfg _ _ D D hD, hbr, entityFind, entityScan_mid D hD]

theorem hiLoop_mid (cfg : Inline.Cfg) (hi : HI) (D : Str) (st : St) (hD : Mid D) (g : Nat) :
    ∀ (k pi : Nat), pi + k = 13 → 2 ≤ pi →
      hiLoop (applyPattern cfg hi) (g + k) D pi 0 st = hiLoop (applyPattern cfg hi) g D 13 0 st := by
  intro k
  induction k with
  | zero => intro pi h _; have : pi = 13 := by omega
            subst this; rfl
  | succ k ih =>
    intro pi h h2
    rw [show g + (k + 1) = (g + k) + 1 by omega,
      hiLoop_step _ _ D pi 0 st (by omega) _ _ _ _ (applyPattern_mid cfg hi pi h2 (by omega) D st hD)]
    simp only [Bool.false_eq_true, if_false]
    exact ih (pi + 1) (by omega) (by omega)

/-! #### pattern 13: no lone delimiter -/

theorem nsScan_cons_notok (p ch : Char) (r : Str) (i : Nat) (hp : isSpace p = false) :
    nsScan (some p) (ch :: r) i = nsScan (some ch) r (i + 1) := by
  simp [nsScan, hp]

theorem nsScan_cons_none (prev : Option Char) (ch : Char) (r : Str) (i : Nat)
    (h1 : nsRun '*' (ch :: r) = none) (h2 : nsRun '_' (ch :: r) = none) :
    nsScan prev (ch :: r) i = nsScan (some ch) r (i + 1) := by
  simp [nsScan, h1, h2]

theorem nsRun_open (c : Char) (k : Nat) (hk : k ≤ 3) (x : Char) (R : Str) (hx : x ≠ c) (hs : isSpace x = false) :
    nsRun c (List.replicate k c ++ x :: R) = none := by
  have hcount : countPrefix c (some 3) (List.replicate k c ++ x :: R) = k := by
    rw [countPrefix_lim_replicate c k 3 (x :: R) (by simpa using hx)]; omega
  simp only [nsRun, hcount]
  by_cases h0 : k = 0
  · simp [h0]
  · simp only [h0, if_false]
    have : (List.replicate k c ++ x :: R)[k]? = some x := by
      rw [List.getElem?_append_right (by simp)]; simp
    simp [hs]

/-- text without delimiters: nothing there -/
theorem nsScan_text (A : Str) (hA : ∀ c ∈ A, c ≠ '*' ∧ c ≠ '_') (X : Str) :
    ∀ (prev : Option Char) (i : Nat), nsScan prev (A ++ X) i = nsScan (lastOr prev A) X (i + A.length) := by
  induction A with
  | nil => intro prev i; simp [lastOr]
  | cons c r ih =>
    intro prev i
    have hc := hA c List.mem_cons_self
    rw [List.cons_append, nsScan_cons_none prev c _ i (nsRun_of_head_ne (by simpa using hc.1))
      (nsRun_of_head_ne (by simpa using hc.2)),
      ih (fun d hd => hA d (List.mem_cons_of_mem _ hd)) (some c) (i + 1), lastOr_cons]
    simp only [List.length_cons]
    congr 1; omega

theorem nsScan_open (c : Char) (hc : c = '*' ∨ c = '_') (x : Char) (R : Str) (hx1 : x ≠ '*') (hx2 : x ≠ '_')
    (hs : isSpace x = false) (k : Nat) : ∀ (prev : Option Char) (i : Nat), k ≤ 3 → 0 < k →
      nsScan prev (List.replicate k c ++ x :: R) i = nsScan (some c) (x :: R) (i + k) := by
  induction k with
  | zero => intro _ _ _ h; omega
  | succ k ih =>
    intro prev i hk _
    have hxc : x ≠ c := by rcases hc with e | e <;> rw [e] <;> assumption
    have hr1 : nsRun '*' (List.replicate (k + 1) c ++ x :: R) = none := by
      rcases hc with e | e
      · rw [e]; exact nsRun_open '*' (k + 1) hk x R hx1 hs
      · apply nsRun_of_head_ne; rw [e]; simp [List.replicate_succ]
    have hr2 : nsRun '_' (List.replicate (k + 1) c ++ x :: R) = none := by
      rcases hc with e | e
      · apply nsRun_of_head_ne; rw [e]; simp [List.replicate_succ]
      · rw [e]; exact nsRun_open '_' (k + 1) hk x R hx2 hs
    have e1 : List.replicate (k + 1) c ++ x :: R = c :: (List.replicate k c ++ x :: R) := by
      simp [List.replicate_succ]
    rw [e1] at hr1 hr2 ⊢
    rw [nsScan_cons_none prev c _ i hr1 hr2]
    by_cases hk0 : k = 0
    · subst hk0; simp
    · rw [ih (some c) (i + 1) (by omega) (by omega)]
      congr 1; omega

theorem nsScan_close (c : Char) (hcs : isSpace c = false) (X : Str) (k : Nat) :
    ∀ (p : Char) (i : Nat), isSpace p = false → 0 < k →
      nsScan (some p) (List.replicate k c ++ X) i = nsScan (some c) X (i + k) := by
  induction k with
  | zero => intro _ _ _ h; omega
  | succ k ih =>
    intro p i hp _
    rw [List.replicate_succ, List.cons_append, nsScan_cons_notok p c _ i hp]
    by_cases hk0 : k = 0
    · subst hk0; simp
    · rw [ih c (i + 1) hcs (by omega)]
      congr 1; omega

/-- the words of an emphasis hug their delimiters -/
def Hug (w : Str) : Prop := w.head? ≠ some ' ' ∧ w.getLast? ≠ some ' '

theorem nsScan_em (s : EmSeg) (hd : s.d = '*' ∨ s.d = '_') (hw : WordOK s.w) (hh : Hug s.w) (X : Str)
    (prev : Option Char) (i : Nat) :
    nsScan prev (emSrc s ++ X) i = nsScan (some s.d) X (i + (emSrc s).length) := by
  obtain ⟨hne, hall⟩ := hw
  have hk : 0 < (if s.strong then 2 else 1) ∧ (if s.strong then 2 else 1) ≤ 3 := by cases s.strong <;> simp
  have hds : isSpace s.d = false := by rcases hd with e | e <;> rw [e] <;> decide
  cases hwc : s.w with
  | nil => exact absurd hwc hne
  | cons x w' =>
    have hx := hall x (by rw [hwc]; simp)
    have hxf := wordCh_facts hx
    have hxs : isSpace x = false := alnum_visible x hx (fun e => hh.1 (by rw [hwc, e]; rfl))
    obtain ⟨z, hz⟩ : ∃ z, s.w.getLast? = some z := by
      cases hg : s.w.getLast? with
      | none => exact absurd (List.getLast?_eq_none_iff.1 hg) hne
      | some z => exact ⟨z, rfl⟩
    have hzm : z ∈ s.w := List.mem_of_getLast? hz
    have hzs : isSpace z = false := alnum_visible z (hall z hzm) (fun e => hh.2 (by rw [hz, e]))
    have hlast : lastOr (some s.d) s.w = some z := by simp [lastOr, hz]
    have hwtext : ∀ c ∈ s.w, c ≠ '*' ∧ c ≠ '_' := fun c hc => ⟨(wordCh_facts (hall c hc)).1, (wordCh_facts (hall c hc)).2.1⟩
    have e0 : emSrc s ++ X = s.delim ++ (x :: (w' ++ (s.delim ++ X))) := by
      simp [emSrc, hwc, List.append_assoc]
    rw [e0]
    simp only [EmSeg.delim]
    rw [nsScan_open s.d hd x _ hxf.1 hxf.2.1 hxs _ prev i hk.2 hk.1]
    have e1 : x :: (w' ++ (List.replicate (if s.strong then 2 else 1) s.d ++ X)) =
        s.w ++ (List.replicate (if s.strong then 2 else 1) s.d ++ X) := by rw [hwc]; rfl
    rw [e1, nsScan_text s.w hwtext, hlast, nsScan_close s.d hds X _ z _ hzs hk.1]
    congr 1
    simp [emSrc, EmSeg.delim]; omega


/-- the shape of the emphases: a delimiter character, words that hug it -/
def EmOK (segs : List EmSeg) : Prop := ∀ s ∈ segs, (s.d = '*' ∨ s.d = '_') ∧ WordOK s.w ∧ Hug s.w

theorem EmOK.shape {segs : List EmSeg} (h : EmOK segs) : EmShape segs := fun s hs => ⟨(h s hs).1, (h s hs).2.1⟩

theorem EmOK.tail {s : EmSeg} {r : List EmSeg} (h : EmOK (s :: r)) : EmOK r :=
  fun x hx => h x (List.mem_cons_of_mem _ hx)

theorem resid_no_delim {esc : List Char} (h1 : '*' ∈ esc) (h2 : '_' ∈ esc) (t : Str) (n : Nat) :
    ∀ c ∈ resid esc n t, c ≠ '*' ∧ c ≠ '_' := by
  intro c hc
  rcases mem_resid hc with ⟨_, hn⟩ | hp
  · exact ⟨fun e => hn (e ▸ h1), fun e => hn (e ▸ h2)⟩
  · exact ⟨(phChar_facts hp).2.2.2.1, (phChar_facts hp).2.2.2.2.1⟩

theorem nsScan_stage1 {esc : List Char} (h1 : '*' ∈ esc) (h2 : '_' ∈ esc) (segs : List EmSeg) :
    ∀ (m : Nat) (prev : Option Char) (i : Nat), EmOK segs → nsScan prev (stage1 esc m segs) i = none := by
  induction segs with
  | nil => intro m prev i _; rfl
  | cons s r ih =>
    intro m prev i hok
    obtain ⟨hd, hw, hh⟩ := hok s List.mem_cons_self
    rw [stage1, nsScan_em s hd hw hh, nsScan_text _ (resid_no_delim h1 h2 s.t m)]
    exact ih _ _ _ hok.tail

theorem nsFind_stage1 {esc : List Char} (h1 : '*' ∈ esc) (h2 : '_' ∈ esc) (t0 : Str) (n m : Nat) (segs : List EmSeg)
    (hok : EmOK segs) : nsFind (resid esc n t0 ++ stage1 esc m segs) 0 = none := by
  simp only [nsFind, show ¬ (0 > (resid esc n t0 ++ stage1 esc m segs).length) by omega, if_false, if_true,
    List.drop_zero]
  rw [nsScan_text _ (resid_no_delim h1 h2 t0 n)]
  exact nsScan_stage1 h1 h2 segs _ _ _ hok

theorem applyPattern_13 (cfg : Inline.Cfg) (hi : HI) (D : Str) (st : St) (h : nsFind D 0 = none) :
    applyPattern cfg hi 13 D 0 st = some (D, false, 0, st) := by
  simp [applyPattern, findMatch, h]

/-! #### patterns 14 and 15: the emphases, `*` first -/

theorem emScan_skip (data : Str) (c : Char) (A : Str) (hA : c ∉ A) (X : Str) :
    ∀ i : Nat, emScan data c (A ++ X) i = emScan data c X (i + A.length) := by
  induction A with
  | nil => intro i; rfl
  | cons a A ih =>
    intro i
    have ha : a ≠ c := fun e => hA (e ▸ List.mem_cons_self)
    simp only [List.cons_append, emScan, ha, if_false]
    rw [ih (fun h => hA (List.mem_cons_of_mem _ h))]
    simp only [List.length_cons]
    congr 1; omega

theorem handleInline_word (cfg : Inline.Cfg) (f : Nat) (w : Str) (hq : Quiet w) (p : Nat) (hp : p = 15 ∨ p = 16)
    (st : St) : handleInline cfg (f + 1) w p st = some (w, st) := by
  unfold handleInline
  have hf := CodeLaw.loopFuel_ge w.length
  apply hiLoop_quiet _ _ _ (fun pi => ?_) (16 - p) p _ (by omega) (by omega)
  unfold applyPattern
  rw [findMatch_quiet cfg pi _ _ hq]

/-- one turn of the pattern loop at the first delimiter of an emphasis: the element is stashed -/
theorem applyPattern_em (cfg : Inline.Cfg) (f : Nat) (pi : Nat) (hpi : pi = 14 ∨ pi = 15) (c : Char)
    (hc : c = if pi = 14 then '*' else '_') (A E Z : Str) (hA : c ∉ A) (E' : Str) (hE : E = c :: E')
    (strong : Bool) (w : Str) (hw : WordOK w) (st : St)
    (hh : emHandle (A ++ (E ++ Z)) A.length c (emPatterns c) 0 = some (some (emEl strong w, A.length + E.length))) :
    applyPattern cfg (fun d p s => handleInline cfg (f + 1) d p s) pi (A ++ (E ++ Z)) 0 st =
      some (A ++ (placeholder st.stash.length ++ Z), true, 0,
        { st with stash := st.stash ++ [.node (emEl strong w)] }) := by
  have hscan : emScan (A ++ (E ++ Z)) c (A ++ (E ++ Z)) 0 =
      some (some (emEl strong w, A.length, A.length + E.length)) := by
    rw [emScan_skip _ c A hA, hE]
    simp only [List.cons_append, emScan, if_true, Nat.zero_add]
    rw [hE] at hh
    simp only [List.cons_append] at hh
    rw [hh]
  have hfm : findMatch cfg pi (A ++ (E ++ Z)) 0 st =
      some (some ⟨.el (emEl strong w), A.length, ((A.length + E.length : Nat) : Int)⟩, st) := by
    rcases hpi with e | e <;> subst e <;> simp only [findMatch, List.drop_zero] <;>
      simp at hc <;> subst hc <;> simp [hscan]
  have hq := word_quiet hw
  have hne := hw.1
  have htr : Node.truthy (some w) = true := by
    cases w with
    | nil => exact absurd rfl hne
    | cons a b => rfl
  have hnode : hiNode (fun d p s => handleInline cfg (f + 1) d p s) pi { emEl strong w with children := [] } st =
      some (emEl strong w, st) := by
    have hin := handleInline_word cfg f w hq (pi + 1) (by omega) st
    simp only [hiNode, hiOpt, emEl, mkEl, htr, Bool.not_false, Bool.and_true, if_true, Option.getD_some, hin]
    simp [Node.truthy]
  have hd : pyDrop (A ++ (E ++ Z)) ((A.length + E.length : Nat) : Int) = Z := by
    have := pyDrop_append (A ++ E) Z
    simpa [List.append_assoc] using this
  simp only [applyPattern, hfm]
  have hta : ((emEl strong w).text.isSome && (emEl strong w).textAtomic) = false := by simp [emEl, mkEl]
  simp only [hta, Bool.false_eq_true, if_false, hnode]
  have hkids : (emEl strong w).children = [] := by simp [emEl, mkEl]
  simp only [hkids, hiNodes, stashNode, List.take_left', hd]
  simp [emEl, mkEl]


theorem noTriple_of_no_c (c : Char) (A Z : Str) (hA : c ∉ A) (hZ : NoTriple c Z) : NoTriple c (A ++ Z) := by
  induction A with
  | nil => exact hZ
  | cons a A ih =>
    have ha : a ≠ c := fun e => hA (e ▸ List.mem_cons_self)
    intro D1 D2 e
    cases D1 with
    | nil =>
      simp only [List.nil_append] at e
      rw [← e]
      simp [countPrefix, ha]
    | cons d D1' =>
      simp only [List.cons_append, List.cons.injEq] at e
      exact ih (fun h => hA (List.mem_cons_of_mem _ h)) D1' D2 e.2

theorem noTriple_delim (c : Char) (Z : Str) (hZh : Z.head? ≠ some c) (hZ : NoTriple c Z) (m : Nat) (hm : m ≤ 2) :
    NoTriple c (List.replicate m c ++ Z) := by
  induction m with
  | zero => exact hZ
  | succ m ih =>
    intro D1 D2 e
    cases D1 with
    | nil =>
      simp only [List.nil_append] at e
      rw [← e, countPrefix_lim_replicate c (m + 1) 3 Z hZh]; omega
    | cons d D1' =>
      simp only [List.replicate_succ, List.cons_append, List.cons.injEq] at e
      exact ih (by omega) D1' D2 e.2

theorem isW_under_head {Z : Str} (h : isW Z.head? = false) : Z.head? ≠ some '_' := by
  intro e
  rw [e] at h
  exact absurd h (by decide)

/-- `handleMatch` at the first delimiter of an emphasis -/
theorem emHandle_seg (s : EmSeg) (hd : s.d = '*' ∨ s.d = '_') (hw : WordOK s.w) (A Z : Str)
    (hb : s.d = '_' → isW (lastOr none A) = false ∧ isW Z.head? = false ∧ NoTriple '_' Z) :
    emHandle (A ++ (emSrc s ++ Z)) A.length s.d (emPatterns s.d) 0 =
      some (some (emEl s.strong s.w, A.length + (emSrc s).length)) := by
  obtain ⟨hne, hall⟩ := hw
  have hws : ∀ x ∈ s.w, x ≠ '*' := fun x hx => (wordCh_facts (hall x hx)).1
  have hwu : ∀ x ∈ s.w, x ≠ '_' := fun x hx => (wordCh_facts (hall x hx)).2.1
  obtain ⟨st, d, w, t⟩ := s
  simp only at hd hb hne hws hwu ⊢
  rcases hd with e | e
  · subst e
    cases st with
    | false =>
      have := emHandle_star_em A w Z hne hws
      simp only [emSrc, EmSeg.delim, emPatterns, if_true, Bool.false_eq_true, if_false, List.replicate_one,
        List.append_assoc, List.cons_append, List.nil_append, List.length_cons,
        List.length_append, List.length_nil] at this ⊢
      rw [this]; congr 3; omega
    | true =>
      have := emHandle_star_strong A w Z hne hws
      simp only [emSrc, EmSeg.delim, emPatterns, if_true, List.replicate_succ, List.replicate_zero,
        List.append_assoc, List.cons_append, List.nil_append, List.length_cons,
        List.length_append, List.length_nil] at this ⊢
      rw [this]; congr 3; omega
  · subst e
    obtain ⟨hb1, hb2, hb3⟩ := hb rfl
    cases st with
    | false =>
      have := emHandle_under_em A w Z hne hwu hb1 hb2
      simp only [emSrc, EmSeg.delim, emPatterns, show ¬ ('_' = '*') by decide, if_false, Bool.false_eq_true,
        List.replicate_one,
        List.append_assoc, List.cons_append, List.nil_append, List.length_cons,
        List.length_append, List.length_nil] at this ⊢
      rw [this]; congr 3; omega
    | true =>
      have h3 : NoTriple '_' (w ++ '_' :: '_' :: Z) :=
        noTriple_of_no_c '_' w _ (fun h => hwu _ h rfl)
          (noTriple_delim '_' Z (isW_under_head hb2) hb3 2 (by omega))
      have := emHandle_under_strong A w Z hne hwu hb1 hb2 h3
      simp only [emSrc, EmSeg.delim, emPatterns, show ¬ ('_' = '*') by decide, if_false, if_true,
        List.replicate_succ, List.replicate_zero,
        List.append_assoc, List.cons_append, List.nil_append, List.length_cons,
        List.length_append, List.length_nil] at this ⊢
      rw [this]; congr 3; omega


/-- the line after the `*` pass: the `*` emphases are placeholders (numbered from `ns`) -/
def stage2 (esc : List Char) : Nat → Nat → List EmSeg → Str
  | _, _, [] => []
  | m, ns, s :: r => (if s.d = '*' then placeholder ns else emSrc s) ++
      (resid esc m s.t ++ stage2 esc (m + escCount esc s.t) (if s.d = '*' then ns + 1 else ns) r)

/-- the line after the `_` pass: every emphasis is a placeholder (`*` ones from `ns`, `_` ones from `nu`) -/
def stage3 (esc : List Char) : Nat → Nat → Nat → List EmSeg → Str
  | _, _, _, [] => []
  | m, ns, nu, s :: r => placeholder (if s.d = '*' then ns else nu) ++
      (resid esc m s.t ++ stage3 esc (m + escCount esc s.t) (if s.d = '*' then ns + 1 else ns)
        (if s.d = '*' then nu else nu + 1) r)

def starNodes : List EmSeg → List StashItem
  | [] => []
  | s :: r => if s.d = '*' then .node (emEl s.strong s.w) :: starNodes r else starNodes r

def underNodes : List EmSeg → List StashItem
  | [] => []
  | s :: r => if s.d = '*' then underNodes r else .node (emEl s.strong s.w) :: underNodes r

theorem not_mem_placeholder {c : Char} (h : phChar c = false) (n : Nat) : c ∉ placeholder n :=
  fun hm => by rw [phChar_of_mem_placeholder hm] at h; cases h

theorem star_pass (cfg : Inline.Cfg) (f : Nat) (h1 : '*' ∈ cfg.esc) (h2 : '_' ∈ cfg.esc) (segs : List EmSeg) :
    ∀ (A : Str) (m : Nat) (st : St) (g : Nat), '*' ∉ A → EmOK segs →
      hiLoop (applyPattern cfg (fun d p s => handleInline cfg (f + 1) d p s)) (g + (starNodes segs).length)
        (A ++ stage1 cfg.esc m segs) 14 0 st =
      hiLoop (applyPattern cfg (fun d p s => handleInline cfg (f + 1) d p s)) g
        (A ++ stage2 cfg.esc m st.stash.length segs) 14 0 { st with stash := st.stash ++ starNodes segs } := by
  induction segs with
  | nil => intro A m st g _ _; simp [stage1, stage2, starNodes]
  | cons s r ih =>
    intro A m st g hA hok
    obtain ⟨hd, hw, hh⟩ := hok s List.mem_cons_self
    have hres : '*' ∉ resid cfg.esc m s.t := fun h => (resid_no_delim h1 h2 s.t m _ h).1 rfl
    by_cases hs : s.d = '*'
    · obtain ⟨q, hq⟩ := delim_cons s
      have hE : emSrc s = '*' :: (q ++ (s.w ++ s.delim)) := by rw [emSrc, hq, hs]; rfl
      have hhm := emHandle_seg s hd hw A (resid cfg.esc m s.t ++ stage1 cfg.esc (m + escCount cfg.esc s.t) r)
        (fun e => by rw [hs] at e; exact absurd e (by decide))
      rw [hs] at hhm
      have hstep := applyPattern_em cfg f 14 (Or.inl rfl) '*' rfl A (emSrc s)
        (resid cfg.esc m s.t ++ stage1 cfg.esc (m + escCount cfg.esc s.t) r) hA _ hE s.strong s.w hw st hhm
      have hA' : '*' ∉ A ++ (placeholder st.stash.length ++ resid cfg.esc m s.t) := by
        intro hx
        rcases List.mem_append.1 hx with hx | hx
        · exact hA hx
        · rcases List.mem_append.1 hx with hx | hx
          · exact not_mem_placeholder (by decide) _ hx
          · exact hres hx
      have := ih (A ++ (placeholder st.stash.length ++ resid cfg.esc m s.t)) (m + escCount cfg.esc s.t)
        { st with stash := st.stash ++ [.node (emEl s.strong s.w)] } g hA' hok.tail
      simp only [stage1, stage2, starNodes, hs, if_true, List.length_cons, List.append_assoc] at this ⊢
      rw [show g + ((starNodes r).length + 1) = (g + (starNodes r).length) + 1 by omega,
        hiLoop_step _ _ _ 14 0 st (by omega) _ _ _ _ hstep]
      simp only [if_true]
      rw [this]
      simp
    · have hds : s.d = '_' := by rcases hd with e | e; exact absurd e hs; exact e
      have hA' : '*' ∉ A ++ (emSrc s ++ resid cfg.esc m s.t) := by
        intro hx
        rcases List.mem_append.1 hx with hx | hx
        · exact hA hx
        · rcases List.mem_append.1 hx with hx | hx
          · rcases mem_emSrc hx with e | e
            · rw [hds] at e; exact absurd e (by decide)
            · exact (wordCh_facts (hw.2 _ e)).1 rfl
          · exact hres hx
      have := ih (A ++ (emSrc s ++ resid cfg.esc m s.t)) (m + escCount cfg.esc s.t) st g hA' hok.tail
      simp only [stage1, stage2, starNodes, hs, if_false, List.append_assoc] at this ⊢
      exact this


/-- is the last character of the residue of `t` a word character? -/
def lastW (esc : List Char) (t : Str) : Bool :=
  match t.getLast? with
  | some c => !esc.contains c && isWord c
  | none => false

/-- the character after an emphasis is not a word character: an escape, a non-word character, the end, or a `*`
    emphasis (a placeholder by then) -/
def nextNW (esc : List Char) (t : Str) (r : List EmSeg) : Prop :=
  match t, r with
  | c :: _, _ => c ∈ esc ∨ isWord c = false
  | [], [] => True
  | [], s' :: _ => s'.d = '*'

/-- every `_` emphasis stands between characters that are not word characters (`pw`: the character before the list
    is one) -/
def UnderOK (esc : List Char) : Bool → List EmSeg → Prop
  | _, [] => True
  | pw, s :: r => (s.d = '_' → pw = false ∧ nextNW esc s.t r) ∧ UnderOK esc (lastW esc s.t) r

theorem lastOr_append (p : Option Char) (A B : Str) : lastOr p (A ++ B) = lastOr (lastOr p A) B := by
  cases B with
  | nil => simp [lastOr]
  | cons b B =>
    have : (A ++ b :: B).getLast? = (b :: B).getLast? := by
      rw [List.getLast?_append]; cases hg : (b :: B).getLast? with
      | none => exact absurd (List.getLast?_eq_none_iff.1 hg) (by simp)
      | some z => rfl
    simp only [lastOr, this]
    cases hg : (b :: B).getLast? with
    | none => exact absurd (List.getLast?_eq_none_iff.1 hg) (by simp)
    | some z => rfl

theorem lastOr_placeholder (p : Option Char) (n : Nat) : lastOr p (placeholder n) = some Inline.ETX := by
  simp [lastOr, placeholder]

theorem isW_lastOr_resid (esc : List Char) (t : Str) :
    ∀ (m : Nat) (p : Option Char), isW (lastOr p (resid esc m t)) = if t = [] then isW p else lastW esc t := by
  induction t with
  | nil => intro m p; simp [resid, lastOr]
  | cons c r ih =>
    intro m p
    simp only [List.cons_ne_nil, if_false]
    by_cases hc : c ∈ esc
    · simp only [resid, List.contains_eq_mem, hc, decide_true, if_true]
      rw [lastOr_append, ih, lastOr_placeholder]
      cases r with
      | nil => simp [lastW, hc]; decide
      | cons d r' => simp [lastW, List.getLast?_cons_cons]
    · simp only [resid, List.contains_eq_mem, hc, decide_false, Bool.false_eq_true, if_false]
      rw [lastOr_cons, ih]
      cases r with
      | nil => simp [lastW, hc, isW]
      | cons d r' => simp [lastW, List.getLast?_cons_cons]

theorem head_placeholder (n : Nat) (X : Str) : (placeholder n ++ X).head? = some Inline.STX := by
  simp [placeholder, phPrefix]

theorem isW_head_next (esc : List Char) (t : Str) (m ns : Nat) (r : List EmSeg) (h : nextNW esc t r) :
    isW (resid esc m t ++ stage2 esc (m + escCount esc t) ns r).head? = false := by
  cases t with
  | cons c t' =>
    by_cases hc : c ∈ esc
    · simp only [resid, List.contains_eq_mem, hc, decide_true, if_true, List.append_assoc]
      rw [head_placeholder]; decide
    · have : isWord c = false := by
        rcases h with h | h
        · exact absurd h hc
        · exact h
      simp [resid, hc, isW, this]
  | nil =>
    cases r with
    | nil => simp [resid, stage2, isW]
    | cons s' r' =>
      have hs : s'.d = '*' := h
      simp only [resid, List.nil_append, stage2, hs, if_true]
      rw [head_placeholder]; decide

theorem noTriple_nil (c : Char) : NoTriple c [] := by
  intro D1 D2 e
  have : D2 = [] := by
    cases D1 <;> cases D2 <;> simp_all
  subst this
  simp

theorem noTriple_stage2 {esc : List Char} (h1 : '*' ∈ esc) (h2 : '_' ∈ esc) (segs : List EmSeg) :
    ∀ (m ns : Nat) (pw : Bool), EmOK segs → UnderOK esc pw segs → NoTriple '_' (stage2 esc m ns segs) := by
  induction segs with
  | nil => intro _ _ _ _ _; exact noTriple_nil _
  | cons s r ih =>
    intro m ns pw hok hu
    obtain ⟨hd, hw, hh⟩ := hok s List.mem_cons_self
    have hrest := ih (m + escCount esc s.t) (if s.d = '*' then ns + 1 else ns) _ hok.tail hu.2
    have hres : '_' ∉ resid esc m s.t := fun h => (resid_no_delim h1 h2 s.t m _ h).2 rfl
    have hZ := noTriple_of_no_c '_' _ _ hres hrest
    by_cases hs : s.d = '*'
    · simp only [hs, if_true] at hZ
      simp only [stage2, hs, if_true]
      exact noTriple_of_no_c '_' _ _ (not_mem_placeholder (by decide) _) hZ
    · have hds : s.d = '_' := by rcases hd with e | e; exact absurd e hs; exact e
      have hnext := (hu.1 hds).2
      have hhead := isW_under_head (isW_head_next esc s.t m (if s.d = '*' then ns + 1 else ns) r hnext)
      have hne : ¬ ('_' = '*') := by decide
      simp only [hds, hne, if_false] at hZ hhead
      simp only [stage2, emSrc, EmSeg.delim, hds, hne, if_false, List.append_assoc]
      have hm : (if s.strong then 2 else 1) ≤ 2 := by cases s.strong <;> simp
      refine noTriple_delim '_' _ ?_ (noTriple_of_no_c '_' _ _ (fun h => (wordCh_facts (hw.2 _ h)).2.1 rfl)
        (noTriple_delim '_' _ hhead hZ _ hm)) _ hm
      cases hwc : s.w with
      | nil => exact absurd hwc hw.1
      | cons x w' =>
        have := (wordCh_facts (hw.2 x (by rw [hwc]; simp))).2.1
        simpa using this


theorem isW_lastOr_seg (esc : List Char) (A : Str) (n m : Nat) (t : Str) :
    isW (lastOr none (A ++ (placeholder n ++ resid esc m t))) = lastW esc t := by
  rw [lastOr_append, lastOr_append, isW_lastOr_resid, lastOr_placeholder]
  by_cases ht : t = []
  · subst ht; simp [lastW]; decide
  · simp [ht]

theorem under_pass (cfg : Inline.Cfg) (f : Nat) (h1 : '*' ∈ cfg.esc) (h2 : '_' ∈ cfg.esc) (segs : List EmSeg) :
    ∀ (A : Str) (m ns : Nat) (st : St) (g : Nat), '_' ∉ A → EmOK segs →
      UnderOK cfg.esc (isW (lastOr none A)) segs →
      hiLoop (applyPattern cfg (fun d p s => handleInline cfg (f + 1) d p s)) (g + (underNodes segs).length)
        (A ++ stage2 cfg.esc m ns segs) 15 0 st =
      hiLoop (applyPattern cfg (fun d p s => handleInline cfg (f + 1) d p s)) g
        (A ++ stage3 cfg.esc m ns st.stash.length segs) 15 0 { st with stash := st.stash ++ underNodes segs } := by
  induction segs with
  | nil => intro A m ns st g _ _ _; simp [stage2, stage3, underNodes]
  | cons s r ih =>
    intro A m ns st g hA hok hu
    obtain ⟨hd, hw, hh⟩ := hok s List.mem_cons_self
    have hres : '_' ∉ resid cfg.esc m s.t := fun h => (resid_no_delim h1 h2 s.t m _ h).2 rfl
    by_cases hs : s.d = '*'
    · have hA' : '_' ∉ A ++ (placeholder ns ++ resid cfg.esc m s.t) := by
        intro hx
        rcases List.mem_append.1 hx with hx | hx
        · exact hA hx
        · rcases List.mem_append.1 hx with hx | hx
          · exact not_mem_placeholder (by decide) _ hx
          · exact hres hx
      have hu' : UnderOK cfg.esc (isW (lastOr none (A ++ (placeholder ns ++ resid cfg.esc m s.t)))) r := by
        rw [isW_lastOr_seg]; exact hu.2
      have := ih (A ++ (placeholder ns ++ resid cfg.esc m s.t)) (m + escCount cfg.esc s.t) (ns + 1) st g hA'
        hok.tail hu'
      simp only [stage2, stage3, underNodes, hs, if_true, List.append_assoc] at this ⊢
      exact this
    · have hds : s.d = '_' := by rcases hd with e | e; exact absurd e hs; exact e
      obtain ⟨hpw, hnext⟩ := hu.1 hds
      obtain ⟨q, hq⟩ := delim_cons s
      have hE : emSrc s = '_' :: (q ++ (s.w ++ s.delim)) := by rw [emSrc, hq, hds]; rfl
      have hhm := emHandle_seg s hd hw A (resid cfg.esc m s.t ++ stage2 cfg.esc (m + escCount cfg.esc s.t) ns r)
        (fun _ => ⟨hpw, isW_head_next cfg.esc s.t m ns r hnext,
          noTriple_of_no_c '_' _ _ hres (noTriple_stage2 h1 h2 r _ _ _ hok.tail hu.2)⟩)
      rw [hds] at hhm
      have hstep := applyPattern_em cfg f 15 (Or.inr rfl) '_' rfl A (emSrc s)
        (resid cfg.esc m s.t ++ stage2 cfg.esc (m + escCount cfg.esc s.t) ns r) hA _ hE s.strong s.w hw st hhm
      have hA' : '_' ∉ A ++ (placeholder st.stash.length ++ resid cfg.esc m s.t) := by
        intro hx
        rcases List.mem_append.1 hx with hx | hx
        · exact hA hx
        · rcases List.mem_append.1 hx with hx | hx
          · exact not_mem_placeholder (by decide) _ hx
          · exact hres hx
      have hu' : UnderOK cfg.esc (isW (lastOr none (A ++ (placeholder st.stash.length ++ resid cfg.esc m s.t)))) r := by
        rw [isW_lastOr_seg]; exact hu.2
      have := ih (A ++ (placeholder st.stash.length ++ resid cfg.esc m s.t)) (m + escCount cfg.esc s.t) ns
        { st with stash := st.stash ++ [.node (emEl s.strong s.w)] } g hA' hok.tail hu'
      simp only [stage2, stage3, underNodes, hs, if_false, List.length_cons, List.append_assoc] at this ⊢
      rw [show g + ((underNodes r).length + 1) = (g + (underNodes r).length) + 1 by omega,
        hiLoop_step _ _ _ 15 0 st (by omega) _ _ _ _ hstep]
      simp only [if_true]
      rw [this]
      simp


/-! #### the whole pattern loop -/

/-- where a character of such a line comes from -/
def FromSegs (esc : List Char) (segs : List EmSeg) (c : Char) : Prop :=
  (∃ s ∈ segs, c ∈ s.t ∧ c ∉ esc) ∨ phChar c = true

theorem FromSegs.cons {esc : List Char} {s : EmSeg} {r : List EmSeg} {c : Char} (h : FromSegs esc r c) :
    FromSegs esc (s :: r) c := by
  rcases h with ⟨x, hx, h⟩ | h
  · exact Or.inl ⟨x, List.mem_cons_of_mem _ hx, h⟩
  · exact Or.inr h

theorem fromSegs_resid {esc : List Char} {s : EmSeg} {r : List EmSeg} {c : Char} {m : Nat}
    (h : c ∈ resid esc m s.t) : FromSegs esc (s :: r) c := by
  rcases mem_resid h with h | h
  · exact Or.inl ⟨s, List.mem_cons_self, h⟩
  · exact Or.inr h

theorem mem_stage1 {esc : List Char} {c : Char} (segs : List EmSeg) :
    ∀ m, c ∈ stage1 esc m segs → (∃ s ∈ segs, c = s.d ∨ c ∈ s.w) ∨ FromSegs esc segs c := by
  induction segs with
  | nil => intro m h; simp [stage1] at h
  | cons s r ih =>
    intro m h
    simp only [stage1, List.mem_append] at h
    rcases h with h | h | h
    · exact Or.inl ⟨s, List.mem_cons_self, mem_emSrc h⟩
    · exact Or.inr (fromSegs_resid h)
    · rcases ih _ h with ⟨x, hx, h⟩ | h
      · exact Or.inl ⟨x, List.mem_cons_of_mem _ hx, h⟩
      · exact Or.inr h.cons

theorem mem_stage2 {esc : List Char} {c : Char} (segs : List EmSeg) :
    ∀ m ns, c ∈ stage2 esc m ns segs → (∃ s ∈ segs, s.d ≠ '*' ∧ (c = s.d ∨ c ∈ s.w)) ∨ FromSegs esc segs c := by
  induction segs with
  | nil => intro m ns h; simp [stage2] at h
  | cons s r ih =>
    intro m ns h
    simp only [stage2, List.mem_append] at h
    rcases h with h | h | h
    · by_cases hs : s.d = '*'
      · simp only [hs, if_true] at h
        exact Or.inr (Or.inr (phChar_of_mem_placeholder h))
      · simp only [hs, if_false] at h
        exact Or.inl ⟨s, List.mem_cons_self, hs, mem_emSrc h⟩
    · exact Or.inr (fromSegs_resid h)
    · rcases ih _ _ h with ⟨x, hx, h⟩ | h
      · exact Or.inl ⟨x, List.mem_cons_of_mem _ hx, h⟩
      · exact Or.inr h.cons

theorem mem_stage3 {esc : List Char} {c : Char} (segs : List EmSeg) :
    ∀ m ns nu, c ∈ stage3 esc m ns nu segs → FromSegs esc segs c := by
  induction segs with
  | nil => intro m ns nu h; simp [stage3] at h
  | cons s r ih =>
    intro m ns nu h
    simp only [stage3, List.mem_append] at h
    rcases h with h | h | h
    · exact Or.inr (phChar_of_mem_placeholder h)
    · exact fromSegs_resid h
    · exact (ih _ _ _ h).cons

theorem star_under_length (segs : List EmSeg) : (starNodes segs).length + (underNodes segs).length = segs.length := by
  induction segs with
  | nil => rfl
  | cons s r ih => by_cases h : s.d = '*' <;> simp [starNodes, underNodes, h] <;> omega

theorem rawEm_length (esc : List Char) (segs : List EmSeg) :
    escCountEm esc segs + segs.length ≤ (rawEm esc segs).length := by
  induction segs with
  | nil => simp [escCountEm, rawEm]
  | cons s r ih =>
    have h1 := escCount_le esc s.t
    obtain ⟨q, hq⟩ := delim_cons s
    simp only [escCountEm, rawEm, emSrc, hq, List.length_append, List.length_cons] at ih ⊢
    omega

theorem applyPattern_em_none (cfg : Inline.Cfg) (hi : HI) (pi : Nat) (hpi : pi = 14 ∨ pi = 15) (D : Str) (st : St)
    (h : (if pi = 14 then '*' else '_') ∉ D) : applyPattern cfg hi pi D 0 st = some (D, false, 0, st) := by
  rcases hpi with e | e <;> subst e <;> simp at h <;> simp [applyPattern, findMatch, emScan_none D _ D h]


theorem stashOfEm_length (esc : List Char) (segs : List EmSeg) :
    (stashOfEm esc segs).length = escCountEm esc segs := by
  induction segs with
  | nil => rfl
  | cons s r ih => simp [stashOfEm, escCountEm, escCount, ih]

theorem lastW_nil (esc : List Char) : lastW esc [] = false := rfl

/-- **the pattern loop** on a line of escaped text and emphasised words: the escapes become placeholders, then the
    `*` emphases, then the `_` emphases -/
theorem handleInlineTop_em (cfg : Inline.Cfg) (hE : EscOK cfg.esc) (t0 : Str) (segs : List EmSeg) (st : St)
    (hok : EmOK segs) (hu : UnderOK cfg.esc (lastW cfg.esc t0) segs)
    (hplain : ∀ c, (c ∈ t0 ∨ ∃ s ∈ segs, c ∈ s.t) → c ≠ '&' ∧ c ≠ '\n') :
    handleInlineTop cfg (escAll cfg.esc t0 ++ rawEm cfg.esc segs) st =
      some (resid cfg.esc st.stash.length t0 ++
          stage3 cfg.esc (st.stash.length + escCount cfg.esc t0)
            (st.stash.length + escCount cfg.esc t0 + escCountEm cfg.esc segs)
            (st.stash.length + escCount cfg.esc t0 + escCountEm cfg.esc segs + (starNodes segs).length) segs,
        { st with stash := st.stash ++ (stashOf cfg.esc t0 ++ stashOfEm cfg.esc segs ++ starNodes segs ++
            underNodes segs) }) := by
  generalize hraw : escAll cfg.esc t0 ++ rawEm cfg.esc segs = raw
  have hlen : escCount cfg.esc t0 + escCountEm cfg.esc segs + segs.length ≤ raw.length := by
    have h1 := escCount_le cfg.esc t0
    have h2 := rawEm_length cfg.esc segs
    rw [← hraw, List.length_append]; omega
  have hsu := star_under_length segs
  obtain ⟨x, hx⟩ : ∃ x, loopFuel raw.length =
      ((((((((((x + 1) + 1) + (underNodes segs).length) + 1) + (starNodes segs).length) + 1) + 11) + 1) +
        escCountEm cfg.esc segs) + escCount cfg.esc t0) + 1 :=
    ⟨loopFuel raw.length - (escCount cfg.esc t0 + escCountEm cfg.esc segs + segs.length + 17), by
      have := CodeLaw.loopFuel_ge raw.length; omega⟩
  unfold handleInlineTop depthFuel
  rw [show raw.length + 20 = ((raw.length + 18) + 1) + 1 from rfl]
  unfold handleInline
  rw [hx]
  generalize hhi : (fun d p s => handleInline cfg ((raw.length + 18) + 1) d p s) = hi
  rw [← hraw]
  -- pattern 0
  rw [hiLoop_step _ _ _ 0 0 _ (by omega) _ _ _ _
    (applyPattern_zero_none cfg _ _ _ (btFind_em hE.bs hE.tick t0 segs hok.shape))]
  simp only [Bool.false_eq_true, if_false, Nat.zero_add]
  -- pattern 1
  have e1 := escape_chunk cfg hi hE.bs (rawEm cfg.esc segs) t0 [] st
    (((((((((x + 1) + 1) + (underNodes segs).length) + 1) + (starNodes segs).length) + 1) + 11) + 1) +
        escCountEm cfg.esc segs) (by simp)
  simp only [List.nil_append] at e1
  rw [e1]
  have hbs0 : '\\' ∉ resid cfg.esc st.stash.length t0 := bs_not_mem_resid hE.bs _ _
  rw [escape_em cfg hi hE.bs segs _ _ _ hbs0 hok.shape]
  simp only [List.length_append]
  have hlen0 : (stashOf cfg.esc t0).length = escCount cfg.esc t0 := rfl
  rw [hlen0]
  generalize hn0 : st.stash.length = n0
  generalize hm1 : n0 + escCount cfg.esc t0 = m1
  generalize hD1 : resid cfg.esc n0 t0 ++ stage1 cfg.esc m1 segs = D1
  have hD1chars : ∀ c ∈ D1, (∃ s ∈ segs, c = s.d ∨ c ∈ s.w) ∨ (c ∈ t0 ∧ c ∉ cfg.esc) ∨ FromSegs cfg.esc segs c := by
    intro c hc
    rw [← hD1] at hc
    rcases List.mem_append.1 hc with h | h
    · rcases mem_resid h with h | h
      · exact Or.inr (Or.inl h)
      · exact Or.inr (Or.inr (Or.inr h))
    · rcases mem_stage1 segs _ h with h | h
      · exact Or.inl h
      · exact Or.inr (Or.inr h)
  have hbs1 : '\\' ∉ D1 := by
    intro h
    rcases hD1chars _ h with ⟨s, hs, h⟩ | ⟨_, h⟩ | ⟨s, hs, _, h⟩ | h
    · obtain ⟨hd, hw, _⟩ := hok s hs
      rcases h with h | h
      · rcases hd with e | e <;> rw [e] at h <;> exact absurd h (by decide)
      · exact (wordCh_facts (hw.2 _ h)).2.2.2.1 rfl
    · exact h hE.bs
    · exact h hE.bs
    · exact (phChar_facts h).2.2.2.2.2.1 rfl
  rw [hiLoop_step _ _ _ 1 0 _ (by omega) _ _ _ _ (applyPattern_esc_none cfg hi D1 _ hbs1)]
  simp only [Bool.false_eq_true, if_false]
  -- patterns 2–12
  have hmid : Mid D1 := by
    intro c hc
    rcases hD1chars c hc with ⟨s, hs, h⟩ | ⟨h, hn⟩ | ⟨s, hs, h, hn⟩ | h
    · obtain ⟨hd, hw, _⟩ := hok s hs
      rcases h with h | h
      · rcases hd with e | e <;> rw [h, e] <;> decide
      · have := wordCh_facts (hw.2 _ h)
        exact ⟨this.2.2.2.2.1, this.2.2.2.2.2.1, this.2.2.2.2.2.2.1, this.2.2.2.2.2.2.2.1⟩
    · have := hplain c (Or.inl h)
      exact ⟨fun e => hn (e ▸ hE.lbr), fun e => hn (e ▸ hE.bang), this.1, this.2⟩
    · have := hplain c (Or.inr ⟨s, hs, h⟩)
      exact ⟨fun e => hn (e ▸ hE.lbr), fun e => hn (e ▸ hE.bang), this.1, this.2⟩
    · have := phChar_facts h
      exact ⟨this.1, this.2.1, this.2.2.1, this.2.2.2.2.2.2.2⟩
  rw [show 1 + 1 = 2 from rfl, hiLoop_mid cfg hi D1 _ hmid _ 11 2 rfl (by omega)]
  -- pattern 13
  rw [hiLoop_step _ _ _ 13 0 _ (by omega) _ _ _ _
    (applyPattern_13 cfg hi D1 _ (by rw [← hD1]; exact nsFind_stage1 hE.star hE.under t0 n0 m1 segs hok))]
  simp only [Bool.false_eq_true, if_false]
  -- pattern 14
  have hs0 : '*' ∉ resid cfg.esc n0 t0 := fun h => (resid_no_delim hE.star hE.under t0 n0 _ h).1 rfl
  rw [show 13 + 1 = 14 from rfl, ← hD1, ← hhi, star_pass cfg (raw.length + 18) hE.star hE.under segs _ _ _ _ hs0 hok]
  rw [hhi]
  simp only [List.length_append]
  have hlen1 := stashOfEm_length cfg.esc segs
  rw [hlen0, hlen1, hn0, hm1]
  generalize hns : m1 + escCountEm cfg.esc segs = ns
  have hstar2 : '*' ∉ resid cfg.esc n0 t0 ++ stage2 cfg.esc m1 ns segs := by
    intro h
    rcases List.mem_append.1 h with h | h
    · exact hs0 h
    · rcases mem_stage2 segs _ _ h with ⟨s, hs, hne, h⟩ | ⟨s, hs, _, h⟩ | h
      · obtain ⟨hd, hw, _⟩ := hok s hs
        rcases h with h | h
        · exact hne h.symm
        · exact (wordCh_facts (hw.2 _ h)).1 rfl
      · exact h hE.star
      · exact (phChar_facts h).2.2.2.1 rfl
  rw [hiLoop_step _ _ _ 14 0 _ (by omega) _ _ _ _
    (applyPattern_em_none cfg hi 14 (Or.inl rfl) _ _ (by simpa using hstar2))]
  simp only [Bool.false_eq_true, if_false]
  -- pattern 15
  have hu0 : '_' ∉ resid cfg.esc n0 t0 := fun h => (resid_no_delim hE.star hE.under t0 n0 _ h).2 rfl
  have hpw : isW (lastOr none (resid cfg.esc n0 t0)) = lastW cfg.esc t0 := by
    rw [isW_lastOr_resid]
    by_cases ht : t0 = []
    · subst ht; rfl
    · simp [ht]
  rw [show 14 + 1 = 15 from rfl, ← hhi,
    under_pass cfg (raw.length + 18) hE.star hE.under segs _ _ _ _ _ hu0 hok (by rw [hpw]; exact hu)]
  rw [hhi]
  simp only [List.length_append, hlen0, hlen1, hn0, hm1, hns]
  have hund3 : ∀ nu, '_' ∉ resid cfg.esc n0 t0 ++ stage3 cfg.esc m1 ns nu segs := by
    intro nu h
    rcases List.mem_append.1 h with h | h
    · exact hu0 h
    · rcases mem_stage3 segs _ _ _ h with ⟨s, hs, _, h⟩ | h
      · exact h hE.under
      · exact (phChar_facts h).2.2.2.2.1 rfl
  rw [hiLoop_step _ _ _ 15 0 _ (by omega) _ _ _ _
    (applyPattern_em_none cfg hi 15 (Or.inr rfl) _ _ (by simpa using hund3 _))]
  simp only [Bool.false_eq_true, if_false]
  simp only [hiLoop, patternCount, show ¬ (15 + 1 < 16) by omega, if_false]
  simp [List.append_assoc]

/-! ### 18. `__processPlaceholders` on the residue of a line with emphasis -/

theorem pp_plainText (stash : List StashItem) (f : Nat) (t : Str) (parent : Node) (ht : STX ∉ t) (hne : t ≠ [])
    (hp : parent.text = none) :
    processPlaceholders stash (f + 1) t false parent true =
      some ([], { parent with text := some t, textAtomic := false }) := by
  obtain ⟨c, r, rfl⟩ : ∃ c r, t = c :: r := by cases t <;> simp_all
  unfold processPlaceholders
  simp only [List.isEmpty_cons, Bool.false_eq_true, if_false, List.length_cons]
  rw [show r.length + 1 + 2 = (r.length + 2) + 1 from rfl]
  unfold ppLoop
  simp only [List.drop_zero, find_phPrefix_none _ ht]
  cases parent
  simp_all [linkText, Node.truthy]

theorem procNode_emEl (stash : List StashItem) (f' : Nat) (hf : 0 < f') (strong : Bool) (w : Str) (hw : STX ∉ w) :
    procNode (fun d a p i => processPlaceholders stash f' d a p i) (emEl strong w) = some (emEl strong w) := by
  obtain ⟨f, rfl⟩ : ∃ f, f' = f + 1 := ⟨f' - 1, by omega⟩
  unfold procNode
  have h1 : petTail (fun d a p i => processPlaceholders stash (f + 1) d a p i)
      { emEl strong w with children := [] } = some (emEl strong w, []) := by
    simp [petTail, emEl, mkEl, Node.truthy]
  simp only [h1]
  have h2 : petText (fun d a p i => processPlaceholders stash (f + 1) d a p i) (emEl strong w) =
      some (emEl strong w) := by
    unfold petText
    by_cases hc : (Node.truthy (emEl strong w).text && !blankOpt (emEl strong w).text) = true
    · have hne : w ≠ [] := by
        intro e; subst e; simp [emEl, Node.truthy] at hc
      simp only [hc, if_true]
      have : (emEl strong w).text.getD [] = w := rfl
      rw [this, show (emEl strong w).textAtomic = false from rfl, pp_plainText stash f w _ hw hne rfl]
      rfl
    · simp only [hc, Bool.false_eq_true, if_false]
  simp only [h2]
  simp [procKids, emEl, mkEl]

/-- the stash entries of the emphases are where the placeholders say -/
def EmStash (S : List StashItem) : Nat → Nat → List EmSeg → Prop
  | _, _, [] => True
  | ns, nu, s :: r => S[if s.d = '*' then ns else nu]? = some (.node (emEl s.strong s.w)) ∧
      EmStash S (if s.d = '*' then ns + 1 else ns) (if s.d = '*' then nu else nu + 1) r

/-- the state of the loop after the emphases: each becomes a node, the text after it its tail -/
def foldEm (esc : List Char) : List EmSeg → List Node × Node → List Node × Node
  | [], rp => rp
  | s :: r, rp => foldEm esc r (lt (coded esc s.t) (emEl s.strong s.w :: rp.1, rp.2))

def costEm (esc : List Char) : Str → List EmSeg → Nat
  | t, [] => escCount esc t + 1
  | t, s :: r => escCount esc t + 1 + costEm esc s.t r

theorem ppLoop_em (esc : List Char) (S : List StashItem) (nested : Node → Option Node)
    (hnested : ∀ (b : Bool) (x : Str), STX ∉ x → nested (emEl b x) = some (emEl b x)) (segs : List EmSeg) :
    ∀ (P t : Str) (m ns nu : Nat) (rp : List Node × Node) (g : Nat) (rest : List StashItem), STX ∉ t →
      (∀ s ∈ segs, STX ∉ s.t ∧ STX ∉ s.w) →
      S.drop m = stashOf esc t ++ stashOfEm esc segs ++ rest → EmStash S ns nu segs →
      ppLoop S nested (P ++ resid esc m t ++ stage3 esc (m + escCount esc t) ns nu segs) false true
        (g + costEm esc t segs) P.length rp.1 rp.2 =
        some ((foldEm esc segs (lt (coded esc t) rp)).1.reverse, (foldEm esc segs (lt (coded esc t) rp)).2) := by
  induction segs with
  | nil =>
    intro P t m ns nu rp g rest ht _ hS _
    have := ppLoop_seg esc S nested [] (g + 1) _ (nextOK_end S nested g) t P [] m rp (stashOfEm esc [] ++ rest)
      (by simp) ht (by simpa [List.append_assoc] using hS)
    simp only [List.append_nil, List.nil_append] at this
    simp only [stage3, List.append_nil, costEm, foldEm]
    rw [show g + (escCount esc t + 1) = g + 1 + escCount esc t by omega, this]
  | cons s r ih =>
    intro P t m ns nu rp g rest ht hsegs hS hst
    obtain ⟨hs1, hs2⟩ := hsegs s List.mem_cons_self
    have hK := nextOK_node S nested (g + costEm esc s.t r) (if s.d = '*' then ns else nu)
      (resid esc (m + escCount esc t) s.t ++ stage3 esc (m + escCount esc t + escCount esc s.t)
        (if s.d = '*' then ns + 1 else ns) (if s.d = '*' then nu else nu + 1) r)
      (emEl s.strong s.w) hst.1 (hnested _ _ hs2)
    have := ppLoop_seg esc S nested _ _ _ hK t P [] m rp (stashOfEm esc (s :: r) ++ rest)
      (by simp) ht (by simpa [List.append_assoc] using hS)
    simp only [List.append_nil, List.nil_append] at this
    simp only [stage3, costEm, foldEm]
    rw [show g + (escCount esc t + 1 + costEm esc s.t r) = g + costEm esc s.t r + 1 + escCount esc t by omega,
      this]
    have hS' : S.drop (m + escCount esc t) = stashOf esc s.t ++ stashOfEm esc r ++ rest := by
      have : S.drop (m + escCount esc t) = (S.drop m).drop (escCount esc t) := by rw [List.drop_drop]
      rw [this, hS]
      simp [escCount, stashOfEm, List.append_assoc]
    have := ih (P ++ resid esc m t ++ placeholder (if s.d = '*' then ns else nu)) s.t (m + escCount esc t)
      (if s.d = '*' then ns + 1 else ns) (if s.d = '*' then nu else nu + 1)
      (emEl s.strong s.w :: (lt (coded esc t) rp).1, (lt (coded esc t) rp).2) g rest hs1
      (fun x hx => hsegs x (List.mem_cons_of_mem _ hx)) hS' hst.2
    simp only [List.append_assoc] at this ⊢
    exact this

/-- an emphasis element with the text that follows it as its tail -/
def tailedEm (esc : List Char) (s : EmSeg) : Node :=
  { emEl s.strong s.w with tail := optStr (coded esc s.t) }

theorem lt_emEl (x : Str) (b : Bool) (w : Str) (res : List Node) (par : Node) :
    lt x (emEl b w :: res, par) = ({ emEl b w with tail := optStr x } :: res, par) := by
  cases x with
  | nil => simp [lt, linkText, optStr, emEl, mkEl]
  | cons c r => simp [lt, linkText, optStr, emEl, mkEl, Node.truthy]

theorem foldEm_closed (esc : List Char) (segs : List EmSeg) :
    ∀ (res : List Node) (par : Node), foldEm esc segs (res, par) = ((segs.map (tailedEm esc)).reverse ++ res, par) := by
  induction segs with
  | nil => intro res par; rfl
  | cons s r ih =>
    intro res par
    simp only [foldEm, lt_emEl, ih, List.map_cons, List.reverse_cons, List.append_assoc, List.singleton_append,
      tailedEm]

theorem costEm_le (esc : List Char) (segs : List EmSeg) :
    ∀ (t : Str) (m ns nu : Nat),
      costEm esc t segs ≤ (resid esc m t ++ stage3 esc (m + escCount esc t) ns nu segs).length + 1 := by
  induction segs with
  | nil =>
    intro t m ns nu
    have := escCount_le_resid esc t m
    simp only [costEm, stage3, List.append_nil]; omega
  | cons s r ih =>
    intro t m ns nu
    have h1 := escCount_le_resid esc t m
    have h2 := ih s.t (m + escCount esc t) (if s.d = '*' then ns + 1 else ns) (if s.d = '*' then nu else nu + 1)
    have h3 := placeholder_length_pos (if s.d = '*' then ns else nu)
    simp only [costEm, stage3, List.length_append] at h2 ⊢
    omega

/-- the stash after the pattern loop has the emphasis elements where `stage3` points -/
theorem emStash_nodes (segs : List EmSeg) :
    ∀ (B C : List StashItem), EmStash (B ++ starNodes segs ++ C ++ underNodes segs)
      B.length (B.length + (starNodes segs).length + C.length) segs := by
  induction segs with
  | nil => intro B C; trivial
  | cons s r ih =>
    intro B C
    by_cases hs : s.d = '*'
    · simp only [EmStash, starNodes, underNodes, hs, if_true]
      refine ⟨by simp, ?_⟩
      have := ih (B ++ [.node (emEl s.strong s.w)]) C
      simp only [List.length_append, List.length_cons, List.length_nil, List.append_assoc, 
        List.cons_append, List.nil_append] at this ⊢
      rw [show B.length + ((starNodes r).length + 1) + C.length = B.length + (0 + 1) + (starNodes r).length + C.length
        by omega]
      exact this
    · simp only [EmStash, starNodes, underNodes, hs, if_false]
      refine ⟨?_, ?_⟩
      · have : B.length + (starNodes r).length + C.length = (B ++ starNodes r ++ C).length := by
          simp [Nat.add_assoc]
        rw [this, List.getElem?_append_right (Nat.le_refl _)]
        simp
      · have := ih B (C ++ [.node (emEl s.strong s.w)])
        simp only [List.length_append, List.length_cons, List.length_nil, List.append_assoc, 
          List.cons_append, List.nil_append] at this ⊢
        rw [show B.length + (starNodes r).length + C.length + 1 = B.length + (starNodes r).length + (C.length + (0 + 1))
          by omega]
        exact this

/-- **`__processPlaceholders`** on the residue of a line of escaped text and emphasised words -/
theorem ppTop_em (esc : List Char) (S0 : List StashItem) (html : List Str)
    (t0 : Str) (segs : List EmSeg) (parent : Node) (hp1 : parent.text = none) (hp2 : parent.textAtomic = false)
    (ht0 : STX ∉ t0) (hsegs : ∀ s ∈ segs, STX ∉ s.t ∧ STX ∉ s.w) (hne : t0 ≠ [] ∨ segs ≠ []) :
    ppTop { stash := S0 ++ (stashOf esc t0 ++ stashOfEm esc segs ++ starNodes segs ++ underNodes segs), html := html }
        (resid esc S0.length t0 ++ stage3 esc (S0.length + escCount esc t0)
          (S0.length + escCount esc t0 + escCountEm esc segs)
          (S0.length + escCount esc t0 + escCountEm esc segs + (starNodes segs).length) segs) false parent true =
      some (segs.map (tailedEm esc), { parent with text := optStr (coded esc t0) }) := by
  generalize hS : S0 ++ (stashOf esc t0 ++ stashOfEm esc segs ++ starNodes segs ++ underNodes segs) = S
  have hdrop : S.drop S0.length = stashOf esc t0 ++ stashOfEm esc segs ++ (starNodes segs ++ underNodes segs) := by
    rw [← hS, List.drop_left]; simp [List.append_assoc]
  have hst : EmStash S (S0.length + escCount esc t0 + escCountEm esc segs)
      (S0.length + escCount esc t0 + escCountEm esc segs + (starNodes segs).length) segs := by
    have := emStash_nodes segs (S0 ++ stashOf esc t0 ++ stashOfEm esc segs) []
    simp only [List.length_append, List.length_nil, Nat.add_zero, List.append_nil, stashOfEm_length] at this
    rw [← hS]
    simpa [List.append_assoc, escCount] using this
  generalize hRR : resid esc S0.length t0 ++ stage3 esc (S0.length + escCount esc t0)
          (S0.length + escCount esc t0 + escCountEm esc segs)
          (S0.length + escCount esc t0 + escCountEm esc segs + (starNodes segs).length) segs = R
  have hRne : R.isEmpty = false := by
    rw [← hRR]
    rcases hne with h | h
    · cases t0 with
      | nil => exact absurd rfl h
      | cons c r =>
        have := placeholder_length_pos S0.length
        by_cases hc : c ∈ esc
        · simp only [resid, List.contains_eq_mem, hc, decide_true, if_true]
          cases hx : placeholder S0.length with
          | nil => rw [hx] at this; simp at this
          | cons a b => simp
        · simp [resid, hc]
    · cases segs with
      | nil => exact absurd rfl h
      | cons s r =>
        simp only [stage3]
        generalize (if s.d = '*' then _ else _ : Nat) = k
        have := placeholder_length_pos k
        cases hx : placeholder k with
        | nil => rw [hx] at this; simp at this
        | cons a b => cases resid esc S0.length t0 <;> simp
  simp only [ppTop]
  rw [show S.length + 2 = (S.length + 1) + 1 from rfl]
  unfold processPlaceholders
  simp only [hRne, Bool.false_eq_true, if_false]
  have hcost := costEm_le esc segs t0 S0.length (S0.length + escCount esc t0 + escCountEm esc segs)
    (S0.length + escCount esc t0 + escCountEm esc segs + (starNodes segs).length)
  rw [hRR] at hcost
  obtain ⟨g, hg⟩ : ∃ g, R.length + 2 = g + costEm esc t0 segs := ⟨R.length + 2 - costEm esc t0 segs, by omega⟩
  rw [hg]
  have := ppLoop_em esc S
    (procNode fun d a p t_1 => processPlaceholders S (S.length + 1) d a p t_1)
    (fun b x hx => procNode_emEl S (S.length + 1) (by omega) b x hx)
    segs [] t0 S0.length _ _ ([], parent) g _ ht0 hsegs hdrop hst
  simp only [List.nil_append, List.length_nil] at this
  rw [hRR] at this
  rw [this]
  have hlt : lt (coded esc t0) ([], parent) = ([], { parent with text := optStr (coded esc t0) }) := by
    simp only [lt]; exact CodeLaw.linkText_text _ parent hp1 hp2
  rw [hlt, foldEm_closed]
  simp

/-! ### 19. a text element with emphasis through the inline processor, prettify, unescape and the serializer -/

/-- a `p`/`h1`–`h6` element whose text is escaped text and emphasised words -/
def emTxtSrc (esc : List Char) (tag : Str) (t0 : Str) (segs : List EmSeg) : Node :=
  { tag := .name tag, text := some (escAll esc t0 ++ rawEm esc segs) }

/-- the same after the inline processor -/
def emTxtMid (esc : List Char) (tag : Str) (t0 : Str) (segs : List EmSeg) : Node :=
  { tag := .name tag, text := optStr (coded esc t0), children := segs.map (tailedEm esc) }

theorem rawEm_ne_nil (esc : List Char) (segs : List EmSeg) (hne : segs ≠ []) : rawEm esc segs ≠ [] := by
  cases segs with
  | nil => exact absurd rfl hne
  | cons s r =>
    obtain ⟨q, hq⟩ := delim_cons s
    simp [rawEm, emSrc, hq]

theorem visitChild_emTxt (cfg : Inline.Cfg) (hE : EscOK cfg.esc) (tag t0 : Str) (segs : List EmSeg)
    (hok : EmOK segs) (hu : UnderOK cfg.esc (lastW cfg.esc t0) segs)
    (hplain : ∀ c, (c ∈ t0 ∨ ∃ s ∈ segs, c ∈ s.t) → c ≠ '&' ∧ c ≠ '\n' ∧ c ≠ STX)
    (hne : t0 ≠ [] ∨ segs ≠ []) (v : Visit) :
    visitChild cfg (emTxtSrc cfg.esc tag t0 segs) v =
      some (emTxtMid cfg.esc tag t0 segs, [],
        { v with pushes := ((List.range segs.length).map (fun k => [v.done.length, k])).reverse ++ v.pushes,
                 st := { v.st with stash := v.st.stash ++ (stashOf cfg.esc t0 ++ stashOfEm cfg.esc segs ++
                   starNodes segs ++ underNodes segs) } }) := by
  have hraw : escAll cfg.esc t0 ++ rawEm cfg.esc segs ≠ [] := by
    rcases hne with h | h
    · have := escAll_ne_nil (esc := cfg.esc) h
      cases hx : escAll cfg.esc t0 with
      | nil => exact absurd hx this
      | cons a b => simp
    · intro e
      exact rawEm_ne_nil cfg.esc segs h (List.append_eq_nil_iff.1 e).2
  have h1 := handleInlineTop_em cfg hE t0 segs v.st hok hu (fun c hc => ⟨(hplain c hc).1, (hplain c hc).2.1⟩)
  have h2 := ppTop_em cfg.esc v.st.stash v.st.html t0 segs
    { tag := .name tag } rfl rfl (fun h => (hplain _ (Or.inl h)).2.2 rfl)
    (fun s hs => ⟨fun h => (hplain _ (Or.inr ⟨s, hs, h⟩)).2.2 rfl,
      fun h => (wordCh_facts ((hok s hs).2.1.2 _ h)).2.2.2.2.2.2.2.2 rfl⟩) hne
  simp only [emTxtSrc, visitChild, truthy_some hraw, Bool.not_false, Bool.and_self, if_true, Option.getD_some, h1]
  rw [h2]
  simp [emTxtMid, Node.truthy]

theorem bl_em (b : Bool) : TreeProc.isBlockLevel TreeProc.defaultBlockLevel (emEl b []).tag = false := by
  cases b <;> decide

theorem tailedEm_tag (esc : List Char) (s : EmSeg) : (tailedEm esc s).tag = (emEl s.strong []).tag := rfl

theorem prettifyKids_tailedEm (esc : List Char) (segs : List EmSeg) :
    TreeProc.prettifyKids TreeProc.defaultBlockLevel (segs.map (tailedEm esc)) = segs.map (tailedEm esc) := by
  induction segs with
  | nil => rfl
  | cons s r ih =>
    have : TreeProc.isBlockLevel TreeProc.defaultBlockLevel (tailedEm esc s).tag = false := by
      rw [tailedEm_tag]; exact bl_em _
    simp only [List.map_cons, TreeProc.prettifyKids, this, Bool.false_eq_true, if_false, ih]

theorem mapKids_tailedEm (esc : List Char) (segs : List EmSeg) :
    TreeProc.mapKids TreeProc.preRule (TreeProc.mapKids TreeProc.brRule (segs.map (tailedEm esc))) =
      segs.map (tailedEm esc) := by
  induction segs with
  | nil => rfl
  | cons s r ih =>
    simp only [List.map_cons, TreeProc.mapKids, ih]
    congr 1
    cases hs : s.strong <;> simp [tailedEm, emEl, mkEl, hs, TreeProc.mapTree, TreeProc.brRule, TreeProc.preRule,
      TreeProc.tagIs, TreeProc.mapKids] <;> decide

/-- after prettify -/
def emTxtPretty (esc : List Char) (tag : Str) (t0 : Str) (segs : List EmSeg) : Node :=
  { tag := .name tag, text := optStr (coded esc t0), children := segs.map (tailedEm esc), tail := some ['\n'] }

theorem pretty_emTxt (esc : List Char) (tag : Str) (htag : textTags.contains tag = true) (t0 : Str)
    (segs : List EmSeg) :
    TreeProc.mapTree TreeProc.preRule (TreeProc.mapTree TreeProc.brRule
      (TreeProc.prettifyETree TreeProc.defaultBlockLevel (emTxtMid esc tag t0 segs))) =
      emTxtPretty esc tag t0 segs := by
  have hf := tagFacts tag (List.mem_cons_of_mem _ (List.contains_iff_mem.1 htag))
  have hbr : (Tag.name tag == Tag.name "br".toList) = false := by simpa using hf.2.2.2.1
  have hpre : (Tag.name tag == Tag.name "pre".toList) = false := by simpa using hf.2.2.1
  have hcode : (Tag.name tag == Tag.name "code".toList) = false := by simpa using hf.2.1
  have h1 : TreeProc.prettifyETree TreeProc.defaultBlockLevel (emTxtMid esc tag t0 segs) =
      emTxtPretty esc tag t0 segs := by
    cases segs with
    | nil => simp [emTxtMid, emTxtPretty, TreeProc.prettifyETree, TreeProc.prettifyKids, TreeProc.blankOrNone,
        Node.truthy]
    | cons s r =>
      have hk := prettifyKids_tailedEm esc (s :: r)
      simp only [List.map_cons] at hk
      have hb : TreeProc.isBlockLevel TreeProc.defaultBlockLevel (tailedEm esc s).tag = false := by
        rw [tailedEm_tag]; exact bl_em _
      simp only [emTxtMid, emTxtPretty, TreeProc.prettifyETree, List.map_cons, hb, hk, Bool.and_false,
        Bool.false_eq_true, if_false, hf.1, hcode, hpre, Bool.not_false, Bool.and_self, if_true,
        TreeProc.blankOrNone, Node.truthy, Bool.true_or]
  rw [h1]
  simp only [emTxtPretty, TreeProc.mapTree, TreeProc.brRule, TreeProc.preRule, TreeProc.tagIs, hbr, hpre,
    Bool.false_eq_true, if_false, mapKids_tailedEm]


/-- an emphasis element with the plain text that follows it (after unescape) as its tail -/
def tailedEmFin (s : EmSeg) : Node := { emEl s.strong s.w with tail := optStr s.t }

/-- after unescape -/
def emTxtFin (tag : Str) (t0 : Str) (segs : List EmSeg) : Node :=
  { tag := .name tag, text := optStr t0, children := segs.map tailedEmFin, tail := some ['\n'] }

theorem em_not_code (b : Bool) : ((emEl b []).tag == Tag.name "code".toList) = false := by cases b <;> decide

theorem unescapeTree_tailedEm (esc : List Char) (s : EmSeg) (hs : Inline.STX ∉ s.t) (hw : Inline.STX ∉ s.w)
    (hne : s.w ≠ []) : TreeProc.unescapeTree (tailedEm esc s) = some (tailedEmFin s) := by
  have h := unescOpt_coded esc s.t hs
  have hcode : ((tailedEm esc s).tag == Tag.name "code".toList) = false := em_not_code s.strong
  have htr : Node.truthy (some s.w) = true := by
    cases hx : s.w with
    | nil => exact absurd hx hne
    | cons a b => rfl
  have hu : TreeProc.unescapeText 0 s.w = some s.w := CodeLaw.unescapeText_id s.w hw
  have hc1 : (Tag.name "em".toList == Tag.name "code".toList) = false := by decide
  have hc2 : (Tag.name "strong".toList == Tag.name "code".toList) = false := by decide
  have t0 : Node.truthy none = false := rfl
  cases hs : s.strong <;>
    simp only [tailedEm, tailedEmFin, emEl, mkEl, hs, Bool.false_eq_true, if_false, if_true, TreeProc.unescapeTree,
      hc1, hc2, Bool.not_false, Bool.and_true, htr, Option.getD_some, hu, Option.map_some, h, TreeProc.unescAttrs,
      TreeProc.unescapeKids] <;> simp

theorem unescapeKids_tailedEm (esc : List Char) (segs : List EmSeg)
    (hs : ∀ s ∈ segs, Inline.STX ∉ s.t ∧ Inline.STX ∉ s.w ∧ s.w ≠ []) :
    TreeProc.unescapeKids (segs.map (tailedEm esc)) = some (segs.map tailedEmFin) := by
  induction segs with
  | nil => rfl
  | cons s r ih =>
    obtain ⟨h1, h2, h3⟩ := hs s List.mem_cons_self
    simp only [List.map_cons, TreeProc.unescapeKids, unescapeTree_tailedEm esc s h1 h2 h3,
      ih (fun x hx => hs x (List.mem_cons_of_mem _ hx))]

theorem unesc_emTxt (esc : List Char) (tag : Str) (htag : textTags.contains tag = true) (t0 : Str)
    (segs : List EmSeg) (h0 : Inline.STX ∉ t0) (hs : ∀ s ∈ segs, Inline.STX ∉ s.t ∧ Inline.STX ∉ s.w ∧ s.w ≠ []) :
    TreeProc.unescapeTree (emTxtPretty esc tag t0 segs) = some (emTxtFin tag t0 segs) := by
  have hf := tagFacts tag (List.mem_cons_of_mem _ (List.contains_iff_mem.1 htag))
  have hcode : (Tag.name tag == Tag.name "code".toList) = false := by simpa using hf.2.1
  have hnl : TreeProc.unescapeText 0 ['\n'] = some ['\n'] := by decide
  have h := unescOpt_coded esc t0 h0
  have t1 : Node.truthy (some ['\n']) = true := rfl
  simp only [emTxtPretty, emTxtFin, TreeProc.unescapeTree, hcode, Bool.not_false, Bool.and_true, h,
    unescapeKids_tailedEm esc segs hs, TreeProc.unescAttrs, t1, if_true, Option.getD_some, hnl, Option.map_some]
  by_cases ht : Node.truthy (optStr (coded esc t0)) = true <;> simp [ht]

def emTagS (b : Bool) : Str := if b then "strong".toList else "em".toList

/-- serialised emphases: `<em>…</em>` / `<strong>…</strong>` and the text after it -/
def outEm : List EmSeg → Str
  | [] => []
  | s :: r => '<' :: emTagS s.strong ++ ['>'] ++ Ser.escCdata s.w ++ ('<' :: '/' :: emTagS s.strong ++ ['>']) ++
      Ser.escCdata s.t ++ outEm r

theorem outEm_cons (s : EmSeg) (r : List EmSeg) :
    outEm (s :: r) = '<' :: emTagS s.strong ++ ['>'] ++ Ser.escCdata s.w ++ ('<' :: '/' :: emTagS s.strong ++ ['>']) ++
      Ser.escCdata s.t ++ outEm r := rfl

def emTxtOut (tag : Str) (t0 : Str) (segs : List EmSeg) : Str :=
  '<' :: tag ++ ['>'] ++ Ser.escCdata t0 ++ outEm segs ++ ('<' :: '/' :: tag ++ ['>'])

theorem serialize_tailedEmFin (s : EmSeg) (hne : s.w ≠ []) :
    Ser.serialize .xhtml (tailedEmFin s) =
      '<' :: emTagS s.strong ++ ['>'] ++ Ser.escCdata s.w ++ ('<' :: '/' :: emTagS s.strong ++ ['>']) ++
        Ser.escCdata s.t := by
  have e : tailedEmFin s = ⟨.name (emTagS s.strong), [], some s.w, false, [], optStr s.t, false⟩ := by
    cases hs : s.strong <;> simp [tailedEmFin, emEl, mkEl, emTagS, hs]
  have h1 : Ser.isEmptyTag (emTagS s.strong) = false := by cases s.strong <;> decide
  have h2 : Ser.isRawTextTag (emTagS s.strong) = false := by cases s.strong <;> decide
  have htr : Node.truthy (some s.w) = true := by
    cases hx : s.w with
    | nil => exact absurd hx hne
    | cons a b => rfl
  rw [e, serialize_plain _ _ _ _ _ _ _ h1 h2]
  simp only [Ser.serializeList, optEsc, htr, if_true, Option.getD_some]
  simp [List.append_assoc]

theorem serializeList_tailedEm (segs : List EmSeg) (hne : ∀ s ∈ segs, s.w ≠ []) :
    Ser.serializeList .xhtml (segs.map tailedEmFin) = outEm segs := by
  induction segs with
  | nil => rfl
  | cons s r ih =>
    rw [List.map_cons, serializeList_cons, ih (fun x hx => hne x (List.mem_cons_of_mem _ hx)),
      serialize_tailedEmFin s (hne s List.mem_cons_self), outEm_cons]

theorem ser_emTxt (tag : Str) (htag : textTags.contains tag = true) (t0 : Str) (segs : List EmSeg)
    (hne : ∀ s ∈ segs, s.w ≠ []) :
    Ser.serialize .xhtml (emTxtFin tag t0 segs) = emTxtOut tag t0 segs ++ ['\n'] := by
  have hf := tagFacts tag (List.mem_cons_of_mem _ (List.contains_iff_mem.1 htag))
  have hnot : tag ≠ "hr".toList := by
    intro e
    have : textTags.contains "hr".toList = false := by decide
    rw [← e, htag] at this; cases this
  have he : Ser.isEmptyTag tag = false := by rw [hf.2.2.2.2.2.1]; simpa using hnot
  have e7 : Ser.escCdata ['\n'] = ['\n'] := by decide
  have t1 : Node.truthy (some ['\n']) = true := rfl
  simp only [emTxtFin]
  rw [serialize_plain _ _ _ _ _ _ _ he hf.2.2.2.2.1]
  simp only [serializeList_tailedEm segs hne, optEsc, t1, if_true, Option.getD_some, e7, emTxtOut]
  simp [List.append_assoc]

theorem stx_not_mem_outEm (segs : List EmSeg)
    (h : ∀ s ∈ segs, Post.STX ∉ s.t ∧ Post.STX ∉ s.w) : Post.STX ∉ outEm segs := by
  induction segs with
  | nil => intro hm; cases hm
  | cons s r ih =>
    obtain ⟨h1, h2⟩ := h s List.mem_cons_self
    intro hm
    rw [outEm_cons] at hm
    have htag : Post.STX ∉ emTagS s.strong := by cases s.strong <;> decide
    have d1 : Post.STX ≠ '<' := by decide
    have d2 : Post.STX ≠ '>' := by decide
    have d3 : Post.STX ≠ '/' := by decide
    have hw := stx_not_mem_escCdata _ h2
    have ht := stx_not_mem_escCdata _ h1
    have hr := ih (fun x hx => h x (List.mem_cons_of_mem _ hx))
    simp only [List.mem_append, List.mem_cons, List.not_mem_nil, or_false] at hm
    rcases hm with ((((h' | h' | h') | h') | (h' | h' | h' | h')) | h') | h' <;> simp_all


/-- a `p`/`h1`–`h6` element of escaped text and emphasised words, through the stages -/
def emTxtElem (esc : List Char) (tag t0 : Str) (segs : List EmSeg) : Elem :=
  ⟨emTxtSrc esc tag t0 segs, emTxtMid esc tag t0 segs,
   fun _ => stashOf esc t0 ++ stashOfEm esc segs ++ starNodes segs ++ underNodes segs,
   fun i => ((List.range segs.length).map (fun k => [i, k])).reverse,
   emTxtPretty esc tag t0 segs, emTxtFin tag t0 segs, emTxtOut tag t0 segs⟩

/-- what the stages need of such a line -/
structure EmTxtOK (esc : List Char) (tag t0 : Str) (segs : List EmSeg) : Prop where
  htag : textTags.contains tag = true
  hsegs : EmOK segs
  under : UnderOK esc (lastW esc t0) segs
  plain : ∀ c, (c ∈ t0 ∨ ∃ s ∈ segs, c ∈ s.t) → c ≠ '&' ∧ c ≠ '\n' ∧ c ≠ Inline.STX
  ne : t0 ≠ [] ∨ segs ≠ []

theorem EmTxtOK.words {esc : List Char} {tag t0 : Str} {segs : List EmSeg} (h : EmTxtOK esc tag t0 segs) :
    ∀ s ∈ segs, Inline.STX ∉ s.t ∧ Inline.STX ∉ s.w ∧ s.w ≠ [] :=
  fun s hs => ⟨fun hm => (h.plain _ (Or.inr ⟨s, hs, hm⟩)).2.2 rfl,
    fun hm => (wordCh_facts ((h.hsegs s hs).2.1.2 _ hm)).2.2.2.2.2.2.2.2 rfl, (h.hsegs s hs).2.1.1⟩

theorem emTxtElem_ok (cfg : Inline.Cfg) (hE : EscOK cfg.esc) (tag t0 : Str) (segs : List EmSeg)
    (h : EmTxtOK cfg.esc tag t0 segs) : ElemOK cfg (emTxtElem cfg.esc tag t0 segs) where
  visit := fun v => visitChild_emTxt cfg hE tag t0 segs h.hsegs h.under h.plain h.ne v
  pushBound := fun i => by
    have h1 := rawEm_length cfg.esc segs
    simp only [emTxtElem, List.length_reverse, List.length_map, List.length_range, emTxtSrc, Inline.size,
      Option.getD_some, List.length_append, Inline.sizeList]
    omega
  weight := fun i => by
    have h1 := rawEm_length cfg.esc segs
    have hw := weight_childless (emTxtMid cfg.esc tag t0 segs) segs.length i (by simp [emTxtMid])
      (fun c hc => by
        simp only [emTxtMid, List.mem_map] at hc
        obtain ⟨s, _, rfl⟩ := hc; rfl)
    show mStack (emTxtMid cfg.esc tag t0 segs) _ ≤ _
    simp only [emTxtElem]
    rw [hw]
    simp only [emTxtSrc, Inline.size, Option.getD_some, List.length_append, Inline.sizeList]
    omega
  pushOk := fun i q hq => by
    simp only [emTxtElem, List.mem_reverse, List.mem_map, List.mem_range] at hq
    obtain ⟨k, hk, rfl⟩ := hq
    obtain ⟨s, hs⟩ : ∃ s, segs[k]? = some s := by
      cases hx : segs[k]? with
      | none => rw [List.getElem?_eq_none_iff] at hx; omega
      | some s => exact ⟨s, rfl⟩
    refine ⟨[k], tailedEm cfg.esc s, rfl, ?_,
      stillBelow_of_childless cfg _ _ (by simp [tailedEm, emEl, mkEl]) ?_⟩
    · simp [emTxtElem, emTxtMid, getAt, hs]
    · intro c hc; simp [tailedEm, emEl, mkEl] at hc
  block := (tagFacts tag (List.mem_cons_of_mem _ (List.contains_iff_mem.1 h.htag))).1
  pretty := pretty_emTxt cfg.esc tag h.htag t0 segs
  unesc := unesc_emTxt cfg.esc tag h.htag t0 segs (fun hm => (h.plain _ (Or.inl hm)).2.2 rfl) h.words
  ser := ser_emTxt tag h.htag t0 segs (fun s hs => (h.words s hs).2.2)
  outOk := by
    have hf := tagFacts tag (List.mem_cons_of_mem _ (List.contains_iff_mem.1 h.htag))
    refine ⟨?_, rfl, ?_⟩
    · intro hm
      simp only [emTxtElem, emTxtOut, List.mem_append, List.mem_cons] at hm
      have d1 : Post.STX ≠ '<' := by decide
      have d2 : Post.STX ≠ '>' := by decide
      have d3 : Post.STX ≠ '/' := by decide
      have h7 := hf.2.2.2.2.2.2
      have hE0 : Post.STX ∉ Ser.escCdata t0 :=
        stx_not_mem_escCdata _ (fun hm' => (h.plain _ (Or.inl hm')).2.2 rfl)
      have hEs : Post.STX ∉ outEm segs := stx_not_mem_outEm segs
        (fun s hs => ⟨(h.words s hs).1, (h.words s hs).2.1⟩)
      rcases hm with (((h' | h' | h') | h') | h') | (h' | h' | h' | h') <;> simp_all
    · have e : (emTxtElem cfg.esc tag t0 segs).out =
          ('<' :: tag ++ ['>'] ++ Ser.escCdata t0 ++ outEm segs ++ ('<' :: '/' :: tag)) ++ ['>'] := by
        simp [emTxtElem, emTxtOut]
      rw [e, List.getLast?_append]; rfl

/-! ### 20. the printed form of content with emphasised words -/

/-- the plain text before the first emphasis, and for each emphasis its kind, its words and the plain text after it -/
def splitEm : List DocSpec.Inline → Str × List (Bool × Str × Str)
  | [] => ([], [])
  | .text w :: r => (w ++ (splitEm r).1, (splitEm r).2)
  | .esc c :: r => (c :: (splitEm r).1, (splitEm r).2)
  | .em [.text w] :: r => ([], (false, w, (splitEm r).1) :: (splitEm r).2)
  | .strong [.text w] :: r => ([], (true, w, (splitEm r).1) :: (splitEm r).2)
  | _ :: r => splitEm r

theorem splitEm_text (w : Str) (r : List DocSpec.Inline) :
    splitEm (.text w :: r) = (w ++ (splitEm r).1, (splitEm r).2) := by rw [splitEm]
theorem splitEm_esc (ch : Char) (r : List DocSpec.Inline) :
    splitEm (.esc ch :: r) = (ch :: (splitEm r).1, (splitEm r).2) := by rw [splitEm]
theorem splitEm_em (w : Str) (r : List DocSpec.Inline) :
    splitEm (.em [.text w] :: r) = ([], (false, w, (splitEm r).1) :: (splitEm r).2) := by rw [splitEm]
theorem splitEm_strong (w : Str) (r : List DocSpec.Inline) :
    splitEm (.strong [.text w] :: r) = ([], (true, w, (splitEm r).1) :: (splitEm r).2) := by rw [splitEm]

/-- the items of a well-formed run of words, escapes and emphasised words -/
def emItemsOK : List DocSpec.Inline → Bool
  | [] => true
  | .text w :: r => wfWords w && emItemsOK r
  | .esc c :: r => ESC.contains c && emItemsOK r
  | .em [.text w] :: r => wfLabel w && emItemsOK r
  | .strong [.text w] :: r => wfLabel w && emItemsOK r
  | _ :: _ => false


theorem emItemsOK_of_wf (c : List DocSpec.Inline) (brOk : Bool) (hp : c.all isEmItem = true)
    (hw : wfInlineList false .none brOk c = true) : emItemsOK c = true := by
  induction c with
  | nil => rfl
  | cons x r ih =>
    simp only [List.all_cons, Bool.and_eq_true] at hp
    simp only [wfInlineList, Bool.and_eq_true] at hw
    have ihr := ih hp.2 hw.2
    cases x with
    | text w => simp only [wfInline] at hw; simp [emItemsOK, hw.1, ihr]
    | esc ch => simp only [wfInline] at hw; simp [emItemsOK, List.contains_iff_mem.1 hw.1, ihr]
    | em l =>
      obtain ⟨hp1, _⟩ := hp
      cases l with
      | nil => simp [isEmItem] at hp1
      | cons y l' =>
        cases l' with
        | cons _ _ => cases y <;> simp [isEmItem] at hp1
        | nil =>
          cases y with
          | text w =>
            have h1 := hw.1
            simp only [wfInline, wfRun, wfInlineList, startsOk, endsOk, Bool.and_eq_true] at h1
            simp [emItemsOK, wfLabel, h1.2.1, h1.1.2.1.1.1, h1.1.2.1.1.2, ihr]
          | _ => simp [isEmItem] at hp1
    | strong l =>
      obtain ⟨hp1, _⟩ := hp
      cases l with
      | nil => simp [isEmItem] at hp1
      | cons y l' =>
        cases l' with
        | cons _ _ => cases y <;> simp [isEmItem] at hp1
        | nil =>
          cases y with
          | text w =>
            have h1 := hw.1
            simp only [wfInline, wfRun, wfInlineList, startsOk, endsOk, Bool.and_eq_true] at h1
            simp [emItemsOK, wfLabel, h1.2.1, h1.1.2.1.1.1, h1.1.2.1.1.2, ihr]
          | _ => simp [isEmItem] at hp1
    | code _ => simp [isEmItem] at hp
    | link _ _ _ => simp [isEmItem] at hp
    | image _ _ _ => simp [isEmItem] at hp
    | autolink _ => simp [isEmItem] at hp
    | br => simp [isEmItem] at hp


/-- is the character before the first emphasis a word character?  (`prevB`: what precedes the text is not one) -/
def pwOf (prevB : Bool) (t : Str) : Bool :=
  match t.getLast? with
  | some c => !ESC.contains c && isWord c
  | none => !prevB

theorem pwOf_true (t : Str) : pwOf true t = lastW ESC t := by
  unfold pwOf lastW; cases t.getLast? <;> rfl

theorem underOK_mono (esc : List Char) (segs : List EmSeg) (h : UnderOK esc true segs) : UnderOK esc false segs := by
  cases segs with
  | nil => trivial
  | cons s r => exact ⟨fun hd => absurd (h.1 hd).1 (by decide), h.2⟩

theorem underOK_of_pw (b : Bool) (t : Str) (segs : List EmSeg) (h : UnderOK ESC (pwOf b t) segs) :
    UnderOK ESC (lastW ESC t) segs := by
  unfold pwOf at h; unfold lastW
  cases ht : t.getLast? with
  | some c => rw [ht] at h; exact h
  | none =>
    rw [ht] at h
    cases b with
    | true => exact h
    | false => exact underOK_mono _ _ h

theorem isWord_alnumSp {c : Char} (h : isAlnumSp c = true) : isWord c = isWordCh c := by
  simp [isWord, alnumSp_lt c h, isWordCh]

theorem pwOf_append (b : Bool) (w t : Str) (hw : w ≠ []) (hall : w.all isAlnumSp = true) :
    pwOf b (w ++ t) = pwOf (afterBoundary b w) t := by
  unfold pwOf
  rw [List.getLast?_append]
  cases ht : t.getLast? with
  | some c => rfl
  | none =>
    simp only [Option.none_or]
    cases hg : w.getLast? with
    | none => exact absurd (List.getLast?_eq_none_iff.1 hg) hw
    | some z =>
      have hz : isAlnumSp z = true := List.all_eq_true.1 hall z (List.mem_of_getLast? hg)
      have hne : z ∉ ESC := (alnumSp_facts hz).1
      simp [afterBoundary, hg, isWord_alnumSp hz, hne]

theorem chooseDelim_cases (k : Nat) (prevB nextB : Bool) :
    (chooseDelim none k prevB nextB = '_' ∧ prevB = true ∧ nextB = true) ∨ chooseDelim none k prevB nextB = '*' := by
  unfold chooseDelim
  simp only
  split
  · rename_i h
    simp only [Bool.and_eq_true] at h
    exact Or.inl ⟨rfl, h.1.2, h.2⟩
  · exact Or.inr rfl

theorem nextNW_of_boundary (r : List DocSpec.Inline) (h : emItemsOK r = true) (endB : Bool)
    (hb : nextBoundary endB r = true) (segs : List EmSeg)
    (hm : segs.map (fun s => (s.strong, s.w, s.t)) = (splitEm r).2) : nextNW ESC (splitEm r).1 segs := by
  cases r with
  | nil =>
    have : segs = [] := by simpa [splitEm] using hm
    subst this; trivial
  | cons y r' =>
    cases y with
    | text w' =>
      simp only [nextBoundary, startsBoundary, decide_eq_true_eq] at hb
      cases w' with
      | nil => simp at hb
      | cons a w'' =>
        have : a = ' ' := by simpa using hb
        subst this
        rw [splitEm_text]
        exact Or.inr (by decide)
    | esc ch =>
      simp only [emItemsOK, Bool.and_eq_true] at h
      rw [splitEm_esc]
      exact Or.inl (List.contains_iff_mem.1 h.1)
    | em _ => simp [nextBoundary, startsBoundary] at hb
    | strong _ => simp [nextBoundary, startsBoundary] at hb
    | code _ => simp [emItemsOK] at h
    | link _ _ _ => simp [emItemsOK] at h
    | image _ _ _ => simp [emItemsOK] at h
    | autolink _ => simp [emItemsOK] at h
    | br => simp [emItemsOK] at h

theorem afterBoundary_delims (b : Bool) (d : Char) (X : Str) : afterBoundary b (X ++ [d]) = !isWordCh d := by
  simp [afterBoundary]


theorem printInlines_word (d : Char) (a b : Bool) (w : Str) (st : PSt) :
    printInlines (some d) a b [.text w] st = (w, st) := by
  simp [printInlines, printInline]

/-- one emphasis in front: the printer draws, chooses the delimiter from the context, prints the words between the
    delimiters and goes on -/
theorem printInlines_em_step (strong : Bool) (w : Str) (r : List DocSpec.Inline) (hr : emItemsOK r = true)
    (_hw : wfLabel w = true)
    (ih : ∀ (prevB endB : Bool) (st : PSt), ∃ (segs : List EmSeg) (st' : PSt),
      printInlines none prevB endB r st = (escAll ESC (splitEm r).1 ++ rawEm ESC segs, st') ∧
      st'.defs = st.defs ∧ segs.map (fun s => (s.strong, s.w, s.t)) = (splitEm r).2 ∧
      (∀ s ∈ segs, s.d = '*' ∨ s.d = '_') ∧ UnderOK ESC (pwOf prevB (splitEm r).1) segs)
    (prevB endB : Bool) (st : PSt) (x : DocSpec.Inline)
    (hx : x = (if strong then DocSpec.Inline.strong [.text w] else DocSpec.Inline.em [.text w])) :
    ∃ (segs : List EmSeg) (st' : PSt),
      printInlines none prevB endB (x :: r) st = (rawEm ESC segs, st') ∧
      st'.defs = st.defs ∧ segs.map (fun s => (s.strong, s.w, s.t)) = (strong, w, (splitEm r).1) :: (splitEm r).2 ∧
      (∀ s ∈ segs, s.d = '*' ∨ s.d = '_') ∧ UnderOK ESC (!prevB) segs := by
  generalize hd : chooseDelim none (draw st).1 prevB (nextBoundary endB r) = d
  have hdc := chooseDelim_cases (draw st).1 prevB (nextBoundary endB r)
  rw [hd] at hdc
  have hdd : d = '*' ∨ d = '_' := by rcases hdc with ⟨h, _⟩ | h; exact Or.inr h; exact Or.inl h
  generalize hpr : (List.replicate (if strong then 2 else 1) d ++ (w ++ List.replicate (if strong then 2 else 1) d)) = E
  have hlast : afterBoundary prevB E = !isWordCh d := by
    rw [← hpr]
    cases strong
    · have : List.replicate (if false = true then 2 else 1) d ++ (w ++ List.replicate (if false = true then 2 else 1) d) =
          (d :: w) ++ [d] := by simp
      rw [this, afterBoundary_delims]
    · have : List.replicate (if true = true then 2 else 1) d ++ (w ++ List.replicate (if true = true then 2 else 1) d) =
          (d :: d :: w ++ [d]) ++ [d] := by simp [List.replicate_succ]
      rw [this, afterBoundary_delims]
  obtain ⟨segs, st', hp, hdf, hm, hds, hu⟩ := ih (!isWordCh d) endB (draw st).2
  refine ⟨⟨strong, d, w, (splitEm r).1⟩ :: segs, st', ?_, by rw [hdf, draw_defs], by simp [hm], ?_, ?_⟩
  · subst hx
    cases strong
    · simp only [Bool.false_eq_true, if_false, printInlines, printInline, hd, List.append_nil]
      have e : afterBoundary prevB (d :: w ++ [d]) = !isWordCh d := by
        rw [← hlast, ← hpr]; simp
      rw [e, hp]
      simp [rawEm, emSrc, EmSeg.delim, List.append_assoc]
    · simp only [if_true, printInlines, printInline, hd, List.append_nil]
      have e : afterBoundary prevB (d :: d :: w ++ [d, d]) = !isWordCh d := by
        rw [← hlast, ← hpr]; simp [List.replicate_succ]
      rw [e, hp]
      simp [rawEm, emSrc, EmSeg.delim, List.append_assoc, List.replicate_succ]
  · intro s hs
    rcases List.mem_cons.1 hs with rfl | hs
    · exact hdd
    · exact hds s hs
  · refine ⟨fun hdu => ?_, underOK_of_pw _ _ _ hu⟩
    have hdu' : d = '_' := hdu
    rcases hdc with ⟨_, h1, h2⟩ | h
    · exact ⟨by simp [h1], nextNW_of_boundary r hr endB h2 segs hm⟩
    · rw [hdu'] at h; exact absurd h (by decide)


/-- **the printed form**: escaped plain text and emphasised words between `*` or `_`; `_` only between characters
    that are not word characters -/
theorem printInlines_em (c : List DocSpec.Inline) (h : emItemsOK c = true) :
    ∀ (prevB endB : Bool) (st : PSt), ∃ (segs : List EmSeg) (st' : PSt),
      printInlines none prevB endB c st = (escAll ESC (splitEm c).1 ++ rawEm ESC segs, st') ∧
      st'.defs = st.defs ∧ segs.map (fun s => (s.strong, s.w, s.t)) = (splitEm c).2 ∧
      (∀ s ∈ segs, s.d = '*' ∨ s.d = '_') ∧ UnderOK ESC (pwOf prevB (splitEm c).1) segs := by
  induction c with
  | nil =>
    intro prevB endB st
    exact ⟨[], st, by simp [printInlines, splitEm, rawEm, escAll], rfl, rfl, by simp, trivial⟩
  | cons x r ih =>
    intro prevB endB st
    cases x with
    | text w =>
      simp only [emItemsOK, Bool.and_eq_true] at h
      have hw := h.1
      simp only [wfWords, Bool.and_eq_true, Bool.not_eq_true', List.isEmpty_eq_false_iff] at hw
      obtain ⟨segs, st', hp, hd, hm, hds, hu⟩ := ih h.2 (afterBoundary prevB w) endB st
      refine ⟨segs, st', ?_, hd, by rw [splitEm_text]; exact hm, hds, ?_⟩
      · simp only [printInlines, printInline, hp, splitEm_text]
        rw [escAll_words w hw.1.2]; simp [List.append_assoc]
      · rw [splitEm_text]
        simp only
        rw [pwOf_append prevB w _ hw.1.1 hw.1.2]; exact hu
    | esc ch =>
      simp only [emItemsOK, Bool.and_eq_true] at h
      have hch : ch ∈ ESC := List.contains_iff_mem.1 h.1
      obtain ⟨segs, st', hp, hd, hm, hds, hu⟩ := ih h.2 (afterBoundary prevB ['\\', ch]) endB st
      refine ⟨segs, st', ?_, hd, by rw [splitEm_esc]; exact hm, hds, ?_⟩
      · simp only [printInlines, printInline, hp, splitEm_esc]
        rw [escAll_esc_cons ch hch]; simp
      · rw [splitEm_esc]
        simp only
        have hu' := underOK_of_pw _ _ _ hu
        unfold pwOf
        cases ht : (splitEm r).1 with
        | nil =>
          rw [ht] at hu'
          simpa [hch, lastW] using hu'
        | cons a b =>
          rw [ht] at hu'
          have : (ch :: a :: b).getLast? = (a :: b).getLast? := List.getLast?_cons_cons
          rw [this]
          obtain ⟨z, hz⟩ : ∃ z, (a :: b).getLast? = some z := by
            cases hg : (a :: b).getLast? with
            | none => exact absurd (List.getLast?_eq_none_iff.1 hg) (by simp)
            | some z => exact ⟨z, rfl⟩
          simp only [lastW, hz] at hu' ⊢
          exact hu'
    | em l =>
      cases l with
      | nil => simp [emItemsOK] at h
      | cons y l' =>
        cases l' with
        | cons _ _ => cases y <;> simp [emItemsOK] at h
        | nil =>
          cases y with
          | text w =>
            simp only [emItemsOK, Bool.and_eq_true] at h
            obtain ⟨segs, st', hp, hd, hm, hds, hu⟩ :=
              printInlines_em_step false w r h.2 h.1 (ih h.2) prevB endB st _ rfl
            refine ⟨segs, st', ?_, hd, by rw [splitEm_em]; exact hm, hds, ?_⟩
            · simp only [Bool.false_eq_true, if_false] at hp
              rw [hp, splitEm_em]; simp [escAll]
            · rw [splitEm_em]; exact hu
          | _ => simp [emItemsOK] at h
    | strong l =>
      cases l with
      | nil => simp [emItemsOK] at h
      | cons y l' =>
        cases l' with
        | cons _ _ => cases y <;> simp [emItemsOK] at h
        | nil =>
          cases y with
          | text w =>
            simp only [emItemsOK, Bool.and_eq_true] at h
            obtain ⟨segs, st', hp, hd, hm, hds, hu⟩ :=
              printInlines_em_step true w r h.2 h.1 (ih h.2) prevB endB st _ rfl
            refine ⟨segs, st', ?_, hd, by rw [splitEm_strong]; exact hm, hds, ?_⟩
            · simp only [if_true] at hp
              rw [hp, splitEm_strong]; simp [escAll]
            · rw [splitEm_strong]; exact hu
          | _ => simp [emItemsOK] at h
    | code _ => simp [emItemsOK] at h
    | link _ _ _ => simp [emItemsOK] at h
    | image _ _ _ => simp [emItemsOK] at h
    | autolink _ => simp [emItemsOK] at h
    | br => simp [emItemsOK] at h


/-! ### 21. the block parser on a line of escaped text and emphasised words -/

/-- the plain text at the end of the line -/
def lastTextE (t0 : Str) (segs : List EmSeg) : Str := (segs.getLast?.map (·.t)).getD t0

/-- what the block stage needs of such a line -/
structure EmLineOK (t0 : Str) (segs : List EmSeg) : Prop where
  nl0 : '\n' ∉ t0
  nls : ∀ s ∈ segs, '\n' ∉ s.t
  ne : t0 ≠ [] ∨ segs ≠ []
  first : t0 ≠ [] → startsVisible t0 = true
  lastv : ∀ z, (lastTextE t0 segs).getLast? = some z → isSpace z = false
  ok : EmOK segs

theorem lastTextE_cons (t0 : Str) (s : EmSeg) (r : List EmSeg) : lastTextE t0 (s :: r) = lastTextE s.t r := by
  cases r with
  | nil => rfl
  | cons a b =>
    simp only [lastTextE, List.getLast?_cons_cons]
    cases h : (a :: b).getLast? with
    | none => exact absurd (List.getLast?_eq_none_iff.1 h) (by simp)
    | some x => rfl

theorem mem_rawEm {esc : List Char} {segs : List EmSeg} {c : Char} (h : c ∈ rawEm esc segs) :
    ∃ s ∈ segs, c = s.d ∨ c ∈ s.w ∨ c ∈ escAll esc s.t := by
  induction segs with
  | nil => simp [rawEm] at h
  | cons s r ih =>
    simp only [rawEm, List.mem_append] at h
    rcases h with h | h | h
    · rcases mem_emSrc h with h | h
      · exact ⟨s, List.mem_cons_self, Or.inl h⟩
      · exact ⟨s, List.mem_cons_self, Or.inr (Or.inl h)⟩
    · exact ⟨s, List.mem_cons_self, Or.inr (Or.inr h)⟩
    · obtain ⟨x, hx, hc⟩ := ih h
      exact ⟨x, List.mem_cons_of_mem _ hx, hc⟩

theorem emSrc_last (s : EmSeg) : (emSrc s).getLast? = some s.d := by
  have : emSrc s = (s.delim ++ s.w ++ List.replicate ((if s.strong then 2 else 1) - 1) s.d) ++ [s.d] := by
    cases hs : s.strong <;> simp [emSrc, EmSeg.delim, hs, List.replicate_succ]
  rw [this, List.getLast?_append]; rfl

theorem emSrc_ne_nil (s : EmSeg) : emSrc s ≠ [] := by
  obtain ⟨q, hq⟩ := delim_cons s
  simp [emSrc, hq]

theorem em_raw_last (esc : List Char) (segs : List EmSeg) :
    ∀ (t0 : Str), (∀ s ∈ segs, s.d = '*' ∨ s.d = '_') →
      (∀ z, (lastTextE t0 segs).getLast? = some z → isSpace z = false) →
      ∀ d, (escAll esc t0 ++ rawEm esc segs).getLast? = some d → isSpace d = false := by
  induction segs with
  | nil =>
    intro t0 _ hl d hd
    simp only [rawEm, List.append_nil] at hd
    cases t0 with
    | nil => simp [escAll] at hd
    | cons c r =>
      rw [getLast_escAll esc (c :: r) (by simp)] at hd
      exact hl d (by simpa [lastTextE] using hd)
  | cons s r ih =>
    intro t0 hn hl d hd
    have hsd := hn s List.mem_cons_self
    simp only [rawEm] at hd
    rw [List.getLast?_append] at hd
    have hT : (emSrc s ++ (escAll esc s.t ++ rawEm esc r)).getLast? ≠ none := by
      intro e; rw [List.getLast?_eq_none_iff] at e
      exact emSrc_ne_nil s (List.append_eq_nil_iff.1 e).1
    cases hx : (emSrc s ++ (escAll esc s.t ++ rawEm esc r)).getLast? with
    | none => exact absurd hx hT
    | some x =>
      rw [hx] at hd
      simp only [Option.some_or, Option.some.injEq] at hd
      subst hd
      rw [List.getLast?_append] at hx
      cases hy : (escAll esc s.t ++ rawEm esc r).getLast? with
      | none =>
        rw [hy, emSrc_last] at hx
        simp at hx; subst hx
        rcases hsd with e | e <;> rw [e] <;> decide
      | some y =>
        rw [hy] at hx
        simp only [Option.some_or, Option.some.injEq] at hx
        subst hx
        have hl' : ∀ z, (lastTextE s.t r).getLast? = some z → isSpace z = false := by
          intro z hz
          apply hl z
          rw [lastTextE_cons]; exact hz
        exact ih s.t (fun x hx => hn x (List.mem_cons_of_mem _ hx)) hl' y hy

theorem walk_emSrc (s : EmSeg) (hd : s.d = '*' ∨ s.d = '_') (hw : WordOK s.w) : Walk (emSrc s) := by
  apply hashHeader_walk _ _ (Nat.le_refl _) (emSrc_ne_nil s)
  · intro hm
    rcases mem_emSrc hm with h | h
    · rcases hd with e | e <;> rw [e] at h <;> exact absurd h (by decide)
    · exact (wordCh_facts (hw.2 _ h)).2.2.2.2.2.2.2.1 rfl
  · intro z hz
    rw [emSrc_last] at hz
    have : s.d = z := by simpa using hz
    subst this
    rcases hd with e | e <;> rw [e] <;> exact ⟨by decide, by decide⟩

theorem walk_rawEm {esc : List Char} (hE : EscOK esc) (segs : List EmSeg)
    (h : ∀ s ∈ segs, (s.d = '*' ∨ s.d = '_') ∧ WordOK s.w ∧ '\n' ∉ s.t) : Walk (rawEm esc segs) := by
  induction segs with
  | nil => exact walk_nil
  | cons s r ih =>
    obtain ⟨h1, h2, h3⟩ := h s List.mem_cons_self
    simp only [rawEm]
    exact walk_append (walk_emSrc s h1 h2)
      (walk_append (walk_escAll hE s.t h3) (ih (fun x hx => h x (List.mem_cons_of_mem _ hx))))

theorem emStart_raw (esc : List Char) (s : EmSeg) (r : List EmSeg) (hd : s.d = '*' ∨ s.d = '_') (hw : WordOK s.w)
    (hh : Hug s.w) : EmStart (rawEm esc (s :: r)) := by
  cases hwc : s.w with
  | nil => exact absurd hwc hw.1
  | cons x w' =>
    have hx := hw.2 x (by rw [hwc]; simp)
    have hxa : isAsciiAlnum x = true := by
      have hne : x ≠ ' ' := fun e => hh.1 (by rw [hwc, e]; rfl)
      simpa [isAlnumSp, hne] using hx
    have hxf := alnum_facts hxa
    refine ⟨s.d, if s.strong then 2 else 1, x, w' ++ (s.delim ++ (escAll esc s.t ++ rawEm esc r)), ?_, hd, ?_, ?_,
      by rcases hd with e | e
         · rw [e]; exact hxf.2.1
         · rw [e]; exact hxf.2.2.1, hxf.1⟩
    · simp [rawEm, emSrc, EmSeg.delim, hwc, List.append_assoc]
    · cases s.strong <;> simp
    · cases s.strong <;> simp

theorem rawOK_emLine {esc : List Char} (hE : EscOK esc) (t0 : Str) (segs : List EmSeg) (h : EmLineOK t0 segs) :
    RawOK (escAll esc t0 ++ rawEm esc segs) where
  shape := by
    cases t0 with
    | nil =>
      rcases h.ne with h' | h'
      · exact absurd rfl h'
      · cases segs with
        | nil => exact absurd rfl h'
        | cons s r =>
          obtain ⟨hd, hw, hh⟩ := h.ok s List.mem_cons_self
          obtain ⟨q, hq⟩ := delim_cons s
          refine ⟨s.d, q ++ (s.w ++ s.delim) ++ (escAll esc s.t ++ rawEm esc r), ?_, ?_, Or.inr ?_⟩
          · simp [escAll, rawEm, emSrc, hq, List.append_assoc]
          · rcases hd with e | e <;> rw [e] <;> decide
          · simpa [escAll] using emStart_raw esc s r hd hw hh
    | cons c r =>
      have hv := h.first (by simp)
      have hcs : isSpace c = false := by simpa [startsVisible] using hv
      by_cases hc : c ∈ esc
      · refine ⟨'\\', c :: escAll esc r ++ rawEm esc segs, by rw [escAll_cons_mem hc]; rfl, by decide,
          Or.inl (by decide)⟩
      · exact ⟨c, escAll esc r ++ rawEm esc segs, by rw [escAll_cons_not_mem hc]; rfl, hcs,
          Or.inl (lineEsc_sub hE hc)⟩
  nl := by
    intro hm
    rcases List.mem_append.1 hm with hm | hm
    · rcases mem_escAll hm with e | hm
      · exact absurd e (by decide)
      · exact h.nl0 hm
    · obtain ⟨s, hs, hc⟩ := mem_rawEm hm
      obtain ⟨hd, hw, _⟩ := h.ok s hs
      rcases hc with hc | hc | hc
      · rcases hd with e | e <;> rw [e] at hc <;> exact absurd hc (by decide)
      · exact (wordCh_facts (hw.2 _ hc)).2.2.2.2.2.2.2.1 rfl
      · rcases mem_escAll hc with e | hc
        · exact absurd e (by decide)
        · exact h.nls s hs hc
  last := em_raw_last esc segs t0 (fun s hs => (h.ok s hs).1) h.lastv
  ol := by
    apply olMarker_none_of
    apply no_dot_after_digits hE.dot
    intro c hc
    cases segs with
    | nil => simp [rawEm] at hc
    | cons s r =>
      obtain ⟨hd, _, _⟩ := h.ok s List.mem_cons_self
      obtain ⟨q, hq⟩ := delim_cons s
      simp [rawEm, emSrc, hq] at hc
      subst hc
      rcases hd with e | e <;> rw [e] <;> exact ⟨by decide, by decide⟩
  walk := walk_append (walk_escAll hE t0 h.nl0)
    (walk_rawEm hE segs (fun s hs => ⟨(h.ok s hs).1, (h.ok s hs).2.1, h.nls s hs⟩))


/-! ### 22. a paragraph or heading with emphasised words as a piece -/

/-- a `p`/`h1`–`h6` element with emphasised words, printed as the lines `g` -/
def emPiece (esc : List Char) (g : List Str) (tag t0 : Str) (segs : List EmSeg) : Piece2 :=
  ⟨chunkB g (emTxtSrc esc tag t0 segs), emTxtElem esc tag t0 segs, emTxtElem esc tag t0 segs⟩

theorem emTxtSrc_clean (esc : List Char) (tag : Str) (htag : textTags.contains tag = true) (t0 : Str)
    (segs : List EmSeg) :
    isListTag (emTxtSrc esc tag t0 segs) = false ∧ preCode (emTxtSrc esc tag t0 segs) = none := by
  have hmem : tag ∈ "hr".toList :: textTags := List.mem_cons_of_mem _ (List.contains_iff_mem.1 htag)
  have key : ∀ tag ∈ "hr".toList :: textTags, tag ≠ "ul".toList ∧ tag ≠ "ol".toList ∧ tag ≠ "pre".toList := by decide
  obtain ⟨a1, a2, a3⟩ := key _ hmem
  have b1 : tag ≠ ['u', 'l'] := a1
  have b2 : tag ≠ ['o', 'l'] := a2
  have b3 : tag ≠ ['p', 'r', 'e'] := a3
  constructor
  · simp [emTxtSrc, isListTag, Node.isTag, b1, b2]
  · simp [emTxtSrc, preCode, Node.isTag, b3]

theorem emPiece_ok (g : List Str) (tag t0 : Str) (segs : List EmSeg)
    (hok : EmTxtOK Generated.escapedChars tag t0 segs) (hne : g ≠ [])
    (hnel : noEmptyLineFrom true (joinLines g) = true)
    (hprod : Produces 4 (joinLines g) (emTxtSrc Generated.escapedChars tag t0 segs))
    (hsafe : ∀ l ∈ g, lineSafe l = true ∧ '<' ∉ l ∧ refsClosed l = true)
    (hvis : ∃ c ∈ joinLines g, isSpace c = false) :
    Piece2OK {} (emPiece Generated.escapedChars g tag t0 segs) where
  bok := chunkB_ok 4 g _ hne hnel hprod (emTxtSrc_clean _ tag hok.htag t0 segs).1
    (emTxtSrc_clean _ tag hok.htag t0 segs).2
  safe := hsafe
  vis := hvis
  src := rfl
  srcLast := rfl
  eok := fun refs => emTxtElem_ok { esc := Generated.escapedChars, refs := refs } escOK_generated tag t0 segs hok
  eokLast := fun refs => emTxtElem_ok { esc := Generated.escapedChars, refs := refs } escOK_generated tag t0 segs hok
  out := rfl

/-! ### 23. from well-formed content to the facts the stages need -/

theorem splitEm_chars (c : List DocSpec.Inline) (h : emItemsOK c = true) :
    (∀ ch ∈ (splitEm c).1, plainCh ch) ∧
    ∀ q ∈ (splitEm c).2, (∀ ch ∈ q.2.2, plainCh ch) ∧ wfLabel q.2.1 = true := by
  induction c with
  | nil => simp [splitEm]
  | cons x r ih =>
    cases x with
    | text w =>
      simp only [emItemsOK, Bool.and_eq_true, wfWords] at h
      obtain ⟨i1, i2⟩ := ih h.2
      rw [splitEm_text]
      refine ⟨?_, i2⟩
      intro ch hch
      simp only [List.mem_append] at hch
      rcases hch with hch | hch
      · exact Or.inl (List.all_eq_true.1 h.1.1.2 ch hch)
      · exact i1 ch hch
    | esc e =>
      simp only [emItemsOK, Bool.and_eq_true] at h
      obtain ⟨i1, i2⟩ := ih h.2
      rw [splitEm_esc]
      refine ⟨?_, i2⟩
      intro ch hch
      simp only [List.mem_cons] at hch
      rcases hch with rfl | hch
      · exact Or.inr (List.contains_iff_mem.1 h.1)
      · exact i1 ch hch
    | em l =>
      cases l with
      | nil => simp [emItemsOK] at h
      | cons y l' =>
        cases l' with
        | cons _ _ => cases y <;> simp [emItemsOK] at h
        | nil =>
          cases y with
          | text w =>
            simp only [emItemsOK, Bool.and_eq_true] at h
            obtain ⟨i1, i2⟩ := ih h.2
            rw [splitEm_em]
            refine ⟨by simp, ?_⟩
            intro q hq
            simp only [List.mem_cons] at hq
            rcases hq with rfl | hq
            · exact ⟨i1, h.1⟩
            · exact i2 q hq
          | _ => simp [emItemsOK] at h
    | strong l =>
      cases l with
      | nil => simp [emItemsOK] at h
      | cons y l' =>
        cases l' with
        | cons _ _ => cases y <;> simp [emItemsOK] at h
        | nil =>
          cases y with
          | text w =>
            simp only [emItemsOK, Bool.and_eq_true] at h
            obtain ⟨i1, i2⟩ := ih h.2
            rw [splitEm_strong]
            refine ⟨by simp, ?_⟩
            intro q hq
            simp only [List.mem_cons] at hq
            rcases hq with rfl | hq
            · exact ⟨i1, h.1⟩
            · exact i2 q hq
          | _ => simp [emItemsOK] at h
    | code _ => simp [emItemsOK] at h
    | link _ _ _ => simp [emItemsOK] at h
    | image _ _ _ => simp [emItemsOK] at h
    | autolink _ => simp [emItemsOK] at h
    | br => simp [emItemsOK] at h

theorem splitEm_first (c : List DocSpec.Inline) (h : emItemsOK c = true) (hs : startsOk c = true)
    (hne : (splitEm c).1 ≠ []) : startsVisible (splitEm c).1 = true := by
  cases c with
  | nil => simp [startsOk] at hs
  | cons x r =>
    cases x with
    | text w =>
      simp only [emItemsOK, Bool.and_eq_true, wfWords, Bool.not_eq_true'] at h
      simp only [startsOk, bne_iff_ne, ne_eq] at hs
      cases w with
      | nil => simp at h
      | cons a b =>
        have ha : isAlnumSp a = true := by
          have := h.1.1.2; simp only [List.all_cons, Bool.and_eq_true] at this; exact this.1
        have : a ≠ ' ' := by simpa using hs
        rw [splitEm_text]
        simp [startsVisible, alnum_visible a ha this]
    | esc ch =>
      simp only [emItemsOK, Bool.and_eq_true] at h
      rw [splitEm_esc]
      simp [startsVisible, (escChar_facts _ (List.contains_iff_mem.1 h.1)).2.2]
    | em l =>
      cases l with
      | nil => simp [emItemsOK] at h
      | cons y l' =>
        cases l' with
        | cons _ _ => cases y <;> simp [emItemsOK] at h
        | nil => cases y <;> first | (simp [emItemsOK] at h; done) | (rw [splitEm_em] at hne; simp at hne)
    | strong l =>
      cases l with
      | nil => simp [emItemsOK] at h
      | cons y l' =>
        cases l' with
        | cons _ _ => cases y <;> simp [emItemsOK] at h
        | nil => cases y <;> first | (simp [emItemsOK] at h; done) | (rw [splitEm_strong] at hne; simp at hne)
    | code _ => simp [emItemsOK] at h
    | link _ _ _ => simp [emItemsOK] at h
    | image _ _ _ => simp [emItemsOK] at h
    | autolink _ => simp [emItemsOK] at h
    | br => simp [emItemsOK] at h


/-- induction over such content -/
theorem emItems_ind {motive : List DocSpec.Inline → Prop} (nil : motive [])
    (text : ∀ w r, wfWords w = true → emItemsOK r = true → motive r → motive (.text w :: r))
    (esc : ∀ ch r, ch ∈ ESC → emItemsOK r = true → motive r → motive (.esc ch :: r))
    (em : ∀ w r, wfLabel w = true → emItemsOK r = true → motive r → motive (.em [.text w] :: r))
    (strong : ∀ w r, wfLabel w = true → emItemsOK r = true → motive r → motive (.strong [.text w] :: r)) :
    ∀ c, emItemsOK c = true → motive c := by
  intro c
  induction c with
  | nil => intro _; exact nil
  | cons x r ih =>
    intro h
    cases x with
    | text w =>
      simp only [emItemsOK, Bool.and_eq_true] at h
      exact text w r h.1 h.2 (ih h.2)
    | esc ch =>
      simp only [emItemsOK, Bool.and_eq_true] at h
      exact esc ch r (List.contains_iff_mem.1 h.1) h.2 (ih h.2)
    | em l =>
      cases l with
      | nil => simp [emItemsOK] at h
      | cons y l' =>
        cases l' with
        | cons _ _ => cases y <;> simp [emItemsOK] at h
        | nil =>
          cases y with
          | text w =>
            simp only [emItemsOK, Bool.and_eq_true] at h
            exact em w r h.1 h.2 (ih h.2)
          | _ => simp [emItemsOK] at h
    | strong l =>
      cases l with
      | nil => simp [emItemsOK] at h
      | cons y l' =>
        cases l' with
        | cons _ _ => cases y <;> simp [emItemsOK] at h
        | nil =>
          cases y with
          | text w =>
            simp only [emItemsOK, Bool.and_eq_true] at h
            exact strong w r h.1 h.2 (ih h.2)
          | _ => simp [emItemsOK] at h
    | code _ => simp [emItemsOK] at h
    | link _ _ _ => simp [emItemsOK] at h
    | image _ _ _ => simp [emItemsOK] at h
    | autolink _ => simp [emItemsOK] at h
    | br => simp [emItemsOK] at h

theorem splitEm_nil_iff (c : List DocSpec.Inline) (h : emItemsOK c = true) :
    ((splitEm c).1 = [] ∧ (splitEm c).2 = []) ↔ c = [] := by
  revert h
  refine emItems_ind (motive := fun c => ((splitEm c).1 = [] ∧ (splitEm c).2 = []) ↔ c = []) ?_ ?_ ?_ ?_ ?_ c
  · simp [splitEm]
  · intro w r hw _ _
    have : w ≠ [] := by intro e; subst e; simp [wfWords] at hw
    rw [splitEm_text]; simp [this]
  · intro ch r _ _ _; rw [splitEm_esc]; simp
  · intro w r _ _ _; rw [splitEm_em]; simp
  · intro w r _ _ _; rw [splitEm_strong]; simp

/-- the plain text at the end of the content -/
def lastTextQ (p : Str × List (Bool × Str × Str)) : Str := (p.2.getLast?.map (·.2.2)).getD p.1

theorem lastTextQ_same (t t' : Str) (ss : List (Bool × Str × Str)) (hss : ss ≠ []) :
    lastTextQ (t, ss) = lastTextQ (t', ss) := by
  simp only [lastTextQ]
  cases hg : ss.getLast? with
  | none => exact absurd (List.getLast?_eq_none_iff.1 hg) hss
  | some q => rfl

theorem lastTextQ_cons (t : Str) (q : Bool × Str × Str) (ss : List (Bool × Str × Str)) :
    lastTextQ (t, q :: ss) = lastTextQ (q.2.2, ss) := by
  cases ss with
  | nil => rfl
  | cons a b =>
    simp only [lastTextQ, List.getLast?_cons_cons]
    cases hg : (a :: b).getLast? with
    | none => exact absurd (List.getLast?_eq_none_iff.1 hg) (by simp)
    | some x => rfl

theorem endsOk_cons_ne {x : DocSpec.Inline} {r : List DocSpec.Inline} (hr : r ≠ []) (h : endsOk (x :: r) = true) :
    endsOk r = true := by
  cases r with
  | nil => exact absurd rfl hr
  | cons y r' => exact endsOk_tail h

theorem splitEm_last (c : List DocSpec.Inline) (h : emItemsOK c = true) :
    endsOk c = true → ∀ z, (lastTextQ (splitEm c)).getLast? = some z → isSpace z = false := by
  revert h
  refine emItems_ind (motive := fun c => endsOk c = true →
    ∀ z, (lastTextQ (splitEm c)).getLast? = some z → isSpace z = false) ?_ ?_ ?_ ?_ ?_ c
  · intro he; simp [endsOk] at he
  · intro w r hw hr ih he z hz
    rw [splitEm_text] at hz
    by_cases hss : (splitEm r).2 = []
    · simp only [lastTextQ, hss, List.getLast?_nil, Option.map_none, Option.getD_none] at hz
      by_cases ht : (splitEm r).1 = []
      · have hrn : r = [] := (splitEm_nil_iff r hr).1 ⟨ht, hss⟩
        subst hrn
        simp only [ht, List.append_nil] at hz
        simp only [endsOk, bne_iff_ne, ne_eq] at he
        exact alnumSp_last_visible w hw he z hz
      · have hrn : r ≠ [] := fun e => ht (by subst e; rfl)
        apply ih (endsOk_cons_ne hrn he) z
        simp only [lastTextQ, hss, List.getLast?_nil, Option.map_none, Option.getD_none]
        rw [List.getLast?_append] at hz
        cases hx : (splitEm r).1.getLast? with
        | none => exact absurd (List.getLast?_eq_none_iff.1 hx) ht
        | some q => rw [hx] at hz; simpa using hz
    · have hrn : r ≠ [] := fun e => hss (by subst e; rfl)
      apply ih (endsOk_cons_ne hrn he) z
      rw [lastTextQ_same _ (w ++ (splitEm r).1) _ hss]
      exact hz
  · intro ch r hch hr ih he z hz
    rw [splitEm_esc] at hz
    by_cases hss : (splitEm r).2 = []
    · simp only [lastTextQ, hss, List.getLast?_nil, Option.map_none, Option.getD_none] at hz
      by_cases ht : (splitEm r).1 = []
      · simp only [ht, List.getLast?_singleton, Option.some.injEq] at hz
        subst hz
        exact (escChar_facts _ hch).2.2
      · have hrn : r ≠ [] := fun e => ht (by subst e; rfl)
        apply ih (endsOk_cons_ne hrn he) z
        simp only [lastTextQ, hss, List.getLast?_nil, Option.map_none, Option.getD_none]
        cases hx : (splitEm r).1 with
        | nil => exact absurd hx ht
        | cons a b => rw [hx] at hz; simpa [List.getLast?_cons_cons] using hz
    · have hrn : r ≠ [] := fun e => hss (by subst e; rfl)
      apply ih (endsOk_cons_ne hrn he) z
      rw [lastTextQ_same _ (ch :: (splitEm r).1) _ hss]
      exact hz
  · intro w r _ hr ih he z hz
    rw [splitEm_em, lastTextQ_cons] at hz
    by_cases hrn : r = []
    · subst hrn; simp [splitEm, lastTextQ] at hz
    · exact ih (endsOk_cons_ne hrn he) z hz
  · intro w r _ hr ih he z hz
    rw [splitEm_strong, lastTextQ_cons] at hz
    by_cases hrn : r = []
    · subst hrn; simp [splitEm, lastTextQ] at hz
    · exact ih (endsOk_cons_ne hrn he) z hz


/-- everything the proofs use of well-formed content of words, escapes and emphasised words, about its split form
    `t0`, `segs` (the emphases with the delimiters the printer chose) -/
structure EmContentOK (c : List DocSpec.Inline) (t0 : Str) (segs : List EmSeg) : Prop where
  items : emItemsOK c = true
  run : wfRun .none c = true
  t0eq : t0 = (splitEm c).1
  smap : segs.map (fun s => (s.strong, s.w, s.t)) = (splitEm c).2
  delims : ∀ s ∈ segs, s.d = '*' ∨ s.d = '_'
  under : UnderOK ESC (lastW ESC t0) segs

theorem mem_segs_splitEm {c : List DocSpec.Inline} {t0 : Str} {segs : List EmSeg} (h : EmContentOK c t0 segs)
    {s : EmSeg} (hs : s ∈ segs) : (s.strong, s.w, s.t) ∈ (splitEm c).2 := by
  rw [← h.smap]; exact List.mem_map.2 ⟨s, hs, rfl⟩

theorem wordOK_of_label {w : Str} (h : wfLabel w = true) : WordOK w ∧ Hug w := by
  simp only [wfLabel, wfWords, Bool.and_eq_true, Bool.not_eq_true', List.isEmpty_eq_false_iff, bne_iff_ne, ne_eq] at h
  exact ⟨⟨h.1.1.1.1, fun x hx => List.all_eq_true.1 h.1.1.1.2 x hx⟩, h.1.2, h.2⟩

theorem lastTextE_eq (t0 : Str) (segs : List EmSeg) :
    lastTextE t0 segs = lastTextQ (t0, segs.map (fun s => (s.strong, s.w, s.t))) := by
  simp only [lastTextE, lastTextQ, List.getLast?_map]
  cases segs.getLast? <;> rfl

theorem EmContentOK.facts {c : List DocSpec.Inline} {t0 : Str} {segs : List EmSeg} (h : EmContentOK c t0 segs) :
    EmOK segs ∧ EmLineOK t0 segs ∧ (∀ ch, (ch ∈ t0 ∨ ∃ s ∈ segs, ch ∈ s.t) → plainCh ch) := by
  have hrun := h.run
  simp only [wfRun, Bool.and_eq_true, decide_eq_true_eq, Bool.or_eq_true] at hrun
  obtain ⟨⟨⟨hst, hen⟩, _⟩, _⟩ := hrun
  obtain ⟨hc0, hcs⟩ := splitEm_chars c h.items
  have hplain : ∀ ch, (ch ∈ t0 ∨ ∃ s ∈ segs, ch ∈ s.t) → plainCh ch := by
    intro ch hch
    rcases hch with hch | ⟨s, hs, hch⟩
    · rw [h.t0eq] at hch; exact hc0 ch hch
    · exact (hcs _ (mem_segs_splitEm h hs)).1 ch hch
  have hem : EmOK segs := fun s hs =>
    ⟨h.delims s hs, wordOK_of_label (hcs _ (mem_segs_splitEm h hs)).2⟩
  have hne : c ≠ [] := by intro e; subst e; simp [startsOk] at hst
  refine ⟨hem, ⟨?_, ?_, ?_, ?_, ?_, hem⟩, hplain⟩
  · exact fun hm => (plainCh_facts (hplain _ (Or.inl hm))).2.1 rfl
  · exact fun s hs hm => (plainCh_facts (hplain _ (Or.inr ⟨s, hs, hm⟩))).2.1 rfl
  · by_cases ht : t0 = []
    · right
      intro hs
      have : (splitEm c).1 = [] ∧ (splitEm c).2 = [] := by
        rw [← h.t0eq, ← h.smap, hs]; exact ⟨ht, rfl⟩
      exact hne ((splitEm_nil_iff c h.items).1 this)
    · exact Or.inl ht
  · intro ht
    rw [h.t0eq] at ht ⊢
    exact splitEm_first c h.items hst ht
  · intro z hz
    rw [lastTextE_eq, h.smap, h.t0eq] at hz
    exact splitEm_last c h.items hen z hz

theorem EmContentOK.emTxtOK {c : List DocSpec.Inline} {t0 : Str} {segs : List EmSeg} (h : EmContentOK c t0 segs)
    (tag : Str) (htag : textTags.contains tag = true) : EmTxtOK ESC tag t0 segs := by
  obtain ⟨h1, h2, h3⟩ := h.facts
  refine ⟨htag, h1, h.under, fun ch hch => ?_, h2.ne⟩
  obtain ⟨_, a2, a3, _, a5⟩ := plainCh_facts (h3 ch hch); exact ⟨a3, a2, a5⟩

theorem okCh_of_alnumSp {x : Char} (h : isAlnumSp x = true) : okCh x ∧ x ≠ '&' := by
  have := plainCh_facts (Or.inl h : plainCh x)
  exact ⟨okCh_plain this.1 this.2.1, this.2.2.1⟩

theorem em_raw_chars {c : List DocSpec.Inline} {t0 : Str} {segs : List EmSeg} (h : EmContentOK c t0 segs) :
    ∀ ch ∈ escAll ESC t0 ++ rawEm ESC segs, okCh ch ∧ ch ≠ '&' := by
  obtain ⟨h1, _, h3⟩ := h.facts
  have hpl : ∀ x, plainCh x → okCh x ∧ x ≠ '&' :=
    fun x hx => ⟨okCh_plain (plainCh_facts hx).1 (plainCh_facts hx).2.1, (plainCh_facts hx).2.2.1⟩
  have hesc : ∀ (t : Str), (∀ x ∈ t, plainCh x) → ∀ x ∈ escAll ESC t, okCh x ∧ x ≠ '&' := by
    intro t ht x hx
    rcases mem_escAll hx with rfl | hx
    · exact ⟨⟨by decide, by decide, by decide, by decide, by decide, by decide⟩, by decide⟩
    · exact hpl x (ht x hx)
  intro ch hch
  rcases List.mem_append.1 hch with hch | hch
  · exact hesc t0 (fun x hx => h3 x (Or.inl hx)) ch hch
  · obtain ⟨s, hs, hc⟩ := mem_rawEm hch
    obtain ⟨hd, hw, _⟩ := h1 s hs
    rcases hc with hc | hc | hc
    · rcases hd with e | e <;> rw [hc, e] <;>
        exact ⟨⟨by decide, by decide, by decide, by decide, by decide, by decide⟩, by decide⟩
    · exact okCh_of_alnumSp (hw.2 _ hc)
    · exact hesc s.t (fun x hx => h3 x (Or.inr ⟨s, hs, hx⟩)) ch hc

/-! ### 24. the specification side, and the pieces of paragraphs and headings with emphasised words -/

/-- what `spec` prescribes for the emphases and the texts after them -/
def specEm : List (Bool × Str × Str) → Str
  | [] => []
  | q :: r => '<' :: emTagS q.1 ++ ['>'] ++ htmlEsc q.2.1 ++ ('<' :: '/' :: emTagS q.1 ++ ['>']) ++ htmlEsc q.2.2 ++
      specEm r

theorem specEm_cons (q : Bool × Str × Str) (r : List (Bool × Str × Str)) :
    specEm (q :: r) = '<' :: emTagS q.1 ++ ['>'] ++ htmlEsc q.2.1 ++ ('<' :: '/' :: emTagS q.1 ++ ['>']) ++
      htmlEsc q.2.2 ++ specEm r := rfl

theorem specInline_em_gen (c : List DocSpec.Inline) : specInline (.em c) = S "<em>" ++ specInlines c ++ S "</em>" := rfl
theorem specInline_strong_gen (c : List DocSpec.Inline) :
    specInline (.strong c) = S "<strong>" ++ specInlines c ++ S "</strong>" := rfl
theorem specInlines_nil : specInlines [] = [] := rfl

theorem specInline_em (w : Str) : specInline (.em [.text w]) = S "<em>" ++ htmlEsc w ++ S "</em>" := by
  rw [specInline_em_gen, specInlines_cons, specInline_text, specInlines_nil, List.append_nil]

theorem specInline_strong (w : Str) : specInline (.strong [.text w]) = S "<strong>" ++ htmlEsc w ++ S "</strong>" := by
  rw [specInline_strong_gen, specInlines_cons, specInline_text, specInlines_nil, List.append_nil]

theorem specInlines_splitEm (c : List DocSpec.Inline) (h : emItemsOK c = true) :
    specInlines c = htmlEsc (splitEm c).1 ++ specEm (splitEm c).2 := by
  revert h
  refine emItems_ind (motive := fun c => specInlines c = htmlEsc (splitEm c).1 ++ specEm (splitEm c).2)
    ?_ ?_ ?_ ?_ ?_ c
  · rfl
  · intro w r _ _ ih
    rw [specInlines_cons, specInline_text, ih, splitEm_text, htmlEsc_append, List.append_assoc]
  · intro ch r _ _ ih
    have : ch :: (splitEm r).1 = [ch] ++ (splitEm r).1 := rfl
    rw [specInlines_cons, specInline_esc, ih, splitEm_esc, this, htmlEsc_append, List.append_assoc]
  · intro w r _ _ ih
    rw [specInlines_cons, specInline_em, ih, splitEm_em, specEm_cons]
    simp only [List.append_assoc]
    rfl
  · intro w r _ _ ih
    rw [specInlines_cons, specInline_strong, ih, splitEm_strong, specEm_cons]
    simp only [List.append_assoc]
    rfl

theorem outEm_eq (segs : List EmSeg) (h : ∀ s ∈ segs, '&' ∉ s.t ∧ '&' ∉ s.w) :
    outEm segs = specEm (segs.map (fun s => (s.strong, s.w, s.t))) := by
  induction segs with
  | nil => rfl
  | cons s r ih =>
    rw [outEm_cons, List.map_cons, specEm_cons, ih (fun x hx => h x (List.mem_cons_of_mem _ hx)),
      htmlEsc_eq_escCdata s.t (h s List.mem_cons_self).1, htmlEsc_eq_escCdata s.w (h s List.mem_cons_self).2]

theorem emTxtOut_eq {c : List DocSpec.Inline} {t0 : Str} {segs : List EmSeg} (h : EmContentOK c t0 segs)
    (tag : Str) : emTxtOut tag t0 segs = '<' :: tag ++ ['>'] ++ specInlines c ++ ('<' :: '/' :: tag ++ ['>']) := by
  obtain ⟨h1, _, h3⟩ := h.facts
  have ha0 : '&' ∉ t0 := fun hm => (plainCh_facts (h3 _ (Or.inl hm))).2.2.1 rfl
  have has : ∀ s ∈ segs, '&' ∉ s.t ∧ '&' ∉ s.w := fun s hs =>
    ⟨fun hm => (plainCh_facts (h3 _ (Or.inr ⟨s, hs, hm⟩))).2.2.1 rfl,
     fun hm => (wordCh_facts ((h1 s hs).2.1.2 _ hm)).2.2.2.2.2.2.1 rfl⟩
  rw [specInlines_splitEm c h.items, ← h.t0eq, ← h.smap, ← outEm_eq segs has, htmlEsc_eq_escCdata t0 ha0]
  simp [emTxtOut, List.append_assoc]


/-! #### the printed blocks as pieces -/

theorem printContent_em (c : List DocSpec.Inline) (brOk : Bool) (hp : emRun c = true)
    (hw : wfInlines false .none brOk c = true) (st : PSt) :
    ∃ (t0 : Str) (segs : List EmSeg) (st' : PSt),
      printContent c st = ([escAll ESC t0 ++ rawEm ESC segs], st') ∧ st'.defs = st.defs ∧ EmContentOK c t0 segs := by
  simp only [wfInlines, Bool.and_eq_true] at hw
  have hitems := emItemsOK_of_wf c brOk hp hw.2
  obtain ⟨segs, st', hpr, hd, hm, hds, hu⟩ := printInlines_em c hitems true true st
  rw [pwOf_true] at hu
  have hok : EmContentOK c (splitEm c).1 segs := ⟨hitems, hw.1, rfl, hm, hds, hu⟩
  refine ⟨(splitEm c).1, segs, st', ?_, hd, hok⟩
  obtain ⟨_, h2, _⟩ := hok.facts
  have hnl := (rawOK_emLine escOK_generated _ segs h2).nl
  simp only [printContent, hpr]
  rw [splitC_noNl _ (notNl_of_not_mem hnl)]

/-- the facts about a line `P ++ raw ++ Q` around the content -/
theorem line_facts_em {c : List DocSpec.Inline} {t0 : Str} {segs : List EmSeg} (h : EmContentOK c t0 segs) (P Q : Str)
    (hP : ∀ x ∈ P, okCh x ∧ x ≠ '&') (hQ : ∀ x ∈ Q, okCh x ∧ x ≠ '&') :
    (lineSafe (P ++ (escAll ESC t0 ++ rawEm ESC segs) ++ Q) = true ∧
      '<' ∉ P ++ (escAll ESC t0 ++ rawEm ESC segs) ++ Q ∧
      refsClosed (P ++ (escAll ESC t0 ++ rawEm ESC segs) ++ Q) = true) ∧
    '\n' ∉ P ++ (escAll ESC t0 ++ rawEm ESC segs) ++ Q ∧
    ∃ x ∈ P ++ (escAll ESC t0 ++ rawEm ESC segs) ++ Q, isSpace x = false := by
  obtain ⟨_, h2, _⟩ := h.facts
  have hraw := rawOK_emLine escOK_generated t0 segs h2
  obtain ⟨c0, tail, he, hcs, _⟩ := hraw.shape
  have hc0 : c0 ∈ P ++ (escAll ESC t0 ++ rawEm ESC segs) ++ Q := by rw [he]; simp
  have hch : ∀ x ∈ P ++ (escAll ESC t0 ++ rawEm ESC segs) ++ Q, okCh x ∧ x ≠ '&' := by
    intro x hx
    simp only [List.mem_append] at hx
    rcases hx with (hx | hx) | hx
    · exact hP x hx
    · exact em_raw_chars h x (List.mem_append.2 hx)
    · exact hQ x hx
  have hs := safe_of_okCh _ (fun x hx => (hch x hx).1) ⟨c0, hc0, by intro e; subst e; exact absurd hcs (by decide)⟩
  exact ⟨⟨hs.1, hs.2, refsClosed_of_no_amp _ (fun hm => (hch _ hm).2 rfl)⟩,
    fun hm => (hch _ hm).1.1 rfl, c0, hc0, hcs⟩

/-- a paragraph with emphasised words, indented by `i < 4` -/
theorem emPara_ok {c : List DocSpec.Inline} {t0 : Str} {segs : List EmSeg} (h : EmContentOK c t0 segs) (i : Nat)
    (hi : i < 4) :
    Piece2OK {} (emPiece ESC [spaces i ++ (escAll ESC t0 ++ rawEm ESC segs)] "p".toList t0 segs) := by
  obtain ⟨_, h2, _⟩ := h.facts
  have hraw := rawOK_emLine escOK_generated t0 segs h2
  obtain ⟨⟨hs1, hs2, hs3⟩, hnl, hvis⟩ := line_facts_em h (spaces i) [] (okCh_spaces i) (by simp)
  simp only [List.append_nil] at hs1 hs2 hs3 hnl hvis
  apply emPiece_ok _ _ _ _ (h.emTxtOK _ (by decide)) (by simp)
  · simp only [joinLines, join_singleton]
    apply nel_line _ _ hnl
    obtain ⟨x, hx, _⟩ := hvis
    intro e; rw [e] at hx; simp at hx
  · simp only [joinLines, join_singleton]
    exact produces_para_raw 4 i hi (by omega) _ hraw
  · intro l hl
    have : l = spaces i ++ (escAll ESC t0 ++ rawEm ESC segs) := by simpa using hl
    subst this; exact ⟨hs1, hs2, hs3⟩
  · simpa [joinLines] using hvis


/-- a Setext heading with emphasised words -/
theorem emSetext_ok {c : List DocSpec.Inline} {t0 : Str} {segs : List EmSeg} (h : EmContentOK c t0 segs)
    (i : Nat) (hi : i < 4) (lv k : Nat) (hlv : lv = 1 ∨ lv = 2) :
    Piece2OK {} (emPiece ESC [spaces i ++ (escAll ESC t0 ++ rawEm ESC segs),
      List.replicate (k + 1) (if lv = 1 then '=' else '-')] ('h' :: natToDec lv) t0 segs) := by
  obtain ⟨_, h2, _⟩ := h.facts
  have hraw := rawOK_emLine escOK_generated t0 segs h2
  obtain ⟨⟨hs1, hs2, hs3⟩, hnl, hvis⟩ := line_facts_em h (spaces i) [] (okCh_spaces i) (by simp)
  simp only [List.append_nil] at hs1 hs2 hs3 hnl hvis
  have hprod := produces_setext_raw 4 i hi _ hraw lv k hlv
  generalize hu : (if lv = 1 then '=' else '-') = ch at *
  have hch2 : ch = '=' ∨ ch = '-' := by rw [← hu]; split <;> simp
  have hunl : '\n' ∉ List.replicate (k + 1) ch := by
    intro hm; have := List.eq_of_mem_replicate hm
    rcases hch2 with h' | h' <;> rw [h'] at this <;> exact absurd this (by decide)
  have hjoin : joinLines [spaces i ++ (escAll ESC t0 ++ rawEm ESC segs), List.replicate (k + 1) ch] =
      spaces i ++ (escAll ESC t0 ++ rawEm ESC segs) ++ '\n' :: List.replicate (k + 1) ch := by
    simp [joinLines, join]
  have hlne : spaces i ++ (escAll ESC t0 ++ rawEm ESC segs) ≠ [] := by
    obtain ⟨x, hx, _⟩ := hvis
    intro e; rw [e] at hx; simp at hx
  apply emPiece_ok _ _ _ _ (h.emTxtOK _ (hTag_mem lv (by omega) (by omega))) (by simp)
  · rw [hjoin]
    exact nel_two_lines _ _ hlne (by simp [List.replicate_succ]) hnl hunl
  · rw [hjoin]; exact hprod
  · intro l hl
    simp only [List.mem_cons, List.mem_nil_iff, or_false] at hl
    rcases hl with rfl | rfl
    · exact ⟨hs1, hs2, hs3⟩
    · have hall : ∀ x ∈ List.replicate (k + 1) ch, okCh x ∧ x ≠ '&' := by
        intro x hx; rw [List.eq_of_mem_replicate hx]
        rcases hch2 with h' | h' <;> rw [h'] <;>
          exact ⟨⟨by decide, by decide, by decide, by decide, by decide, by decide⟩, by decide⟩
      have := safe_of_okCh _ (fun x hx => (hall x hx).1)
        ⟨ch, by simp [List.replicate_succ], by rcases hch2 with h' | h' <;> rw [h'] <;> decide⟩
      exact ⟨this.1, this.2, refsClosed_of_no_amp _ (fun hm => (hall _ hm).2 rfl)⟩
  · obtain ⟨x, hx, hxs⟩ := hvis
    exact ⟨x, by rw [hjoin]; exact List.mem_append_left _ hx, hxs⟩

/-- an ATX heading with emphasised words -/
theorem emAtx_ok {c : List DocSpec.Inline} {t0 : Str} {segs : List EmSeg} (h : EmContentOK c t0 segs)
    (lv : Nat) (h1 : 1 ≤ lv) (h6 : lv ≤ 6) (Y : Str) (hY : Y = [] ∨ ∃ m, Y = ' ' :: List.replicate m '#') :
    Piece2OK {} (emPiece ESC [List.replicate lv '#' ++ ' ' :: ((escAll ESC t0 ++ rawEm ESC segs) ++ Y)]
      ('h' :: natToDec lv) t0 segs) := by
  obtain ⟨_, h2, _⟩ := h.facts
  have hraw := rawOK_emLine escOK_generated t0 segs h2
  have hhash : okCh '#' ∧ ('#' : Char) ≠ '&' :=
    ⟨⟨by decide, by decide, by decide, by decide, by decide, by decide⟩, by decide⟩
  have hP : ∀ x ∈ List.replicate lv '#' ++ [' '], okCh x ∧ x ≠ '&' := by
    intro x hx
    rcases List.mem_append.1 hx with hx | hx
    · rw [List.eq_of_mem_replicate hx]; exact hhash
    · have : x = ' ' := by simpa using hx
      rw [this]; exact okCh_space
  have hQ : ∀ x ∈ Y, okCh x ∧ x ≠ '&' := by
    intro x hx
    rcases hY with rfl | ⟨m, rfl⟩
    · simp at hx
    · rcases List.mem_cons.1 hx with hx | hx
      · rw [hx]; exact okCh_space
      · rw [List.eq_of_mem_replicate hx]; exact hhash
  obtain ⟨⟨hs1, hs2, hs3⟩, hnl, hvis⟩ := line_facts_em h _ Y hP hQ
  have hline : List.replicate lv '#' ++ [' '] ++ (escAll ESC t0 ++ rawEm ESC segs) ++ Y =
      List.replicate lv '#' ++ ' ' :: ((escAll ESC t0 ++ rawEm ESC segs) ++ Y) := by simp [List.append_assoc]
  rw [hline] at hs1 hs2 hs3 hnl hvis
  apply emPiece_ok _ _ _ _ (h.emTxtOK _ (hTag_mem lv h1 h6)) (by simp)
  · simp only [joinLines, join_singleton]
    apply nel_line _ _ hnl
    obtain ⟨x, hx, _⟩ := hvis
    intro e; rw [e] at hx; simp at hx
  · simp only [joinLines, join_singleton]
    exact produces_atx_raw 4 (by omega) _ hraw lv h1 h6 Y hY
  · intro l hl
    have : l = List.replicate lv '#' ++ ' ' :: ((escAll ESC t0 ++ rawEm ESC segs) ++ Y) := by simpa using hl
    subst this; exact ⟨hs1, hs2, hs3⟩
  · simpa [joinLines] using hvis



/-! #### every printed block of the sub-grammar -/

theorem emPiece_out (g : List Str) (tag t0 : Str) (segs : List EmSeg) :
    (emPiece ESC g tag t0 segs).elem.out = emTxtOut tag t0 segs := rfl

theorem printBlock_em (b : DocSpec.Block) (hf : isEmBlock b = true) (hw : wfBlock none b = true) (st : PSt) :
    ∃ (p : Piece2) (st' : PSt), printBlock true b st = (p.b.g, st') ∧ st'.defs = st.defs ∧
      Piece2OK {} p ∧ p.elem.out = specBlock b ∧ p.b.isCode = isCode b := by
  cases b with
  | rule => exact printBlock_span .rule rfl hw st
  | code ls => exact printBlock_span (.code ls) hf hw st
  | para c =>
    by_cases hsp : spanRun c = true
    · exact printBlock_span (.para c) hsp hw st
    simp only [isEmBlock, hsp, Bool.false_or] at hf
    simp only [wfBlock] at hw
    obtain ⟨t0, segs, st', hpc, hd, hok⟩ := printContent_em c true hf hw (draw st).2
    refine ⟨emPiece ESC [spaces ((draw st).1 % 4) ++ (escAll ESC t0 ++ rawEm ESC segs)] "p".toList t0 segs,
      st', ?_, by rw [hd, draw_defs], emPara_ok hok _ (Nat.mod_lt _ (by omega)), ?_, rfl⟩
    · rw [printBlock_para, hpc]; rfl
    · rw [emPiece_out, emTxtOut_eq hok, specBlock_para]
      simp [S]
  | atx l c =>
    by_cases hsp : spanRun c = true
    · exact printBlock_span (.atx l c) hsp hw st
    simp only [isEmBlock, hsp, Bool.false_or] at hf
    simp only [wfBlock, Bool.and_eq_true, decide_eq_true_eq] at hw
    obtain ⟨t0, segs, st', hpc, hd, hok⟩ := printContent_em c false hf hw.2 (draw st).2
    have hY : atxClosing (draw st).1 l = [] ∨ ∃ m, atxClosing (draw st).1 l = ' ' :: List.replicate m '#' := by
      unfold atxClosing
      split
      · exact Or.inl rfl
      · split
        · exact Or.inr ⟨1, rfl⟩
        · exact Or.inr ⟨l, rfl⟩
    refine ⟨emPiece ESC [List.replicate l '#' ++ ' ' :: ((escAll ESC t0 ++ rawEm ESC segs) ++
        atxClosing (draw st).1 l)] ('h' :: natToDec l) t0 segs,
      st', ?_, by rw [hd, draw_defs], emAtx_ok hok l hw.1.1 hw.1.2 _ hY, ?_, rfl⟩
    · rw [printBlock_atx, hpc]
      simp [atxLine, join, rep, List.append_assoc, emPiece, chunkB]
    · rw [emPiece_out, emTxtOut_eq hok, specBlock_atx]
      simp [S, List.append_assoc]
  | setext l c =>
    by_cases hsp : spanRun c = true
    · exact printBlock_span (.setext l c) hsp hw st
    simp only [isEmBlock, hsp, Bool.false_or] at hf
    simp only [wfBlock, Bool.and_eq_true, Bool.or_eq_true, decide_eq_true_eq] at hw
    obtain ⟨t0, segs, st', hpc, hd, hok⟩ := printContent_em c false hf hw.2 (draw (draw st).2).2
    refine ⟨emPiece ESC [spaces ((draw st).1 % 4) ++ (escAll ESC t0 ++ rawEm ESC segs),
          List.replicate ((draw (draw st).2).1 % 8 + 1) (if l = 1 then '=' else '-')] ('h' :: natToDec l) t0 segs,
      st', ?_, by rw [hd]; simp [draw_defs], emSetext_ok hok _ (Nat.mod_lt _ (by omega)) l _ hw.1, ?_, rfl⟩
    · rw [printBlock_setext, hpc]; rfl
    · rw [emPiece_out, emTxtOut_eq hok, specBlock_setext]
      simp [S, List.append_assoc]
  | quote _ => simp [isEmBlock, isSpanBlock] at hf
  | ulist _ _ => simp [isEmBlock, isSpanBlock] at hf
  | olist _ _ => simp [isEmBlock, isSpanBlock] at hf

theorem printBlocks_em (d : Doc) (hne : d ≠ []) (hf : ∀ b ∈ d, isEmBlock b = true)
    (hw : ∀ b ∈ d, wfBlock none b = true) (hnext : okNexts d = true) :
    ∀ st : PSt, ∃ (ps : List Piece2) (st' : PSt), printBlocks true d st = (flatLines (ps.map (·.b.g)), st') ∧
      st'.defs = st.defs ∧ ps ≠ [] ∧ (∀ p ∈ ps, Piece2OK {} p) ∧
      joinOutS (ps.map (·.elem.out)) = specBlocks d ∧ noCodeAfterCode (ps.map (·.b)) ∧
      (ps.head?.map (·.b.isCode) = d.head?.map isCode) := by
  induction d with
  | nil => exact absurd rfl hne
  | cons b r ih =>
    intro st
    obtain ⟨p, st1, hp, hd1, hok, hout, hcode⟩ :=
      printBlock_em b (hf b List.mem_cons_self) (hw b List.mem_cons_self) st
    cases r with
    | nil =>
      refine ⟨[p], st1, ?_, hd1, by simp, ?_, ?_, trivial, by simp [hcode]⟩
      · rw [printBlocks_one, hp]; rfl
      · intro q hq; have : q = p := by simpa using hq
        subst this; exact hok
      · rw [specBlocks_one, ← hout]; rfl
    | cons b' r' =>
      rw [okNexts_cons2, Bool.and_eq_true] at hnext
      obtain ⟨ps, st2, hps, hd2, hpsne, hoks, houts, hadj, hhead⟩ := ih (by simp)
        (fun x hx => hf x (List.mem_cons_of_mem _ hx)) (fun x hx => hw x (List.mem_cons_of_mem _ hx)) hnext.2 st1
      obtain ⟨q, qs, rfl⟩ : ∃ q qs, ps = q :: qs := by
        cases ps with
        | nil => exact absurd rfl hpsne
        | cons q qs => exact ⟨q, qs, rfl⟩
      have hq : q.b.isCode = isCode b' := by simpa using hhead
      refine ⟨p :: q :: qs, st2, ?_, by rw [hd2, hd1], by simp, ?_, ?_, ?_, by simp [hcode]⟩
      · rw [printBlocks_cons2, hp]
        simp only [hps]
        rfl
      · intro x hx
        rcases List.mem_cons.1 hx with rfl | hx
        · exact hok
        · exact hoks x hx
      · rw [specBlocks_cons2, ← houts, ← hout]; rfl
      · refine ⟨?_, hadj⟩
        intro hqc
        rw [hq] at hqc
        rw [hcode]
        have h1 := hnext.1
        simp only [okNext, hqc, Bool.and_true, Bool.and_eq_true, Bool.not_eq_true', Bool.or_eq_false_iff] at h1
        exact h1.1.2.1

/-- **C01 on documents with code blocks, code spans and emphasised words**: every spelling of a well-formed document of the
    sub-grammar converts to what `spec` prescribes -/
theorem convert_emDoc (d : Doc) (sp : Spelling) (hwf : WF d = true) (hs : DocSpec.EmDoc d = true) :
    Pipeline.convert {} (print d sp) = .ok (spec d) := by
  simp only [WF, Bool.and_eq_true, Bool.not_eq_true', List.isEmpty_eq_false_iff] at hwf
  obtain ⟨⟨⟨hne, hnx⟩, hbl⟩, _⟩ := hwf
  have hf : ∀ b ∈ d, isEmBlock b = true := by
    simpa [DocSpec.EmDoc, List.all_eq_true] using hs
  obtain ⟨ps, st', hps, hdefs, hpsne, hoks, houts, hadj, _⟩ :=
    printBlocks_em d hne hf (wfBlockList_mem hbl) hnx ⟨sp.choices, 1, []⟩
  have hprint : print d sp = joinLines (flatLines (ps.map (·.b.g))) := by
    simp only [print, hps]
    have : st'.defs = [] := hdefs
    simp [this, joinLines]
  rw [hprint, spec, ← houts]
  exact convert_pieces2 {} rfl rfl ps hpsne hoks hadj


/-! ## rung C grown: code spans and emphasis in the same paragraph or heading

The development of sections 8–15 (code spans) and 16–24 (emphasis) is redone for lines that contain both kinds of item:
the pattern loop takes the code spans out first (pattern 0), then the escapes (1), then the `*` emphases (14), then the
`_` emphases (15). -/

/-! ### 25. lines with code spans and emphasis: the items and the stages of the pattern loop -/

/-- a code span (fence width, body) or an emphasis (`strong` or not, delimiter, words) -/
inductive MKind
  | code (n : Nat) (b : Str)
  | em (strong : Bool) (d : Char) (w : Str)

/-- an item and the plain text after it -/
structure MSeg where
  k : MKind
  t : Str

def MKind.src : MKind → Str
  | .code n b => spanSrc n b
  | .em s d w => emSrc ⟨s, d, w, []⟩

def MKind.node : MKind → Node
  | .code _ b => codeSpan (Code.codeEscape b)
  | .em s _ w => emEl s w

/-- 0 = code span, 1 = `*` emphasis, 2 = `_` emphasis: the order in which the pattern loop takes them out -/
def MKind.cls : MKind → Nat
  | .code _ _ => 0
  | .em _ d _ => if d = '*' then 1 else 2

def rawM (esc : List Char) : List MSeg → Str
  | [] => []
  | s :: r => s.k.src ++ (escAll esc s.t ++ rawM esc r)

/-- an item after the classes below `lv` have been taken out: a placeholder (numbered per class) or still source -/
def itemM (lv n0 n1 n2 : Nat) (k : MKind) : Str :=
  if k.cls < lv then placeholder (if k.cls = 0 then n0 else if k.cls = 1 then n1 else n2) else k.src

/-- the counter of class `c` after an item -/
def bump (c : Nat) (k : MKind) (n : Nat) : Nat := if k.cls = c then n + 1 else n

/-- the line after the classes below `lv` have been taken out (placeholders numbered per class from `n0`, `n1`,
    `n2`), with the texts escaped (`pe = false`) or with their escapes as placeholders from `m` on -/
def stageM (esc : List Char) (lv : Nat) (pe : Bool) : Nat → Nat → Nat → Nat → List MSeg → Str
  | _, _, _, _, [] => []
  | m, n0, n1, n2, s :: r =>
    itemM lv n0 n1 n2 s.k ++ ((if pe then resid esc m s.t else escAll esc s.t) ++
      stageM esc lv pe (m + escCount esc s.t) (bump 0 s.k n0) (bump 1 s.k n1) (bump 2 s.k n2) r)

/-- the stash entries of one class, in order -/
def nodesOf (c : Nat) : List MSeg → List StashItem
  | [] => []
  | s :: r => if s.k.cls = c then .node s.k.node :: nodesOf c r else nodesOf c r

theorem stageM_raw (esc : List Char) (segs : List MSeg) :
    ∀ m n0 n1 n2, stageM esc 0 false m n0 n1 n2 segs = rawM esc segs := by
  induction segs with
  | nil => intro _ _ _ _; rfl
  | cons s r ih => intro m n0 n1 n2; simp [stageM, rawM, ih, itemM]

/-- the shape of the items: a fence that the padded body does not close and padding that `strip` removes; a delimiter
    character and words that hug it -/
def MKindOK : MKind → Prop
  | .code n b => (∃ k, n = k + 1) ∧ spanBodyOk n (padded b) = true ∧ strip (padded b) = b
  | .em _ d w => (d = '*' ∨ d = '_') ∧ WordOK w ∧ Hug w

def MKind.isCode : MKind → Bool
  | .code _ _ => true
  | _ => false

/-- no text ends with a backslash directly before a code span, and two code spans do not touch -/
def junctionsOK : Str → Bool → List MSeg → Prop
  | _, _, [] => True
  | t, prevCode, s :: r =>
    (s.k.isCode = true → t.getLast? ≠ some '\\' ∧ (prevCode = true → t ≠ [])) ∧ junctionsOK s.t s.k.isCode r

def MSegsOK (segs : List MSeg) : Prop := ∀ s ∈ segs, MKindOK s.k

/-! #### pattern 0 walks over everything that is not a code span -/

/-- the backtick pattern walks over `A` when `A` does not end with a backslash or what follows does not start with a
    backtick or backslash -/
def BtOK (A : Str) : Prop := ∀ (prev : Option Char) (Z : Str) (i : Nat),
  (A.getLast? ≠ some '\\' ∨ (Z.head? ≠ some '`' ∧ Z.head? ≠ some '\\')) →
    btScan prev (A ++ Z) i = btScan (lastOr prev A) Z (i + A.length)

theorem btOK_nil : BtOK [] := fun prev Z i _ => by simp [lastOr]

theorem btOK_plain (X : Str) (hX : noTickBs X) : BtOK X := fun prev Z i _ => btScan_skip X hX Z prev i

theorem btOK_escAll {esc : List Char} (hb : '\\' ∈ esc) (ht : '`' ∈ esc) (r : Str) : BtOK (escAll esc r) := by
  intro prev Z i h
  rcases h with h | h
  · by_cases hr : r = []
    · subst hr; simp [escAll, lastOr]
    · rw [getLast_escAll esc r hr] at h
      exact btScan_escAll_then hb ht Z r prev i h
  · exact btScan_escAll_nt hb ht Z h.1 h.2 r prev i

theorem btOK_append {A B : Str} (hA : BtOK A) (hB : BtOK B)
    (hj : B ≠ [] → A.getLast? ≠ some '\\' ∨ (B.head? ≠ some '`' ∧ B.head? ≠ some '\\')) : BtOK (A ++ B) := by
  intro prev Z i h
  by_cases hBn : B = []
  · subst hBn
    simp only [List.append_nil] at h ⊢
    exact hA prev Z i h
  · have hhead : (B ++ Z).head? = B.head? := by
      cases B with
      | nil => exact absurd rfl hBn
      | cons b B' => rfl
    have hlast : (A ++ B).getLast? = B.getLast? := by
      rw [List.getLast?_append]
      cases hg : B.getLast? with
      | none => exact absurd (List.getLast?_eq_none_iff.1 hg) hBn
      | some z => rfl
    rw [List.append_assoc, hA prev (B ++ Z) i (by rw [hhead]; exact hj hBn),
      hB _ Z _ (by rw [hlast] at h; exact h), lastOr_append, List.length_append]
    congr 1; omega

theorem noTickBs_placeholder (n : Nat) : noTickBs (placeholder n) := by
  intro c hc
  have := phChar_of_mem_placeholder hc
  refine ⟨?_, (phChar_facts this).2.2.2.2.2.1⟩
  intro e; subst e; exact absurd this (by decide)

/-- one turn of the pattern loop at a code span after a prefix the backtick pattern walks over -/
theorem applyPattern_codeAt (cfg : Inline.Cfg) (hi : HI) (P : Str) (hP : BtOK P) (hPl : P.getLast? ≠ some '\\')
    (k : Nat) (body X : Str) (hbody : spanBodyOk (k + 1) body = true) (hX : X.head? ≠ some '`') (st : St) :
    applyPattern cfg hi 0 (P ++ (ticks (k + 1) ++ (body ++ (ticks (k + 1) ++ X)))) 0 st =
      some (P ++ (placeholder st.stash.length ++ X), true, 0,
        { st with stash := st.stash ++ [.node (codeSpan (Code.codeEscape (strip body)))] }) := by
  have hlo : lastOr none P ≠ some '\\' := by
    unfold lastOr
    cases hg : P.getLast? with
    | none => simp
    | some z => rw [hg] at hPl; simpa using hPl
  have hscan : btFind (P ++ (ticks (k + 1) ++ (body ++ (ticks (k + 1) ++ X)))) 0 =
      some ⟨.code, P.length, P.length + (k + 1) + body.length + (k + 1), body⟩ := by
    simp only [btFind, show ¬ (0 > (P ++ (ticks (k + 1) ++ (body ++ (ticks (k + 1) ++ X)))).length) by omega,
      if_false, if_true, List.drop_zero]
    rw [hP none _ 0 (Or.inl hPl)]
    have := btScan_span k body X hbody hX [] (fun c hc => by simp at hc) _ (0 + P.length) hlo
    simp only [List.nil_append, List.length_nil, Nat.add_zero] at this
    rw [this]
    simp
  have hlen : (P ++ (ticks (k + 1) ++ (body ++ (ticks (k + 1) ++ X)))).length =
      P.length + (k + 1) + body.length + (k + 1) + X.length := by simp [ticks]; omega
  have h1 : (P ++ (ticks (k + 1) ++ (body ++ (ticks (k + 1) ++ X)))).take P.length = P := by simp
  have h2 : pyDrop (P ++ (ticks (k + 1) ++ (body ++ (ticks (k + 1) ++ X))))
      ((P.length + (k + 1) + body.length + (k + 1) : Nat) : Int) = X := by
    unfold pyDrop pyIdx
    rw [hlen]
    have : ¬ (((P.length + (k + 1) + body.length + (k + 1) : Nat) : Int) < 0) := by omega
    simp only [this, if_false, Int.toNat_natCast]
    rw [Nat.min_eq_left (by omega)]
    rw [← List.append_assoc, ← List.append_assoc, ← List.append_assoc, List.drop_left' (by simp [ticks]; omega)]
  unfold applyPattern findMatch
  simp only [show ¬ (0 > (P ++ (ticks (k + 1) ++ (body ++ (ticks (k + 1) ++ X)))).length) by omega, if_false, hscan]
  simp only [mkEl, Option.isSome_some, Bool.and_self, if_true, stashNode, h1, h2]
  rw [List.append_assoc]
  rfl


theorem getLast_append_ne {A B : Str} (hB : B ≠ []) : (A ++ B).getLast? = B.getLast? := by
  rw [List.getLast?_append]
  cases hg : B.getLast? with
  | none => exact absurd (List.getLast?_eq_none_iff.1 hg) hB
  | some z => rfl

/-- escaped text after a prefix that does not end with a backslash -/
theorem btOK_text {esc : List Char} (hb : '\\' ∈ esc) (ht : '`' ∈ esc) {A : Str} (hA : BtOK A)
    (hl : A.getLast? ≠ some '\\') (t : Str) : BtOK (A ++ escAll esc t) :=
  btOK_append hA (btOK_escAll hb ht t) (fun _ => Or.inl hl)

/-- an item without backtick or backslash (emphasis in source form, a placeholder) after that -/
theorem btOK_item {P X : Str} (hP : BtOK P) (hX : noTickBs X) : BtOK (P ++ X) ∧ (X ≠ [] → (P ++ X).getLast? ≠ some '\\') := by
  refine ⟨btOK_append hP (btOK_plain X hX) (fun hne => Or.inr ?_), fun hne => ?_⟩
  · cases X with
    | nil => exact absurd rfl hne
    | cons x X' =>
      have := hX x List.mem_cons_self
      simp only [List.head?_cons, ne_eq, Option.some.injEq]
      exact ⟨this.1, this.2⟩
  · rw [getLast_append_ne hne]
    intro e
    exact (hX _ (List.mem_of_getLast? e)).2 rfl

theorem emK_src_facts (st : Bool) (d : Char) (w : Str) (h : MKindOK (.em st d w)) :
    noTickBs (MKind.src (.em st d w)) ∧ MKind.src (.em st d w) ≠ [] := by
  obtain ⟨hd, hw, _⟩ := h
  exact ⟨noTickBs_emSrc (s := ⟨st, d, w, []⟩) hd hw, emSrc_ne_nil _⟩

theorem cls_code (n : Nat) (b : Str) : (MKind.code n b).cls = 0 := rfl

theorem cls_em_pos (st : Bool) (d : Char) (w : Str) : 0 < (MKind.em st d w).cls := by
  simp only [MKind.cls]; split <;> omega

theorem head_stage_raw (esc : List Char) (ht : '`' ∈ esc) (t : Str) (pc : Bool) (r : List MSeg) (hok : MSegsOK r)
    (hj : junctionsOK t pc r) (hpc : pc = true) (m n0 n1 n2 : Nat) :
    (escAll esc t ++ stageM esc 0 false m n0 n1 n2 r).head? ≠ some '`' := by
  by_cases htn : t = []
  · subst htn
    simp only [escAll, List.nil_append]
    cases r with
    | nil => simp [stageM]
    | cons s r' =>
      cases hk : s.k with
      | code n b =>
        have := (hj.1 (by rw [hk]; rfl)).2 hpc
        exact absurd rfl this
      | em st d w =>
        have hs := hok s List.mem_cons_self
        rw [hk] at hs
        obtain ⟨q, hq⟩ := delim_cons ⟨st, d, w, []⟩
        have : ¬ ((MKind.em st d w).cls < 0) := by omega
        simp only [stageM, itemM, hk, this, if_false, MKind.src, emSrc, hq, List.cons_append, List.head?_cons]
        rcases hs.1 with e | e <;> simp [e]
  · have := head_escAll_ne_tick (esc := esc) ht t
    have hne := escAll_ne_nil (esc := esc) htn
    cases hx : escAll esc t with
    | nil => exact absurd hx hne
    | cons a b => rw [hx] at this; simpa using this

/-- **the backtick pass**: one turn of the pattern loop per code span, left to right; emphasis is walked over -/
theorem code_pass (cfg : Inline.Cfg) (hi : HI) (hb : '\\' ∈ cfg.esc) (ht : '`' ∈ cfg.esc) (segs : List MSeg) :
    ∀ (A t : Str) (pc : Bool) (m n0 n1 n2 : Nat) (st : St) (g : Nat), BtOK A → A.getLast? ≠ some '\\' →
      MSegsOK segs → junctionsOK t pc segs →
      hiLoop (applyPattern cfg hi) (g + (nodesOf 0 segs).length)
        (A ++ (escAll cfg.esc t ++ stageM cfg.esc 0 false m n0 n1 n2 segs)) 0 0 st =
      hiLoop (applyPattern cfg hi) g
        (A ++ (escAll cfg.esc t ++ stageM cfg.esc 1 false m st.stash.length n1 n2 segs)) 0 0
        { st with stash := st.stash ++ nodesOf 0 segs } := by
  induction segs with
  | nil => intro A t pc m n0 n1 n2 st g _ _ _ _; simp [stageM, nodesOf]
  | cons s r ih =>
    intro A t pc m n0 n1 n2 st g hA hAl hok hj
    have hokr : MSegsOK r := fun x hx => hok x (List.mem_cons_of_mem _ hx)
    have hs := hok s List.mem_cons_self
    have hP := btOK_text hb ht hA hAl t
    cases hk : s.k with
    | code n b =>
      rw [hk] at hs
      obtain ⟨⟨k, hkn⟩, hbody, hstrip⟩ := hs
      have hjs := hj.1 (by rw [hk]; rfl)
      have hPl : (A ++ escAll cfg.esc t).getLast? ≠ some '\\' := by
        by_cases htn : t = []
        · subst htn; simpa [escAll] using hAl
        · rw [getLast_append_ne (escAll_ne_nil htn), getLast_escAll _ _ htn]; exact hjs.1
      have hX := head_stage_raw cfg.esc ht s.t true r hokr (by have := hj.2; rw [hk] at this; exact this) rfl
        (m + escCount cfg.esc s.t) (n0 + 1) n1 n2
      have hstep := applyPattern_codeAt cfg hi _ hP hPl k (padded b) _ (hkn ▸ hbody) hX st
      have hA' := btOK_item hP (noTickBs_placeholder st.stash.length)
      have hne : placeholder st.stash.length ≠ [] := by
        have := placeholder_length_pos st.stash.length
        intro e; rw [e] at this; simp at this
      have := ih ((A ++ escAll cfg.esc t) ++ placeholder st.stash.length) s.t true (m + escCount cfg.esc s.t)
        (n0 + 1) n1 n2 { st with stash := st.stash ++ [.node (codeSpan (Code.codeEscape (strip (padded b))))] } g
        hA'.1 (hA'.2 hne) hokr (by have := hj.2; rw [hk] at this; exact this)
      simp only [stageM, itemM, bump, nodesOf, hk, cls_code, Nat.lt_irrefl, if_false, if_true, Nat.lt_one_iff,
        List.length_cons, MKind.src, MKind.node, spanSrc, hkn, List.append_assoc, Bool.false_eq_true,
        show ¬ ((0 : Nat) = 1) by omega, show ¬ ((0 : Nat) = 2) by omega] at this ⊢
      rw [show g + ((nodesOf 0 r).length + 1) = (g + (nodesOf 0 r).length) + 1 by omega]
      have hstep' := hstep
      simp only [List.append_assoc] at hstep'
      rw [hiLoop_step _ _ _ 0 0 st (by omega) _ _ _ _ hstep']
      simp only [if_true]
      rw [this, hstrip]
      simp only [List.length_append, List.length_cons, List.length_nil, 
        List.cons_append, List.nil_append, Nat.zero_add]
    | em st' d w =>
      rw [hk] at hs
      obtain ⟨hsrc, hsne⟩ := emK_src_facts st' d w hs
      have hA' := btOK_item hP hsrc
      have hpos := cls_em_pos st' d w
      have := ih ((A ++ escAll cfg.esc t) ++ MKind.src (.em st' d w)) s.t false (m + escCount cfg.esc s.t)
        n0 (if (MKind.em st' d w).cls = 1 then n1 + 1 else n1) (if (MKind.em st' d w).cls = 2 then n2 + 1 else n2)
        st g hA'.1 (hA'.2 hsne) hokr (by have := hj.2; rw [hk] at this; exact this)
      have h0 : ¬ ((MKind.em st' d w).cls < 0) := by omega
      have h1 : ¬ ((MKind.em st' d w).cls < 1) := by omega
      have h2 : ¬ ((MKind.em st' d w).cls = 0) := by omega
      simp only [stageM, itemM, bump, nodesOf, hk, h0, h1, h2, if_false, List.append_assoc, Bool.false_eq_true] at this ⊢
      exact this


/-! #### once the code spans are out -/

theorem placeholder_ne_nil (n : Nat) : placeholder n ≠ [] := by
  have := placeholder_length_pos n
  intro e; rw [e] at this; simp at this

/-- from level 1 on an item is a placeholder or an emphasis in source form -/
theorem itemM_cases (lv n0 n1 n2 : Nat) (k : MKind) (hlv : 1 ≤ lv) (hk : MKindOK k) :
    (∃ n, itemM lv n0 n1 n2 k = placeholder n) ∨
    (∃ st d w, k = .em st d w ∧ itemM lv n0 n1 n2 k = emSrc ⟨st, d, w, []⟩ ∧ (d = '*' ∨ d = '_') ∧ WordOK w ∧ Hug w) := by
  unfold itemM
  by_cases h : k.cls < lv
  · simp only [h, if_true]; exact Or.inl ⟨_, rfl⟩
  · simp only [h, if_false]
    cases k with
    | code n b => exact absurd (by rw [cls_code]; omega) h
    | em st d w => exact Or.inr ⟨st, d, w, rfl, rfl, hk⟩

theorem itemM_plain (lv n0 n1 n2 : Nat) (k : MKind) (hlv : 1 ≤ lv) (hk : MKindOK k) :
    noTickBs (itemM lv n0 n1 n2 k) ∧ itemM lv n0 n1 n2 k ≠ [] := by
  rcases itemM_cases lv n0 n1 n2 k hlv hk with ⟨n, h⟩ | ⟨st, d, w, _, h, hd, hw, _⟩
  · rw [h]; exact ⟨noTickBs_placeholder n, placeholder_ne_nil n⟩
  · rw [h]; exact ⟨noTickBs_emSrc (s := ⟨st, d, w, []⟩) hd hw, emSrc_ne_nil _⟩

theorem btScan_stage1 {esc : List Char} (hb : '\\' ∈ esc) (ht : '`' ∈ esc) (segs : List MSeg) :
    ∀ (A t : Str) (m n0 n1 n2 : Nat) (prev : Option Char) (i : Nat), BtOK A → A.getLast? ≠ some '\\' →
      MSegsOK segs → btScan prev (A ++ (escAll esc t ++ stageM esc 1 false m n0 n1 n2 segs)) i = none := by
  induction segs with
  | nil =>
    intro A t m n0 n1 n2 prev i hA hAl _
    have hP := btOK_text hb ht hA hAl t
    have := hP prev [] i (Or.inr (by simp))
    simp only [stageM, List.append_nil] at this ⊢
    rw [this]; simp [btScan, btAt_nil]
  | cons s r ih =>
    intro A t m n0 n1 n2 prev i hA hAl hok
    have hP := btOK_text hb ht hA hAl t
    obtain ⟨hpl, hne⟩ := itemM_plain 1 n0 n1 n2 s.k (by omega) (hok s List.mem_cons_self)
    have hA' := btOK_item hP hpl
    have := ih ((A ++ escAll esc t) ++ itemM 1 n0 n1 n2 s.k) s.t (m + escCount esc s.t) (bump 0 s.k n0)
      (bump 1 s.k n1) (bump 2 s.k n2) prev i hA'.1 (hA'.2 hne) (fun x hx => hok x (List.mem_cons_of_mem _ hx))
    simp only [stageM, List.append_assoc, Bool.false_eq_true, if_false] at this ⊢
    exact this

/-- the number of escapes in the texts after the items -/
def escCountM (esc : List Char) : List MSeg → Nat
  | [] => 0
  | s :: r => escCount esc s.t + escCountM esc r

def stashOfM (esc : List Char) : List MSeg → List StashItem
  | [] => []
  | s :: r => stashOf esc s.t ++ stashOfM esc r

theorem bs_not_mem_item (lv n0 n1 n2 : Nat) (k : MKind) (hlv : 1 ≤ lv) (hk : MKindOK k) : '\\' ∉ itemM lv n0 n1 n2 k :=
  fun h => ((itemM_plain lv n0 n1 n2 k hlv hk).1 _ h).2 rfl

/-- **the escape pass**, text by text -/
theorem esc_passM (cfg : Inline.Cfg) (hi : HI) (hb : '\\' ∈ cfg.esc) (lv : Nat) (hlv : 1 ≤ lv) (segs : List MSeg) :
    ∀ (A : Str) (m n0 n1 n2 : Nat) (st : St) (g : Nat), '\\' ∉ A → MSegsOK segs →
      hiLoop (applyPattern cfg hi) (g + escCountM cfg.esc segs) (A ++ stageM cfg.esc lv false m n0 n1 n2 segs) 1 0 st =
      hiLoop (applyPattern cfg hi) g (A ++ stageM cfg.esc lv true st.stash.length n0 n1 n2 segs) 1 0
        { st with stash := st.stash ++ stashOfM cfg.esc segs } := by
  induction segs with
  | nil => intro A m n0 n1 n2 st g _ _; simp [stageM, escCountM, stashOfM]
  | cons s r ih =>
    intro A m n0 n1 n2 st g hA hok
    have hokr : MSegsOK r := fun x hx => hok x (List.mem_cons_of_mem _ hx)
    have hA1 : '\\' ∉ A ++ itemM lv n0 n1 n2 s.k := by
      intro hh; rcases List.mem_append.1 hh with hh | hh
      · exact hA hh
      · exact bs_not_mem_item lv n0 n1 n2 s.k hlv (hok s List.mem_cons_self) hh
    have h1 := escape_chunk cfg hi hb
      (stageM cfg.esc lv false (m + escCount cfg.esc s.t) (bump 0 s.k n0) (bump 1 s.k n1) (bump 2 s.k n2) r) s.t
      (A ++ itemM lv n0 n1 n2 s.k) st (g + escCountM cfg.esc r) hA1
    have hA2 : '\\' ∉ A ++ itemM lv n0 n1 n2 s.k ++ resid cfg.esc st.stash.length s.t := by
      intro hh; rcases List.mem_append.1 hh with hh | hh
      · exact hA1 hh
      · exact bs_not_mem_resid hb _ _ hh
    have h2 := ih (A ++ itemM lv n0 n1 n2 s.k ++ resid cfg.esc st.stash.length s.t) (m + escCount cfg.esc s.t)
      (bump 0 s.k n0) (bump 1 s.k n1) (bump 2 s.k n2) { st with stash := st.stash ++ stashOf cfg.esc s.t } g hA2 hokr
    simp only [stageM, escCountM, stashOfM, List.append_assoc, Bool.false_eq_true, if_false, if_true] at h1 h2 ⊢
    rw [show g + (escCount cfg.esc s.t + escCountM cfg.esc r) = g + escCountM cfg.esc r + escCount cfg.esc s.t by omega,
      h1, h2]
    simp [escCount]


/-! #### pattern 13 -/

theorem nsScan_stageM {esc : List Char} (h1 : '*' ∈ esc) (h2 : '_' ∈ esc) (lv : Nat) (hlv : 1 ≤ lv) (segs : List MSeg) :
    ∀ (m n0 n1 n2 : Nat) (prev : Option Char) (i : Nat), MSegsOK segs →
      nsScan prev (stageM esc lv true m n0 n1 n2 segs) i = none := by
  induction segs with
  | nil => intro _ _ _ _ prev i _; rfl
  | cons s r ih =>
    intro m n0 n1 n2 prev i hok
    have hokr : MSegsOK r := fun x hx => hok x (List.mem_cons_of_mem _ hx)
    simp only [stageM, if_true]
    rcases itemM_cases lv n0 n1 n2 s.k hlv (hok s List.mem_cons_self) with ⟨n, h⟩ | ⟨st, d, w, _, h, hd, hw, hh⟩
    · rw [h, nsScan_text _ (fun c hc => ⟨(phChar_facts (phChar_of_mem_placeholder hc)).2.2.2.1,
        (phChar_facts (phChar_of_mem_placeholder hc)).2.2.2.2.1⟩), nsScan_text _ (resid_no_delim h1 h2 s.t m)]
      exact ih _ _ _ _ _ _ hokr
    · rw [h, nsScan_em ⟨st, d, w, []⟩ hd hw hh, nsScan_text _ (resid_no_delim h1 h2 s.t m)]
      exact ih _ _ _ _ _ _ hokr

/-! #### patterns 14 and 15 -/

theorem cls_star (st : Bool) (w : Str) : (MKind.em st '*' w).cls = 1 := by simp [MKind.cls]

theorem cls_under (st : Bool) (d : Char) (w : Str) (hd : d ≠ '*') : (MKind.em st d w).cls = 2 := by
  simp [MKind.cls, hd]

theorem not_mem_of_append3 {c : Char} {A B C : Str} (hA : c ∉ A) (hB : c ∉ B) (hC : c ∉ C) : c ∉ A ++ (B ++ C) := by
  intro h
  rcases List.mem_append.1 h with h | h
  · exact hA h
  · rcases List.mem_append.1 h with h | h
    · exact hB h
    · exact hC h

theorem star_passM (cfg : Inline.Cfg) (f : Nat) (h1 : '*' ∈ cfg.esc) (h2 : '_' ∈ cfg.esc) (segs : List MSeg) :
    ∀ (A : Str) (m n0 n1 n2 : Nat) (st : St) (g : Nat), '*' ∉ A → MSegsOK segs →
      hiLoop (applyPattern cfg (fun d p s => handleInline cfg (f + 1) d p s)) (g + (nodesOf 1 segs).length)
        (A ++ stageM cfg.esc 1 true m n0 n1 n2 segs) 14 0 st =
      hiLoop (applyPattern cfg (fun d p s => handleInline cfg (f + 1) d p s)) g
        (A ++ stageM cfg.esc 2 true m n0 st.stash.length n2 segs) 14 0
        { st with stash := st.stash ++ nodesOf 1 segs } := by
  induction segs with
  | nil => intro A m n0 n1 n2 st g _ _; simp [stageM, nodesOf]
  | cons s r ih =>
    intro A m n0 n1 n2 st g hA hok
    have hokr : MSegsOK r := fun x hx => hok x (List.mem_cons_of_mem _ hx)
    have hs := hok s List.mem_cons_self
    have hres : '*' ∉ resid cfg.esc m s.t := fun h => (resid_no_delim h1 h2 s.t m _ h).1 rfl
    cases hk : s.k with
    | code n b =>
      have := ih (A ++ (placeholder n0 ++ resid cfg.esc m s.t)) (m + escCount cfg.esc s.t) (n0 + 1) n1 n2 st g
        (not_mem_of_append3 hA (not_mem_placeholder (by decide) _) hres) hokr
      simp only [stageM, itemM, bump, nodesOf, hk, cls_code, if_true, List.append_assoc,
        show (0 : Nat) < 1 by omega, show (0 : Nat) < 2 by omega, show ¬ ((0 : Nat) = 1) by omega,
        show ¬ ((0 : Nat) = 2) by omega, if_false] at this ⊢
      exact this
    | em st' d w =>
      rw [hk] at hs
      obtain ⟨hd, hw, hh⟩ := hs
      by_cases hds : d = '*'
      · subst hds
        have hc := cls_star st' w
        obtain ⟨q, hq⟩ := delim_cons ⟨st', '*', w, []⟩
        have hE : emSrc ⟨st', '*', w, []⟩ = '*' :: (q ++ (w ++ EmSeg.delim ⟨st', '*', w, []⟩)) := by
          rw [emSrc, hq]; rfl
        have hhm := emHandle_seg ⟨st', '*', w, []⟩ (Or.inl rfl) hw A
          (resid cfg.esc m s.t ++ stageM cfg.esc 1 true (m + escCount cfg.esc s.t) n0 (n1 + 1) n2 r)
          (fun e => absurd (show ('*' : Char) = '_' from e) (by decide))
        have hstep := applyPattern_em cfg f 14 (Or.inl rfl) '*' rfl A (emSrc ⟨st', '*', w, []⟩)
          (resid cfg.esc m s.t ++ stageM cfg.esc 1 true (m + escCount cfg.esc s.t) n0 (n1 + 1) n2 r) hA _ hE st' w hw
          st hhm
        have := ih (A ++ (placeholder st.stash.length ++ resid cfg.esc m s.t)) (m + escCount cfg.esc s.t) n0
          (n1 + 1) n2 { st with stash := st.stash ++ [.node (emEl st' w)] } g
          (not_mem_of_append3 hA (not_mem_placeholder (by decide) _) hres) hokr
        simp only [stageM, itemM, bump, nodesOf, hk, hc, if_true, List.append_assoc, Nat.lt_irrefl,
          show (1 : Nat) < 2 by omega, show ¬ ((1 : Nat) = 0) by omega,
          show ¬ ((1 : Nat) = 2) by omega, if_false, List.length_cons, MKind.src, MKind.node] at this ⊢
        rw [show g + ((nodesOf 1 r).length + 1) = (g + (nodesOf 1 r).length) + 1 by omega,
          hiLoop_step _ _ _ 14 0 st (by omega) _ _ _ _ hstep]
        simp only [if_true]
        rw [this]
        simp
      · have hdu : d = '_' := by rcases hd with e | e; exact absurd e hds; exact e
        have hc := cls_under st' d w hds
        have hsrc : '*' ∉ emSrc ⟨st', d, w, []⟩ := by
          intro hx
          rcases mem_emSrc hx with e | e
          · exact hds e.symm
          · exact (wordCh_facts (hw.2 _ e)).1 rfl
        have := ih (A ++ (emSrc ⟨st', d, w, []⟩ ++ resid cfg.esc m s.t)) (m + escCount cfg.esc s.t) n0 n1 (n2 + 1)
          st g (not_mem_of_append3 hA hsrc hres) hokr
        simp only [stageM, itemM, bump, nodesOf, hk, hc, if_true, List.append_assoc, Nat.lt_irrefl,
          show ¬ ((2 : Nat) < 1) by omega, show ¬ ((2 : Nat) = 0) by omega,
          show ¬ ((2 : Nat) = 1) by omega, if_false, MKind.src] at this ⊢
        exact this


/-- the character after an item is not a word character: an escape, a non-word character, the end, or an item that is
    a placeholder by the time the `_` pass runs (code span, `*` emphasis) -/
def nextNWM (esc : List Char) (t : Str) (r : List MSeg) : Prop :=
  match t, r with
  | c :: _, _ => c ∈ esc ∨ isWord c = false
  | [], [] => True
  | [], s' :: _ => s'.k.cls ≠ 2

/-- every `_` emphasis stands between characters that are not word characters -/
def UnderOKM (esc : List Char) : Bool → List MSeg → Prop
  | _, [] => True
  | pw, s :: r => (s.k.cls = 2 → pw = false ∧ nextNWM esc s.t r) ∧ UnderOKM esc (lastW esc s.t) r

theorem isW_head_nextM (esc : List Char) (t : Str) (m n0 n1 n2 : Nat) (r : List MSeg) (h : nextNWM esc t r) :
    isW (resid esc m t ++ stageM esc 2 true (m + escCount esc t) n0 n1 n2 r).head? = false := by
  cases t with
  | cons c t' =>
    by_cases hc : c ∈ esc
    · simp only [resid, List.contains_eq_mem, hc, decide_true, if_true, List.append_assoc]
      rw [head_placeholder]; decide
    · have : isWord c = false := by
        rcases h with h | h
        · exact absurd h hc
        · exact h
      simp [resid, hc, isW, this]
  | nil =>
    cases r with
    | nil => simp [resid, stageM, isW]
    | cons s' r' =>
      have hs : s'.k.cls ≠ 2 := h
      have hlt : s'.k.cls < 2 := by
        have : s'.k.cls ≤ 2 := by
          cases s'.k with
          | code _ _ => simp [MKind.cls]
          | em _ d _ => simp only [MKind.cls]; split <;> omega
        omega
      simp only [resid, List.nil_append, stageM, itemM, hlt, if_true]
      rw [head_placeholder]; decide

theorem noTriple_stage2M {esc : List Char} (h1 : '*' ∈ esc) (h2 : '_' ∈ esc) (segs : List MSeg) :
    ∀ (m n0 n1 n2 : Nat) (pw : Bool), MSegsOK segs → UnderOKM esc pw segs →
      NoTriple '_' (stageM esc 2 true m n0 n1 n2 segs) := by
  induction segs with
  | nil => intro _ _ _ _ _ _ _; exact noTriple_nil _
  | cons s r ih =>
    intro m n0 n1 n2 pw hok hu
    have hokr : MSegsOK r := fun x hx => hok x (List.mem_cons_of_mem _ hx)
    have hrest := ih (m + escCount esc s.t) (bump 0 s.k n0) (bump 1 s.k n1) (bump 2 s.k n2) _ hokr hu.2
    have hres : '_' ∉ resid esc m s.t := fun h => (resid_no_delim h1 h2 s.t m _ h).2 rfl
    have hZ := noTriple_of_no_c '_' _ _ hres hrest
    simp only [stageM, if_true]
    by_cases hc : s.k.cls < 2
    · simp only [itemM, hc, if_true]
      exact noTriple_of_no_c '_' _ _ (not_mem_placeholder (by decide) _) hZ
    · cases hk : s.k with
      | code n b => rw [hk, cls_code] at hc; omega
      | em st d w =>
        have hs := hok s List.mem_cons_self
        rw [hk] at hs hc
        obtain ⟨hd, hw, hh⟩ := hs
        have hdu : d = '_' := by
          rcases hd with e | e
          · rw [e, cls_star] at hc; omega
          · exact e
        subst hdu
        have hc2 : s.k.cls = 2 := by rw [hk]; exact cls_under st '_' w (by decide)
        have hnext := (hu.1 hc2).2
        have hhead := isW_under_head (isW_head_nextM esc s.t m (bump 0 s.k n0) (bump 1 s.k n1) (bump 2 s.k n2) r hnext)
        simp only [itemM, hc, if_false, MKind.src, emSrc, EmSeg.delim, List.append_assoc]
        have hm : (if st then 2 else 1) ≤ 2 := by cases st <;> simp
        rw [hk] at hhead hZ
        refine noTriple_delim '_' _ ?_ (noTriple_of_no_c '_' _ _ (fun h => (wordCh_facts (hw.2 _ h)).2.1 rfl)
          (noTriple_delim '_' _ hhead hZ _ hm)) _ hm
        cases hwc : w with
        | nil => exact absurd hwc hw.1
        | cons x w' =>
          have := (wordCh_facts (hw.2 x (by rw [hwc]; simp))).2.1
          simpa using this

theorem under_passM (cfg : Inline.Cfg) (f : Nat) (h1 : '*' ∈ cfg.esc) (h2 : '_' ∈ cfg.esc) (segs : List MSeg) :
    ∀ (A : Str) (m n0 n1 n2 : Nat) (st : St) (g : Nat), '_' ∉ A → MSegsOK segs →
      UnderOKM cfg.esc (isW (lastOr none A)) segs →
      hiLoop (applyPattern cfg (fun d p s => handleInline cfg (f + 1) d p s)) (g + (nodesOf 2 segs).length)
        (A ++ stageM cfg.esc 2 true m n0 n1 n2 segs) 15 0 st =
      hiLoop (applyPattern cfg (fun d p s => handleInline cfg (f + 1) d p s)) g
        (A ++ stageM cfg.esc 3 true m n0 n1 st.stash.length segs) 15 0
        { st with stash := st.stash ++ nodesOf 2 segs } := by
  induction segs with
  | nil => intro A m n0 n1 n2 st g _ _ _; simp [stageM, nodesOf]
  | cons s r ih =>
    intro A m n0 n1 n2 st g hA hok hu
    have hokr : MSegsOK r := fun x hx => hok x (List.mem_cons_of_mem _ hx)
    have hs := hok s List.mem_cons_self
    have hres : '_' ∉ resid cfg.esc m s.t := fun h => (resid_no_delim h1 h2 s.t m _ h).2 rfl
    by_cases hc : s.k.cls < 2
    · -- a placeholder already
      have hc3 : s.k.cls < 3 := by omega
      have hne2 : ¬ s.k.cls = 2 := by omega
      generalize hn : (if s.k.cls = 0 then n0 else if s.k.cls = 1 then n1 else n2) = n
      have hn' : (if s.k.cls = 0 then n0 else if s.k.cls = 1 then n1 else st.stash.length) = n := by
        rw [← hn]; by_cases h0 : s.k.cls = 0
        · simp [h0]
        · have : s.k.cls = 1 := by omega
          simp [this]
      have hu' : UnderOKM cfg.esc (isW (lastOr none (A ++ (placeholder n ++ resid cfg.esc m s.t)))) r := by
        rw [isW_lastOr_seg]; exact hu.2
      have := ih (A ++ (placeholder n ++ resid cfg.esc m s.t)) (m + escCount cfg.esc s.t) (bump 0 s.k n0)
        (bump 1 s.k n1) n2 st g (not_mem_of_append3 hA (not_mem_placeholder (by decide) _) hres) hokr hu'
      simp only [stageM, itemM, nodesOf, hc, hc3, hne2, hn, hn', if_true, if_false, List.append_assoc,
        show bump 2 s.k n2 = n2 by simp [bump, hne2],
        show bump 2 s.k st.stash.length = st.stash.length by simp [bump, hne2]] at this ⊢
      exact this
    · cases hk : s.k with
      | code n b => rw [hk, cls_code] at hc; omega
      | em st' d w =>
        rw [hk] at hs hc
        obtain ⟨hd, hw, hh⟩ := hs
        have hdu : d = '_' := by
          rcases hd with e | e
          · rw [e, cls_star] at hc; omega
          · exact e
        subst hdu
        have hcl := cls_under st' '_' w (by decide)
        have hc2 : s.k.cls = 2 := by rw [hk]; exact hcl
        obtain ⟨hpw, hnext⟩ := hu.1 hc2
        obtain ⟨q, hq⟩ := delim_cons ⟨st', '_', w, []⟩
        have hE : emSrc ⟨st', '_', w, []⟩ = '_' :: (q ++ (w ++ EmSeg.delim ⟨st', '_', w, []⟩)) := by
          rw [emSrc, hq]; rfl
        have hhm := emHandle_seg ⟨st', '_', w, []⟩ (Or.inr rfl) hw A
          (resid cfg.esc m s.t ++ stageM cfg.esc 2 true (m + escCount cfg.esc s.t) n0 n1 (n2 + 1) r)
          (fun _ => ⟨hpw, isW_head_nextM cfg.esc s.t m n0 n1 (n2 + 1) r hnext,
            noTriple_of_no_c '_' _ _ hres (noTriple_stage2M h1 h2 r _ _ _ _ _ hokr hu.2)⟩)
        have hstep := applyPattern_em cfg f 15 (Or.inr rfl) '_' rfl A (emSrc ⟨st', '_', w, []⟩)
          (resid cfg.esc m s.t ++ stageM cfg.esc 2 true (m + escCount cfg.esc s.t) n0 n1 (n2 + 1) r) hA _ hE st' w hw
          st hhm
        have hu' : UnderOKM cfg.esc (isW (lastOr none (A ++ (placeholder st.stash.length ++ resid cfg.esc m s.t)))) r := by
          rw [isW_lastOr_seg]; exact hu.2
        have := ih (A ++ (placeholder st.stash.length ++ resid cfg.esc m s.t)) (m + escCount cfg.esc s.t) n0 n1
          (n2 + 1) { st with stash := st.stash ++ [.node (emEl st' w)] } g
          (not_mem_of_append3 hA (not_mem_placeholder (by decide) _) hres) hokr hu'
        simp only [stageM, itemM, bump, nodesOf, hk, hcl, if_true, List.append_assoc, Nat.lt_irrefl,
          show (2 : Nat) < 3 by omega, show ¬ ((2 : Nat) = 0) by omega,
          show ¬ ((2 : Nat) = 1) by omega, if_false, List.length_cons, MKind.src, MKind.node] at this ⊢
        rw [show g + ((nodesOf 2 r).length + 1) = (g + (nodesOf 2 r).length) + 1 by omega,
          hiLoop_step _ _ _ 15 0 st (by omega) _ _ _ _ hstep]
        simp only [if_true]
        rw [this]
        simp


/-! #### the whole pattern loop -/

/-- where a character of such a line comes from, once the code spans are out -/
def FromM (esc : List Char) (lv : Nat) (segs : List MSeg) (c : Char) : Prop :=
  phChar c = true ∨ (∃ s ∈ segs, c ∈ s.t ∧ c ∉ esc) ∨
    (∃ s ∈ segs, lv ≤ s.k.cls ∧ ∃ st d w, s.k = .em st d w ∧ (d = '*' ∨ d = '_') ∧ WordOK w ∧ (c = d ∨ c ∈ w))

theorem FromM.cons {esc : List Char} {lv : Nat} {s : MSeg} {r : List MSeg} {c : Char} (h : FromM esc lv r c) :
    FromM esc lv (s :: r) c := by
  rcases h with h | ⟨x, hx, h⟩ | ⟨x, hx, h⟩
  · exact Or.inl h
  · exact Or.inr (Or.inl ⟨x, List.mem_cons_of_mem _ hx, h⟩)
  · exact Or.inr (Or.inr ⟨x, List.mem_cons_of_mem _ hx, h⟩)

theorem mem_stageM {esc : List Char} {c : Char} (lv : Nat) (hlv : 1 ≤ lv) (segs : List MSeg) :
    ∀ m n0 n1 n2, MSegsOK segs → c ∈ stageM esc lv true m n0 n1 n2 segs → FromM esc lv segs c := by
  induction segs with
  | nil => intro m n0 n1 n2 _ h; simp [stageM] at h
  | cons s r ih =>
    intro m n0 n1 n2 hok h
    simp only [stageM, if_true, List.mem_append] at h
    rcases h with h | h | h
    · rcases itemM_cases lv n0 n1 n2 s.k hlv (hok s List.mem_cons_self) with ⟨n, e⟩ | ⟨st, d, w, hk, e, hd, hw, _⟩
      · rw [e] at h; exact Or.inl (phChar_of_mem_placeholder h)
      · rw [e] at h
        have hcl : lv ≤ s.k.cls := by
          unfold itemM at e
          by_cases hlt : s.k.cls < lv
          · exfalso
            simp only [hlt, if_true] at e
            have h1 := noTickBs_placeholder (if s.k.cls = 0 then n0 else if s.k.cls = 1 then n1 else n2)
            have : (emSrc ⟨st, d, w, []⟩).head? = some d := by
              obtain ⟨q, hq⟩ := delim_cons ⟨st, d, w, []⟩
              simp [emSrc, hq]
            rw [← e, placeholder, phPrefix] at this
            simp at this
            rcases hd with e' | e' <;> rw [e'] at this <;> exact absurd this (by decide)
          · omega
        exact Or.inr (Or.inr ⟨s, List.mem_cons_self, hcl, st, d, w, hk, hd, hw, mem_emSrc h⟩)
    · rcases mem_resid h with h | h
      · exact Or.inr (Or.inl ⟨s, List.mem_cons_self, h⟩)
      · exact Or.inl h
    · exact (ih _ _ _ _ (fun x hx => hok x (List.mem_cons_of_mem _ hx)) h).cons

theorem nodes_length (segs : List MSeg) (hok : MSegsOK segs) :
    (nodesOf 0 segs).length + (nodesOf 1 segs).length + (nodesOf 2 segs).length = segs.length := by
  induction segs with
  | nil => rfl
  | cons s r ih =>
    have ihr := ih (fun x hx => hok x (List.mem_cons_of_mem _ hx))
    have : s.k.cls = 0 ∨ s.k.cls = 1 ∨ s.k.cls = 2 := by
      cases s.k with
      | code _ _ => exact Or.inl rfl
      | em _ d _ => simp only [MKind.cls]; split <;> simp
    rcases this with h | h | h <;> simp [nodesOf, h] <;> omega

theorem src_length_pos (k : MKind) (hk : MKindOK k) : 0 < k.src.length := by
  cases k with
  | code n b =>
    obtain ⟨⟨j, hj⟩, _⟩ := hk
    simp [MKind.src, spanSrc, ticks, hj]; omega
  | em st d w =>
    have := emSrc_ne_nil ⟨st, d, w, []⟩
    cases hx : emSrc ⟨st, d, w, []⟩ with
    | nil => exact absurd hx this
    | cons a b => simp [MKind.src, hx]

theorem rawM_length (esc : List Char) (segs : List MSeg) (hok : MSegsOK segs) :
    escCountM esc segs + segs.length ≤ (rawM esc segs).length := by
  induction segs with
  | nil => simp [escCountM, rawM]
  | cons s r ih =>
    have h1 := escCount_le esc s.t
    have h2 := src_length_pos s.k (hok s List.mem_cons_self)
    have h3 := ih (fun x hx => hok x (List.mem_cons_of_mem _ hx))
    simp only [escCountM, rawM, List.length_append, List.length_cons] at h3 ⊢
    omega

theorem stashOfM_length (esc : List Char) (segs : List MSeg) : (stashOfM esc segs).length = escCountM esc segs := by
  induction segs with
  | nil => rfl
  | cons s r ih => simp [stashOfM, escCountM, escCount, ih]


/-- **the pattern loop** on a line of escaped text, code spans and emphasised words: the code spans become
    placeholders, then the escapes, then the `*` emphases, then the `_` emphases -/
theorem handleInlineTop_mix (cfg : Inline.Cfg) (hE : EscOK cfg.esc) (t0 : Str) (segs : List MSeg) (st : St)
    (hok : MSegsOK segs) (hj : junctionsOK t0 false segs) (hu : UnderOKM cfg.esc (lastW cfg.esc t0) segs)
    (hplain : ∀ c, (c ∈ t0 ∨ ∃ s ∈ segs, c ∈ s.t) → c ≠ '&' ∧ c ≠ '\n') :
    handleInlineTop cfg (escAll cfg.esc t0 ++ rawM cfg.esc segs) st =
      some (resid cfg.esc (st.stash.length + (nodesOf 0 segs).length) t0 ++
          stageM cfg.esc 3 true (st.stash.length + (nodesOf 0 segs).length + escCount cfg.esc t0) st.stash.length
            (st.stash.length + (nodesOf 0 segs).length + escCount cfg.esc t0 + escCountM cfg.esc segs)
            (st.stash.length + (nodesOf 0 segs).length + escCount cfg.esc t0 + escCountM cfg.esc segs +
              (nodesOf 1 segs).length) segs,
        { st with stash := st.stash ++ (nodesOf 0 segs ++ (stashOf cfg.esc t0 ++ stashOfM cfg.esc segs) ++
            nodesOf 1 segs ++ nodesOf 2 segs) }) := by
  generalize hraw : escAll cfg.esc t0 ++ rawM cfg.esc segs = raw
  have hlen : escCount cfg.esc t0 + escCountM cfg.esc segs + segs.length ≤ raw.length := by
    have h1 := escCount_le cfg.esc t0
    have h2 := rawM_length cfg.esc segs hok
    rw [← hraw, List.length_append]; omega
  have hsu := nodes_length segs hok
  obtain ⟨x, hx⟩ : ∃ x, loopFuel raw.length =
      (((((((((((x + 1) + 1) + (nodesOf 2 segs).length) + 1) + (nodesOf 1 segs).length) + 1) + 11) + 1) +
        escCountM cfg.esc segs) + escCount cfg.esc t0) + 1) + (nodesOf 0 segs).length :=
    ⟨loopFuel raw.length - (escCount cfg.esc t0 + escCountM cfg.esc segs + segs.length + 17), by
      have := CodeLaw.loopFuel_ge raw.length; omega⟩
  unfold handleInlineTop depthFuel
  rw [show raw.length + 20 = ((raw.length + 18) + 1) + 1 from rfl]
  unfold handleInline
  rw [hx]
  generalize hhi : (fun d p s => handleInline cfg ((raw.length + 18) + 1) d p s) = hi
  rw [← hraw, ← stageM_raw cfg.esc segs 0 0 0 0]
  -- pattern 0
  have e0 := code_pass cfg hi hE.bs hE.tick segs [] t0 false 0 0 0 0 st
    (((((((((((x + 1) + 1) + (nodesOf 2 segs).length) + 1) + (nodesOf 1 segs).length) + 1) + 11) + 1) +
        escCountM cfg.esc segs) + escCount cfg.esc t0) + 1) btOK_nil (by simp) hok hj
  simp only [List.nil_append] at e0
  rw [e0]
  generalize hn0 : st.stash.length = n0
  have hbt : btFind (escAll cfg.esc t0 ++ stageM cfg.esc 1 false 0 n0 0 0 segs) 0 = none := by
    simp only [btFind, show ¬ (0 > (escAll cfg.esc t0 ++ stageM cfg.esc 1 false 0 n0 0 0 segs).length) by omega,
      if_false, if_true, List.drop_zero]
    have := btScan_stage1 hE.bs hE.tick segs [] t0 0 n0 0 0 none 0 btOK_nil (by simp) hok
    simpa using this
  rw [hiLoop_step _ _ _ 0 0 _ (by omega) _ _ _ _ (applyPattern_zero_none cfg _ _ _ hbt)]
  simp only [Bool.false_eq_true, if_false, Nat.zero_add]
  -- pattern 1
  have e1 := escape_chunk cfg hi hE.bs (stageM cfg.esc 1 false 0 n0 0 0 segs) t0 []
    { st with stash := st.stash ++ nodesOf 0 segs }
    (((((((((x + 1) + 1) + (nodesOf 2 segs).length) + 1) + (nodesOf 1 segs).length) + 1) + 11) + 1) +
        escCountM cfg.esc segs) (by simp)
  simp only [List.nil_append] at e1
  rw [e1]
  simp only [List.length_append, hn0]
  generalize hne : n0 + (nodesOf 0 segs).length = ne
  have hbs0 : '\\' ∉ resid cfg.esc ne t0 := bs_not_mem_resid hE.bs _ _
  rw [esc_passM cfg hi hE.bs 1 (by omega) segs _ _ _ _ _ _ _ hbs0 hok]
  simp only [List.length_append, hn0, hne]
  have hlen0 : (stashOf cfg.esc t0).length = escCount cfg.esc t0 := rfl
  rw [hlen0]
  generalize hm1 : ne + escCount cfg.esc t0 = m1
  generalize hD1 : resid cfg.esc ne t0 ++ stageM cfg.esc 1 true m1 n0 0 0 segs = D1
  have hchars : ∀ (lv : Nat), 1 ≤ lv → ∀ (a b c : Nat) (ch : Char),
      ch ∈ resid cfg.esc ne t0 ++ stageM cfg.esc lv true m1 a b c segs →
      (ch ∈ t0 ∧ ch ∉ cfg.esc) ∨ FromM cfg.esc lv segs ch := by
    intro lv hlv a b c ch hc
    rcases List.mem_append.1 hc with h | h
    · rcases mem_resid h with h | h
      · exact Or.inl h
      · exact Or.inr (Or.inl h)
    · exact Or.inr (mem_stageM lv hlv segs _ _ _ _ hok h)
  have hfacts : ∀ (lv : Nat), 1 ≤ lv → ∀ (a b c : Nat) (ch : Char),
      ch ∈ resid cfg.esc ne t0 ++ stageM cfg.esc lv true m1 a b c segs →
      ch ≠ '\\' ∧ ch ≠ '[' ∧ ch ≠ '!' ∧ ch ≠ '&' ∧ ch ≠ '\n' ∧ (ch = '*' → lv ≤ 1) ∧ (ch = '_' → lv ≤ 2) := by
    intro lv hlv a b c ch hc
    rcases hchars lv hlv a b c ch hc with ⟨h, hn⟩ | h | ⟨s, hs, h, hn⟩ | ⟨s, hs, hcl, st', d, w, hk, hd, hw, h⟩
    · have := hplain ch (Or.inl h)
      exact ⟨fun e => hn (e ▸ hE.bs), fun e => hn (e ▸ hE.lbr), fun e => hn (e ▸ hE.bang), this.1, this.2,
        fun e => absurd (e ▸ hE.star) hn, fun e => absurd (e ▸ hE.under) hn⟩
    · have := phChar_facts h
      exact ⟨this.2.2.2.2.2.1, this.1, this.2.1, this.2.2.1, this.2.2.2.2.2.2.2, fun e => absurd e this.2.2.2.1,
        fun e => absurd e this.2.2.2.2.1⟩
    · have := hplain ch (Or.inr ⟨s, hs, h⟩)
      exact ⟨fun e => hn (e ▸ hE.bs), fun e => hn (e ▸ hE.lbr), fun e => hn (e ▸ hE.bang), this.1, this.2,
        fun e => absurd (e ▸ hE.star) hn, fun e => absurd (e ▸ hE.under) hn⟩
    · rcases h with h | h
      · subst h
        have hcls : s.k.cls = if ch = '*' then 1 else 2 := by rw [hk]; rfl
        rcases hd with e | e <;> subst e
        · refine ⟨by decide, by decide, by decide, by decide, by decide, fun _ => ?_, fun e => absurd e (by decide)⟩
          simp at hcls; omega
        · refine ⟨by decide, by decide, by decide, by decide, by decide, fun e => absurd e (by decide), fun _ => ?_⟩
          simp at hcls; omega
      · have := wordCh_facts (hw.2 _ h)
        exact ⟨this.2.2.2.1, this.2.2.2.2.1, this.2.2.2.2.2.1, this.2.2.2.2.2.2.1, this.2.2.2.2.2.2.2.1,
          fun e => absurd e this.1, fun e => absurd e this.2.1⟩
  have hbs1 : '\\' ∉ D1 := by
    intro h; rw [← hD1] at h; exact (hfacts 1 (by omega) _ _ _ _ h).1 rfl
  rw [hiLoop_step _ _ _ 1 0 _ (by omega) _ _ _ _ (applyPattern_esc_none cfg hi D1 _ hbs1)]
  simp only [Bool.false_eq_true, if_false]
  -- patterns 2–12
  have hmid : Mid D1 := by
    intro c hc
    rw [← hD1] at hc
    have := hfacts 1 (by omega) _ _ _ _ hc
    exact ⟨this.2.1, this.2.2.1, this.2.2.2.1, this.2.2.2.2.1⟩
  rw [show 1 + 1 = 2 from rfl, hiLoop_mid cfg hi D1 _ hmid _ 11 2 rfl (by omega)]
  -- pattern 13
  have hns : nsFind D1 0 = none := by
    rw [← hD1]
    simp only [nsFind, show ¬ (0 > (resid cfg.esc ne t0 ++ stageM cfg.esc 1 true m1 n0 0 0 segs).length) by omega,
      if_false, if_true, List.drop_zero]
    rw [nsScan_text _ (resid_no_delim hE.star hE.under t0 ne)]
    exact nsScan_stageM hE.star hE.under 1 (by omega) segs _ _ _ _ _ _ hok
  rw [hiLoop_step _ _ _ 13 0 _ (by omega) _ _ _ _ (applyPattern_13 cfg hi D1 _ hns)]
  simp only [Bool.false_eq_true, if_false]
  -- pattern 14
  have hs0 : '*' ∉ resid cfg.esc ne t0 := fun h => (resid_no_delim hE.star hE.under t0 ne _ h).1 rfl
  rw [show 13 + 1 = 14 from rfl, ← hD1, ← hhi, star_passM cfg (raw.length + 18) hE.star hE.under segs _ _ _ _ _ _ _ hs0 hok]
  rw [hhi]
  simp only [List.length_append, hlen0, stashOfM_length, hn0, hne, hm1]
  generalize hn1 : m1 + escCountM cfg.esc segs = n1
  have hn1' : ne + (escCount cfg.esc t0 + escCountM cfg.esc segs) = n1 := by omega
  try simp only [hn1']
  have hstar2 : '*' ∉ resid cfg.esc ne t0 ++ stageM cfg.esc 2 true m1 n0 n1 0 segs := by
    intro h
    have := (hfacts 2 (by omega) _ _ _ _ h).2.2.2.2.2.1 rfl
    omega
  rw [hiLoop_step _ _ _ 14 0 _ (by omega) _ _ _ _
    (applyPattern_em_none cfg hi 14 (Or.inl rfl) _ _ (by simpa using hstar2))]
  simp only [Bool.false_eq_true, if_false]
  -- pattern 15
  have hu0 : '_' ∉ resid cfg.esc ne t0 := fun h => (resid_no_delim hE.star hE.under t0 ne _ h).2 rfl
  have hpw : isW (lastOr none (resid cfg.esc ne t0)) = lastW cfg.esc t0 := by
    rw [isW_lastOr_resid]
    by_cases ht : t0 = []
    · subst ht; rfl
    · simp [ht]
  rw [show 14 + 1 = 15 from rfl, ← hhi,
    under_passM cfg (raw.length + 18) hE.star hE.under segs _ _ _ _ _ _ _ hu0 hok (by rw [hpw]; exact hu)]
  rw [hhi]
  simp only [List.length_append, hlen0, stashOfM_length, hn0, hne, hm1]
  have hund3 : ∀ n2, '_' ∉ resid cfg.esc ne t0 ++ stageM cfg.esc 3 true m1 n0 n1 n2 segs := by
    intro n2 h
    have := (hfacts 3 (by omega) _ _ _ _ h).2.2.2.2.2.2 rfl
    omega
  rw [hiLoop_step _ _ _ 15 0 _ (by omega) _ _ _ _
    (applyPattern_em_none cfg hi 15 (Or.inr rfl) _ _ (by simpa using hund3 _))]
  simp only [Bool.false_eq_true, if_false]
  simp only [hiLoop, patternCount, show ¬ (15 + 1 < 16) by omega, if_false]
  simp [List.append_assoc, hn1]


/-! ### 26. `__processPlaceholders` on the residue of a mixed line -/

theorem cls_lt3 (k : MKind) : k.cls < 3 := by
  cases k with
  | code _ _ => simp [MKind.cls]
  | em _ d _ => simp only [MKind.cls]; split <;> omega

/-- the index of the placeholder of an item -/
def idxM (n0 n1 n2 : Nat) (k : MKind) : Nat := if k.cls = 0 then n0 else if k.cls = 1 then n1 else n2

theorem itemM3 (n0 n1 n2 : Nat) (k : MKind) : itemM 3 n0 n1 n2 k = placeholder (idxM n0 n1 n2 k) := by
  simp [itemM, cls_lt3, idxM]

/-- the stash entries of the items are where the placeholders say -/
def MStash (S : List StashItem) : Nat → Nat → Nat → List MSeg → Prop
  | _, _, _, [] => True
  | n0, n1, n2, s :: r => S[idxM n0 n1 n2 s.k]? = some (.node s.k.node) ∧
      MStash S (bump 0 s.k n0) (bump 1 s.k n1) (bump 2 s.k n2) r

/-- the state of the loop after the items: each becomes a node, the text after it its tail -/
def foldM (esc : List Char) : List MSeg → List Node × Node → List Node × Node
  | [], rp => rp
  | s :: r, rp => foldM esc r (lt (coded esc s.t) (s.k.node :: rp.1, rp.2))

def costM (esc : List Char) : Str → List MSeg → Nat
  | t, [] => escCount esc t + 1
  | t, s :: r => escCount esc t + 1 + costM esc s.t r

theorem ppLoop_mix (esc : List Char) (S : List StashItem) (nested : Node → Option Node) (segs : List MSeg) :
    ∀ (P t : Str) (m n0 n1 n2 : Nat) (rp : List Node × Node) (g : Nat) (rest : List StashItem), STX ∉ t →
      (∀ s ∈ segs, STX ∉ s.t ∧ nested s.k.node = some s.k.node) →
      S.drop m = stashOf esc t ++ stashOfM esc segs ++ rest → MStash S n0 n1 n2 segs →
      ppLoop S nested (P ++ resid esc m t ++ stageM esc 3 true (m + escCount esc t) n0 n1 n2 segs) false true
        (g + costM esc t segs) P.length rp.1 rp.2 =
        some ((foldM esc segs (lt (coded esc t) rp)).1.reverse, (foldM esc segs (lt (coded esc t) rp)).2) := by
  induction segs with
  | nil =>
    intro P t m n0 n1 n2 rp g rest ht _ hS _
    have := ppLoop_seg esc S nested [] (g + 1) _ (nextOK_end S nested g) t P [] m rp (stashOfM esc [] ++ rest)
      (by simp) ht (by simpa [List.append_assoc] using hS)
    simp only [List.append_nil, List.nil_append] at this
    simp only [stageM, List.append_nil, costM, foldM]
    rw [show g + (escCount esc t + 1) = g + 1 + escCount esc t by omega, this]
  | cons s r ih =>
    intro P t m n0 n1 n2 rp g rest ht hsegs hS hst
    obtain ⟨hs1, hs2⟩ := hsegs s List.mem_cons_self
    have hK := nextOK_node S nested (g + costM esc s.t r) (idxM n0 n1 n2 s.k)
      (resid esc (m + escCount esc t) s.t ++ stageM esc 3 true (m + escCount esc t + escCount esc s.t)
        (bump 0 s.k n0) (bump 1 s.k n1) (bump 2 s.k n2) r)
      s.k.node hst.1 hs2
    have := ppLoop_seg esc S nested _ _ _ hK t P [] m rp (stashOfM esc (s :: r) ++ rest)
      (by simp) ht (by simpa [List.append_assoc] using hS)
    simp only [List.append_nil, List.nil_append] at this
    simp only [stageM, itemM3, costM, foldM, if_true]
    rw [show g + (escCount esc t + 1 + costM esc s.t r) = g + costM esc s.t r + 1 + escCount esc t by omega,
      this]
    have hS' : S.drop (m + escCount esc t) = stashOf esc s.t ++ stashOfM esc r ++ rest := by
      have : S.drop (m + escCount esc t) = (S.drop m).drop (escCount esc t) := by rw [List.drop_drop]
      rw [this, hS]
      simp [escCount, stashOfM, List.append_assoc]
    have := ih (P ++ resid esc m t ++ placeholder (idxM n0 n1 n2 s.k)) s.t (m + escCount esc t)
      (bump 0 s.k n0) (bump 1 s.k n1) (bump 2 s.k n2)
      (s.k.node :: (lt (coded esc t) rp).1, (lt (coded esc t) rp).2) g rest hs1
      (fun x hx => hsegs x (List.mem_cons_of_mem _ hx)) hS' hst.2
    simp only [List.append_assoc] at this ⊢
    exact this

/-- an item's element with the text that follows it as its tail -/
def tailedM (esc : List Char) (s : MSeg) : Node := { s.k.node with tail := optStr (coded esc s.t) }

theorem lt_knode (x : Str) (k : MKind) (res : List Node) (par : Node) :
    lt x (k.node :: res, par) = ({ k.node with tail := optStr x } :: res, par) := by
  cases k with
  | code n b => exact lt_code x _ res par
  | em st d w => exact lt_emEl x st w res par

theorem foldM_closed (esc : List Char) (segs : List MSeg) :
    ∀ (res : List Node) (par : Node), foldM esc segs (res, par) = ((segs.map (tailedM esc)).reverse ++ res, par) := by
  induction segs with
  | nil => intro res par; rfl
  | cons s r ih =>
    intro res par
    simp only [foldM, lt_knode, ih, List.map_cons, List.reverse_cons, List.append_assoc, List.singleton_append,
      tailedM]

theorem costM_le (esc : List Char) (segs : List MSeg) :
    ∀ (t : Str) (m n0 n1 n2 : Nat),
      costM esc t segs ≤ (resid esc m t ++ stageM esc 3 true (m + escCount esc t) n0 n1 n2 segs).length + 1 := by
  induction segs with
  | nil =>
    intro t m n0 n1 n2
    have := escCount_le_resid esc t m
    simp only [costM, stageM, List.append_nil]; omega
  | cons s r ih =>
    intro t m n0 n1 n2
    have h1 := escCount_le_resid esc t m
    have h2 := ih s.t (m + escCount esc t) (bump 0 s.k n0) (bump 1 s.k n1) (bump 2 s.k n2)
    have h3 := placeholder_length_pos (idxM n0 n1 n2 s.k)
    simp only [costM, stageM, itemM3, if_true, List.length_append] at h2 ⊢
    omega

theorem mStash_nodes (segs : List MSeg) :
    ∀ (B C D : List StashItem), MStash (B ++ nodesOf 0 segs ++ C ++ nodesOf 1 segs ++ D ++ nodesOf 2 segs)
      B.length (B.length + (nodesOf 0 segs).length + C.length)
      (B.length + (nodesOf 0 segs).length + C.length + (nodesOf 1 segs).length + D.length) segs := by
  induction segs with
  | nil => intro B C D; trivial
  | cons s r ih =>
    intro B C D
    have hcl : s.k.cls = 0 ∨ s.k.cls = 1 ∨ s.k.cls = 2 := by have := cls_lt3 s.k; omega
    rcases hcl with h | h | h
    · simp only [MStash, idxM, bump, nodesOf, h, if_true, show ¬ ((0 : Nat) = 1) by omega,
        show ¬ ((0 : Nat) = 2) by omega, if_false]
      refine ⟨by simp, ?_⟩
      have := ih (B ++ [.node s.k.node]) C D
      simp only [List.length_append, List.length_cons, List.length_nil, List.append_assoc,
        List.cons_append, List.nil_append] at this ⊢
      rw [show B.length + ((nodesOf 0 r).length + 1) + C.length = B.length + (0 + 1) + (nodesOf 0 r).length + C.length
        by omega]
      exact this
    · simp only [MStash, idxM, bump, nodesOf, h, if_true, show ¬ ((1 : Nat) = 0) by omega,
        show ¬ ((1 : Nat) = 2) by omega, if_false]
      refine ⟨?_, ?_⟩
      · have hi : B.length + (nodesOf 0 r).length + C.length = (B ++ nodesOf 0 r ++ C).length := by
          simp [Nat.add_assoc]
        have hl : B ++ nodesOf 0 r ++ C ++ (StashItem.node s.k.node :: nodesOf 1 r) ++ D ++ nodesOf 2 r =
            (B ++ nodesOf 0 r ++ C) ++ (StashItem.node s.k.node :: (nodesOf 1 r ++ D ++ nodesOf 2 r)) := by
          simp [List.append_assoc]
        rw [hi, hl, List.getElem?_append_right (Nat.le_refl _)]
        simp
      · have := ih B (C ++ [.node s.k.node]) D
        simp only [List.length_append, List.length_cons, List.length_nil, List.append_assoc,
          List.cons_append, List.nil_append] at this ⊢
        rw [show B.length + (nodesOf 0 r).length + C.length + ((nodesOf 1 r).length + 1) + D.length =
          B.length + (nodesOf 0 r).length + (C.length + (0 + 1)) + (nodesOf 1 r).length + D.length by omega,
          show B.length + (nodesOf 0 r).length + C.length + 1 = B.length + (nodesOf 0 r).length + (C.length + (0 + 1))
          by omega]
        exact this
    · simp only [MStash, idxM, bump, nodesOf, h, if_true, show ¬ ((2 : Nat) = 0) by omega,
        show ¬ ((2 : Nat) = 1) by omega, if_false]
      refine ⟨?_, ?_⟩
      · have : B.length + (nodesOf 0 r).length + C.length + (nodesOf 1 r).length + D.length =
            (B ++ nodesOf 0 r ++ C ++ nodesOf 1 r ++ D).length := by simp [Nat.add_assoc]
        rw [this, List.getElem?_append_right (Nat.le_refl _)]
        simp
      · have := ih B C (D ++ [.node s.k.node])
        simp only [List.length_append, List.length_cons, List.length_nil, List.append_assoc,
          List.cons_append, List.nil_append] at this ⊢
        rw [show B.length + (nodesOf 0 r).length + C.length + (nodesOf 1 r).length + D.length + 1 =
          B.length + (nodesOf 0 r).length + C.length + (nodesOf 1 r).length + (D.length + (0 + 1)) by omega]
        exact this


/-- no STX in what the item's element shows -/
def MKind.clean : MKind → Prop
  | .code _ b => STX ∉ Code.codeEscape b
  | .em _ _ w => STX ∉ w

theorem procNode_knode (S : List StashItem) (f' : Nat) (hf : 0 < f') (k : MKind) (hk : k.clean) :
    procNode (fun d a p i => processPlaceholders S f' d a p i) k.node = some k.node := by
  cases k with
  | code n b => exact procNode_codeSpan S f' hf _ hk
  | em st d w => exact procNode_emEl S f' hf st w hk

/-- **`__processPlaceholders`** on the residue of a line of escaped text, code spans and emphasised words -/
theorem ppTop_mix (esc : List Char) (S0 : List StashItem) (html : List Str)
    (t0 : Str) (segs : List MSeg) (parent : Node) (hp1 : parent.text = none) (hp2 : parent.textAtomic = false)
    (ht0 : STX ∉ t0) (hsegs : ∀ s ∈ segs, STX ∉ s.t ∧ s.k.clean) (hne : t0 ≠ [] ∨ segs ≠ []) :
    ppTop { stash := S0 ++ (nodesOf 0 segs ++ (stashOf esc t0 ++ stashOfM esc segs) ++ nodesOf 1 segs ++
              nodesOf 2 segs), html := html }
        (resid esc (S0.length + (nodesOf 0 segs).length) t0 ++
          stageM esc 3 true (S0.length + (nodesOf 0 segs).length + escCount esc t0) S0.length
            (S0.length + (nodesOf 0 segs).length + escCount esc t0 + escCountM esc segs)
            (S0.length + (nodesOf 0 segs).length + escCount esc t0 + escCountM esc segs + (nodesOf 1 segs).length)
            segs) false parent true =
      some (segs.map (tailedM esc), { parent with text := optStr (coded esc t0) }) := by
  generalize hS : S0 ++ (nodesOf 0 segs ++ (stashOf esc t0 ++ stashOfM esc segs) ++ nodesOf 1 segs ++
      nodesOf 2 segs) = S
  have hdrop : S.drop (S0.length + (nodesOf 0 segs).length) =
      stashOf esc t0 ++ stashOfM esc segs ++ (nodesOf 1 segs ++ nodesOf 2 segs) := by
    rw [← hS]
    have : S0 ++ (nodesOf 0 segs ++ (stashOf esc t0 ++ stashOfM esc segs) ++ nodesOf 1 segs ++ nodesOf 2 segs) =
        (S0 ++ nodesOf 0 segs) ++ (stashOf esc t0 ++ stashOfM esc segs ++ (nodesOf 1 segs ++ nodesOf 2 segs)) := by
      simp [List.append_assoc]
    rw [this, ← List.length_append, List.drop_left]
  have hst : MStash S S0.length (S0.length + (nodesOf 0 segs).length + escCount esc t0 + escCountM esc segs)
      (S0.length + (nodesOf 0 segs).length + escCount esc t0 + escCountM esc segs + (nodesOf 1 segs).length) segs := by
    have := mStash_nodes segs S0 (stashOf esc t0 ++ stashOfM esc segs) []
    simp only [List.length_append, List.length_nil, Nat.add_zero, List.append_nil, stashOfM_length] at this
    rw [← hS]
    have e : (stashOf esc t0).length = escCount esc t0 := rfl
    rw [e] at this
    simpa [List.append_assoc, Nat.add_assoc] using this
  generalize hRR : resid esc (S0.length + (nodesOf 0 segs).length) t0 ++
          stageM esc 3 true (S0.length + (nodesOf 0 segs).length + escCount esc t0) S0.length
            (S0.length + (nodesOf 0 segs).length + escCount esc t0 + escCountM esc segs)
            (S0.length + (nodesOf 0 segs).length + escCount esc t0 + escCountM esc segs + (nodesOf 1 segs).length)
            segs = R
  have hRne : R.isEmpty = false := by
    rw [← hRR]
    rcases hne with h | h
    · cases t0 with
      | nil => exact absurd rfl h
      | cons c r =>
        by_cases hc : c ∈ esc
        · simp only [resid, List.contains_eq_mem, hc, decide_true, if_true]
          cases hx : placeholder (S0.length + (nodesOf 0 segs).length) with
          | nil => exact absurd hx (placeholder_ne_nil _)
          | cons a b => simp
        · simp [resid, hc]
    · cases segs with
      | nil => exact absurd rfl h
      | cons s r =>
        simp only [stageM, itemM3]
        generalize idxM _ _ _ s.k = k
        cases hx : placeholder k with
        | nil => exact absurd hx (placeholder_ne_nil _)
        | cons a b => cases resid esc (S0.length + (nodesOf 0 (s :: r)).length) t0 <;> simp
  simp only [ppTop]
  rw [show S.length + 2 = (S.length + 1) + 1 from rfl]
  unfold processPlaceholders
  simp only [hRne, Bool.false_eq_true, if_false]
  have hcost := costM_le esc segs t0 (S0.length + (nodesOf 0 segs).length) S0.length
    (S0.length + (nodesOf 0 segs).length + escCount esc t0 + escCountM esc segs)
    (S0.length + (nodesOf 0 segs).length + escCount esc t0 + escCountM esc segs + (nodesOf 1 segs).length)
  rw [hRR] at hcost
  obtain ⟨g, hg⟩ : ∃ g, R.length + 2 = g + costM esc t0 segs := ⟨R.length + 2 - costM esc t0 segs, by omega⟩
  rw [hg]
  have := ppLoop_mix esc S
    (procNode fun d a p t_1 => processPlaceholders S (S.length + 1) d a p t_1)
    segs [] t0 (S0.length + (nodesOf 0 segs).length) _ _ _ ([], parent) g _ ht0
    (fun s hs => ⟨(hsegs s hs).1, procNode_knode S (S.length + 1) (by omega) s.k (hsegs s hs).2⟩) hdrop hst
  simp only [List.nil_append, List.length_nil] at this
  rw [hRR] at this
  rw [this]
  have hlt : lt (coded esc t0) ([], parent) = ([], { parent with text := optStr (coded esc t0) }) := by
    simp only [lt]; exact CodeLaw.linkText_text _ parent hp1 hp2
  rw [hlt, foldM_closed]
  simp

/-! ### 27. a text element with code spans and emphasis through the stages -/

def mixTxtSrc (esc : List Char) (tag : Str) (t0 : Str) (segs : List MSeg) : Node :=
  { tag := .name tag, text := some (escAll esc t0 ++ rawM esc segs) }

def mixTxtMid (esc : List Char) (tag : Str) (t0 : Str) (segs : List MSeg) : Node :=
  { tag := .name tag, text := optStr (coded esc t0), children := segs.map (tailedM esc) }

theorem rawM_ne_nil (esc : List Char) (segs : List MSeg) (hok : MSegsOK segs) (hne : segs ≠ []) :
    rawM esc segs ≠ [] := by
  cases segs with
  | nil => exact absurd rfl hne
  | cons s r =>
    have := src_length_pos s.k (hok s List.mem_cons_self)
    intro e
    have h2 : s.k.src = [] := (List.append_eq_nil_iff.1 e).1
    rw [h2] at this; simp at this

theorem visitChild_mixTxt (cfg : Inline.Cfg) (hE : EscOK cfg.esc) (tag t0 : Str) (segs : List MSeg)
    (hok : MSegsOK segs) (hj : junctionsOK t0 false segs) (hu : UnderOKM cfg.esc (lastW cfg.esc t0) segs)
    (hplain : ∀ c, (c ∈ t0 ∨ ∃ s ∈ segs, c ∈ s.t) → c ≠ '&' ∧ c ≠ '\n' ∧ c ≠ STX)
    (hclean : ∀ s ∈ segs, s.k.clean) (hne : t0 ≠ [] ∨ segs ≠ []) (v : Visit) :
    visitChild cfg (mixTxtSrc cfg.esc tag t0 segs) v =
      some (mixTxtMid cfg.esc tag t0 segs, [],
        { v with pushes := ((List.range segs.length).map (fun k => [v.done.length, k])).reverse ++ v.pushes,
                 st := { v.st with stash := v.st.stash ++ (nodesOf 0 segs ++ (stashOf cfg.esc t0 ++
                   stashOfM cfg.esc segs) ++ nodesOf 1 segs ++ nodesOf 2 segs) } }) := by
  have hraw : escAll cfg.esc t0 ++ rawM cfg.esc segs ≠ [] := by
    rcases hne with h | h
    · have := escAll_ne_nil (esc := cfg.esc) h
      cases hx : escAll cfg.esc t0 with
      | nil => exact absurd hx this
      | cons a b => simp
    · intro e
      exact rawM_ne_nil cfg.esc segs hok h (List.append_eq_nil_iff.1 e).2
  have h1 := handleInlineTop_mix cfg hE t0 segs v.st hok hj hu (fun c hc => ⟨(hplain c hc).1, (hplain c hc).2.1⟩)
  have h2 := ppTop_mix cfg.esc v.st.stash v.st.html t0 segs
    { tag := .name tag } rfl rfl (fun h => (hplain _ (Or.inl h)).2.2 rfl)
    (fun s hs => ⟨fun h => (hplain _ (Or.inr ⟨s, hs, h⟩)).2.2 rfl, hclean s hs⟩) hne
  simp only [mixTxtSrc, visitChild, truthy_some hraw, Bool.not_false, Bool.and_self, if_true, Option.getD_some, h1]
  rw [h2]
  simp [mixTxtMid, Node.truthy]


theorem tailedM_code (esc : List Char) (n : Nat) (b t : Str) : tailedM esc ⟨.code n b, t⟩ = tailed esc ⟨n, b, t⟩ := rfl
theorem tailedM_em (esc : List Char) (st : Bool) (d : Char) (w t : Str) :
    tailedM esc ⟨.em st d w, t⟩ = tailedEm esc ⟨st, d, w, t⟩ := rfl

theorem bl_tailedM (esc : List Char) (s : MSeg) :
    TreeProc.isBlockLevel TreeProc.defaultBlockLevel (tailedM esc s).tag = false := by
  obtain ⟨k, t⟩ := s
  cases k with
  | code n b => exact bl_code'
  | em st d w => rw [tailedM_em, tailedEm_tag]; exact bl_em _

theorem prettifyKids_tailedM (esc : List Char) (segs : List MSeg) :
    TreeProc.prettifyKids TreeProc.defaultBlockLevel (segs.map (tailedM esc)) = segs.map (tailedM esc) := by
  induction segs with
  | nil => rfl
  | cons s r ih =>
    simp only [List.map_cons, TreeProc.prettifyKids, bl_tailedM esc s, Bool.false_eq_true, if_false, ih]

theorem mapKids_tailedM (esc : List Char) (segs : List MSeg) :
    TreeProc.mapKids TreeProc.preRule (TreeProc.mapKids TreeProc.brRule (segs.map (tailedM esc))) =
      segs.map (tailedM esc) := by
  induction segs with
  | nil => rfl
  | cons s r ih =>
    obtain ⟨k, t⟩ := s
    cases k with
    | code n b =>
      have := mapKids_tailed esc [⟨n, b, t⟩]
      simp only [List.map_cons, List.map_nil, TreeProc.mapKids, List.cons.injEq, and_true] at this
      simp only [List.map_cons, TreeProc.mapKids, ih, tailedM_code, this]
    | em st d w =>
      have := mapKids_tailedEm esc [⟨st, d, w, t⟩]
      simp only [List.map_cons, List.map_nil, TreeProc.mapKids, List.cons.injEq, and_true] at this
      simp only [List.map_cons, TreeProc.mapKids, ih, tailedM_em, this]

def mixTxtPretty (esc : List Char) (tag : Str) (t0 : Str) (segs : List MSeg) : Node :=
  { tag := .name tag, text := optStr (coded esc t0), children := segs.map (tailedM esc), tail := some ['\n'] }

theorem pretty_mixTxt (esc : List Char) (tag : Str) (htag : textTags.contains tag = true) (t0 : Str)
    (segs : List MSeg) :
    TreeProc.mapTree TreeProc.preRule (TreeProc.mapTree TreeProc.brRule
      (TreeProc.prettifyETree TreeProc.defaultBlockLevel (mixTxtMid esc tag t0 segs))) =
      mixTxtPretty esc tag t0 segs := by
  have hf := tagFacts tag (List.mem_cons_of_mem _ (List.contains_iff_mem.1 htag))
  have hbr : (Tag.name tag == Tag.name "br".toList) = false := by simpa using hf.2.2.2.1
  have hpre : (Tag.name tag == Tag.name "pre".toList) = false := by simpa using hf.2.2.1
  have hcode : (Tag.name tag == Tag.name "code".toList) = false := by simpa using hf.2.1
  have h1 : TreeProc.prettifyETree TreeProc.defaultBlockLevel (mixTxtMid esc tag t0 segs) =
      mixTxtPretty esc tag t0 segs := by
    cases segs with
    | nil => simp [mixTxtMid, mixTxtPretty, TreeProc.prettifyETree, TreeProc.prettifyKids, TreeProc.blankOrNone,
        Node.truthy]
    | cons s r =>
      have hk := prettifyKids_tailedM esc (s :: r)
      simp only [List.map_cons] at hk
      have hb := bl_tailedM esc s
      simp only [mixTxtMid, mixTxtPretty, TreeProc.prettifyETree, List.map_cons, hb, hk, Bool.and_false,
        Bool.false_eq_true, if_false, hf.1, hcode, hpre, Bool.not_false, Bool.and_self, if_true,
        TreeProc.blankOrNone, Node.truthy, Bool.true_or]
  rw [h1]
  simp only [mixTxtPretty, TreeProc.mapTree, TreeProc.brRule, TreeProc.preRule, TreeProc.tagIs, hbr, hpre,
    Bool.false_eq_true, if_false, mapKids_tailedM]

/-- an item's element with the plain text that follows it (after unescape) as its tail -/
def tailedFinM (s : MSeg) : Node := { s.k.node with tail := optStr s.t }

def mixTxtFin (tag : Str) (t0 : Str) (segs : List MSeg) : Node :=
  { tag := .name tag, text := optStr t0, children := segs.map tailedFinM, tail := some ['\n'] }

/-- what the later stages need of an item: no STX; words not empty -/
def MKind.fine : MKind → Prop
  | .code _ _ => True
  | .em _ _ w => Inline.STX ∉ w ∧ w ≠ []

theorem unescapeTree_tailedM (esc : List Char) (s : MSeg) (hs : Inline.STX ∉ s.t) (hk : s.k.fine) :
    TreeProc.unescapeTree (tailedM esc s) = some (tailedFinM s) := by
  obtain ⟨k, t⟩ := s
  cases k with
  | code n b => exact unescapeTree_tailed esc ⟨n, b, t⟩ hs
  | em st d w => exact unescapeTree_tailedEm esc ⟨st, d, w, t⟩ hs hk.1 hk.2

theorem unescapeKids_tailedM (esc : List Char) (segs : List MSeg)
    (hs : ∀ s ∈ segs, Inline.STX ∉ s.t ∧ s.k.fine) :
    TreeProc.unescapeKids (segs.map (tailedM esc)) = some (segs.map tailedFinM) := by
  induction segs with
  | nil => rfl
  | cons s r ih =>
    obtain ⟨h1, h2⟩ := hs s List.mem_cons_self
    simp only [List.map_cons, TreeProc.unescapeKids, unescapeTree_tailedM esc s h1 h2,
      ih (fun x hx => hs x (List.mem_cons_of_mem _ hx))]

theorem unesc_mixTxt (esc : List Char) (tag : Str) (htag : textTags.contains tag = true) (t0 : Str)
    (segs : List MSeg) (h0 : Inline.STX ∉ t0) (hs : ∀ s ∈ segs, Inline.STX ∉ s.t ∧ s.k.fine) :
    TreeProc.unescapeTree (mixTxtPretty esc tag t0 segs) = some (mixTxtFin tag t0 segs) := by
  have hf := tagFacts tag (List.mem_cons_of_mem _ (List.contains_iff_mem.1 htag))
  have hcode : (Tag.name tag == Tag.name "code".toList) = false := by simpa using hf.2.1
  have hnl : TreeProc.unescapeText 0 ['\n'] = some ['\n'] := by decide
  have h := unescOpt_coded esc t0 h0
  have t1 : Node.truthy (some ['\n']) = true := rfl
  simp only [mixTxtPretty, mixTxtFin, TreeProc.unescapeTree, hcode, Bool.not_false, Bool.and_true, h,
    unescapeKids_tailedM esc segs hs, TreeProc.unescAttrs, t1, if_true, Option.getD_some, hnl, Option.map_some]
  by_cases ht : Node.truthy (optStr (coded esc t0)) = true <;> simp [ht]

/-- the serialised element of an item -/
def MKind.out : MKind → Str
  | .code _ b => "<code>".toList ++ Ser.escCdata (Code.codeEscape b) ++ "</code>".toList
  | .em st _ w => '<' :: emTagS st ++ ['>'] ++ Ser.escCdata w ++ ('<' :: '/' :: emTagS st ++ ['>'])

def outM : List MSeg → Str
  | [] => []
  | s :: r => s.k.out ++ Ser.escCdata s.t ++ outM r

theorem outM_cons (s : MSeg) (r : List MSeg) : outM (s :: r) = s.k.out ++ Ser.escCdata s.t ++ outM r := rfl

def mixTxtOut (tag : Str) (t0 : Str) (segs : List MSeg) : Str :=
  '<' :: tag ++ ['>'] ++ Ser.escCdata t0 ++ outM segs ++ ('<' :: '/' :: tag ++ ['>'])

theorem serialize_tailedFinM (s : MSeg) (hk : s.k.fine) :
    Ser.serialize .xhtml (tailedFinM s) = s.k.out ++ Ser.escCdata s.t := by
  obtain ⟨k, t⟩ := s
  cases k with
  | code n b => exact serialize_tailedFin ⟨n, b, t⟩
  | em st d w => exact serialize_tailedEmFin ⟨st, d, w, t⟩ hk.2

theorem serializeList_tailedM (segs : List MSeg) (hk : ∀ s ∈ segs, s.k.fine) :
    Ser.serializeList .xhtml (segs.map tailedFinM) = outM segs := by
  induction segs with
  | nil => rfl
  | cons s r ih =>
    rw [List.map_cons, serializeList_cons, ih (fun x hx => hk x (List.mem_cons_of_mem _ hx)),
      serialize_tailedFinM s (hk s List.mem_cons_self), outM_cons]

theorem ser_mixTxt (tag : Str) (htag : textTags.contains tag = true) (t0 : Str) (segs : List MSeg)
    (hk : ∀ s ∈ segs, s.k.fine) :
    Ser.serialize .xhtml (mixTxtFin tag t0 segs) = mixTxtOut tag t0 segs ++ ['\n'] := by
  have hf := tagFacts tag (List.mem_cons_of_mem _ (List.contains_iff_mem.1 htag))
  have hnot : tag ≠ "hr".toList := by
    intro e
    have : textTags.contains "hr".toList = false := by decide
    rw [← e, htag] at this; cases this
  have he : Ser.isEmptyTag tag = false := by rw [hf.2.2.2.2.2.1]; simpa using hnot
  have e7 : Ser.escCdata ['\n'] = ['\n'] := by decide
  have t1 : Node.truthy (some ['\n']) = true := rfl
  simp only [mixTxtFin]
  rw [serialize_plain _ _ _ _ _ _ _ he hf.2.2.2.2.1]
  simp only [serializeList_tailedM segs hk, optEsc, t1, if_true, Option.getD_some, e7, mixTxtOut]
  simp [List.append_assoc]

theorem stx_not_mem_kout_code (n : Nat) (b : Str) (hk : (MKind.code n b).clean) :
    Post.STX ∉ (MKind.code n b).out := by
  intro hm
  have hm' : Post.STX ∈ "<code>".toList ++ Ser.escCdata (Code.codeEscape b) ++ "</code>".toList := hm
  rcases List.mem_append.1 hm' with h | h
  · rcases List.mem_append.1 h with h | h
    · revert h; decide
    · exact stx_not_mem_escCdata _ hk h
  · revert h; decide

theorem stx_not_mem_kout_em (st : Bool) (d : Char) (w : Str) (hk : (MKind.em st d w).clean) :
    Post.STX ∉ (MKind.em st d w).out := by
  intro hm
  have htag : Post.STX ∉ emTagS st := by cases st <;> decide
  have d1 : Post.STX ≠ '<' := by decide
  have d2 : Post.STX ≠ '>' := by decide
  have d3 : Post.STX ≠ '/' := by decide
  have hw := stx_not_mem_escCdata _ (show Post.STX ∉ w from hk)
  have hm' : Post.STX ∈ '<' :: emTagS st ++ ['>'] ++ Ser.escCdata w ++ ('<' :: '/' :: emTagS st ++ ['>']) := hm
  simp only [List.mem_append, List.mem_cons, List.not_mem_nil, d1, d2, d3, htag, hw, or_self] at hm'

theorem stx_not_mem_kout (k : MKind) (hk : k.clean) : Post.STX ∉ k.out :=
  match k, hk with
  | .code n b, hk => stx_not_mem_kout_code n b hk
  | .em st d w, hk => stx_not_mem_kout_em st d w hk

theorem stx_not_mem_outM (segs : List MSeg) (h : ∀ s ∈ segs, Post.STX ∉ s.t ∧ s.k.clean) : Post.STX ∉ outM segs := by
  induction segs with
  | nil => intro hm; cases hm
  | cons s r ih =>
    obtain ⟨h1, h2⟩ := h s List.mem_cons_self
    intro hm
    rw [outM_cons] at hm
    simp only [List.mem_append] at hm
    rcases hm with (hm | hm) | hm
    · exact stx_not_mem_kout s.k h2 hm
    · exact stx_not_mem_escCdata _ h1 hm
    · exact ih (fun x hx => h x (List.mem_cons_of_mem _ hx)) hm


/-- a `p`/`h1`–`h6` element of escaped text, code spans and emphasised words, through the stages -/
def mixTxtElem (esc : List Char) (tag t0 : Str) (segs : List MSeg) : Elem :=
  ⟨mixTxtSrc esc tag t0 segs, mixTxtMid esc tag t0 segs,
   fun _ => nodesOf 0 segs ++ (stashOf esc t0 ++ stashOfM esc segs) ++ nodesOf 1 segs ++ nodesOf 2 segs,
   fun i => ((List.range segs.length).map (fun k => [i, k])).reverse,
   mixTxtPretty esc tag t0 segs, mixTxtFin tag t0 segs, mixTxtOut tag t0 segs⟩

/-- what the stages need of such a line -/
structure MixTxtOK (esc : List Char) (tag t0 : Str) (segs : List MSeg) : Prop where
  htag : textTags.contains tag = true
  hsegs : MSegsOK segs
  junctions : junctionsOK t0 false segs
  under : UnderOKM esc (lastW esc t0) segs
  plain : ∀ c, (c ∈ t0 ∨ ∃ s ∈ segs, c ∈ s.t) → c ≠ '&' ∧ c ≠ '\n' ∧ c ≠ Inline.STX
  clean : ∀ s ∈ segs, s.k.clean
  ne : t0 ≠ [] ∨ segs ≠ []

theorem fine_of_ok (k : MKind) (h1 : MKindOK k) (h2 : k.clean) : k.fine := by
  cases k with
  | code n b => trivial
  | em st d w => exact ⟨h2, h1.2.1.1⟩

theorem tailedM_childless (esc : List Char) (s : MSeg) : (tailedM esc s).children = [] := by
  obtain ⟨k, t⟩ := s
  cases k <;> rfl

theorem mixTxtElem_ok (cfg : Inline.Cfg) (hE : EscOK cfg.esc) (tag t0 : Str) (segs : List MSeg)
    (h : MixTxtOK cfg.esc tag t0 segs) : ElemOK cfg (mixTxtElem cfg.esc tag t0 segs) where
  visit := fun v => visitChild_mixTxt cfg hE tag t0 segs h.hsegs h.junctions h.under h.plain h.clean h.ne v
  pushBound := fun i => by
    have h1 := rawM_length cfg.esc segs h.hsegs
    simp only [mixTxtElem, List.length_reverse, List.length_map, List.length_range, mixTxtSrc, Inline.size,
      Option.getD_some, List.length_append, Inline.sizeList]
    omega
  weight := fun i => by
    have h1 := rawM_length cfg.esc segs h.hsegs
    have hw := weight_childless (mixTxtMid cfg.esc tag t0 segs) segs.length i (by simp [mixTxtMid])
      (fun c hc => by
        simp only [mixTxtMid, List.mem_map] at hc
        obtain ⟨s, _, rfl⟩ := hc; exact tailedM_childless cfg.esc s)
    show mStack (mixTxtMid cfg.esc tag t0 segs) _ ≤ _
    simp only [mixTxtElem]
    rw [hw]
    simp only [mixTxtSrc, Inline.size, Option.getD_some, List.length_append, Inline.sizeList]
    omega
  pushOk := fun i q hq => by
    simp only [mixTxtElem, List.mem_reverse, List.mem_map, List.mem_range] at hq
    obtain ⟨k, hk, rfl⟩ := hq
    obtain ⟨s, hs⟩ : ∃ s, segs[k]? = some s := by
      cases hx : segs[k]? with
      | none => rw [List.getElem?_eq_none_iff] at hx; omega
      | some s => exact ⟨s, rfl⟩
    refine ⟨[k], tailedM cfg.esc s, rfl, ?_,
      stillBelow_of_childless cfg _ _ (by simp [tailedM_childless]) ?_⟩
    · simp [mixTxtElem, mixTxtMid, getAt, hs]
    · intro c hc; rw [tailedM_childless] at hc; cases hc
  block := (tagFacts tag (List.mem_cons_of_mem _ (List.contains_iff_mem.1 h.htag))).1
  pretty := pretty_mixTxt cfg.esc tag h.htag t0 segs
  unesc := unesc_mixTxt cfg.esc tag h.htag t0 segs (fun hm => (h.plain _ (Or.inl hm)).2.2 rfl)
    (fun s hs => ⟨fun hm => (h.plain _ (Or.inr ⟨s, hs, hm⟩)).2.2 rfl, fine_of_ok s.k (h.hsegs s hs) (h.clean s hs)⟩)
  ser := ser_mixTxt tag h.htag t0 segs (fun s hs => fine_of_ok s.k (h.hsegs s hs) (h.clean s hs))
  outOk := by
    have hf := tagFacts tag (List.mem_cons_of_mem _ (List.contains_iff_mem.1 h.htag))
    refine ⟨?_, rfl, ?_⟩
    · intro hm
      simp only [mixTxtElem, mixTxtOut, List.mem_append, List.mem_cons] at hm
      have d1 : Post.STX ≠ '<' := by decide
      have d2 : Post.STX ≠ '>' := by decide
      have d3 : Post.STX ≠ '/' := by decide
      have h7 := hf.2.2.2.2.2.2
      have hE0 : Post.STX ∉ Ser.escCdata t0 :=
        stx_not_mem_escCdata _ (fun hm' => (h.plain _ (Or.inl hm')).2.2 rfl)
      have hEs : Post.STX ∉ outM segs := stx_not_mem_outM segs
        (fun s hs => ⟨fun hm' => (h.plain _ (Or.inr ⟨s, hs, hm'⟩)).2.2 rfl, h.clean s hs⟩)
      rcases hm with (((h' | h' | h') | h') | h') | (h' | h' | h' | h') <;> simp_all
    · have e : (mixTxtElem cfg.esc tag t0 segs).out =
          ('<' :: tag ++ ['>'] ++ Ser.escCdata t0 ++ outM segs ++ ('<' :: '/' :: tag)) ++ ['>'] := by
        simp [mixTxtElem, mixTxtOut]
      rw [e, List.getLast?_append]; rfl


/-! ### 28. the block parser on a mixed line -/

def lastTextM (t0 : Str) (segs : List MSeg) : Str := (segs.getLast?.map (·.t)).getD t0

structure MixLineOK (t0 : Str) (segs : List MSeg) : Prop where
  nl0 : '\n' ∉ t0
  nls : ∀ s ∈ segs, '\n' ∉ s.t ∧ '\n' ∉ s.k.src
  ne : t0 ≠ [] ∨ segs ≠ []
  first : t0 ≠ [] → startsVisible t0 = true
  lastv : ∀ z, (lastTextM t0 segs).getLast? = some z → isSpace z = false
  ok : MSegsOK segs

theorem lastTextM_cons (t0 : Str) (s : MSeg) (r : List MSeg) : lastTextM t0 (s :: r) = lastTextM s.t r := by
  cases r with
  | nil => rfl
  | cons a b =>
    simp only [lastTextM, List.getLast?_cons_cons]
    cases h : (a :: b).getLast? with
    | none => exact absurd (List.getLast?_eq_none_iff.1 h) (by simp)
    | some x => rfl

theorem src_ends (k : MKind) (hk : MKindOK k) :
    ∃ z, k.src.getLast? = some z ∧ isSpace z = false ∧ z ≠ '#' ∧ z ≠ '\\' := by
  cases k with
  | code n b =>
    obtain ⟨⟨j, hj⟩, _⟩ := hk
    exact ⟨'`', by rw [MKind.src, hj, spanSrc_last], by decide, by decide, by decide⟩
  | em st d w =>
    refine ⟨d, emSrc_last ⟨st, d, w, []⟩, ?_⟩
    rcases hk.1 with e | e <;> rw [e] <;> exact ⟨by decide, by decide, by decide⟩

theorem src_starts (k : MKind) (hk : MKindOK k) :
    ∃ c tail, k.src = c :: tail ∧ isSpace c = false ∧ isDecimal c = false ∧ c ≠ '.' ∧
      ((c = '`') ∨ ∃ st d w, k = .em st d w) := by
  cases k with
  | code n b =>
    obtain ⟨⟨j, hj⟩, _⟩ := hk
    refine ⟨'`', ticks j ++ (padded b ++ ticks n), ?_, by decide, by decide, by decide, Or.inl rfl⟩
    simp [MKind.src, spanSrc, hj, ticks, List.replicate_succ]
  | em st d w =>
    obtain ⟨q, hq⟩ := delim_cons ⟨st, d, w, []⟩
    refine ⟨d, q ++ (w ++ EmSeg.delim ⟨st, d, w, []⟩), by simp [MKind.src, emSrc, hq], ?_⟩
    rcases hk.1 with e | e <;> rw [e] <;> exact ⟨by decide, by decide, by decide, Or.inr ⟨st, _, w, rfl⟩⟩

theorem mix_raw_last (esc : List Char) (segs : List MSeg) :
    ∀ (t0 : Str), MSegsOK segs →
      (∀ z, (lastTextM t0 segs).getLast? = some z → isSpace z = false) →
      ∀ d, (escAll esc t0 ++ rawM esc segs).getLast? = some d → isSpace d = false := by
  induction segs with
  | nil =>
    intro t0 _ hl d hd
    simp only [rawM, List.append_nil] at hd
    cases t0 with
    | nil => simp [escAll] at hd
    | cons c r =>
      rw [getLast_escAll esc (c :: r) (by simp)] at hd
      exact hl d (by simpa [lastTextM] using hd)
  | cons s r ih =>
    intro t0 hn hl d hd
    obtain ⟨z, hz, hzs, _, _⟩ := src_ends s.k (hn s List.mem_cons_self)
    have hsne : s.k.src ≠ [] := by intro e; rw [e] at hz; simp at hz
    simp only [rawM] at hd
    rw [List.getLast?_append] at hd
    have hT : (s.k.src ++ (escAll esc s.t ++ rawM esc r)).getLast? ≠ none := by
      intro e; rw [List.getLast?_eq_none_iff] at e
      exact hsne (List.append_eq_nil_iff.1 e).1
    cases hx : (s.k.src ++ (escAll esc s.t ++ rawM esc r)).getLast? with
    | none => exact absurd hx hT
    | some x =>
      rw [hx] at hd
      simp only [Option.some_or, Option.some.injEq] at hd
      subst hd
      rw [List.getLast?_append] at hx
      cases hy : (escAll esc s.t ++ rawM esc r).getLast? with
      | none =>
        rw [hy, hz] at hx
        simp at hx; subst hx; exact hzs
      | some y =>
        rw [hy] at hx
        simp only [Option.some_or, Option.some.injEq] at hx
        subst hx
        have hl' : ∀ z, (lastTextM s.t r).getLast? = some z → isSpace z = false := by
          intro z hz
          apply hl z
          rw [lastTextM_cons]; exact hz
        exact ih s.t (fun x hx => hn x (List.mem_cons_of_mem _ hx)) hl' y hy

theorem walk_src (k : MKind) (hk : MKindOK k) (hnl : '\n' ∉ k.src) : Walk k.src := by
  obtain ⟨z, hz, _, h1, h2⟩ := src_ends k hk
  apply hashHeader_walk _ _ (Nat.le_refl _) (by intro e; rw [e] at hz; simp at hz) hnl
  intro z' hz'
  rw [hz] at hz'
  have : z = z' := by simpa using hz'
  subst this; exact ⟨h1, h2⟩

theorem walk_rawM {esc : List Char} (hE : EscOK esc) (segs : List MSeg)
    (h : ∀ s ∈ segs, MKindOK s.k ∧ '\n' ∉ s.k.src ∧ '\n' ∉ s.t) : Walk (rawM esc segs) := by
  induction segs with
  | nil => exact walk_nil
  | cons s r ih =>
    obtain ⟨h1, h2, h3⟩ := h s List.mem_cons_self
    simp only [rawM]
    exact walk_append (walk_src s.k h1 h2)
      (walk_append (walk_escAll hE s.t h3) (ih (fun x hx => h x (List.mem_cons_of_mem _ hx))))

theorem mem_rawM {esc : List Char} {segs : List MSeg} {c : Char} (h : c ∈ rawM esc segs) :
    ∃ s ∈ segs, c ∈ s.k.src ∨ c ∈ escAll esc s.t := by
  induction segs with
  | nil => simp [rawM] at h
  | cons s r ih =>
    simp only [rawM, List.mem_append] at h
    rcases h with h | h | h
    · exact ⟨s, List.mem_cons_self, Or.inl h⟩
    · exact ⟨s, List.mem_cons_self, Or.inr h⟩
    · obtain ⟨x, hx, hc⟩ := ih h
      exact ⟨x, List.mem_cons_of_mem _ hx, hc⟩

theorem rawOK_mixLine {esc : List Char} (hE : EscOK esc) (t0 : Str) (segs : List MSeg) (h : MixLineOK t0 segs) :
    RawOK (escAll esc t0 ++ rawM esc segs) where
  shape := by
    cases t0 with
    | nil =>
      rcases h.ne with h' | h'
      · exact absurd rfl h'
      · cases segs with
        | nil => exact absurd rfl h'
        | cons s r =>
          have hs := h.ok s List.mem_cons_self
          obtain ⟨c, tail, hsrc, hcs, _, _, hkind⟩ := src_starts s.k hs
          refine ⟨c, tail ++ (escAll esc s.t ++ rawM esc r), by simp [escAll, rawM, hsrc], hcs, ?_⟩
          rcases hkind with e | ⟨st, d, w, hk⟩
          · exact Or.inl (by rw [e]; decide)
          · right
            rw [hk] at hs
            have := emStart_raw esc ⟨st, d, w, s.t⟩ [] hs.1 hs.2.1 hs.2.2
            obtain ⟨d', m, x, tl, he, hd, h1, h2, hx, hx2⟩ := this
            refine ⟨d', m, x, tl ++ rawM esc r, ?_, hd, h1, h2, hx, hx2⟩
            simp only [rawEm, List.append_nil] at he
            simp only [escAll, List.nil_append, rawM, hk, MKind.src]
            have e2 : emSrc ⟨st, d, w, []⟩ = emSrc ⟨st, d, w, s.t⟩ := rfl
            rw [e2, ← List.append_assoc, he]
            simp [List.append_assoc]
    | cons c r =>
      have hv := h.first (by simp)
      have hcs : isSpace c = false := by simpa [startsVisible] using hv
      by_cases hc : c ∈ esc
      · refine ⟨'\\', c :: escAll esc r ++ rawM esc segs, by rw [escAll_cons_mem hc]; rfl, by decide,
          Or.inl (by decide)⟩
      · exact ⟨c, escAll esc r ++ rawM esc segs, by rw [escAll_cons_not_mem hc]; rfl, hcs,
          Or.inl (lineEsc_sub hE hc)⟩
  nl := by
    intro hm
    rcases List.mem_append.1 hm with hm | hm
    · rcases mem_escAll hm with e | hm
      · exact absurd e (by decide)
      · exact h.nl0 hm
    · obtain ⟨s, hs, hc⟩ := mem_rawM hm
      rcases hc with hc | hc
      · exact (h.nls s hs).2 hc
      · rcases mem_escAll hc with e | hc
        · exact absurd e (by decide)
        · exact (h.nls s hs).1 hc
  last := mix_raw_last esc segs t0 h.ok h.lastv
  ol := by
    apply olMarker_none_of
    apply no_dot_after_digits hE.dot
    intro c hc
    cases segs with
    | nil => simp [rawM] at hc
    | cons s r =>
      obtain ⟨c', tail, hsrc, _, h1, h2, _⟩ := src_starts s.k (h.ok s List.mem_cons_self)
      simp [rawM, hsrc] at hc
      subst hc; exact ⟨h1, h2⟩
  walk := walk_append (walk_escAll hE t0 h.nl0)
    (walk_rawM hE segs (fun s hs => ⟨h.ok s hs, (h.nls s hs).2, (h.nls s hs).1⟩))


/-! ### 29. a mixed paragraph or heading as a piece -/

def mixPiece (esc : List Char) (g : List Str) (tag t0 : Str) (segs : List MSeg) : Piece2 :=
  ⟨chunkB g (mixTxtSrc esc tag t0 segs), mixTxtElem esc tag t0 segs, mixTxtElem esc tag t0 segs⟩

theorem mixTxtSrc_clean (esc : List Char) (tag : Str) (htag : textTags.contains tag = true) (t0 : Str)
    (segs : List MSeg) :
    isListTag (mixTxtSrc esc tag t0 segs) = false ∧ preCode (mixTxtSrc esc tag t0 segs) = none := by
  have hmem : tag ∈ "hr".toList :: textTags := List.mem_cons_of_mem _ (List.contains_iff_mem.1 htag)
  have key : ∀ tag ∈ "hr".toList :: textTags, tag ≠ "ul".toList ∧ tag ≠ "ol".toList ∧ tag ≠ "pre".toList := by decide
  obtain ⟨a1, a2, a3⟩ := key _ hmem
  have b1 : tag ≠ ['u', 'l'] := a1
  have b2 : tag ≠ ['o', 'l'] := a2
  have b3 : tag ≠ ['p', 'r', 'e'] := a3
  constructor
  · simp [mixTxtSrc, isListTag, Node.isTag, b1, b2]
  · simp [mixTxtSrc, preCode, Node.isTag, b3]

theorem mixPiece_ok (g : List Str) (tag t0 : Str) (segs : List MSeg)
    (hok : MixTxtOK Generated.escapedChars tag t0 segs) (hne : g ≠ [])
    (hnel : noEmptyLineFrom true (joinLines g) = true)
    (hprod : Produces 4 (joinLines g) (mixTxtSrc Generated.escapedChars tag t0 segs))
    (hsafe : ∀ l ∈ g, lineSafe l = true ∧ '<' ∉ l ∧ refsClosed l = true)
    (hvis : ∃ c ∈ joinLines g, isSpace c = false) :
    Piece2OK {} (mixPiece Generated.escapedChars g tag t0 segs) where
  bok := chunkB_ok 4 g _ hne hnel hprod (mixTxtSrc_clean _ tag hok.htag t0 segs).1
    (mixTxtSrc_clean _ tag hok.htag t0 segs).2
  safe := hsafe
  vis := hvis
  src := rfl
  srcLast := rfl
  eok := fun refs => mixTxtElem_ok { esc := Generated.escapedChars, refs := refs } escOK_generated tag t0 segs hok
  eokLast := fun refs => mixTxtElem_ok { esc := Generated.escapedChars, refs := refs } escOK_generated tag t0 segs hok
  out := rfl

/-! ### 30. the printed form of mixed content -/

/-- an item without its spelling: a code span's body, or an emphasis' kind and words -/
inductive QKind
  | code (b : Str)
  | em (strong : Bool) (w : Str)

def MKind.q : MKind → QKind
  | .code _ b => .code b
  | .em s _ w => .em s w

def QKind.isCode : QKind → Bool
  | .code _ => true
  | _ => false

/-- the plain text before the first item, and for each item what it is and the plain text after it -/
def splitMix : List DocSpec.Inline → Str × List (QKind × Str)
  | [] => ([], [])
  | .text w :: r => (w ++ (splitMix r).1, (splitMix r).2)
  | .esc c :: r => (c :: (splitMix r).1, (splitMix r).2)
  | .code b :: r => ([], (.code b, (splitMix r).1) :: (splitMix r).2)
  | .em [.text w] :: r => ([], (.em false w, (splitMix r).1) :: (splitMix r).2)
  | .strong [.text w] :: r => ([], (.em true w, (splitMix r).1) :: (splitMix r).2)
  | _ :: r => splitMix r

theorem splitMix_text (w : Str) (r : List DocSpec.Inline) :
    splitMix (.text w :: r) = (w ++ (splitMix r).1, (splitMix r).2) := by rw [splitMix]
theorem splitMix_esc (ch : Char) (r : List DocSpec.Inline) :
    splitMix (.esc ch :: r) = (ch :: (splitMix r).1, (splitMix r).2) := by rw [splitMix]
theorem splitMix_code (b : Str) (r : List DocSpec.Inline) :
    splitMix (.code b :: r) = ([], (.code b, (splitMix r).1) :: (splitMix r).2) := by rw [splitMix]
theorem splitMix_em (w : Str) (r : List DocSpec.Inline) :
    splitMix (.em [.text w] :: r) = ([], (.em false w, (splitMix r).1) :: (splitMix r).2) := by rw [splitMix]
theorem splitMix_strong (w : Str) (r : List DocSpec.Inline) :
    splitMix (.strong [.text w] :: r) = ([], (.em true w, (splitMix r).1) :: (splitMix r).2) := by rw [splitMix]

/-- the items of a well-formed run of words, escapes, code spans and emphasised words -/
def mixItemsOK : List DocSpec.Inline → Bool
  | [] => true
  | .text w :: r => wfWords w && mixItemsOK r
  | .esc c :: r => ESC.contains c && mixItemsOK r
  | .code b :: r => wfCodeSpan b && noLt b && mixItemsOK r
  | .em [.text w] :: r => wfLabel w && mixItemsOK r
  | .strong [.text w] :: r => wfLabel w && mixItemsOK r
  | _ :: _ => false

/-- induction over such content -/
theorem mixItems_ind {motive : List DocSpec.Inline → Prop} (nil : motive [])
    (text : ∀ w r, wfWords w = true → mixItemsOK r = true → motive r → motive (.text w :: r))
    (esc : ∀ ch r, ch ∈ ESC → mixItemsOK r = true → motive r → motive (.esc ch :: r))
    (code : ∀ b r, wfCodeSpan b = true → noLt b = true → mixItemsOK r = true → motive r → motive (.code b :: r))
    (em : ∀ w r, wfLabel w = true → mixItemsOK r = true → motive r → motive (.em [.text w] :: r))
    (strong : ∀ w r, wfLabel w = true → mixItemsOK r = true → motive r → motive (.strong [.text w] :: r)) :
    ∀ c, mixItemsOK c = true → motive c := by
  intro c
  induction c with
  | nil => intro _; exact nil
  | cons x r ih =>
    intro h
    cases x with
    | text w =>
      simp only [mixItemsOK, Bool.and_eq_true] at h
      exact text w r h.1 h.2 (ih h.2)
    | esc ch =>
      simp only [mixItemsOK, Bool.and_eq_true] at h
      exact esc ch r (List.contains_iff_mem.1 h.1) h.2 (ih h.2)
    | code b =>
      simp only [mixItemsOK, Bool.and_eq_true] at h
      exact code b r h.1.1 h.1.2 h.2 (ih h.2)
    | em l =>
      cases l with
      | nil => simp [mixItemsOK] at h
      | cons y l' =>
        cases l' with
        | cons _ _ => cases y <;> simp [mixItemsOK] at h
        | nil =>
          cases y with
          | text w =>
            simp only [mixItemsOK, Bool.and_eq_true] at h
            exact em w r h.1 h.2 (ih h.2)
          | _ => simp [mixItemsOK] at h
    | strong l =>
      cases l with
      | nil => simp [mixItemsOK] at h
      | cons y l' =>
        cases l' with
        | cons _ _ => cases y <;> simp [mixItemsOK] at h
        | nil =>
          cases y with
          | text w =>
            simp only [mixItemsOK, Bool.and_eq_true] at h
            exact strong w r h.1 h.2 (ih h.2)
          | _ => simp [mixItemsOK] at h
    | link _ _ _ => simp [mixItemsOK] at h
    | image _ _ _ => simp [mixItemsOK] at h
    | autolink _ => simp [mixItemsOK] at h
    | br => simp [mixItemsOK] at h

theorem mixItemsOK_of_wf (c : List DocSpec.Inline) (brOk : Bool) (hp : c.all isMixItem = true)
    (hw : wfInlineList false .none brOk c = true) : mixItemsOK c = true := by
  induction c with
  | nil => rfl
  | cons x r ih =>
    simp only [List.all_cons, Bool.and_eq_true] at hp
    simp only [wfInlineList, Bool.and_eq_true] at hw
    have ihr := ih hp.2 hw.2
    cases x with
    | text w => simp only [wfInline] at hw; simp [mixItemsOK, hw.1, ihr]
    | esc ch => simp only [wfInline] at hw; simp [mixItemsOK, List.contains_iff_mem.1 hw.1, ihr]
    | code b => simp only [wfInline] at hw; simp only [isMixItem] at hp; simp [mixItemsOK, hw.1, hp.1, ihr]
    | em l =>
      obtain ⟨hp1, _⟩ := hp
      cases l with
      | nil => simp [isMixItem] at hp1
      | cons y l' =>
        cases l' with
        | cons _ _ => cases y <;> simp [isMixItem] at hp1
        | nil =>
          cases y with
          | text w =>
            have h1 := hw.1
            simp only [wfInline, wfRun, wfInlineList, startsOk, endsOk, Bool.and_eq_true] at h1
            simp [mixItemsOK, wfLabel, h1.2.1, h1.1.2.1.1.1, h1.1.2.1.1.2, ihr]
          | _ => simp [isMixItem] at hp1
    | strong l =>
      obtain ⟨hp1, _⟩ := hp
      cases l with
      | nil => simp [isMixItem] at hp1
      | cons y l' =>
        cases l' with
        | cons _ _ => cases y <;> simp [isMixItem] at hp1
        | nil =>
          cases y with
          | text w =>
            have h1 := hw.1
            simp only [wfInline, wfRun, wfInlineList, startsOk, endsOk, Bool.and_eq_true] at h1
            simp [mixItemsOK, wfLabel, h1.2.1, h1.1.2.1.1.1, h1.1.2.1.1.2, ihr]
          | _ => simp [isMixItem] at hp1
    | link _ _ _ => simp [isMixItem] at hp
    | image _ _ _ => simp [isMixItem] at hp
    | autolink _ => simp [isMixItem] at hp
    | br => simp [isMixItem] at hp


/-- what the printer guarantees of an item's spelling -/
def KPrinted : MKind → Prop
  | .code n b => fenceOK n b
  | .em _ d _ => d = '*' ∨ d = '_'

theorem underOKM_mono (esc : List Char) (segs : List MSeg) (h : UnderOKM esc true segs) : UnderOKM esc false segs := by
  cases segs with
  | nil => trivial
  | cons s r => exact ⟨fun hd => absurd (h.1 hd).1 (by decide), h.2⟩

theorem underOKM_of_pw (b : Bool) (t : Str) (segs : List MSeg) (h : UnderOKM ESC (pwOf b t) segs) :
    UnderOKM ESC (lastW ESC t) segs := by
  unfold pwOf at h; unfold lastW
  cases ht : t.getLast? with
  | some c => rw [ht] at h; exact h
  | none =>
    rw [ht] at h
    cases b with
    | true => exact h
    | false => exact underOKM_mono _ _ h

theorem q_code_cls {k : MKind} {b : Str} (h : k.q = .code b) : k.cls = 0 := by
  cases k with
  | code n b' => rfl
  | em s d w => simp [MKind.q] at h

theorem nextNWM_of_boundary (r : List DocSpec.Inline) (h : mixItemsOK r = true) (endB : Bool)
    (hb : nextBoundary endB r = true) (segs : List MSeg)
    (hm : segs.map (fun s => (s.k.q, s.t)) = (splitMix r).2) : nextNWM ESC (splitMix r).1 segs := by
  cases r with
  | nil =>
    have : segs = [] := by simpa [splitMix] using hm
    subst this; trivial
  | cons y r' =>
    cases y with
    | text w' =>
      simp only [nextBoundary, startsBoundary, decide_eq_true_eq] at hb
      cases w' with
      | nil => simp at hb
      | cons a w'' =>
        have : a = ' ' := by simpa using hb
        subst this
        rw [splitMix_text]
        exact Or.inr (by decide)
    | esc ch =>
      simp only [mixItemsOK, Bool.and_eq_true] at h
      rw [splitMix_esc]
      exact Or.inl (List.contains_iff_mem.1 h.1)
    | code b =>
      rw [splitMix_code] at hm ⊢
      cases segs with
      | nil => simp at hm
      | cons s' segs' =>
        simp only [List.map_cons, List.cons.injEq, Prod.mk.injEq] at hm
        show s'.k.cls ≠ 2
        rw [q_code_cls hm.1.1]; omega
    | em _ => simp [nextBoundary, startsBoundary] at hb
    | strong _ => simp [nextBoundary, startsBoundary] at hb
    | link _ _ _ => simp [mixItemsOK] at h
    | image _ _ _ => simp [mixItemsOK] at h
    | autolink _ => simp [mixItemsOK] at h
    | br => simp [mixItemsOK] at h

/-- the conclusion of the print lemma for the content `c` from the boundary `prevB` on -/
def PrintsMix (c : List DocSpec.Inline) : Prop :=
  ∀ (prevB endB : Bool) (st : PSt), ∃ (segs : List MSeg) (st' : PSt),
    printInlines none prevB endB c st = (escAll ESC (splitMix c).1 ++ rawM ESC segs, st') ∧
    st'.defs = st.defs ∧ segs.map (fun s => (s.k.q, s.t)) = (splitMix c).2 ∧
    (∀ s ∈ segs, KPrinted s.k) ∧ UnderOKM ESC (pwOf prevB (splitMix c).1) segs

theorem printsMix_em_step (strong : Bool) (w : Str) (r : List DocSpec.Inline) (hr : mixItemsOK r = true)
    (ih : PrintsMix r) (prevB endB : Bool) (st : PSt) (x : DocSpec.Inline)
    (hx : x = (if strong then DocSpec.Inline.strong [.text w] else DocSpec.Inline.em [.text w])) :
    ∃ (segs : List MSeg) (st' : PSt),
      printInlines none prevB endB (x :: r) st = (rawM ESC segs, st') ∧
      st'.defs = st.defs ∧ segs.map (fun s => (s.k.q, s.t)) = (.em strong w, (splitMix r).1) :: (splitMix r).2 ∧
      (∀ s ∈ segs, KPrinted s.k) ∧ UnderOKM ESC (!prevB) segs := by
  generalize hd : chooseDelim none (draw st).1 prevB (nextBoundary endB r) = d
  have hdc := chooseDelim_cases (draw st).1 prevB (nextBoundary endB r)
  rw [hd] at hdc
  have hdd : d = '*' ∨ d = '_' := by rcases hdc with ⟨h, _⟩ | h; exact Or.inr h; exact Or.inl h
  generalize hpr : (List.replicate (if strong then 2 else 1) d ++ (w ++ List.replicate (if strong then 2 else 1) d)) = E
  have hlast : afterBoundary prevB E = !isWordCh d := by
    rw [← hpr]
    cases strong
    · have : List.replicate (if false = true then 2 else 1) d ++ (w ++ List.replicate (if false = true then 2 else 1) d) =
          (d :: w) ++ [d] := by simp
      rw [this, afterBoundary_delims]
    · have : List.replicate (if true = true then 2 else 1) d ++ (w ++ List.replicate (if true = true then 2 else 1) d) =
          (d :: d :: w ++ [d]) ++ [d] := by simp [List.replicate_succ]
      rw [this, afterBoundary_delims]
  obtain ⟨segs, st', hp, hdf, hm, hds, hu⟩ := ih (!isWordCh d) endB (draw st).2
  refine ⟨⟨.em strong d w, (splitMix r).1⟩ :: segs, st', ?_, by rw [hdf, draw_defs],
    by rw [List.map_cons, hm]; rfl, ?_, ?_⟩
  · subst hx
    cases strong
    · simp only [Bool.false_eq_true, if_false, printInlines, printInline, hd, List.append_nil]
      have e : afterBoundary prevB (d :: w ++ [d]) = !isWordCh d := by
        rw [← hlast, ← hpr]; simp
      rw [e, hp]
      simp [rawM, MKind.src, emSrc, EmSeg.delim, List.append_assoc]
    · simp only [if_true, printInlines, printInline, hd, List.append_nil]
      have e : afterBoundary prevB (d :: d :: w ++ [d, d]) = !isWordCh d := by
        rw [← hlast, ← hpr]; simp [List.replicate_succ]
      rw [e, hp]
      simp [rawM, MKind.src, emSrc, EmSeg.delim, List.append_assoc, List.replicate_succ]
  · intro s hs
    rcases List.mem_cons.1 hs with rfl | hs
    · exact hdd
    · exact hds s hs
  · refine ⟨fun hcl => ?_, underOKM_of_pw _ _ _ hu⟩
    have hdu : d = '_' := by
      rcases hdd with e | e
      · rw [e] at hcl; simp [MKind.cls] at hcl
      · exact e
    rcases hdc with ⟨_, h1, h2⟩ | h
    · exact ⟨by simp [h1], nextNWM_of_boundary r hr endB h2 segs hm⟩
    · rw [hdu] at h; exact absurd h (by decide)


theorem afterBoundary_tick (b : Bool) (X : Str) : afterBoundary b (X ++ ['`']) = true := by
  simp [afterBoundary, isWordCh, isAsciiAlnum, isAsciiAlpha, isAsciiLower, isAsciiUpper, isAsciiDigit]

/-- **the printed form** of mixed content -/
theorem printInlines_mix (c : List DocSpec.Inline) (h : mixItemsOK c = true) : PrintsMix c := by
  revert h
  refine mixItems_ind (motive := PrintsMix) ?_ ?_ ?_ ?_ ?_ ?_ c
  · intro prevB endB st
    exact ⟨[], st, by simp [printInlines, splitMix, rawM, escAll], rfl, rfl, by simp, trivial⟩
  · intro w r hw hr ih prevB endB st
    simp only [wfWords, Bool.and_eq_true, Bool.not_eq_true', List.isEmpty_eq_false_iff] at hw
    obtain ⟨segs, st', hp, hd, hm, hds, hu⟩ := ih (afterBoundary prevB w) endB st
    refine ⟨segs, st', ?_, hd, by rw [splitMix_text]; exact hm, hds, ?_⟩
    · simp only [printInlines, printInline, hp, splitMix_text]
      rw [escAll_words w hw.1.2]; simp [List.append_assoc]
    · rw [splitMix_text]
      simp only
      rw [pwOf_append prevB w _ hw.1.1 hw.1.2]; exact hu
  · intro ch r hch hr ih prevB endB st
    obtain ⟨segs, st', hp, hd, hm, hds, hu⟩ := ih (afterBoundary prevB ['\\', ch]) endB st
    refine ⟨segs, st', ?_, hd, by rw [splitMix_esc]; exact hm, hds, ?_⟩
    · simp only [printInlines, printInline, hp, splitMix_esc]
      rw [escAll_esc_cons ch hch]; simp
    · rw [splitMix_esc]
      simp only
      have hu' := underOKM_of_pw _ _ _ hu
      unfold pwOf
      cases ht : (splitMix r).1 with
      | nil =>
        rw [ht] at hu'
        simpa [hch, lastW] using hu'
      | cons a b =>
        rw [ht] at hu'
        have : (ch :: a :: b).getLast? = (a :: b).getLast? := List.getLast?_cons_cons
        rw [this]
        obtain ⟨z, hz⟩ : ∃ z, (a :: b).getLast? = some z := by
          cases hg : (a :: b).getLast? with
          | none => exact absurd (List.getLast?_eq_none_iff.1 hg) (by simp)
          | some z => exact ⟨z, rfl⟩
        simp only [lastW, hz] at hu' ⊢
        exact hu'
  · intro b r hw hlt hr ih prevB endB st
    have hL : longestTickRun b ≤ 2 := (wfCodeSpan_facts hw).2.2.2.2.1
    generalize hn : longestTickRun b + 1 + (draw st).1 % (4 - (longestTickRun b + 1)) = n
    have hnb : fenceOK n b := by
      have : (draw st).1 % (4 - (longestTickRun b + 1)) < 4 - (longestTickRun b + 1) := Nat.mod_lt _ (by omega)
      constructor <;> omega
    obtain ⟨j, hj⟩ : ∃ j, n = j + 1 := ⟨n - 1, by have := hnb.1; omega⟩
    have hab : afterBoundary prevB (rep n '`' ++ codePad b ++ b ++ codePad b ++ rep n '`') = true := by
      have : rep n '`' ++ codePad b ++ b ++ codePad b ++ rep n '`' =
          (rep n '`' ++ codePad b ++ b ++ codePad b ++ rep j '`') ++ ['`'] := by
        rw [hj]; simp [rep, List.replicate_succ', List.append_assoc]
      rw [this, afterBoundary_tick]
    obtain ⟨segs, st', hp, hd, hm, hds, hu⟩ := ih true endB (draw st).2
    refine ⟨⟨.code n b, (splitMix r).1⟩ :: segs, st', ?_, by rw [hd, draw_defs],
      by rw [List.map_cons, hm, splitMix_code]; rfl, ?_, ?_⟩
    · simp only [printInlines, printInline, hn, hab, hp, splitMix_code]
      simp [escAll, rawM, MKind.src, spanSrc, padded, rep, ticks, List.append_assoc]
    · intro s hs
      rcases List.mem_cons.1 hs with rfl | hs
      · exact hnb
      · exact hds s hs
    · rw [splitMix_code]
      refine ⟨fun hcl => ?_, ?_⟩
      · simp [MKind.cls] at hcl
      · rw [pwOf_true] at hu; exact hu
  · intro w r hw hr ih prevB endB st
    obtain ⟨segs, st', hp, hd, hm, hds, hu⟩ := printsMix_em_step false w r hr ih prevB endB st _ rfl
    refine ⟨segs, st', ?_, hd, by rw [splitMix_em]; exact hm, hds, ?_⟩
    · simp only [Bool.false_eq_true, if_false] at hp
      rw [hp, splitMix_em]; simp [escAll]
    · rw [splitMix_em]; exact hu
  · intro w r hw hr ih prevB endB st
    obtain ⟨segs, st', hp, hd, hm, hds, hu⟩ := printsMix_em_step true w r hr ih prevB endB st _ rfl
    refine ⟨segs, st', ?_, hd, by rw [splitMix_strong]; exact hm, hds, ?_⟩
    · simp only [if_true] at hp
      rw [hp, splitMix_strong]; simp [escAll]
    · rw [splitMix_strong]; exact hu


/-! ### 31. from well-formed mixed content to the facts the stages need -/

/-- what well-formedness says of an item -/
def QKind.ok : QKind → Prop
  | .code b => wfCodeSpan b = true ∧ noLt b = true
  | .em _ w => wfLabel w = true

theorem splitMix_chars (c : List DocSpec.Inline) (h : mixItemsOK c = true) :
    (∀ ch ∈ (splitMix c).1, plainCh ch) ∧ ∀ q ∈ (splitMix c).2, (∀ ch ∈ q.2, plainCh ch) ∧ q.1.ok := by
  revert h
  refine mixItems_ind (motive := fun c => (∀ ch ∈ (splitMix c).1, plainCh ch) ∧
    ∀ q ∈ (splitMix c).2, (∀ ch ∈ q.2, plainCh ch) ∧ q.1.ok) ?_ ?_ ?_ ?_ ?_ ?_ c
  · simp [splitMix]
  · intro w r hw _ ih
    simp only [wfWords, Bool.and_eq_true] at hw
    rw [splitMix_text]
    refine ⟨?_, ih.2⟩
    intro ch hch
    rcases List.mem_append.1 hch with hch | hch
    · exact Or.inl (List.all_eq_true.1 hw.1.2 ch hch)
    · exact ih.1 ch hch
  · intro e r he _ ih
    rw [splitMix_esc]
    refine ⟨?_, ih.2⟩
    intro ch hch
    rcases List.mem_cons.1 hch with rfl | hch
    · exact Or.inr he
    · exact ih.1 ch hch
  · intro b r hw hlt _ ih
    rw [splitMix_code]
    refine ⟨by simp, ?_⟩
    intro q hq
    rcases List.mem_cons.1 hq with rfl | hq
    · exact ⟨ih.1, hw, hlt⟩
    · exact ih.2 q hq
  · intro w r hw _ ih
    rw [splitMix_em]
    refine ⟨by simp, ?_⟩
    intro q hq
    rcases List.mem_cons.1 hq with rfl | hq
    · exact ⟨ih.1, hw⟩
    · exact ih.2 q hq
  · intro w r hw _ ih
    rw [splitMix_strong]
    refine ⟨by simp, ?_⟩
    intro q hq
    rcases List.mem_cons.1 hq with rfl | hq
    · exact ⟨ih.1, hw⟩
    · exact ih.2 q hq

theorem splitMix_nil_iff (c : List DocSpec.Inline) (h : mixItemsOK c = true) :
    ((splitMix c).1 = [] ∧ (splitMix c).2 = []) ↔ c = [] := by
  revert h
  refine mixItems_ind (motive := fun c => ((splitMix c).1 = [] ∧ (splitMix c).2 = []) ↔ c = []) ?_ ?_ ?_ ?_ ?_ ?_ c
  · simp [splitMix]
  · intro w r hw _ _
    have : w ≠ [] := by intro e; subst e; simp [wfWords] at hw
    rw [splitMix_text]; simp [this]
  · intro ch r _ _ _; rw [splitMix_esc]; simp
  · intro b r _ _ _ _; rw [splitMix_code]; simp
  · intro w r _ _ _; rw [splitMix_em]; simp
  · intro w r _ _ _; rw [splitMix_strong]; simp

theorem splitMix_first (c : List DocSpec.Inline) (h : mixItemsOK c = true) :
    startsOk c = true → (splitMix c).1 ≠ [] → startsVisible (splitMix c).1 = true := by
  revert h
  refine mixItems_ind (motive := fun c => startsOk c = true → (splitMix c).1 ≠ [] →
    startsVisible (splitMix c).1 = true) ?_ ?_ ?_ ?_ ?_ ?_ c
  · intro hs; simp [startsOk] at hs
  · intro w r hw _ _ hs _
    simp only [wfWords, Bool.and_eq_true, Bool.not_eq_true'] at hw
    simp only [startsOk, bne_iff_ne, ne_eq] at hs
    cases w with
    | nil => simp at hw
    | cons a b =>
      have ha : isAlnumSp a = true := by
        have := hw.1.2; simp only [List.all_cons, Bool.and_eq_true] at this; exact this.1
      have : a ≠ ' ' := by simpa using hs
      rw [splitMix_text]
      simp [startsVisible, alnum_visible a ha this]
  · intro ch r hch _ _ _ _
    rw [splitMix_esc]
    simp [startsVisible, (escChar_facts _ hch).2.2]
  · intro b r _ _ _ _ _ hne; rw [splitMix_code] at hne; exact absurd rfl hne
  · intro w r _ _ _ _ hne; rw [splitMix_em] at hne; exact absurd rfl hne
  · intro w r _ _ _ _ hne; rw [splitMix_strong] at hne; exact absurd rfl hne

def lastTextMQ (p : Str × List (QKind × Str)) : Str := (p.2.getLast?.map (·.2)).getD p.1

theorem lastTextMQ_same (t t' : Str) (ss : List (QKind × Str)) (hss : ss ≠ []) :
    lastTextMQ (t, ss) = lastTextMQ (t', ss) := by
  simp only [lastTextMQ]
  cases hg : ss.getLast? with
  | none => exact absurd (List.getLast?_eq_none_iff.1 hg) hss
  | some q => rfl

theorem lastTextMQ_cons (t : Str) (q : QKind × Str) (ss : List (QKind × Str)) :
    lastTextMQ (t, q :: ss) = lastTextMQ (q.2, ss) := by
  cases ss with
  | nil => rfl
  | cons a b =>
    simp only [lastTextMQ, List.getLast?_cons_cons]
    cases hg : (a :: b).getLast? with
    | none => exact absurd (List.getLast?_eq_none_iff.1 hg) (by simp)
    | some x => rfl

theorem splitMix_last (c : List DocSpec.Inline) (h : mixItemsOK c = true) :
    endsOk c = true → ∀ z, (lastTextMQ (splitMix c)).getLast? = some z → isSpace z = false := by
  revert h
  refine mixItems_ind (motive := fun c => endsOk c = true →
    ∀ z, (lastTextMQ (splitMix c)).getLast? = some z → isSpace z = false) ?_ ?_ ?_ ?_ ?_ ?_ c
  · intro he; simp [endsOk] at he
  · intro w r hw hr ih he z hz
    rw [splitMix_text] at hz
    by_cases hss : (splitMix r).2 = []
    · simp only [lastTextMQ, hss, List.getLast?_nil, Option.map_none, Option.getD_none] at hz
      by_cases ht : (splitMix r).1 = []
      · have hrn : r = [] := (splitMix_nil_iff r hr).1 ⟨ht, hss⟩
        subst hrn
        simp only [ht, List.append_nil] at hz
        simp only [endsOk, bne_iff_ne, ne_eq] at he
        exact alnumSp_last_visible w hw he z hz
      · have hrn : r ≠ [] := fun e => ht (by subst e; rfl)
        apply ih (endsOk_cons_ne hrn he) z
        simp only [lastTextMQ, hss, List.getLast?_nil, Option.map_none, Option.getD_none]
        rw [List.getLast?_append] at hz
        cases hx : (splitMix r).1.getLast? with
        | none => exact absurd (List.getLast?_eq_none_iff.1 hx) ht
        | some q => rw [hx] at hz; simpa using hz
    · have hrn : r ≠ [] := fun e => hss (by subst e; rfl)
      apply ih (endsOk_cons_ne hrn he) z
      rw [lastTextMQ_same _ (w ++ (splitMix r).1) _ hss]
      exact hz
  · intro ch r hch hr ih he z hz
    rw [splitMix_esc] at hz
    by_cases hss : (splitMix r).2 = []
    · simp only [lastTextMQ, hss, List.getLast?_nil, Option.map_none, Option.getD_none] at hz
      by_cases ht : (splitMix r).1 = []
      · simp only [ht, List.getLast?_singleton, Option.some.injEq] at hz
        subst hz
        exact (escChar_facts _ hch).2.2
      · have hrn : r ≠ [] := fun e => ht (by subst e; rfl)
        apply ih (endsOk_cons_ne hrn he) z
        simp only [lastTextMQ, hss, List.getLast?_nil, Option.map_none, Option.getD_none]
        cases hx : (splitMix r).1 with
        | nil => exact absurd hx ht
        | cons a b => rw [hx] at hz; simpa [List.getLast?_cons_cons] using hz
    · have hrn : r ≠ [] := fun e => hss (by subst e; rfl)
      apply ih (endsOk_cons_ne hrn he) z
      rw [lastTextMQ_same _ (ch :: (splitMix r).1) _ hss]
      exact hz
  · intro b r _ _ hr ih he z hz
    rw [splitMix_code, lastTextMQ_cons] at hz
    by_cases hrn : r = []
    · subst hrn; simp [splitMix, lastTextMQ] at hz
    · exact ih (endsOk_cons_ne hrn he) z hz
  · intro w r _ hr ih he z hz
    rw [splitMix_em, lastTextMQ_cons] at hz
    by_cases hrn : r = []
    · subst hrn; simp [splitMix, lastTextMQ] at hz
    · exact ih (endsOk_cons_ne hrn he) z hz
  · intro w r _ hr ih he z hz
    rw [splitMix_strong, lastTextMQ_cons] at hz
    by_cases hrn : r = []
    · subst hrn; simp [splitMix, lastTextMQ] at hz
    · exact ih (endsOk_cons_ne hrn he) z hz


/-- `junctionsOK` on the split content -/
def junctionsQ : Str → Bool → List (QKind × Str) → Prop
  | _, _, [] => True
  | t, pc, q :: r => (q.1.isCode = true → t.getLast? ≠ some '\\' ∧ (pc = true → t ≠ [])) ∧ junctionsQ q.2 q.1.isCode r

theorem q_isCode (k : MKind) : k.q.isCode = k.isCode := by cases k <;> rfl

theorem junctions_of_q (segs : List MSeg) :
    ∀ (t : Str) (pc : Bool), junctionsQ t pc (segs.map (fun s => (s.k.q, s.t))) → junctionsOK t pc segs := by
  induction segs with
  | nil => intro _ _ _; trivial
  | cons s r ih =>
    intro t pc h
    simp only [List.map_cons, junctionsQ, q_isCode] at h
    exact ⟨h.1, ih _ _ h.2⟩

/-- replacing the text before the list: only the first item looks at it -/
theorem junctionsQ_retext {t : Str} {pc : Bool} {L : List (QKind × Str)} (h : junctionsQ t pc L) (t' : Str) (pc' : Bool)
    (h' : ∀ q r, L = q :: r → q.1.isCode = true → t'.getLast? ≠ some '\\' ∧ (pc' = true → t' ≠ [])) :
    junctionsQ t' pc' L := by
  cases L with
  | nil => trivial
  | cons q r => exact ⟨fun hc => h' q r rfl hc, h.2⟩

theorem startsCode_of_split (r : List DocSpec.Inline) (h : mixItemsOK r = true) (h1 : (splitMix r).1 = [])
    (q : QKind × Str) (L : List (QKind × Str)) (h2 : (splitMix r).2 = q :: L) (hq : q.1.isCode = true) :
    ∃ b r', r = .code b :: r' := by
  revert h h1 h2
  refine mixItems_ind (motive := fun r => (splitMix r).1 = [] → (splitMix r).2 = q :: L → ∃ b r', r = .code b :: r')
    ?_ ?_ ?_ ?_ ?_ ?_ r
  · intro _ h2; simp [splitMix] at h2
  · intro w r' hw _ _ h1 _
    have : w ≠ [] := by intro e; subst e; simp [wfWords] at hw
    rw [splitMix_text] at h1; simp [this] at h1
  · intro ch r' _ _ _ h1 _; rw [splitMix_esc] at h1; simp at h1
  · intro b r' _ _ _ _ _ _; exact ⟨b, r', rfl⟩
  · intro w r' _ _ _ _ h2
    rw [splitMix_em] at h2
    simp only [List.cons.injEq] at h2
    rw [← h2.1] at hq; simp [QKind.isCode] at hq
  · intro w r' _ _ _ _ h2
    rw [splitMix_strong] at h2
    simp only [List.cons.injEq] at h2
    rw [← h2.1] at hq; simp [QKind.isCode] at hq

theorem splitMix_junctions (c : List DocSpec.Inline) (h : mixItemsOK c = true) :
    okAdjacents c = true → noBsBeforeCode c = true →
      junctionsQ (splitMix c).1 false (splitMix c).2 ∧
      (startsCode c = false → junctionsQ (splitMix c).1 true (splitMix c).2) := by
  revert h
  refine mixItems_ind (motive := fun c => okAdjacents c = true → noBsBeforeCode c = true →
      junctionsQ (splitMix c).1 false (splitMix c).2 ∧
      (startsCode c = false → junctionsQ (splitMix c).1 true (splitMix c).2)) ?_ ?_ ?_ ?_ ?_ ?_ c
  · intro _ _; exact ⟨trivial, fun _ => trivial⟩
  · intro w r hw hr ih ha hb
    obtain ⟨i1, _⟩ := ih (okAdjacents_tail ha) (noBs_tail hb)
    simp only [wfWords, Bool.and_eq_true, Bool.not_eq_true', List.isEmpty_eq_false_iff] at hw
    rw [splitMix_text]
    have key : ∀ pc, junctionsQ (w ++ (splitMix r).1) pc (splitMix r).2 := by
      intro pc
      apply junctionsQ_retext i1
      intro q L hL hq
      refine ⟨?_, fun _ => by simp [hw.1.1]⟩
      rw [List.getLast?_append]
      cases ht : (splitMix r).1.getLast? with
      | none =>
        simp only [Option.none_or]
        intro hl
        exact alnumSp_ne_bs (List.all_eq_true.1 hw.1.2 _ (List.mem_of_getLast? hl)) rfl
      | some z =>
        simp only [Option.some_or]
        rw [hL] at i1
        have := (i1.1 hq).1
        rw [ht] at this; exact this
    exact ⟨key false, fun _ => key true⟩
  · intro ch r hch hr ih ha hb
    obtain ⟨i1, _⟩ := ih (okAdjacents_tail ha) (noBs_tail hb)
    rw [splitMix_esc]
    have key : ∀ pc, junctionsQ (ch :: (splitMix r).1) pc (splitMix r).2 := by
      intro pc
      apply junctionsQ_retext i1
      intro q L hL hq
      refine ⟨?_, fun _ => by simp⟩
      cases ht : (splitMix r).1 with
      | nil =>
        obtain ⟨b, r', hr'⟩ := startsCode_of_split r hr ht q L hL hq
        subst hr'
        simp only [noBsBeforeCode, Bool.and_eq_true, bne_iff_ne, ne_eq] at hb
        simpa using hb.1
      | cons a b =>
        rw [hL, ht] at i1
        have := (i1.1 hq).1
        simpa [List.getLast?_cons_cons] using this
    exact ⟨key false, fun _ => key true⟩
  · intro b r _ _ hr ih ha hb
    obtain ⟨_, i2⟩ := ih (okAdjacents_tail ha) (noBs_tail hb)
    have hns : startsCode r = false := by
      cases r with
      | nil => rfl
      | cons y r' =>
        cases y <;> first | rfl | skip
        rw [okAdjacents] at ha
        simp [okAdjacent, isCodeSpan] at ha
    rw [splitMix_code]
    refine ⟨⟨fun _ => ⟨by simp, fun e => absurd e (by decide)⟩, i2 hns⟩, fun e => ?_⟩
    simp [startsCode] at e
  · intro w r _ hr ih ha hb
    obtain ⟨i1, _⟩ := ih (okAdjacents_tail ha) (noBs_tail hb)
    rw [splitMix_em]
    exact ⟨⟨fun e => by simp [QKind.isCode] at e, i1⟩, fun _ => ⟨fun e => by simp [QKind.isCode] at e, i1⟩⟩
  · intro w r _ hr ih ha hb
    obtain ⟨i1, _⟩ := ih (okAdjacents_tail ha) (noBs_tail hb)
    rw [splitMix_strong]
    exact ⟨⟨fun e => by simp [QKind.isCode] at e, i1⟩, fun _ => ⟨fun e => by simp [QKind.isCode] at e, i1⟩⟩


theorem mem_emSrc' {st : Bool} {d : Char} {w : Str} {c : Char} (h : c ∈ emSrc ⟨st, d, w, []⟩) : c = d ∨ c ∈ w :=
  mem_emSrc h

/-- everything the proofs use of well-formed mixed content, about its split form `t0`, `segs` (the items with the
    fences and delimiters the printer chose) -/
structure MixContentOK (c : List DocSpec.Inline) (t0 : Str) (segs : List MSeg) : Prop where
  items : mixItemsOK c = true
  run : wfRun .none c = true
  nobs : noBsBeforeCode c = true
  t0eq : t0 = (splitMix c).1
  smap : segs.map (fun s => (s.k.q, s.t)) = (splitMix c).2
  printed : ∀ s ∈ segs, KPrinted s.k
  under : UnderOKM ESC (lastW ESC t0) segs

theorem mem_segs_splitMix {c : List DocSpec.Inline} {t0 : Str} {segs : List MSeg} (h : MixContentOK c t0 segs)
    {s : MSeg} (hs : s ∈ segs) : (s.k.q, s.t) ∈ (splitMix c).2 := by
  rw [← h.smap]; exact List.mem_map.2 ⟨s, hs, rfl⟩

theorem kindOK_of (k : MKind) (hq : k.q.ok) (hp : KPrinted k) : MKindOK k ∧ k.clean ∧ '\n' ∉ k.src := by
  cases k with
  | code n b =>
    obtain ⟨hw, hlt⟩ := hq
    obtain ⟨hne, hpr, _, _, _, _⟩ := wfCodeSpan_facts hw
    have hpo := padded_ok n b hw hp
    refine ⟨hpo, ?_, ?_⟩
    · intro hm
      rcases mem_codeEscape hm with hm | hm
      · exact (printable_facts (hpr _ hm)).2.2.2.1 rfl
      · revert hm; decide
    · intro hm
      simp only [MKind.src, spanSrc, ticks, padded, List.mem_append] at hm
      have hpad : ∀ x ∈ codePad b, x = ' ' := by
        intro x hx; unfold codePad at hx; split at hx <;> simp at hx; exact hx
      rcases hm with hm | ((hm | hm) | hm) | hm
      · exact absurd (List.eq_of_mem_replicate hm) (by decide)
      · exact absurd (hpad _ hm) (by decide)
      · exact (printable_facts (hpr _ hm)).1 rfl
      · exact absurd (hpad _ hm) (by decide)
      · exact absurd (List.eq_of_mem_replicate hm) (by decide)
  | em st d w =>
    obtain ⟨hw, hh⟩ := wordOK_of_label hq
    refine ⟨⟨hp, hw, hh⟩, fun hm => (wordCh_facts (hw.2 _ hm)).2.2.2.2.2.2.2.2 rfl, ?_⟩
    intro hm
    rcases mem_emSrc' hm with e | e
    · rcases hp with e' | e' <;> rw [e'] at e <;> exact absurd e (by decide)
    · exact (wordCh_facts (hw.2 _ e)).2.2.2.2.2.2.2.1 rfl

theorem lastTextM_eq (t0 : Str) (segs : List MSeg) :
    lastTextM t0 segs = lastTextMQ (t0, segs.map (fun s => (s.k.q, s.t))) := by
  simp only [lastTextM, lastTextMQ, List.getLast?_map]
  cases segs.getLast? <;> rfl

theorem MixContentOK.facts {c : List DocSpec.Inline} {t0 : Str} {segs : List MSeg} (h : MixContentOK c t0 segs) :
    MSegsOK segs ∧ (∀ s ∈ segs, s.k.clean) ∧ junctionsOK t0 false segs ∧ MixLineOK t0 segs ∧
      (∀ ch, (ch ∈ t0 ∨ ∃ s ∈ segs, ch ∈ s.t) → plainCh ch) ∧ (∀ s ∈ segs, s.k.q.ok) := by
  have hrun := h.run
  simp only [wfRun, Bool.and_eq_true, decide_eq_true_eq, Bool.or_eq_true] at hrun
  obtain ⟨⟨⟨hst, hen⟩, hadj⟩, _⟩ := hrun
  obtain ⟨hc0, hcs⟩ := splitMix_chars c h.items
  have hplain : ∀ ch, (ch ∈ t0 ∨ ∃ s ∈ segs, ch ∈ s.t) → plainCh ch := by
    intro ch hch
    rcases hch with hch | ⟨s, hs, hch⟩
    · rw [h.t0eq] at hch; exact hc0 ch hch
    · exact (hcs _ (mem_segs_splitMix h hs)).1 ch hch
  have hq : ∀ s ∈ segs, s.k.q.ok := fun s hs => (hcs _ (mem_segs_splitMix h hs)).2
  have hk := fun s hs => kindOK_of s.k (hq s hs) (h.printed s hs)
  have hok : MSegsOK segs := fun s hs => (hk s hs).1
  have hne : c ≠ [] := by intro e; subst e; simp [startsOk] at hst
  have hj : junctionsOK t0 false segs := by
    apply junctions_of_q
    rw [h.smap, h.t0eq]
    exact (splitMix_junctions c h.items hadj h.nobs).1
  refine ⟨hok, fun s hs => (hk s hs).2.1, hj, ⟨?_, ?_, ?_, ?_, ?_, hok⟩, hplain, hq⟩
  · exact fun hm => (plainCh_facts (hplain _ (Or.inl hm))).2.1 rfl
  · exact fun s hs => ⟨fun hm => (plainCh_facts (hplain _ (Or.inr ⟨s, hs, hm⟩))).2.1 rfl, (hk s hs).2.2⟩
  · by_cases ht : t0 = []
    · right
      intro hs
      have : (splitMix c).1 = [] ∧ (splitMix c).2 = [] := by
        rw [← h.t0eq, ← h.smap, hs]; exact ⟨ht, rfl⟩
      exact hne ((splitMix_nil_iff c h.items).1 this)
    · exact Or.inl ht
  · intro ht
    rw [h.t0eq] at ht ⊢
    exact splitMix_first c h.items hst ht
  · intro z hz
    rw [lastTextM_eq, h.smap, h.t0eq] at hz
    exact splitMix_last c h.items hen z hz

theorem MixContentOK.mixTxtOK {c : List DocSpec.Inline} {t0 : Str} {segs : List MSeg} (h : MixContentOK c t0 segs)
    (tag : Str) (htag : textTags.contains tag = true) : MixTxtOK ESC tag t0 segs := by
  obtain ⟨h1, h2, h3, h4, h5, _⟩ := h.facts
  refine ⟨htag, h1, h3, h.under, fun ch hch => ?_, h2, h4.ne⟩
  obtain ⟨_, a2, a3, _, a5⟩ := plainCh_facts (h5 ch hch); exact ⟨a3, a2, a5⟩

/-! #### the printed line is safe for the preprocessors -/

theorem src_chars (k : MKind) (hq : k.q.ok) (hp : KPrinted k) : ∀ ch ∈ k.src, okCh ch := by
  intro ch hc
  have hsp : okCh ' ' := ⟨by decide, by decide, by decide, by decide, by decide, by decide⟩
  cases k with
  | code n b =>
    obtain ⟨hw, hlt⟩ := hq
    obtain ⟨_, hpr, _⟩ := wfCodeSpan_facts hw
    simp only [MKind.src, spanSrc, ticks, padded, List.mem_append] at hc
    have hpad : ∀ x ∈ codePad b, x = ' ' := by
      intro x hx; unfold codePad at hx; split at hx <;> simp at hx; exact hx
    have htick : okCh '`' := ⟨by decide, by decide, by decide, by decide, by decide, by decide⟩
    rcases hc with hc | ((hc | hc) | hc) | hc
    · rw [List.eq_of_mem_replicate hc]; exact htick
    · rw [hpad _ hc]; exact hsp
    · refine okCh_printable (hpr _ hc) ?_
      intro e; subst e
      simp only [noLt, Bool.not_eq_true'] at hlt
      have : b.contains '<' = true := List.contains_iff_mem.2 hc
      rw [hlt] at this; cases this
    · rw [hpad _ hc]; exact hsp
    · rw [List.eq_of_mem_replicate hc]; exact htick
  | em st d w =>
    obtain ⟨hw, _⟩ := wordOK_of_label hq
    rcases mem_emSrc' hc with e | e
    · rcases hp with e' | e' <;> rw [e, e'] <;>
        exact ⟨by decide, by decide, by decide, by decide, by decide, by decide⟩
    · exact (okCh_of_alnumSp (hw.2 _ e)).1

theorem mix_raw_chars {c : List DocSpec.Inline} {t0 : Str} {segs : List MSeg} (h : MixContentOK c t0 segs) :
    ∀ ch ∈ escAll ESC t0 ++ rawM ESC segs, okCh ch := by
  obtain ⟨_, _, _, _, h3, hq⟩ := h.facts
  have hpl : ∀ x, plainCh x → okCh x := fun x hx => okCh_plain (plainCh_facts hx).1 (plainCh_facts hx).2.1
  have hesc : ∀ (t : Str), (∀ x ∈ t, plainCh x) → ∀ x ∈ escAll ESC t, okCh x := by
    intro t ht x hx
    rcases mem_escAll hx with rfl | hx
    · exact ⟨by decide, by decide, by decide, by decide, by decide, by decide⟩
    · exact hpl x (ht x hx)
  intro ch hch
  rcases List.mem_append.1 hch with hch | hch
  · exact hesc t0 (fun x hx => h3 x (Or.inl hx)) ch hch
  · obtain ⟨s, hs, hc | hc⟩ := mem_rawM hch
    · exact src_chars s.k (hq s hs) (h.printed s hs) ch hc
    · exact hesc s.t (fun x hx => h3 x (Or.inr ⟨s, hs, hx⟩)) ch hc

theorem refsClosed_spanSrc (n : Nat) (b : Str) (hk : ∃ k, n = k + 1) (hw : wfCodeSpan b = true) (Z : Str)
    (hZ : refsClosed Z = true) : refsClosed (spanSrc n b ++ Z) = true := by
  obtain ⟨k, hk⟩ := hk
  obtain ⟨_, _, _, _, _, hamp⟩ := wfCodeSpan_facts hw
  have hpad : '&' ∉ codePad b := by
    intro hm; unfold codePad at hm; split at hm <;> simp at hm
  have hafter : ∃ c0 X0, codePad b ++ (ticks n ++ Z) = c0 :: X0 ∧
      isNeutral c0 = true ∧ refsClosed (c0 :: X0) = true := by
    have hcl : refsClosed (ticks n ++ Z) = true := refsClosed_ticks _ hZ
    unfold codePad
    split
    · exact ⟨' ', _, rfl, by decide, refsClosed_cons_of_ne (by decide) hcl⟩
    · rw [hk] at hcl ⊢
      exact ⟨'`', ticks k ++ Z, by simp [ticks, List.replicate_succ],
        by decide, by simpa [ticks, List.replicate_succ] using hcl⟩
  obtain ⟨c0, X0, he, hn, hc⟩ := hafter
  have hbody : refsClosed (b ++ (codePad b ++ (ticks n ++ Z))) = true := by
    rw [he]; exact refsClosed_append b c0 X0 hn (refsClosed_of_noAmpHash b hamp) hc
  have : spanSrc n b ++ Z = ticks n ++ (codePad b ++ (b ++ (codePad b ++ (ticks n ++ Z)))) := by
    simp [spanSrc, padded, List.append_assoc]
  rw [this]
  exact refsClosed_ticks _ (refsClosed_noamp_append _ _ hpad hbody)

theorem refsClosed_rawM (segs : List MSeg)
    (h : ∀ s ∈ segs, s.k.q.ok ∧ KPrinted s.k ∧ ∀ x ∈ s.t, plainCh x) (Z : Str)
    (hZ : refsClosed Z = true) : refsClosed (rawM ESC segs ++ Z) = true := by
  induction segs with
  | nil => simpa [rawM] using hZ
  | cons s r ih =>
    obtain ⟨hq, hp, hpl⟩ := h s List.mem_cons_self
    have ihr := ih (fun x hx => h x (List.mem_cons_of_mem _ hx))
    have hrest : refsClosed (escAll ESC s.t ++ (rawM ESC r ++ Z)) = true :=
      refsClosed_noamp_append _ _ (no_amp_escAll s.t hpl) ihr
    have e : rawM ESC (s :: r) ++ Z = s.k.src ++ (escAll ESC s.t ++ (rawM ESC r ++ Z)) := by
      simp [rawM, List.append_assoc]
    rw [e]
    cases hk : s.k with
    | code n b =>
      rw [hk] at hq hp
      exact refsClosed_spanSrc n b (padded_ok n b hq.1 hp).1 hq.1 _ hrest
    | em st d w =>
      rw [hk] at hq hp
      obtain ⟨hw, _⟩ := wordOK_of_label hq
      apply refsClosed_noamp_append _ _ _ hrest
      intro hm
      rcases mem_emSrc' hm with e' | e'
      · rcases hp with e2 | e2 <;> rw [e2] at e' <;> exact absurd e' (by decide)
      · exact (wordCh_facts (hw.2 _ e')).2.2.2.2.2.2.1 rfl

theorem refsClosed_mixRaw {c : List DocSpec.Inline} {t0 : Str} {segs : List MSeg} (h : MixContentOK c t0 segs)
    (P Q : Str) (hP : '&' ∉ P) (hQ : '&' ∉ Q) :
    refsClosed (P ++ (escAll ESC t0 ++ rawM ESC segs) ++ Q) = true := by
  obtain ⟨_, _, _, _, h3, hq⟩ := h.facts
  have hQc : refsClosed Q = true := refsClosed_of_no_amp Q hQ
  have := refsClosed_rawM segs (fun s hs => ⟨hq s hs, h.printed s hs, fun x hx => h3 x (Or.inr ⟨s, hs, hx⟩)⟩) Q hQc
  have h0 := refsClosed_noamp_append _ _ (no_amp_escAll t0 (fun x hx => h3 x (Or.inl hx))) this
  have := refsClosed_noamp_append P _ hP h0
  simpa [List.append_assoc] using this


/-! ### 32. the specification side, and the pieces of mixed paragraphs and headings -/

def QKind.spec : QKind → Str
  | .code b => S "<code>" ++ htmlEsc b ++ S "</code>"
  | .em st w => '<' :: emTagS st ++ ['>'] ++ htmlEsc w ++ ('<' :: '/' :: emTagS st ++ ['>'])

theorem QKind.spec_code (b : Str) : (QKind.code b).spec = S "<code>" ++ htmlEsc b ++ S "</code>" := rfl
theorem QKind.spec_em (st : Bool) (w : Str) :
    (QKind.em st w).spec = '<' :: emTagS st ++ ['>'] ++ htmlEsc w ++ ('<' :: '/' :: emTagS st ++ ['>']) := rfl

def specMix : List (QKind × Str) → Str
  | [] => []
  | q :: r => q.1.spec ++ htmlEsc q.2 ++ specMix r

theorem specMix_cons (q : QKind × Str) (r : List (QKind × Str)) :
    specMix (q :: r) = q.1.spec ++ htmlEsc q.2 ++ specMix r := rfl

theorem specInlines_splitMix (c : List DocSpec.Inline) (h : mixItemsOK c = true) :
    specInlines c = htmlEsc (splitMix c).1 ++ specMix (splitMix c).2 := by
  revert h
  refine mixItems_ind (motive := fun c => specInlines c = htmlEsc (splitMix c).1 ++ specMix (splitMix c).2)
    ?_ ?_ ?_ ?_ ?_ ?_ c
  · rfl
  · intro w r _ _ ih
    rw [specInlines_cons, specInline_text, ih, splitMix_text, htmlEsc_append, List.append_assoc]
  · intro ch r _ _ ih
    have : ch :: (splitMix r).1 = [ch] ++ (splitMix r).1 := rfl
    rw [specInlines_cons, specInline_esc, ih, splitMix_esc, this, htmlEsc_append, List.append_assoc]
  · intro b r _ _ _ ih
    rw [specInlines_cons, specInline_code, ih, splitMix_code, specMix_cons, QKind.spec_code]
    simp only [List.append_assoc]
    rfl
  · intro w r _ _ ih
    rw [specInlines_cons, specInline_em, ih, splitMix_em, specMix_cons, QKind.spec_em]
    simp only [List.append_assoc]
    rfl
  · intro w r _ _ ih
    rw [specInlines_cons, specInline_strong, ih, splitMix_strong, specMix_cons, QKind.spec_em]
    simp only [List.append_assoc]
    rfl

open Code in
theorem kout_eq_code (n : Nat) (b : Str) : (MKind.code n b).out = (MKind.code n b).q.spec := by
  show "<code>".toList ++ Ser.escCdata (Code.codeEscape b) ++ "</code>".toList = S "<code>" ++ htmlEsc b ++ S "</code>"
  rw [htmlEsc_eq_codeEscape b, codeEscape_onepass, escCdata_codeEscape1]

theorem kout_eq_em (st : Bool) (d : Char) (w : Str) (hw : '&' ∉ w) : (MKind.em st d w).out = (MKind.em st d w).q.spec := by
  show '<' :: emTagS st ++ ['>'] ++ Ser.escCdata w ++ ('<' :: '/' :: emTagS st ++ ['>']) =
    '<' :: emTagS st ++ ['>'] ++ htmlEsc w ++ ('<' :: '/' :: emTagS st ++ ['>'])
  rw [htmlEsc_eq_escCdata w hw]

/-- no `&` in the words of an emphasis -/
def MKind.noAmp : MKind → Prop
  | .code _ _ => True
  | .em _ _ w => '&' ∉ w

theorem kout_eq (k : MKind) (h : k.noAmp) : k.out = k.q.spec :=
  match k, h with
  | .code n b, _ => kout_eq_code n b
  | .em st d w, h => kout_eq_em st d w h

theorem outM_eq (segs : List MSeg) (h : ∀ s ∈ segs, '&' ∉ s.t ∧ s.k.noAmp) :
    outM segs = specMix (segs.map (fun s => (s.k.q, s.t))) := by
  induction segs with
  | nil => rfl
  | cons s r ih =>
    rw [outM_cons, List.map_cons, specMix_cons, ih (fun x hx => h x (List.mem_cons_of_mem _ hx)),
      htmlEsc_eq_escCdata s.t (h s List.mem_cons_self).1, kout_eq s.k (h s List.mem_cons_self).2]

theorem mixTxtOut_eq {c : List DocSpec.Inline} {t0 : Str} {segs : List MSeg} (h : MixContentOK c t0 segs)
    (tag : Str) : mixTxtOut tag t0 segs = '<' :: tag ++ ['>'] ++ specInlines c ++ ('<' :: '/' :: tag ++ ['>']) := by
  obtain ⟨_, _, _, _, h3, hq⟩ := h.facts
  have ha0 : '&' ∉ t0 := fun hm => (plainCh_facts (h3 _ (Or.inl hm))).2.2.1 rfl
  have has : ∀ s ∈ segs, '&' ∉ s.t ∧ s.k.noAmp := fun s hs =>
    ⟨fun hm => (plainCh_facts (h3 _ (Or.inr ⟨s, hs, hm⟩))).2.2.1 rfl, by
      have := hq s hs
      cases hk : s.k with
      | code n b => trivial
      | em st d w =>
        rw [hk] at this
        exact fun hm => (wordCh_facts ((wordOK_of_label this).1.2 _ hm)).2.2.2.2.2.2.1 rfl⟩
  rw [specInlines_splitMix c h.items, ← h.t0eq, ← h.smap, ← outM_eq segs has, htmlEsc_eq_escCdata t0 ha0]
  simp [mixTxtOut, List.append_assoc]

/-! #### the printed blocks as pieces -/

theorem printContent_mix (c : List DocSpec.Inline) (brOk : Bool) (hp : mixRun c = true)
    (hw : wfInlines false .none brOk c = true) (st : PSt) :
    ∃ (t0 : Str) (segs : List MSeg) (st' : PSt),
      printContent c st = ([escAll ESC t0 ++ rawM ESC segs], st') ∧ st'.defs = st.defs ∧ MixContentOK c t0 segs := by
  simp only [mixRun, Bool.and_eq_true] at hp
  simp only [wfInlines, Bool.and_eq_true] at hw
  have hitems := mixItemsOK_of_wf c brOk hp.1 hw.2
  obtain ⟨segs, st', hpr, hd, hm, hds, hu⟩ := printInlines_mix c hitems true true st
  rw [pwOf_true] at hu
  have hok : MixContentOK c (splitMix c).1 segs := ⟨hitems, hw.1, hp.2, rfl, hm, hds, hu⟩
  refine ⟨(splitMix c).1, segs, st', ?_, hd, hok⟩
  obtain ⟨_, _, _, h2, _, _⟩ := hok.facts
  have hnl := (rawOK_mixLine escOK_generated _ segs h2).nl
  simp only [printContent, hpr]
  rw [splitC_noNl _ (notNl_of_not_mem hnl)]

/-- the facts about a line `P ++ raw ++ Q` around the content -/
theorem line_facts_mix {c : List DocSpec.Inline} {t0 : Str} {segs : List MSeg} (h : MixContentOK c t0 segs) (P Q : Str)
    (hP : ∀ x ∈ P, okCh x ∧ x ≠ '&') (hQ : ∀ x ∈ Q, okCh x ∧ x ≠ '&') :
    (lineSafe (P ++ (escAll ESC t0 ++ rawM ESC segs) ++ Q) = true ∧
      '<' ∉ P ++ (escAll ESC t0 ++ rawM ESC segs) ++ Q ∧
      refsClosed (P ++ (escAll ESC t0 ++ rawM ESC segs) ++ Q) = true) ∧
    '\n' ∉ P ++ (escAll ESC t0 ++ rawM ESC segs) ++ Q ∧
    ∃ x ∈ P ++ (escAll ESC t0 ++ rawM ESC segs) ++ Q, isSpace x = false := by
  obtain ⟨_, _, _, h2, _, _⟩ := h.facts
  have hraw := rawOK_mixLine escOK_generated t0 segs h2
  obtain ⟨c0, tail, he, hcs, _⟩ := hraw.shape
  have hc0 : c0 ∈ P ++ (escAll ESC t0 ++ rawM ESC segs) ++ Q := by rw [he]; simp
  have hch : ∀ x ∈ P ++ (escAll ESC t0 ++ rawM ESC segs) ++ Q, okCh x := by
    intro x hx
    simp only [List.mem_append] at hx
    rcases hx with (hx | hx) | hx
    · exact (hP x hx).1
    · exact mix_raw_chars h x (List.mem_append.2 hx)
    · exact (hQ x hx).1
  have hs := safe_of_okCh _ hch ⟨c0, hc0, by intro e; subst e; exact absurd hcs (by decide)⟩
  exact ⟨⟨hs.1, hs.2, refsClosed_mixRaw h P Q (fun hm => (hP _ hm).2 rfl) (fun hm => (hQ _ hm).2 rfl)⟩,
    fun hm => (hch _ hm).1 rfl, c0, hc0, hcs⟩

/-- a paragraph with code spans and emphasised words, indented by `i < 4` -/
theorem mixPara_ok {c : List DocSpec.Inline} {t0 : Str} {segs : List MSeg} (h : MixContentOK c t0 segs) (i : Nat)
    (hi : i < 4) :
    Piece2OK {} (mixPiece ESC [spaces i ++ (escAll ESC t0 ++ rawM ESC segs)] "p".toList t0 segs) := by
  obtain ⟨_, _, _, h2, _, _⟩ := h.facts
  have hraw := rawOK_mixLine escOK_generated t0 segs h2
  obtain ⟨⟨hs1, hs2, hs3⟩, hnl, hvis⟩ := line_facts_mix h (spaces i) [] (okCh_spaces i) (by simp)
  simp only [List.append_nil] at hs1 hs2 hs3 hnl hvis
  apply mixPiece_ok _ _ _ _ (h.mixTxtOK _ (by decide)) (by simp)
  · simp only [joinLines, join_singleton]
    apply nel_line _ _ hnl
    obtain ⟨x, hx, _⟩ := hvis
    intro e; rw [e] at hx; simp at hx
  · simp only [joinLines, join_singleton]
    exact produces_para_raw 4 i hi (by omega) _ hraw
  · intro l hl
    have : l = spaces i ++ (escAll ESC t0 ++ rawM ESC segs) := by simpa using hl
    subst this; exact ⟨hs1, hs2, hs3⟩
  · simpa [joinLines] using hvis


/-- a Setext heading with code spans and emphasised words -/
theorem mixSetext_ok {c : List DocSpec.Inline} {t0 : Str} {segs : List MSeg} (h : MixContentOK c t0 segs)
    (i : Nat) (hi : i < 4) (lv k : Nat) (hlv : lv = 1 ∨ lv = 2) :
    Piece2OK {} (mixPiece ESC [spaces i ++ (escAll ESC t0 ++ rawM ESC segs),
      List.replicate (k + 1) (if lv = 1 then '=' else '-')] ('h' :: natToDec lv) t0 segs) := by
  obtain ⟨_, _, _, h2, _, _⟩ := h.facts
  have hraw := rawOK_mixLine escOK_generated t0 segs h2
  obtain ⟨⟨hs1, hs2, hs3⟩, hnl, hvis⟩ := line_facts_mix h (spaces i) [] (okCh_spaces i) (by simp)
  simp only [List.append_nil] at hs1 hs2 hs3 hnl hvis
  have hprod := produces_setext_raw 4 i hi _ hraw lv k hlv
  generalize hu : (if lv = 1 then '=' else '-') = ch at *
  have hch2 : ch = '=' ∨ ch = '-' := by rw [← hu]; split <;> simp
  have hunl : '\n' ∉ List.replicate (k + 1) ch := by
    intro hm; have := List.eq_of_mem_replicate hm
    rcases hch2 with h' | h' <;> rw [h'] at this <;> exact absurd this (by decide)
  have hjoin : joinLines [spaces i ++ (escAll ESC t0 ++ rawM ESC segs), List.replicate (k + 1) ch] =
      spaces i ++ (escAll ESC t0 ++ rawM ESC segs) ++ '\n' :: List.replicate (k + 1) ch := by
    simp [joinLines, join]
  have hlne : spaces i ++ (escAll ESC t0 ++ rawM ESC segs) ≠ [] := by
    obtain ⟨x, hx, _⟩ := hvis
    intro e; rw [e] at hx; simp at hx
  apply mixPiece_ok _ _ _ _ (h.mixTxtOK _ (hTag_mem lv (by omega) (by omega))) (by simp)
  · rw [hjoin]
    exact nel_two_lines _ _ hlne (by simp [List.replicate_succ]) hnl hunl
  · rw [hjoin]; exact hprod
  · intro l hl
    simp only [List.mem_cons, List.mem_nil_iff, or_false] at hl
    rcases hl with rfl | rfl
    · exact ⟨hs1, hs2, hs3⟩
    · have hall : ∀ x ∈ List.replicate (k + 1) ch, okCh x ∧ x ≠ '&' := by
        intro x hx; rw [List.eq_of_mem_replicate hx]
        rcases hch2 with h' | h' <;> rw [h'] <;>
          exact ⟨⟨by decide, by decide, by decide, by decide, by decide, by decide⟩, by decide⟩
      have := safe_of_okCh _ (fun x hx => (hall x hx).1)
        ⟨ch, by simp [List.replicate_succ], by rcases hch2 with h' | h' <;> rw [h'] <;> decide⟩
      exact ⟨this.1, this.2, refsClosed_of_no_amp _ (fun hm => (hall _ hm).2 rfl)⟩
  · obtain ⟨x, hx, hxs⟩ := hvis
    exact ⟨x, by rw [hjoin]; exact List.mem_append_left _ hx, hxs⟩

/-- an ATX heading with code spans and emphasised words -/
theorem mixAtx_ok {c : List DocSpec.Inline} {t0 : Str} {segs : List MSeg} (h : MixContentOK c t0 segs)
    (lv : Nat) (h1 : 1 ≤ lv) (h6 : lv ≤ 6) (Y : Str) (hY : Y = [] ∨ ∃ m, Y = ' ' :: List.replicate m '#') :
    Piece2OK {} (mixPiece ESC [List.replicate lv '#' ++ ' ' :: ((escAll ESC t0 ++ rawM ESC segs) ++ Y)]
      ('h' :: natToDec lv) t0 segs) := by
  obtain ⟨_, _, _, h2, _, _⟩ := h.facts
  have hraw := rawOK_mixLine escOK_generated t0 segs h2
  have hhash : okCh '#' ∧ ('#' : Char) ≠ '&' :=
    ⟨⟨by decide, by decide, by decide, by decide, by decide, by decide⟩, by decide⟩
  have hP : ∀ x ∈ List.replicate lv '#' ++ [' '], okCh x ∧ x ≠ '&' := by
    intro x hx
    rcases List.mem_append.1 hx with hx | hx
    · rw [List.eq_of_mem_replicate hx]; exact hhash
    · have : x = ' ' := by simpa using hx
      rw [this]; exact okCh_space
  have hQ : ∀ x ∈ Y, okCh x ∧ x ≠ '&' := by
    intro x hx
    rcases hY with rfl | ⟨m, rfl⟩
    · simp at hx
    · rcases List.mem_cons.1 hx with hx | hx
      · rw [hx]; exact okCh_space
      · rw [List.eq_of_mem_replicate hx]; exact hhash
  obtain ⟨⟨hs1, hs2, hs3⟩, hnl, hvis⟩ := line_facts_mix h _ Y hP hQ
  have hline : List.replicate lv '#' ++ [' '] ++ (escAll ESC t0 ++ rawM ESC segs) ++ Y =
      List.replicate lv '#' ++ ' ' :: ((escAll ESC t0 ++ rawM ESC segs) ++ Y) := by simp [List.append_assoc]
  rw [hline] at hs1 hs2 hs3 hnl hvis
  apply mixPiece_ok _ _ _ _ (h.mixTxtOK _ (hTag_mem lv h1 h6)) (by simp)
  · simp only [joinLines, join_singleton]
    apply nel_line _ _ hnl
    obtain ⟨x, hx, _⟩ := hvis
    intro e; rw [e] at hx; simp at hx
  · simp only [joinLines, join_singleton]
    exact produces_atx_raw 4 (by omega) _ hraw lv h1 h6 Y hY
  · intro l hl
    have : l = List.replicate lv '#' ++ ' ' :: ((escAll ESC t0 ++ rawM ESC segs) ++ Y) := by simpa using hl
    subst this; exact ⟨hs1, hs2, hs3⟩
  · simpa [joinLines] using hvis




/-! #### every printed block of the sub-grammar -/

theorem mixPiece_out (g : List Str) (tag t0 : Str) (segs : List MSeg) :
    (mixPiece ESC g tag t0 segs).elem.out = mixTxtOut tag t0 segs := rfl

theorem printBlock_mix (b : DocSpec.Block) (hf : isMixBlock b = true) (hw : wfBlock none b = true) (st : PSt) :
    ∃ (p : Piece2) (st' : PSt), printBlock true b st = (p.b.g, st') ∧ st'.defs = st.defs ∧
      Piece2OK {} p ∧ p.elem.out = specBlock b ∧ p.b.isCode = isCode b := by
  cases b with
  | rule => exact printBlock_span .rule rfl hw st
  | code ls => exact printBlock_span (.code ls) hf hw st
  | para c =>
    simp only [isMixBlock] at hf
    simp only [wfBlock] at hw
    obtain ⟨t0, segs, st', hpc, hd, hok⟩ := printContent_mix c true hf hw (draw st).2
    refine ⟨mixPiece ESC [spaces ((draw st).1 % 4) ++ (escAll ESC t0 ++ rawM ESC segs)] "p".toList t0 segs,
      st', ?_, by rw [hd, draw_defs], mixPara_ok hok _ (Nat.mod_lt _ (by omega)), ?_, rfl⟩
    · rw [printBlock_para, hpc]; rfl
    · rw [mixPiece_out, mixTxtOut_eq hok, specBlock_para]
      simp [S]
  | atx l c =>
    simp only [isMixBlock] at hf
    simp only [wfBlock, Bool.and_eq_true, decide_eq_true_eq] at hw
    obtain ⟨t0, segs, st', hpc, hd, hok⟩ := printContent_mix c false hf hw.2 (draw st).2
    have hY : atxClosing (draw st).1 l = [] ∨ ∃ m, atxClosing (draw st).1 l = ' ' :: List.replicate m '#' := by
      unfold atxClosing
      split
      · exact Or.inl rfl
      · split
        · exact Or.inr ⟨1, rfl⟩
        · exact Or.inr ⟨l, rfl⟩
    refine ⟨mixPiece ESC [List.replicate l '#' ++ ' ' :: ((escAll ESC t0 ++ rawM ESC segs) ++
        atxClosing (draw st).1 l)] ('h' :: natToDec l) t0 segs,
      st', ?_, by rw [hd, draw_defs], mixAtx_ok hok l hw.1.1 hw.1.2 _ hY, ?_, rfl⟩
    · rw [printBlock_atx, hpc]
      simp [atxLine, join, rep, List.append_assoc, mixPiece, chunkB]
    · rw [mixPiece_out, mixTxtOut_eq hok, specBlock_atx]
      simp [S, List.append_assoc]
  | setext l c =>
    simp only [isMixBlock] at hf
    simp only [wfBlock, Bool.and_eq_true, Bool.or_eq_true, decide_eq_true_eq] at hw
    obtain ⟨t0, segs, st', hpc, hd, hok⟩ := printContent_mix c false hf hw.2 (draw (draw st).2).2
    refine ⟨mixPiece ESC [spaces ((draw st).1 % 4) ++ (escAll ESC t0 ++ rawM ESC segs),
          List.replicate ((draw (draw st).2).1 % 8 + 1) (if l = 1 then '=' else '-')] ('h' :: natToDec l) t0 segs,
      st', ?_, by rw [hd]; simp [draw_defs], mixSetext_ok hok _ (Nat.mod_lt _ (by omega)) l _ hw.1, ?_, rfl⟩
    · rw [printBlock_setext, hpc]; rfl
    · rw [mixPiece_out, mixTxtOut_eq hok, specBlock_setext]
      simp [S, List.append_assoc]
  | quote _ => simp [isMixBlock] at hf
  | ulist _ _ => simp [isMixBlock] at hf
  | olist _ _ => simp [isMixBlock] at hf

theorem printBlocks_mix (d : Doc) (hne : d ≠ []) (hf : ∀ b ∈ d, isMixBlock b = true)
    (hw : ∀ b ∈ d, wfBlock none b = true) (hnext : okNexts d = true) :
    ∀ st : PSt, ∃ (ps : List Piece2) (st' : PSt), printBlocks true d st = (flatLines (ps.map (·.b.g)), st') ∧
      st'.defs = st.defs ∧ ps ≠ [] ∧ (∀ p ∈ ps, Piece2OK {} p) ∧
      joinOutS (ps.map (·.elem.out)) = specBlocks d ∧ noCodeAfterCode (ps.map (·.b)) ∧
      (ps.head?.map (·.b.isCode) = d.head?.map isCode) := by
  induction d with
  | nil => exact absurd rfl hne
  | cons b r ih =>
    intro st
    obtain ⟨p, st1, hp, hd1, hok, hout, hcode⟩ :=
      printBlock_mix b (hf b List.mem_cons_self) (hw b List.mem_cons_self) st
    cases r with
    | nil =>
      refine ⟨[p], st1, ?_, hd1, by simp, ?_, ?_, trivial, by simp [hcode]⟩
      · rw [printBlocks_one, hp]; rfl
      · intro q hq; have : q = p := by simpa using hq
        subst this; exact hok
      · rw [specBlocks_one, ← hout]; rfl
    | cons b' r' =>
      rw [okNexts_cons2, Bool.and_eq_true] at hnext
      obtain ⟨ps, st2, hps, hd2, hpsne, hoks, houts, hadj, hhead⟩ := ih (by simp)
        (fun x hx => hf x (List.mem_cons_of_mem _ hx)) (fun x hx => hw x (List.mem_cons_of_mem _ hx)) hnext.2 st1
      obtain ⟨q, qs, rfl⟩ : ∃ q qs, ps = q :: qs := by
        cases ps with
        | nil => exact absurd rfl hpsne
        | cons q qs => exact ⟨q, qs, rfl⟩
      have hq : q.b.isCode = isCode b' := by simpa using hhead
      refine ⟨p :: q :: qs, st2, ?_, by rw [hd2, hd1], by simp, ?_, ?_, ?_, by simp [hcode]⟩
      · rw [printBlocks_cons2, hp]
        simp only [hps]
        rfl
      · intro x hx
        rcases List.mem_cons.1 hx with rfl | hx
        · exact hok
        · exact hoks x hx
      · rw [specBlocks_cons2, ← houts, ← hout]; rfl
      · refine ⟨?_, hadj⟩
        intro hqc
        rw [hq] at hqc
        rw [hcode]
        have h1 := hnext.1
        simp only [okNext, hqc, Bool.and_true, Bool.and_eq_true, Bool.not_eq_true', Bool.or_eq_false_iff] at h1
        exact h1.1.2.1

/-- **C01 on documents whose paragraphs and headings mix words, escapes, code spans and emphasised words**: every spelling of a well-formed document of the
    sub-grammar converts to what `spec` prescribes -/
theorem convert_mixDoc (d : Doc) (sp : Spelling) (hwf : WF d = true) (hs : DocSpec.MixDoc d = true) :
    Pipeline.convert {} (print d sp) = .ok (spec d) := by
  simp only [WF, Bool.and_eq_true, Bool.not_eq_true', List.isEmpty_eq_false_iff] at hwf
  obtain ⟨⟨⟨hne, hnx⟩, hbl⟩, _⟩ := hwf
  have hf : ∀ b ∈ d, isMixBlock b = true := by
    simpa [DocSpec.MixDoc, List.all_eq_true] using hs
  obtain ⟨ps, st', hps, hdefs, hpsne, hoks, houts, hadj, _⟩ :=
    printBlocks_mix d hne hf (wfBlockList_mem hbl) hnx ⟨sp.choices, 1, []⟩
  have hprint : print d sp = joinLines (flatLines (ps.map (·.b.g))) := by
    simp only [print, hps]
    have : st'.defs = [] := hdefs
    simp [this, joinLines]
  rw [hprint, spec, ← houts]
  exact convert_pieces2 {} rfl rfl ps hpsne hoks hadj



/-! ## emphasis around words, escapes and code spans; emphasis inside emphasis

For the first two patterns (code spans, escapes) the nesting of a line does not matter: every emphasis delimiter is
just a run of characters that are neither backticks nor backslashes.  Section 33 proves those two passes for a flat
list of tokens; the structured lines of the later sections are flattened into it. -/

/-! ### 33. patterns 0 and 1 on a flat line -/

/-- a code span, or a run of other characters (emphasis delimiters) -/
inductive FKind
  | code (n : Nat) (b : Str)
  | junk (x : Str)

/-- a token and the plain text after it -/
structure FSeg where
  k : FKind
  t : Str

def FKind.isCode : FKind → Bool
  | .code _ _ => true
  | _ => false

def FKindOK : FKind → Prop
  | .code n b => (∃ k, n = k + 1) ∧ spanBodyOk n (padded b) = true ∧ strip (padded b) = b
  | .junk x => noTickBs x ∧ x ≠ []

def FSegsOK (segs : List FSeg) : Prop := ∀ s ∈ segs, FKindOK s.k

/-- a token once the code spans are out (`pc`): a placeholder for a code span, the characters of a run -/
def itemF (pc : Bool) (n0 : Nat) : FKind → Str
  | .code n b => if pc then placeholder n0 else spanSrc n b
  | .junk x => x

def FKind.bump (k : FKind) (n0 : Nat) : Nat := if k.isCode then n0 + 1 else n0

def stageF (esc : List Char) (pc pe : Bool) : Nat → Nat → List FSeg → Str
  | _, _, [] => []
  | m, n0, s :: r =>
    itemF pc n0 s.k ++ ((if pe then resid esc m s.t else escAll esc s.t) ++
      stageF esc pc pe (m + escCount esc s.t) (s.k.bump n0) r)

def codesF : List FSeg → List StashItem
  | [] => []
  | s :: r => match s.k with
    | .code _ b => .node (codeSpan (Code.codeEscape b)) :: codesF r
    | .junk _ => codesF r

def junctionsF : Str → Bool → List FSeg → Prop
  | _, _, [] => True
  | t, prevCode, s :: r =>
    (s.k.isCode = true → t.getLast? ≠ some '\\' ∧ (prevCode = true → t ≠ [])) ∧ junctionsF s.t s.k.isCode r

theorem head_stageF_raw (esc : List Char) (ht : '`' ∈ esc) (t : Str) (pc : Bool) (r : List FSeg) (hok : FSegsOK r)
    (hj : junctionsF t pc r) (hpc : pc = true) (m n0 : Nat) :
    (escAll esc t ++ stageF esc false false m n0 r).head? ≠ some '`' := by
  by_cases htn : t = []
  · subst htn
    simp only [escAll, List.nil_append]
    cases r with
    | nil => simp [stageF]
    | cons s r' =>
      cases hk : s.k with
      | code n b =>
        have := (hj.1 (by rw [hk]; rfl)).2 hpc
        exact absurd rfl this
      | junk x =>
        have hs := hok s List.mem_cons_self
        rw [hk] at hs
        obtain ⟨hx, hne⟩ := hs
        cases x with
        | nil => exact absurd rfl hne
        | cons a x' =>
          have := (hx a List.mem_cons_self).1
          simp [stageF, itemF, hk, this]
  · have := head_escAll_ne_tick (esc := esc) ht t
    have hne := escAll_ne_nil (esc := esc) htn
    cases hx : escAll esc t with
    | nil => exact absurd hx hne
    | cons a b => rw [hx] at this; simpa using this

/-- **the backtick pass** on a flat line -/
theorem code_passF (cfg : Inline.Cfg) (hi : HI) (hb : '\\' ∈ cfg.esc) (ht : '`' ∈ cfg.esc) (segs : List FSeg) :
    ∀ (A t : Str) (pc : Bool) (m n0 : Nat) (st : St) (g : Nat), BtOK A → A.getLast? ≠ some '\\' →
      FSegsOK segs → junctionsF t pc segs →
      hiLoop (applyPattern cfg hi) (g + (codesF segs).length)
        (A ++ (escAll cfg.esc t ++ stageF cfg.esc false false m n0 segs)) 0 0 st =
      hiLoop (applyPattern cfg hi) g
        (A ++ (escAll cfg.esc t ++ stageF cfg.esc true false m st.stash.length segs)) 0 0
        { st with stash := st.stash ++ codesF segs } := by
  induction segs with
  | nil => intro A t pc m n0 st g _ _ _ _; simp [stageF, codesF]
  | cons s r ih =>
    intro A t pc m n0 st g hA hAl hok hj
    have hokr : FSegsOK r := fun x hx => hok x (List.mem_cons_of_mem _ hx)
    have hs := hok s List.mem_cons_self
    have hP := btOK_text hb ht hA hAl t
    cases hk : s.k with
    | code n b =>
      rw [hk] at hs
      obtain ⟨⟨k, hkn⟩, hbody, hstrip⟩ := hs
      have hjs := hj.1 (by rw [hk]; rfl)
      have hPl : (A ++ escAll cfg.esc t).getLast? ≠ some '\\' := by
        by_cases htn : t = []
        · subst htn; simpa [escAll] using hAl
        · rw [getLast_append_ne (escAll_ne_nil htn), getLast_escAll _ _ htn]; exact hjs.1
      have hX := head_stageF_raw cfg.esc ht s.t true r hokr (by have := hj.2; rw [hk] at this; exact this) rfl
        (m + escCount cfg.esc s.t) (n0 + 1)
      have hstep := applyPattern_codeAt cfg hi _ hP hPl k (padded b) _ (hkn ▸ hbody) hX st
      have hA' := btOK_item hP (noTickBs_placeholder st.stash.length)
      have := ih ((A ++ escAll cfg.esc t) ++ placeholder st.stash.length) s.t true (m + escCount cfg.esc s.t)
        (n0 + 1) { st with stash := st.stash ++ [.node (codeSpan (Code.codeEscape (strip (padded b))))] } g
        hA'.1 (hA'.2 (placeholder_ne_nil _)) hokr (by have := hj.2; rw [hk] at this; exact this)
      simp only [stageF, itemF, FKind.bump, FKind.isCode, codesF, hk, if_true, List.length_cons, spanSrc, hkn,
        List.append_assoc, Bool.false_eq_true, if_false] at this ⊢
      rw [show g + ((codesF r).length + 1) = (g + (codesF r).length) + 1 by omega]
      have hstep' := hstep
      simp only [List.append_assoc] at hstep'
      rw [hiLoop_step _ _ _ 0 0 st (by omega) _ _ _ _ hstep']
      simp only [if_true]
      rw [this, hstrip]
      simp only [List.length_append, List.length_cons, List.length_nil, 
        List.cons_append, List.nil_append, Nat.zero_add]
    | junk x =>
      rw [hk] at hs
      have hA' := btOK_item hP hs.1
      have := ih ((A ++ escAll cfg.esc t) ++ x) s.t false (m + escCount cfg.esc s.t) n0 st g hA'.1 (hA'.2 hs.2) hokr
        (by have := hj.2; rw [hk] at this; exact this)
      simp only [stageF, itemF, FKind.bump, FKind.isCode, codesF, hk, List.append_assoc, Bool.false_eq_true,
        if_false] at this ⊢
      exact this

theorem itemF_plain (n0 : Nat) (k : FKind) (hk : FKindOK k) : noTickBs (itemF true n0 k) ∧ itemF true n0 k ≠ [] := by
  cases k with
  | code n b => exact ⟨noTickBs_placeholder n0, placeholder_ne_nil n0⟩
  | junk x => exact hk

theorem btScan_stageF {esc : List Char} (hb : '\\' ∈ esc) (ht : '`' ∈ esc) (segs : List FSeg) :
    ∀ (A t : Str) (m n0 : Nat) (prev : Option Char) (i : Nat), BtOK A → A.getLast? ≠ some '\\' →
      FSegsOK segs → btScan prev (A ++ (escAll esc t ++ stageF esc true false m n0 segs)) i = none := by
  induction segs with
  | nil =>
    intro A t m n0 prev i hA hAl _
    have hP := btOK_text hb ht hA hAl t
    have := hP prev [] i (Or.inr (by simp))
    simp only [stageF, List.append_nil] at this ⊢
    rw [this]; simp [btScan, btAt_nil]
  | cons s r ih =>
    intro A t m n0 prev i hA hAl hok
    have hP := btOK_text hb ht hA hAl t
    obtain ⟨hpl, hne⟩ := itemF_plain n0 s.k (hok s List.mem_cons_self)
    have hA' := btOK_item hP hpl
    have := ih ((A ++ escAll esc t) ++ itemF true n0 s.k) s.t (m + escCount esc s.t) (s.k.bump n0)
      prev i hA'.1 (hA'.2 hne) (fun x hx => hok x (List.mem_cons_of_mem _ hx))
    simp only [stageF, List.append_assoc, Bool.false_eq_true, if_false] at this ⊢
    exact this

def escCountF (esc : List Char) : List FSeg → Nat
  | [] => 0
  | s :: r => escCount esc s.t + escCountF esc r

def stashOfF (esc : List Char) : List FSeg → List StashItem
  | [] => []
  | s :: r => stashOf esc s.t ++ stashOfF esc r

/-- **the escape pass** on a flat line -/
theorem esc_passF (cfg : Inline.Cfg) (hi : HI) (hb : '\\' ∈ cfg.esc) (segs : List FSeg) :
    ∀ (A : Str) (m n0 : Nat) (st : St) (g : Nat), '\\' ∉ A → FSegsOK segs →
      hiLoop (applyPattern cfg hi) (g + escCountF cfg.esc segs) (A ++ stageF cfg.esc true false m n0 segs) 1 0 st =
      hiLoop (applyPattern cfg hi) g (A ++ stageF cfg.esc true true st.stash.length n0 segs) 1 0
        { st with stash := st.stash ++ stashOfF cfg.esc segs } := by
  induction segs with
  | nil => intro A m n0 st g _ _; simp [stageF, escCountF, stashOfF]
  | cons s r ih =>
    intro A m n0 st g hA hok
    have hokr : FSegsOK r := fun x hx => hok x (List.mem_cons_of_mem _ hx)
    have hA1 : '\\' ∉ A ++ itemF true n0 s.k := by
      intro hh; rcases List.mem_append.1 hh with hh | hh
      · exact hA hh
      · exact ((itemF_plain n0 s.k (hok s List.mem_cons_self)).1 _ hh).2 rfl
    have h1 := escape_chunk cfg hi hb
      (stageF cfg.esc true false (m + escCount cfg.esc s.t) (s.k.bump n0) r) s.t
      (A ++ itemF true n0 s.k) st (g + escCountF cfg.esc r) hA1
    have hA2 : '\\' ∉ A ++ itemF true n0 s.k ++ resid cfg.esc st.stash.length s.t := by
      intro hh; rcases List.mem_append.1 hh with hh | hh
      · exact hA1 hh
      · exact bs_not_mem_resid hb _ _ hh
    have h2 := ih (A ++ itemF true n0 s.k ++ resid cfg.esc st.stash.length s.t) (m + escCount cfg.esc s.t)
      (s.k.bump n0) { st with stash := st.stash ++ stashOf cfg.esc s.t } g hA2 hokr
    simp only [stageF, escCountF, stashOfF, List.append_assoc, Bool.false_eq_true, if_false, if_true] at h1 h2 ⊢
    rw [show g + (escCount cfg.esc s.t + escCountF cfg.esc r) = g + escCountF cfg.esc r + escCount cfg.esc s.t by omega,
      h1, h2]
    simp [escCount]

theorem stashOfF_length (esc : List Char) (segs : List FSeg) : (stashOfF esc segs).length = escCountF esc segs := by
  induction segs with
  | nil => rfl
  | cons s r ih => simp [stashOfF, escCountF, escCount, ih]


/-! ### 34. lines whose emphases contain words, escapes and code spans -/

/-- the content of an innermost emphasis: escaped text and code spans -/
structure Body0 where
  u0 : Str
  spans : List SpanSeg

inductive K1
  | code (n : Nat) (b : Str)
  | em (strong : Bool) (d : Char) (β : Body0)

structure Seg1 where
  k : K1
  t : Str

def dl (strong : Bool) (d : Char) : Str := List.replicate (if strong then 2 else 1) d

/-- the content once code spans and escapes are placeholders (escapes from `m`, code spans from `n0`) -/
def body0R (esc : List Char) (m n0 : Nat) (β : Body0) : Str :=
  resid esc m β.u0 ++ residSegs esc (m + escCount esc β.u0) n0 β.spans

def body0Esc (esc : List Char) (β : Body0) : Nat := escCount esc β.u0 + escCountSegs esc β.spans

def K1.cls : K1 → Nat
  | .code _ _ => 0
  | .em _ d _ => if d = '*' then 1 else 2

def K1.esc (esc : List Char) : K1 → Nat
  | .code _ _ => 0
  | .em _ _ β => body0Esc esc β

def K1.codes : K1 → Nat
  | .code _ _ => 1
  | .em _ _ β => β.spans.length

/-- an item once code spans and escapes are out and the emphasis classes below `lv` are collapsed -/
def itemL1 (esc : List Char) (lv m n0 n1 n2 : Nat) : K1 → Str
  | .code _ _ => placeholder n0
  | .em st d β =>
    if (K1.em st d β).cls < lv then placeholder (if d = '*' then n1 else n2)
    else dl st d ++ (body0R esc m n0 β ++ dl st d)

def K1.bump (c : Nat) (k : K1) (n : Nat) : Nat := if k.cls = c then n + 1 else n

def stageL1 (esc : List Char) (lv : Nat) : Nat → Nat → Nat → Nat → List Seg1 → Str
  | _, _, _, _, [] => []
  | m, n0, n1, n2, s :: r =>
    itemL1 esc lv m n0 n1 n2 s.k ++ (resid esc (m + s.k.esc esc) s.t ++
      stageL1 esc lv (m + s.k.esc esc + escCount esc s.t) (n0 + s.k.codes) (s.k.bump 1 n1) (s.k.bump 2 n2) r)

/-- the flat view: delimiters are runs of ordinary characters -/
def spansF (x : Str) (t : Str) : List SpanSeg → List FSeg
  | [] => [⟨.junk x, t⟩]
  | s :: r => ⟨.code s.n s.b, s.t⟩ :: spansF x t r

def flatten1 : List Seg1 → List FSeg
  | [] => []
  | ⟨.code n b, t⟩ :: r => ⟨.code n b, t⟩ :: flatten1 r
  | ⟨.em st d β, t⟩ :: r => ⟨.junk (dl st d), β.u0⟩ :: (spansF (dl st d) t β.spans ++ flatten1 r)

theorem stageF_append (esc : List Char) (pc pe : Bool) (L1 L2 : List FSeg) :
    ∀ m n0, stageF esc pc pe m n0 (L1 ++ L2) =
      stageF esc pc pe m n0 L1 ++ stageF esc pc pe (m + escCountF esc L1)
        (n0 + (codesF L1).length) L2 := by
  induction L1 with
  | nil => intro m n0; simp [stageF, escCountF, codesF]
  | cons s r ih =>
    intro m n0
    simp only [List.cons_append, stageF, ih, List.append_assoc, escCountF]
    cases hk : s.k with
    | code n b =>
      simp only [codesF, hk, FKind.bump, FKind.isCode, if_true, List.length_cons]
      congr 3
      rw [show m + escCount esc s.t + escCountF esc r = m + (escCount esc s.t + escCountF esc r) by omega,
        show n0 + 1 + (codesF r).length = n0 + ((codesF r).length + 1) by omega]
    | junk x =>
      simp only [codesF, hk, FKind.bump, FKind.isCode, Bool.false_eq_true, if_false]
      congr 3
      rw [show m + escCount esc s.t + escCountF esc r = m + (escCount esc s.t + escCountF esc r) by omega]

theorem stageF_spansF (esc : List Char) (x t : Str) (spans : List SpanSeg) :
    ∀ m n0, stageF esc true true m n0 (spansF x t spans) =
      residSegs esc m n0 spans ++ (x ++ resid esc (m + escCountSegs esc spans) t) := by
  induction spans with
  | nil => intro m n0; simp [spansF, stageF, itemF, residSegs, escCountSegs]
  | cons s r ih =>
    intro m n0
    simp only [spansF, stageF, itemF, if_true, FKind.bump, FKind.isCode, ih, residSegs, escCountSegs,
      List.append_assoc]
    rw [show m + escCount esc s.t + escCountSegs esc r = m + (escCount esc s.t + escCountSegs esc r) by omega]

theorem counts_spansF (esc : List Char) (x t : Str) (spans : List SpanSeg) :
    escCountF esc (spansF x t spans) = escCountSegs esc spans + escCount esc t ∧
    (codesF (spansF x t spans)).length = spans.length := by
  induction spans with
  | nil => simp [spansF, escCountF, codesF, escCountSegs]
  | cons s r ih =>
    obtain ⟨i1, i2⟩ := ih
    constructor
    · simp only [spansF, escCountF, escCountSegs, i1]; omega
    · simp only [spansF, codesF, List.length_cons, i2]

/-- the flat line after patterns 0 and 1 is the structured line at level 1 -/
theorem stageF_flatten1 (esc : List Char) (segs : List Seg1) :
    ∀ m n0 n1 n2, stageF esc true true m n0 (flatten1 segs) = stageL1 esc 1 m n0 n1 n2 segs := by
  induction segs with
  | nil => intro _ _ _ _; rfl
  | cons s r ih =>
    intro m n0 n1 n2
    obtain ⟨k, t⟩ := s
    cases k with
    | code n b =>
      simp only [flatten1, stageF, stageL1, itemF, itemL1, if_true, FKind.bump, FKind.isCode, K1.esc, K1.codes,
        Nat.add_zero, ih _ _ (K1.bump 1 (.code n b) n1) (K1.bump 2 (.code n b) n2)]
    | em st d β =>
      have hcl : ¬ ((K1.em st d β).cls < 1) := by simp only [K1.cls]; split <;> omega
      obtain ⟨hc1, hc2⟩ := counts_spansF esc (dl st d) t β.spans
      simp only [flatten1, stageF, stageF_append, stageF_spansF, itemF, stageL1, itemL1, hcl, if_false, if_true,
        FKind.bump, FKind.isCode, Bool.false_eq_true, K1.esc, K1.codes, body0R, body0Esc, hc1, hc2,
        ih _ _ (K1.bump 1 (.em st d β) n1) (K1.bump 2 (.em st d β) n2), List.append_assoc]
      rw [show m + escCount esc β.u0 + escCountSegs esc β.spans = m + (escCount esc β.u0 + escCountSegs esc β.spans)
          by omega,
        show m + escCount esc β.u0 + (escCountSegs esc β.spans + escCount esc t) =
          m + (escCount esc β.u0 + escCountSegs esc β.spans) + escCount esc t by omega]


/-! ### 35. the emphasis engine on bodies that are not plain words -/

/-- `handleMatch` at the first delimiter of an emphasis whose body `W` contains no delimiter character -/
theorem emHandle_body (st : Bool) (d : Char) (W : Str) (hd : d = '*' ∨ d = '_') (hne : W ≠ [])
    (hW : ∀ x ∈ W, x ≠ '*' ∧ x ≠ '_') (A Z : Str)
    (hb : d = '_' → isW (lastOr none A) = false ∧ isW Z.head? = false ∧ NoTriple '_' Z) :
    emHandle (A ++ (emSrc ⟨st, d, W, []⟩ ++ Z)) A.length d (emPatterns d) 0 =
      some (some (emEl st W, A.length + (emSrc ⟨st, d, W, []⟩).length)) := by
  have hws : ∀ x ∈ W, x ≠ '*' := fun x hx => (hW x hx).1
  have hwu : ∀ x ∈ W, x ≠ '_' := fun x hx => (hW x hx).2
  rcases hd with e | e
  · subst e
    cases st with
    | false =>
      have := emHandle_star_em A W Z hne hws
      simp only [emSrc, EmSeg.delim, emPatterns, if_true, Bool.false_eq_true, if_false, List.replicate_one,
        List.append_assoc, List.cons_append, List.nil_append, List.length_cons,
        List.length_append, List.length_nil] at this ⊢
      rw [this]; congr 3; omega
    | true =>
      have := emHandle_star_strong A W Z hne hws
      simp only [emSrc, EmSeg.delim, emPatterns, if_true, List.replicate_succ, List.replicate_zero,
        List.append_assoc, List.cons_append, List.nil_append, List.length_cons,
        List.length_append, List.length_nil] at this ⊢
      rw [this]; congr 3; omega
  · subst e
    obtain ⟨hb1, hb2, hb3⟩ := hb rfl
    cases st with
    | false =>
      have := emHandle_under_em A W Z hne hwu hb1 hb2
      simp only [emSrc, EmSeg.delim, emPatterns, show ¬ ('_' = '*') by decide, if_false, Bool.false_eq_true,
        List.replicate_one,
        List.append_assoc, List.cons_append, List.nil_append, List.length_cons,
        List.length_append, List.length_nil] at this ⊢
      rw [this]; congr 3; omega
    | true =>
      have h3 : NoTriple '_' (W ++ '_' :: '_' :: Z) :=
        noTriple_of_no_c '_' W _ (fun h => hwu _ h rfl)
          (noTriple_delim '_' Z (isW_under_head hb2) hb3 2 (by omega))
      have := emHandle_under_strong A W Z hne hwu hb1 hb2 h3
      simp only [emSrc, EmSeg.delim, emPatterns, show ¬ ('_' = '*') by decide, if_false, if_true,
        List.replicate_succ, List.replicate_zero,
        List.append_assoc, List.cons_append, List.nil_append, List.length_cons,
        List.length_append, List.length_nil] at this ⊢
      rw [this]; congr 3; omega

/-- one turn of the pattern loop at an emphasis: the nested `__handleInline` turns the body `w` into `w'`; the element
    with that text is stashed after whatever the nested call stashed -/
theorem applyPattern_emG (cfg : Inline.Cfg) (f : Nat) (pi : Nat) (hpi : pi = 14 ∨ pi = 15) (c : Char)
    (hc : c = if pi = 14 then '*' else '_') (A E Z : Str) (hA : c ∉ A) (E' : Str) (hE : E = c :: E')
    (strong : Bool) (w : Str) (hne : w ≠ []) (w' : Str) (st st' : St)
    (hin : handleInline cfg (f + 1) w (pi + 1) st = some (w', st'))
    (hh : emHandle (A ++ (E ++ Z)) A.length c (emPatterns c) 0 = some (some (emEl strong w, A.length + E.length))) :
    applyPattern cfg (fun d p s => handleInline cfg (f + 1) d p s) pi (A ++ (E ++ Z)) 0 st =
      some (A ++ (placeholder st'.stash.length ++ Z), true, 0,
        { st' with stash := st'.stash ++ [.node (emEl strong w')] }) := by
  have hscan : emScan (A ++ (E ++ Z)) c (A ++ (E ++ Z)) 0 =
      some (some (emEl strong w, A.length, A.length + E.length)) := by
    rw [emScan_skip _ c A hA, hE]
    simp only [List.cons_append, emScan, if_true, Nat.zero_add]
    rw [hE] at hh
    simp only [List.cons_append] at hh
    rw [hh]
  have hfm : findMatch cfg pi (A ++ (E ++ Z)) 0 st =
      some (some ⟨.el (emEl strong w), A.length, ((A.length + E.length : Nat) : Int)⟩, st) := by
    rcases hpi with e | e <;> subst e <;> simp only [findMatch, List.drop_zero] <;>
      simp at hc <;> subst hc <;> simp [hscan]
  have htr : Node.truthy (some w) = true := by
    cases w with
    | nil => exact absurd rfl hne
    | cons a b => rfl
  have hnode : hiNode (fun d p s => handleInline cfg (f + 1) d p s) pi { emEl strong w with children := [] } st =
      some (emEl strong w', st') := by
    simp only [hiNode, hiOpt, emEl, mkEl, htr, Bool.not_false, Bool.and_true, if_true, Option.getD_some, hin]
    simp [Node.truthy]
  have hd : pyDrop (A ++ (E ++ Z)) ((A.length + E.length : Nat) : Int) = Z := by
    have := pyDrop_append (A ++ E) Z
    simpa [List.append_assoc] using this
  simp only [applyPattern, hfm]
  have hta : ((emEl strong w).text.isSome && (emEl strong w).textAtomic) = false := by simp [emEl, mkEl]
  simp only [hta, Bool.false_eq_true, if_false, hnode]
  have hkids : (emEl strong w).children = [] := by simp [emEl, mkEl]
  simp only [hkids, hiNodes, stashNode, List.take_left', hd]
  simp [emEl, mkEl]

/-- pattern 13 walks over an emphasis whose body starts and ends with something visible -/
theorem nsScan_emB (st : Bool) (d : Char) (W : Str) (hd : d = '*' ∨ d = '_') (hne : W ≠ [])
    (hW : ∀ x ∈ W, x ≠ '*' ∧ x ≠ '_') (hhead : ∀ x, W.head? = some x → isSpace x = false)
    (hlast : ∀ z, W.getLast? = some z → isSpace z = false) (X : Str) (prev : Option Char) (i : Nat) :
    nsScan prev (emSrc ⟨st, d, W, []⟩ ++ X) i = nsScan (some d) X (i + (emSrc ⟨st, d, W, []⟩).length) := by
  have hk : 0 < (if st then 2 else 1) ∧ (if st then 2 else 1) ≤ 3 := by cases st <;> simp
  have hds : isSpace d = false := by rcases hd with e | e <;> rw [e] <;> decide
  obtain ⟨x, w', hwc⟩ : ∃ x w', W = x :: w' := by
    cases W with
    | nil => exact absurd rfl hne
    | cons x w' => exact ⟨x, w', rfl⟩
  have hxf := hW x (by rw [hwc]; simp)
  have hxs : isSpace x = false := hhead x (by rw [hwc]; rfl)
  obtain ⟨z, hz⟩ : ∃ z, W.getLast? = some z := by
    cases hg : W.getLast? with
    | none => exact absurd (List.getLast?_eq_none_iff.1 hg) hne
    | some z => exact ⟨z, rfl⟩
  have hzs : isSpace z = false := hlast z hz
  have hlast' : lastOr (some d) W = some z := by simp [lastOr, hz]
  have e0 : emSrc ⟨st, d, W, []⟩ ++ X = List.replicate (if st then 2 else 1) d ++
      (x :: (w' ++ (List.replicate (if st then 2 else 1) d ++ X))) := by
    simp [emSrc, EmSeg.delim, hwc, List.append_assoc]
  rw [e0, nsScan_open d hd x _ hxf.1 hxf.2 hxs _ prev i hk.2 hk.1]
  have e1 : x :: (w' ++ (List.replicate (if st then 2 else 1) d ++ X)) =
      W ++ (List.replicate (if st then 2 else 1) d ++ X) := by rw [hwc]; rfl
  rw [e1, nsScan_text W hW, hlast', nsScan_close d hds X _ z _ hzs hk.1]
  congr 1
  simp [emSrc, EmSeg.delim]; omega


/-! ### 36. what the engine needs of the content of an emphasis -/

/-- the escapable characters of the converter include the ones the printer escapes -/
def EscSup (esc : List Char) : Prop := ∀ c ∈ ESC, c ∈ esc

/-- a character of a content once code spans and escapes are placeholders -/
def BodyCh (x : Char) : Prop := isAlnumSp x = true ∨ phChar x = true

theorem bodyCh_facts {x : Char} (h : BodyCh x) :
    x ≠ '*' ∧ x ≠ '_' ∧ x ≠ '`' ∧ x ≠ '\\' ∧ x ≠ '[' ∧ x ≠ '!' ∧ x ≠ '&' ∧ x ≠ '\n' := by
  rcases h with h | h
  · have := wordCh_facts h
    exact ⟨this.1, this.2.1, this.2.2.1, this.2.2.2.1, this.2.2.2.2.1, this.2.2.2.2.2.1, this.2.2.2.2.2.2.1,
      this.2.2.2.2.2.2.2.1⟩
  · have := phChar_facts h
    refine ⟨this.2.2.2.1, this.2.2.2.2.1, ?_, this.2.2.2.2.2.1, this.1, this.2.1, this.2.2.1, this.2.2.2.2.2.2.2⟩
    intro e; subst e; exact absurd h (by decide)

theorem bodyCh_quiet {W : Str} (h : ∀ x ∈ W, BodyCh x) : Quiet W := by
  intro c hc
  have := bodyCh_facts (h c hc)
  exact ⟨this.2.2.1, this.2.2.2.1, this.2.2.2.2.1, this.2.2.2.2.2.2.2, this.2.2.2.2.2.2.1, this.1, this.2.1⟩

theorem bodyCh_resid {esc : List Char} (hs : EscSup esc) (t : Str) (ht : ∀ x ∈ t, plainCh x) (m : Nat) :
    ∀ x ∈ resid esc m t, BodyCh x := by
  intro x hx
  rcases mem_resid hx with ⟨h1, h2⟩ | h
  · rcases ht x h1 with h | h
    · exact Or.inl h
    · exact absurd (hs x h) h2
  · exact Or.inr h

theorem mem_residSegs {esc : List Char} {x : Char} (segs : List SpanSeg) :
    ∀ m n, x ∈ residSegs esc m n segs → phChar x = true ∨ ∃ s ∈ segs, ∃ m', x ∈ resid esc m' s.t := by
  induction segs with
  | nil => intro m n h; simp [residSegs] at h
  | cons s r ih =>
    intro m n h
    simp only [residSegs, List.mem_append] at h
    rcases h with h | h | h
    · exact Or.inl (phChar_of_mem_placeholder h)
    · exact Or.inr ⟨s, List.mem_cons_self, m, h⟩
    · rcases ih _ _ h with h | ⟨s', hs', h⟩
      · exact Or.inl h
      · exact Or.inr ⟨s', List.mem_cons_of_mem _ hs', h⟩

/-- what the stages need of the content of an innermost emphasis -/
structure Body0OK (β : Body0) : Prop where
  plain : ∀ c, (c ∈ β.u0 ∨ ∃ s ∈ β.spans, c ∈ s.t) → plainCh c
  ne : β.u0 ≠ [] ∨ β.spans ≠ []
  first : β.u0 ≠ [] → startsVisible β.u0 = true
  lastv : ∀ z, (lastText β.u0 β.spans).getLast? = some z → isSpace z = false

theorem bodyCh_body0 {esc : List Char} (hs : EscSup esc) (β : Body0) (h : Body0OK β) (m n0 : Nat) :
    ∀ x ∈ body0R esc m n0 β, BodyCh x := by
  intro x hx
  rcases List.mem_append.1 hx with hx | hx
  · exact bodyCh_resid hs β.u0 (fun y hy => h.plain y (Or.inl hy)) m x hx
  · rcases mem_residSegs β.spans _ _ hx with hx | ⟨s, hs', m', hx⟩
    · exact Or.inr hx
    · exact bodyCh_resid hs s.t (fun y hy => h.plain y (Or.inr ⟨s, hs', hy⟩)) m' x hx

theorem isSpace_ph {x : Char} (h : phChar x = true) : isSpace x = false := by
  have h1 := (phChar_facts h).2.2.2.2.2.2.1
  have h2 := (phChar_facts h).2.2.2.2.2.2.2
  cases hsx : isSpace x with
  | false => rfl
  | true =>
    exfalso
    have key : ∀ n, n < 128 → phChar (Char.ofNat n) = true → isSpace (Char.ofNat n) = false := by decide
    have hlt : x.toNat < 128 := by
      simp only [phChar, Bool.or_eq_true] at h
      rcases h with (h | h) | h
      · have : ∀ c ∈ phPrefix, c.toNat < 128 := by decide
        exact this x (List.contains_iff_mem.1 h)
      · simp only [isAsciiDigit, Bool.and_eq_true, decide_eq_true_eq, Char.le_def, UInt32.le_iff_toNat_le] at h
        have e : x.val.toNat = x.toNat := rfl
        rw [e] at h
        have : ('9' : Char).val.toNat = 57 := rfl
        omega
      · have : x = Inline.ETX := by simpa using h
        rw [this]; decide
    have := RefDef.char_of_ascii (fun c => phChar c = true → isSpace c = false) key x hlt h
    rw [this] at hsx; cases hsx

theorem head_resid_visible {esc : List Char} (t : Str) (ht : t ≠ []) (hv : startsVisible t = true) (m : Nat) (X : Str) :
    ∀ x, (resid esc m t ++ X).head? = some x → isSpace x = false := by
  cases t with
  | nil => exact absurd rfl ht
  | cons c r =>
    intro x hx
    by_cases hc : c ∈ esc
    · simp only [resid, List.contains_eq_mem, hc, decide_true, if_true, List.append_assoc] at hx
      rw [head_placeholder] at hx
      have : Inline.STX = x := by simpa using hx
      subst this; decide
    · simp only [resid, List.contains_eq_mem, hc, decide_false, Bool.false_eq_true, if_false, List.cons_append,
        List.head?_cons, Option.some.injEq] at hx
      subst hx
      simpa [startsVisible] using hv

theorem last_resid_visible {esc : List Char} (t : Str) (ht : t ≠ [])
    (hl : ∀ z, t.getLast? = some z → isSpace z = false) :
    ∀ (m : Nat) (z : Char), (resid esc m t).getLast? = some z → isSpace z = false := by
  induction t with
  | nil => exact absurd rfl ht
  | cons c r ih =>
    intro m z hz
    by_cases hr : r = []
    · subst hr
      by_cases hc : c ∈ esc
      · simp only [resid, List.contains_eq_mem, hc, decide_true, if_true, List.append_nil] at hz
        exact isSpace_ph (phChar_of_mem_placeholder (List.mem_of_getLast? hz))
      · simp only [resid, List.contains_eq_mem, hc, decide_false, Bool.false_eq_true, if_false,
          List.getLast?_singleton, Option.some.injEq] at hz
        subst hz; exact hl c (by simp)
    · have hl' : ∀ z, r.getLast? = some z → isSpace z = false := by
        intro z hz
        apply hl z
        cases r with
        | nil => exact absurd rfl hr
        | cons d r' => simpa [List.getLast?_cons_cons] using hz
      have hne : ∀ m', resid esc m' r ≠ [] := by
        intro m'
        cases r with
        | nil => exact absurd rfl hr
        | cons d r' =>
          by_cases hd : d ∈ esc
          · simp only [resid, List.contains_eq_mem, hd, decide_true, if_true]
            intro e
            exact placeholder_ne_nil _ (List.append_eq_nil_iff.1 e).1
          · simp [resid, hd]
      by_cases hc : c ∈ esc
      · simp only [resid, List.contains_eq_mem, hc, decide_true, if_true] at hz
        rw [getLast_append_ne (hne _)] at hz
        exact ih hr hl' _ z hz
      · simp only [resid, List.contains_eq_mem, hc, decide_false, Bool.false_eq_true, if_false] at hz
        have : (c :: resid esc m r).getLast? = (resid esc m r).getLast? := by
          rw [show c :: resid esc m r = [c] ++ resid esc m r from rfl, getLast_append_ne (hne _)]
        rw [this] at hz
        exact ih hr hl' _ z hz

theorem last_residSegs_visible {esc : List Char} (segs : List SpanSeg) (hne : segs ≠ []) :
    ∀ (t0 : Str) (m n : Nat), (∀ z, (lastText t0 segs).getLast? = some z → isSpace z = false) →
      ∀ z, (residSegs esc m n segs).getLast? = some z → isSpace z = false := by
  induction segs with
  | nil => exact absurd rfl hne
  | cons s r ih =>
    intro t0 m n hl z hz
    simp only [residSegs] at hz
    by_cases hr : r = []
    · subst hr
      simp only [residSegs, List.append_nil] at hz
      by_cases ht : s.t = []
      · rw [ht] at hz
        simp only [resid, List.append_nil] at hz
        exact isSpace_ph (phChar_of_mem_placeholder (List.mem_of_getLast? hz))
      · have hne' : resid esc m s.t ≠ [] := by
          cases hst : s.t with
          | nil => exact absurd hst ht
          | cons d r' =>
            by_cases hd : d ∈ esc
            · simp only [resid, List.contains_eq_mem, hd, decide_true, if_true]
              intro e
              exact placeholder_ne_nil _ (List.append_eq_nil_iff.1 e).1
            · simp [resid, hd]
        rw [getLast_append_ne hne'] at hz
        exact last_resid_visible s.t ht (fun z hz => hl z (by simpa [lastText] using hz)) m z hz
    · have hne2 : residSegs esc (m + escCount esc s.t) (n + 1) r ≠ [] := by
        cases r with
        | nil => exact absurd rfl hr
        | cons q r' =>
          simp only [residSegs]
          intro e
          exact placeholder_ne_nil _ (List.append_eq_nil_iff.1 e).1
      rw [getLast_append_ne (by
        intro e; exact hne2 (List.append_eq_nil_iff.1 e).2), getLast_append_ne hne2] at hz
      exact ih hr s.t _ _ (fun z hz => hl z (by rw [lastText_cons]; exact hz)) z hz

/-- the content between the delimiters, as the emphasis patterns see it -/
theorem body0_facts {esc : List Char} (hs : EscSup esc) (β : Body0) (h : Body0OK β) (m n0 : Nat) :
    body0R esc m n0 β ≠ [] ∧ (∀ x ∈ body0R esc m n0 β, BodyCh x) ∧
    (∀ x, (body0R esc m n0 β).head? = some x → isSpace x = false) ∧
    (∀ z, (body0R esc m n0 β).getLast? = some z → isSpace z = false) := by
  have hch := bodyCh_body0 hs β h m n0
  have hhead : ∀ x, (body0R esc m n0 β).head? = some x → isSpace x = false := by
    by_cases hu : β.u0 = []
    · have hsp : β.spans ≠ [] := by rcases h.ne with h' | h'; exact absurd hu h'; exact h'
      intro x hx
      cases hsp' : β.spans with
      | nil => exact absurd hsp' hsp
      | cons s r =>
        simp only [body0R, hu, resid, List.nil_append, hsp', residSegs] at hx
        rw [head_placeholder] at hx
        have : Inline.STX = x := by simpa using hx
        subst this; decide
    · exact head_resid_visible β.u0 hu (h.first hu) m _
  have hlast : ∀ z, (body0R esc m n0 β).getLast? = some z → isSpace z = false := by
    intro z hz
    by_cases hsp : β.spans = []
    · have hu : β.u0 ≠ [] := by rcases h.ne with h' | h'; exact h'; exact absurd hsp h'
      simp only [body0R, hsp, residSegs, List.append_nil] at hz
      exact last_resid_visible β.u0 hu (fun z hz => h.lastv z (by simpa [lastText, hsp] using hz)) m z hz
    · have hne2 : residSegs esc (m + escCount esc β.u0) n0 β.spans ≠ [] := by
        cases hsp' : β.spans with
        | nil => exact absurd hsp' hsp
        | cons q r' =>
          simp only [residSegs]
          intro e
          exact placeholder_ne_nil _ (List.append_eq_nil_iff.1 e).1
      simp only [body0R] at hz
      rw [getLast_append_ne hne2] at hz
      exact last_residSegs_visible β.spans hsp β.u0 _ _ h.lastv z hz
  refine ⟨?_, hch, hhead, hlast⟩
  intro e
  rcases h.ne with h' | h'
  · have : resid esc m β.u0 = [] := (List.append_eq_nil_iff.1 e).1
    cases hu : β.u0 with
    | nil => exact h' hu
    | cons c r =>
      rw [hu] at this
      by_cases hc : c ∈ esc
      · simp only [resid, List.contains_eq_mem, hc, decide_true, if_true] at this
        exact placeholder_ne_nil _ (List.append_eq_nil_iff.1 this).1
      · simp [resid, hc] at this
  · have : residSegs esc (m + escCount esc β.u0) n0 β.spans = [] := (List.append_eq_nil_iff.1 e).2
    cases hsp : β.spans with
    | nil => exact h' hsp
    | cons s r =>
      rw [hsp] at this
      simp only [residSegs] at this
      exact placeholder_ne_nil _ (List.append_eq_nil_iff.1 this).1


/-! ### 37. patterns 13–15 on a line whose emphases contain words, escapes and code spans -/

def K1OK : K1 → Prop
  | .code _ _ => True
  | .em _ d β => (d = '*' ∨ d = '_') ∧ Body0OK β

def Segs1OK (segs : List Seg1) : Prop := ∀ s ∈ segs, K1OK s.k

theorem dl_eq (st : Bool) (d : Char) (W : Str) : dl st d ++ (W ++ dl st d) = emSrc ⟨st, d, W, []⟩ := rfl

theorem emSrc_body_last (st : Bool) (d : Char) (W : Str) (p : Option Char) : lastOr p (emSrc ⟨st, d, W, []⟩) = some d := by
  simp [lastOr, emSrc_last]

/-- pattern 13 walks over such a line -/
theorem nsScan_stageL1 {esc : List Char} (hs : EscSup esc) (h1 : '*' ∈ esc) (h2 : '_' ∈ esc) (lv : Nat)
    (segs : List Seg1) :
    ∀ (m n0 n1 n2 : Nat) (prev : Option Char) (i : Nat) (X : Str), Segs1OK segs →
      nsScan prev (stageL1 esc lv m n0 n1 n2 segs ++ X) i =
        nsScan (lastOr prev (stageL1 esc lv m n0 n1 n2 segs)) X (i + (stageL1 esc lv m n0 n1 n2 segs).length) := by
  induction segs with
  | nil => intro _ _ _ _ prev i X _; simp [stageL1, lastOr]
  | cons s r ih =>
    intro m n0 n1 n2 prev i X hok
    have hokr : Segs1OK r := fun x hx => hok x (List.mem_cons_of_mem _ hx)
    have hph : ∀ n, ∀ c ∈ placeholder n, c ≠ '*' ∧ c ≠ '_' := fun n c hc =>
      ⟨(phChar_facts (phChar_of_mem_placeholder hc)).2.2.2.1, (phChar_facts (phChar_of_mem_placeholder hc)).2.2.2.2.1⟩
    simp only [stageL1, List.append_assoc]
    have hitem : ∀ (Y : Str) (p : Option Char) (j : Nat),
        nsScan p (itemL1 esc lv m n0 n1 n2 s.k ++ Y) j =
          nsScan (lastOr p (itemL1 esc lv m n0 n1 n2 s.k)) Y (j + (itemL1 esc lv m n0 n1 n2 s.k).length) := by
      intro Y p j
      cases hk : s.k with
      | code n b => simp only [itemL1]; exact nsScan_text _ (hph n0) Y p j
      | em st d β =>
        have hs' := hok s List.mem_cons_self
        rw [hk] at hs'
        simp only [itemL1]
        split
        · exact nsScan_text _ (hph _) Y p j
        · obtain ⟨hne, hch, hh, hl⟩ := body0_facts hs β hs'.2 m n0
          rw [dl_eq, nsScan_emB st d _ hs'.1 hne
            (fun x hx => ⟨(bodyCh_facts (hch x hx)).1, (bodyCh_facts (hch x hx)).2.1⟩) hh hl, emSrc_body_last]
    rw [hitem, nsScan_text _ (resid_no_delim h1 h2 s.t _), ih _ _ _ _ _ _ _ hokr]
    simp only [lastOr_append, List.length_append]
    congr 1; omega

/-- the stash entries of the emphases of class `c`: the element whose text is the content as the pattern saw it -/
def nodes1 (c : Nat) (esc : List Char) : Nat → Nat → List Seg1 → List StashItem
  | _, _, [] => []
  | m, n0, s :: r =>
    (match s.k with
      | .em st d β => if (K1.em st d β).cls = c then [.node (emEl st (body0R esc m n0 β))] else []
      | .code _ _ => []) ++
    nodes1 c esc (m + s.k.esc esc + escCount esc s.t) (n0 + s.k.codes) r

theorem star_not_mem_body {esc : List Char} (hs : EscSup esc) (β : Body0) (h : Body0OK β) (m n0 : Nat) (c : Char)
    (hc : c = '*' ∨ c = '_') : c ∉ body0R esc m n0 β := by
  intro hm
  have := bodyCh_facts (bodyCh_body0 hs β h m n0 c hm)
  rcases hc with e | e
  · exact this.1 e
  · exact this.2.1 e

theorem star_pass1 (cfg : Inline.Cfg) (f : Nat) (hs : EscSup cfg.esc) (h1 : '*' ∈ cfg.esc) (h2 : '_' ∈ cfg.esc)
    (segs : List Seg1) :
    ∀ (A Z : Str) (m n0 n1 n2 : Nat) (st : St) (g : Nat), '*' ∉ A → Segs1OK segs →
      hiLoop (applyPattern cfg (fun d p s => handleInline cfg (f + 1) d p s)) (g + (nodes1 1 cfg.esc m n0 segs).length)
        (A ++ (stageL1 cfg.esc 1 m n0 n1 n2 segs ++ Z)) 14 0 st =
      hiLoop (applyPattern cfg (fun d p s => handleInline cfg (f + 1) d p s)) g
        (A ++ (stageL1 cfg.esc 2 m n0 st.stash.length n2 segs ++ Z)) 14 0
        { st with stash := st.stash ++ nodes1 1 cfg.esc m n0 segs } := by
  induction segs with
  | nil => intro A Z m n0 n1 n2 st g _ _; simp [stageL1, nodes1]
  | cons s r ih =>
    intro A Z m n0 n1 n2 st g hA hok
    have hokr : Segs1OK r := fun x hx => hok x (List.mem_cons_of_mem _ hx)
    have hs' := hok s List.mem_cons_self
    have hres : ∀ m', '*' ∉ resid cfg.esc m' s.t := fun m' h => (resid_no_delim h1 h2 s.t m' _ h).1 rfl
    cases hk : s.k with
    | code n b =>
      have := ih (A ++ (placeholder n0 ++ resid cfg.esc m s.t)) Z (m + escCount cfg.esc s.t) (n0 + 1) n1 n2 st g
        (not_mem_of_append3 hA (not_mem_placeholder (by decide) _) (hres m)) hokr
      simp only [stageL1, itemL1, nodes1, hk, K1.esc, K1.codes, K1.bump, K1.cls, Nat.add_zero,
        show ¬ ((0 : Nat) = 1) by omega, show ¬ ((0 : Nat) = 2) by omega, if_false, List.nil_append,
        List.append_assoc] at this ⊢
      exact this
    | em st' d β =>
      rw [hk] at hs'
      obtain ⟨hd, hβ⟩ := hs'
      obtain ⟨hne, hch, _, _⟩ := body0_facts hs β hβ m n0
      by_cases hds : d = '*'
      · subst hds
        have hc : (K1.em st' '*' β).cls = 1 := by simp [K1.cls]
        obtain ⟨q, hq⟩ := delim_cons ⟨st', '*', body0R cfg.esc m n0 β, []⟩
        have hE : emSrc ⟨st', '*', body0R cfg.esc m n0 β, []⟩ =
            '*' :: (q ++ (body0R cfg.esc m n0 β ++ EmSeg.delim ⟨st', '*', body0R cfg.esc m n0 β, []⟩)) := by
          rw [emSrc, hq]; rfl
        generalize hZ' : resid cfg.esc (m + body0Esc cfg.esc β) s.t ++
          (stageL1 cfg.esc 1 (m + body0Esc cfg.esc β + escCount cfg.esc s.t) (n0 + β.spans.length) (n1 + 1) n2 r ++ Z)
          = Z'
        have hhm := emHandle_body st' '*' (body0R cfg.esc m n0 β) (Or.inl rfl) hne
          (fun x hx => ⟨(bodyCh_facts (hch x hx)).1, (bodyCh_facts (hch x hx)).2.1⟩) A Z'
          (fun e => absurd e (by decide))
        have hin := handleInline_word cfg f (body0R cfg.esc m n0 β) (bodyCh_quiet hch) 15 (Or.inl rfl) st
        have hstep := applyPattern_emG cfg f 14 (Or.inl rfl) '*' rfl A _ Z' hA _ hE st' _ hne _ st st hin hhm
        have := ih (A ++ (placeholder st.stash.length ++ resid cfg.esc (m + body0Esc cfg.esc β) s.t)) Z
          (m + body0Esc cfg.esc β + escCount cfg.esc s.t) (n0 + β.spans.length) (n1 + 1) n2
          { st with stash := st.stash ++ [.node (emEl st' (body0R cfg.esc m n0 β))] } g
          (not_mem_of_append3 hA (not_mem_placeholder (by decide) _) (hres _)) hokr
        simp only [stageL1, itemL1, nodes1, hk, hc, K1.esc, K1.codes, K1.bump, if_true, Nat.lt_irrefl, if_false,
          show (1 : Nat) < 2 by omega, show ¬ ((1 : Nat) = 2) by omega, List.length_append, List.length_cons,
          List.length_nil, dl_eq, List.append_assoc] at this ⊢
        rw [hZ']
        rw [show g + (0 + 1 + (nodes1 1 cfg.esc (m + body0Esc cfg.esc β + escCount cfg.esc s.t)
            (n0 + β.spans.length) r).length) =
          (g + (nodes1 1 cfg.esc (m + body0Esc cfg.esc β + escCount cfg.esc s.t) (n0 + β.spans.length) r).length) + 1
          by omega, hiLoop_step _ _ _ 14 0 st (by omega) _ _ _ _ hstep]
        simp only [if_true]
        rw [← hZ', this]
      · have hdu : d = '_' := by rcases hd with e | e; exact absurd e hds; exact e
        subst hdu
        have hc : (K1.em st' '_' β).cls = 2 := by simp [K1.cls]
        have hsrc : '*' ∉ dl st' '_' ++ (body0R cfg.esc m n0 β ++ dl st' '_') := by
          intro hx
          rw [dl_eq] at hx
          rcases mem_emSrc' hx with e | e
          · exact absurd e (by decide)
          · exact star_not_mem_body hs β hβ m n0 '*' (Or.inl rfl) e
        have := ih (A ++ ((dl st' '_' ++ (body0R cfg.esc m n0 β ++ dl st' '_')) ++
            resid cfg.esc (m + body0Esc cfg.esc β) s.t)) Z
          (m + body0Esc cfg.esc β + escCount cfg.esc s.t) (n0 + β.spans.length) n1 (n2 + 1) st g
          (not_mem_of_append3 hA hsrc (hres _)) hokr
        simp only [stageL1, itemL1, nodes1, hk, hc, K1.esc, K1.codes, K1.bump, if_true,
          show ¬ ((2 : Nat) < 1) by omega, show ¬ ((2 : Nat) < 2) by omega, show ¬ ((2 : Nat) = 1) by omega, if_false,
          List.nil_append, List.append_assoc] at this ⊢
        exact this


/-- the character after an item is not a word character -/
def nextNW1 (esc : List Char) (t : Str) (r : List Seg1) : Prop :=
  match t, r with
  | c :: _, _ => c ∈ esc ∨ isWord c = false
  | [], [] => True
  | [], s' :: _ => s'.k.cls ≠ 2

/-- every `_` emphasis stands between characters that are not word characters -/
def UnderOK1 (esc : List Char) : Bool → List Seg1 → Prop
  | _, [] => True
  | pw, s :: r => (s.k.cls = 2 → pw = false ∧ nextNW1 esc s.t r) ∧ UnderOK1 esc (lastW esc s.t) r

theorem K1.cls_lt3 (k : K1) : k.cls < 3 := by
  cases k with
  | code _ _ => simp [K1.cls]
  | em _ d _ => simp only [K1.cls]; split <;> omega

theorem itemL1_ph (esc : List Char) (lv m n0 n1 n2 : Nat) (k : K1) (h : k.cls < lv) :
    ∃ n, itemL1 esc lv m n0 n1 n2 k = placeholder n := by
  cases k with
  | code n b => exact ⟨n0, rfl⟩
  | em st d β => simp only [itemL1, h, if_true]; exact ⟨_, rfl⟩

theorem isW_head_next1 (esc : List Char) (t : Str) (m m' n0 n1 n2 : Nat) (r : List Seg1) (h : nextNW1 esc t r) :
    isW (resid esc m t ++ stageL1 esc 2 m' n0 n1 n2 r).head? = false := by
  cases t with
  | cons c t' =>
    by_cases hc : c ∈ esc
    · simp only [resid, List.contains_eq_mem, hc, decide_true, if_true, List.append_assoc]
      rw [head_placeholder]; decide
    · have : isWord c = false := by
        rcases h with h | h
        · exact absurd h hc
        · exact h
      simp [resid, hc, isW, this]
  | nil =>
    cases r with
    | nil => simp [resid, stageL1, isW]
    | cons s' r' =>
      have hs : s'.k.cls ≠ 2 := h
      have hlt : s'.k.cls < 2 := by have := s'.k.cls_lt3; omega
      obtain ⟨n, hn⟩ := itemL1_ph esc 2 m' n0 n1 n2 s'.k hlt
      simp only [resid, List.nil_append, stageL1, hn]
      rw [head_placeholder]; decide

theorem noTriple_stageL1 {esc : List Char} (hs : EscSup esc) (h1 : '*' ∈ esc) (h2 : '_' ∈ esc) (segs : List Seg1) :
    ∀ (m n0 n1 n2 : Nat) (pw : Bool), Segs1OK segs → UnderOK1 esc pw segs →
      NoTriple '_' (stageL1 esc 2 m n0 n1 n2 segs) := by
  induction segs with
  | nil => intro _ _ _ _ _ _ _; exact noTriple_nil _
  | cons s r ih =>
    intro m n0 n1 n2 pw hok hu
    have hokr : Segs1OK r := fun x hx => hok x (List.mem_cons_of_mem _ hx)
    have hrest := ih (m + s.k.esc esc + escCount esc s.t) (n0 + s.k.codes) (s.k.bump 1 n1) (s.k.bump 2 n2) _ hokr hu.2
    have hres : '_' ∉ resid esc (m + s.k.esc esc) s.t := fun h => (resid_no_delim h1 h2 s.t _ _ h).2 rfl
    have hZ := noTriple_of_no_c '_' _ _ hres hrest
    simp only [stageL1]
    by_cases hc : s.k.cls < 2
    · obtain ⟨n, hn⟩ := itemL1_ph esc 2 m n0 n1 n2 s.k hc
      rw [hn]
      exact noTriple_of_no_c '_' _ _ (not_mem_placeholder (by decide) _) hZ
    · cases hk : s.k with
      | code n b => rw [hk] at hc; simp [K1.cls] at hc
      | em st d β =>
        have hs' := hok s List.mem_cons_self
        rw [hk] at hs' hc
        obtain ⟨hd, hβ⟩ := hs'
        have hdu : d = '_' := by
          rcases hd with e | e
          · rw [e] at hc; simp [K1.cls] at hc
          · exact e
        subst hdu
        have hc2 : s.k.cls = 2 := by rw [hk]; simp [K1.cls]
        have hnext := (hu.1 hc2).2
        have hhead := isW_under_head (isW_head_next1 esc s.t (m + s.k.esc esc)
          (m + s.k.esc esc + escCount esc s.t) (n0 + s.k.codes) (s.k.bump 1 n1) (s.k.bump 2 n2) r hnext)
        simp only [itemL1, hc, if_false, dl, List.append_assoc]
        have hm : (if st then 2 else 1) ≤ 2 := by cases st <;> simp
        rw [hk] at hhead hZ
        refine noTriple_delim '_' _ ?_ (noTriple_of_no_c '_' _ _ (star_not_mem_body hs β hβ m n0 '_' (Or.inr rfl))
          (noTriple_delim '_' _ hhead hZ _ hm)) _ hm
        obtain ⟨hne, hch, _, _⟩ := body0_facts hs β hβ m n0
        cases hwc : body0R esc m n0 β with
        | nil => exact absurd hwc hne
        | cons x w' =>
          have := (bodyCh_facts (hch x (by rw [hwc]; simp))).2.1
          simpa using this

theorem under_pass1 (cfg : Inline.Cfg) (f : Nat) (hs : EscSup cfg.esc) (h1 : '*' ∈ cfg.esc) (h2 : '_' ∈ cfg.esc)
    (segs : List Seg1) :
    ∀ (A : Str) (m n0 n1 n2 : Nat) (st : St) (g : Nat), '_' ∉ A → Segs1OK segs →
      UnderOK1 cfg.esc (isW (lastOr none A)) segs →
      hiLoop (applyPattern cfg (fun d p s => handleInline cfg (f + 1) d p s)) (g + (nodes1 2 cfg.esc m n0 segs).length)
        (A ++ stageL1 cfg.esc 2 m n0 n1 n2 segs) 15 0 st =
      hiLoop (applyPattern cfg (fun d p s => handleInline cfg (f + 1) d p s)) g
        (A ++ stageL1 cfg.esc 3 m n0 n1 st.stash.length segs) 15 0
        { st with stash := st.stash ++ nodes1 2 cfg.esc m n0 segs } := by
  induction segs with
  | nil => intro A m n0 n1 n2 st g _ _ _; simp [stageL1, nodes1]
  | cons s r ih =>
    intro A m n0 n1 n2 st g hA hok hu
    have hokr : Segs1OK r := fun x hx => hok x (List.mem_cons_of_mem _ hx)
    have hs' := hok s List.mem_cons_self
    have hres : ∀ m', '_' ∉ resid cfg.esc m' s.t := fun m' h => (resid_no_delim h1 h2 s.t m' _ h).2 rfl
    by_cases hc : s.k.cls < 2
    · -- a placeholder already
      have hne2 : ¬ s.k.cls = 2 := by omega
      obtain ⟨n, hn⟩ := itemL1_ph cfg.esc 2 m n0 n1 n2 s.k hc
      have hn3 : itemL1 cfg.esc 3 m n0 n1 st.stash.length s.k = placeholder n := by
        rw [← hn]
        cases hk : s.k with
        | code _ _ => rfl
        | em st' d β =>
          rw [hk] at hc
          have hd : d = '*' := Decidable.by_contra (fun hd => by simp [K1.cls, hd] at hc)
          subst hd
          have h3 : (K1.em st' '*' β).cls < 3 := K1.cls_lt3 _
          simp only [itemL1, hc, h3, if_true]
      have hnodes : (match s.k with
          | .em st d β => if (K1.em st d β).cls = 2 then [StashItem.node (emEl st (body0R cfg.esc m n0 β))] else []
          | .code _ _ => []) = [] := by
        cases hk : s.k with
        | code _ _ => rfl
        | em st' d β => rw [hk] at hne2; simp [hne2]
      have hu' : UnderOK1 cfg.esc (isW (lastOr none (A ++ (placeholder n ++ resid cfg.esc (m + s.k.esc cfg.esc) s.t)))) r := by
        rw [isW_lastOr_seg]; exact hu.2
      have := ih (A ++ (placeholder n ++ resid cfg.esc (m + s.k.esc cfg.esc) s.t))
        (m + s.k.esc cfg.esc + escCount cfg.esc s.t) (n0 + s.k.codes) (s.k.bump 1 n1) n2 st g
        (not_mem_of_append3 hA (not_mem_placeholder (by decide) _) (hres _)) hokr hu'
      simp only [stageL1, nodes1, hn, hn3, hnodes, List.nil_append, List.append_assoc,
        show s.k.bump 2 n2 = n2 by simp [K1.bump, hne2],
        show s.k.bump 2 st.stash.length = st.stash.length by simp [K1.bump, hne2]] at this ⊢
      exact this
    · cases hk : s.k with
      | code n b => rw [hk] at hc; simp [K1.cls] at hc
      | em st' d β =>
        rw [hk] at hs' hc
        obtain ⟨hd, hβ⟩ := hs'
        have hdu : d = '_' := by
          rcases hd with e | e
          · rw [e] at hc; simp [K1.cls] at hc
          · exact e
        subst hdu
        have hcl : (K1.em st' '_' β).cls = 2 := by simp [K1.cls]
        have hc2 : s.k.cls = 2 := by rw [hk]; exact hcl
        obtain ⟨hpw, hnext⟩ := hu.1 hc2
        obtain ⟨hne, hch, _, _⟩ := body0_facts hs β hβ m n0
        obtain ⟨q, hq⟩ := delim_cons ⟨st', '_', body0R cfg.esc m n0 β, []⟩
        have hE : emSrc ⟨st', '_', body0R cfg.esc m n0 β, []⟩ =
            '_' :: (q ++ (body0R cfg.esc m n0 β ++ EmSeg.delim ⟨st', '_', body0R cfg.esc m n0 β, []⟩)) := by
          rw [emSrc, hq]; rfl
        generalize hZ' : resid cfg.esc (m + body0Esc cfg.esc β) s.t ++
          stageL1 cfg.esc 2 (m + body0Esc cfg.esc β + escCount cfg.esc s.t) (n0 + β.spans.length) n1 (n2 + 1) r = Z'
        have hhm := emHandle_body st' '_' (body0R cfg.esc m n0 β) (Or.inr rfl) hne
          (fun x hx => ⟨(bodyCh_facts (hch x hx)).1, (bodyCh_facts (hch x hx)).2.1⟩) A Z'
          (fun _ => ⟨hpw, by rw [← hZ']; exact isW_head_next1 cfg.esc s.t _ _ _ _ _ r hnext,
            by rw [← hZ']; exact noTriple_of_no_c '_' _ _ (hres _) (noTriple_stageL1 hs h1 h2 r _ _ _ _ _ hokr hu.2)⟩)
        have hin := handleInline_word cfg f (body0R cfg.esc m n0 β) (bodyCh_quiet hch) 16 (Or.inr rfl) st
        have hstep := applyPattern_emG cfg f 15 (Or.inr rfl) '_' rfl A _ Z' hA _ hE st' _ hne _ st st hin hhm
        have hu' : UnderOK1 cfg.esc (isW (lastOr none (A ++ (placeholder st.stash.length ++
            resid cfg.esc (m + body0Esc cfg.esc β) s.t)))) r := by
          rw [isW_lastOr_seg]; exact hu.2
        have := ih (A ++ (placeholder st.stash.length ++ resid cfg.esc (m + body0Esc cfg.esc β) s.t))
          (m + body0Esc cfg.esc β + escCount cfg.esc s.t) (n0 + β.spans.length) n1 (n2 + 1)
          { st with stash := st.stash ++ [.node (emEl st' (body0R cfg.esc m n0 β))] } g
          (not_mem_of_append3 hA (not_mem_placeholder (by decide) _) (hres _)) hokr hu'
        simp only [stageL1, itemL1, nodes1, hk, hcl, K1.esc, K1.codes, K1.bump, if_true, Nat.lt_irrefl, if_false,
          show (2 : Nat) < 3 by omega, show ¬ ((2 : Nat) = 1) by omega, show ¬ ('_' = '*') by decide,
          List.length_append, List.length_cons, List.length_nil, dl_eq, List.append_assoc] at this ⊢
        rw [hZ']
        rw [show g + (0 + 1 + (nodes1 2 cfg.esc (m + body0Esc cfg.esc β + escCount cfg.esc s.t)
            (n0 + β.spans.length) r).length) =
          (g + (nodes1 2 cfg.esc (m + body0Esc cfg.esc β + escCount cfg.esc s.t) (n0 + β.spans.length) r).length) + 1
          by omega, hiLoop_step _ _ _ 15 0 st (by omega) _ _ _ _ hstep]
        simp only [if_true]
        rw [← hZ', this]


/-! ### 38. the whole pattern loop on such a line -/

/-- where a character of such a line comes from, once code spans and escapes are out -/
def From1 (esc : List Char) (lv : Nat) (segs : List Seg1) (c : Char) : Prop :=
  BodyCh c ∨ (∃ s ∈ segs, c ∈ s.t ∧ c ∉ esc) ∨
    (∃ s ∈ segs, lv ≤ s.k.cls ∧ ∃ st d β, s.k = .em st d β ∧ (d = '*' ∨ d = '_') ∧ c = d)

theorem From1.cons {esc : List Char} {lv : Nat} {s : Seg1} {r : List Seg1} {c : Char} (h : From1 esc lv r c) :
    From1 esc lv (s :: r) c := by
  rcases h with h | ⟨x, hx, h⟩ | ⟨x, hx, h⟩
  · exact Or.inl h
  · exact Or.inr (Or.inl ⟨x, List.mem_cons_of_mem _ hx, h⟩)
  · exact Or.inr (Or.inr ⟨x, List.mem_cons_of_mem _ hx, h⟩)

theorem mem_stageL1 {esc : List Char} (hs : EscSup esc) {c : Char} (lv : Nat) (segs : List Seg1) :
    ∀ m n0 n1 n2, Segs1OK segs → c ∈ stageL1 esc lv m n0 n1 n2 segs → From1 esc lv segs c := by
  induction segs with
  | nil => intro m n0 n1 n2 _ h; simp [stageL1] at h
  | cons s r ih =>
    intro m n0 n1 n2 hok h
    simp only [stageL1, List.mem_append] at h
    rcases h with h | h | h
    · cases hk : s.k with
      | code n b =>
        rw [hk] at h
        exact Or.inl (Or.inr (phChar_of_mem_placeholder h))
      | em st d β =>
        have hs' := hok s List.mem_cons_self
        rw [hk] at h hs'
        simp only [itemL1] at h
        split at h
        · exact Or.inl (Or.inr (phChar_of_mem_placeholder h))
        · rename_i hlv
          rw [dl_eq] at h
          rcases mem_emSrc' h with e | e
          · exact Or.inr (Or.inr ⟨s, List.mem_cons_self, by rw [hk]; omega, st, d, β, hk, hs'.1, e⟩)
          · exact Or.inl (bodyCh_body0 hs β hs'.2 m n0 c e)
    · rcases mem_resid h with h | h
      · exact Or.inr (Or.inl ⟨s, List.mem_cons_self, h⟩)
      · exact Or.inl (Or.inr h)
    · exact (ih _ _ _ _ (fun x hx => hok x (List.mem_cons_of_mem _ hx)) h).cons

theorem nodes1_length (esc : List Char) (segs : List Seg1) :
    ∀ m n0, (nodes1 1 esc m n0 segs).length + (nodes1 2 esc m n0 segs).length ≤ segs.length := by
  induction segs with
  | nil => intro _ _; simp [nodes1]
  | cons s r ih =>
    intro m n0
    obtain ⟨k, t⟩ := s
    have := ih (m + k.esc esc + escCount esc t) (n0 + k.codes)
    cases k with
    | code n b => simp only [nodes1, List.nil_append, List.length_cons] at this ⊢; omega
    | em st d β =>
      by_cases hd : d = '*'
      · simp only [nodes1, K1.cls, hd, if_true, show ¬ ((1 : Nat) = 2) by omega, if_false, List.length_append,
          List.length_cons, List.length_nil, List.nil_append] at this ⊢
        omega
      · simp only [nodes1, K1.cls, hd, if_false, show ¬ ((2 : Nat) = 1) by omega, if_true, List.length_append,
          List.length_cons, List.length_nil, List.nil_append] at this ⊢
        omega

/-- every token of the flat view takes at least one character -/
theorem stageF_length (esc : List Char) (F : List FSeg) (hok : FSegsOK F) :
    ∀ m n0, escCountF esc F + F.length ≤ (stageF esc false false m n0 F).length := by
  induction F with
  | nil => intro _ _; simp [escCountF, stageF]
  | cons s r ih =>
    intro m n0
    have h1 := escCount_le esc s.t
    have h3 := ih (fun x hx => hok x (List.mem_cons_of_mem _ hx)) (m + escCount esc s.t) (s.k.bump n0)
    have h2 : 0 < (itemF false n0 s.k).length := by
      have := hok s List.mem_cons_self
      cases hk : s.k with
      | code n b =>
        rw [hk] at this
        obtain ⟨⟨j, hj⟩, _⟩ := this
        simp [itemF, spanSrc, ticks, hj]; omega
      | junk x =>
        rw [hk] at this
        cases x with
        | nil => exact absurd rfl this.2
        | cons a b => simp [itemF]
    simp only [escCountF, stageF, List.length_append, List.length_cons, Bool.false_eq_true, if_false] at h3 ⊢
    omega

theorem flatten1_length (segs : List Seg1) : segs.length ≤ (flatten1 segs).length := by
  induction segs with
  | nil => simp [flatten1]
  | cons s r ih =>
    obtain ⟨k, t⟩ := s
    cases k with
    | code n b => simp only [flatten1, List.length_cons]; omega
    | em st d β => simp only [flatten1, List.length_cons, List.length_append]; omega

theorem codesF_le (F : List FSeg) : (codesF F).length ≤ F.length := by
  induction F with
  | nil => simp [codesF]
  | cons s r ih => cases hk : s.k <;> simp only [codesF, hk, List.length_cons] <;> omega

/-- **the pattern loop** on a line whose emphases contain words, escapes and code spans -/
theorem handleInlineTop_L1 (cfg : Inline.Cfg) (hE : EscOK cfg.esc) (hs : EscSup cfg.esc) (t0 : Str)
    (segs : List Seg1) (st : St) (hok : Segs1OK segs) (hF : FSegsOK (flatten1 segs))
    (hj : junctionsF t0 false (flatten1 segs)) (hu : UnderOK1 cfg.esc (lastW cfg.esc t0) segs)
    (hplain : ∀ c, (c ∈ t0 ∨ ∃ s ∈ segs, c ∈ s.t) → c ≠ '&' ∧ c ≠ '\n') :
    handleInlineTop cfg (escAll cfg.esc t0 ++ stageF cfg.esc false false 0 0 (flatten1 segs)) st =
      some (resid cfg.esc (st.stash.length + (codesF (flatten1 segs)).length) t0 ++
          stageL1 cfg.esc 3 (st.stash.length + (codesF (flatten1 segs)).length + escCount cfg.esc t0) st.stash.length
            (st.stash.length + (codesF (flatten1 segs)).length + escCount cfg.esc t0 + escCountF cfg.esc (flatten1 segs))
            (st.stash.length + (codesF (flatten1 segs)).length + escCount cfg.esc t0 + escCountF cfg.esc (flatten1 segs) +
              (nodes1 1 cfg.esc (st.stash.length + (codesF (flatten1 segs)).length + escCount cfg.esc t0)
                st.stash.length segs).length) segs,
        { st with stash := st.stash ++ (codesF (flatten1 segs) ++ (stashOf cfg.esc t0 ++ stashOfF cfg.esc (flatten1 segs)) ++
            nodes1 1 cfg.esc (st.stash.length + (codesF (flatten1 segs)).length + escCount cfg.esc t0) st.stash.length segs ++
            nodes1 2 cfg.esc (st.stash.length + (codesF (flatten1 segs)).length + escCount cfg.esc t0) st.stash.length segs) }) := by
  generalize hFl : flatten1 segs = F at *
  generalize hraw : escAll cfg.esc t0 ++ stageF cfg.esc false false 0 0 F = raw
  generalize hn0 : st.stash.length = n0
  generalize hne : n0 + (codesF F).length = ne
  generalize hm1 : ne + escCount cfg.esc t0 = m1
  generalize hN1 : nodes1 1 cfg.esc m1 n0 segs = N1
  generalize hN2 : nodes1 2 cfg.esc m1 n0 segs = N2
  have hlen : escCount cfg.esc t0 + escCountF cfg.esc F + F.length ≤ raw.length := by
    have h1 := escCount_le cfg.esc t0
    have h2 := stageF_length cfg.esc F hF 0 0
    rw [← hraw, List.length_append]; omega
  have hcl := codesF_le F
  have hnl : N1.length + N2.length ≤ F.length := by
    have h1 := nodes1_length cfg.esc segs m1 n0
    have h2 := flatten1_length segs
    rw [hFl] at h2; rw [← hN1, ← hN2]; omega
  obtain ⟨x, hx⟩ : ∃ x, loopFuel raw.length =
      (((((((((((x + 1) + 1) + N2.length) + 1) + N1.length) + 1) + 11) + 1) +
        escCountF cfg.esc F) + escCount cfg.esc t0) + 1) + (codesF F).length :=
    ⟨loopFuel raw.length - (escCount cfg.esc t0 + escCountF cfg.esc F + (codesF F).length + N1.length + N2.length + 17), by
      have := CodeLaw.loopFuel_ge raw.length; omega⟩
  unfold handleInlineTop depthFuel
  rw [show raw.length + 20 = ((raw.length + 18) + 1) + 1 from rfl]
  unfold handleInline
  rw [hx]
  generalize hhi : (fun d p s => handleInline cfg ((raw.length + 18) + 1) d p s) = hi
  rw [← hraw]
  -- pattern 0
  have e0 := code_passF cfg hi hE.bs hE.tick F [] t0 false 0 0 st
    (((((((((((x + 1) + 1) + N2.length) + 1) + N1.length) + 1) + 11) + 1) +
        escCountF cfg.esc F) + escCount cfg.esc t0) + 1) btOK_nil (by simp) hF hj
  simp only [List.nil_append] at e0
  rw [e0, hn0]
  have hbt : btFind (escAll cfg.esc t0 ++ stageF cfg.esc true false 0 n0 F) 0 = none := by
    simp only [btFind, show ¬ (0 > (escAll cfg.esc t0 ++ stageF cfg.esc true false 0 n0 F).length) by omega,
      if_false, if_true, List.drop_zero]
    have := btScan_stageF hE.bs hE.tick F [] t0 0 n0 none 0 btOK_nil (by simp) hF
    simpa using this
  rw [hiLoop_step _ _ _ 0 0 _ (by omega) _ _ _ _ (applyPattern_zero_none cfg _ _ _ hbt)]
  simp only [Bool.false_eq_true, if_false, Nat.zero_add]
  -- pattern 1
  have e1 := escape_chunk cfg hi hE.bs (stageF cfg.esc true false 0 n0 F) t0 []
    { st with stash := st.stash ++ codesF F }
    (((((((((x + 1) + 1) + N2.length) + 1) + N1.length) + 1) + 11) + 1) + escCountF cfg.esc F) (by simp)
  simp only [List.nil_append] at e1
  rw [e1]
  simp only [List.length_append, hn0, hne]
  have hbs0 : '\\' ∉ resid cfg.esc ne t0 := bs_not_mem_resid hE.bs _ _
  rw [esc_passF cfg hi hE.bs F _ _ _ _ _ hbs0 hF]
  simp only [List.length_append, hn0, hne]
  have hlen0 : (stashOf cfg.esc t0).length = escCount cfg.esc t0 := rfl
  rw [hlen0, hm1, ← hFl, stageF_flatten1 cfg.esc segs m1 n0 0 0, hFl]
  generalize hD1 : resid cfg.esc ne t0 ++ stageL1 cfg.esc 1 m1 n0 0 0 segs = D1
  have hfacts : ∀ (lv : Nat) (a b c : Nat) (ch : Char),
      ch ∈ resid cfg.esc ne t0 ++ stageL1 cfg.esc lv m1 a b c segs →
      ch ≠ '\\' ∧ ch ≠ '[' ∧ ch ≠ '!' ∧ ch ≠ '&' ∧ ch ≠ '\n' ∧ (ch = '*' → lv ≤ 1) ∧ (ch = '_' → lv ≤ 2) := by
    intro lv a b c ch hc
    have hplainf : ∀ ch, (ch ∈ t0 ∨ ∃ s ∈ segs, ch ∈ s.t) → ch ∉ cfg.esc →
        ch ≠ '\\' ∧ ch ≠ '[' ∧ ch ≠ '!' ∧ ch ≠ '&' ∧ ch ≠ '\n' ∧ (ch = '*' → lv ≤ 1) ∧ (ch = '_' → lv ≤ 2) := by
      intro ch h hn
      have := hplain ch h
      exact ⟨fun e => hn (e ▸ hE.bs), fun e => hn (e ▸ hE.lbr), fun e => hn (e ▸ hE.bang), this.1, this.2,
        fun e => absurd (e ▸ hE.star) hn, fun e => absurd (e ▸ hE.under) hn⟩
    have hbody : ∀ ch, BodyCh ch →
        ch ≠ '\\' ∧ ch ≠ '[' ∧ ch ≠ '!' ∧ ch ≠ '&' ∧ ch ≠ '\n' ∧ (ch = '*' → lv ≤ 1) ∧ (ch = '_' → lv ≤ 2) := by
      intro ch h
      have := bodyCh_facts h
      exact ⟨this.2.2.2.1, this.2.2.2.2.1, this.2.2.2.2.2.1, this.2.2.2.2.2.2.1, this.2.2.2.2.2.2.2,
        fun e => absurd e this.1, fun e => absurd e this.2.1⟩
    rcases List.mem_append.1 hc with h | h
    · rcases mem_resid h with ⟨h, hn⟩ | h
      · exact hplainf ch (Or.inl h) hn
      · exact hbody ch (Or.inr h)
    · rcases mem_stageL1 hs lv segs _ _ _ _ hok h with h | ⟨s, hs', h, hn⟩ | ⟨s, hs', hcl', st', d, β, hk, hd, h⟩
      · exact hbody ch h
      · exact hplainf ch (Or.inr ⟨s, hs', h⟩) hn
      · subst h
        have hcls : s.k.cls = if ch = '*' then 1 else 2 := by rw [hk]; rfl
        rcases hd with e | e <;> subst e
        · refine ⟨by decide, by decide, by decide, by decide, by decide, fun _ => ?_, fun e => absurd e (by decide)⟩
          simp at hcls; omega
        · refine ⟨by decide, by decide, by decide, by decide, by decide, fun e => absurd e (by decide), fun _ => ?_⟩
          simp at hcls; omega
  have hbs1 : '\\' ∉ D1 := by
    intro h; rw [← hD1] at h; exact (hfacts 1 _ _ _ _ h).1 rfl
  rw [hiLoop_step _ _ _ 1 0 _ (by omega) _ _ _ _ (applyPattern_esc_none cfg hi D1 _ hbs1)]
  simp only [Bool.false_eq_true, if_false]
  -- patterns 2–12
  have hmid : Mid D1 := by
    intro c hc
    rw [← hD1] at hc
    have := hfacts 1 _ _ _ _ hc
    exact ⟨this.2.1, this.2.2.1, this.2.2.2.1, this.2.2.2.2.1⟩
  rw [show 1 + 1 = 2 from rfl, hiLoop_mid cfg hi D1 _ hmid _ 11 2 rfl (by omega)]
  -- pattern 13
  have hns : nsFind D1 0 = none := by
    rw [← hD1]
    simp only [nsFind, show ¬ (0 > (resid cfg.esc ne t0 ++ stageL1 cfg.esc 1 m1 n0 0 0 segs).length) by omega,
      if_false, if_true, List.drop_zero]
    rw [nsScan_text _ (resid_no_delim hE.star hE.under t0 ne)]
    have := nsScan_stageL1 hs hE.star hE.under 1 segs m1 n0 0 0 (lastOr none (resid cfg.esc ne t0))
      (0 + (resid cfg.esc ne t0).length) [] hok
    simp only [List.append_nil] at this
    rw [this]; rfl
  rw [hiLoop_step _ _ _ 13 0 _ (by omega) _ _ _ _ (applyPattern_13 cfg hi D1 _ hns)]
  simp only [Bool.false_eq_true, if_false]
  -- pattern 14
  have hs0 : '*' ∉ resid cfg.esc ne t0 := fun h => (resid_no_delim hE.star hE.under t0 ne _ h).1 rfl
  have esp := star_pass1 cfg (raw.length + 18) hs hE.star hE.under segs (resid cfg.esc ne t0) [] m1 n0 0 0
    { st with stash := st.stash ++ codesF F ++ stashOf cfg.esc t0 ++ stashOfF cfg.esc F }
    ((((x + 1) + 1) + N2.length) + 1) hs0 hok
  simp only [List.append_nil, hN1] at esp
  rw [show 13 + 1 = 14 from rfl, ← hD1, ← hhi, esp]
  rw [hhi]
  simp only [List.length_append, hlen0, stashOfF_length, hn0, hne, hm1]
  generalize hn1 : m1 + escCountF cfg.esc F = n1
  have hstar2 : '*' ∉ resid cfg.esc ne t0 ++ stageL1 cfg.esc 2 m1 n0 n1 0 segs := by
    intro h
    have := (hfacts 2 _ _ _ _ h).2.2.2.2.2.1 rfl
    omega
  rw [hiLoop_step _ _ _ 14 0 _ (by omega) _ _ _ _
    (applyPattern_em_none cfg hi 14 (Or.inl rfl) _ _ (by simpa using hstar2))]
  simp only [Bool.false_eq_true, if_false]
  -- pattern 15
  have hu0 : '_' ∉ resid cfg.esc ne t0 := fun h => (resid_no_delim hE.star hE.under t0 ne _ h).2 rfl
  have hpw : isW (lastOr none (resid cfg.esc ne t0)) = lastW cfg.esc t0 := by
    rw [isW_lastOr_resid]
    by_cases ht : t0 = []
    · subst ht; rfl
    · simp [ht]
  have eup := under_pass1 cfg (raw.length + 18) hs hE.star hE.under segs (resid cfg.esc ne t0) m1 n0 n1 0
    { st with stash := st.stash ++ codesF F ++ stashOf cfg.esc t0 ++ stashOfF cfg.esc F ++ N1 }
    ((x + 1) + 1) hu0 hok (by rw [hpw]; exact hu)
  simp only [hN2] at eup
  rw [show 14 + 1 = 15 from rfl, ← hhi, eup]
  rw [hhi]
  simp only [List.length_append, hlen0, stashOfF_length, hn0, hne, hm1, hn1]
  have hund3 : ∀ n2, '_' ∉ resid cfg.esc ne t0 ++ stageL1 cfg.esc 3 m1 n0 n1 n2 segs := by
    intro n2 h
    have := (hfacts 3 _ _ _ _ h).2.2.2.2.2.2 rfl
    omega
  rw [hiLoop_step _ _ _ 15 0 _ (by omega) _ _ _ _
    (applyPattern_em_none cfg hi 15 (Or.inr rfl) _ _ (by simpa using hund3 _))]
  simp only [Bool.false_eq_true, if_false]
  simp only [hiLoop, patternCount, show ¬ (15 + 1 < 16) by omega, if_false]
  simp [List.append_assoc]


/-! ### 39. `__processPlaceholders` on such a line: the emphasis elements get their children -/

/-- one turn of the loop at a placeholder whose stash entry is an element that `nested` turns into `nd'` -/
theorem ppLoop_stepNodeG (S : List StashItem) (nested : Node → Option Node) (data : Str) (g start : Nat)
    (rp : List Node × Node) (off : Nat) (id : Str) (phEnd : Nat) (nd nd' : Node) (h1 : start ≤ data.length)
    (h2 : find phPrefix (data.drop start) = some off) (h3 : findPh data (start + off) = (some id, phEnd))
    (h4 : stashGet S id = some (.node nd)) (h5 : nested nd = some nd') :
    ppLoop S nested data false true (g + 1) start rp.1 rp.2 =
      ppLoop S nested data false true g phEnd (nd' :: (lt (Inline.slice data start (start + off)) rp).1)
        (lt (Inline.slice data start (start + off)) rp).2 := by
  have hle : ¬ start > data.length := by omega
  simp only [ppLoop, hle, if_false, h2, h3, Option.bind_some, h4, h5]
  by_cases hi : start + off > 0
  · simp [hi, lt]
  · have h0 : start = 0 ∧ off = 0 := by omega
    simp [h0.1, h0.2, Inline.slice, lt, linkText]

theorem nextOK_nodeG (S : List StashItem) (nested : Node → Option Node) (g m : Nat) (Z' : Str) (nd nd' : Node)
    (h1 : S[m]? = some (.node nd)) (h2 : nested nd = some nd') :
    NextOK S nested (placeholder m ++ Z') (g + 1)
      (fun pre st => ppLoop S nested (pre ++ placeholder m ++ Z') false true g (pre ++ placeholder m).length
        (nd' :: st.1) st.2) := by
  intro P' B' rp' hB
  have hdata : P' ++ B' ++ (placeholder m ++ Z') = (P' ++ B') ++ placeholder m ++ Z' := by simp [List.append_assoc]
  have hdrop : (P' ++ B' ++ placeholder m ++ Z').drop P'.length = B' ++ phPrefix ++ ((pad4 m ++ [ETX]) ++ Z') := by
    rw [placeholder_eq]; simp [List.append_assoc]
  have hfind : find phPrefix ((P' ++ B' ++ placeholder m ++ Z').drop P'.length) = some B'.length := by
    rw [hdrop]; exact find_prefix_after B' _ hB
  have hph := findPh_placeholder (P' ++ B') m Z'
  rw [List.length_append] at hph
  have hslice : Inline.slice (P' ++ B' ++ placeholder m ++ Z') P'.length (P'.length + B'.length) = B' := by
    have : (P' ++ B' ++ placeholder m ++ Z').take (P'.length + B'.length) = P' ++ B' := by
      rw [← List.length_append, List.append_assoc (P' ++ B')]; exact List.take_left' rfl
    rw [Inline.slice, this]; simp
  rw [hdata, ppLoop_stepNodeG S nested _ g P'.length rp' B'.length (pad4 m) _ nd nd' (by simp) hfind hph
    (by rw [stashGet_pad4]; exact h1) h2, hslice]

/-- `__processPlaceholders` on the residue of escaped text and code spans, with the stash entries wherever they are -/
theorem pp_segs (esc : List Char) (S : List StashItem) (f : Nat) (hf : 0 < f) (t0 : Str) (segs : List SpanSeg)
    (parent : Node) (hp1 : parent.text = none) (hp2 : parent.textAtomic = false) (m n : Nat)
    (rest : List StashItem) (hdrop : S.drop m = stashOf esc t0 ++ stashOfSegs esc segs ++ rest)
    (hst : SegStash S n segs) (ht0 : STX ∉ t0) (hsegs : ∀ s ∈ segs, STX ∉ s.t ∧ STX ∉ Code.codeEscape s.b)
    (hne : t0 ≠ [] ∨ segs ≠ []) :
    processPlaceholders S (f + 1) (resid esc m t0 ++ residSegs esc (m + escCount esc t0) n segs) false parent true =
      some (segs.map (tailed esc), { parent with text := optStr (coded esc t0) }) := by
  generalize hRR : resid esc m t0 ++ residSegs esc (m + escCount esc t0) n segs = R
  have hRne : R.isEmpty = false := by
    rw [← hRR]
    rcases hne with h | h
    · cases t0 with
      | nil => exact absurd rfl h
      | cons c r =>
        by_cases hc : c ∈ esc
        · simp only [resid, List.contains_eq_mem, hc, decide_true, if_true]
          cases hx : placeholder m with
          | nil => exact absurd hx (placeholder_ne_nil _)
          | cons a b => simp
        · simp [resid, hc]
    · cases segs with
      | nil => exact absurd rfl h
      | cons s r =>
        simp only [residSegs]
        cases hx : placeholder n with
        | nil => exact absurd hx (placeholder_ne_nil _)
        | cons a b => cases resid esc m t0 <;> simp
  unfold processPlaceholders
  simp only [hRne, Bool.false_eq_true, if_false]
  have hcost := costSegs_le esc segs t0 m n
  rw [hRR] at hcost
  obtain ⟨g, hg⟩ : ∃ g, R.length + 2 = g + costSegs esc t0 segs := ⟨R.length + 2 - costSegs esc t0 segs, by omega⟩
  rw [hg]
  have := ppLoop_segs esc S
    (procNode fun d a p t_1 => processPlaceholders S f d a p t_1)
    (fun x hx => procNode_codeSpan S f hf x hx)
    segs [] t0 m n ([], parent) g rest ht0 hsegs hdrop hst
  simp only [List.nil_append, List.length_nil] at this
  rw [hRR] at this
  rw [this]
  have hlt : lt (coded esc t0) ([], parent) = ([], { parent with text := optStr (coded esc t0) }) := by
    simp only [lt]; exact CodeLaw.linkText_text _ parent hp1 hp2
  rw [hlt, foldSegs_closed]
  simp

/-- an emphasis element with its content: text, and the code spans as children -/
def emFull (esc : List Char) (st : Bool) (β : Body0) : Node :=
  { emEl st [] with text := optStr (coded esc β.u0), children := β.spans.map (tailed esc) }

theorem isBlank_false_of_head {W : Str} (hne : W ≠ []) (hh : ∀ x, W.head? = some x → isSpace x = false) :
    isBlank W = false := by
  cases hb : isBlank W with
  | false => rfl
  | true =>
    rw [isBlank_iff] at hb
    cases W with
    | nil => exact absurd rfl hne
    | cons a b =>
      have := hb a (by simp)
      rw [hh a rfl] at this; cases this

/-- an emphasis element comes out of the stash with its content resolved -/
theorem procNode_em1 (esc : List Char) (hs : EscSup esc) (S : List StashItem) (f : Nat) (hf : 0 < f) (st : Bool)
    (β : Body0) (hβ : Body0OK β) (m n0 : Nat) (rest : List StashItem)
    (hdrop : S.drop m = stashOf esc β.u0 ++ stashOfSegs esc β.spans ++ rest) (hst : SegStash S n0 β.spans)
    (hclean : ∀ s ∈ β.spans, STX ∉ Code.codeEscape s.b) :
    procNode (fun d a p i => processPlaceholders S (f + 1) d a p i) (emEl st (body0R esc m n0 β)) =
      some (emFull esc st β) := by
  obtain ⟨hne, hch, hh, _⟩ := body0_facts hs β hβ m n0
  have hstx : ∀ c, (c ∈ β.u0 ∨ ∃ s ∈ β.spans, c ∈ s.t) → c ≠ STX :=
    fun c hc => (plainCh_facts (hβ.plain c hc)).2.2.2.2
  unfold procNode
  have h1 : petTail (fun d a p i => processPlaceholders S (f + 1) d a p i)
      { emEl st (body0R esc m n0 β) with children := [] } = some (emEl st (body0R esc m n0 β), []) := by
    simp [petTail, emEl, mkEl, Node.truthy]
  simp only [h1]
  have htr : Node.truthy (some (body0R esc m n0 β)) = true := by
    cases hx : body0R esc m n0 β with
    | nil => exact absurd hx hne
    | cons a b => rfl
  have hbl : blankOpt (some (body0R esc m n0 β)) = false := by
    simp only [blankOpt, Option.getD_some]; exact isBlank_false_of_head hne hh
  have hpp := pp_segs esc S f hf β.u0 β.spans
    { emEl st (body0R esc m n0 β) with text := none, textAtomic := false } rfl rfl m n0 rest hdrop hst
    (fun h => hstx _ (Or.inl h) rfl)
    (fun s hs' => ⟨fun h => hstx _ (Or.inr ⟨s, hs', h⟩) rfl, hclean s hs'⟩) hβ.ne
  have h2 : petText (fun d a p i => processPlaceholders S (f + 1) d a p i) (emEl st (body0R esc m n0 β)) =
      some (emFull esc st β) := by
    have e1 : (emEl st (body0R esc m n0 β)).text = some (body0R esc m n0 β) := rfl
    have e2 : (emEl st (body0R esc m n0 β)).textAtomic = false := rfl
    simp only [petText, e1, e2, htr, hbl, Bool.not_false, Bool.and_self, if_true, Option.getD_some]
    have hpp' := hpp
    simp only [body0R] at hpp' ⊢
    rw [hpp']
    simp [emFull, emEl, mkEl]
  simp only [h2]
  simp [procKids, emFull, emEl, mkEl]


/-- the code elements of a line, in order (those inside emphasis included) -/
def codes1 : List Seg1 → List StashItem
  | [] => []
  | ⟨.code _ b, _⟩ :: r => .node (codeSpan (Code.codeEscape b)) :: codes1 r
  | ⟨.em _ _ β, _⟩ :: r => spanNodes β.spans ++ codes1 r

/-- the escape codes of a line, in order -/
def escs1 (esc : List Char) : List Seg1 → List StashItem
  | [] => []
  | ⟨.code _ _, t⟩ :: r => stashOf esc t ++ escs1 esc r
  | ⟨.em _ _ β, t⟩ :: r => (stashOf esc β.u0 ++ stashOfSegs esc β.spans) ++ (stashOf esc t ++ escs1 esc r)

theorem codesF_append (L1 L2 : List FSeg) : codesF (L1 ++ L2) = codesF L1 ++ codesF L2 := by
  induction L1 with
  | nil => rfl
  | cons s r ih => cases hk : s.k <;> simp [codesF, hk, ih]

theorem stashOfF_append (esc : List Char) (L1 L2 : List FSeg) :
    stashOfF esc (L1 ++ L2) = stashOfF esc L1 ++ stashOfF esc L2 := by
  induction L1 with
  | nil => rfl
  | cons s r ih => simp [stashOfF, ih]

theorem flat_spansF (esc : List Char) (x t : Str) (spans : List SpanSeg) :
    codesF (spansF x t spans) = spanNodes spans ∧
    stashOfF esc (spansF x t spans) = stashOfSegs esc spans ++ stashOf esc t := by
  induction spans with
  | nil => simp [spansF, codesF, stashOfF, spanNodes, stashOfSegs]
  | cons s r ih => simp [spansF, codesF, stashOfF, spanNodes, stashOfSegs, ih.2, List.append_assoc]; exact ih.1

theorem flat_codes_escs (esc : List Char) (segs : List Seg1) :
    codesF (flatten1 segs) = codes1 segs ∧ stashOfF esc (flatten1 segs) = escs1 esc segs := by
  induction segs with
  | nil => exact ⟨rfl, rfl⟩
  | cons s r ih =>
    obtain ⟨k, t⟩ := s
    cases k with
    | code n b => simp [flatten1, codesF, stashOfF, codes1, escs1, ih.1, ih.2]
    | em st d β =>
      obtain ⟨h1, h2⟩ := flat_spansF esc (dl st d) t β.spans
      simp [flatten1, codesF, stashOfF, codesF_append, stashOfF_append, codes1, escs1, ih.1, ih.2, h1, h2,
        List.append_assoc]

/-- where the code elements are in the stash -/
def CodeLay (S : List StashItem) : Nat → List Seg1 → Prop
  | _, [] => True
  | n0, s :: r =>
    (match s.k with
      | .code _ b => S[n0]? = some (.node (codeSpan (Code.codeEscape b)))
      | .em _ _ β => SegStash S n0 β.spans) ∧ CodeLay S (n0 + s.k.codes) r

theorem codeLay_ok (segs : List Seg1) :
    ∀ (B X : List StashItem), CodeLay (B ++ codes1 segs ++ X) B.length segs := by
  induction segs with
  | nil => intro _ _; trivial
  | cons s r ih =>
    intro B X
    obtain ⟨k, t⟩ := s
    cases k with
    | code n b =>
      refine ⟨by simp [codes1], ?_⟩
      have := ih (B ++ [.node (codeSpan (Code.codeEscape b))]) X
      simpa [codes1, K1.codes, List.append_assoc] using this
    | em st d β =>
      refine ⟨?_, ?_⟩
      · have := segStash_nodes B β.spans (codes1 r ++ X)
        simpa [codes1, List.append_assoc] using this
      · have := ih (B ++ spanNodes β.spans) X
        simpa [codes1, K1.codes, spanNodes, List.append_assoc] using this

/-- where the emphasis elements are in the stash -/
def EmLay (esc : List Char) (S : List StashItem) : Nat → Nat → Nat → Nat → List Seg1 → Prop
  | _, _, _, _, [] => True
  | m, n0, n1, n2, s :: r =>
    (match s.k with
      | .code _ _ => True
      | .em st d β => S[if d = '*' then n1 else n2]? = some (.node (emEl st (body0R esc m n0 β)))) ∧
    EmLay esc S (m + s.k.esc esc + escCount esc s.t) (n0 + s.k.codes) (s.k.bump 1 n1) (s.k.bump 2 n2) r

theorem emLay_ok (esc : List Char) (segs : List Seg1) :
    ∀ (m n0 : Nat) (B C D : List StashItem),
      EmLay esc (B ++ nodes1 1 esc m n0 segs ++ C ++ nodes1 2 esc m n0 segs ++ D) m n0 B.length
        (B.length + (nodes1 1 esc m n0 segs).length + C.length) segs := by
  induction segs with
  | nil => intro _ _ _ _ _; trivial
  | cons s r ih =>
    intro m n0 B C D
    obtain ⟨k, t⟩ := s
    cases k with
    | code n b =>
      refine ⟨trivial, ?_⟩
      have := ih (m + escCount esc t) (n0 + 1) B C D
      simpa [nodes1, K1.esc, K1.codes, K1.bump, K1.cls] using this
    | em st d β =>
      by_cases hd : d = '*'
      · subst hd
        refine ⟨by simp [nodes1, K1.cls], ?_⟩
        have := ih (m + body0Esc esc β + escCount esc t) (n0 + β.spans.length)
          (B ++ [.node (emEl st (body0R esc m n0 β))]) C D
        simp only [nodes1, K1.esc, K1.codes, K1.bump, K1.cls, if_true, show ¬ ((1 : Nat) = 2) by omega, if_false,
          List.length_append, List.length_cons, List.length_nil, List.append_assoc, List.cons_append,
          List.nil_append] at this ⊢
        rw [show B.length + ((nodes1 1 esc (m + body0Esc esc β + escCount esc t) (n0 + β.spans.length) r).length + 1)
            + C.length = B.length + (0 + 1) +
              (nodes1 1 esc (m + body0Esc esc β + escCount esc t) (n0 + β.spans.length) r).length + C.length by omega,
          show B.length + 1 = B.length + (0 + 1) by omega]
        exact this
      · refine ⟨?_, ?_⟩
        · simp only [nodes1, K1.cls, hd, if_false, show ¬ ((2 : Nat) = 1) by omega, if_true, List.nil_append]
          have hi : B.length + (nodes1 1 esc (m + (K1.em st d β).esc esc + escCount esc t)
              (n0 + (K1.em st d β).codes) r).length + C.length =
              (B ++ nodes1 1 esc (m + (K1.em st d β).esc esc + escCount esc t) (n0 + (K1.em st d β).codes) r ++ C).length := by
            simp [Nat.add_assoc]
          rw [hi, List.append_assoc _ _ D, List.getElem?_append_right (Nat.le_refl _)]
          simp
        · have := ih (m + body0Esc esc β + escCount esc t) (n0 + β.spans.length) B
            (C ++ [.node (emEl st (body0R esc m n0 β))]) D
          simp only [nodes1, K1.esc, K1.codes, K1.bump, K1.cls, hd, if_false, show ¬ ((2 : Nat) = 1) by omega, if_true,
            List.length_append, List.length_cons, List.length_nil, List.append_assoc, List.cons_append,
            List.nil_append] at this ⊢
          rw [show B.length + (nodes1 1 esc (m + body0Esc esc β + escCount esc t) (n0 + β.spans.length) r).length +
              C.length + 1 = B.length + (nodes1 1 esc (m + body0Esc esc β + escCount esc t) (n0 + β.spans.length) r).length +
              (C.length + (0 + 1)) by omega]
          exact this


/-- the element an item becomes -/
def kfin (esc : List Char) : K1 → Node
  | .code _ b => codeSpan (Code.codeEscape b)
  | .em st _ β => emFull esc st β

/-- the element as it lies in the stash, before its content is resolved -/
def kraw (esc : List Char) (m n0 : Nat) : K1 → Node
  | .code _ b => codeSpan (Code.codeEscape b)
  | .em st _ β => emEl st (body0R esc m n0 β)

def idx1 (n0 n1 n2 : Nat) : K1 → Nat
  | .code _ _ => n0
  | .em _ d _ => if d = '*' then n1 else n2

theorem itemL1_3 (esc : List Char) (m n0 n1 n2 : Nat) (k : K1) :
    itemL1 esc 3 m n0 n1 n2 k = placeholder (idx1 n0 n1 n2 k) := by
  cases k with
  | code n b => rfl
  | em st d β => simp [itemL1, K1.cls_lt3, idx1]

/-- every item's stash entry is where its placeholder says, and `nested` resolves it -/
def Lay1 (esc : List Char) (S : List StashItem) (nested : Node → Option Node) : Nat → Nat → Nat → Nat → List Seg1 → Prop
  | _, _, _, _, [] => True
  | m, n0, n1, n2, s :: r =>
    (S[idx1 n0 n1 n2 s.k]? = some (.node (kraw esc m n0 s.k)) ∧ nested (kraw esc m n0 s.k) = some (kfin esc s.k)) ∧
    Lay1 esc S nested (m + s.k.esc esc + escCount esc s.t) (n0 + s.k.codes) (s.k.bump 1 n1) (s.k.bump 2 n2) r

def foldL1 (esc : List Char) : List Seg1 → List Node × Node → List Node × Node
  | [], rp => rp
  | s :: r, rp => foldL1 esc r (lt (coded esc s.t) (kfin esc s.k :: rp.1, rp.2))

def costL1 (esc : List Char) : Str → List Seg1 → Nat
  | t, [] => escCount esc t + 1
  | t, s :: r => escCount esc t + 1 + costL1 esc s.t r

def bodyEscs (esc : List Char) : K1 → List StashItem
  | .code _ _ => []
  | .em _ _ β => stashOf esc β.u0 ++ stashOfSegs esc β.spans

theorem escs1_cons (esc : List Char) (s : Seg1) (r : List Seg1) :
    escs1 esc (s :: r) = bodyEscs esc s.k ++ (stashOf esc s.t ++ escs1 esc r) := by
  obtain ⟨k, t⟩ := s
  cases k <;> simp [escs1, bodyEscs]

theorem stashOfSegs_length (esc : List Char) (segs : List SpanSeg) :
    (stashOfSegs esc segs).length = escCountSegs esc segs := by
  induction segs with
  | nil => rfl
  | cons s r ih => simp [stashOfSegs, escCountSegs, escCount, ih]

theorem bodyEscs_length (esc : List Char) (k : K1) : (bodyEscs esc k).length = k.esc esc := by
  cases k with
  | code _ _ => rfl
  | em st d β => simp [bodyEscs, K1.esc, body0Esc, stashOfSegs_length, escCount]

theorem ppLoop_L1 (esc : List Char) (S : List StashItem) (nested : Node → Option Node) (segs : List Seg1) :
    ∀ (P t : Str) (m n0 n1 n2 : Nat) (rp : List Node × Node) (g : Nat) (rest : List StashItem), STX ∉ t →
      (∀ s ∈ segs, STX ∉ s.t) →
      S.drop m = stashOf esc t ++ escs1 esc segs ++ rest → Lay1 esc S nested (m + escCount esc t) n0 n1 n2 segs →
      ppLoop S nested (P ++ resid esc m t ++ stageL1 esc 3 (m + escCount esc t) n0 n1 n2 segs) false true
        (g + costL1 esc t segs) P.length rp.1 rp.2 =
        some ((foldL1 esc segs (lt (coded esc t) rp)).1.reverse, (foldL1 esc segs (lt (coded esc t) rp)).2) := by
  induction segs with
  | nil =>
    intro P t m n0 n1 n2 rp g rest ht _ hS _
    have := ppLoop_seg esc S nested [] (g + 1) _ (nextOK_end S nested g) t P [] m rp (escs1 esc [] ++ rest)
      (by simp) ht (by simpa [List.append_assoc] using hS)
    simp only [List.append_nil, List.nil_append] at this
    simp only [stageL1, List.append_nil, costL1, foldL1]
    rw [show g + (escCount esc t + 1) = g + 1 + escCount esc t by omega, this]
  | cons s r ih =>
    intro P t m n0 n1 n2 rp g rest ht hsegs hS hst
    have hs1 := hsegs s List.mem_cons_self
    obtain ⟨⟨hst1, hst2⟩, hst3⟩ := hst
    have hK := nextOK_nodeG S nested (g + costL1 esc s.t r) (idx1 n0 n1 n2 s.k)
      (resid esc (m + escCount esc t + s.k.esc esc) s.t ++
        stageL1 esc 3 (m + escCount esc t + s.k.esc esc + escCount esc s.t) (n0 + s.k.codes)
          (s.k.bump 1 n1) (s.k.bump 2 n2) r)
      _ _ hst1 hst2
    have := ppLoop_seg esc S nested _ _ _ hK t P [] m rp (escs1 esc (s :: r) ++ rest)
      (by simp) ht (by simpa [List.append_assoc] using hS)
    simp only [List.append_nil, List.nil_append] at this
    simp only [stageL1, itemL1_3, costL1, foldL1]
    rw [show g + (escCount esc t + 1 + costL1 esc s.t r) = g + costL1 esc s.t r + 1 + escCount esc t by omega,
      this]
    have hS' : S.drop (m + escCount esc t + s.k.esc esc) = stashOf esc s.t ++ escs1 esc r ++ rest := by
      have : S.drop (m + escCount esc t + s.k.esc esc) = ((S.drop m).drop (escCount esc t)).drop (s.k.esc esc) := by
        rw [List.drop_drop, List.drop_drop, Nat.add_assoc]
      rw [this, hS, escs1_cons]
      have e1 : (stashOf esc t).length = escCount esc t := rfl
      simp only [List.append_assoc]
      rw [← e1, List.drop_left, ← bodyEscs_length esc s.k, List.drop_left]
    have := ih (P ++ resid esc m t ++ placeholder (idx1 n0 n1 n2 s.k)) s.t (m + escCount esc t + s.k.esc esc)
      (n0 + s.k.codes) (s.k.bump 1 n1) (s.k.bump 2 n2)
      (kfin esc s.k :: (lt (coded esc t) rp).1, (lt (coded esc t) rp).2) g rest hs1
      (fun x hx => hsegs x (List.mem_cons_of_mem _ hx)) hS' hst3
    simp only [List.append_assoc] at this ⊢
    exact this

/-- an item's element with the text that follows it as its tail -/
def tailed1 (esc : List Char) (s : Seg1) : Node := { kfin esc s.k with tail := optStr (coded esc s.t) }

theorem lt_kfin (esc : List Char) (x : Str) (k : K1) (res : List Node) (par : Node) :
    lt x (kfin esc k :: res, par) = ({ kfin esc k with tail := optStr x } :: res, par) := by
  cases k with
  | code n b => exact lt_code x _ res par
  | em st d β =>
    cases x with
    | nil => simp [lt, linkText, optStr, kfin, emFull, emEl, mkEl]
    | cons c r => simp [lt, linkText, optStr, kfin, emFull, emEl, mkEl, Node.truthy]

theorem foldL1_closed (esc : List Char) (segs : List Seg1) :
    ∀ (res : List Node) (par : Node), foldL1 esc segs (res, par) = ((segs.map (tailed1 esc)).reverse ++ res, par) := by
  induction segs with
  | nil => intro res par; rfl
  | cons s r ih =>
    intro res par
    simp only [foldL1, lt_kfin, ih, List.map_cons, List.reverse_cons, List.append_assoc, List.singleton_append,
      tailed1]

theorem costL1_le (esc : List Char) (segs : List Seg1) :
    ∀ (t : Str) (m m' n0 n1 n2 : Nat),
      costL1 esc t segs ≤ (resid esc m t ++ stageL1 esc 3 m' n0 n1 n2 segs).length + 1 := by
  induction segs with
  | nil =>
    intro t m m' n0 n1 n2
    have := escCount_le_resid esc t m
    simp only [costL1, stageL1, List.append_nil]; omega
  | cons s r ih =>
    intro t m m' n0 n1 n2
    have h1 := escCount_le_resid esc t m
    have h2 := ih s.t (m' + s.k.esc esc) (m' + s.k.esc esc + escCount esc s.t) (n0 + s.k.codes) (s.k.bump 1 n1)
      (s.k.bump 2 n2)
    have h3 := placeholder_length_pos (idx1 n0 n1 n2 s.k)
    simp only [costL1, stageL1, itemL1_3, List.length_append] at h2 ⊢
    omega


/-- no STX in the code of an item -/
def K1.clean : K1 → Prop
  | .code _ b => STX ∉ Code.codeEscape b
  | .em _ _ β => ∀ s ∈ β.spans, STX ∉ Code.codeEscape s.b

theorem lay1_of (esc : List Char) (hs : EscSup esc) (S : List StashItem) (f : Nat) (hf : 0 < f) (segs : List Seg1) :
    ∀ (m n0 n1 n2 : Nat) (rest : List StashItem), CodeLay S n0 segs → EmLay esc S m n0 n1 n2 segs →
      S.drop m = escs1 esc segs ++ rest → Segs1OK segs → (∀ s ∈ segs, s.k.clean) →
      Lay1 esc S (procNode fun d a p i => processPlaceholders S (f + 1) d a p i) m n0 n1 n2 segs := by
  induction segs with
  | nil => intro _ _ _ _ _ _ _ _ _ _; trivial
  | cons s r ih =>
    intro m n0 n1 n2 rest hc he hd hok hcl
    have hd' : S.drop (m + s.k.esc esc + escCount esc s.t) = escs1 esc r ++ rest := by
      have : S.drop (m + s.k.esc esc + escCount esc s.t) = ((S.drop m).drop (s.k.esc esc)).drop (escCount esc s.t) := by
        rw [List.drop_drop, List.drop_drop, Nat.add_assoc]
      rw [this, hd, escs1_cons]
      have e1 : (stashOf esc s.t).length = escCount esc s.t := rfl
      simp only [List.append_assoc]
      rw [← bodyEscs_length esc s.k, List.drop_left, ← e1, List.drop_left]
    refine ⟨?_, ih _ _ _ _ rest hc.2 he.2 hd' (fun x hx => hok x (List.mem_cons_of_mem _ hx))
      (fun x hx => hcl x (List.mem_cons_of_mem _ hx))⟩
    have hk := hok s List.mem_cons_self
    have hc1 := hc.1
    have he1 := he.1
    have hcl1 := hcl s List.mem_cons_self
    cases hkk : s.k with
    | code n b =>
      rw [hkk] at hc1 hcl1
      exact ⟨hc1, procNode_codeSpan S (f + 1) (by omega) _ hcl1⟩
    | em st d β =>
      rw [hkk] at hc1 he1 hk hcl1
      refine ⟨he1, ?_⟩
      have hdb : S.drop m = stashOf esc β.u0 ++ stashOfSegs esc β.spans ++ (stashOf esc s.t ++ escs1 esc r ++ rest) := by
        rw [hd, escs1_cons, hkk]; simp [bodyEscs, List.append_assoc]
      exact procNode_em1 esc hs S f hf st β hk.2 m n0 _ hdb hc1 hcl1

theorem stash1_pos (esc : List Char) (segs : List Seg1) (hne : segs ≠ []) (m n0 : Nat) :
    0 < (codes1 segs).length + (nodes1 1 esc m n0 segs).length + (nodes1 2 esc m n0 segs).length := by
  cases segs with
  | nil => exact absurd rfl hne
  | cons s r =>
    obtain ⟨k, t⟩ := s
    cases k with
    | code n b => simp [codes1]; omega
    | em st d β =>
      by_cases hd : d = '*'
      · simp [nodes1, K1.cls, hd]; omega
      · simp [nodes1, K1.cls, hd]; omega

/-- **`__processPlaceholders`** on the residue of such a line -/
theorem ppTop_L1 (esc : List Char) (hs : EscSup esc) (S0 : List StashItem) (html : List Str)
    (t0 : Str) (segs : List Seg1) (parent : Node) (hp1 : parent.text = none) (hp2 : parent.textAtomic = false)
    (ht0 : STX ∉ t0) (hsegs : ∀ s ∈ segs, STX ∉ s.t) (hok : Segs1OK segs) (hcl : ∀ s ∈ segs, s.k.clean)
    (hne : t0 ≠ [] ∨ segs ≠ []) :
    ppTop { stash := S0 ++ (codes1 segs ++ (stashOf esc t0 ++ escs1 esc segs) ++
              nodes1 1 esc (S0.length + (codes1 segs).length + escCount esc t0) S0.length segs ++
              nodes1 2 esc (S0.length + (codes1 segs).length + escCount esc t0) S0.length segs), html := html }
        (resid esc (S0.length + (codes1 segs).length) t0 ++
          stageL1 esc 3 (S0.length + (codes1 segs).length + escCount esc t0) S0.length
            (S0.length + (codes1 segs).length + escCount esc t0 + (escs1 esc segs).length)
            (S0.length + (codes1 segs).length + escCount esc t0 + (escs1 esc segs).length +
              (nodes1 1 esc (S0.length + (codes1 segs).length + escCount esc t0) S0.length segs).length)
            segs) false parent true =
      some (segs.map (tailed1 esc), { parent with text := optStr (coded esc t0) }) := by
  generalize hm1 : S0.length + (codes1 segs).length + escCount esc t0 = m1
  generalize hN1 : nodes1 1 esc m1 S0.length segs = N1
  generalize hN2 : nodes1 2 esc m1 S0.length segs = N2
  generalize hS : S0 ++ (codes1 segs ++ (stashOf esc t0 ++ escs1 esc segs) ++ N1 ++ N2) = S
  have hlen0 : (stashOf esc t0).length = escCount esc t0 := rfl
  have hdrop : S.drop (S0.length + (codes1 segs).length) =
      stashOf esc t0 ++ escs1 esc segs ++ (N1 ++ N2) := by
    rw [← hS]
    have : S0 ++ (codes1 segs ++ (stashOf esc t0 ++ escs1 esc segs) ++ N1 ++ N2) =
        (S0 ++ codes1 segs) ++ (stashOf esc t0 ++ escs1 esc segs ++ (N1 ++ N2)) := by
      simp [List.append_assoc]
    rw [this, ← List.length_append, List.drop_left]
  have hdrop1 : S.drop m1 = escs1 esc segs ++ (N1 ++ N2) := by
    have : S.drop m1 = (S.drop (S0.length + (codes1 segs).length)).drop (escCount esc t0) := by
      rw [List.drop_drop, hm1]
    rw [this, hdrop, List.append_assoc, ← hlen0, List.drop_left]
  have hcode : CodeLay S S0.length segs := by
    rw [← hS]
    have := codeLay_ok segs S0 ((stashOf esc t0 ++ escs1 esc segs) ++ N1 ++ N2)
    simpa [List.append_assoc] using this
  have hem : EmLay esc S m1 S0.length (m1 + (escs1 esc segs).length) (m1 + (escs1 esc segs).length + N1.length) segs := by
    have := emLay_ok esc segs m1 S0.length (S0 ++ codes1 segs ++ (stashOf esc t0 ++ escs1 esc segs)) [] []
    simp only [hN1, hN2, List.append_nil, List.length_append, List.length_nil, Nat.add_zero] at this
    rw [← hS]
    have e : S0.length + (codes1 segs).length + ((stashOf esc t0).length + (escs1 esc segs).length) =
        m1 + (escs1 esc segs).length := by rw [hlen0, ← hm1]; omega
    rw [e] at this
    simpa [List.append_assoc] using this
  have hlay : Lay1 esc S (procNode fun d a p i => processPlaceholders S (S.length + 1) d a p i) m1 S0.length
      (m1 + (escs1 esc segs).length) (m1 + (escs1 esc segs).length + N1.length) segs := by
    by_cases hseg : segs = []
    · subst hseg; trivial
    · have hpos := stash1_pos esc segs hseg m1 S0.length
      rw [hN1, hN2] at hpos
      have hSl : 0 < S.length := by rw [← hS]; simp only [List.length_append]; omega
      obtain ⟨f, hf⟩ : ∃ f, S.length = f + 1 := ⟨S.length - 1, by omega⟩
      have hf0 : 0 < S.length := hSl
      exact lay1_of esc hs S S.length hf0 segs m1 S0.length _ _ (N1 ++ N2) hcode hem hdrop1 hok hcl
  generalize hRR : resid esc (S0.length + (codes1 segs).length) t0 ++
      stageL1 esc 3 m1 S0.length (m1 + (escs1 esc segs).length) (m1 + (escs1 esc segs).length + N1.length) segs = R
  have hRne : R.isEmpty = false := by
    rw [← hRR]
    rcases hne with h | h
    · cases t0 with
      | nil => exact absurd rfl h
      | cons c r =>
        by_cases hc : c ∈ esc
        · simp only [resid, List.contains_eq_mem, hc, decide_true, if_true]
          cases hx : placeholder (S0.length + (codes1 segs).length) with
          | nil => exact absurd hx (placeholder_ne_nil _)
          | cons a b => simp
        · simp [resid, hc]
    · cases segs with
      | nil => exact absurd rfl h
      | cons s r =>
        simp only [stageL1, itemL1_3]
        generalize idx1 _ _ _ s.k = k
        cases hx : placeholder k with
        | nil => exact absurd hx (placeholder_ne_nil _)
        | cons a b => cases resid esc (S0.length + (codes1 (s :: r)).length) t0 <;> simp
  simp only [ppTop]
  rw [show S.length + 2 = (S.length + 1) + 1 from rfl]
  unfold processPlaceholders
  simp only [hRne, Bool.false_eq_true, if_false]
  have hcost := costL1_le esc segs t0 (S0.length + (codes1 segs).length) m1 S0.length
    (m1 + (escs1 esc segs).length) (m1 + (escs1 esc segs).length + N1.length)
  rw [hRR] at hcost
  obtain ⟨g, hg⟩ : ∃ g, R.length + 2 = g + costL1 esc t0 segs := ⟨R.length + 2 - costL1 esc t0 segs, by omega⟩
  rw [hg]
  have := ppLoop_L1 esc S
    (procNode fun d a p t_1 => processPlaceholders S (S.length + 1) d a p t_1)
    segs [] t0 (S0.length + (codes1 segs).length) S0.length (m1 + (escs1 esc segs).length)
    (m1 + (escs1 esc segs).length + N1.length) ([], parent) g (N1 ++ N2) ht0 hsegs hdrop (by rw [hm1]; exact hlay)
  simp only [List.nil_append, List.length_nil, hm1] at this
  rw [hRR] at this
  rw [this]
  have hlt : lt (coded esc t0) ([], parent) = ([], { parent with text := optStr (coded esc t0) }) := by
    simp only [lt]; exact CodeLaw.linkText_text _ parent hp1 hp2
  rw [hlt, foldL1_closed]
  simp


/-! ### 40. such a line through the inline processor, prettify, unescape and the serializer -/

def l1Src (esc : List Char) (tag : Str) (t0 : Str) (segs : List Seg1) : Node :=
  { tag := .name tag, text := some (escAll esc t0 ++ stageF esc false false 0 0 (flatten1 segs)) }

def l1Mid (esc : List Char) (tag : Str) (t0 : Str) (segs : List Seg1) : Node :=
  { tag := .name tag, text := optStr (coded esc t0), children := segs.map (tailed1 esc) }

theorem tailed1_code (esc : List Char) (n : Nat) (b t : Str) : tailed1 esc ⟨.code n b, t⟩ = tailed esc ⟨n, b, t⟩ := rfl

theorem tailed1_tag_em (esc : List Char) (st : Bool) (d : Char) (β : Body0) (t : Str) :
    (tailed1 esc ⟨.em st d β, t⟩).tag = (emEl st []).tag := rfl

theorem bl_tailed1 (esc : List Char) (s : Seg1) :
    TreeProc.isBlockLevel TreeProc.defaultBlockLevel (tailed1 esc s).tag = false := by
  obtain ⟨k, t⟩ := s
  cases k with
  | code n b => exact bl_code'
  | em st d β => rw [tailed1_tag_em]; exact bl_em _

theorem prettifyKids_tailed1 (esc : List Char) (segs : List Seg1) :
    TreeProc.prettifyKids TreeProc.defaultBlockLevel (segs.map (tailed1 esc)) = segs.map (tailed1 esc) := by
  induction segs with
  | nil => rfl
  | cons s r ih =>
    simp only [List.map_cons, TreeProc.prettifyKids, bl_tailed1 esc s, Bool.false_eq_true, if_false, ih]

theorem mapTree_tailed1 (esc : List Char) (s : Seg1) :
    TreeProc.mapTree TreeProc.preRule (TreeProc.mapTree TreeProc.brRule (tailed1 esc s)) = tailed1 esc s := by
  obtain ⟨k, t⟩ := s
  cases k with
  | code n b =>
    have := mapKids_tailed esc [⟨n, b, t⟩]
    simp only [List.map_cons, List.map_nil, TreeProc.mapKids, List.cons.injEq, and_true] at this
    rw [tailed1_code]; exact this
  | em st d β =>
    have hk := mapKids_tailed esc β.spans
    have e : tailed1 esc ⟨.em st d β, t⟩ =
        ⟨(emEl st []).tag, [], optStr (coded esc β.u0), false, β.spans.map (tailed esc), optStr (coded esc t), false⟩ := rfl
    rw [e]
    have hbr : ∀ n : Node, n.tag = (emEl st []).tag → TreeProc.tagIs n "br" = false := by
      intro n hn; simp only [TreeProc.tagIs, hn]; cases st <;> decide
    have hpre : ∀ n : Node, n.tag = (emEl st []).tag → TreeProc.tagIs n "pre" = false := by
      intro n hn; simp only [TreeProc.tagIs, hn]; cases st <;> decide
    have s1 : ∀ kids : List Node, TreeProc.brRule
        ⟨(emEl st []).tag, [], optStr (coded esc β.u0), false, kids, optStr (coded esc t), false⟩ =
        ⟨(emEl st []).tag, [], optStr (coded esc β.u0), false, kids, optStr (coded esc t), false⟩ := by
      intro kids; unfold TreeProc.brRule
      rw [hbr ⟨(emEl st []).tag, [], optStr (coded esc β.u0), false, kids, optStr (coded esc t), false⟩ rfl]; simp
    have s2 : ∀ kids : List Node, TreeProc.preRule
        ⟨(emEl st []).tag, [], optStr (coded esc β.u0), false, kids, optStr (coded esc t), false⟩ =
        ⟨(emEl st []).tag, [], optStr (coded esc β.u0), false, kids, optStr (coded esc t), false⟩ := by
      intro kids; unfold TreeProc.preRule
      rw [hpre ⟨(emEl st []).tag, [], optStr (coded esc β.u0), false, kids, optStr (coded esc t), false⟩ rfl]; simp
    rw [TreeProc.mapTree, s1, TreeProc.mapTree, s2, hk]

theorem mapKids_tailed1 (esc : List Char) (segs : List Seg1) :
    TreeProc.mapKids TreeProc.preRule (TreeProc.mapKids TreeProc.brRule (segs.map (tailed1 esc))) =
      segs.map (tailed1 esc) := by
  induction segs with
  | nil => rfl
  | cons s r ih => simp only [List.map_cons, TreeProc.mapKids, ih, mapTree_tailed1]

def l1Pretty (esc : List Char) (tag : Str) (t0 : Str) (segs : List Seg1) : Node :=
  { tag := .name tag, text := optStr (coded esc t0), children := segs.map (tailed1 esc), tail := some ['\n'] }

theorem pretty_l1 (esc : List Char) (tag : Str) (htag : textTags.contains tag = true) (t0 : Str)
    (segs : List Seg1) :
    TreeProc.mapTree TreeProc.preRule (TreeProc.mapTree TreeProc.brRule
      (TreeProc.prettifyETree TreeProc.defaultBlockLevel (l1Mid esc tag t0 segs))) =
      l1Pretty esc tag t0 segs := by
  have hf := tagFacts tag (List.mem_cons_of_mem _ (List.contains_iff_mem.1 htag))
  have hbr : (Tag.name tag == Tag.name "br".toList) = false := by simpa using hf.2.2.2.1
  have hpre : (Tag.name tag == Tag.name "pre".toList) = false := by simpa using hf.2.2.1
  have hcode : (Tag.name tag == Tag.name "code".toList) = false := by simpa using hf.2.1
  have h1 : TreeProc.prettifyETree TreeProc.defaultBlockLevel (l1Mid esc tag t0 segs) =
      l1Pretty esc tag t0 segs := by
    cases segs with
    | nil => simp [l1Mid, l1Pretty, TreeProc.prettifyETree, TreeProc.prettifyKids, TreeProc.blankOrNone,
        Node.truthy]
    | cons s r =>
      have hk := prettifyKids_tailed1 esc (s :: r)
      simp only [List.map_cons] at hk
      have hb := bl_tailed1 esc s
      simp only [l1Mid, l1Pretty, TreeProc.prettifyETree, List.map_cons, hb, hk, Bool.and_false,
        Bool.false_eq_true, if_false, hf.1, hcode, hpre, Bool.not_false, Bool.and_self, if_true,
        TreeProc.blankOrNone, Node.truthy, Bool.true_or]
  rw [h1]
  simp only [l1Pretty, TreeProc.mapTree, TreeProc.brRule, TreeProc.preRule, TreeProc.tagIs, hbr, hpre,
    Bool.false_eq_true, if_false, mapKids_tailed1]

/-- the element after unescape -/
def fin1 (s : Seg1) : Node :=
  match s.k with
  | .code _ b => { codeSpan (Code.codeEscape b) with tail := optStr s.t }
  | .em st _ β => { emEl st [] with text := optStr β.u0, children := β.spans.map tailedFin, tail := optStr s.t }

def l1Fin (tag : Str) (t0 : Str) (segs : List Seg1) : Node :=
  { tag := .name tag, text := optStr t0, children := segs.map fin1, tail := some ['\n'] }

theorem unescapeTree_tailed1 (esc : List Char) (s : Seg1) (hs : Inline.STX ∉ s.t)
    (hb : ∀ st d β, s.k = .em st d β → Inline.STX ∉ β.u0 ∧ ∀ x ∈ β.spans, Inline.STX ∉ x.t) :
    TreeProc.unescapeTree (tailed1 esc s) = some (fin1 s) := by
  obtain ⟨k, t⟩ := s
  cases k with
  | code n b => exact unescapeTree_tailed esc ⟨n, b, t⟩ hs
  | em st d β =>
    obtain ⟨h0, hsp⟩ := hb st d β rfl
    have hcode : ((emEl st []).tag == Tag.name "code".toList) = false := em_not_code st
    have h1 := unescOpt_coded esc β.u0 h0
    have h2 := unescOpt_coded esc t hs
    have hk := unescapeKids_tailed esc β.spans hsp
    have e : tailed1 esc ⟨.em st d β, t⟩ =
        ⟨(emEl st []).tag, [], optStr (coded esc β.u0), false, β.spans.map (tailed esc), optStr (coded esc t), false⟩ := rfl
    rw [e]
    simp only [TreeProc.unescapeTree, hcode, Bool.not_false, Bool.and_true, h1, h2, hk, TreeProc.unescAttrs]
    simp [fin1, emEl, mkEl]

theorem unescapeKids_tailed1 (esc : List Char) (segs : List Seg1)
    (hs : ∀ s ∈ segs, Inline.STX ∉ s.t ∧
      ∀ st d β, s.k = .em st d β → Inline.STX ∉ β.u0 ∧ ∀ x ∈ β.spans, Inline.STX ∉ x.t) :
    TreeProc.unescapeKids (segs.map (tailed1 esc)) = some (segs.map fin1) := by
  induction segs with
  | nil => rfl
  | cons s r ih =>
    obtain ⟨h1, h2⟩ := hs s List.mem_cons_self
    simp only [List.map_cons, TreeProc.unescapeKids, unescapeTree_tailed1 esc s h1 h2,
      ih (fun x hx => hs x (List.mem_cons_of_mem _ hx))]

theorem unesc_l1 (esc : List Char) (tag : Str) (htag : textTags.contains tag = true) (t0 : Str)
    (segs : List Seg1) (h0 : Inline.STX ∉ t0)
    (hs : ∀ s ∈ segs, Inline.STX ∉ s.t ∧
      ∀ st d β, s.k = .em st d β → Inline.STX ∉ β.u0 ∧ ∀ x ∈ β.spans, Inline.STX ∉ x.t) :
    TreeProc.unescapeTree (l1Pretty esc tag t0 segs) = some (l1Fin tag t0 segs) := by
  have hf := tagFacts tag (List.mem_cons_of_mem _ (List.contains_iff_mem.1 htag))
  have hcode : (Tag.name tag == Tag.name "code".toList) = false := by simpa using hf.2.1
  have hnl : TreeProc.unescapeText 0 ['\n'] = some ['\n'] := by decide
  have h := unescOpt_coded esc t0 h0
  have t1 : Node.truthy (some ['\n']) = true := rfl
  simp only [l1Pretty, l1Fin, TreeProc.unescapeTree, hcode, Bool.not_false, Bool.and_true, h,
    unescapeKids_tailed1 esc segs hs, TreeProc.unescAttrs, t1, if_true, Option.getD_some, hnl, Option.map_some]
  by_cases ht : Node.truthy (optStr (coded esc t0)) = true <;> simp [ht]

/-- the serialised element of an item -/
def kout1 : K1 → Str
  | .code _ b => "<code>".toList ++ Ser.escCdata (Code.codeEscape b) ++ "</code>".toList
  | .em st _ β => '<' :: emTagS st ++ ['>'] ++ (Ser.escCdata β.u0 ++ outSegs β.spans) ++ ('<' :: '/' :: emTagS st ++ ['>'])

theorem kout1_code (n : Nat) (b : Str) :
    kout1 (.code n b) = "<code>".toList ++ Ser.escCdata (Code.codeEscape b) ++ "</code>".toList := rfl
theorem kout1_em (st : Bool) (d : Char) (β : Body0) :
    kout1 (.em st d β) =
      '<' :: emTagS st ++ ['>'] ++ (Ser.escCdata β.u0 ++ outSegs β.spans) ++ ('<' :: '/' :: emTagS st ++ ['>']) := rfl

def out1 : List Seg1 → Str
  | [] => []
  | s :: r => kout1 s.k ++ Ser.escCdata s.t ++ out1 r

theorem out1_cons (s : Seg1) (r : List Seg1) : out1 (s :: r) = kout1 s.k ++ Ser.escCdata s.t ++ out1 r := rfl

def l1Out (tag : Str) (t0 : Str) (segs : List Seg1) : Str :=
  '<' :: tag ++ ['>'] ++ Ser.escCdata t0 ++ out1 segs ++ ('<' :: '/' :: tag ++ ['>'])

theorem serialize_fin1 (s : Seg1) : Ser.serialize .xhtml (fin1 s) = kout1 s.k ++ Ser.escCdata s.t := by
  obtain ⟨k, t⟩ := s
  cases k with
  | code n b => exact serialize_tailedFin ⟨n, b, t⟩
  | em st d β =>
    have e : fin1 ⟨.em st d β, t⟩ =
        ⟨.name (emTagS st), [], optStr β.u0, false, β.spans.map tailedFin, optStr t, false⟩ := by
      cases st <;> rfl
    have h1 : Ser.isEmptyTag (emTagS st) = false := by cases st <;> decide
    have h2 : Ser.isRawTextTag (emTagS st) = false := by cases st <;> decide
    rw [e, serialize_plain _ _ _ _ _ _ _ h1 h2, kout1_em]
    simp only [serializeList_tailed, optEsc]
    simp [List.append_assoc]

theorem serializeList_fin1 (segs : List Seg1) : Ser.serializeList .xhtml (segs.map fin1) = out1 segs := by
  induction segs with
  | nil => rfl
  | cons s r ih => rw [List.map_cons, serializeList_cons, ih, serialize_fin1, out1_cons]

theorem ser_l1 (tag : Str) (htag : textTags.contains tag = true) (t0 : Str) (segs : List Seg1) :
    Ser.serialize .xhtml (l1Fin tag t0 segs) = l1Out tag t0 segs ++ ['\n'] := by
  have hf := tagFacts tag (List.mem_cons_of_mem _ (List.contains_iff_mem.1 htag))
  have hnot : tag ≠ "hr".toList := by
    intro e
    have : textTags.contains "hr".toList = false := by decide
    rw [← e, htag] at this; cases this
  have he : Ser.isEmptyTag tag = false := by rw [hf.2.2.2.2.2.1]; simpa using hnot
  have e7 : Ser.escCdata ['\n'] = ['\n'] := by decide
  have t1 : Node.truthy (some ['\n']) = true := rfl
  simp only [l1Fin]
  rw [serialize_plain _ _ _ _ _ _ _ he hf.2.2.2.2.1]
  simp only [serializeList_fin1, optEsc, t1, if_true, Option.getD_some, e7, l1Out]
  simp [List.append_assoc]


/-! #### the inline processor visits the children of an emphasis again: nothing happens -/

theorem find_phPrefix_escCode (c : Char) (X : Str) (h : find phPrefix X = none) :
    find phPrefix (escCode c ++ X) = none := by
  have hd : ∀ x ∈ natToDec c.toNat ++ [Inline.ETX], x ≠ Inline.STX := by
    intro x hx
    rcases List.mem_append.1 hx with hx | hx
    · have := natToDec_digits c.toNat x hx
      intro e; subst e; exact absurd this (by decide)
    · have : x = Inline.ETX := by simpa using hx
      subst this; decide
  have hrest : find phPrefix ((natToDec c.toNat ++ [Inline.ETX]) ++ X) = none :=
    find_append_none Inline.STX _ _ _ hd h
  have e : escCode c ++ X = Inline.STX :: ((natToDec c.toNat ++ [Inline.ETX]) ++ X) := by
    simp [escCode, List.append_assoc]
  rw [e]
  show find (Inline.STX :: "klzzwxh:".toList) _ = none
  rw [find_cons_none_iff]
  refine ⟨?_, hrest⟩
  have hne := natToDec_ne_nil c.toNat
  cases hx : natToDec c.toNat with
  | nil => exact absurd hx hne
  | cons a b =>
    have ha := natToDec_digits c.toNat a (by rw [hx]; simp)
    have : a ≠ 'k' := by intro e; subst e; exact absurd ha (by decide)
    simp [startsWith, this]

theorem find_phPrefix_coded (esc : List Char) (t : Str) (h : Inline.STX ∉ t) : find phPrefix (coded esc t) = none := by
  induction t with
  | nil => simp [coded, phPrefix]
  | cons c r ih =>
    have ihr := ih (fun hm => h (List.mem_cons_of_mem _ hm))
    by_cases hc : c ∈ esc
    · simp only [coded, List.contains_eq_mem, hc, decide_true, if_true]
      exact find_phPrefix_escCode c _ ihr
    · simp only [coded, List.contains_eq_mem, hc, decide_false, Bool.false_eq_true, if_false]
      have hcs : c ≠ Inline.STX := fun e => h (e ▸ List.mem_cons_self)
      exact find_append_none Inline.STX _ [c] _ (fun x hx => by
        have : x = c := by simpa using hx
        subst this; exact hcs) ihr

theorem quiet_coded {esc : List Char} (hs : EscSup esc) (t : Str) (ht : ∀ x ∈ t, plainCh x) : Quiet (coded esc t) := by
  induction t with
  | nil => intro c hc; simp [coded] at hc
  | cons a r ih =>
    have ihr := ih (fun x hx => ht x (List.mem_cons_of_mem _ hx))
    intro c hc
    by_cases ha : a ∈ esc
    · simp only [coded, List.contains_eq_mem, ha, decide_true, if_true, List.mem_append] at hc
      rcases hc with hc | hc
      · simp only [escCode, List.mem_cons, List.mem_append, List.not_mem_nil, or_false] at hc
        rcases hc with (rfl | hc) | rfl
        · decide
        · have := natToDec_digits a.toNat c hc
          refine ⟨?_, ?_, ?_, ?_, ?_, ?_, ?_⟩ <;> (intro e; subst e; exact absurd this (by decide))
        · decide
      · exact ihr c hc
    · simp only [coded, List.contains_eq_mem, ha, decide_false, Bool.false_eq_true, if_false, List.mem_cons] at hc
      rcases hc with rfl | hc
      · rcases ht c List.mem_cons_self with h | h
        · have := wordCh_facts h
          exact ⟨this.2.2.1, this.2.2.2.1, this.2.2.2.2.1, this.2.2.2.2.2.2.2.1, this.2.2.2.2.2.2.1, this.1, this.2.1⟩
        · exact absurd (hs c h) ha
      · exact ihr c hc

/-- `__processPlaceholders` on a tail in which no placeholder is found -/
theorem ppTop_tail_nofind (st : St) (data : Str) (hne : data ≠ []) (hs : find phPrefix data = none) :
    ppTop st data false (mkEl "d") false = some ([], { mkEl "d" with tail := some data, tailAtomic := false }) := by
  obtain ⟨c, r, rfl⟩ : ∃ c r, data = c :: r := by cases data <;> simp_all
  unfold ppTop
  rw [show st.stash.length + 2 = (st.stash.length + 1) + 1 from rfl]
  unfold processPlaceholders
  simp only [List.isEmpty_cons, Bool.false_eq_true, if_false, List.length_cons]
  rw [show r.length + 1 + 2 = (r.length + 2) + 1 from rfl]
  unfold ppLoop
  simp only [List.drop_zero, hs]
  simp [linkText, Node.truthy, mkEl]

/-- a code element with a tail in which nothing is left to do -/
theorem still_codeTail (cfg : Inline.Cfg) (x tl : Str) (hq : Quiet tl) (hf : find phPrefix tl = none) :
    Still cfg { codeSpan x with tail := optStr tl } := by
  intro v
  have t0 : Node.truthy none = false := rfl
  cases tl with
  | nil =>
    unfold visitChild
    simp [codeSpan, Node.el, optStr, t0]
  | cons a b =>
    have h1 := handleInlineTop_quiet cfg (a :: b) v.st hq
    have h2 := ppTop_tail_nofind v.st (a :: b) (by simp) hf
    have htr : Node.truthy (some (a :: b)) = true := rfl
    unfold visitChild
    simp [codeSpan, Node.el, optStr, htr, h1, h2]

theorem still_tailed {cfg : Inline.Cfg} (hs : EscSup cfg.esc) (s : SpanSeg) (ht : ∀ x ∈ s.t, plainCh x) :
    Still cfg (tailed cfg.esc s) :=
  still_codeTail cfg _ _ (quiet_coded hs s.t ht)
    (find_phPrefix_coded cfg.esc s.t (fun hm => (plainCh_facts (ht _ hm)).2.2.2.2 rfl))


/-- what the inline stage adds to a stash of `n` entries -/
def l1Items (esc : List Char) (t0 : Str) (segs : List Seg1) (n : Nat) : List StashItem :=
  codes1 segs ++ (stashOf esc t0 ++ escs1 esc segs) ++
    nodes1 1 esc (n + (codes1 segs).length + escCount esc t0) n segs ++
    nodes1 2 esc (n + (codes1 segs).length + escCount esc t0) n segs

/-- what the stages need of such a line -/
structure L1TxtOK (esc : List Char) (tag t0 : Str) (segs : List Seg1) : Prop where
  htag : textTags.contains tag = true
  ok : Segs1OK segs
  flat : FSegsOK (flatten1 segs)
  junctions : junctionsF t0 false (flatten1 segs)
  under : UnderOK1 esc (lastW esc t0) segs
  plain : ∀ c, (c ∈ t0 ∨ ∃ s ∈ segs, c ∈ s.t) → c ≠ '&' ∧ c ≠ '\n' ∧ c ≠ Inline.STX
  clean : ∀ s ∈ segs, s.k.clean
  ne : t0 ≠ [] ∨ segs ≠ []

theorem stageF_raw_ne (esc : List Char) (segs : List Seg1) (hF : FSegsOK (flatten1 segs)) (hne : segs ≠ []) :
    stageF esc false false 0 0 (flatten1 segs) ≠ [] := by
  have h1 := stageF_length esc (flatten1 segs) hF 0 0
  have h2 := flatten1_length segs
  intro e
  rw [e] at h1
  cases segs with
  | nil => exact hne rfl
  | cons s r =>
    simp only [List.length_nil, List.length_cons] at h1 h2
    omega

theorem visitChild_L1 (cfg : Inline.Cfg) (hE : EscOK cfg.esc) (hs : EscSup cfg.esc) (tag t0 : Str) (segs : List Seg1)
    (h : L1TxtOK cfg.esc tag t0 segs) (v : Visit) :
    visitChild cfg (l1Src cfg.esc tag t0 segs) v =
      some (l1Mid cfg.esc tag t0 segs, [],
        { v with pushes := ((List.range segs.length).map (fun k => [v.done.length, k])).reverse ++ v.pushes,
                 st := { v.st with stash := v.st.stash ++ l1Items cfg.esc t0 segs v.st.stash.length } }) := by
  have hraw : escAll cfg.esc t0 ++ stageF cfg.esc false false 0 0 (flatten1 segs) ≠ [] := by
    rcases h.ne with h' | h'
    · have := escAll_ne_nil (esc := cfg.esc) h'
      cases hx : escAll cfg.esc t0 with
      | nil => exact absurd hx this
      | cons a b => simp
    · intro e
      exact stageF_raw_ne cfg.esc segs h.flat h' (List.append_eq_nil_iff.1 e).2
  obtain ⟨hc1, hc2⟩ := flat_codes_escs cfg.esc segs
  have hlenE : escCountF cfg.esc (flatten1 segs) = (escs1 cfg.esc segs).length := by
    rw [← stashOfF_length, hc2]
  have h1 := handleInlineTop_L1 cfg hE hs t0 segs v.st h.ok h.flat h.junctions h.under
    (fun c hc => ⟨(h.plain c hc).1, (h.plain c hc).2.1⟩)
  rw [hc1, hc2, hlenE] at h1
  have h2 := ppTop_L1 cfg.esc hs v.st.stash v.st.html t0 segs
    { tag := .name tag } rfl rfl (fun hm => (h.plain _ (Or.inl hm)).2.2 rfl)
    (fun s hs' hm => (h.plain _ (Or.inr ⟨s, hs', hm⟩)).2.2 rfl) h.ok h.clean h.ne
  simp only [l1Src, visitChild, truthy_some hraw, Bool.not_false, Bool.and_self, if_true, Option.getD_some, h1]
  rw [h2]
  simp [l1Mid, l1Items, Node.truthy]

/-- a `p`/`h1`–`h6` element of such a line, through the stages -/
def l1Elem (esc : List Char) (tag t0 : Str) (segs : List Seg1) : Elem :=
  ⟨l1Src esc tag t0 segs, l1Mid esc tag t0 segs, l1Items esc t0 segs,
   fun i => ((List.range segs.length).map (fun k => [i, k])).reverse,
   l1Pretty esc tag t0 segs, l1Fin tag t0 segs, l1Out tag t0 segs⟩

theorem kfin_children (esc : List Char) (k : K1) :
    (kfin esc k).children = match k with | .code _ _ => [] | .em _ _ β => β.spans.map (tailed esc) := by
  cases k <;> rfl

theorem body_plain_of_ok {k : K1} (h : K1OK k) :
    ∀ st d β, k = .em st d β → ∀ c, (c ∈ β.u0 ∨ ∃ s ∈ β.spans, c ∈ s.t) → plainCh c := by
  intro st d β hk c hc
  subst hk
  exact h.2.plain c hc

theorem stx_not_mem_kout1 (k : K1) (hk : K1OK k) (hcl : k.clean) : Post.STX ∉ kout1 k := by
  cases k with
  | code n b =>
    intro hm
    have hm' : Post.STX ∈ "<code>".toList ++ Ser.escCdata (Code.codeEscape b) ++ "</code>".toList := hm
    rcases List.mem_append.1 hm' with h | h
    · rcases List.mem_append.1 h with h | h
      · revert h; decide
      · exact stx_not_mem_escCdata _ hcl h
    · revert h; decide
  | em st d β =>
    intro hm
    have htag : Post.STX ∉ emTagS st := by cases st <;> decide
    have d1 : Post.STX ≠ '<' := by decide
    have d2 : Post.STX ≠ '>' := by decide
    have d3 : Post.STX ≠ '/' := by decide
    have hu : Post.STX ∉ Ser.escCdata β.u0 :=
      stx_not_mem_escCdata _ (fun hm => (plainCh_facts (hk.2.plain _ (Or.inl hm))).2.2.2.2 rfl)
    have hsp : Post.STX ∉ outSegs β.spans := stx_not_mem_outSegs β.spans
      (fun s hs => ⟨fun hm => (plainCh_facts (hk.2.plain _ (Or.inr ⟨s, hs, hm⟩))).2.2.2.2 rfl, hcl s hs⟩)
    have hm' : Post.STX ∈ '<' :: emTagS st ++ ['>'] ++ (Ser.escCdata β.u0 ++ outSegs β.spans) ++
        ('<' :: '/' :: emTagS st ++ ['>']) := hm
    simp only [List.mem_append, List.mem_cons, List.not_mem_nil, d1, d2, d3, htag, hu, hsp, or_self] at hm'

theorem stx_not_mem_out1 (segs : List Seg1) (hok : Segs1OK segs) (hcl : ∀ s ∈ segs, s.k.clean)
    (ht : ∀ s ∈ segs, Post.STX ∉ s.t) : Post.STX ∉ out1 segs := by
  induction segs with
  | nil => intro hm; cases hm
  | cons s r ih =>
    intro hm
    rw [out1_cons] at hm
    simp only [List.mem_append] at hm
    rcases hm with (hm | hm) | hm
    · exact stx_not_mem_kout1 s.k (hok s List.mem_cons_self) (hcl s List.mem_cons_self) hm
    · exact stx_not_mem_escCdata _ (ht s List.mem_cons_self) hm
    · exact ih (fun x hx => hok x (List.mem_cons_of_mem _ hx)) (fun x hx => hcl x (List.mem_cons_of_mem _ hx))
        (fun x hx => ht x (List.mem_cons_of_mem _ hx)) hm

theorem spansF_length (x t : Str) (sp : List SpanSeg) : (spansF x t sp).length = sp.length + 1 := by
  induction sp with
  | nil => simp [spansF]
  | cons a b ih => simp only [spansF, List.length_cons, ih]

theorem kids_le_flatten1 (esc : List Char) (segs : List Seg1) (s : Seg1) (hs : s ∈ segs) :
    (tailed1 esc s).children.length ≤ (flatten1 segs).length := by
  induction segs with
  | nil => cases hs
  | cons x r ih =>
    have hx : (tailed1 esc x).children.length + 1 ≤ (flatten1 (x :: r)).length - (flatten1 r).length ∧
        (flatten1 r).length ≤ (flatten1 (x :: r)).length := by
      obtain ⟨kx, tx⟩ := x
      cases kx with
      | code n b => simp [flatten1, tailed1, kfin, codeSpan, Node.el]
      | em st d β =>
        simp only [flatten1, List.length_cons, List.length_append, spansF_length, tailed1, kfin, emFull,
          List.length_map]
        omega
    rcases List.mem_cons.1 hs with e | e
    · subst e; omega
    · have := ih e; omega

theorem below_tailed1 (esc : List Char) (s : Seg1) : below (tailed1 esc s) = (tailed1 esc s).children.length := by
  rw [below_eq]
  obtain ⟨k, t⟩ := s
  cases k with
  | code n b => rfl
  | em st d β =>
    have : (tailed1 esc ⟨.em st d β, t⟩).children = β.spans.map (tailed esc) := rfl
    rw [this]
    induction β.spans with
    | nil => rfl
    | cons a b ih =>
      have ha : below (tailed esc a) = 0 := by rw [below_eq]; rfl
      simp only [List.map_cons, belowKids, ha, ih, List.length_cons]
      omega

theorem weight_flatten1 (esc : List Char) (segs : List Seg1) :
    ((segs.map (tailed1 esc)).map (fun c => 1 + below c)).sum ≤ (flatten1 segs).length := by
  induction segs with
  | nil => simp [flatten1]
  | cons x r ih =>
    have hb := below_tailed1 esc x
    obtain ⟨kx, tx⟩ := x
    cases kx with
    | code n b =>
      simp only [List.map_cons, List.sum_cons, flatten1, List.length_cons, hb]
      have : (tailed1 esc ⟨.code n b, tx⟩).children.length = 0 := rfl
      omega
    | em st d β =>
      have : (tailed1 esc ⟨.em st d β, tx⟩).children.length = β.spans.length := by
        simp [tailed1, kfin, emFull]
      simp only [List.map_cons, List.sum_cons, flatten1, List.length_cons, List.length_append, spansF_length, hb, this]
      omega

theorem l1Elem_ok (cfg : Inline.Cfg) (hE : EscOK cfg.esc) (hs : EscSup cfg.esc) (tag t0 : Str) (segs : List Seg1)
    (h : L1TxtOK cfg.esc tag t0 segs) : ElemOK cfg (l1Elem cfg.esc tag t0 segs) where
  visit := fun v => visitChild_L1 cfg hE hs tag t0 segs h v
  pushBound := fun i => by
    have h1 := stageF_length cfg.esc (flatten1 segs) h.flat 0 0
    have h2 := flatten1_length segs
    simp only [l1Elem, List.length_reverse, List.length_map, List.length_range, l1Src, Inline.size,
      Option.getD_some, List.length_append, Inline.sizeList]
    omega
  weight := fun i => by
    have h1 := stageF_length cfg.esc (flatten1 segs) h.flat 0 0
    have h2 := weight_flatten1 cfg.esc segs
    have hw := mStack_range_all (l1Mid cfg.esc tag t0 segs) i
    have e1 : (l1Mid cfg.esc tag t0 segs).children = segs.map (tailed1 cfg.esc) := rfl
    rw [e1, List.length_map] at hw
    show mStack (l1Mid cfg.esc tag t0 segs) _ ≤ _
    simp only [l1Elem]
    rw [hw]
    simp only [l1Src, Inline.size, Option.getD_some, List.length_append, Inline.sizeList]
    omega
  pushOk := fun i q hq => by
    simp only [l1Elem, List.mem_reverse, List.mem_map, List.mem_range] at hq
    obtain ⟨k, hk, rfl⟩ := hq
    obtain ⟨s, hs'⟩ : ∃ s, segs[k]? = some s := by
      cases hx : segs[k]? with
      | none => rw [List.getElem?_eq_none_iff] at hx; omega
      | some s => exact ⟨s, rfl⟩
    have hsm : s ∈ segs := List.mem_of_getElem? hs'
    refine ⟨[k], tailed1 cfg.esc s, rfl, ?_, stillBelow_of_childless cfg _ _ ?_ ?_⟩
    · simp [l1Elem, l1Mid, getAt, hs']
    · have h1 := stageF_length cfg.esc (flatten1 segs) h.flat 0 0
      have hkids := kids_le_flatten1 cfg.esc segs s hsm
      simp only [l1Elem, l1Src, Inline.size, Option.getD_some, List.length_append, Inline.sizeList]
      omega
    · intro c hc
      obtain ⟨kk, t⟩ := s
      cases kk with
      | code n b => simp [tailed1, kfin, codeSpan, Node.el] at hc
      | em st d β =>
        have hc' : c ∈ β.spans.map (tailed cfg.esc) := hc
        obtain ⟨sp, hsp, rfl⟩ := List.mem_map.1 hc'
        have hk1 := h.ok _ hsm
        exact ⟨still_tailed hs sp (fun x hx => hk1.2.plain x (Or.inr ⟨sp, hsp, hx⟩)), rfl⟩
  block := (tagFacts tag (List.mem_cons_of_mem _ (List.contains_iff_mem.1 h.htag))).1
  pretty := pretty_l1 cfg.esc tag h.htag t0 segs
  unesc := unesc_l1 cfg.esc tag h.htag t0 segs (fun hm => (h.plain _ (Or.inl hm)).2.2 rfl)
    (fun s hs' => ⟨fun hm => (h.plain _ (Or.inr ⟨s, hs', hm⟩)).2.2 rfl, fun st d β hk =>
      ⟨fun hm => (plainCh_facts (body_plain_of_ok (h.ok s hs') st d β hk _ (Or.inl hm))).2.2.2.2 rfl,
       fun x hx hm => (plainCh_facts (body_plain_of_ok (h.ok s hs') st d β hk _ (Or.inr ⟨x, hx, hm⟩))).2.2.2.2 rfl⟩⟩)
  ser := ser_l1 tag h.htag t0 segs
  outOk := by
    have hf := tagFacts tag (List.mem_cons_of_mem _ (List.contains_iff_mem.1 h.htag))
    refine ⟨?_, rfl, ?_⟩
    · intro hm
      simp only [l1Elem, l1Out, List.mem_append, List.mem_cons] at hm
      have d1 : Post.STX ≠ '<' := by decide
      have d2 : Post.STX ≠ '>' := by decide
      have d3 : Post.STX ≠ '/' := by decide
      have h7 := hf.2.2.2.2.2.2
      have hE0 : Post.STX ∉ Ser.escCdata t0 :=
        stx_not_mem_escCdata _ (fun hm' => (h.plain _ (Or.inl hm')).2.2 rfl)
      have hEs : Post.STX ∉ out1 segs := stx_not_mem_out1 segs h.ok h.clean
        (fun s hs' hm' => (h.plain _ (Or.inr ⟨s, hs', hm'⟩)).2.2 rfl)
      rcases hm with (((h' | h' | h') | h') | h') | (h' | h' | h' | h') <;> simp_all
    · have e : (l1Elem cfg.esc tag t0 segs).out =
          ('<' :: tag ++ ['>'] ++ Ser.escCdata t0 ++ out1 segs ++ ('<' :: '/' :: tag)) ++ ['>'] := by
        simp [l1Elem, l1Out]
      rw [e, List.getLast?_append]; rfl


/-! ### 41. the block parser on a line given by its flat view -/

def FKind.src : FKind → Str
  | .code n b => spanSrc n b
  | .junk x => x

/-- the source of a flat line -/
def rawF (esc : List Char) : List FSeg → Str
  | [] => []
  | s :: r => s.k.src ++ (escAll esc s.t ++ rawF esc r)

theorem stageF_raw (esc : List Char) (F : List FSeg) : ∀ m n0, stageF esc false false m n0 F = rawF esc F := by
  induction F with
  | nil => intro _ _; rfl
  | cons s r ih =>
    intro m n0
    cases hk : s.k <;> simp [stageF, rawF, itemF, FKind.src, hk, ih]

def lastTextF (t0 : Str) (F : List FSeg) : Str := (F.getLast?.map (·.t)).getD t0

structure FLineOK (esc : List Char) (t0 : Str) (F : List FSeg) : Prop where
  nl0 : '\n' ∉ t0
  nls : ∀ s ∈ F, '\n' ∉ s.t ∧ '\n' ∉ s.k.src
  ne : t0 ≠ [] ∨ F ≠ []
  first : t0 ≠ [] → startsVisible t0 = true
  start : t0 = [] → (∃ n b t r, F = ⟨.code n b, t⟩ :: r) ∨ EmStart (rawF esc F)
  lastv : ∀ z, (lastTextF t0 F).getLast? = some z → isSpace z = false
  ok : FSegsOK F
  junk : ∀ s ∈ F, ∀ x, s.k = .junk x →
    (∀ z, x.getLast? = some z → isSpace z = false ∧ z ≠ '#' ∧ z ≠ '\\') ∧
    (∀ c, x.head? = some c → isSpace c = false ∧ isDecimal c = false ∧ c ≠ '.')

theorem lastTextF_cons (t0 : Str) (s : FSeg) (r : List FSeg) : lastTextF t0 (s :: r) = lastTextF s.t r := by
  cases r with
  | nil => rfl
  | cons a b =>
    simp only [lastTextF, List.getLast?_cons_cons]
    cases h : (a :: b).getLast? with
    | none => exact absurd (List.getLast?_eq_none_iff.1 h) (by simp)
    | some x => rfl

theorem fsrc_ends (k : FKind) (hk : FKindOK k)
    (hj : ∀ x, k = .junk x → ∀ z, x.getLast? = some z → isSpace z = false ∧ z ≠ '#' ∧ z ≠ '\\') :
    ∃ z, k.src.getLast? = some z ∧ isSpace z = false ∧ z ≠ '#' ∧ z ≠ '\\' := by
  cases k with
  | code n b =>
    obtain ⟨⟨j, hj'⟩, _⟩ := hk
    exact ⟨'`', by rw [FKind.src, hj', spanSrc_last], by decide, by decide, by decide⟩
  | junk x =>
    obtain ⟨z, hz⟩ : ∃ z, x.getLast? = some z := by
      cases hg : x.getLast? with
      | none => exact absurd (List.getLast?_eq_none_iff.1 hg) hk.2
      | some z => exact ⟨z, rfl⟩
    exact ⟨z, hz, hj x rfl z hz⟩

theorem flat_raw_last (esc : List Char) (F : List FSeg) :
    ∀ (t0 : Str), FSegsOK F →
      (∀ s ∈ F, ∀ x, s.k = .junk x → ∀ z, x.getLast? = some z → isSpace z = false ∧ z ≠ '#' ∧ z ≠ '\\') →
      (∀ z, (lastTextF t0 F).getLast? = some z → isSpace z = false) →
      ∀ d, (escAll esc t0 ++ rawF esc F).getLast? = some d → isSpace d = false := by
  induction F with
  | nil =>
    intro t0 _ _ hl d hd
    simp only [rawF, List.append_nil] at hd
    cases t0 with
    | nil => simp [escAll] at hd
    | cons c r =>
      rw [getLast_escAll esc (c :: r) (by simp)] at hd
      exact hl d (by simpa [lastTextF] using hd)
  | cons s r ih =>
    intro t0 hn hj hl d hd
    obtain ⟨z, hz, hzs, _, _⟩ := fsrc_ends s.k (hn s List.mem_cons_self) (hj s List.mem_cons_self)
    have hsne : s.k.src ≠ [] := by intro e; rw [e] at hz; simp at hz
    simp only [rawF] at hd
    rw [List.getLast?_append] at hd
    have hT : (s.k.src ++ (escAll esc s.t ++ rawF esc r)).getLast? ≠ none := by
      intro e; rw [List.getLast?_eq_none_iff] at e
      exact hsne (List.append_eq_nil_iff.1 e).1
    cases hx : (s.k.src ++ (escAll esc s.t ++ rawF esc r)).getLast? with
    | none => exact absurd hx hT
    | some x =>
      rw [hx] at hd
      simp only [Option.some_or, Option.some.injEq] at hd
      subst hd
      rw [List.getLast?_append] at hx
      cases hy : (escAll esc s.t ++ rawF esc r).getLast? with
      | none =>
        rw [hy, hz] at hx
        simp at hx; subst hx; exact hzs
      | some y =>
        rw [hy] at hx
        simp only [Option.some_or, Option.some.injEq] at hx
        subst hx
        have hl' : ∀ z, (lastTextF s.t r).getLast? = some z → isSpace z = false := by
          intro z hz
          apply hl z
          rw [lastTextF_cons]; exact hz
        exact ih s.t (fun x hx => hn x (List.mem_cons_of_mem _ hx)) (fun x hx => hj x (List.mem_cons_of_mem _ hx)) hl' y hy

theorem walk_fsrc (k : FKind) (hk : FKindOK k)
    (hj : ∀ x, k = .junk x → ∀ z, x.getLast? = some z → isSpace z = false ∧ z ≠ '#' ∧ z ≠ '\\')
    (hnl : '\n' ∉ k.src) : Walk k.src := by
  obtain ⟨z, hz, _, h1, h2⟩ := fsrc_ends k hk hj
  apply hashHeader_walk _ _ (Nat.le_refl _) (by intro e; rw [e] at hz; simp at hz) hnl
  intro z' hz'
  rw [hz] at hz'
  have : z = z' := by simpa using hz'
  subst this; exact ⟨h1, h2⟩

theorem walk_rawF {esc : List Char} (hE : EscOK esc) (F : List FSeg)
    (h : ∀ s ∈ F, FKindOK s.k ∧ '\n' ∉ s.k.src ∧ '\n' ∉ s.t ∧
      ∀ x, s.k = .junk x → ∀ z, x.getLast? = some z → isSpace z = false ∧ z ≠ '#' ∧ z ≠ '\\') : Walk (rawF esc F) := by
  induction F with
  | nil => exact walk_nil
  | cons s r ih =>
    obtain ⟨h1, h2, h3, h4⟩ := h s List.mem_cons_self
    simp only [rawF]
    exact walk_append (walk_fsrc s.k h1 h4 h2)
      (walk_append (walk_escAll hE s.t h3) (ih (fun x hx => h x (List.mem_cons_of_mem _ hx))))

theorem mem_rawF {esc : List Char} {F : List FSeg} {c : Char} (h : c ∈ rawF esc F) :
    ∃ s ∈ F, c ∈ s.k.src ∨ c ∈ escAll esc s.t := by
  induction F with
  | nil => simp [rawF] at h
  | cons s r ih =>
    simp only [rawF, List.mem_append] at h
    rcases h with h | h | h
    · exact ⟨s, List.mem_cons_self, Or.inl h⟩
    · exact ⟨s, List.mem_cons_self, Or.inr h⟩
    · obtain ⟨x, hx, hc⟩ := ih h
      exact ⟨x, List.mem_cons_of_mem _ hx, hc⟩

theorem rawOK_flat {esc : List Char} (hE : EscOK esc) (t0 : Str) (F : List FSeg) (h : FLineOK esc t0 F) :
    RawOK (escAll esc t0 ++ rawF esc F) where
  shape := by
    cases t0 with
    | nil =>
      rcases h.start rfl with ⟨n, b, t, r, hF⟩ | hem
      · have hs := h.ok ⟨.code n b, t⟩ (by rw [hF]; simp)
        obtain ⟨⟨j, hj⟩, _⟩ := hs
        refine ⟨'`', ticks j ++ (padded b ++ ticks n) ++ (escAll esc t ++ rawF esc r), ?_, by decide, Or.inl (by decide)⟩
        simp [escAll, hF, rawF, FKind.src, spanSrc, hj, ticks, List.replicate_succ, List.append_assoc]
      · simp only [escAll, List.nil_append]
        obtain ⟨d, m, x, tl, he, hd, h1, h2, hx1, hx2⟩ := hem
        obtain ⟨m', rfl⟩ : ∃ m', m = m' + 1 := ⟨m - 1, by omega⟩
        refine ⟨d, List.replicate m' d ++ x :: tl, by rw [he]; simp [List.replicate_succ], ?_,
          Or.inr ⟨d, m' + 1, x, tl, he, hd, h1, h2, hx1, hx2⟩⟩
        rcases hd with e | e <;> rw [e] <;> decide
    | cons c r =>
      have hv := h.first (by simp)
      have hcs : isSpace c = false := by simpa [startsVisible] using hv
      by_cases hc : c ∈ esc
      · refine ⟨'\\', c :: escAll esc r ++ rawF esc F, by rw [escAll_cons_mem hc]; rfl, by decide,
          Or.inl (by decide)⟩
      · exact ⟨c, escAll esc r ++ rawF esc F, by rw [escAll_cons_not_mem hc]; rfl, hcs,
          Or.inl (lineEsc_sub hE hc)⟩
  nl := by
    intro hm
    rcases List.mem_append.1 hm with hm | hm
    · rcases mem_escAll hm with e | hm
      · exact absurd e (by decide)
      · exact h.nl0 hm
    · obtain ⟨s, hs, hc⟩ := mem_rawF hm
      rcases hc with hc | hc
      · exact (h.nls s hs).2 hc
      · rcases mem_escAll hc with e | hc
        · exact absurd e (by decide)
        · exact (h.nls s hs).1 hc
  last := flat_raw_last esc F t0 h.ok (fun s hs x hk => (h.junk s hs x hk).1) h.lastv
  ol := by
    apply olMarker_none_of
    apply no_dot_after_digits hE.dot
    intro c hc
    cases hF : F with
    | nil => rw [hF] at hc; simp [rawF] at hc
    | cons s r =>
      rw [hF] at hc
      have hs := h.ok s (by rw [hF]; simp)
      cases hk : s.k with
      | code n b =>
        rw [hk] at hs
        obtain ⟨⟨j, hj⟩, _⟩ := hs
        simp [rawF, hk, FKind.src, spanSrc, hj, ticks, List.replicate_succ] at hc
        subst hc; exact ⟨by decide, by decide⟩
      | junk x =>
        rw [hk] at hs
        have hj := (h.junk s (by rw [hF]; simp) x hk).2
        cases x with
        | nil => exact absurd rfl hs.2
        | cons a x' =>
          simp [rawF, hk, FKind.src] at hc
          subst hc
          have := hj a rfl
          exact ⟨this.2.1, this.2.2⟩
  walk := walk_append (walk_escAll hE t0 h.nl0)
    (walk_rawF hE F (fun s hs => ⟨h.ok s hs, (h.nls s hs).2, (h.nls s hs).1, fun x hk => (h.junk s hs x hk).1⟩))


/-! ### 42. such a paragraph or heading as a piece -/

def l1Piece (esc : List Char) (g : List Str) (tag t0 : Str) (segs : List Seg1) : Piece2 :=
  ⟨chunkB g (l1Src esc tag t0 segs), l1Elem esc tag t0 segs, l1Elem esc tag t0 segs⟩

theorem l1Src_clean (esc : List Char) (tag : Str) (htag : textTags.contains tag = true) (t0 : Str)
    (segs : List Seg1) :
    isListTag (l1Src esc tag t0 segs) = false ∧ preCode (l1Src esc tag t0 segs) = none := by
  have hmem : tag ∈ "hr".toList :: textTags := List.mem_cons_of_mem _ (List.contains_iff_mem.1 htag)
  have key : ∀ tag ∈ "hr".toList :: textTags, tag ≠ "ul".toList ∧ tag ≠ "ol".toList ∧ tag ≠ "pre".toList := by decide
  obtain ⟨a1, a2, a3⟩ := key _ hmem
  have b1 : tag ≠ ['u', 'l'] := a1
  have b2 : tag ≠ ['o', 'l'] := a2
  have b3 : tag ≠ ['p', 'r', 'e'] := a3
  constructor
  · simp [l1Src, isListTag, Node.isTag, b1, b2]
  · simp [l1Src, preCode, Node.isTag, b3]

theorem escSup_generated : EscSup Generated.escapedChars := fun _ h => h

theorem l1Piece_ok (g : List Str) (tag t0 : Str) (segs : List Seg1)
    (hok : L1TxtOK Generated.escapedChars tag t0 segs) (hne : g ≠ [])
    (hnel : noEmptyLineFrom true (joinLines g) = true)
    (hprod : Produces 4 (joinLines g) (l1Src Generated.escapedChars tag t0 segs))
    (hsafe : ∀ l ∈ g, lineSafe l = true ∧ '<' ∉ l ∧ refsClosed l = true)
    (hvis : ∃ c ∈ joinLines g, isSpace c = false) :
    Piece2OK {} (l1Piece Generated.escapedChars g tag t0 segs) where
  bok := chunkB_ok 4 g _ hne hnel hprod (l1Src_clean _ tag hok.htag t0 segs).1
    (l1Src_clean _ tag hok.htag t0 segs).2
  safe := hsafe
  vis := hvis
  src := rfl
  srcLast := rfl
  eok := fun refs => l1Elem_ok { esc := Generated.escapedChars, refs := refs } escOK_generated escSup_generated
    tag t0 segs hok
  eokLast := fun refs => l1Elem_ok { esc := Generated.escapedChars, refs := refs } escOK_generated escSup_generated
    tag t0 segs hok
  out := rfl

/-! ### 43. the printed form of content with emphasis around words, escapes and code spans -/

theorem rawF_append (esc : List Char) (L1 L2 : List FSeg) : rawF esc (L1 ++ L2) = rawF esc L1 ++ rawF esc L2 := by
  induction L1 with
  | nil => rfl
  | cons s r ih => simp [rawF, ih, List.append_assoc]

theorem rawF_spansF (esc : List Char) (x t : Str) (spans : List SpanSeg) :
    rawF esc (spansF x t spans) = rawSegs esc spans ++ (x ++ escAll esc t) := by
  induction spans with
  | nil => simp [spansF, rawF, FKind.src, rawSegs]
  | cons s r ih => simp [spansF, rawF, FKind.src, rawSegs, ih, List.append_assoc]

theorem rawF_flatten_code (esc : List Char) (n : Nat) (b t : Str) (r : List Seg1) :
    rawF esc (flatten1 (⟨.code n b, t⟩ :: r)) = spanSrc n b ++ (escAll esc t ++ rawF esc (flatten1 r)) := by
  simp [flatten1, rawF, FKind.src]

theorem rawF_flatten_em (esc : List Char) (st : Bool) (d : Char) (β : Body0) (t : Str) (r : List Seg1) :
    rawF esc (flatten1 (⟨.em st d β, t⟩ :: r)) =
      dl st d ++ (escAll esc β.u0 ++ (rawSegs esc β.spans ++ (dl st d ++ (escAll esc t ++ rawF esc (flatten1 r))))) := by
  simp [flatten1, rawF, FKind.src, rawF_append, rawF_spansF, List.append_assoc]

/-- an item without its spelling -/
inductive Q1
  | code (b : Str)
  | em (strong : Bool) (u0 : Str) (spans : List (Str × Str))

def K1.q : K1 → Q1
  | .code _ b => .code b
  | .em st _ β => .em st β.u0 (β.spans.map (fun s => (s.b, s.t)))

def splitDeep : List DocSpec.Inline → Str × List (Q1 × Str)
  | [] => ([], [])
  | .text w :: r => (w ++ (splitDeep r).1, (splitDeep r).2)
  | .esc c :: r => (c :: (splitDeep r).1, (splitDeep r).2)
  | .code b :: r => ([], (.code b, (splitDeep r).1) :: (splitDeep r).2)
  | .em c :: r => ([], (.em false (splitSpans c).1 (splitSpans c).2, (splitDeep r).1) :: (splitDeep r).2)
  | .strong c :: r => ([], (.em true (splitSpans c).1 (splitSpans c).2, (splitDeep r).1) :: (splitDeep r).2)
  | _ :: r => splitDeep r

theorem splitDeep_text (w : Str) (r : List DocSpec.Inline) :
    splitDeep (.text w :: r) = (w ++ (splitDeep r).1, (splitDeep r).2) := by rw [splitDeep]
theorem splitDeep_esc (ch : Char) (r : List DocSpec.Inline) :
    splitDeep (.esc ch :: r) = (ch :: (splitDeep r).1, (splitDeep r).2) := by rw [splitDeep]
theorem splitDeep_code (b : Str) (r : List DocSpec.Inline) :
    splitDeep (.code b :: r) = ([], (.code b, (splitDeep r).1) :: (splitDeep r).2) := by rw [splitDeep]
theorem splitDeep_em (c : List DocSpec.Inline) (r : List DocSpec.Inline) :
    splitDeep (.em c :: r) = ([], (.em false (splitSpans c).1 (splitSpans c).2, (splitDeep r).1) :: (splitDeep r).2) := by
  rw [splitDeep]
theorem splitDeep_strong (c : List DocSpec.Inline) (r : List DocSpec.Inline) :
    splitDeep (.strong c :: r) = ([], (.em true (splitSpans c).1 (splitSpans c).2, (splitDeep r).1) :: (splitDeep r).2) := by
  rw [splitDeep]

/-- well-formed content of an emphasis: words, escapes, code spans; visible at both ends -/
def emBodyOK (c : List DocSpec.Inline) : Bool :=
  spanItemsOK c && startsOk c && endsOk c && okAdjacents c && noBsBeforeCode c

def deepItemsOK : List DocSpec.Inline → Bool
  | [] => true
  | .text w :: r => wfWords w && deepItemsOK r
  | .esc c :: r => ESC.contains c && deepItemsOK r
  | .code b :: r => wfCodeSpan b && noLt b && deepItemsOK r
  | .em c :: r => emBodyOK c && deepItemsOK r
  | .strong c :: r => emBodyOK c && deepItemsOK r
  | _ :: _ => false

theorem deepItems_ind {motive : List DocSpec.Inline → Prop} (nil : motive [])
    (text : ∀ w r, wfWords w = true → deepItemsOK r = true → motive r → motive (.text w :: r))
    (esc : ∀ ch r, ch ∈ ESC → deepItemsOK r = true → motive r → motive (.esc ch :: r))
    (code : ∀ b r, wfCodeSpan b = true → noLt b = true → deepItemsOK r = true → motive r → motive (.code b :: r))
    (em : ∀ c r, emBodyOK c = true → deepItemsOK r = true → motive r → motive (.em c :: r))
    (strong : ∀ c r, emBodyOK c = true → deepItemsOK r = true → motive r → motive (.strong c :: r)) :
    ∀ c, deepItemsOK c = true → motive c := by
  intro c
  induction c with
  | nil => intro _; exact nil
  | cons x r ih =>
    intro h
    cases x with
    | text w =>
      simp only [deepItemsOK, Bool.and_eq_true] at h
      exact text w r h.1 h.2 (ih h.2)
    | esc ch =>
      simp only [deepItemsOK, Bool.and_eq_true] at h
      exact esc ch r (List.contains_iff_mem.1 h.1) h.2 (ih h.2)
    | code b =>
      simp only [deepItemsOK, Bool.and_eq_true] at h
      exact code b r h.1.1 h.1.2 h.2 (ih h.2)
    | em l =>
      simp only [deepItemsOK, Bool.and_eq_true] at h
      exact em l r h.1 h.2 (ih h.2)
    | strong l =>
      simp only [deepItemsOK, Bool.and_eq_true] at h
      exact strong l r h.1 h.2 (ih h.2)
    | link _ _ _ => simp [deepItemsOK] at h
    | image _ _ _ => simp [deepItemsOK] at h
    | autolink _ => simp [deepItemsOK] at h
    | br => simp [deepItemsOK] at h


theorem spanItemsOK_of_wf_par (c : List DocSpec.Inline) (par : Par) (brOk : Bool) (hp : c.all isSpanItem = true)
    (hw : wfInlineList false par brOk c = true) : spanItemsOK c = true := by
  induction c with
  | nil => rfl
  | cons x r ih =>
    simp only [List.all_cons, Bool.and_eq_true] at hp
    simp only [wfInlineList, Bool.and_eq_true] at hw
    have ihr := ih hp.2 hw.2
    cases x with
    | text w => simp only [wfInline] at hw; simp [spanItemsOK, hw.1, ihr]
    | esc ch => simp only [wfInline] at hw; simp [spanItemsOK, List.contains_iff_mem.1 hw.1, ihr]
    | code b => simp only [wfInline] at hw; simp only [isSpanItem] at hp; simp [spanItemsOK, hw.1, hp.1, ihr]
    | em _ => simp [isSpanItem] at hp
    | strong _ => simp [isSpanItem] at hp
    | link _ _ _ => simp [isSpanItem] at hp
    | image _ _ _ => simp [isSpanItem] at hp
    | autolink _ => simp [isSpanItem] at hp
    | br => simp [isSpanItem] at hp

theorem deepItemsOK_of_wf (c : List DocSpec.Inline) (brOk : Bool) (hp : c.all isDeepItem = true)
    (hw : wfInlineList false .none brOk c = true) : deepItemsOK c = true := by
  induction c with
  | nil => rfl
  | cons x r ih =>
    simp only [List.all_cons, Bool.and_eq_true] at hp
    simp only [wfInlineList, Bool.and_eq_true] at hw
    have ihr := ih hp.2 hw.2
    cases x with
    | text w => simp only [wfInline] at hw; simp [deepItemsOK, hw.1, ihr]
    | esc ch => simp only [wfInline] at hw; simp [deepItemsOK, List.contains_iff_mem.1 hw.1, ihr]
    | code b => simp only [wfInline] at hw; simp only [isDeepItem] at hp; simp [deepItemsOK, hw.1, hp.1, ihr]
    | em l =>
      have h1 := hw.1
      have hp1 := hp.1
      simp only [wfInline, wfRun, Bool.and_eq_true] at h1
      simp only [isDeepItem, Bool.and_eq_true] at hp1
      have hsp := spanItemsOK_of_wf_par l _ brOk hp1.1 h1.2
      simp [deepItemsOK, emBodyOK, hsp, h1.1.2.1.1.1, h1.1.2.1.1.2, h1.1.2.1.2, hp1.2, ihr]
    | strong l =>
      have h1 := hw.1
      have hp1 := hp.1
      simp only [wfInline, wfRun, Bool.and_eq_true] at h1
      simp only [isDeepItem, Bool.and_eq_true] at hp1
      have hsp := spanItemsOK_of_wf_par l _ brOk hp1.1 h1.2
      simp [deepItemsOK, emBodyOK, hsp, h1.1.2.1.1.1, h1.1.2.1.1.2, h1.1.2.1.2, hp1.2, ihr]
    | link _ _ _ => simp [isDeepItem] at hp
    | image _ _ _ => simp [isDeepItem] at hp
    | autolink _ => simp [isDeepItem] at hp
    | br => simp [isDeepItem] at hp

/-- what the printer guarantees of an item's spelling -/
def K1Printed : K1 → Prop
  | .code n b => fenceOK n b
  | .em _ d β => (d = '*' ∨ d = '_') ∧ ∀ s ∈ β.spans, fenceOK s.n s.b

theorem underOK1_mono (esc : List Char) (segs : List Seg1) (h : UnderOK1 esc true segs) : UnderOK1 esc false segs := by
  cases segs with
  | nil => trivial
  | cons s r => exact ⟨fun hd => absurd (h.1 hd).1 (by decide), h.2⟩

theorem underOK1_of_pw (b : Bool) (t : Str) (segs : List Seg1) (h : UnderOK1 ESC (pwOf b t) segs) :
    UnderOK1 ESC (lastW ESC t) segs := by
  unfold pwOf at h; unfold lastW
  cases ht : t.getLast? with
  | some c => rw [ht] at h; exact h
  | none =>
    rw [ht] at h
    cases b with
    | true => exact h
    | false => exact underOK1_mono _ _ h

theorem q1_code_cls {k : K1} {b : Str} (h : k.q = .code b) : k.cls = 0 := by
  cases k with
  | code n b' => rfl
  | em s d w => simp [K1.q] at h

theorem nextNW1_of_boundary (r : List DocSpec.Inline) (h : deepItemsOK r = true) (endB : Bool)
    (hb : nextBoundary endB r = true) (segs : List Seg1)
    (hm : segs.map (fun s => (s.k.q, s.t)) = (splitDeep r).2) : nextNW1 ESC (splitDeep r).1 segs := by
  cases r with
  | nil =>
    have : segs = [] := by simpa [splitDeep] using hm
    subst this; trivial
  | cons y r' =>
    cases y with
    | text w' =>
      simp only [nextBoundary, startsBoundary, decide_eq_true_eq] at hb
      cases w' with
      | nil => simp at hb
      | cons a w'' =>
        have : a = ' ' := by simpa using hb
        subst this
        rw [splitDeep_text]
        exact Or.inr (by decide)
    | esc ch =>
      simp only [deepItemsOK, Bool.and_eq_true] at h
      rw [splitDeep_esc]
      exact Or.inl (List.contains_iff_mem.1 h.1)
    | code b =>
      rw [splitDeep_code] at hm ⊢
      cases segs with
      | nil => simp at hm
      | cons s' segs' =>
        simp only [List.map_cons, List.cons.injEq, Prod.mk.injEq] at hm
        show s'.k.cls ≠ 2
        rw [q1_code_cls hm.1.1]; omega
    | em _ => simp [nextBoundary, startsBoundary] at hb
    | strong _ => simp [nextBoundary, startsBoundary] at hb
    | link _ _ _ => simp [deepItemsOK] at h
    | image _ _ _ => simp [deepItemsOK] at h
    | autolink _ => simp [deepItemsOK] at h
    | br => simp [deepItemsOK] at h

def PrintsDeep (c : List DocSpec.Inline) : Prop :=
  ∀ (prevB endB : Bool) (st : PSt), ∃ (segs : List Seg1) (st' : PSt),
    printInlines none prevB endB c st = (escAll ESC (splitDeep c).1 ++ rawF ESC (flatten1 segs), st') ∧
    st'.defs = st.defs ∧ segs.map (fun s => (s.k.q, s.t)) = (splitDeep c).2 ∧
    (∀ s ∈ segs, K1Printed s.k) ∧ UnderOK1 ESC (pwOf prevB (splitDeep c).1) segs

theorem printsDeep_em_step (strong : Bool) (c' : List DocSpec.Inline) (hc' : emBodyOK c' = true)
    (r : List DocSpec.Inline) (hr : deepItemsOK r = true)
    (ih : PrintsDeep r) (prevB endB : Bool) (st : PSt) (x : DocSpec.Inline)
    (hx : x = (if strong then DocSpec.Inline.strong c' else DocSpec.Inline.em c')) :
    ∃ (segs : List Seg1) (st' : PSt),
      printInlines none prevB endB (x :: r) st = (rawF ESC (flatten1 segs), st') ∧
      st'.defs = st.defs ∧
      segs.map (fun s => (s.k.q, s.t)) =
        (.em strong (splitSpans c').1 (splitSpans c').2, (splitDeep r).1) :: (splitDeep r).2 ∧
      (∀ s ∈ segs, K1Printed s.k) ∧ UnderOK1 ESC (!prevB) segs := by
  generalize hd : chooseDelim none (draw st).1 prevB (nextBoundary endB r) = d
  have hdc := chooseDelim_cases (draw st).1 prevB (nextBoundary endB r)
  rw [hd] at hdc
  have hdd : d = '*' ∨ d = '_' := by rcases hdc with ⟨h, _⟩ | h; exact Or.inr h; exact Or.inl h
  simp only [emBodyOK, Bool.and_eq_true] at hc'
  obtain ⟨spans, st1, hps, hds, hms, hfs⟩ := printInlines_span c' hc'.1.1.1.1 (some d) (d = '*') (d = '*') (draw st).2
  generalize hbody : escAll ESC (splitSpans c').1 ++ rawSegs ESC spans = body at hps
  have hlast : ∀ X : Str, afterBoundary prevB (X ++ [d]) = !isWordCh d := fun X => afterBoundary_delims prevB d X
  obtain ⟨segs, st', hp, hdf, hm, hpr, hu⟩ := ih (!isWordCh d) endB st1
  refine ⟨⟨.em strong d ⟨(splitSpans c').1, spans⟩, (splitDeep r).1⟩ :: segs, st', ?_,
    by rw [hdf, hds, draw_defs], by rw [List.map_cons, hm]; simp [K1.q, hms], ?_, ?_⟩
  · subst hx
    rw [rawF_flatten_em]
    cases strong
    · simp only [Bool.false_eq_true, if_false, printInlines, printInline, hd, hps]
      have e : afterBoundary prevB (d :: body ++ [d]) = !isWordCh d := hlast (d :: body)
      rw [e, hp, ← hbody]
      simp [dl, List.append_assoc]
    · simp only [if_true, printInlines, printInline, hd, hps]
      have e : afterBoundary prevB (d :: d :: body ++ [d, d]) = !isWordCh d := by
        have := hlast (d :: d :: body ++ [d])
        simpa [List.append_assoc] using this
      rw [e, hp, ← hbody]
      simp [dl, List.append_assoc, List.replicate_succ]
  · intro s hs
    rcases List.mem_cons.1 hs with rfl | hs
    · exact ⟨hdd, hfs⟩
    · exact hpr s hs
  · refine ⟨fun hcl => ?_, underOK1_of_pw _ _ _ hu⟩
    have hdu : d = '_' := by
      rcases hdd with e | e
      · rw [e] at hcl; simp [K1.cls] at hcl
      · exact e
    rcases hdc with ⟨_, h1, h2⟩ | h
    · exact ⟨by simp [h1], nextNW1_of_boundary r hr endB h2 segs hm⟩
    · rw [hdu] at h; exact absurd h (by decide)


/-- **the printed form** of content with emphasis around words, escapes and code spans -/
theorem printInlines_deep (c : List DocSpec.Inline) (h : deepItemsOK c = true) : PrintsDeep c := by
  revert h
  refine deepItems_ind (motive := PrintsDeep) ?_ ?_ ?_ ?_ ?_ ?_ c
  · intro prevB endB st
    exact ⟨[], st, by simp [printInlines, splitDeep, rawF, flatten1, escAll], rfl, rfl, by simp, trivial⟩
  · intro w r hw hr ih prevB endB st
    simp only [wfWords, Bool.and_eq_true, Bool.not_eq_true', List.isEmpty_eq_false_iff] at hw
    obtain ⟨segs, st', hp, hd, hm, hds, hu⟩ := ih (afterBoundary prevB w) endB st
    refine ⟨segs, st', ?_, hd, by rw [splitDeep_text]; exact hm, hds, ?_⟩
    · simp only [printInlines, printInline, hp, splitDeep_text]
      rw [escAll_words w hw.1.2]; simp [List.append_assoc]
    · rw [splitDeep_text]
      simp only
      rw [pwOf_append prevB w _ hw.1.1 hw.1.2]; exact hu
  · intro ch r hch hr ih prevB endB st
    obtain ⟨segs, st', hp, hd, hm, hds, hu⟩ := ih (afterBoundary prevB ['\\', ch]) endB st
    refine ⟨segs, st', ?_, hd, by rw [splitDeep_esc]; exact hm, hds, ?_⟩
    · simp only [printInlines, printInline, hp, splitDeep_esc]
      rw [escAll_esc_cons ch hch]; simp
    · rw [splitDeep_esc]
      simp only
      have hu' := underOK1_of_pw _ _ _ hu
      unfold pwOf
      cases ht : (splitDeep r).1 with
      | nil =>
        rw [ht] at hu'
        simpa [hch, lastW] using hu'
      | cons a b =>
        rw [ht] at hu'
        have : (ch :: a :: b).getLast? = (a :: b).getLast? := List.getLast?_cons_cons
        rw [this]
        obtain ⟨z, hz⟩ : ∃ z, (a :: b).getLast? = some z := by
          cases hg : (a :: b).getLast? with
          | none => exact absurd (List.getLast?_eq_none_iff.1 hg) (by simp)
          | some z => exact ⟨z, rfl⟩
        simp only [lastW, hz] at hu' ⊢
        exact hu'
  · intro b r hw hlt hr ih prevB endB st
    have hL : longestTickRun b ≤ 2 := (wfCodeSpan_facts hw).2.2.2.2.1
    generalize hn : longestTickRun b + 1 + (draw st).1 % (4 - (longestTickRun b + 1)) = n
    have hnb : fenceOK n b := by
      have : (draw st).1 % (4 - (longestTickRun b + 1)) < 4 - (longestTickRun b + 1) := Nat.mod_lt _ (by omega)
      constructor <;> omega
    obtain ⟨j, hj⟩ : ∃ j, n = j + 1 := ⟨n - 1, by have := hnb.1; omega⟩
    have hab : afterBoundary prevB (rep n '`' ++ codePad b ++ b ++ codePad b ++ rep n '`') = true := by
      have : rep n '`' ++ codePad b ++ b ++ codePad b ++ rep n '`' =
          (rep n '`' ++ codePad b ++ b ++ codePad b ++ rep j '`') ++ ['`'] := by
        rw [hj]; simp [rep, List.replicate_succ', List.append_assoc]
      rw [this, afterBoundary_tick]
    obtain ⟨segs, st', hp, hd, hm, hds, hu⟩ := ih true endB (draw st).2
    refine ⟨⟨.code n b, (splitDeep r).1⟩ :: segs, st', ?_, by rw [hd, draw_defs],
      by rw [List.map_cons, hm, splitDeep_code]; rfl, ?_, ?_⟩
    · rw [rawF_flatten_code]
      simp only [printInlines, printInline, hn, hab, hp, splitDeep_code]
      simp [escAll, spanSrc, padded, rep, ticks, List.append_assoc]
    · intro s hs
      rcases List.mem_cons.1 hs with rfl | hs
      · exact hnb
      · exact hds s hs
    · rw [splitDeep_code]
      refine ⟨fun hcl => ?_, ?_⟩
      · simp [K1.cls] at hcl
      · rw [pwOf_true] at hu; exact hu
  · intro c' r hc' hr ih prevB endB st
    obtain ⟨segs, st', hp, hd, hm, hds, hu⟩ := printsDeep_em_step false c' hc' r hr ih prevB endB st _ rfl
    refine ⟨segs, st', ?_, hd, by rw [splitDeep_em]; exact hm, hds, ?_⟩
    · simp only [Bool.false_eq_true, if_false] at hp
      rw [hp, splitDeep_em]; simp [escAll]
    · rw [splitDeep_em]; exact hu
  · intro c' r hc' hr ih prevB endB st
    obtain ⟨segs, st', hp, hd, hm, hds, hu⟩ := printsDeep_em_step true c' hc' r hr ih prevB endB st _ rfl
    refine ⟨segs, st', ?_, hd, by rw [splitDeep_strong]; exact hm, hds, ?_⟩
    · simp only [if_true] at hp
      rw [hp, splitDeep_strong]; simp [escAll]
    · rw [splitDeep_strong]; exact hu


/-! ### 44. from well-formed content to the facts the stages need -/

/-- what well-formedness says of an item -/
def Q1.ok : Q1 → Prop
  | .code b => wfCodeSpan b = true ∧ noLt b = true
  | .em _ u0 sp => ∃ c', emBodyOK c' = true ∧ u0 = (splitSpans c').1 ∧ sp = (splitSpans c').2

theorem splitDeep_chars (c : List DocSpec.Inline) (h : deepItemsOK c = true) :
    (∀ ch ∈ (splitDeep c).1, plainCh ch) ∧ ∀ q ∈ (splitDeep c).2, (∀ ch ∈ q.2, plainCh ch) ∧ q.1.ok := by
  revert h
  refine deepItems_ind (motive := fun c => (∀ ch ∈ (splitDeep c).1, plainCh ch) ∧
    ∀ q ∈ (splitDeep c).2, (∀ ch ∈ q.2, plainCh ch) ∧ q.1.ok) ?_ ?_ ?_ ?_ ?_ ?_ c
  · simp [splitDeep]
  · intro w r hw _ ih
    simp only [wfWords, Bool.and_eq_true] at hw
    rw [splitDeep_text]
    refine ⟨?_, ih.2⟩
    intro ch hch
    rcases List.mem_append.1 hch with hch | hch
    · exact Or.inl (List.all_eq_true.1 hw.1.2 ch hch)
    · exact ih.1 ch hch
  · intro e r he _ ih
    rw [splitDeep_esc]
    refine ⟨?_, ih.2⟩
    intro ch hch
    rcases List.mem_cons.1 hch with rfl | hch
    · exact Or.inr he
    · exact ih.1 ch hch
  · intro b r hw hlt _ ih
    rw [splitDeep_code]
    refine ⟨by simp, ?_⟩
    intro q hq
    rcases List.mem_cons.1 hq with rfl | hq
    · exact ⟨ih.1, hw, hlt⟩
    · exact ih.2 q hq
  · intro c' r hc' _ ih
    rw [splitDeep_em]
    refine ⟨by simp, ?_⟩
    intro q hq
    rcases List.mem_cons.1 hq with rfl | hq
    · exact ⟨ih.1, c', hc', rfl, rfl⟩
    · exact ih.2 q hq
  · intro c' r hc' _ ih
    rw [splitDeep_strong]
    refine ⟨by simp, ?_⟩
    intro q hq
    rcases List.mem_cons.1 hq with rfl | hq
    · exact ⟨ih.1, c', hc', rfl, rfl⟩
    · exact ih.2 q hq

theorem splitDeep_nil_iff (c : List DocSpec.Inline) (h : deepItemsOK c = true) :
    ((splitDeep c).1 = [] ∧ (splitDeep c).2 = []) ↔ c = [] := by
  revert h
  refine deepItems_ind (motive := fun c => ((splitDeep c).1 = [] ∧ (splitDeep c).2 = []) ↔ c = []) ?_ ?_ ?_ ?_ ?_ ?_ c
  · simp [splitDeep]
  · intro w r hw _ _
    have : w ≠ [] := by intro e; subst e; simp [wfWords] at hw
    rw [splitDeep_text]; simp [this]
  · intro ch r _ _ _; rw [splitDeep_esc]; simp
  · intro b r _ _ _ _; rw [splitDeep_code]; simp
  · intro w r _ _ _; rw [splitDeep_em]; simp
  · intro w r _ _ _; rw [splitDeep_strong]; simp

theorem splitDeep_first (c : List DocSpec.Inline) (h : deepItemsOK c = true) :
    startsOk c = true → (splitDeep c).1 ≠ [] → startsVisible (splitDeep c).1 = true := by
  revert h
  refine deepItems_ind (motive := fun c => startsOk c = true → (splitDeep c).1 ≠ [] →
    startsVisible (splitDeep c).1 = true) ?_ ?_ ?_ ?_ ?_ ?_ c
  · intro hs; simp [startsOk] at hs
  · intro w r hw _ _ hs _
    simp only [wfWords, Bool.and_eq_true, Bool.not_eq_true'] at hw
    simp only [startsOk, bne_iff_ne, ne_eq] at hs
    cases w with
    | nil => simp at hw
    | cons a b =>
      have ha : isAlnumSp a = true := by
        have := hw.1.2; simp only [List.all_cons, Bool.and_eq_true] at this; exact this.1
      have : a ≠ ' ' := by simpa using hs
      rw [splitDeep_text]
      simp [startsVisible, alnum_visible a ha this]
  · intro ch r hch _ _ _ _
    rw [splitDeep_esc]
    simp [startsVisible, (escChar_facts _ hch).2.2]
  · intro b r _ _ _ _ _ hne; rw [splitDeep_code] at hne; exact absurd rfl hne
  · intro w r _ _ _ _ hne; rw [splitDeep_em] at hne; exact absurd rfl hne
  · intro w r _ _ _ _ hne; rw [splitDeep_strong] at hne; exact absurd rfl hne

def lastTextDQ (p : Str × List (Q1 × Str)) : Str := (p.2.getLast?.map (·.2)).getD p.1

theorem lastTextDQ_same (t t' : Str) (ss : List (Q1 × Str)) (hss : ss ≠ []) :
    lastTextDQ (t, ss) = lastTextDQ (t', ss) := by
  simp only [lastTextDQ]
  cases hg : ss.getLast? with
  | none => exact absurd (List.getLast?_eq_none_iff.1 hg) hss
  | some q => rfl

theorem lastTextDQ_cons (t : Str) (q : Q1 × Str) (ss : List (Q1 × Str)) :
    lastTextDQ (t, q :: ss) = lastTextDQ (q.2, ss) := by
  cases ss with
  | nil => rfl
  | cons a b =>
    simp only [lastTextDQ, List.getLast?_cons_cons]
    cases hg : (a :: b).getLast? with
    | none => exact absurd (List.getLast?_eq_none_iff.1 hg) (by simp)
    | some x => rfl

theorem splitDeep_last (c : List DocSpec.Inline) (h : deepItemsOK c = true) :
    endsOk c = true → ∀ z, (lastTextDQ (splitDeep c)).getLast? = some z → isSpace z = false := by
  revert h
  refine deepItems_ind (motive := fun c => endsOk c = true →
    ∀ z, (lastTextDQ (splitDeep c)).getLast? = some z → isSpace z = false) ?_ ?_ ?_ ?_ ?_ ?_ c
  · intro he; simp [endsOk] at he
  · intro w r hw hr ih he z hz
    rw [splitDeep_text] at hz
    by_cases hss : (splitDeep r).2 = []
    · simp only [lastTextDQ, hss, List.getLast?_nil, Option.map_none, Option.getD_none] at hz
      by_cases ht : (splitDeep r).1 = []
      · have hrn : r = [] := (splitDeep_nil_iff r hr).1 ⟨ht, hss⟩
        subst hrn
        simp only [ht, List.append_nil] at hz
        simp only [endsOk, bne_iff_ne, ne_eq] at he
        exact alnumSp_last_visible w hw he z hz
      · have hrn : r ≠ [] := fun e => ht (by subst e; rfl)
        apply ih (endsOk_cons_ne hrn he) z
        simp only [lastTextDQ, hss, List.getLast?_nil, Option.map_none, Option.getD_none]
        rw [List.getLast?_append] at hz
        cases hx : (splitDeep r).1.getLast? with
        | none => exact absurd (List.getLast?_eq_none_iff.1 hx) ht
        | some q => rw [hx] at hz; simpa using hz
    · have hrn : r ≠ [] := fun e => hss (by subst e; rfl)
      apply ih (endsOk_cons_ne hrn he) z
      rw [lastTextDQ_same _ (w ++ (splitDeep r).1) _ hss]
      exact hz
  · intro ch r hch hr ih he z hz
    rw [splitDeep_esc] at hz
    by_cases hss : (splitDeep r).2 = []
    · simp only [lastTextDQ, hss, List.getLast?_nil, Option.map_none, Option.getD_none] at hz
      by_cases ht : (splitDeep r).1 = []
      · simp only [ht, List.getLast?_singleton, Option.some.injEq] at hz
        subst hz
        exact (escChar_facts _ hch).2.2
      · have hrn : r ≠ [] := fun e => ht (by subst e; rfl)
        apply ih (endsOk_cons_ne hrn he) z
        simp only [lastTextDQ, hss, List.getLast?_nil, Option.map_none, Option.getD_none]
        cases hx : (splitDeep r).1 with
        | nil => exact absurd hx ht
        | cons a b => rw [hx] at hz; simpa [List.getLast?_cons_cons] using hz
    · have hrn : r ≠ [] := fun e => hss (by subst e; rfl)
      apply ih (endsOk_cons_ne hrn he) z
      rw [lastTextDQ_same _ (ch :: (splitDeep r).1) _ hss]
      exact hz
  · intro b r _ _ hr ih he z hz
    rw [splitDeep_code, lastTextDQ_cons] at hz
    by_cases hrn : r = []
    · subst hrn; simp [splitDeep, lastTextDQ] at hz
    · exact ih (endsOk_cons_ne hrn he) z hz
  · intro w r _ hr ih he z hz
    rw [splitDeep_em, lastTextDQ_cons] at hz
    by_cases hrn : r = []
    · subst hrn; simp [splitDeep, lastTextDQ] at hz
    · exact ih (endsOk_cons_ne hrn he) z hz
  · intro w r _ hr ih he z hz
    rw [splitDeep_strong, lastTextDQ_cons] at hz
    by_cases hrn : r = []
    · subst hrn; simp [splitDeep, lastTextDQ] at hz
    · exact ih (endsOk_cons_ne hrn he) z hz


def Q1.isCode : Q1 → Bool
  | .code _ => true
  | _ => false

def K1.isCode : K1 → Bool
  | .code _ _ => true
  | _ => false

theorem q1_isCode (k : K1) : k.q.isCode = k.isCode := by cases k <;> rfl

def junctionsDQ : Str → Bool → List (Q1 × Str) → Prop
  | _, _, [] => True
  | t, pc, q :: r => (q.1.isCode = true → t.getLast? ≠ some '\\' ∧ (pc = true → t ≠ [])) ∧ junctionsDQ q.2 q.1.isCode r

theorem junctionsDQ_retext {t : Str} {pc : Bool} {L : List (Q1 × Str)} (h : junctionsDQ t pc L) (t' : Str) (pc' : Bool)
    (h' : ∀ q r, L = q :: r → q.1.isCode = true → t'.getLast? ≠ some '\\' ∧ (pc' = true → t' ≠ [])) :
    junctionsDQ t' pc' L := by
  cases L with
  | nil => trivial
  | cons q r => exact ⟨fun hc => h' q r rfl hc, h.2⟩

theorem startsCode_of_splitDeep (r : List DocSpec.Inline) (h : deepItemsOK r = true) (h1 : (splitDeep r).1 = [])
    (q : Q1 × Str) (L : List (Q1 × Str)) (h2 : (splitDeep r).2 = q :: L) (hq : q.1.isCode = true) :
    ∃ b r', r = .code b :: r' := by
  revert h h1 h2
  refine deepItems_ind (motive := fun r => (splitDeep r).1 = [] → (splitDeep r).2 = q :: L → ∃ b r', r = .code b :: r')
    ?_ ?_ ?_ ?_ ?_ ?_ r
  · intro _ h2; simp [splitDeep] at h2
  · intro w r' hw _ _ h1 _
    have : w ≠ [] := by intro e; subst e; simp [wfWords] at hw
    rw [splitDeep_text] at h1; simp [this] at h1
  · intro ch r' _ _ _ h1 _; rw [splitDeep_esc] at h1; simp at h1
  · intro b r' _ _ _ _ _ _; exact ⟨b, r', rfl⟩
  · intro w r' _ _ _ _ h2
    rw [splitDeep_em] at h2
    simp only [List.cons.injEq] at h2
    rw [← h2.1] at hq; simp [Q1.isCode] at hq
  · intro w r' _ _ _ _ h2
    rw [splitDeep_strong] at h2
    simp only [List.cons.injEq] at h2
    rw [← h2.1] at hq; simp [Q1.isCode] at hq

theorem splitDeep_junctions (c : List DocSpec.Inline) (h : deepItemsOK c = true) :
    okAdjacents c = true → noBsBeforeCode c = true →
      junctionsDQ (splitDeep c).1 false (splitDeep c).2 ∧
      (startsCode c = false → junctionsDQ (splitDeep c).1 true (splitDeep c).2) := by
  revert h
  refine deepItems_ind (motive := fun c => okAdjacents c = true → noBsBeforeCode c = true →
      junctionsDQ (splitDeep c).1 false (splitDeep c).2 ∧
      (startsCode c = false → junctionsDQ (splitDeep c).1 true (splitDeep c).2)) ?_ ?_ ?_ ?_ ?_ ?_ c
  · intro _ _; exact ⟨trivial, fun _ => trivial⟩
  · intro w r hw hr ih ha hb
    obtain ⟨i1, _⟩ := ih (okAdjacents_tail ha) (noBs_tail hb)
    simp only [wfWords, Bool.and_eq_true, Bool.not_eq_true', List.isEmpty_eq_false_iff] at hw
    rw [splitDeep_text]
    have key : ∀ pc, junctionsDQ (w ++ (splitDeep r).1) pc (splitDeep r).2 := by
      intro pc
      apply junctionsDQ_retext i1
      intro q L hL hq
      refine ⟨?_, fun _ => by simp [hw.1.1]⟩
      rw [List.getLast?_append]
      cases ht : (splitDeep r).1.getLast? with
      | none =>
        simp only [Option.none_or]
        intro hl
        exact alnumSp_ne_bs (List.all_eq_true.1 hw.1.2 _ (List.mem_of_getLast? hl)) rfl
      | some z =>
        simp only [Option.some_or]
        rw [hL] at i1
        have := (i1.1 hq).1
        rw [ht] at this; exact this
    exact ⟨key false, fun _ => key true⟩
  · intro ch r hch hr ih ha hb
    obtain ⟨i1, _⟩ := ih (okAdjacents_tail ha) (noBs_tail hb)
    rw [splitDeep_esc]
    have key : ∀ pc, junctionsDQ (ch :: (splitDeep r).1) pc (splitDeep r).2 := by
      intro pc
      apply junctionsDQ_retext i1
      intro q L hL hq
      refine ⟨?_, fun _ => by simp⟩
      cases ht : (splitDeep r).1 with
      | nil =>
        obtain ⟨b, r', hr'⟩ := startsCode_of_splitDeep r hr ht q L hL hq
        subst hr'
        simp only [noBsBeforeCode, Bool.and_eq_true, bne_iff_ne, ne_eq] at hb
        simpa using hb.1
      | cons a b =>
        rw [hL, ht] at i1
        have := (i1.1 hq).1
        simpa [List.getLast?_cons_cons] using this
    exact ⟨key false, fun _ => key true⟩
  · intro b r _ _ hr ih ha hb
    obtain ⟨_, i2⟩ := ih (okAdjacents_tail ha) (noBs_tail hb)
    have hns : startsCode r = false := by
      cases r with
      | nil => rfl
      | cons y r' =>
        cases y <;> first | rfl | skip
        rw [okAdjacents] at ha
        simp [okAdjacent, isCodeSpan] at ha
    rw [splitDeep_code]
    refine ⟨⟨fun _ => ⟨by simp, fun e => absurd e (by decide)⟩, i2 hns⟩, fun e => ?_⟩
    simp [startsCode] at e
  · intro w r _ hr ih ha hb
    obtain ⟨i1, _⟩ := ih (okAdjacents_tail ha) (noBs_tail hb)
    rw [splitDeep_em]
    exact ⟨⟨fun e => by simp [Q1.isCode] at e, i1⟩, fun _ => ⟨fun e => by simp [Q1.isCode] at e, i1⟩⟩
  · intro w r _ hr ih ha hb
    obtain ⟨i1, _⟩ := ih (okAdjacents_tail ha) (noBs_tail hb)
    rw [splitDeep_strong]
    exact ⟨⟨fun e => by simp [Q1.isCode] at e, i1⟩, fun _ => ⟨fun e => by simp [Q1.isCode] at e, i1⟩⟩

/-- the junction conditions on the items: at top level, and inside every emphasis -/
def junctions1 : Str → Bool → List Seg1 → Prop
  | _, _, [] => True
  | t, pc, s :: r =>
    (s.k.isCode = true → t.getLast? ≠ some '\\' ∧ (pc = true → t ≠ [])) ∧
    (∀ st d β, s.k = .em st d β → SegsOK β.spans ∧ (β.spans ≠ [] → β.u0.getLast? ≠ some '\\')) ∧
    junctions1 s.t s.k.isCode r

theorem junctionsF_spansF (x t : Str) (rest : List FSeg) (hrest : junctionsF t false rest) (spans : List SpanSeg) :
    ∀ (u : Str) (pc : Bool), (spans ≠ [] → u.getLast? ≠ some '\\' ∧ (pc = true → u ≠ [])) → SegsOK spans →
      junctionsF u pc (spansF x t spans ++ rest) := by
  induction spans with
  | nil => intro u pc _ _; exact ⟨fun e => by simp [FKind.isCode] at e, hrest⟩
  | cons s r ih =>
    intro u pc hu hok
    obtain ⟨_, _, _, hnext, hr⟩ := hok
    refine ⟨fun _ => hu (by simp), ?_⟩
    exact ih s.t true (fun hrn => ⟨(hnext hrn).2, fun _ => (hnext hrn).1⟩) hr

theorem junctionsF_flatten1 (segs : List Seg1) :
    ∀ (t : Str) (pc : Bool), junctions1 t pc segs → junctionsF t pc (flatten1 segs) := by
  induction segs with
  | nil => intro _ _ _; trivial
  | cons s r ih =>
    intro t pc h
    obtain ⟨k, t'⟩ := s
    cases k with
    | code n b => exact ⟨h.1, ih _ _ h.2.2⟩
    | em st d β =>
      obtain ⟨hsp, hu⟩ := h.2.1 st d β rfl
      refine ⟨fun e => by simp [FKind.isCode] at e, ?_⟩
      exact junctionsF_spansF (dl st d) t' (flatten1 r) (ih _ _ h.2.2) β.spans β.u0 false
        (fun hne => ⟨hu hne, fun e => absurd e (by decide)⟩) hsp

/-- the flat tokens are well shaped when the items are -/
def K1Flat : K1 → Prop
  | .code n b => FKindOK (.code n b)
  | .em _ d β => (d = '*' ∨ d = '_') ∧ SegsOK β.spans

theorem dl_plain (st : Bool) (d : Char) (hd : d = '*' ∨ d = '_') : noTickBs (dl st d) ∧ dl st d ≠ [] := by
  refine ⟨?_, by cases st <;> simp [dl]⟩
  intro c hc
  have : c = d := List.eq_of_mem_replicate hc
  rcases hd with e | e <;> rw [this, e] <;> exact ⟨by decide, by decide⟩

theorem fsegsOK_spansF (x t : Str) (hx : noTickBs x ∧ x ≠ []) (spans : List SpanSeg) (h : SegsOK spans) :
    FSegsOK (spansF x t spans) := by
  induction spans with
  | nil => intro s hs; simp [spansF] at hs; subst hs; exact hx
  | cons s r ih =>
    obtain ⟨h1, h2, h3, _, hr⟩ := h
    intro y hy
    simp only [spansF, List.mem_cons] at hy
    rcases hy with rfl | hy
    · exact ⟨h1, h2, h3⟩
    · exact ih hr y hy

theorem fsegsOK_flatten1 (segs : List Seg1) (h : ∀ s ∈ segs, K1Flat s.k) : FSegsOK (flatten1 segs) := by
  induction segs with
  | nil => intro s hs; cases hs
  | cons s r ih =>
    have ihr := ih (fun x hx => h x (List.mem_cons_of_mem _ hx))
    have hs := h s List.mem_cons_self
    obtain ⟨k, t⟩ := s
    cases k with
    | code n b =>
      intro y hy
      simp only [flatten1, List.mem_cons] at hy
      rcases hy with rfl | hy
      · exact hs
      · exact ihr y hy
    | em st d β =>
      intro y hy
      simp only [flatten1, List.mem_cons, List.mem_append] at hy
      rcases hy with rfl | hy | hy
      · exact dl_plain st d hs.1
      · exact fsegsOK_spansF _ t (dl_plain st d hs.1) β.spans hs.2 y hy
      · exact ihr y hy


/-- everything the proofs use of well-formed content, about its split form -/
structure DeepContentOK (c : List DocSpec.Inline) (t0 : Str) (segs : List Seg1) : Prop where
  items : deepItemsOK c = true
  run : wfRun .none c = true
  nobs : noBsBeforeCode c = true
  t0eq : t0 = (splitDeep c).1
  smap : segs.map (fun s => (s.k.q, s.t)) = (splitDeep c).2
  printed : ∀ s ∈ segs, K1Printed s.k
  under : UnderOK1 ESC (lastW ESC t0) segs

theorem mem_segs_splitDeep {c : List DocSpec.Inline} {t0 : Str} {segs : List Seg1} (h : DeepContentOK c t0 segs)
    {s : Seg1} (hs : s ∈ segs) : (s.k.q, s.t) ∈ (splitDeep c).2 := by
  rw [← h.smap]; exact List.mem_map.2 ⟨s, hs, rfl⟩

/-- the content of an emphasis is content in the sense of rung B -/
theorem body_content (st : Bool) (d : Char) (β : Body0) (hq : (K1.em st d β).q.ok) (hp : K1Printed (.em st d β)) :
    ∃ c', ContentOK c' β.u0 β.spans := by
  obtain ⟨c', hc', h1, h2⟩ := hq
  simp only [emBodyOK, Bool.and_eq_true] at hc'
  refine ⟨c', hc'.1.1.1.1, ?_, hc'.2, h1, h2, hp.2⟩
  simp [wfRun, hc'.1.1.1.2, hc'.1.1.2, hc'.1.2]

theorem item_facts (k : K1) (hq : k.q.ok) (hp : K1Printed k) :
    K1OK k ∧ K1Flat k ∧ k.clean ∧
      (∀ st d β, k = .em st d β → SegsOK β.spans ∧ (β.spans ≠ [] → β.u0.getLast? ≠ some '\\')) := by
  cases k with
  | code n b =>
    obtain ⟨hw, hlt⟩ := hq
    obtain ⟨_, hpr, _⟩ := wfCodeSpan_facts hw
    refine ⟨trivial, padded_ok n b hw hp, ?_, fun st d β e => by cases e⟩
    intro hm
    rcases mem_codeEscape hm with hm | hm
    · exact (printable_facts (hpr _ hm)).2.2.2.1 rfl
    · revert hm; decide
  | em st d β =>
    obtain ⟨c', hc⟩ := body_content st d β hq hp
    obtain ⟨f1, f2, f3, f4, f5⟩ := hc.facts
    refine ⟨⟨hp.1, f3, f2.ne, f2.first, f2.lastv⟩, ⟨hp.1, f1⟩, ?_, ?_⟩
    · intro s hs hm
      obtain ⟨_, hpr, _⟩ := wfCodeSpan_facts (f4 s hs).1
      rcases mem_codeEscape hm with hm | hm
      · exact (printable_facts (hpr _ hm)).2.2.2.1 rfl
      · revert hm; decide
    · intro st' d' β' e
      cases e
      exact ⟨f1, f5⟩

theorem junctions1_of (segs : List Seg1) :
    ∀ (t : Str) (pc : Bool), junctionsDQ t pc (segs.map (fun s => (s.k.q, s.t))) →
      (∀ s ∈ segs, ∀ st d β, s.k = .em st d β → SegsOK β.spans ∧ (β.spans ≠ [] → β.u0.getLast? ≠ some '\\')) →
      junctions1 t pc segs := by
  induction segs with
  | nil => intro _ _ _ _; trivial
  | cons s r ih =>
    intro t pc h hem
    simp only [List.map_cons, junctionsDQ, q1_isCode] at h
    exact ⟨h.1, hem s List.mem_cons_self, ih _ _ h.2 (fun x hx => hem x (List.mem_cons_of_mem _ hx))⟩

/-- a property of every token of the flat view follows from the property item by item -/
theorem forall_flatten1 (P : FSeg → Prop) (segs : List Seg1)
    (h : ∀ s ∈ segs, match s.k with
      | .code n b => P ⟨.code n b, s.t⟩
      | .em st d β => P ⟨.junk (dl st d), β.u0⟩ ∧ P ⟨.junk (dl st d), s.t⟩ ∧ ∀ sp ∈ β.spans, P ⟨.code sp.n sp.b, sp.t⟩) :
    ∀ tok ∈ flatten1 segs, P tok := by
  induction segs with
  | nil => intro tok ht; cases ht
  | cons s r ih =>
    have ihr := ih (fun x hx => h x (List.mem_cons_of_mem _ hx))
    have hs := h s List.mem_cons_self
    obtain ⟨k, t⟩ := s
    cases k with
    | code n b =>
      intro tok ht
      simp only [flatten1, List.mem_cons] at ht
      rcases ht with rfl | ht
      · exact hs
      · exact ihr tok ht
    | em st d β =>
      obtain ⟨h1, h2, h3⟩ := hs
      have hsp : ∀ (sp : List SpanSeg), (∀ x ∈ sp, P ⟨.code x.n x.b, x.t⟩) → ∀ tok ∈ spansF (dl st d) t sp, P tok := by
        intro sp hsp
        induction sp with
        | nil => intro tok ht; simp [spansF] at ht; subst ht; exact h2
        | cons a b ih2 =>
          intro tok ht
          simp only [spansF, List.mem_cons] at ht
          rcases ht with rfl | ht
          · exact hsp a List.mem_cons_self
          · exact ih2 (fun x hx => hsp x (List.mem_cons_of_mem _ hx)) tok ht
      intro tok ht
      simp only [flatten1, List.mem_cons, List.mem_append] at ht
      rcases ht with rfl | ht | ht
      · exact h1
      · exact hsp β.spans h3 tok ht
      · exact ihr tok ht

theorem lastTextF_spansF (x t u : Str) (rest : List FSeg) (spans : List SpanSeg) :
    lastTextF u (spansF x t spans ++ rest) = lastTextF t rest := by
  induction spans generalizing u with
  | nil => simp only [spansF, List.cons_append, List.nil_append]; rw [lastTextF_cons]
  | cons s r ih => simp only [spansF, List.cons_append]; rw [lastTextF_cons]; exact ih s.t

theorem lastTextF_flatten1 (segs : List Seg1) : ∀ t0, lastTextF t0 (flatten1 segs) = (segs.getLast?.map (·.t)).getD t0 := by
  induction segs with
  | nil => intro t0; rfl
  | cons s r ih =>
    intro t0
    obtain ⟨k, t⟩ := s
    have hr : ((⟨k, t⟩ :: r).getLast?.map (·.t)).getD t0 = (r.getLast?.map (·.t)).getD t := by
      cases r with
      | nil => rfl
      | cons a b =>
        simp only [List.getLast?_cons_cons]
        cases hg : (a :: b).getLast? with
        | none => exact absurd (List.getLast?_eq_none_iff.1 hg) (by simp)
        | some x => rfl
    rw [hr, ← ih t]
    cases k with
    | code n b => simp only [flatten1]; rw [lastTextF_cons]
    | em st d β => simp only [flatten1]; rw [lastTextF_cons, lastTextF_spansF]


/-- the source characters of a code span are safe and contain no line feed -/
theorem spanSrc_chars (n : Nat) (b : Str) (hw : wfCodeSpan b = true) (hlt : noLt b = true) :
    (∀ ch ∈ spanSrc n b, okCh ch) ∧ '\n' ∉ spanSrc n b := by
  obtain ⟨_, hpr, _⟩ := wfCodeSpan_facts hw
  have hsp : okCh ' ' := ⟨by decide, by decide, by decide, by decide, by decide, by decide⟩
  have htick : okCh '`' := ⟨by decide, by decide, by decide, by decide, by decide, by decide⟩
  have hpad : ∀ x ∈ codePad b, x = ' ' := by
    intro x hx; unfold codePad at hx; split at hx <;> simp at hx; exact hx
  have hall : ∀ ch ∈ spanSrc n b, okCh ch := by
    intro ch hc
    simp only [spanSrc, ticks, padded, List.mem_append] at hc
    rcases hc with hc | ((hc | hc) | hc) | hc
    · rw [List.eq_of_mem_replicate hc]; exact htick
    · rw [hpad _ hc]; exact hsp
    · refine okCh_printable (hpr _ hc) ?_
      intro e; subst e
      simp only [noLt, Bool.not_eq_true'] at hlt
      have : b.contains '<' = true := List.contains_iff_mem.2 hc
      rw [hlt] at this; cases this
    · rw [hpad _ hc]; exact hsp
    · rw [List.eq_of_mem_replicate hc]; exact htick
  exact ⟨hall, fun hm => (hall _ hm).1 rfl⟩

theorem dl_chars (st : Bool) (d : Char) (hd : d = '*' ∨ d = '_') :
    (∀ ch ∈ dl st d, okCh ch ∧ ch ≠ '&') ∧ '\n' ∉ dl st d := by
  have h : ∀ ch ∈ dl st d, okCh ch ∧ ch ≠ '&' := by
    intro ch hc
    have : ch = d := List.eq_of_mem_replicate hc
    rcases hd with e | e <;> rw [this, e] <;>
      exact ⟨⟨by decide, by decide, by decide, by decide, by decide, by decide⟩, by decide⟩
  exact ⟨h, fun hm => (h _ hm).1.1 rfl⟩

theorem DeepContentOK.facts {c : List DocSpec.Inline} {t0 : Str} {segs : List Seg1} (h : DeepContentOK c t0 segs) :
    Segs1OK segs ∧ (∀ s ∈ segs, s.k.clean) ∧ FSegsOK (flatten1 segs) ∧ junctionsF t0 false (flatten1 segs) ∧
      (∀ ch, (ch ∈ t0 ∨ ∃ s ∈ segs, ch ∈ s.t) → plainCh ch) ∧ (t0 ≠ [] ∨ segs ≠ []) ∧
      (t0 ≠ [] → startsVisible t0 = true) ∧
      (∀ z, ((segs.getLast?.map (·.t)).getD t0).getLast? = some z → isSpace z = false) ∧
      (∀ s ∈ segs, s.k.q.ok) := by
  have hrun := h.run
  simp only [wfRun, Bool.and_eq_true, decide_eq_true_eq, Bool.or_eq_true] at hrun
  obtain ⟨⟨⟨hst, hen⟩, hadj⟩, _⟩ := hrun
  obtain ⟨hc0, hcs⟩ := splitDeep_chars c h.items
  have hplain : ∀ ch, (ch ∈ t0 ∨ ∃ s ∈ segs, ch ∈ s.t) → plainCh ch := by
    intro ch hch
    rcases hch with hch | ⟨s, hs, hch⟩
    · rw [h.t0eq] at hch; exact hc0 ch hch
    · exact (hcs _ (mem_segs_splitDeep h hs)).1 ch hch
  have hq : ∀ s ∈ segs, s.k.q.ok := fun s hs => (hcs _ (mem_segs_splitDeep h hs)).2
  have hk := fun s hs => item_facts s.k (hq s hs) (h.printed s hs)
  have hne : c ≠ [] := by intro e; subst e; simp [startsOk] at hst
  have hj : junctionsF t0 false (flatten1 segs) := by
    apply junctionsF_flatten1
    apply junctions1_of
    · rw [h.smap, h.t0eq]; exact (splitDeep_junctions c h.items hadj h.nobs).1
    · exact fun s hs => (hk s hs).2.2.2
  refine ⟨fun s hs => (hk s hs).1, fun s hs => (hk s hs).2.2.1,
    fsegsOK_flatten1 segs (fun s hs => (hk s hs).2.1), hj, hplain, ?_, ?_, ?_, hq⟩
  · by_cases ht : t0 = []
    · right
      intro hs
      have : (splitDeep c).1 = [] ∧ (splitDeep c).2 = [] := by
        rw [← h.t0eq, ← h.smap, hs]; exact ⟨ht, rfl⟩
      exact hne ((splitDeep_nil_iff c h.items).1 this)
    · exact Or.inl ht
  · intro ht
    rw [h.t0eq] at ht ⊢
    exact splitDeep_first c h.items hst ht
  · intro z hz
    apply splitDeep_last c h.items hen z
    have : lastTextDQ (splitDeep c) = (segs.getLast?.map (·.t)).getD t0 := by
      simp only [lastTextDQ]
      rw [← h.smap, ← h.t0eq]
      simp only [List.getLast?_map]
      cases segs.getLast? <;> rfl
    rw [this]; exact hz

theorem DeepContentOK.l1TxtOK {c : List DocSpec.Inline} {t0 : Str} {segs : List Seg1} (h : DeepContentOK c t0 segs)
    (tag : Str) (htag : textTags.contains tag = true) : L1TxtOK ESC tag t0 segs := by
  obtain ⟨h1, h2, h3, h4, h5, h6, _, _, _⟩ := h.facts
  refine ⟨htag, h1, h3, h4, h.under, fun ch hch => ?_, h2, h6⟩
  obtain ⟨_, a2, a3, _, a5⟩ := plainCh_facts (h5 ch hch); exact ⟨a3, a2, a5⟩

/-- the facts about the tokens of the flat view -/
theorem DeepContentOK.tokens {c : List DocSpec.Inline} {t0 : Str} {segs : List Seg1} (h : DeepContentOK c t0 segs) :
    ∀ tok ∈ flatten1 segs, (∀ x ∈ tok.t, plainCh x) ∧ (∀ ch ∈ tok.k.src, okCh ch) ∧ '\n' ∉ tok.k.src ∧
      (∀ x, tok.k = .junk x → (x.head? = some '*' ∨ x.head? = some '_') ∧
        (x.getLast? = some '*' ∨ x.getLast? = some '_') ∧ '&' ∉ x) ∧
      (∀ n b, tok.k = .code n b → wfCodeSpan b = true ∧ ∃ k, n = k + 1) := by
  obtain ⟨_, _, _, _, h5, _, _, _, hq⟩ := h.facts
  apply forall_flatten1
  intro s hs
  have hqs := hq s hs
  have hps := h.printed s hs
  cases hk : s.k with
  | code n b =>
    rw [hk] at hqs hps
    obtain ⟨hw, hlt⟩ := hqs
    obtain ⟨a1, a2⟩ := spanSrc_chars n b hw hlt
    refine ⟨fun x hx => h5 x (Or.inr ⟨s, hs, hx⟩), a1, a2, ?_, ?_⟩
    · intro x e; cases e
    · intro n' b' e; cases e; exact ⟨hw, (padded_ok n b hw hps).1⟩
  | em st d β =>
    rw [hk] at hqs hps
    obtain ⟨c', hc⟩ := body_content st d β hqs hps
    obtain ⟨f1, f2, f3, f4, _⟩ := hc.facts
    obtain ⟨d1, d2⟩ := dl_chars st d hps.1
    have hjunk : ∀ x, FKind.junk (dl st d) = .junk x → (x.head? = some '*' ∨ x.head? = some '_') ∧
        (x.getLast? = some '*' ∨ x.getLast? = some '_') ∧ '&' ∉ x := by
      intro x e
      cases e
      refine ⟨?_, ?_, fun hm => (d1 _ hm).2 rfl⟩
      · rcases hps.1 with e | e <;> cases st <;> simp [dl, e]
      · rcases hps.1 with e | e <;> cases st <;> simp [dl, e]
    refine ⟨⟨fun x hx => f3 x (Or.inl hx), fun ch hc' => (d1 ch hc').1, d2, hjunk, fun n b e => by cases e⟩,
      ⟨fun x hx => h5 x (Or.inr ⟨s, hs, hx⟩), fun ch hc' => (d1 ch hc').1, d2, hjunk, fun n b e => by cases e⟩, ?_⟩
    intro sp hsp
    obtain ⟨hw, hlt⟩ := f4 sp hsp
    obtain ⟨a1, a2⟩ := spanSrc_chars sp.n sp.b hw hlt
    refine ⟨fun x hx => f3 x (Or.inr ⟨sp, hsp, hx⟩), a1, a2, ?_, ?_⟩
    · intro x e; cases e
    · intro n' b' e; cases e; exact ⟨hw, (f2.nls sp hsp).1⟩


theorem body_raw_head (β : Body0) (hβ : Body0OK β) (hsp : ∀ s ∈ β.spans, ∃ k, s.n = k + 1) (X : Str) :
    ∃ x tl, escAll ESC β.u0 ++ (rawSegs ESC β.spans ++ X) = x :: tl ∧ x ≠ ' ' ∧ x ≠ '*' ∧ x ≠ '_' := by
  cases hu : β.u0 with
  | cons c r =>
    by_cases hc : c ∈ ESC
    · exact ⟨'\\', _, by rw [escAll_cons_mem hc]; rfl, by decide, by decide, by decide⟩
    · have hv := hβ.first (by rw [hu]; simp)
      rw [hu] at hv
      have hcs : isSpace c = false := by simpa [startsVisible] using hv
      have hpl := hβ.plain c (Or.inl (by rw [hu]; simp))
      have ha : isAlnumSp c = true := by
        rcases hpl with h | h
        · exact h
        · exact absurd h hc
      have hf := wordCh_facts ha
      refine ⟨c, _, by rw [escAll_cons_not_mem hc]; rfl, ?_, hf.1, hf.2.1⟩
      intro e; subst e; exact absurd hcs (by decide)
  | nil =>
    have hne : β.spans ≠ [] := by rcases hβ.ne with h | h; exact absurd hu h; exact h
    cases hs : β.spans with
    | nil => exact absurd hs hne
    | cons sp r =>
      obtain ⟨k, hk⟩ := hsp sp (by rw [hs]; simp)
      refine ⟨'`', ticks k ++ (padded sp.b ++ ticks sp.n) ++ (escAll ESC sp.t ++ rawSegs ESC r) ++ X, ?_,
        by decide, by decide, by decide⟩
      simp [escAll, rawSegs, spanSrc, hk, ticks, List.replicate_succ, List.append_assoc]

theorem DeepContentOK.fline {c : List DocSpec.Inline} {t0 : Str} {segs : List Seg1} (h : DeepContentOK c t0 segs) :
    FLineOK ESC t0 (flatten1 segs) := by
  obtain ⟨h1, _, h3, _, h5, h6, h7, h8, hq⟩ := h.facts
  have htok := h.tokens
  refine ⟨?_, ?_, ?_, h7, ?_, ?_, h3, ?_⟩
  · exact fun hm => (plainCh_facts (h5 _ (Or.inl hm))).2.1 rfl
  · intro tok ht
    obtain ⟨a1, _, a3, _⟩ := htok tok ht
    exact ⟨fun hm => (plainCh_facts (a1 _ hm)).2.1 rfl, a3⟩
  · rcases h6 with h' | h'
    · exact Or.inl h'
    · right
      have := flatten1_length segs
      intro e; rw [e] at this
      cases segs with
      | nil => exact h' rfl
      | cons s r => simp at this
  · intro ht0
    have hne : segs ≠ [] := by rcases h6 with h' | h'; exact absurd ht0 h'; exact h'
    cases hsegs : segs with
    | nil => exact absurd hsegs hne
    | cons s r =>
      obtain ⟨k, t⟩ := s
      cases k with
      | code n b => exact Or.inl ⟨n, b, t, flatten1 r, rfl⟩
      | em st d β =>
        right
        have hs : (⟨K1.em st d β, t⟩ : Seg1) ∈ segs := by rw [hsegs]; simp
        have hk1 := h1 _ hs
        have hpr := h.printed _ hs
        obtain ⟨c', hc⟩ := body_content st d β (hq _ hs) hpr
        obtain ⟨_, f2, _⟩ := hc.facts
        obtain ⟨x, tl, he, hx1, hx2, hx3⟩ := body_raw_head β hk1.2 (fun s hs' => (f2.nls s hs').1)
          (dl st d ++ (escAll ESC t ++ rawF ESC (flatten1 r)))
        refine ⟨d, if st then 2 else 1, x, tl, ?_, hpr.1, by cases st <;> simp, by cases st <;> simp, ?_, hx1⟩
        · rw [rawF_flatten_em, he]; rfl
        · rcases hpr.1 with e | e <;> rw [e] <;> assumption
  · rw [lastTextF_flatten1]; exact h8
  · intro tok ht x hk
    obtain ⟨_, _, _, a4, _⟩ := htok tok ht
    obtain ⟨b1, b2, _⟩ := a4 x hk
    refine ⟨fun z hz => ?_, fun c' hc' => ?_⟩
    · rcases b2 with e | e <;> rw [e] at hz <;> cases hz <;> exact ⟨by decide, by decide, by decide⟩
    · rcases b1 with e | e <;> rw [e] at hc' <;> cases hc' <;> exact ⟨by decide, by decide, by decide⟩

theorem deep_raw_chars {c : List DocSpec.Inline} {t0 : Str} {segs : List Seg1} (h : DeepContentOK c t0 segs) :
    ∀ ch ∈ escAll ESC t0 ++ rawF ESC (flatten1 segs), okCh ch := by
  obtain ⟨_, _, _, _, h5, _⟩ := h.facts
  have htok := h.tokens
  have hpl : ∀ x, plainCh x → okCh x := fun x hx => okCh_plain (plainCh_facts hx).1 (plainCh_facts hx).2.1
  have hesc : ∀ (t : Str), (∀ x ∈ t, plainCh x) → ∀ x ∈ escAll ESC t, okCh x := by
    intro t ht x hx
    rcases mem_escAll hx with rfl | hx
    · exact ⟨by decide, by decide, by decide, by decide, by decide, by decide⟩
    · exact hpl x (ht x hx)
  intro ch hch
  rcases List.mem_append.1 hch with hch | hch
  · exact hesc t0 (fun x hx => h5 x (Or.inl hx)) ch hch
  · obtain ⟨tok, ht, hc | hc⟩ := mem_rawF hch
    · exact (htok tok ht).2.1 ch hc
    · exact hesc tok.t (htok tok ht).1 ch hc

theorem refsClosed_rawF (F : List FSeg)
    (h : ∀ tok ∈ F, (∀ x ∈ tok.t, plainCh x) ∧ (∀ x, tok.k = .junk x → '&' ∉ x) ∧
      (∀ n b, tok.k = .code n b → wfCodeSpan b = true ∧ ∃ k, n = k + 1)) (Z : Str)
    (hZ : refsClosed Z = true) : refsClosed (rawF ESC F ++ Z) = true := by
  induction F with
  | nil => simpa [rawF] using hZ
  | cons s r ih =>
    obtain ⟨hpl, hj, hc⟩ := h s List.mem_cons_self
    have ihr := ih (fun x hx => h x (List.mem_cons_of_mem _ hx))
    have hrest : refsClosed (escAll ESC s.t ++ (rawF ESC r ++ Z)) = true :=
      refsClosed_noamp_append _ _ (no_amp_escAll s.t hpl) ihr
    have e : rawF ESC (s :: r) ++ Z = s.k.src ++ (escAll ESC s.t ++ (rawF ESC r ++ Z)) := by
      simp [rawF, List.append_assoc]
    rw [e]
    cases hk : s.k with
    | code n b =>
      obtain ⟨hw, hn⟩ := hc n b hk
      exact refsClosed_spanSrc n b hn hw _ hrest
    | junk x => exact refsClosed_noamp_append _ _ (hj x hk) hrest

theorem refsClosed_deepRaw {c : List DocSpec.Inline} {t0 : Str} {segs : List Seg1} (h : DeepContentOK c t0 segs)
    (P Q : Str) (hP : '&' ∉ P) (hQ : '&' ∉ Q) :
    refsClosed (P ++ (escAll ESC t0 ++ rawF ESC (flatten1 segs)) ++ Q) = true := by
  obtain ⟨_, _, _, _, h5, _⟩ := h.facts
  have htok := h.tokens
  have hQc : refsClosed Q = true := refsClosed_of_no_amp Q hQ
  have := refsClosed_rawF (flatten1 segs) (fun tok ht =>
    ⟨(htok tok ht).1, fun x hk => ((htok tok ht).2.2.2.1 x hk).2.2, (htok tok ht).2.2.2.2⟩) Q hQc
  have h0 := refsClosed_noamp_append _ _ (no_amp_escAll t0 (fun x hx => h5 x (Or.inl hx))) this
  have := refsClosed_noamp_append P _ hP h0
  simpa [List.append_assoc] using this


/-! ### 45. the specification side, and the pieces -/

theorem l1Src_raw (esc : List Char) (tag t0 : Str) (segs : List Seg1) :
    l1Src esc tag t0 segs = { tag := .name tag, text := some (escAll esc t0 ++ rawF esc (flatten1 segs)) } := by
  simp only [l1Src, stageF_raw]

def Q1.spec : Q1 → Str
  | .code b => S "<code>" ++ htmlEsc b ++ S "</code>"
  | .em st u0 sp => '<' :: emTagS st ++ ['>'] ++ (htmlEsc u0 ++ specSegs sp) ++ ('<' :: '/' :: emTagS st ++ ['>'])

theorem Q1.spec_code (b : Str) : (Q1.code b).spec = S "<code>" ++ htmlEsc b ++ S "</code>" := rfl
theorem Q1.spec_em (st : Bool) (u0 : Str) (sp : List (Str × Str)) :
    (Q1.em st u0 sp).spec =
      '<' :: emTagS st ++ ['>'] ++ (htmlEsc u0 ++ specSegs sp) ++ ('<' :: '/' :: emTagS st ++ ['>']) := rfl

def specDeep : List (Q1 × Str) → Str
  | [] => []
  | q :: r => q.1.spec ++ htmlEsc q.2 ++ specDeep r

theorem specDeep_cons (q : Q1 × Str) (r : List (Q1 × Str)) :
    specDeep (q :: r) = q.1.spec ++ htmlEsc q.2 ++ specDeep r := rfl

theorem specInlines_splitDeep (c : List DocSpec.Inline) (h : deepItemsOK c = true) :
    specInlines c = htmlEsc (splitDeep c).1 ++ specDeep (splitDeep c).2 := by
  revert h
  refine deepItems_ind (motive := fun c => specInlines c = htmlEsc (splitDeep c).1 ++ specDeep (splitDeep c).2)
    ?_ ?_ ?_ ?_ ?_ ?_ c
  · rfl
  · intro w r _ _ ih
    rw [specInlines_cons, specInline_text, ih, splitDeep_text, htmlEsc_append, List.append_assoc]
  · intro ch r _ _ ih
    have : ch :: (splitDeep r).1 = [ch] ++ (splitDeep r).1 := rfl
    rw [specInlines_cons, specInline_esc, ih, splitDeep_esc, this, htmlEsc_append, List.append_assoc]
  · intro b r _ _ _ ih
    rw [specInlines_cons, specInline_code, ih, splitDeep_code, specDeep_cons, Q1.spec_code]
    simp only [List.append_assoc]
    rfl
  · intro c' r hc' _ ih
    simp only [emBodyOK, Bool.and_eq_true] at hc'
    rw [specInlines_cons, specInline_em_gen, specInlines_split c' hc'.1.1.1.1, ih, splitDeep_em, specDeep_cons,
      Q1.spec_em]
    simp only [List.append_assoc]
    rfl
  · intro c' r hc' _ ih
    simp only [emBodyOK, Bool.and_eq_true] at hc'
    rw [specInlines_cons, specInline_strong_gen, specInlines_split c' hc'.1.1.1.1, ih, splitDeep_strong, specDeep_cons,
      Q1.spec_em]
    simp only [List.append_assoc]
    rfl

open Code in
theorem kout1_eq_code (n : Nat) (b : Str) : kout1 (.code n b) = (K1.code n b).q.spec := by
  show "<code>".toList ++ Ser.escCdata (Code.codeEscape b) ++ "</code>".toList = S "<code>" ++ htmlEsc b ++ S "</code>"
  rw [htmlEsc_eq_codeEscape b, codeEscape_onepass, escCdata_codeEscape1]

theorem kout1_eq_em (st : Bool) (d : Char) (β : Body0) (hu : '&' ∉ β.u0) (hsp : ∀ s ∈ β.spans, '&' ∉ s.t) :
    kout1 (.em st d β) = (K1.em st d β).q.spec := by
  show '<' :: emTagS st ++ ['>'] ++ (Ser.escCdata β.u0 ++ outSegs β.spans) ++ ('<' :: '/' :: emTagS st ++ ['>']) =
    '<' :: emTagS st ++ ['>'] ++ (htmlEsc β.u0 ++ specSegs (β.spans.map (fun s => (s.b, s.t)))) ++
      ('<' :: '/' :: emTagS st ++ ['>'])
  rw [htmlEsc_eq_escCdata β.u0 hu, outSegs_eq β.spans hsp]

/-- no `&` in the texts inside an emphasis -/
def K1.noAmp : K1 → Prop
  | .code _ _ => True
  | .em _ _ β => '&' ∉ β.u0 ∧ ∀ s ∈ β.spans, '&' ∉ s.t

theorem kout1_eq (k : K1) (h : k.noAmp) : kout1 k = k.q.spec :=
  match k, h with
  | .code n b, _ => kout1_eq_code n b
  | .em st d β, h => kout1_eq_em st d β h.1 h.2

theorem out1_eq (segs : List Seg1) (h : ∀ s ∈ segs, '&' ∉ s.t ∧ s.k.noAmp) :
    out1 segs = specDeep (segs.map (fun s => (s.k.q, s.t))) := by
  induction segs with
  | nil => rfl
  | cons s r ih =>
    rw [out1_cons, List.map_cons, specDeep_cons, ih (fun x hx => h x (List.mem_cons_of_mem _ hx)),
      htmlEsc_eq_escCdata s.t (h s List.mem_cons_self).1, kout1_eq s.k (h s List.mem_cons_self).2]

theorem l1Out_eq {c : List DocSpec.Inline} {t0 : Str} {segs : List Seg1} (h : DeepContentOK c t0 segs)
    (tag : Str) : l1Out tag t0 segs = '<' :: tag ++ ['>'] ++ specInlines c ++ ('<' :: '/' :: tag ++ ['>']) := by
  obtain ⟨h1, _, _, _, h5, _⟩ := h.facts
  have ha0 : '&' ∉ t0 := fun hm => (plainCh_facts (h5 _ (Or.inl hm))).2.2.1 rfl
  have has : ∀ s ∈ segs, '&' ∉ s.t ∧ s.k.noAmp := fun s hs =>
    ⟨fun hm => (plainCh_facts (h5 _ (Or.inr ⟨s, hs, hm⟩))).2.2.1 rfl, by
      have := h1 s hs
      cases hk : s.k with
      | code n b => trivial
      | em st d β =>
        rw [hk] at this
        exact ⟨fun hm => (plainCh_facts (this.2.plain _ (Or.inl hm))).2.2.1 rfl,
          fun x hx hm => (plainCh_facts (this.2.plain _ (Or.inr ⟨x, hx, hm⟩))).2.2.1 rfl⟩⟩
  rw [specInlines_splitDeep c h.items, ← h.t0eq, ← h.smap, ← out1_eq segs has, htmlEsc_eq_escCdata t0 ha0]
  simp [l1Out, List.append_assoc]

/-! #### the printed blocks as pieces -/

theorem printContent_deep (c : List DocSpec.Inline) (brOk : Bool) (hp : deepRun c = true)
    (hw : wfInlines false .none brOk c = true) (st : PSt) :
    ∃ (t0 : Str) (segs : List Seg1) (st' : PSt),
      printContent c st = ([escAll ESC t0 ++ rawF ESC (flatten1 segs)], st') ∧ st'.defs = st.defs ∧
        DeepContentOK c t0 segs := by
  simp only [deepRun, Bool.and_eq_true] at hp
  simp only [wfInlines, Bool.and_eq_true] at hw
  have hitems := deepItemsOK_of_wf c brOk hp.1 hw.2
  obtain ⟨segs, st', hpr, hd, hm, hds, hu⟩ := printInlines_deep c hitems true true st
  rw [pwOf_true] at hu
  have hok : DeepContentOK c (splitDeep c).1 segs := ⟨hitems, hw.1, hp.2, rfl, hm, hds, hu⟩
  refine ⟨(splitDeep c).1, segs, st', ?_, hd, hok⟩
  have hnl := (rawOK_flat escOK_generated _ (flatten1 segs) hok.fline).nl
  simp only [printContent, hpr]
  rw [splitC_noNl _ (notNl_of_not_mem hnl)]

/-- the facts about a line `P ++ raw ++ Q` around the content -/
theorem line_facts_deep {c : List DocSpec.Inline} {t0 : Str} {segs : List Seg1} (h : DeepContentOK c t0 segs) (P Q : Str)
    (hP : ∀ x ∈ P, okCh x ∧ x ≠ '&') (hQ : ∀ x ∈ Q, okCh x ∧ x ≠ '&') :
    (lineSafe (P ++ (escAll ESC t0 ++ rawF ESC (flatten1 segs)) ++ Q) = true ∧
      '<' ∉ P ++ (escAll ESC t0 ++ rawF ESC (flatten1 segs)) ++ Q ∧
      refsClosed (P ++ (escAll ESC t0 ++ rawF ESC (flatten1 segs)) ++ Q) = true) ∧
    '\n' ∉ P ++ (escAll ESC t0 ++ rawF ESC (flatten1 segs)) ++ Q ∧
    ∃ x ∈ P ++ (escAll ESC t0 ++ rawF ESC (flatten1 segs)) ++ Q, isSpace x = false := by
  have hraw := rawOK_flat escOK_generated t0 (flatten1 segs) h.fline
  obtain ⟨c0, tail, he, hcs, _⟩ := hraw.shape
  have hc0 : c0 ∈ P ++ (escAll ESC t0 ++ rawF ESC (flatten1 segs)) ++ Q := by rw [he]; simp
  have hch : ∀ x ∈ P ++ (escAll ESC t0 ++ rawF ESC (flatten1 segs)) ++ Q, okCh x := by
    intro x hx
    simp only [List.mem_append] at hx
    rcases hx with (hx | hx) | hx
    · exact (hP x hx).1
    · exact deep_raw_chars h x (List.mem_append.2 hx)
    · exact (hQ x hx).1
  have hs := safe_of_okCh _ hch ⟨c0, hc0, by intro e; subst e; exact absurd hcs (by decide)⟩
  exact ⟨⟨hs.1, hs.2, refsClosed_deepRaw h P Q (fun hm => (hP _ hm).2 rfl) (fun hm => (hQ _ hm).2 rfl)⟩,
    fun hm => (hch _ hm).1 rfl, c0, hc0, hcs⟩

/-- a paragraph with emphasis around words, escapes and code spans, indented by `i < 4` -/
theorem deepPara_ok {c : List DocSpec.Inline} {t0 : Str} {segs : List Seg1} (h : DeepContentOK c t0 segs) (i : Nat)
    (hi : i < 4) :
    Piece2OK {} (l1Piece ESC [spaces i ++ (escAll ESC t0 ++ rawF ESC (flatten1 segs))] "p".toList t0 segs) := by
  have hraw := rawOK_flat escOK_generated t0 (flatten1 segs) h.fline
  obtain ⟨⟨hs1, hs2, hs3⟩, hnl, hvis⟩ := line_facts_deep h (spaces i) [] (okCh_spaces i) (by simp)
  simp only [List.append_nil] at hs1 hs2 hs3 hnl hvis
  apply l1Piece_ok _ _ _ _ (h.l1TxtOK _ (by decide)) (by simp)
  · simp only [joinLines, join_singleton]
    apply nel_line _ _ hnl
    obtain ⟨x, hx, _⟩ := hvis
    intro e; rw [e] at hx; simp at hx
  · simp only [joinLines, join_singleton]
    rw [l1Src_raw]; exact produces_para_raw 4 i hi (by omega) _ hraw
  · intro l hl
    have : l = spaces i ++ (escAll ESC t0 ++ rawF ESC (flatten1 segs)) := by simpa using hl
    subst this; exact ⟨hs1, hs2, hs3⟩
  · simpa [joinLines] using hvis


/-- a Setext heading with emphasis around words, escapes and code spans -/
theorem deepSetext_ok {c : List DocSpec.Inline} {t0 : Str} {segs : List Seg1} (h : DeepContentOK c t0 segs)
    (i : Nat) (hi : i < 4) (lv k : Nat) (hlv : lv = 1 ∨ lv = 2) :
    Piece2OK {} (l1Piece ESC [spaces i ++ (escAll ESC t0 ++ rawF ESC (flatten1 segs)),
      List.replicate (k + 1) (if lv = 1 then '=' else '-')] ('h' :: natToDec lv) t0 segs) := by
  have hraw := rawOK_flat escOK_generated t0 (flatten1 segs) h.fline
  obtain ⟨⟨hs1, hs2, hs3⟩, hnl, hvis⟩ := line_facts_deep h (spaces i) [] (okCh_spaces i) (by simp)
  simp only [List.append_nil] at hs1 hs2 hs3 hnl hvis
  have hprod := produces_setext_raw 4 i hi _ hraw lv k hlv
  generalize hu : (if lv = 1 then '=' else '-') = ch at *
  have hch2 : ch = '=' ∨ ch = '-' := by rw [← hu]; split <;> simp
  have hunl : '\n' ∉ List.replicate (k + 1) ch := by
    intro hm; have := List.eq_of_mem_replicate hm
    rcases hch2 with h' | h' <;> rw [h'] at this <;> exact absurd this (by decide)
  have hjoin : joinLines [spaces i ++ (escAll ESC t0 ++ rawF ESC (flatten1 segs)), List.replicate (k + 1) ch] =
      spaces i ++ (escAll ESC t0 ++ rawF ESC (flatten1 segs)) ++ '\n' :: List.replicate (k + 1) ch := by
    simp [joinLines, join]
  have hlne : spaces i ++ (escAll ESC t0 ++ rawF ESC (flatten1 segs)) ≠ [] := by
    obtain ⟨x, hx, _⟩ := hvis
    intro e; rw [e] at hx; simp at hx
  apply l1Piece_ok _ _ _ _ (h.l1TxtOK _ (hTag_mem lv (by omega) (by omega))) (by simp)
  · rw [hjoin]
    exact nel_two_lines _ _ hlne (by simp [List.replicate_succ]) hnl hunl
  · rw [hjoin, l1Src_raw]; exact hprod
  · intro l hl
    simp only [List.mem_cons, List.mem_nil_iff, or_false] at hl
    rcases hl with rfl | rfl
    · exact ⟨hs1, hs2, hs3⟩
    · have hall : ∀ x ∈ List.replicate (k + 1) ch, okCh x ∧ x ≠ '&' := by
        intro x hx; rw [List.eq_of_mem_replicate hx]
        rcases hch2 with h' | h' <;> rw [h'] <;>
          exact ⟨⟨by decide, by decide, by decide, by decide, by decide, by decide⟩, by decide⟩
      have := safe_of_okCh _ (fun x hx => (hall x hx).1)
        ⟨ch, by simp [List.replicate_succ], by rcases hch2 with h' | h' <;> rw [h'] <;> decide⟩
      exact ⟨this.1, this.2, refsClosed_of_no_amp _ (fun hm => (hall _ hm).2 rfl)⟩
  · obtain ⟨x, hx, hxs⟩ := hvis
    exact ⟨x, by rw [hjoin]; exact List.mem_append_left _ hx, hxs⟩

/-- an ATX heading with emphasis around words, escapes and code spans -/
theorem deepAtx_ok {c : List DocSpec.Inline} {t0 : Str} {segs : List Seg1} (h : DeepContentOK c t0 segs)
    (lv : Nat) (h1 : 1 ≤ lv) (h6 : lv ≤ 6) (Y : Str) (hY : Y = [] ∨ ∃ m, Y = ' ' :: List.replicate m '#') :
    Piece2OK {} (l1Piece ESC [List.replicate lv '#' ++ ' ' :: ((escAll ESC t0 ++ rawF ESC (flatten1 segs)) ++ Y)]
      ('h' :: natToDec lv) t0 segs) := by
  have hraw := rawOK_flat escOK_generated t0 (flatten1 segs) h.fline
  have hhash : okCh '#' ∧ ('#' : Char) ≠ '&' :=
    ⟨⟨by decide, by decide, by decide, by decide, by decide, by decide⟩, by decide⟩
  have hP : ∀ x ∈ List.replicate lv '#' ++ [' '], okCh x ∧ x ≠ '&' := by
    intro x hx
    rcases List.mem_append.1 hx with hx | hx
    · rw [List.eq_of_mem_replicate hx]; exact hhash
    · have : x = ' ' := by simpa using hx
      rw [this]; exact okCh_space
  have hQ : ∀ x ∈ Y, okCh x ∧ x ≠ '&' := by
    intro x hx
    rcases hY with rfl | ⟨m, rfl⟩
    · simp at hx
    · rcases List.mem_cons.1 hx with hx | hx
      · rw [hx]; exact okCh_space
      · rw [List.eq_of_mem_replicate hx]; exact hhash
  obtain ⟨⟨hs1, hs2, hs3⟩, hnl, hvis⟩ := line_facts_deep h _ Y hP hQ
  have hline : List.replicate lv '#' ++ [' '] ++ (escAll ESC t0 ++ rawF ESC (flatten1 segs)) ++ Y =
      List.replicate lv '#' ++ ' ' :: ((escAll ESC t0 ++ rawF ESC (flatten1 segs)) ++ Y) := by simp [List.append_assoc]
  rw [hline] at hs1 hs2 hs3 hnl hvis
  apply l1Piece_ok _ _ _ _ (h.l1TxtOK _ (hTag_mem lv h1 h6)) (by simp)
  · simp only [joinLines, join_singleton]
    apply nel_line _ _ hnl
    obtain ⟨x, hx, _⟩ := hvis
    intro e; rw [e] at hx; simp at hx
  · simp only [joinLines, join_singleton]
    rw [l1Src_raw]; exact produces_atx_raw 4 (by omega) _ hraw lv h1 h6 Y hY
  · intro l hl
    have : l = List.replicate lv '#' ++ ' ' :: ((escAll ESC t0 ++ rawF ESC (flatten1 segs)) ++ Y) := by simpa using hl
    subst this; exact ⟨hs1, hs2, hs3⟩
  · simpa [joinLines] using hvis





/-! #### every printed block of the sub-grammar -/

theorem l1Piece_out (g : List Str) (tag t0 : Str) (segs : List Seg1) :
    (l1Piece ESC g tag t0 segs).elem.out = l1Out tag t0 segs := rfl

theorem printBlock_deep (b : DocSpec.Block) (hf : isDeepBlock b = true) (hw : wfBlock none b = true) (st : PSt) :
    ∃ (p : Piece2) (st' : PSt), printBlock true b st = (p.b.g, st') ∧ st'.defs = st.defs ∧
      Piece2OK {} p ∧ p.elem.out = specBlock b ∧ p.b.isCode = isCode b := by
  cases b with
  | rule => exact printBlock_span .rule rfl hw st
  | code ls => exact printBlock_span (.code ls) hf hw st
  | para c =>
    simp only [isDeepBlock] at hf
    simp only [wfBlock] at hw
    obtain ⟨t0, segs, st', hpc, hd, hok⟩ := printContent_deep c true hf hw (draw st).2
    refine ⟨l1Piece ESC [spaces ((draw st).1 % 4) ++ (escAll ESC t0 ++ rawF ESC (flatten1 segs))] "p".toList t0 segs,
      st', ?_, by rw [hd, draw_defs], deepPara_ok hok _ (Nat.mod_lt _ (by omega)), ?_, rfl⟩
    · rw [printBlock_para, hpc]; rfl
    · rw [l1Piece_out, l1Out_eq hok, specBlock_para]
      simp [S]
  | atx l c =>
    simp only [isDeepBlock] at hf
    simp only [wfBlock, Bool.and_eq_true, decide_eq_true_eq] at hw
    obtain ⟨t0, segs, st', hpc, hd, hok⟩ := printContent_deep c false hf hw.2 (draw st).2
    have hY : atxClosing (draw st).1 l = [] ∨ ∃ m, atxClosing (draw st).1 l = ' ' :: List.replicate m '#' := by
      unfold atxClosing
      split
      · exact Or.inl rfl
      · split
        · exact Or.inr ⟨1, rfl⟩
        · exact Or.inr ⟨l, rfl⟩
    refine ⟨l1Piece ESC [List.replicate l '#' ++ ' ' :: ((escAll ESC t0 ++ rawF ESC (flatten1 segs)) ++
        atxClosing (draw st).1 l)] ('h' :: natToDec l) t0 segs,
      st', ?_, by rw [hd, draw_defs], deepAtx_ok hok l hw.1.1 hw.1.2 _ hY, ?_, rfl⟩
    · rw [printBlock_atx, hpc]
      simp [atxLine, join, rep, List.append_assoc, l1Piece, chunkB]
    · rw [l1Piece_out, l1Out_eq hok, specBlock_atx]
      simp [S, List.append_assoc]
  | setext l c =>
    simp only [isDeepBlock] at hf
    simp only [wfBlock, Bool.and_eq_true, Bool.or_eq_true, decide_eq_true_eq] at hw
    obtain ⟨t0, segs, st', hpc, hd, hok⟩ := printContent_deep c false hf hw.2 (draw (draw st).2).2
    refine ⟨l1Piece ESC [spaces ((draw st).1 % 4) ++ (escAll ESC t0 ++ rawF ESC (flatten1 segs)),
          List.replicate ((draw (draw st).2).1 % 8 + 1) (if l = 1 then '=' else '-')] ('h' :: natToDec l) t0 segs,
      st', ?_, by rw [hd]; simp [draw_defs], deepSetext_ok hok _ (Nat.mod_lt _ (by omega)) l _ hw.1, ?_, rfl⟩
    · rw [printBlock_setext, hpc]; rfl
    · rw [l1Piece_out, l1Out_eq hok, specBlock_setext]
      simp [S, List.append_assoc]
  | quote _ => simp [isDeepBlock] at hf
  | ulist _ _ => simp [isDeepBlock] at hf
  | olist _ _ => simp [isDeepBlock] at hf

theorem printBlocks_deep (d : Doc) (hne : d ≠ []) (hf : ∀ b ∈ d, isDeepBlock b = true)
    (hw : ∀ b ∈ d, wfBlock none b = true) (hnext : okNexts d = true) :
    ∀ st : PSt, ∃ (ps : List Piece2) (st' : PSt), printBlocks true d st = (flatLines (ps.map (·.b.g)), st') ∧
      st'.defs = st.defs ∧ ps ≠ [] ∧ (∀ p ∈ ps, Piece2OK {} p) ∧
      joinOutS (ps.map (·.elem.out)) = specBlocks d ∧ noCodeAfterCode (ps.map (·.b)) ∧
      (ps.head?.map (·.b.isCode) = d.head?.map isCode) := by
  induction d with
  | nil => exact absurd rfl hne
  | cons b r ih =>
    intro st
    obtain ⟨p, st1, hp, hd1, hok, hout, hcode⟩ :=
      printBlock_deep b (hf b List.mem_cons_self) (hw b List.mem_cons_self) st
    cases r with
    | nil =>
      refine ⟨[p], st1, ?_, hd1, by simp, ?_, ?_, trivial, by simp [hcode]⟩
      · rw [printBlocks_one, hp]; rfl
      · intro q hq; have : q = p := by simpa using hq
        subst this; exact hok
      · rw [specBlocks_one, ← hout]; rfl
    | cons b' r' =>
      rw [okNexts_cons2, Bool.and_eq_true] at hnext
      obtain ⟨ps, st2, hps, hd2, hpsne, hoks, houts, hadj, hhead⟩ := ih (by simp)
        (fun x hx => hf x (List.mem_cons_of_mem _ hx)) (fun x hx => hw x (List.mem_cons_of_mem _ hx)) hnext.2 st1
      obtain ⟨q, qs, rfl⟩ : ∃ q qs, ps = q :: qs := by
        cases ps with
        | nil => exact absurd rfl hpsne
        | cons q qs => exact ⟨q, qs, rfl⟩
      have hq : q.b.isCode = isCode b' := by simpa using hhead
      refine ⟨p :: q :: qs, st2, ?_, by rw [hd2, hd1], by simp, ?_, ?_, ?_, by simp [hcode]⟩
      · rw [printBlocks_cons2, hp]
        simp only [hps]
        rfl
      · intro x hx
        rcases List.mem_cons.1 hx with rfl | hx
        · exact hok
        · exact hoks x hx
      · rw [specBlocks_cons2, ← houts, ← hout]; rfl
      · refine ⟨?_, hadj⟩
        intro hqc
        rw [hq] at hqc
        rw [hcode]
        have h1 := hnext.1
        simp only [okNext, hqc, Bool.and_true, Bool.and_eq_true, Bool.not_eq_true', Bool.or_eq_false_iff] at h1
        exact h1.1.2.1

/-- **C01 on documents with emphasis around words, escapes and code spans**: every spelling of a well-formed document of the
    sub-grammar converts to what `spec` prescribes -/
theorem convert_deepDoc (d : Doc) (sp : Spelling) (hwf : WF d = true) (hs : DocSpec.DeepDoc d = true) :
    Pipeline.convert {} (print d sp) = .ok (spec d) := by
  simp only [WF, Bool.and_eq_true, Bool.not_eq_true', List.isEmpty_eq_false_iff] at hwf
  obtain ⟨⟨⟨hne, hnx⟩, hbl⟩, _⟩ := hwf
  have hf : ∀ b ∈ d, isDeepBlock b = true := by
    simpa [DocSpec.DeepDoc, List.all_eq_true] using hs
  obtain ⟨ps, st', hps, hdefs, hpsne, hoks, houts, hadj, _⟩ :=
    printBlocks_deep d hne hf (wfBlockList_mem hbl) hnx ⟨sp.choices, 1, []⟩
  have hprint : print d sp = joinLines (flatLines (ps.map (·.b.g))) := by
    simp only [print, hps]
    have : st'.defs = [] := hdefs
    simp [this, joinLines]
  rw [hprint, spec, ← houts]
  exact convert_pieces2 {} rfl rfl ps hpsne hoks hadj




end MdVerif.DocParse2
