/-
C01, emphasis inside emphasis (`Props/C01b.lean`, `C01_em_nested`): the content of an `em` / `strong` may contain, next
to words, escapes and code spans, one more level of `strong` / `em` (around words, escapes and code spans), as far as
`WF` allows it.  Continues `Lemmas/DocParse2.lean` (same namespace); a separate file only to keep build times low.

How the converter treats `*a __b__ c*` and `_a **b** c_` differently:
* patterns 0 and 1 (code spans, escapes) do not see the nesting (`flatten2`, section 33 of `DocParse2`);
* pattern 14 (`*`): an outer `*` emphasis is matched as a whole, and the nested `__handleInline` call on its content —
  from pattern 15 on — takes the inner `_` emphases out (`hi15_line1`); the inner `*` emphases of an outer `_`
  emphasis are found by the same top-level pass (`star_pass1` with the outer delimiters as context);
* pattern 15 (`_`): the outer `_` emphases, whose content then contains only placeholders;
* `__processPlaceholders` resolves an outer element's content recursively (`pp_L1`).
-/
import MdVerif.Lemmas.DocParse2

namespace MdVerif.DocParse2
open Py DocSpec CodeLaw Inline DocParse Block Escape

/-! ### 46. lines with emphasis inside emphasis -/

/-- the content of an outer emphasis: a line whose emphases contain words, escapes and code spans -/
structure Body1 where
  u0 : Str
  segs : List Seg1

inductive K2
  | code (n : Nat) (b : Str)
  | em (strong : Bool) (d : Char) (β : Body1)

structure Seg2 where
  k : K2
  t : Str

def K2.cls : K2 → Nat
  | .code _ _ => 0
  | .em _ d _ => if d = '*' then 1 else 2

/-- the number of emphases of class `c` directly in a line -/
def count1 (c : Nat) : List Seg1 → Nat
  | [] => 0
  | s :: r => (if s.k.cls = c then 1 else 0) + count1 c r

/-- escapes and code spans of a line (inside its emphases too) -/
def lineEsc1 (esc : List Char) : List Seg1 → Nat
  | [] => 0
  | s :: r => s.k.esc esc + escCount esc s.t + lineEsc1 esc r

def lineCodes1 : List Seg1 → Nat
  | [] => 0
  | s :: r => s.k.codes + lineCodes1 r

def K2.esc (esc : List Char) : K2 → Nat
  | .code _ _ => 0
  | .em _ _ β => escCount esc β.u0 + lineEsc1 esc β.segs

def K2.codes : K2 → Nat
  | .code _ _ => 1
  | .em _ _ β => lineCodes1 β.segs

/-- what an item adds to the `*` counter: an outer `*` emphasis its inner `_` emphases and itself, an outer `_`
    emphasis its inner `*` emphases -/
def K2.stars : K2 → Nat
  | .code _ _ => 0
  | .em _ d β => if d = '*' then count1 2 β.segs + 1 else count1 1 β.segs

def K2.unders : K2 → Nat
  | .code _ _ => 0
  | .em _ d _ => if d = '*' then 0 else 1

/-- an item once code spans and escapes are out and the top-level classes below `lv` are collapsed; the content of an
    emphasis that is still there is at the same level -/
def item2 (esc : List Char) (lv m n0 n1 n2 : Nat) : K2 → Str
  | .code _ _ => placeholder n0
  | .em st d β =>
    if (K2.em st d β).cls < lv then placeholder (if d = '*' then n1 + count1 2 β.segs else n2)
    else dl st d ++ ((resid esc m β.u0 ++ stageL1 esc lv (m + escCount esc β.u0) n0 n1 n1 β.segs) ++ dl st d)

def stage2L (esc : List Char) (lv : Nat) : Nat → Nat → Nat → Nat → List Seg2 → Str
  | _, _, _, _, [] => []
  | m, n0, n1, n2, s :: r =>
    item2 esc lv m n0 n1 n2 s.k ++ (resid esc (m + s.k.esc esc) s.t ++
      stage2L esc lv (m + s.k.esc esc + escCount esc s.t) (n0 + s.k.codes) (n1 + s.k.stars) (n2 + s.k.unders) r)

/-- the flat view -/
def flatten2 : List Seg2 → List FSeg
  | [] => []
  | ⟨.code n b, t⟩ :: r => ⟨.code n b, t⟩ :: flatten2 r
  | ⟨.em st d β, t⟩ :: r => ⟨.junk (dl st d), β.u0⟩ :: (flatten1 β.segs ++ (⟨.junk (dl st d), t⟩ :: flatten2 r))

theorem codesF_cons_junk (x t : Str) (r : List FSeg) : codesF (⟨.junk x, t⟩ :: r) = codesF r := rfl
theorem codesF_cons_code (n : Nat) (b t : Str) (r : List FSeg) :
    codesF (⟨.code n b, t⟩ :: r) = .node (codeSpan (Code.codeEscape b)) :: codesF r := rfl
theorem escCountF_append (esc : List Char) (L1 L2 : List FSeg) :
    escCountF esc (L1 ++ L2) = escCountF esc L1 + escCountF esc L2 := by
  induction L1 with
  | nil => simp [escCountF]
  | cons a b ih => simp only [List.cons_append, escCountF, ih]; omega

theorem flat1_counts (esc : List Char) (segs : List Seg1) :
    escCountF esc (flatten1 segs) = lineEsc1 esc segs ∧ (codesF (flatten1 segs)).length = lineCodes1 segs := by
  induction segs with
  | nil => exact ⟨rfl, rfl⟩
  | cons s r ih =>
    obtain ⟨k, t⟩ := s
    cases k with
    | code n b =>
      simp only [flatten1, escCountF, codesF, lineEsc1, lineCodes1, K1.esc, K1.codes, List.length_cons, ih.1, ih.2]
      exact ⟨by omega, by omega⟩
    | em st d β =>
      obtain ⟨h1, h2⟩ := counts_spansF esc (dl st d) t β.spans
      constructor
      · simp only [flatten1, escCountF, escCountF_append, lineEsc1, K1.esc, body0Esc, h1, ih.1]
        omega
      · simp only [flatten1, codesF_cons_junk, codesF_append, List.length_append, lineCodes1, K1.codes, h2, ih.2]

theorem stageL1_lv1_irrel (esc : List Char) (segs : List Seg1) :
    ∀ m n0 n1 n2 n1' n2', stageL1 esc 1 m n0 n1 n2 segs = stageL1 esc 1 m n0 n1' n2' segs := by
  induction segs with
  | nil => intro _ _ _ _ _ _; rfl
  | cons s r ih =>
    intro m n0 n1 n2 n1' n2'
    have hi : itemL1 esc 1 m n0 n1 n2 s.k = itemL1 esc 1 m n0 n1' n2' s.k := by
      cases hk : s.k with
      | code n b => rfl
      | em st d β =>
        have : ¬ ((K1.em st d β).cls < 1) := by simp only [K1.cls]; split <;> omega
        simp only [itemL1, this, if_false]
    simp only [stageL1, hi]
    rw [ih _ _ (s.k.bump 1 n1) (s.k.bump 2 n2) (s.k.bump 1 n1') (s.k.bump 2 n2')]

/-- the flat line after patterns 0 and 1 is the structured line at level 1 -/
theorem stageF_flatten2 (esc : List Char) (segs : List Seg2) :
    ∀ m n0 n1 n2, stageF esc true true m n0 (flatten2 segs) = stage2L esc 1 m n0 n1 n2 segs := by
  induction segs with
  | nil => intro _ _ _ _; rfl
  | cons s r ih =>
    intro m n0 n1 n2
    obtain ⟨k, t⟩ := s
    cases k with
    | code n b =>
      simp only [flatten2, stageF, stage2L, itemF, item2, if_true, FKind.bump, FKind.isCode, K2.esc, K2.codes,
        Nat.add_zero, ih _ _ (n1 + (K2.code n b).stars) (n2 + (K2.code n b).unders)]
    | em st d β =>
      have hcl : ¬ ((K2.em st d β).cls < 1) := by simp only [K2.cls]; split <;> omega
      obtain ⟨hc1, hc2⟩ := flat1_counts esc β.segs
      simp only [flatten2, stageF, stageF_append, itemF, stage2L, item2, hcl, if_false, if_true,
        FKind.bump, FKind.isCode, Bool.false_eq_true, K2.esc, K2.codes, hc1, hc2,
        stageF_flatten1 esc β.segs _ _ n1 n1,
        ih _ _ (n1 + (K2.em st d β).stars) (n2 + (K2.em st d β).unders), List.append_assoc]
      rw [show m + escCount esc β.u0 + lineEsc1 esc β.segs = m + (escCount esc β.u0 + lineEsc1 esc β.segs) by omega,
        show m + (escCount esc β.u0 + lineEsc1 esc β.segs) + escCount esc t =
          m + escCount esc β.u0 + lineEsc1 esc β.segs + escCount esc t by omega]


/-! ### 47. the engine lemmas for contents that contain the other delimiter -/

theorem nsScan_open' (c : Char) (hc : c = '*' ∨ c = '_') (x : Char) (R : Str) (hxc : x ≠ c)
    (hs : isSpace x = false) (k : Nat) : ∀ (prev : Option Char) (i : Nat), k ≤ 3 → 0 < k →
      nsScan prev (List.replicate k c ++ x :: R) i = nsScan (some c) (x :: R) (i + k) := by
  induction k with
  | zero => intro _ _ _ h; omega
  | succ k ih =>
    intro prev i hk _
    have hr1 : nsRun '*' (List.replicate (k + 1) c ++ x :: R) = none := by
      rcases hc with e | e
      · subst e; exact nsRun_open '*' (k + 1) hk x R hxc hs
      · apply nsRun_of_head_ne; rw [e]; simp [List.replicate_succ]
    have hr2 : nsRun '_' (List.replicate (k + 1) c ++ x :: R) = none := by
      rcases hc with e | e
      · apply nsRun_of_head_ne; rw [e]; simp [List.replicate_succ]
      · subst e; exact nsRun_open '_' (k + 1) hk x R hxc hs
    have e1 : List.replicate (k + 1) c ++ x :: R = c :: (List.replicate k c ++ x :: R) := by
      simp [List.replicate_succ]
    rw [e1] at hr1 hr2 ⊢
    rw [nsScan_cons_none prev c _ i hr1 hr2]
    by_cases hk0 : k = 0
    · subst hk0; simp
    · rw [ih (some c) (i + 1) (by omega) (by omega)]
      congr 1; omega

/-- `handleMatch` at the first delimiter of an emphasis whose content does not contain that delimiter character -/
theorem emHandle_body' (st : Bool) (d : Char) (W : Str) (hd : d = '*' ∨ d = '_') (hne : W ≠ [])
    (hW : ∀ x ∈ W, x ≠ d) (A Z : Str)
    (hb : d = '_' → isW (lastOr none A) = false ∧ isW Z.head? = false ∧ NoTriple '_' Z) :
    emHandle (A ++ (emSrc ⟨st, d, W, []⟩ ++ Z)) A.length d (emPatterns d) 0 =
      some (some (emEl st W, A.length + (emSrc ⟨st, d, W, []⟩).length)) := by
  rcases hd with e | e
  · subst e
    cases st with
    | false =>
      have := emHandle_star_em A W Z hne hW
      simp only [emSrc, EmSeg.delim, emPatterns, if_true, Bool.false_eq_true, if_false, List.replicate_one,
        List.append_assoc, List.cons_append, List.nil_append, List.length_cons,
        List.length_append, List.length_nil] at this ⊢
      rw [this]; congr 3; omega
    | true =>
      have := emHandle_star_strong A W Z hne hW
      simp only [emSrc, EmSeg.delim, emPatterns, if_true, List.replicate_succ, List.replicate_zero,
        List.append_assoc, List.cons_append, List.nil_append, List.length_cons,
        List.length_append, List.length_nil] at this ⊢
      rw [this]; congr 3; omega
  · subst e
    obtain ⟨hb1, hb2, hb3⟩ := hb rfl
    cases st with
    | false =>
      have := emHandle_under_em A W Z hne hW hb1 hb2
      simp only [emSrc, EmSeg.delim, emPatterns, show ¬ ('_' = '*') by decide, if_false, Bool.false_eq_true,
        List.replicate_one,
        List.append_assoc, List.cons_append, List.nil_append, List.length_cons,
        List.length_append, List.length_nil] at this ⊢
      rw [this]; congr 3; omega
    | true =>
      have h3 : NoTriple '_' (W ++ '_' :: '_' :: Z) :=
        noTriple_of_no_c '_' W _ (fun h => hW _ h rfl)
          (noTriple_delim '_' Z (isW_under_head hb2) hb3 2 (by omega))
      have := emHandle_under_strong A W Z hne hW hb1 hb2 h3
      simp only [emSrc, EmSeg.delim, emPatterns, show ¬ ('_' = '*') by decide, if_false, if_true,
        List.replicate_succ, List.replicate_zero,
        List.append_assoc, List.cons_append, List.nil_append, List.length_cons,
        List.length_append, List.length_nil] at this ⊢
      rw [this]; congr 3; omega


/-! ### 48. the nested `__handleInline` call on the content of an outer `*` emphasis -/

theorem stageL1_nostar (esc : List Char) (segs : List Seg1) (h : ∀ s ∈ segs, s.k.cls ≠ 1) :
    ∀ m n0 n1 n2 n1' n2', stageL1 esc 1 m n0 n1 n2 segs = stageL1 esc 2 m n0 n1' n2' segs := by
  induction segs with
  | nil => intro _ _ _ _ _ _; rfl
  | cons s r ih =>
    intro m n0 n1 n2 n1' n2'
    have hs := h s List.mem_cons_self
    have hi : itemL1 esc 1 m n0 n1 n2 s.k = itemL1 esc 2 m n0 n1' n2' s.k := by
      cases hk : s.k with
      | code n b => rfl
      | em st d β =>
        rw [hk] at hs
        have hd : d ≠ '*' := fun e => hs (by simp [K1.cls, e])
        have h1 : ¬ ((K1.em st d β).cls < 1) := by simp [K1.cls, hd]
        have h2 : ¬ ((K1.em st d β).cls < 2) := by simp [K1.cls, hd]
        simp only [itemL1, h1, h2, if_false]
    simp only [stageL1, hi]
    rw [ih (fun x hx => h x (List.mem_cons_of_mem _ hx)) _ _ (s.k.bump 1 n1) (s.k.bump 2 n2) (s.k.bump 1 n1')
      (s.k.bump 2 n2')]

theorem itemL1_ne_nil (esc : List Char) (lv m n0 n1 n2 : Nat) (k : K1) : itemL1 esc lv m n0 n1 n2 k ≠ [] := by
  cases k with
  | code n b => exact placeholder_ne_nil _
  | em st d β =>
    simp only [itemL1]
    split
    · exact placeholder_ne_nil _
    · cases st <;> simp [dl]

theorem stageL1_length (esc : List Char) (lv : Nat) (segs : List Seg1) :
    ∀ m n0 n1 n2, segs.length ≤ (stageL1 esc lv m n0 n1 n2 segs).length := by
  induction segs with
  | nil => intro _ _ _ _; simp
  | cons s r ih =>
    intro m n0 n1 n2
    have h1 := ih (m + s.k.esc esc + escCount esc s.t) (n0 + s.k.codes) (s.k.bump 1 n1) (s.k.bump 2 n2)
    have h2 : 0 < (itemL1 esc lv m n0 n1 n2 s.k).length := by
      have := itemL1_ne_nil esc lv m n0 n1 n2 s.k
      cases hx : itemL1 esc lv m n0 n1 n2 s.k with
      | nil => exact absurd hx this
      | cons a b => simp
    simp only [stageL1, List.length_append, List.length_cons]
    omega

theorem nodes1_le (c : Nat) (esc : List Char) (segs : List Seg1) : ∀ m n0, (nodes1 c esc m n0 segs).length ≤ segs.length := by
  induction segs with
  | nil => intro _ _; simp [nodes1]
  | cons s r ih =>
    intro m n0
    have := ih (m + s.k.esc esc + escCount esc s.t) (n0 + s.k.codes)
    cases hk : s.k with
    | code n b => simp only [nodes1, hk, List.nil_append, List.length_cons]; rw [hk] at this; omega
    | em st d β =>
      rw [hk] at this
      simp only [nodes1, hk, List.length_append, List.length_cons]
      split <;> simp <;> omega

/-- the nested call on the content of an outer `*` emphasis: from pattern 15 on, it takes the `_` emphases out -/
theorem hi15_line1 (cfg : Inline.Cfg) (f : Nat) (hs : EscSup cfg.esc) (h1 : '*' ∈ cfg.esc) (h2 : '_' ∈ cfg.esc)
    (u0 : Str) (segs : List Seg1) (m m' n0 a b : Nat) (st : St) (hok : Segs1OK segs)
    (hnostar : ∀ s ∈ segs, s.k.cls ≠ 1) (hu : UnderOK1 cfg.esc (lastW cfg.esc u0) segs) :
    handleInline cfg (f + 2) (resid cfg.esc m u0 ++ stageL1 cfg.esc 1 m' n0 a b segs) 15 st =
      some (resid cfg.esc m u0 ++ stageL1 cfg.esc 3 m' n0 a st.stash.length segs,
        { st with stash := st.stash ++ nodes1 2 cfg.esc m' n0 segs }) := by
  rw [stageL1_nostar cfg.esc segs hnostar m' n0 a b a 0]
  generalize hD : resid cfg.esc m u0 ++ stageL1 cfg.esc 2 m' n0 a 0 segs = D
  have hlen : (nodes1 2 cfg.esc m' n0 segs).length ≤ D.length := by
    have a1 := nodes1_le 2 cfg.esc segs m' n0
    have a2 := stageL1_length cfg.esc 2 segs m' n0 a 0
    rw [← hD, List.length_append]; omega
  obtain ⟨x, hx⟩ : ∃ x, loopFuel D.length = ((x + 1) + 1) + (nodes1 2 cfg.esc m' n0 segs).length :=
    ⟨loopFuel D.length - (nodes1 2 cfg.esc m' n0 segs).length - 2, by
      have := CodeLaw.loopFuel_ge D.length; omega⟩
  rw [show f + 2 = (f + 1) + 1 from rfl]
  unfold handleInline
  rw [hx, ← hD]
  have hu0 : '_' ∉ resid cfg.esc m u0 := fun h => (resid_no_delim h1 h2 u0 m _ h).2 rfl
  have hpw : isW (lastOr none (resid cfg.esc m u0)) = lastW cfg.esc u0 := by
    rw [isW_lastOr_resid]
    by_cases ht : u0 = []
    · subst ht; rfl
    · simp [ht]
  rw [under_pass1 cfg f hs h1 h2 segs (resid cfg.esc m u0) m' n0 a 0 st ((x + 1) + 1) hu0 hok (by rw [hpw]; exact hu)]
  have hund3 : '_' ∉ resid cfg.esc m u0 ++ stageL1 cfg.esc 3 m' n0 a st.stash.length segs := by
    intro h
    rcases List.mem_append.1 h with h | h
    · exact hu0 h
    · rcases mem_stageL1 hs 3 segs _ _ _ _ hok h with h | ⟨s, _, _, hn⟩ | ⟨s, _, hcl, _⟩
      · exact (bodyCh_facts h).2.1 rfl
      · exact hn h2
      · have := s.k.cls_lt3; omega
  rw [hiLoop_step _ _ _ 15 0 _ (by omega) _ _ _ _
    (applyPattern_em_none cfg _ 15 (Or.inr rfl) _ _ (by simpa using hund3))]
  simp only [Bool.false_eq_true, if_false]
  simp only [hiLoop, patternCount, show ¬ (15 + 1 < 16) by omega, if_false]


/-! ### 49. what the engine needs of a line with emphasis inside emphasis -/

/-- the content of an outer emphasis once code spans and escapes are out and the classes below `lv` are collapsed -/
def body2 (esc : List Char) (lv m n0 n1 : Nat) (β : Body1) : Str :=
  resid esc m β.u0 ++ stageL1 esc lv (m + escCount esc β.u0) n0 n1 n1 β.segs

theorem item2_em (esc : List Char) (lv m n0 n1 n2 : Nat) (st : Bool) (d : Char) (β : Body1) :
    item2 esc lv m n0 n1 n2 (.em st d β) =
      if (K2.em st d β).cls < lv then placeholder (if d = '*' then n1 + count1 2 β.segs else n2)
      else dl st d ++ (body2 esc lv m n0 n1 β ++ dl st d) := rfl

def lastText1 (u0 : Str) : List Seg1 → Str
  | [] => u0
  | s :: r => lastText1 s.t r

/-- what the stages need of the content of an outer emphasis with delimiter `d` -/
structure Body1OK (esc : List Char) (d : Char) (β : Body1) : Prop where
  segs : Segs1OK β.segs
  alt : ∀ s ∈ β.segs, s.k.cls ≠ (if d = '*' then 1 else 2)
  plain : ∀ c, (c ∈ β.u0 ∨ ∃ s ∈ β.segs, c ∈ s.t) → plainCh c
  ne : β.u0 ≠ [] ∨ β.segs ≠ []
  first : β.u0 ≠ [] → startsVisible β.u0 = true
  lastv : ∀ z, (lastText1 β.u0 β.segs).getLast? = some z → isSpace z = false
  under : d = '*' → UnderOK1 esc (lastW esc β.u0) β.segs

def K2OK (esc : List Char) : K2 → Prop
  | .code _ _ => True
  | .em _ d β => (d = '*' ∨ d = '_') ∧ Body1OK esc d β

def Segs2OK (esc : List Char) (segs : List Seg2) : Prop := ∀ s ∈ segs, K2OK esc s.k

theorem resid_ne_nil (esc : List Char) (t : Str) (ht : t ≠ []) (m : Nat) : resid esc m t ≠ [] := by
  cases t with
  | nil => exact absurd rfl ht
  | cons d r' =>
    by_cases hd : d ∈ esc
    · simp only [resid, List.contains_eq_mem, hd, decide_true, if_true]
      intro e
      exact placeholder_ne_nil _ (List.append_eq_nil_iff.1 e).1
    · simp [resid, hd]

theorem isSpace_delim {d : Char} (hd : d = '*' ∨ d = '_') : isSpace d = false := by
  rcases hd with e | e <;> rw [e] <;> decide

theorem itemL1_head (esc : List Char) (lv m n0 n1 n2 : Nat) (k : K1) (hk : K1OK k) (X : Str) :
    ∀ x, (itemL1 esc lv m n0 n1 n2 k ++ X).head? = some x → isSpace x = false := by
  intro x hx
  have hstx : ∀ n, (placeholder n ++ X).head? = some x → isSpace x = false := by
    intro n h
    rw [head_placeholder] at h
    have : Inline.STX = x := by simpa using h
    subst this; decide
  cases k with
  | code n b => exact hstx _ hx
  | em st d β =>
    simp only [itemL1] at hx
    split at hx
    · exact hstx _ hx
    · have : x = d := by cases st <;> simp [dl] at hx <;> exact hx.symm
      subst this; exact isSpace_delim hk.1

theorem itemL1_last (esc : List Char) (lv m n0 n1 n2 : Nat) (k : K1) (hk : K1OK k) :
    ∀ z, (itemL1 esc lv m n0 n1 n2 k).getLast? = some z → isSpace z = false := by
  intro z hz
  have hph : ∀ n, (placeholder n).getLast? = some z → isSpace z = false :=
    fun n h => isSpace_ph (phChar_of_mem_placeholder (List.mem_of_getLast? h))
  cases k with
  | code n b => exact hph _ hz
  | em st d β =>
    simp only [itemL1] at hz
    split at hz
    · exact hph _ hz
    · rw [dl_eq, emSrc_last] at hz
      have : d = z := by simpa using hz
      subst this; exact isSpace_delim hk.1

theorem stageL1_ne_nil (esc : List Char) (lv : Nat) (segs : List Seg1) (hne : segs ≠ []) (m n0 n1 n2 : Nat) :
    stageL1 esc lv m n0 n1 n2 segs ≠ [] := by
  intro e
  have := stageL1_length esc lv segs m n0 n1 n2
  rw [e] at this
  cases segs with
  | nil => exact hne rfl
  | cons a b => simp at this

theorem last_stageL1_visible (esc : List Char) (lv : Nat) (segs : List Seg1) (hne : segs ≠ []) :
    ∀ (t0 : Str) (m n0 n1 n2 : Nat), Segs1OK segs →
      (∀ z, (lastText1 t0 segs).getLast? = some z → isSpace z = false) →
      ∀ z, (stageL1 esc lv m n0 n1 n2 segs).getLast? = some z → isSpace z = false := by
  induction segs with
  | nil => exact absurd rfl hne
  | cons s r ih =>
    intro t0 m n0 n1 n2 hok hl z hz
    simp only [stageL1] at hz
    by_cases hr : r = []
    · subst hr
      simp only [stageL1, List.append_nil] at hz
      by_cases ht : s.t = []
      · rw [ht] at hz
        simp only [resid, List.append_nil] at hz
        exact itemL1_last esc lv m n0 n1 n2 s.k (hok s List.mem_cons_self) z hz
      · rw [getLast_append_ne (resid_ne_nil esc s.t ht _)] at hz
        exact last_resid_visible s.t ht (fun z hz => hl z (by simpa [lastText1] using hz)) _ z hz
    · have hne2 := stageL1_ne_nil esc lv r hr (m + s.k.esc esc + escCount esc s.t) (n0 + s.k.codes) (s.k.bump 1 n1)
        (s.k.bump 2 n2)
      rw [getLast_append_ne (by intro e; exact hne2 (List.append_eq_nil_iff.1 e).2), getLast_append_ne hne2] at hz
      exact ih hr s.t _ _ _ _ (fun x hx => hok x (List.mem_cons_of_mem _ hx)) (fun z hz => hl z (by simpa [lastText1] using hz))
        z hz

/-- the content of an outer emphasis, as the emphasis patterns see it -/
theorem body2_facts {esc : List Char} (hs : EscSup esc) (d : Char) (hd : d = '*' ∨ d = '_')
    (β : Body1) (h : Body1OK esc d β) (lv m n0 n1 : Nat) :
    body2 esc lv m n0 n1 β ≠ [] ∧
    (∀ x ∈ body2 esc lv m n0 n1 β, BodyCh x ∨ ((x = '*' ∨ x = '_') ∧ x ≠ d ∧ lv ≤ (if x = '*' then 1 else 2))) ∧
    (∀ x, (body2 esc lv m n0 n1 β).head? = some x → isSpace x = false) ∧
    (∀ z, (body2 esc lv m n0 n1 β).getLast? = some z → isSpace z = false) := by
  refine ⟨?_, ?_, ?_, ?_⟩
  · intro e
    rcases h.ne with h' | h'
    · exact resid_ne_nil esc β.u0 h' m (List.append_eq_nil_iff.1 e).1
    · exact stageL1_ne_nil esc lv β.segs h' _ _ _ _ (List.append_eq_nil_iff.1 e).2
  · intro x hx
    rcases List.mem_append.1 hx with hx | hx
    · exact Or.inl (bodyCh_resid hs β.u0 (fun y hy => h.plain y (Or.inl hy)) m x hx)
    · rcases mem_stageL1 hs lv β.segs _ _ _ _ h.segs hx with hb | ⟨s, hs', hc, hn⟩ | ⟨s, hs', hcl, st', d', β', hk, hd', hc⟩
      · exact Or.inl hb
      · rcases h.plain x (Or.inr ⟨s, hs', hc⟩) with hp | hp
        · exact Or.inl (Or.inl hp)
        · exact absurd (hs x hp) hn
      · subst hc
        have halt := h.alt s hs'
        rw [hk] at halt hcl
        simp only [K1.cls] at halt hcl
        refine Or.inr ⟨hd', ?_, hcl⟩
        intro e; subst e; exact halt rfl
  · by_cases hu : β.u0 = []
    · have hsp : β.segs ≠ [] := by rcases h.ne with h' | h'; exact absurd hu h'; exact h'
      intro x hx
      cases hsp' : β.segs with
      | nil => exact absurd hsp' hsp
      | cons s r =>
        simp only [body2, hu, resid, List.nil_append, hsp', stageL1] at hx
        exact itemL1_head esc lv _ _ _ _ s.k (h.segs s (by rw [hsp']; exact List.mem_cons_self)) _ x hx
    · exact head_resid_visible β.u0 hu (h.first hu) m _
  · intro z hz
    by_cases hsp : β.segs = []
    · have hu : β.u0 ≠ [] := by rcases h.ne with h' | h'; exact h'; exact absurd hsp h'
      simp only [body2, hsp, stageL1, List.append_nil] at hz
      exact last_resid_visible β.u0 hu (fun z hz => h.lastv z (by simpa [lastText1, hsp] using hz)) m z hz
    · simp only [body2] at hz
      rw [getLast_append_ne (stageL1_ne_nil esc lv β.segs hsp _ _ _ _)] at hz
      exact last_stageL1_visible esc lv β.segs hsp β.u0 _ _ _ _ h.segs h.lastv z hz

theorem body2_no_d {esc : List Char} (hs : EscSup esc) (d : Char) (hd : d = '*' ∨ d = '_')
    (β : Body1) (h : Body1OK esc d β) (lv m n0 n1 : Nat) : ∀ x ∈ body2 esc lv m n0 n1 β, x ≠ d := by
  intro x hx
  rcases (body2_facts hs d hd β h lv m n0 n1).2.1 x hx with hb | ⟨_, hne, _⟩
  · have := bodyCh_facts hb
    rcases hd with e | e <;> subst e
    · exact this.1
    · exact this.2.1
  · exact hne

/-- at level 2 nothing of an outer `_` emphasis' content is a delimiter any more -/
theorem body2_bodyCh {esc : List Char} (hs : EscSup esc) (β : Body1) (h : Body1OK esc '_' β) (lv : Nat) (hlv : 2 ≤ lv)
    (m n0 n1 : Nat) : ∀ x ∈ body2 esc lv m n0 n1 β, BodyCh x := by
  intro x hx
  rcases (body2_facts hs '_' (Or.inr rfl) β h lv m n0 n1).2.1 x hx with hb | ⟨hx', hne, hl⟩
  · exact hb
  · rcases hx' with e | e
    · subst e; simp at hl; omega
    · exact absurd e hne

theorem nsScan_body2 {esc : List Char} (hs : EscSup esc) (h1 : '*' ∈ esc) (h2 : '_' ∈ esc) (lv m n0 n1 : Nat) (β : Body1)
    (hok : Segs1OK β.segs) (X : Str) (prev : Option Char) (i : Nat) :
    nsScan prev (body2 esc lv m n0 n1 β ++ X) i =
      nsScan (lastOr prev (body2 esc lv m n0 n1 β)) X (i + (body2 esc lv m n0 n1 β).length) := by
  simp only [body2, List.append_assoc]
  rw [nsScan_text _ (resid_no_delim h1 h2 β.u0 m), nsScan_stageL1 hs h1 h2 lv β.segs _ _ _ _ _ _ _ hok]
  simp only [lastOr_append, List.length_append]
  congr 1; omega

theorem nsScan_item2 {esc : List Char} (hs : EscSup esc) (h1 : '*' ∈ esc) (h2 : '_' ∈ esc) (lv m n0 n1 n2 : Nat)
    (k : K2) (hk : K2OK esc k) (Y : Str) (p : Option Char) (j : Nat) :
    nsScan p (item2 esc lv m n0 n1 n2 k ++ Y) j =
      nsScan (lastOr p (item2 esc lv m n0 n1 n2 k)) Y (j + (item2 esc lv m n0 n1 n2 k).length) := by
  have hph : ∀ n, ∀ c ∈ placeholder n, c ≠ '*' ∧ c ≠ '_' := fun n c hc =>
    ⟨(phChar_facts (phChar_of_mem_placeholder hc)).2.2.2.1, (phChar_facts (phChar_of_mem_placeholder hc)).2.2.2.2.1⟩
  cases k with
  | code n b => exact nsScan_text _ (hph n0) Y p j
  | em st d β =>
    obtain ⟨hd, hβ⟩ := hk
    rw [item2_em]
    split
    · exact nsScan_text _ (hph _) Y p j
    · obtain ⟨hne, _, hh, hl⟩ := body2_facts hs d hd β hβ lv m n0 n1
      have hnd := body2_no_d hs d hd β hβ lv m n0 n1
      generalize hW : body2 esc lv m n0 n1 β = W at *
      have hk : 0 < (if st then 2 else 1) ∧ (if st then 2 else 1) ≤ 3 := by cases st <;> simp
      have hds : isSpace d = false := isSpace_delim hd
      obtain ⟨x, w', hwc⟩ : ∃ x w', W = x :: w' := by
        cases W with
        | nil => exact absurd rfl hne
        | cons x w' => exact ⟨x, w', rfl⟩
      have hxs : isSpace x = false := hh x (by rw [hwc]; rfl)
      obtain ⟨z, hz⟩ : ∃ z, W.getLast? = some z := by
        cases hg : W.getLast? with
        | none => exact absurd (List.getLast?_eq_none_iff.1 hg) hne
        | some z => exact ⟨z, rfl⟩
      have hzs : isSpace z = false := hl z hz
      have hlast' : lastOr (some d) W = some z := by simp [lastOr, hz]
      have e0 : (dl st d ++ (W ++ dl st d)) ++ Y = List.replicate (if st then 2 else 1) d ++
          (x :: (w' ++ (List.replicate (if st then 2 else 1) d ++ Y))) := by
        simp [dl, hwc, List.append_assoc]
      rw [e0, nsScan_open' d hd x _ (hnd x (by rw [hwc]; simp)) hxs _ p j hk.2 hk.1]
      have e1 : x :: (w' ++ (List.replicate (if st then 2 else 1) d ++ Y)) =
          W ++ (List.replicate (if st then 2 else 1) d ++ Y) := by rw [hwc]; rfl
      rw [e1, ← hW, nsScan_body2 hs h1 h2 lv m n0 n1 β hβ.segs, hW, hlast', nsScan_close d hds Y _ z _ hzs hk.1,
        dl_eq, emSrc_body_last]
      congr 1
      simp [emSrc, EmSeg.delim]; omega

/-- pattern 13 walks over such a line -/
theorem nsScan_stage2L {esc : List Char} (hs : EscSup esc) (h1 : '*' ∈ esc) (h2 : '_' ∈ esc) (lv : Nat)
    (segs : List Seg2) :
    ∀ (m n0 n1 n2 : Nat) (prev : Option Char) (i : Nat) (X : Str), Segs2OK esc segs →
      nsScan prev (stage2L esc lv m n0 n1 n2 segs ++ X) i =
        nsScan (lastOr prev (stage2L esc lv m n0 n1 n2 segs)) X (i + (stage2L esc lv m n0 n1 n2 segs).length) := by
  induction segs with
  | nil => intro _ _ _ _ prev i X _; simp [stage2L, lastOr]
  | cons s r ih =>
    intro m n0 n1 n2 prev i X hok
    have hokr : Segs2OK esc r := fun x hx => hok x (List.mem_cons_of_mem _ hx)
    simp only [stage2L, List.append_assoc]
    rw [nsScan_item2 hs h1 h2 lv m n0 n1 n2 s.k (hok s List.mem_cons_self),
      nsScan_text _ (resid_no_delim h1 h2 s.t _), ih _ _ _ _ _ _ _ hokr]
    simp only [lastOr_append, List.length_append]
    congr 1; omega


/-! ### 50. patterns 14 and 15 on a line with emphasis inside emphasis -/

/-- what pattern 14 stashes: for an outer `*` emphasis the `_` emphases of its content (the nested call takes them out)
    and then the element itself; for an outer `_` emphasis the `*` emphases of its content -/
def nodesS (esc : List Char) : Nat → Nat → Nat → List Seg2 → List StashItem
  | _, _, _, [] => []
  | m, n0, n1, s :: r =>
    (match s.k with
      | .code _ _ => []
      | .em st d β =>
        if d = '*' then nodes1 2 esc (m + escCount esc β.u0) n0 β.segs ++ [.node (emEl st (body2 esc 3 m n0 n1 β))]
        else nodes1 1 esc (m + escCount esc β.u0) n0 β.segs) ++
    nodesS esc (m + s.k.esc esc + escCount esc s.t) (n0 + s.k.codes) (n1 + s.k.stars) r

/-- what pattern 15 stashes: the outer `_` emphases -/
def nodesU (esc : List Char) : Nat → Nat → Nat → List Seg2 → List StashItem
  | _, _, _, [] => []
  | m, n0, n1, s :: r =>
    (match s.k with
      | .code _ _ => []
      | .em st d β => if d = '*' then [] else [.node (emEl st (body2 esc 2 m n0 n1 β))]) ++
    nodesU esc (m + s.k.esc esc + escCount esc s.t) (n0 + s.k.codes) (n1 + s.k.stars) r

/-- the turns of the pattern loop at pattern 14 -/
def itS : List Seg2 → Nat
  | [] => 0
  | s :: r => (match s.k with
      | .code _ _ => 0
      | .em _ d β => if d = '*' then 1 else count1 1 β.segs) + itS r

theorem nodes1_count (c : Nat) (hc : c ≠ 0) (esc : List Char) (segs : List Seg1) :
    ∀ m n0, (nodes1 c esc m n0 segs).length = count1 c segs := by
  induction segs with
  | nil => intro _ _; rfl
  | cons s r ih =>
    intro m n0
    have := ih (m + s.k.esc esc + escCount esc s.t) (n0 + s.k.codes)
    cases hk : s.k with
    | code n b =>
      rw [hk] at this
      simp only [nodes1, count1, hk, K1.cls, List.nil_append, this, show ¬ (0 = c) by omega, if_false, Nat.zero_add]
    | em st d β =>
      rw [hk] at this
      simp only [nodes1, count1, hk, List.length_append, this]
      split <;> simp

theorem stageL1_lv2_irrel (esc : List Char) (segs : List Seg1) :
    ∀ m n0 n1 n2 n2', stageL1 esc 2 m n0 n1 n2 segs = stageL1 esc 2 m n0 n1 n2' segs := by
  induction segs with
  | nil => intro _ _ _ _ _; rfl
  | cons s r ih =>
    intro m n0 n1 n2 n2'
    have hi : itemL1 esc 2 m n0 n1 n2 s.k = itemL1 esc 2 m n0 n1 n2' s.k := by
      cases hk : s.k with
      | code n b => rfl
      | em st d β =>
        by_cases hd : d = '*'
        · simp [itemL1, K1.cls, hd]
        · simp [itemL1, K1.cls, hd]
    simp only [stageL1, hi]
    rw [ih _ _ _ (s.k.bump 2 n2) (s.k.bump 2 n2')]

theorem body2_lv1_irrel (esc : List Char) (m n0 n1 n1' : Nat) (β : Body1) :
    body2 esc 1 m n0 n1 β = body2 esc 1 m n0 n1' β := by
  simp only [body2]; rw [stageL1_lv1_irrel esc β.segs _ _ n1 n1 n1' n1']

theorem star_pass2 (cfg : Inline.Cfg) (f : Nat) (hs : EscSup cfg.esc) (h1 : '*' ∈ cfg.esc) (h2 : '_' ∈ cfg.esc)
    (segs : List Seg2) :
    ∀ (A : Str) (m n0 n1 n2 : Nat) (st : St) (g : Nat), '*' ∉ A → Segs2OK cfg.esc segs →
      hiLoop (applyPattern cfg (fun d p s => handleInline cfg (f + 1 + 1) d p s))
        (g + itS segs)
        (A ++ stage2L cfg.esc 1 m n0 n1 n2 segs) 14 0 st =
      hiLoop (applyPattern cfg (fun d p s => handleInline cfg (f + 1 + 1) d p s)) g
        (A ++ stage2L cfg.esc 2 m n0 st.stash.length n2 segs) 14 0
        { st with stash := st.stash ++ nodesS cfg.esc m n0 st.stash.length segs } := by
  induction segs with
  | nil => intro A m n0 n1 n2 st g _ _; simp [stage2L, nodesS, itS]
  | cons s r ih =>
    intro A m n0 n1 n2 st g hA hok
    have hokr : Segs2OK cfg.esc r := fun x hx => hok x (List.mem_cons_of_mem _ hx)
    have hs' := hok s List.mem_cons_self
    have hres : ∀ m', '*' ∉ resid cfg.esc m' s.t := fun m' h => (resid_no_delim h1 h2 s.t m' _ h).1 rfl
    cases hk : s.k with
    | code n b =>
      have := ih (A ++ (placeholder n0 ++ resid cfg.esc m s.t)) (m + escCount cfg.esc s.t) (n0 + 1) n1 n2 st g
        (by
          have := not_mem_of_append3 hA (not_mem_placeholder (c := '*') (by decide) n0) (hres m)
          exact this) hokr
      simp only [stage2L, item2, nodesS, itS, hk, K2.esc, K2.codes, K2.stars, K2.unders, Nat.add_zero, Nat.zero_add,
        List.nil_append, List.append_assoc] at this ⊢
      exact this
    | em st' d β =>
      rw [hk] at hs'
      obtain ⟨hd, hβ⟩ := hs'
      by_cases hds : d = '*'
      · subst hds
        have hcl1 : ¬ ((K2.em st' '*' β).cls < 1) := by simp [K2.cls]
        have hcl2 : (K2.em st' '*' β).cls < 2 := by simp [K2.cls]
        generalize hL : st.stash.length = L
        obtain ⟨hne, _, _, _⟩ := body2_facts hs '*' hd β hβ 1 m n0 L
        have hnd := body2_no_d hs '*' hd β hβ 1 m n0 L
        generalize hm'' : m + (K2.em st' '*' β).esc cfg.esc + escCount cfg.esc s.t = m''
        generalize hZ' : resid cfg.esc (m + (K2.em st' '*' β).esc cfg.esc) s.t ++
          stage2L cfg.esc 1 m'' (n0 + (K2.em st' '*' β).codes) (n1 + (K2.em st' '*' β).stars)
            (n2 + (K2.em st' '*' β).unders) r = Z'
        have hhm := emHandle_body' st' '*' (body2 cfg.esc 1 m n0 L β) (Or.inl rfl) hne hnd A Z'
          (fun e => absurd e (by decide))
        have hin : handleInline cfg (f + 1 + 1) (body2 cfg.esc 1 m n0 L β) (14 + 1) st =
            some (body2 cfg.esc 3 m n0 L β,
              { st with stash := st.stash ++ nodes1 2 cfg.esc (m + escCount cfg.esc β.u0) n0 β.segs }) := by
          have := hi15_line1 cfg f hs h1 h2 β.u0 β.segs m (m + escCount cfg.esc β.u0) n0 L L st hβ.segs
            (fun x hx => by simpa using hβ.alt x hx) (hβ.under rfl)
          rw [hL] at this
          exact this
        obtain ⟨q, hq⟩ := delim_cons ⟨st', '*', body2 cfg.esc 1 m n0 L β, []⟩
        have hE : emSrc ⟨st', '*', body2 cfg.esc 1 m n0 L β, []⟩ =
            '*' :: (q ++ (body2 cfg.esc 1 m n0 L β ++ EmSeg.delim ⟨st', '*', body2 cfg.esc 1 m n0 L β, []⟩)) := by
          rw [emSrc, hq]; rfl
        have hstep := applyPattern_emG cfg (f + 1) 14 (Or.inl rfl) '*' rfl A _ Z' hA _ hE st' _ hne _ st _ hin hhm
        have hc2 := nodes1_count 2 (by omega) cfg.esc β.segs (m + escCount cfg.esc β.u0) n0
        have hA' : '*' ∉ A ++ (placeholder (L + count1 2 β.segs) ++
            resid cfg.esc (m + (K2.em st' '*' β).esc cfg.esc) s.t) :=
          not_mem_of_append3 hA (not_mem_placeholder (by decide) _) (hres _)
        have := ih (A ++ (placeholder (L + count1 2 β.segs) ++ resid cfg.esc (m + (K2.em st' '*' β).esc cfg.esc) s.t))
          m'' (n0 + (K2.em st' '*' β).codes) (n1 + (K2.em st' '*' β).stars) (n2 + (K2.em st' '*' β).unders)
          { st with stash := st.stash ++ nodes1 2 cfg.esc (m + escCount cfg.esc β.u0) n0 β.segs ++
              [.node (emEl st' (body2 cfg.esc 3 m n0 L β))] } g hA' hokr
        have hlen2 : (st.stash ++ nodes1 2 cfg.esc (m + escCount cfg.esc β.u0) n0 β.segs ++
            [StashItem.node (emEl st' (body2 cfg.esc 3 m n0 L β))]).length = L + (K2.em st' '*' β).stars := by
          simp only [List.length_append, hc2, hL, List.length_cons, List.length_nil, K2.stars, if_true]; omega
        simp only [hlen2] at this
        simp only [stage2L, item2_em, hcl1, hcl2, if_false, if_true, nodesS, itS, hk, hm'', List.append_assoc]
        rw [body2_lv1_irrel cfg.esc m n0 n1 L β, hZ']
        rw [show g + (1 + itS r) = (g + itS r) + 1 by omega]
        have hdata : A ++ (dl st' '*' ++ (body2 cfg.esc 1 m n0 L β ++ (dl st' '*' ++ Z'))) =
            A ++ (emSrc ⟨st', '*', body2 cfg.esc 1 m n0 L β, []⟩ ++ Z') := by
          rw [← dl_eq]; simp only [List.append_assoc]
        rw [hdata, hiLoop_step _ _ _ 14 0 st (by omega) _ _ _ _ hstep]
        simp only [if_true, List.length_append, hc2, hL]
        rw [← hZ']
        simp only [List.append_assoc] at this ⊢
        exact this
      · have hdu : d = '_' := by rcases hd with e | e; exact absurd e hds; exact e
        subst hdu
        have hcl1 : ¬ ((K2.em st' '_' β).cls < 1) := by simp [K2.cls]
        have hcl2 : ¬ ((K2.em st' '_' β).cls < 2) := by simp [K2.cls]
        generalize hL : st.stash.length = L
        generalize hm'' : m + (K2.em st' '_' β).esc cfg.esc + escCount cfg.esc s.t = m''
        generalize hZ' : resid cfg.esc (m + (K2.em st' '_' β).esc cfg.esc) s.t ++
          stage2L cfg.esc 1 m'' (n0 + (K2.em st' '_' β).codes) (n1 + (K2.em st' '_' β).stars)
            (n2 + (K2.em st' '_' β).unders) r = Z'
        have hdl : '*' ∉ dl st' '_' := by cases st' <;> simp [dl]
        have hu0 : '*' ∉ resid cfg.esc m β.u0 := fun h => (resid_no_delim h1 h2 β.u0 m _ h).1 rfl
        have hA1 : '*' ∉ A ++ (dl st' '_' ++ resid cfg.esc m β.u0) := by
          have := not_mem_of_append3 (C := []) hA hdl (by simp)
          intro h
          rcases List.mem_append.1 h with h | h
          · exact hA h
          · rcases List.mem_append.1 h with h | h
            · exact hdl h
            · exact hu0 h
        have hc1 := nodes1_count 1 (by omega) cfg.esc β.segs (m + escCount cfg.esc β.u0) n0
        have e1 := star_pass1 cfg (f + 1) hs h1 h2 β.segs (A ++ (dl st' '_' ++ resid cfg.esc m β.u0)) (dl st' '_' ++ Z')
          (m + escCount cfg.esc β.u0) n0 n1 n1 st
          (g + itS r) hA1 hβ.segs
        rw [hL, stageL1_lv2_irrel cfg.esc β.segs _ _ _ n1 L] at e1
        have hbody : '*' ∉ body2 cfg.esc 2 m n0 L β := fun h =>
          (bodyCh_facts (body2_bodyCh hs β hβ 2 (by omega) m n0 L _ h)).1 rfl
        have hA2 : '*' ∉ A ++ ((dl st' '_' ++ (body2 cfg.esc 2 m n0 L β ++ dl st' '_')) ++
            resid cfg.esc (m + (K2.em st' '_' β).esc cfg.esc) s.t) := by
          intro h
          rcases List.mem_append.1 h with h | h
          · exact hA h
          · rcases List.mem_append.1 h with h | h
            · rcases List.mem_append.1 h with h | h
              · exact hdl h
              · rcases List.mem_append.1 h with h | h
                · exact hbody h
                · exact hdl h
            · exact hres _ h
        have := ih (A ++ ((dl st' '_' ++ (body2 cfg.esc 2 m n0 L β ++ dl st' '_')) ++
            resid cfg.esc (m + (K2.em st' '_' β).esc cfg.esc) s.t))
          m'' (n0 + (K2.em st' '_' β).codes) (n1 + (K2.em st' '_' β).stars) (n2 + (K2.em st' '_' β).unders)
          { st with stash := st.stash ++ nodes1 1 cfg.esc (m + escCount cfg.esc β.u0) n0 β.segs } g hA2 hokr
        have hlen2 : (st.stash ++ nodes1 1 cfg.esc (m + escCount cfg.esc β.u0) n0 β.segs).length =
            L + (K2.em st' '_' β).stars := by
          simp only [List.length_append, hc1, hL, K2.stars, show ¬ ('_' = '*') by decide, if_false]
        simp only [hlen2] at this
        simp only [stage2L, item2_em, hcl1, hcl2, if_false, nodesS, itS, hk, hm'',
          show ¬ ('_' = '*') by decide, List.append_assoc]
        rw [hZ', show g + (count1 1 β.segs + itS r) =
          (g + itS r) + (nodes1 1 cfg.esc (m + escCount cfg.esc β.u0) n0 β.segs).length by rw [hc1]; omega]
        have hdata : A ++ (dl st' '_' ++ (body2 cfg.esc 1 m n0 n1 β ++ (dl st' '_' ++ Z'))) =
            (A ++ (dl st' '_' ++ resid cfg.esc m β.u0)) ++
              (stageL1 cfg.esc 1 (m + escCount cfg.esc β.u0) n0 n1 n1 β.segs ++ (dl st' '_' ++ Z')) := by
          simp only [body2, List.append_assoc]
        rw [hdata, e1, ← hZ']
        simp only [body2, List.append_assoc] at this ⊢
        exact this


/-- the character after an item is not a word character -/
def nextNW2 (esc : List Char) (t : Str) (r : List Seg2) : Prop :=
  match t, r with
  | c :: _, _ => c ∈ esc ∨ isWord c = false
  | [], [] => True
  | [], s' :: _ => s'.k.cls ≠ 2

/-- every outer `_` emphasis stands between characters that are not word characters -/
def UnderOK2 (esc : List Char) : Bool → List Seg2 → Prop
  | _, [] => True
  | pw, s :: r => (s.k.cls = 2 → pw = false ∧ nextNW2 esc s.t r) ∧ UnderOK2 esc (lastW esc s.t) r

theorem K2.cls_lt3 (k : K2) : k.cls < 3 := by
  cases k with
  | code _ _ => simp [K2.cls]
  | em _ d _ => simp only [K2.cls]; split <;> omega

theorem item2_ph (esc : List Char) (lv m n0 n1 n2 : Nat) (k : K2) (h : k.cls < lv) :
    ∃ n, item2 esc lv m n0 n1 n2 k = placeholder n := by
  cases k with
  | code n b => exact ⟨n0, rfl⟩
  | em st d β => simp only [item2_em, h, if_true]; exact ⟨_, rfl⟩

theorem isW_head_next2 (esc : List Char) (t : Str) (m m' n0 n1 n2 : Nat) (r : List Seg2) (h : nextNW2 esc t r) :
    isW (resid esc m t ++ stage2L esc 2 m' n0 n1 n2 r).head? = false := by
  cases t with
  | cons c t' =>
    by_cases hc : c ∈ esc
    · simp only [resid, List.contains_eq_mem, hc, decide_true, if_true, List.append_assoc]
      rw [head_placeholder]; decide
    · have : isWord c = false := by
        rcases h with h | h
        · exact absurd h hc
        · exact h
      simp [resid, hc, isW, this]
  | nil =>
    cases r with
    | nil => simp [resid, stage2L, isW]
    | cons s' r' =>
      have hs : s'.k.cls ≠ 2 := h
      have hlt : s'.k.cls < 2 := by have := s'.k.cls_lt3; omega
      obtain ⟨n, hn⟩ := item2_ph esc 2 m' n0 n1 n2 s'.k hlt
      simp only [resid, List.nil_append, stage2L, hn]
      rw [head_placeholder]; decide

theorem noTriple_stage2L {esc : List Char} (hs : EscSup esc) (h1 : '*' ∈ esc) (h2 : '_' ∈ esc) (segs : List Seg2) :
    ∀ (m n0 n1 n2 : Nat) (pw : Bool), Segs2OK esc segs → UnderOK2 esc pw segs →
      NoTriple '_' (stage2L esc 2 m n0 n1 n2 segs) := by
  induction segs with
  | nil => intro _ _ _ _ _ _ _; exact noTriple_nil _
  | cons s r ih =>
    intro m n0 n1 n2 pw hok hu
    have hokr : Segs2OK esc r := fun x hx => hok x (List.mem_cons_of_mem _ hx)
    have hrest := ih (m + s.k.esc esc + escCount esc s.t) (n0 + s.k.codes) (n1 + s.k.stars) (n2 + s.k.unders) _ hokr hu.2
    have hres : '_' ∉ resid esc (m + s.k.esc esc) s.t := fun h => (resid_no_delim h1 h2 s.t _ _ h).2 rfl
    have hZ := noTriple_of_no_c '_' _ _ hres hrest
    simp only [stage2L]
    by_cases hc : s.k.cls < 2
    · obtain ⟨n, hn⟩ := item2_ph esc 2 m n0 n1 n2 s.k hc
      rw [hn]
      exact noTriple_of_no_c '_' _ _ (not_mem_placeholder (by decide) _) hZ
    · cases hk : s.k with
      | code n b => rw [hk] at hc; simp [K2.cls] at hc
      | em st d β =>
        have hs' := hok s List.mem_cons_self
        rw [hk] at hs' hc
        obtain ⟨hd, hβ⟩ := hs'
        have hdu : d = '_' := by
          rcases hd with e | e
          · rw [e] at hc; simp [K2.cls] at hc
          · exact e
        subst hdu
        have hc2 : s.k.cls = 2 := by rw [hk]; simp [K2.cls]
        have hnext := (hu.1 hc2).2
        have hhead := isW_under_head (isW_head_next2 esc s.t (m + s.k.esc esc)
          (m + s.k.esc esc + escCount esc s.t) (n0 + s.k.codes) (n1 + s.k.stars) (n2 + s.k.unders) r hnext)
        simp only [item2_em, hc, if_false, dl, List.append_assoc]
        have hm : (if st then 2 else 1) ≤ 2 := by cases st <;> simp
        rw [hk] at hhead hZ
        have hbch := body2_bodyCh hs β hβ 2 (by omega) m n0 n1
        obtain ⟨hne, _, _, _⟩ := body2_facts hs '_' (Or.inr rfl) β hβ 2 m n0 n1
        refine noTriple_delim '_' _ ?_ (noTriple_of_no_c '_' _ _
          (fun h => (bodyCh_facts (hbch _ h)).2.1 rfl) (noTriple_delim '_' _ hhead hZ _ hm)) _ hm
        cases hwc : body2 esc 2 m n0 n1 β with
        | nil => exact absurd hwc hne
        | cons x w' =>
          have := (bodyCh_facts (hbch x (by rw [hwc]; simp))).2.1
          simpa using this

/-- the turns of the pattern loop at pattern 15 -/
def itU : List Seg2 → Nat
  | [] => 0
  | s :: r => (if s.k.cls = 2 then 1 else 0) + itU r

theorem under_pass2 (cfg : Inline.Cfg) (f : Nat) (hs : EscSup cfg.esc) (h1 : '*' ∈ cfg.esc) (h2 : '_' ∈ cfg.esc)
    (segs : List Seg2) :
    ∀ (A : Str) (m n0 n1 n2 : Nat) (st : St) (g : Nat), '_' ∉ A → Segs2OK cfg.esc segs →
      UnderOK2 cfg.esc (isW (lastOr none A)) segs →
      hiLoop (applyPattern cfg (fun d p s => handleInline cfg (f + 1) d p s)) (g + itU segs)
        (A ++ stage2L cfg.esc 2 m n0 n1 n2 segs) 15 0 st =
      hiLoop (applyPattern cfg (fun d p s => handleInline cfg (f + 1) d p s)) g
        (A ++ stage2L cfg.esc 3 m n0 n1 st.stash.length segs) 15 0
        { st with stash := st.stash ++ nodesU cfg.esc m n0 n1 segs } := by
  induction segs with
  | nil => intro A m n0 n1 n2 st g _ _ _; simp [stage2L, nodesU, itU]
  | cons s r ih =>
    intro A m n0 n1 n2 st g hA hok hu
    have hokr : Segs2OK cfg.esc r := fun x hx => hok x (List.mem_cons_of_mem _ hx)
    have hs' := hok s List.mem_cons_self
    have hres : ∀ m', '_' ∉ resid cfg.esc m' s.t := fun m' h => (resid_no_delim h1 h2 s.t m' _ h).2 rfl
    by_cases hc : s.k.cls < 2
    · -- a placeholder already
      have hne2 : ¬ s.k.cls = 2 := by omega
      obtain ⟨n, hn⟩ := item2_ph cfg.esc 2 m n0 n1 n2 s.k hc
      have hn3 : item2 cfg.esc 3 m n0 n1 st.stash.length s.k = placeholder n := by
        rw [← hn]
        cases hk : s.k with
        | code _ _ => rfl
        | em st' d β =>
          rw [hk] at hc
          have hd : d = '*' := Decidable.by_contra (fun hd => by simp [K2.cls, hd] at hc)
          subst hd
          have h3 : (K2.em st' '*' β).cls < 3 := K2.cls_lt3 _
          simp only [item2_em, hc, h3, if_true]
      have hnodes : (match s.k with
          | .code _ _ => []
          | .em st d β => if d = '*' then [] else [StashItem.node (emEl st (body2 cfg.esc 2 m n0 n1 β))]) = [] := by
        cases hk : s.k with
        | code _ _ => rfl
        | em st' d β =>
          rw [hk] at hne2
          by_cases hd : d = '*'
          · simp [hd]
          · simp [K2.cls, hd] at hne2
      have hun : s.k.unders = 0 := by
        cases hk : s.k with
        | code _ _ => rfl
        | em st' d β =>
          rw [hk] at hne2
          by_cases hd : d = '*'
          · simp [K2.unders, hd]
          · simp [K2.cls, hd] at hne2
      have hu' : UnderOK2 cfg.esc (isW (lastOr none (A ++ (placeholder n ++ resid cfg.esc (m + s.k.esc cfg.esc) s.t)))) r := by
        rw [isW_lastOr_seg]; exact hu.2
      have := ih (A ++ (placeholder n ++ resid cfg.esc (m + s.k.esc cfg.esc) s.t))
        (m + s.k.esc cfg.esc + escCount cfg.esc s.t) (n0 + s.k.codes) (n1 + s.k.stars) n2 st g
        (not_mem_of_append3 hA (not_mem_placeholder (by decide) _) (hres _)) hokr hu'
      simp only [stage2L, nodesU, itU, hn, hn3, hnodes, hne2, if_false, Nat.zero_add, hun, Nat.add_zero,
        List.nil_append, List.append_assoc] at this ⊢
      exact this
    · cases hk : s.k with
      | code n b => rw [hk] at hc; simp [K2.cls] at hc
      | em st' d β =>
        rw [hk] at hs' hc
        obtain ⟨hd, hβ⟩ := hs'
        have hdu : d = '_' := by
          rcases hd with e | e
          · rw [e] at hc; simp [K2.cls] at hc
          · exact e
        subst hdu
        have hcl : (K2.em st' '_' β).cls = 2 := by simp [K2.cls]
        have hc2 : s.k.cls = 2 := by rw [hk]; exact hcl
        obtain ⟨hpw, hnext⟩ := hu.1 hc2
        obtain ⟨hne, _, _, _⟩ := body2_facts hs '_' (Or.inr rfl) β hβ 2 m n0 n1
        have hch := body2_bodyCh hs β hβ 2 (by omega) m n0 n1
        generalize hW : body2 cfg.esc 2 m n0 n1 β = W at *
        obtain ⟨q, hq⟩ := delim_cons ⟨st', '_', W, []⟩
        have hE : emSrc ⟨st', '_', W, []⟩ = '_' :: (q ++ (W ++ EmSeg.delim ⟨st', '_', W, []⟩)) := by
          rw [emSrc, hq]; rfl
        generalize hZ' : resid cfg.esc (m + (K2.em st' '_' β).esc cfg.esc) s.t ++
          stage2L cfg.esc 2 (m + (K2.em st' '_' β).esc cfg.esc + escCount cfg.esc s.t) (n0 + (K2.em st' '_' β).codes)
            (n1 + (K2.em st' '_' β).stars) (n2 + (K2.em st' '_' β).unders) r = Z'
        have hhm := emHandle_body st' '_' W (Or.inr rfl) hne
          (fun x hx => ⟨(bodyCh_facts (hch x hx)).1, (bodyCh_facts (hch x hx)).2.1⟩) A Z'
          (fun _ => ⟨hpw, by rw [← hZ', ← hk]; exact isW_head_next2 cfg.esc s.t _ _ _ _ _ r hnext,
            by rw [← hZ']; exact noTriple_of_no_c '_' _ _ (hres _) (noTriple_stage2L hs h1 h2 r _ _ _ _ _ hokr hu.2)⟩)
        have hin := handleInline_word cfg f W (bodyCh_quiet hch) 16 (Or.inr rfl) st
        have hstep := applyPattern_emG cfg f 15 (Or.inr rfl) '_' rfl A _ Z' hA _ hE st' _ hne _ st st hin hhm
        have hu' : UnderOK2 cfg.esc (isW (lastOr none (A ++ (placeholder st.stash.length ++
            resid cfg.esc (m + (K2.em st' '_' β).esc cfg.esc) s.t)))) r := by
          rw [isW_lastOr_seg]; exact hu.2
        have := ih (A ++ (placeholder st.stash.length ++ resid cfg.esc (m + (K2.em st' '_' β).esc cfg.esc) s.t))
          (m + (K2.em st' '_' β).esc cfg.esc + escCount cfg.esc s.t) (n0 + (K2.em st' '_' β).codes)
          (n1 + (K2.em st' '_' β).stars) (n2 + (K2.em st' '_' β).unders)
          { st with stash := st.stash ++ [.node (emEl st' W)] } g
          (not_mem_of_append3 hA (not_mem_placeholder (by decide) _) (hres _)) hokr hu'
        have hun : (K2.em st' '_' β).unders = 1 := by simp [K2.unders]
        simp only [stage2L, item2_em, nodesU, itU, hk, hcl, if_true, Nat.lt_irrefl, if_false,
          show (2 : Nat) < 3 by omega, show ¬ ('_' = '*') by decide,
          List.length_append, List.length_cons, List.length_nil, hW, List.append_assoc] at this ⊢
        rw [hZ', show g + (1 + itU r) = (g + itU r) + 1 by omega]
        have hdata : A ++ (dl st' '_' ++ (W ++ (dl st' '_' ++ Z'))) = A ++ (emSrc ⟨st', '_', W, []⟩ ++ Z') := by
          rw [← dl_eq]; simp only [List.append_assoc]
        rw [hdata, hiLoop_step _ _ _ 15 0 st (by omega) _ _ _ _ hstep]
        simp only [if_true]
        rw [← hZ']
        simp only [hun] at this ⊢
        exact this


/-! ### 51. the whole pattern loop on a line with emphasis inside emphasis -/

theorem mem_dl {st : Bool} {d c : Char} (h : c ∈ dl st d) : c = d := by
  cases st <;> simp [dl] at h <;> exact h

theorem mem_stage2L {esc : List Char} (hs : EscSup esc) {c : Char} (lv : Nat) (segs : List Seg2) :
    ∀ m n0 n1 n2, Segs2OK esc segs → c ∈ stage2L esc lv m n0 n1 n2 segs →
      BodyCh c ∨ (∃ s ∈ segs, c ∈ s.t ∧ c ∉ esc) ∨ ((c = '*' ∨ c = '_') ∧ lv ≤ (if c = '*' then 1 else 2)) := by
  induction segs with
  | nil => intro m n0 n1 n2 _ h; simp [stage2L] at h
  | cons s r ih =>
    intro m n0 n1 n2 hok h
    simp only [stage2L, List.mem_append] at h
    rcases h with h | h | h
    · cases hk : s.k with
      | code n b =>
        rw [hk] at h
        exact Or.inl (Or.inr (phChar_of_mem_placeholder h))
      | em st d β =>
        have hs' := hok s List.mem_cons_self
        rw [hk] at h hs'
        rw [item2_em] at h
        split at h
        · exact Or.inl (Or.inr (phChar_of_mem_placeholder h))
        · rename_i hlv
          have hdel : (d = '*' ∨ d = '_') ∧ lv ≤ (if d = '*' then 1 else 2) := by
            refine ⟨hs'.1, ?_⟩
            simp only [K2.cls] at hlv; omega
          rcases List.mem_append.1 h with h | h
          · rw [mem_dl h]; exact Or.inr (Or.inr hdel)
          · rcases List.mem_append.1 h with h | h
            · rcases (body2_facts hs d hs'.1 β hs'.2 lv m n0 n1).2.1 c h with hb | ⟨hx, _, hl⟩
              · exact Or.inl hb
              · exact Or.inr (Or.inr ⟨hx, hl⟩)
            · rw [mem_dl h]; exact Or.inr (Or.inr hdel)
    · rcases mem_resid h with h | h
      · exact Or.inr (Or.inl ⟨s, List.mem_cons_self, h⟩)
      · exact Or.inl (Or.inr h)
    · rcases ih _ _ _ _ (fun x hx => hok x (List.mem_cons_of_mem _ hx)) h with h | ⟨x, hx, h⟩ | h
      · exact Or.inl h
      · exact Or.inr (Or.inl ⟨x, List.mem_cons_of_mem _ hx, h⟩)
      · exact Or.inr (Or.inr h)

theorem count1_le (c : Nat) (segs : List Seg1) : count1 c segs ≤ segs.length := by
  induction segs with
  | nil => simp [count1]
  | cons s r ih => simp only [count1, List.length_cons]; split <;> omega

theorem its_le (segs : List Seg2) : itS segs + itU segs ≤ (flatten2 segs).length := by
  induction segs with
  | nil => simp [itS, itU, flatten2]
  | cons s r ih =>
    obtain ⟨k, t⟩ := s
    cases k with
    | code n b => simp only [itS, itU, flatten2, K2.cls, List.length_cons]; simp; omega
    | em st d β =>
      have h1 := count1_le 1 β.segs
      have h2 := flatten1_length β.segs
      simp only [itS, itU, flatten2, K2.cls, List.length_cons, List.length_append]
      split <;> simp <;> omega

/-- **the pattern loop** on a line with emphasis inside emphasis -/
theorem handleInlineTop_L2 (cfg : Inline.Cfg) (hE : EscOK cfg.esc) (hs : EscSup cfg.esc) (t0 : Str)
    (segs : List Seg2) (st : St) (hok : Segs2OK cfg.esc segs) (hF : FSegsOK (flatten2 segs))
    (hj : junctionsF t0 false (flatten2 segs)) (hu : UnderOK2 cfg.esc (lastW cfg.esc t0) segs)
    (hplain : ∀ c, (c ∈ t0 ∨ ∃ s ∈ segs, c ∈ s.t) → c ≠ '&' ∧ c ≠ '\n') :
    handleInlineTop cfg (escAll cfg.esc t0 ++ stageF cfg.esc false false 0 0 (flatten2 segs)) st =
      some (resid cfg.esc (st.stash.length + (codesF (flatten2 segs)).length) t0 ++
          stage2L cfg.esc 3 (st.stash.length + (codesF (flatten2 segs)).length + escCount cfg.esc t0) st.stash.length
            (st.stash.length + (codesF (flatten2 segs)).length + escCount cfg.esc t0 + escCountF cfg.esc (flatten2 segs))
            (st.stash.length + (codesF (flatten2 segs)).length + escCount cfg.esc t0 + escCountF cfg.esc (flatten2 segs) +
              (nodesS cfg.esc (st.stash.length + (codesF (flatten2 segs)).length + escCount cfg.esc t0)
                st.stash.length (st.stash.length + (codesF (flatten2 segs)).length + escCount cfg.esc t0 +
                  escCountF cfg.esc (flatten2 segs)) segs).length) segs,
        { st with stash := st.stash ++ (codesF (flatten2 segs) ++ (stashOf cfg.esc t0 ++ stashOfF cfg.esc (flatten2 segs)) ++
            nodesS cfg.esc (st.stash.length + (codesF (flatten2 segs)).length + escCount cfg.esc t0) st.stash.length
              (st.stash.length + (codesF (flatten2 segs)).length + escCount cfg.esc t0 +
                  escCountF cfg.esc (flatten2 segs)) segs ++
            nodesU cfg.esc (st.stash.length + (codesF (flatten2 segs)).length + escCount cfg.esc t0) st.stash.length
              (st.stash.length + (codesF (flatten2 segs)).length + escCount cfg.esc t0 +
                  escCountF cfg.esc (flatten2 segs)) segs) }) := by
  generalize hFl : flatten2 segs = F at *
  generalize hraw : escAll cfg.esc t0 ++ stageF cfg.esc false false 0 0 F = raw
  generalize hn0 : st.stash.length = n0
  generalize hne : n0 + (codesF F).length = ne
  generalize hm1 : ne + escCount cfg.esc t0 = m1
  generalize hn1 : m1 + escCountF cfg.esc F = n1
  generalize hN1 : nodesS cfg.esc m1 n0 n1 segs = N1
  generalize hN2 : nodesU cfg.esc m1 n0 n1 segs = N2
  have hlen : escCount cfg.esc t0 + escCountF cfg.esc F + F.length ≤ raw.length := by
    have h1 := escCount_le cfg.esc t0
    have h2 := stageF_length cfg.esc F hF 0 0
    rw [← hraw, List.length_append]; omega
  have hcl := codesF_le F
  have hnl : itS segs + itU segs ≤ F.length := by
    have := its_le segs
    rw [hFl] at this; exact this
  obtain ⟨x, hx⟩ : ∃ x, loopFuel raw.length =
      (((((((((((x + 1) + 1) + itU segs) + 1) + itS segs) + 1) + 11) + 1) +
        escCountF cfg.esc F) + escCount cfg.esc t0) + 1) + (codesF F).length :=
    ⟨loopFuel raw.length - (escCount cfg.esc t0 + escCountF cfg.esc F + (codesF F).length + itS segs + itU segs + 17), by
      have := CodeLaw.loopFuel_ge raw.length; omega⟩
  unfold handleInlineTop depthFuel
  rw [show raw.length + 20 = ((raw.length + 17) + 1 + 1) + 1 from rfl]
  unfold handleInline
  rw [hx]
  generalize hhi : (fun d p s => handleInline cfg ((raw.length + 17) + 1 + 1) d p s) = hi
  rw [← hraw]
  -- pattern 0
  have e0 := code_passF cfg hi hE.bs hE.tick F [] t0 false 0 0 st
    (((((((((((x + 1) + 1) + itU segs) + 1) + itS segs) + 1) + 11) + 1) +
        escCountF cfg.esc F) + escCount cfg.esc t0) + 1) btOK_nil (by simp) hF hj
  simp only [List.nil_append] at e0
  rw [e0, hn0]
  have hbt : btFind (escAll cfg.esc t0 ++ stageF cfg.esc true false 0 n0 F) 0 = none := by
    simp only [btFind, show ¬ (0 > (escAll cfg.esc t0 ++ stageF cfg.esc true false 0 n0 F).length) by omega,
      if_false, if_true, List.drop_zero]
    have := btScan_stageF hE.bs hE.tick F [] t0 0 n0 none 0 btOK_nil (by simp) hF
    simpa using this
  rw [hiLoop_step _ _ _ 0 0 _ (by omega) _ _ _ _ (applyPattern_zero_none cfg _ _ _ hbt)]
  simp only [Bool.false_eq_true, if_false, Nat.zero_add]
  -- pattern 1
  have e1 := escape_chunk cfg hi hE.bs (stageF cfg.esc true false 0 n0 F) t0 []
    { st with stash := st.stash ++ codesF F }
    (((((((((x + 1) + 1) + itU segs) + 1) + itS segs) + 1) + 11) + 1) + escCountF cfg.esc F) (by simp)
  simp only [List.nil_append] at e1
  rw [e1]
  simp only [List.length_append, hn0, hne]
  have hbs0 : '\\' ∉ resid cfg.esc ne t0 := bs_not_mem_resid hE.bs _ _
  rw [esc_passF cfg hi hE.bs F _ _ _ _ _ hbs0 hF]
  simp only [List.length_append, hn0, hne]
  have hlen0 : (stashOf cfg.esc t0).length = escCount cfg.esc t0 := rfl
  rw [hlen0, hm1, ← hFl, stageF_flatten2 cfg.esc segs m1 n0 0 0, hFl]
  generalize hD1 : resid cfg.esc ne t0 ++ stage2L cfg.esc 1 m1 n0 0 0 segs = D1
  have hfacts : ∀ (lv : Nat) (a b c : Nat) (ch : Char),
      ch ∈ resid cfg.esc ne t0 ++ stage2L cfg.esc lv m1 a b c segs →
      ch ≠ '\\' ∧ ch ≠ '[' ∧ ch ≠ '!' ∧ ch ≠ '&' ∧ ch ≠ '\n' ∧ (ch = '*' → lv ≤ 1) ∧ (ch = '_' → lv ≤ 2) := by
    intro lv a b c ch hc
    have hplainf : ∀ ch, (ch ∈ t0 ∨ ∃ s ∈ segs, ch ∈ s.t) → ch ∉ cfg.esc →
        ch ≠ '\\' ∧ ch ≠ '[' ∧ ch ≠ '!' ∧ ch ≠ '&' ∧ ch ≠ '\n' ∧ (ch = '*' → lv ≤ 1) ∧ (ch = '_' → lv ≤ 2) := by
      intro ch h hn
      have := hplain ch h
      exact ⟨fun e => hn (e ▸ hE.bs), fun e => hn (e ▸ hE.lbr), fun e => hn (e ▸ hE.bang), this.1, this.2,
        fun e => absurd (e ▸ hE.star) hn, fun e => absurd (e ▸ hE.under) hn⟩
    have hbody : ∀ ch, BodyCh ch →
        ch ≠ '\\' ∧ ch ≠ '[' ∧ ch ≠ '!' ∧ ch ≠ '&' ∧ ch ≠ '\n' ∧ (ch = '*' → lv ≤ 1) ∧ (ch = '_' → lv ≤ 2) := by
      intro ch h
      have := bodyCh_facts h
      exact ⟨this.2.2.2.1, this.2.2.2.2.1, this.2.2.2.2.2.1, this.2.2.2.2.2.2.1, this.2.2.2.2.2.2.2,
        fun e => absurd e this.1, fun e => absurd e this.2.1⟩
    rcases List.mem_append.1 hc with h | h
    · rcases mem_resid h with ⟨h, hn⟩ | h
      · exact hplainf ch (Or.inl h) hn
      · exact hbody ch (Or.inr h)
    · rcases mem_stage2L hs lv segs _ _ _ _ hok h with h | ⟨s, hs', h, hn⟩ | ⟨hd, hl⟩
      · exact hbody ch h
      · exact hplainf ch (Or.inr ⟨s, hs', h⟩) hn
      · rcases hd with e | e <;> subst e
        · refine ⟨by decide, by decide, by decide, by decide, by decide, fun _ => ?_, fun e => absurd e (by decide)⟩
          simpa using hl
        · refine ⟨by decide, by decide, by decide, by decide, by decide, fun e => absurd e (by decide), fun _ => ?_⟩
          simpa using hl
  have hbs1 : '\\' ∉ D1 := by
    intro h; rw [← hD1] at h; exact (hfacts 1 _ _ _ _ h).1 rfl
  rw [hiLoop_step _ _ _ 1 0 _ (by omega) _ _ _ _ (applyPattern_esc_none cfg hi D1 _ hbs1)]
  simp only [Bool.false_eq_true, if_false]
  -- patterns 2–12
  have hmid : Mid D1 := by
    intro c hc
    rw [← hD1] at hc
    have := hfacts 1 _ _ _ _ hc
    exact ⟨this.2.1, this.2.2.1, this.2.2.2.1, this.2.2.2.2.1⟩
  rw [show 1 + 1 = 2 from rfl, hiLoop_mid cfg hi D1 _ hmid _ 11 2 rfl (by omega)]
  -- pattern 13
  have hns : nsFind D1 0 = none := by
    rw [← hD1]
    simp only [nsFind, show ¬ (0 > (resid cfg.esc ne t0 ++ stage2L cfg.esc 1 m1 n0 0 0 segs).length) by omega,
      if_false, if_true, List.drop_zero]
    rw [nsScan_text _ (resid_no_delim hE.star hE.under t0 ne)]
    have := nsScan_stage2L hs hE.star hE.under 1 segs m1 n0 0 0 (lastOr none (resid cfg.esc ne t0))
      (0 + (resid cfg.esc ne t0).length) [] hok
    simp only [List.append_nil] at this
    rw [this]; rfl
  rw [hiLoop_step _ _ _ 13 0 _ (by omega) _ _ _ _ (applyPattern_13 cfg hi D1 _ hns)]
  simp only [Bool.false_eq_true, if_false]
  -- pattern 14
  have hs0 : '*' ∉ resid cfg.esc ne t0 := fun h => (resid_no_delim hE.star hE.under t0 ne _ h).1 rfl
  have esp := star_pass2 cfg (raw.length + 17) hs hE.star hE.under segs (resid cfg.esc ne t0) m1 n0 0 0
    { st with stash := st.stash ++ codesF F ++ stashOf cfg.esc t0 ++ stashOfF cfg.esc F }
    ((((x + 1) + 1) + itU segs) + 1) hs0 hok
  simp only [List.length_append, hlen0, stashOfF_length, hn0, hne, hm1, hn1, hN1] at esp
  rw [show 13 + 1 = 14 from rfl, ← hD1, ← hhi, esp]
  have hstar2 : '*' ∉ resid cfg.esc ne t0 ++ stage2L cfg.esc 2 m1 n0 n1 0 segs := by
    intro h
    have := (hfacts 2 _ _ _ _ h).2.2.2.2.2.1 rfl
    omega
  rw [hhi, hiLoop_step _ _ _ 14 0 _ (by omega) _ _ _ _
    (applyPattern_em_none cfg hi 14 (Or.inl rfl) _ _ (by simpa using hstar2))]
  simp only [Bool.false_eq_true, if_false]
  -- pattern 15
  have hu0 : '_' ∉ resid cfg.esc ne t0 := fun h => (resid_no_delim hE.star hE.under t0 ne _ h).2 rfl
  have hpw : isW (lastOr none (resid cfg.esc ne t0)) = lastW cfg.esc t0 := by
    rw [isW_lastOr_resid]
    by_cases ht : t0 = []
    · subst ht; rfl
    · simp [ht]
  have eup := under_pass2 cfg (raw.length + 17 + 1) hs hE.star hE.under segs (resid cfg.esc ne t0) m1 n0 n1 0
    { st with stash := st.stash ++ codesF F ++ stashOf cfg.esc t0 ++ stashOfF cfg.esc F ++ N1 }
    ((x + 1) + 1) hu0 hok (by rw [hpw]; exact hu)
  simp only [hN2] at eup
  rw [show 14 + 1 = 15 from rfl, ← hhi, eup]
  rw [hhi]
  simp only [List.length_append, hlen0, stashOfF_length, hn0, hne, hm1, hn1]
  have hund3 : ∀ n2, '_' ∉ resid cfg.esc ne t0 ++ stage2L cfg.esc 3 m1 n0 n1 n2 segs := by
    intro n2 h
    have := (hfacts 3 _ _ _ _ h).2.2.2.2.2.2 rfl
    omega
  rw [hiLoop_step _ _ _ 15 0 _ (by omega) _ _ _ _
    (applyPattern_em_none cfg hi 15 (Or.inr rfl) _ _ (by simpa using hund3 _))]
  simp only [Bool.false_eq_true, if_false]
  simp only [hiLoop, patternCount, show ¬ (15 + 1 < 16) by omega, if_false]
  simp [List.append_assoc]


/-! ### 52. `__processPlaceholders` on such a line: two levels of emphasis elements get their children -/

/-- `__processPlaceholders` on the residue of a line of level 1, with the stash entries wherever they are -/
theorem pp_L1 (esc : List Char) (hs : EscSup esc) (S : List StashItem) (f : Nat) (t0 : Str) (segs : List Seg1)
    (hf : segs ≠ [] → 0 < f) (parent : Node) (hp1 : parent.text = none) (hp2 : parent.textAtomic = false)
    (m n0 n1 n2 : Nat) (rest : List StashItem)
    (hdrop : S.drop m = stashOf esc t0 ++ escs1 esc segs ++ rest) (hcode : CodeLay S n0 segs)
    (hem : EmLay esc S (m + escCount esc t0) n0 n1 n2 segs)
    (ht0 : STX ∉ t0) (hsegs : ∀ s ∈ segs, STX ∉ s.t) (hok : Segs1OK segs) (hcl : ∀ s ∈ segs, s.k.clean)
    (hne : t0 ≠ [] ∨ segs ≠ []) :
    processPlaceholders S (f + 1 + 1) (resid esc m t0 ++ stageL1 esc 3 (m + escCount esc t0) n0 n1 n2 segs)
        false parent true =
      some (segs.map (tailed1 esc), { parent with text := optStr (coded esc t0) }) := by
  have hlen0 : (stashOf esc t0).length = escCount esc t0 := rfl
  have hdrop1 : S.drop (m + escCount esc t0) = escs1 esc segs ++ rest := by
    have : S.drop (m + escCount esc t0) = (S.drop m).drop (escCount esc t0) := by rw [List.drop_drop]
    rw [this, hdrop, List.append_assoc, ← hlen0, List.drop_left]
  have hlay : Lay1 esc S (procNode fun d a p i => processPlaceholders S (f + 1) d a p i) (m + escCount esc t0)
      n0 n1 n2 segs := by
    by_cases hseg : segs = []
    · subst hseg; trivial
    · exact lay1_of esc hs S f (hf hseg) segs _ _ _ _ rest hcode hem hdrop1 hok hcl
  generalize hRR : resid esc m t0 ++ stageL1 esc 3 (m + escCount esc t0) n0 n1 n2 segs = R
  have hRne : R.isEmpty = false := by
    rw [← hRR]
    rcases hne with h | h
    · have := resid_ne_nil esc t0 h m
      cases hx : resid esc m t0 with
      | nil => exact absurd hx this
      | cons a b => simp
    · have := stageL1_ne_nil esc 3 segs h (m + escCount esc t0) n0 n1 n2
      cases hx : stageL1 esc 3 (m + escCount esc t0) n0 n1 n2 segs with
      | nil => exact absurd hx this
      | cons a b => cases resid esc m t0 <;> simp
  unfold processPlaceholders
  simp only [hRne, Bool.false_eq_true, if_false]
  have hcost := costL1_le esc segs t0 m (m + escCount esc t0) n0 n1 n2
  rw [hRR] at hcost
  obtain ⟨g, hg⟩ : ∃ g, R.length + 2 = g + costL1 esc t0 segs := ⟨R.length + 2 - costL1 esc t0 segs, by omega⟩
  rw [hg]
  have := ppLoop_L1 esc S
    (procNode fun d a p t_1 => processPlaceholders S (f + 1) d a p t_1)
    segs [] t0 m n0 n1 n2 ([], parent) g rest ht0 hsegs hdrop hlay
  simp only [List.nil_append, List.length_nil] at this
  rw [hRR] at this
  rw [this]
  have hlt : lt (coded esc t0) ([], parent) = ([], { parent with text := optStr (coded esc t0) }) := by
    simp only [lt]; exact CodeLaw.linkText_text _ parent hp1 hp2
  rw [hlt, foldL1_closed]
  simp

/-- an outer emphasis element with its content: text, and the items of the content as children -/
def emFull2 (esc : List Char) (st : Bool) (β : Body1) : Node :=
  { emEl st [] with text := optStr (coded esc β.u0), children := β.segs.map (tailed1 esc) }

/-- an outer emphasis element comes out of the stash with its content resolved, emphasis elements included -/
theorem procNode_em2 (esc : List Char) (hs : EscSup esc) (S : List StashItem) (f : Nat) (st : Bool) (d : Char)
    (hd : d = '*' ∨ d = '_') (β : Body1) (hβ : Body1OK esc d β) (hf : β.segs ≠ [] → 0 < f) (m n0 n1 : Nat)
    (rest : List StashItem) (hdrop : S.drop m = stashOf esc β.u0 ++ escs1 esc β.segs ++ rest)
    (hcode : CodeLay S n0 β.segs) (hem : EmLay esc S (m + escCount esc β.u0) n0 n1 n1 β.segs)
    (hclean : ∀ s ∈ β.segs, s.k.clean) :
    procNode (fun d a p i => processPlaceholders S (f + 1 + 1) d a p i) (emEl st (body2 esc 3 m n0 n1 β)) =
      some (emFull2 esc st β) := by
  obtain ⟨hne, _, hh, _⟩ := body2_facts hs d hd β hβ 3 m n0 n1
  have hstx : ∀ c, (c ∈ β.u0 ∨ ∃ s ∈ β.segs, c ∈ s.t) → c ≠ STX :=
    fun c hc => (plainCh_facts (hβ.plain c hc)).2.2.2.2
  unfold procNode
  have h1 : petTail (fun d a p i => processPlaceholders S (f + 1 + 1) d a p i)
      { emEl st (body2 esc 3 m n0 n1 β) with children := [] } = some (emEl st (body2 esc 3 m n0 n1 β), []) := by
    simp [petTail, emEl, mkEl, Node.truthy]
  simp only [h1]
  have htr : Node.truthy (some (body2 esc 3 m n0 n1 β)) = true := by
    cases hx : body2 esc 3 m n0 n1 β with
    | nil => exact absurd hx hne
    | cons a b => rfl
  have hbl : blankOpt (some (body2 esc 3 m n0 n1 β)) = false := by
    simp only [blankOpt, Option.getD_some]; exact isBlank_false_of_head hne hh
  have hpp := pp_L1 esc hs S f β.u0 β.segs hf
    { emEl st (body2 esc 3 m n0 n1 β) with text := none, textAtomic := false } rfl rfl m n0 n1 n1 rest hdrop hcode hem
    (fun h => hstx _ (Or.inl h) rfl) (fun s hs' h => hstx _ (Or.inr ⟨s, hs', h⟩) rfl) hβ.segs hclean hβ.ne
  have h2 : petText (fun d a p i => processPlaceholders S (f + 1 + 1) d a p i) (emEl st (body2 esc 3 m n0 n1 β)) =
      some (emFull2 esc st β) := by
    have e1 : (emEl st (body2 esc 3 m n0 n1 β)).text = some (body2 esc 3 m n0 n1 β) := rfl
    have e2 : (emEl st (body2 esc 3 m n0 n1 β)).textAtomic = false := rfl
    simp only [petText, e1, e2, htr, hbl, Bool.not_false, Bool.and_self, if_true, Option.getD_some]
    have hpp' := hpp
    simp only [body2] at hpp' ⊢
    rw [hpp']
    simp [emFull2, emEl, mkEl]
  simp only [h2]
  simp [procKids, emFull2, emEl, mkEl]

/-- the code elements of a line, in order (those inside emphasis included) -/
def codes2 : List Seg2 → List StashItem
  | [] => []
  | ⟨.code _ b, _⟩ :: r => .node (codeSpan (Code.codeEscape b)) :: codes2 r
  | ⟨.em _ _ β, _⟩ :: r => codes1 β.segs ++ codes2 r

def bodyEscs2 (esc : List Char) : K2 → List StashItem
  | .code _ _ => []
  | .em _ _ β => stashOf esc β.u0 ++ escs1 esc β.segs

/-- the escape codes of a line, in order -/
def escs2 (esc : List Char) : List Seg2 → List StashItem
  | [] => []
  | s :: r => bodyEscs2 esc s.k ++ (stashOf esc s.t ++ escs2 esc r)

theorem flat2_codes_escs (esc : List Char) (segs : List Seg2) :
    codesF (flatten2 segs) = codes2 segs ∧ stashOfF esc (flatten2 segs) = escs2 esc segs := by
  induction segs with
  | nil => exact ⟨rfl, rfl⟩
  | cons s r ih =>
    obtain ⟨k, t⟩ := s
    cases k with
    | code n b => simp [flatten2, codesF, stashOfF, codes2, escs2, bodyEscs2, ih.1, ih.2]
    | em st d β =>
      obtain ⟨h1, h2⟩ := flat_codes_escs esc β.segs
      simp [flatten2, codesF, stashOfF, codesF_append, stashOfF_append, codes2, escs2, bodyEscs2, ih.1, ih.2, h1, h2,
        List.append_assoc]

theorem counts1 (esc : List Char) (segs : List Seg1) :
    (escs1 esc segs).length = lineEsc1 esc segs ∧ (codes1 segs).length = lineCodes1 segs := by
  obtain ⟨h1, h2⟩ := flat_codes_escs esc segs
  obtain ⟨h3, h4⟩ := flat1_counts esc segs
  exact ⟨by rw [← h2, stashOfF_length, h3], by rw [← h1, h4]⟩

theorem bodyEscs2_length (esc : List Char) (k : K2) : (bodyEscs2 esc k).length = k.esc esc := by
  cases k with
  | code _ _ => rfl
  | em st d β => simp [bodyEscs2, K2.esc, (counts1 esc β.segs).1, escCount]

/-- where the code elements are in the stash -/
def CodeLay2 (S : List StashItem) : Nat → List Seg2 → Prop
  | _, [] => True
  | n0, s :: r =>
    (match s.k with
      | .code _ b => S[n0]? = some (.node (codeSpan (Code.codeEscape b)))
      | .em _ _ β => CodeLay S n0 β.segs) ∧ CodeLay2 S (n0 + s.k.codes) r

theorem codeLay2_ok (segs : List Seg2) :
    ∀ (B X : List StashItem), CodeLay2 (B ++ codes2 segs ++ X) B.length segs := by
  induction segs with
  | nil => intro _ _; trivial
  | cons s r ih =>
    intro B X
    obtain ⟨k, t⟩ := s
    cases k with
    | code n b =>
      refine ⟨by simp [codes2], ?_⟩
      have := ih (B ++ [.node (codeSpan (Code.codeEscape b))]) X
      simpa [codes2, K2.codes, List.append_assoc] using this
    | em st d β =>
      refine ⟨?_, ?_⟩
      · have := codeLay_ok β.segs B (codes2 r ++ X)
        simpa [codes2, List.append_assoc] using this
      · have := ih (B ++ codes1 β.segs) X
        simpa [codes2, K2.codes, (counts1 [] β.segs).2, List.append_assoc] using this

def idx2 (n0 n1 n2 : Nat) : K2 → Nat
  | .code _ _ => n0
  | .em _ d β => if d = '*' then n1 + count1 2 β.segs else n2

/-- the element as it lies in the stash, before its content is resolved -/
def kraw2 (esc : List Char) (m n0 n1 : Nat) : K2 → Node
  | .code _ b => codeSpan (Code.codeEscape b)
  | .em st _ β => emEl st (body2 esc 3 m n0 n1 β)

/-- the element an item becomes -/
def kfin2 (esc : List Char) : K2 → Node
  | .code _ b => codeSpan (Code.codeEscape b)
  | .em st _ β => emFull2 esc st β

theorem item2_3 (esc : List Char) (m n0 n1 n2 : Nat) (k : K2) :
    item2 esc 3 m n0 n1 n2 k = placeholder (idx2 n0 n1 n2 k) := by
  cases k with
  | code n b => rfl
  | em st d β => simp [item2_em, K2.cls_lt3, idx2]

/-- where the outer emphasis elements are in the stash, and the elements of their contents -/
def EmLay2 (esc : List Char) (S : List StashItem) : Nat → Nat → Nat → Nat → List Seg2 → Prop
  | _, _, _, _, [] => True
  | m, n0, n1, n2, s :: r =>
    (match s.k with
      | .code _ _ => True
      | .em st d β => S[idx2 n0 n1 n2 (.em st d β)]? = some (.node (kraw2 esc m n0 n1 (.em st d β))) ∧
          EmLay esc S (m + escCount esc β.u0) n0 n1 n1 β.segs) ∧
    EmLay2 esc S (m + s.k.esc esc + escCount esc s.t) (n0 + s.k.codes) (n1 + s.k.stars) (n2 + s.k.unders) r

theorem stageL1_nounder (esc : List Char) (segs : List Seg1) (h : ∀ s ∈ segs, s.k.cls ≠ 2) :
    ∀ m n0 n1 n2 n2', stageL1 esc 2 m n0 n1 n2 segs = stageL1 esc 3 m n0 n1 n2' segs := by
  induction segs with
  | nil => intro _ _ _ _ _; rfl
  | cons s r ih =>
    intro m n0 n1 n2 n2'
    have hs := h s List.mem_cons_self
    have hi : itemL1 esc 2 m n0 n1 n2 s.k = itemL1 esc 3 m n0 n1 n2' s.k := by
      cases hk : s.k with
      | code n b => rfl
      | em st d β =>
        rw [hk] at hs
        have hd : d = '*' := Decidable.by_contra (fun e => hs (by simp [K1.cls, e]))
        subst hd
        simp [itemL1, K1.cls]
    simp only [stageL1, hi]
    rw [ih (fun x hx => h x (List.mem_cons_of_mem _ hx)) _ _ _ (s.k.bump 2 n2) (s.k.bump 2 n2')]

theorem body2_23 (esc : List Char) (m n0 n1 : Nat) (β : Body1) (h : ∀ s ∈ β.segs, s.k.cls ≠ 2) :
    body2 esc 2 m n0 n1 β = body2 esc 3 m n0 n1 β := by
  simp only [body2]; rw [stageL1_nounder esc β.segs h _ _ _ n1 n1]

theorem nodes1_none (c : Nat) (esc : List Char) (segs : List Seg1) (h : ∀ s ∈ segs, s.k.cls ≠ c) :
    ∀ m n0, nodes1 c esc m n0 segs = [] := by
  induction segs with
  | nil => intro _ _; rfl
  | cons s r ih =>
    intro m n0
    have hs := h s List.mem_cons_self
    have := ih (fun x hx => h x (List.mem_cons_of_mem _ hx)) (m + s.k.esc esc + escCount esc s.t) (n0 + s.k.codes)
    cases hk : s.k with
    | code n b => rw [hk] at this; simp only [nodes1, hk, List.nil_append, this]
    | em st d β =>
      rw [hk] at this hs
      simp only [nodes1, hk, hs, if_false, List.nil_append, this]

theorem emLay_irrel2 (esc : List Char) (S : List StashItem) (segs : List Seg1) (h : ∀ s ∈ segs, s.k.cls ≠ 2) :
    ∀ m n0 n1 n2 n2', EmLay esc S m n0 n1 n2 segs → EmLay esc S m n0 n1 n2' segs := by
  induction segs with
  | nil => intro _ _ _ _ _ _; trivial
  | cons s r ih =>
    intro m n0 n1 n2 n2' hl
    have hs := h s List.mem_cons_self
    have hb : ∀ n, s.k.bump 2 n = n := fun n => by simp [K1.bump, hs]
    refine ⟨?_, ?_⟩
    · have h1 := hl.1
      cases hk : s.k with
      | code n b => trivial
      | em st d β =>
        rw [hk] at h1 hs
        have hd : d = '*' := Decidable.by_contra (fun e => hs (by simp [K1.cls, e]))
        subst hd
        simpa using h1
    · have h2 := hl.2
      rw [hb] at h2 ⊢
      exact ih (fun x hx => h x (List.mem_cons_of_mem _ hx)) _ _ _ _ _ h2


theorem stars_eq (st : Bool) (d : Char) (β : Body1) :
    (K2.em st d β).stars = if d = '*' then count1 2 β.segs + 1 else count1 1 β.segs := rfl

theorem emLay2_ok (esc : List Char) (segs : List Seg2) :
    ∀ (m n0 : Nat) (B C D : List StashItem), Segs2OK esc segs →
      EmLay2 esc (B ++ nodesS esc m n0 B.length segs ++ C ++ nodesU esc m n0 B.length segs ++ D) m n0 B.length
        (B.length + (nodesS esc m n0 B.length segs).length + C.length) segs := by
  induction segs with
  | nil => intro _ _ _ _ _ _; trivial
  | cons s r ih =>
    intro m n0 B C D hok
    have hokr : Segs2OK esc r := fun x hx => hok x (List.mem_cons_of_mem _ hx)
    have hs' := hok s List.mem_cons_self
    obtain ⟨k, t⟩ := s
    cases k with
    | code n b =>
      refine ⟨trivial, ?_⟩
      have := ih (m + escCount esc t) (n0 + 1) B C D hokr
      simpa [nodesS, nodesU, K2.esc, K2.codes, K2.stars, K2.unders] using this
    | em st d β =>
      obtain ⟨hd, hβ⟩ := hs'
      by_cases hds : d = '*'
      · subst hds
        have halt : ∀ x ∈ β.segs, x.k.cls ≠ 1 := fun x hx => by simpa using hβ.alt x hx
        have hc2 := nodes1_count 2 (by omega) esc β.segs (m + escCount esc β.u0) n0
        have hn1 := nodes1_none 1 esc β.segs halt (m + escCount esc β.u0) n0
        generalize hm'' : m + (K2.em st '*' β).esc esc + escCount esc t = m''
        generalize hR : nodesS esc m'' (n0 + (K2.em st '*' β).codes) (B.length + (K2.em st '*' β).stars) r = RS
        generalize hU : nodesU esc m'' (n0 + (K2.em st '*' β).codes) (B.length + (K2.em st '*' β).stars) r = RU
        have hS : B ++ nodesS esc m n0 B.length (⟨.em st '*' β, t⟩ :: r) ++ C ++
            nodesU esc m n0 B.length (⟨.em st '*' β, t⟩ :: r) ++ D =
            B ++ nodes1 2 esc (m + escCount esc β.u0) n0 β.segs ++
              (.node (emEl st (body2 esc 3 m n0 B.length β)) :: (RS ++ C ++ RU ++ D)) := by
          simp [nodesS, nodesU, hm'', hR, hU, List.append_assoc]
        rw [hS]
        refine ⟨⟨?_, ?_⟩, ?_⟩
        · simp only [idx2, if_true, kraw2]
          rw [show B.length + count1 2 β.segs = (B ++ nodes1 2 esc (m + escCount esc β.u0) n0 β.segs).length by
            rw [List.length_append, hc2]]
          rw [List.getElem?_append_right (Nat.le_refl _)]
          simp
        · have := emLay_ok esc β.segs (m + escCount esc β.u0) n0 B []
            (.node (emEl st (body2 esc 3 m n0 B.length β)) :: (RS ++ C ++ RU ++ D))
          rw [hn1] at this
          simpa using this
        · have := ih m'' (n0 + (K2.em st '*' β).codes)
            (B ++ nodes1 2 esc (m + escCount esc β.u0) n0 β.segs ++ [.node (emEl st (body2 esc 3 m n0 B.length β))])
            C D hokr
          have hlen : (B ++ nodes1 2 esc (m + escCount esc β.u0) n0 β.segs ++
              [StashItem.node (emEl st (body2 esc 3 m n0 B.length β))]).length =
              B.length + (K2.em st '*' β).stars := by
            simp only [List.length_append, hc2, List.length_cons, List.length_nil, stars_eq, if_true]; omega
          rw [hlen, hR, hU] at this
          have hun : (K2.em st '*' β).unders = 0 := by simp [K2.unders]
          have hlenS : (nodesS esc m n0 B.length (⟨.em st '*' β, t⟩ :: r)).length =
              (K2.em st '*' β).stars + RS.length := by
            simp only [nodesS, if_true, List.length_append, hc2, List.length_cons, List.length_nil, hm'', hR]
            simp only [stars_eq, if_true]
          simp only [hm'', hun, Nat.add_zero, hlenS]
          rw [show B.length + ((K2.em st '*' β).stars + RS.length) + C.length =
            B.length + (K2.em st '*' β).stars + RS.length + C.length by omega]
          simpa [List.append_assoc] using this
      · have hdu : d = '_' := by rcases hd with e | e; exact absurd e hds; exact e
        subst hdu
        have halt : ∀ x ∈ β.segs, x.k.cls ≠ 2 := fun x hx => by simpa using hβ.alt x hx
        have hc1 := nodes1_count 1 (by omega) esc β.segs (m + escCount esc β.u0) n0
        have hn2 := nodes1_none 2 esc β.segs halt (m + escCount esc β.u0) n0
        generalize hm'' : m + (K2.em st '_' β).esc esc + escCount esc t = m''
        generalize hR : nodesS esc m'' (n0 + (K2.em st '_' β).codes) (B.length + (K2.em st '_' β).stars) r = RS
        generalize hU : nodesU esc m'' (n0 + (K2.em st '_' β).codes) (B.length + (K2.em st '_' β).stars) r = RU
        have hS : B ++ nodesS esc m n0 B.length (⟨.em st '_' β, t⟩ :: r) ++ C ++
            nodesU esc m n0 B.length (⟨.em st '_' β, t⟩ :: r) ++ D =
            B ++ nodes1 1 esc (m + escCount esc β.u0) n0 β.segs ++ RS ++ C ++
              (.node (emEl st (body2 esc 3 m n0 B.length β)) :: (RU ++ D)) := by
          simp [nodesS, nodesU, hm'', hR, hU, body2_23 esc m n0 B.length β halt, List.append_assoc]
        have hlenS : (nodesS esc m n0 B.length (⟨.em st '_' β, t⟩ :: r)).length =
            (K2.em st '_' β).stars + RS.length := by
          simp only [nodesS, show ¬ ('_' = '*') by decide, if_false, List.length_append, hc1, hm'', hR]
          simp only [stars_eq, show ¬ ('_' = '*') by decide, if_false]
        rw [hS, hlenS]
        refine ⟨⟨?_, ?_⟩, ?_⟩
        · simp only [idx2, show ¬ ('_' = '*') by decide, if_false, kraw2]
          rw [show B.length + ((K2.em st '_' β).stars + RS.length) + C.length =
              (B ++ nodes1 1 esc (m + escCount esc β.u0) n0 β.segs ++ RS ++ C).length by
            simp only [List.length_append, hc1, stars_eq, show ¬ ('_' = '*') by decide, if_false]; omega]
          rw [List.getElem?_append_right (Nat.le_refl _)]
          simp
        · have := emLay_ok esc β.segs (m + escCount esc β.u0) n0 B []
            (RS ++ C ++ (.node (emEl st (body2 esc 3 m n0 B.length β)) :: (RU ++ D)))
          rw [hn2] at this
          have h2 := emLay_irrel2 esc _ β.segs halt _ _ _ _ B.length this
          simpa [List.append_assoc] using h2
        · have := ih m'' (n0 + (K2.em st '_' β).codes)
            (B ++ nodes1 1 esc (m + escCount esc β.u0) n0 β.segs)
            (C ++ [.node (emEl st (body2 esc 3 m n0 B.length β))]) D hokr
          have hlen : (B ++ nodes1 1 esc (m + escCount esc β.u0) n0 β.segs).length =
              B.length + (K2.em st '_' β).stars := by
            simp only [List.length_append, hc1, stars_eq, show ¬ ('_' = '*') by decide, if_false]
          rw [hlen, hR, hU] at this
          have hun : (K2.em st '_' β).unders = 1 := by simp [K2.unders]
          simp only [hm'', hun]
          rw [show B.length + ((K2.em st '_' β).stars + RS.length) + C.length + 1 =
            B.length + (K2.em st '_' β).stars + RS.length + (C ++ [StashItem.node (emEl st (body2 esc 3 m n0 B.length β))]).length
            by simp only [List.length_append, List.length_cons, List.length_nil]; omega]
          simpa [List.append_assoc] using this

/-- every item's stash entry is where its placeholder says, and `nested` resolves it -/
def Lay2 (esc : List Char) (S : List StashItem) (nested : Node → Option Node) : Nat → Nat → Nat → Nat → List Seg2 → Prop
  | _, _, _, _, [] => True
  | m, n0, n1, n2, s :: r =>
    (S[idx2 n0 n1 n2 s.k]? = some (.node (kraw2 esc m n0 n1 s.k)) ∧ nested (kraw2 esc m n0 n1 s.k) = some (kfin2 esc s.k)) ∧
    Lay2 esc S nested (m + s.k.esc esc + escCount esc s.t) (n0 + s.k.codes) (n1 + s.k.stars) (n2 + s.k.unders) r

def foldL2 (esc : List Char) : List Seg2 → List Node × Node → List Node × Node
  | [], rp => rp
  | s :: r, rp => foldL2 esc r (lt (coded esc s.t) (kfin2 esc s.k :: rp.1, rp.2))

def costL2 (esc : List Char) : Str → List Seg2 → Nat
  | t, [] => escCount esc t + 1
  | t, s :: r => escCount esc t + 1 + costL2 esc s.t r

theorem escs2_cons (esc : List Char) (s : Seg2) (r : List Seg2) :
    escs2 esc (s :: r) = bodyEscs2 esc s.k ++ (stashOf esc s.t ++ escs2 esc r) := rfl

theorem ppLoop_L2 (esc : List Char) (S : List StashItem) (nested : Node → Option Node) (segs : List Seg2) :
    ∀ (P t : Str) (m n0 n1 n2 : Nat) (rp : List Node × Node) (g : Nat) (rest : List StashItem), STX ∉ t →
      (∀ s ∈ segs, STX ∉ s.t) →
      S.drop m = stashOf esc t ++ escs2 esc segs ++ rest → Lay2 esc S nested (m + escCount esc t) n0 n1 n2 segs →
      ppLoop S nested (P ++ resid esc m t ++ stage2L esc 3 (m + escCount esc t) n0 n1 n2 segs) false true
        (g + costL2 esc t segs) P.length rp.1 rp.2 =
        some ((foldL2 esc segs (lt (coded esc t) rp)).1.reverse, (foldL2 esc segs (lt (coded esc t) rp)).2) := by
  induction segs with
  | nil =>
    intro P t m n0 n1 n2 rp g rest ht _ hS _
    have := ppLoop_seg esc S nested [] (g + 1) _ (nextOK_end S nested g) t P [] m rp (escs2 esc [] ++ rest)
      (by simp) ht (by simpa [List.append_assoc] using hS)
    simp only [List.append_nil, List.nil_append] at this
    simp only [stage2L, List.append_nil, costL2, foldL2]
    rw [show g + (escCount esc t + 1) = g + 1 + escCount esc t by omega, this]
  | cons s r ih =>
    intro P t m n0 n1 n2 rp g rest ht hsegs hS hst
    have hs1 := hsegs s List.mem_cons_self
    obtain ⟨⟨hst1, hst2⟩, hst3⟩ := hst
    have hK := nextOK_nodeG S nested (g + costL2 esc s.t r) (idx2 n0 n1 n2 s.k)
      (resid esc (m + escCount esc t + s.k.esc esc) s.t ++
        stage2L esc 3 (m + escCount esc t + s.k.esc esc + escCount esc s.t) (n0 + s.k.codes)
          (n1 + s.k.stars) (n2 + s.k.unders) r)
      _ _ hst1 hst2
    have := ppLoop_seg esc S nested _ _ _ hK t P [] m rp (escs2 esc (s :: r) ++ rest)
      (by simp) ht (by simpa [List.append_assoc] using hS)
    simp only [List.append_nil, List.nil_append] at this
    simp only [stage2L, item2_3, costL2, foldL2]
    rw [show g + (escCount esc t + 1 + costL2 esc s.t r) = g + costL2 esc s.t r + 1 + escCount esc t by omega,
      this]
    have hS' : S.drop (m + escCount esc t + s.k.esc esc) = stashOf esc s.t ++ escs2 esc r ++ rest := by
      have : S.drop (m + escCount esc t + s.k.esc esc) = ((S.drop m).drop (escCount esc t)).drop (s.k.esc esc) := by
        rw [List.drop_drop, List.drop_drop, Nat.add_assoc]
      rw [this, hS, escs2_cons]
      have e1 : (stashOf esc t).length = escCount esc t := rfl
      simp only [List.append_assoc]
      rw [← e1, List.drop_left, ← bodyEscs2_length esc s.k, List.drop_left]
    have := ih (P ++ resid esc m t ++ placeholder (idx2 n0 n1 n2 s.k)) s.t (m + escCount esc t + s.k.esc esc)
      (n0 + s.k.codes) (n1 + s.k.stars) (n2 + s.k.unders)
      (kfin2 esc s.k :: (lt (coded esc t) rp).1, (lt (coded esc t) rp).2) g rest hs1
      (fun x hx => hsegs x (List.mem_cons_of_mem _ hx)) hS' hst3
    simp only [List.append_assoc] at this ⊢
    exact this

/-- an item's element with the text that follows it as its tail -/
def tailed2 (esc : List Char) (s : Seg2) : Node := { kfin2 esc s.k with tail := optStr (coded esc s.t) }

theorem lt_kfin2 (esc : List Char) (x : Str) (k : K2) (res : List Node) (par : Node) :
    lt x (kfin2 esc k :: res, par) = ({ kfin2 esc k with tail := optStr x } :: res, par) := by
  cases k with
  | code n b => exact lt_code x _ res par
  | em st d β =>
    cases x with
    | nil => simp [lt, linkText, optStr, kfin2, emFull2, emEl, mkEl]
    | cons c r => simp [lt, linkText, optStr, kfin2, emFull2, emEl, mkEl, Node.truthy]

theorem foldL2_closed (esc : List Char) (segs : List Seg2) :
    ∀ (res : List Node) (par : Node), foldL2 esc segs (res, par) = ((segs.map (tailed2 esc)).reverse ++ res, par) := by
  induction segs with
  | nil => intro res par; rfl
  | cons s r ih =>
    intro res par
    simp only [foldL2, lt_kfin2, ih, List.map_cons, List.reverse_cons, List.append_assoc, List.singleton_append,
      tailed2]

theorem costL2_le (esc : List Char) (segs : List Seg2) :
    ∀ (t : Str) (m m' n0 n1 n2 : Nat),
      costL2 esc t segs ≤ (resid esc m t ++ stage2L esc 3 m' n0 n1 n2 segs).length + 1 := by
  induction segs with
  | nil =>
    intro t m m' n0 n1 n2
    have := escCount_le_resid esc t m
    simp only [costL2, stage2L, List.append_nil]; omega
  | cons s r ih =>
    intro t m m' n0 n1 n2
    have h1 := escCount_le_resid esc t m
    have h2 := ih s.t (m' + s.k.esc esc) (m' + s.k.esc esc + escCount esc s.t) (n0 + s.k.codes) (n1 + s.k.stars)
      (n2 + s.k.unders)
    have h3 := placeholder_length_pos (idx2 n0 n1 n2 s.k)
    simp only [costL2, stage2L, item2_3, List.length_append] at h2 ⊢
    omega


/-- no STX in the code of an item -/
def K2.clean : K2 → Prop
  | .code _ b => STX ∉ Code.codeEscape b
  | .em _ _ β => ∀ s ∈ β.segs, s.k.clean

theorem lay2_of (esc : List Char) (hs : EscSup esc) (S : List StashItem) (f : Nat) (segs : List Seg2) :
    ∀ (m n0 n1 n2 : Nat) (rest : List StashItem),
      (∀ s ∈ segs, ∀ st d β, s.k = .em st d β → β.segs ≠ [] → 0 < f) →
      CodeLay2 S n0 segs → EmLay2 esc S m n0 n1 n2 segs →
      S.drop m = escs2 esc segs ++ rest → Segs2OK esc segs → (∀ s ∈ segs, s.k.clean) →
      Lay2 esc S (procNode fun d a p i => processPlaceholders S (f + 1 + 1) d a p i) m n0 n1 n2 segs := by
  induction segs with
  | nil => intro _ _ _ _ _ _ _ _ _ _ _; trivial
  | cons s r ih =>
    intro m n0 n1 n2 rest hf hc he hd hok hcl
    have hd' : S.drop (m + s.k.esc esc + escCount esc s.t) = escs2 esc r ++ rest := by
      have : S.drop (m + s.k.esc esc + escCount esc s.t) = ((S.drop m).drop (s.k.esc esc)).drop (escCount esc s.t) := by
        rw [List.drop_drop, List.drop_drop, Nat.add_assoc]
      rw [this, hd, escs2_cons]
      have e1 : (stashOf esc s.t).length = escCount esc s.t := rfl
      simp only [List.append_assoc]
      rw [← bodyEscs2_length esc s.k, List.drop_left, ← e1, List.drop_left]
    refine ⟨?_, ih _ _ _ _ rest (fun x hx => hf x (List.mem_cons_of_mem _ hx)) hc.2 he.2 hd'
      (fun x hx => hok x (List.mem_cons_of_mem _ hx)) (fun x hx => hcl x (List.mem_cons_of_mem _ hx))⟩
    have hk := hok s List.mem_cons_self
    have hc1 := hc.1
    have he1 := he.1
    have hcl1 := hcl s List.mem_cons_self
    have hf1 := hf s List.mem_cons_self
    cases hkk : s.k with
    | code n b =>
      rw [hkk] at hc1 hcl1
      exact ⟨hc1, procNode_codeSpan S (f + 1 + 1) (by omega) _ hcl1⟩
    | em st d β =>
      rw [hkk] at hc1 he1 hk hcl1
      refine ⟨he1.1, ?_⟩
      have hdb : S.drop m = stashOf esc β.u0 ++ escs1 esc β.segs ++ (stashOf esc s.t ++ escs2 esc r ++ rest) := by
        rw [hd, escs2_cons, hkk]; simp [bodyEscs2, List.append_assoc]
      exact procNode_em2 esc hs S f st d hk.1 β hk.2 (hf1 st d β hkk) m n0 n1 _ hdb hc1 he1.2 hcl1

theorem inner_pos (c : Nat) (segs : List Seg1) (hne : segs ≠ []) (h : ∀ s ∈ segs, s.k.cls ≠ c) (hc : c = 1 ∨ c = 2) :
    1 ≤ (codes1 segs).length + count1 (3 - c) segs := by
  cases segs with
  | nil => exact absurd rfl hne
  | cons s r =>
    obtain ⟨k, t⟩ := s
    have hs := h ⟨k, t⟩ List.mem_cons_self
    cases k with
    | code n b => simp [codes1]; omega
    | em st d β =>
      have : (K1.em st d β).cls = 3 - c := by
        simp only [K1.cls] at hs ⊢
        rcases hc with e | e <;> subst e <;> split <;> simp_all
      simp only [count1, this, if_true]; omega

theorem codes1_len_append (a b : List StashItem) : (a ++ b).length = a.length + b.length := List.length_append

theorem stash2_sizes (esc : List Char) (segs : List Seg2) (hok : Segs2OK esc segs) :
    ∀ m n0 n1, (segs ≠ [] → 1 ≤ (codes2 segs).length + (nodesS esc m n0 n1 segs).length + (nodesU esc m n0 n1 segs).length) ∧
      (∀ s ∈ segs, ∀ st d β, s.k = .em st d β → β.segs ≠ [] →
        2 ≤ (codes2 segs).length + (nodesS esc m n0 n1 segs).length + (nodesU esc m n0 n1 segs).length) := by
  induction segs with
  | nil => intro _ _ _; exact ⟨fun h => absurd rfl h, fun s hs => by cases hs⟩
  | cons s r ih =>
    intro m n0 n1
    have hokr : Segs2OK esc r := fun x hx => hok x (List.mem_cons_of_mem _ hx)
    have hs' := hok s List.mem_cons_self
    obtain ⟨k, t⟩ := s
    have ihr := ih hokr (m + k.esc esc + escCount esc t) (n0 + k.codes) (n1 + k.stars)
    cases k with
    | code n b =>
      refine ⟨fun _ => by simp [codes2]; omega, ?_⟩
      intro x hx st d β hk hne
      rcases List.mem_cons.1 hx with e | e
      · subst e; cases hk
      · have := ihr.2 x e st d β hk hne
        simp only [codes2, nodesS, nodesU, List.length_cons, List.nil_append] at this ⊢
        omega
    | em st' d' β' =>
      obtain ⟨hd, hβ⟩ := hs'
      have hself : 1 ≤ (nodesS esc m n0 n1 (⟨.em st' d' β', t⟩ :: r)).length +
          (nodesU esc m n0 n1 (⟨.em st' d' β', t⟩ :: r)).length := by
        by_cases hds : d' = '*'
        · simp only [nodesS, nodesU, hds, if_true, List.length_append, List.length_cons, List.length_nil]; omega
        · simp only [nodesS, nodesU, hds, if_false, List.length_append, List.length_cons, List.length_nil]; omega
      refine ⟨fun _ => by omega, ?_⟩
      intro x hx st d β hk hne
      rcases List.mem_cons.1 hx with e | e
      · subst e
        have hk' : K2.em st' d' β' = K2.em st d β := hk
        injection hk' with e1 e2 e3
        subst e3
        by_cases hds : d' = '*'
        · subst hds
          have := inner_pos 1 β'.segs hne (fun x hx => by simpa using hβ.alt x hx) (Or.inl rfl)
          rw [show (3 : Nat) - 1 = 2 from rfl] at this
          have hc2 := nodes1_count 2 (by omega) esc β'.segs (m + escCount esc β'.u0) n0
          simp only [codes2, nodesS, nodesU, if_true, List.length_append, List.length_cons, List.length_nil, hc2] at this ⊢
          omega
        · have hdu : d' = '_' := by rcases hd with e | e; exact absurd e hds; exact e
          subst hdu
          have := inner_pos 2 β'.segs hne (fun x hx => by simpa using hβ.alt x hx) (Or.inr rfl)
          rw [show (3 : Nat) - 2 = 1 from rfl] at this
          have hc1 := nodes1_count 1 (by omega) esc β'.segs (m + escCount esc β'.u0) n0
          simp only [codes2, nodesS, nodesU, show ¬ ('_' = '*') by decide, if_false, List.length_append,
            List.length_cons, List.length_nil, hc1] at this ⊢
          omega
      · have := ihr.2 x e st d β hk hne
        simp only [codes2, nodesS, nodesU, List.length_append] at this ⊢
        omega

/-- **`__processPlaceholders`** on the residue of a line with emphasis inside emphasis -/
theorem ppTop_L2 (esc : List Char) (hs : EscSup esc) (S0 : List StashItem) (html : List Str)
    (t0 : Str) (segs : List Seg2) (parent : Node) (hp1 : parent.text = none) (hp2 : parent.textAtomic = false)
    (ht0 : STX ∉ t0) (hsegs : ∀ s ∈ segs, STX ∉ s.t) (hok : Segs2OK esc segs) (hcl : ∀ s ∈ segs, s.k.clean)
    (hne : t0 ≠ [] ∨ segs ≠ []) :
    ppTop { stash := S0 ++ (codes2 segs ++ (stashOf esc t0 ++ escs2 esc segs) ++
              nodesS esc (S0.length + (codes2 segs).length + escCount esc t0) S0.length
                (S0.length + (codes2 segs).length + escCount esc t0 + (escs2 esc segs).length) segs ++
              nodesU esc (S0.length + (codes2 segs).length + escCount esc t0) S0.length
                (S0.length + (codes2 segs).length + escCount esc t0 + (escs2 esc segs).length) segs), html := html }
        (resid esc (S0.length + (codes2 segs).length) t0 ++
          stage2L esc 3 (S0.length + (codes2 segs).length + escCount esc t0) S0.length
            (S0.length + (codes2 segs).length + escCount esc t0 + (escs2 esc segs).length)
            (S0.length + (codes2 segs).length + escCount esc t0 + (escs2 esc segs).length +
              (nodesS esc (S0.length + (codes2 segs).length + escCount esc t0) S0.length
                (S0.length + (codes2 segs).length + escCount esc t0 + (escs2 esc segs).length) segs).length)
            segs) false parent true =
      some (segs.map (tailed2 esc), { parent with text := optStr (coded esc t0) }) := by
  generalize hm1 : S0.length + (codes2 segs).length + escCount esc t0 = m1
  generalize hn1 : m1 + (escs2 esc segs).length = n1
  generalize hN1 : nodesS esc m1 S0.length n1 segs = N1
  generalize hN2 : nodesU esc m1 S0.length n1 segs = N2
  generalize hS : S0 ++ (codes2 segs ++ (stashOf esc t0 ++ escs2 esc segs) ++ N1 ++ N2) = S
  have hlen0 : (stashOf esc t0).length = escCount esc t0 := rfl
  have hdrop : S.drop (S0.length + (codes2 segs).length) =
      stashOf esc t0 ++ escs2 esc segs ++ (N1 ++ N2) := by
    rw [← hS]
    have : S0 ++ (codes2 segs ++ (stashOf esc t0 ++ escs2 esc segs) ++ N1 ++ N2) =
        (S0 ++ codes2 segs) ++ (stashOf esc t0 ++ escs2 esc segs ++ (N1 ++ N2)) := by
      simp [List.append_assoc]
    rw [this, ← List.length_append, List.drop_left]
  have hdrop1 : S.drop m1 = escs2 esc segs ++ (N1 ++ N2) := by
    have : S.drop m1 = (S.drop (S0.length + (codes2 segs).length)).drop (escCount esc t0) := by
      rw [List.drop_drop, hm1]
    rw [this, hdrop, List.append_assoc, ← hlen0, List.drop_left]
  have hcode : CodeLay2 S S0.length segs := by
    rw [← hS]
    have := codeLay2_ok segs S0 ((stashOf esc t0 ++ escs2 esc segs) ++ N1 ++ N2)
    simpa [List.append_assoc] using this
  have hBlen : (S0 ++ codes2 segs ++ (stashOf esc t0 ++ escs2 esc segs)).length = n1 := by
    simp only [List.length_append, hlen0]; omega
  have hem : EmLay2 esc S m1 S0.length n1 (n1 + N1.length) segs := by
    have := emLay2_ok esc segs m1 S0.length (S0 ++ codes2 segs ++ (stashOf esc t0 ++ escs2 esc segs)) [] [] hok
    rw [hBlen, hN1, hN2] at this
    rw [← hS]
    simpa [List.append_assoc] using this
  have hSl : S.length = S0.length + ((codes2 segs).length + (escCount esc t0 + (escs2 esc segs).length) +
      N1.length + N2.length) := by
    rw [← hS]; simp only [List.length_append, hlen0]
  obtain ⟨hpos1, hpos2⟩ := stash2_sizes esc segs hok m1 S0.length n1
  rw [hN1, hN2] at hpos1 hpos2
  generalize hRR : resid esc (S0.length + (codes2 segs).length) t0 ++
      stage2L esc 3 m1 S0.length n1 (n1 + N1.length) segs = R
  have hRne : R.isEmpty = false := by
    rw [← hRR]
    rcases hne with h | h
    · have := resid_ne_nil esc t0 h (S0.length + (codes2 segs).length)
      cases hx : resid esc (S0.length + (codes2 segs).length) t0 with
      | nil => exact absurd hx this
      | cons a b => simp
    · cases segs with
      | nil => exact absurd rfl h
      | cons s r =>
        simp only [stage2L, item2_3]
        generalize idx2 _ _ _ s.k = k
        cases hx : placeholder k with
        | nil => exact absurd hx (placeholder_ne_nil _)
        | cons a b => cases resid esc (S0.length + (codes2 (s :: r)).length) t0 <;> simp
  have hcost := costL2_le esc segs t0 (S0.length + (codes2 segs).length) m1 S0.length n1 (n1 + N1.length)
  rw [hRR] at hcost
  obtain ⟨g, hg⟩ : ∃ g, R.length + 2 = g + costL2 esc t0 segs := ⟨R.length + 2 - costL2 esc t0 segs, by omega⟩
  have hlt : lt (coded esc t0) ([], parent) = ([], { parent with text := optStr (coded esc t0) }) := by
    simp only [lt]; exact CodeLaw.linkText_text _ parent hp1 hp2
  simp only [ppTop]
  by_cases hseg : segs = []
  · subst hseg
    rw [show S.length + 2 = (S.length + 1) + 1 from rfl]
    unfold processPlaceholders
    simp only [hRne, Bool.false_eq_true, if_false]
    rw [hg]
    have := ppLoop_L2 esc S (procNode fun d a p t_1 => processPlaceholders S (S.length + 1) d a p t_1)
      [] [] t0 (S0.length + (codes2 [] ).length) S0.length n1 (n1 + N1.length) ([], parent) g (N1 ++ N2) ht0 hsegs hdrop
      trivial
    simp only [List.nil_append, List.length_nil] at this
    rw [hm1, hRR] at this
    rw [this, hlt, foldL2_closed]
    simp
  · have hS1 : 1 ≤ S.length := by have := hpos1 hseg; omega
    obtain ⟨f, hf⟩ : ∃ f, S.length = f + 1 := ⟨S.length - 1, by omega⟩
    have hlay : Lay2 esc S (procNode fun d a p i => processPlaceholders S (f + 1 + 1) d a p i) m1 S0.length
        n1 (n1 + N1.length) segs :=
      lay2_of esc hs S f segs m1 S0.length n1 (n1 + N1.length) (N1 ++ N2)
        (fun s hs' st d β hk hne' => by have := hpos2 s hs' st d β hk hne'; omega) hcode hem hdrop1 hok hcl
    rw [hf, show f + 1 + 2 = (f + 1 + 1) + 1 from rfl]
    unfold processPlaceholders
    simp only [hRne, Bool.false_eq_true, if_false]
    rw [hg]
    have := ppLoop_L2 esc S (procNode fun d a p t_1 => processPlaceholders S (f + 1 + 1) d a p t_1)
      segs [] t0 (S0.length + (codes2 segs).length) S0.length n1 (n1 + N1.length) ([], parent) g (N1 ++ N2) ht0 hsegs hdrop
      (by rw [hm1]; exact hlay)
    simp only [List.nil_append, List.length_nil] at this
    rw [hm1, hRR] at this
    rw [this, hlt, foldL2_closed]
    simp


/-! ### 53. such a line through the inline processor, prettify, unescape and the serializer -/

def l2Src (esc : List Char) (tag : Str) (t0 : Str) (segs : List Seg2) : Node :=
  { tag := .name tag, text := some (escAll esc t0 ++ stageF esc false false 0 0 (flatten2 segs)) }

def l2Mid (esc : List Char) (tag : Str) (t0 : Str) (segs : List Seg2) : Node :=
  { tag := .name tag, text := optStr (coded esc t0), children := segs.map (tailed2 esc) }

theorem tailed2_code (esc : List Char) (n : Nat) (b t : Str) : tailed2 esc ⟨.code n b, t⟩ = tailed esc ⟨n, b, t⟩ := rfl

theorem tailed2_tag_em (esc : List Char) (st : Bool) (d : Char) (β : Body1) (t : Str) :
    (tailed2 esc ⟨.em st d β, t⟩).tag = (emEl st []).tag := rfl

theorem bl_tailed2 (esc : List Char) (s : Seg2) :
    TreeProc.isBlockLevel TreeProc.defaultBlockLevel (tailed2 esc s).tag = false := by
  obtain ⟨k, t⟩ := s
  cases k with
  | code n b => exact bl_code'
  | em st d β => rw [tailed2_tag_em]; exact bl_em _

theorem prettifyKids_tailed2 (esc : List Char) (segs : List Seg2) :
    TreeProc.prettifyKids TreeProc.defaultBlockLevel (segs.map (tailed2 esc)) = segs.map (tailed2 esc) := by
  induction segs with
  | nil => rfl
  | cons s r ih =>
    simp only [List.map_cons, TreeProc.prettifyKids, bl_tailed2 esc s, Bool.false_eq_true, if_false, ih]

theorem mapTree_tailed2 (esc : List Char) (s : Seg2) :
    TreeProc.mapTree TreeProc.preRule (TreeProc.mapTree TreeProc.brRule (tailed2 esc s)) = tailed2 esc s := by
  obtain ⟨k, t⟩ := s
  cases k with
  | code n b =>
    have := mapKids_tailed esc [⟨n, b, t⟩]
    simp only [List.map_cons, List.map_nil, TreeProc.mapKids, List.cons.injEq, and_true] at this
    rw [tailed2_code]; exact this
  | em st d β =>
    have hk := mapKids_tailed1 esc β.segs
    have e : tailed2 esc ⟨.em st d β, t⟩ =
        ⟨(emEl st []).tag, [], optStr (coded esc β.u0), false, β.segs.map (tailed1 esc), optStr (coded esc t), false⟩ := rfl
    rw [e]
    have hbr : ∀ n : Node, n.tag = (emEl st []).tag → TreeProc.tagIs n "br" = false := by
      intro n hn; simp only [TreeProc.tagIs, hn]; cases st <;> decide
    have hpre : ∀ n : Node, n.tag = (emEl st []).tag → TreeProc.tagIs n "pre" = false := by
      intro n hn; simp only [TreeProc.tagIs, hn]; cases st <;> decide
    have s1 : ∀ kids : List Node, TreeProc.brRule
        ⟨(emEl st []).tag, [], optStr (coded esc β.u0), false, kids, optStr (coded esc t), false⟩ =
        ⟨(emEl st []).tag, [], optStr (coded esc β.u0), false, kids, optStr (coded esc t), false⟩ := by
      intro kids; unfold TreeProc.brRule
      rw [hbr ⟨(emEl st []).tag, [], optStr (coded esc β.u0), false, kids, optStr (coded esc t), false⟩ rfl]; simp
    have s2 : ∀ kids : List Node, TreeProc.preRule
        ⟨(emEl st []).tag, [], optStr (coded esc β.u0), false, kids, optStr (coded esc t), false⟩ =
        ⟨(emEl st []).tag, [], optStr (coded esc β.u0), false, kids, optStr (coded esc t), false⟩ := by
      intro kids; unfold TreeProc.preRule
      rw [hpre ⟨(emEl st []).tag, [], optStr (coded esc β.u0), false, kids, optStr (coded esc t), false⟩ rfl]; simp
    rw [TreeProc.mapTree, s1, TreeProc.mapTree, s2, hk]

theorem mapKids_tailed2 (esc : List Char) (segs : List Seg2) :
    TreeProc.mapKids TreeProc.preRule (TreeProc.mapKids TreeProc.brRule (segs.map (tailed2 esc))) =
      segs.map (tailed2 esc) := by
  induction segs with
  | nil => rfl
  | cons s r ih => simp only [List.map_cons, TreeProc.mapKids, ih, mapTree_tailed2]

def l2Pretty (esc : List Char) (tag : Str) (t0 : Str) (segs : List Seg2) : Node :=
  { tag := .name tag, text := optStr (coded esc t0), children := segs.map (tailed2 esc), tail := some ['\n'] }

theorem pretty_l2 (esc : List Char) (tag : Str) (htag : textTags.contains tag = true) (t0 : Str)
    (segs : List Seg2) :
    TreeProc.mapTree TreeProc.preRule (TreeProc.mapTree TreeProc.brRule
      (TreeProc.prettifyETree TreeProc.defaultBlockLevel (l2Mid esc tag t0 segs))) =
      l2Pretty esc tag t0 segs := by
  have hf := tagFacts tag (List.mem_cons_of_mem _ (List.contains_iff_mem.1 htag))
  have hbr : (Tag.name tag == Tag.name "br".toList) = false := by simpa using hf.2.2.2.1
  have hpre : (Tag.name tag == Tag.name "pre".toList) = false := by simpa using hf.2.2.1
  have hcode : (Tag.name tag == Tag.name "code".toList) = false := by simpa using hf.2.1
  have h1 : TreeProc.prettifyETree TreeProc.defaultBlockLevel (l2Mid esc tag t0 segs) =
      l2Pretty esc tag t0 segs := by
    cases segs with
    | nil => simp [l2Mid, l2Pretty, TreeProc.prettifyETree, TreeProc.prettifyKids, TreeProc.blankOrNone,
        Node.truthy]
    | cons s r =>
      have hk := prettifyKids_tailed2 esc (s :: r)
      simp only [List.map_cons] at hk
      have hb := bl_tailed2 esc s
      simp only [l2Mid, l2Pretty, TreeProc.prettifyETree, List.map_cons, hb, hk, Bool.and_false,
        Bool.false_eq_true, if_false, hf.1, hcode, hpre, Bool.not_false, Bool.and_self, if_true,
        TreeProc.blankOrNone, Node.truthy, Bool.true_or]
  rw [h1]
  simp only [l2Pretty, TreeProc.mapTree, TreeProc.brRule, TreeProc.preRule, TreeProc.tagIs, hbr, hpre,
    Bool.false_eq_true, if_false, mapKids_tailed2]

/-- the element after unescape -/
def fin2 (s : Seg2) : Node :=
  match s.k with
  | .code _ b => { codeSpan (Code.codeEscape b) with tail := optStr s.t }
  | .em st _ β => { emEl st [] with text := optStr β.u0, children := β.segs.map fin1, tail := optStr s.t }

def l2Fin (tag : Str) (t0 : Str) (segs : List Seg2) : Node :=
  { tag := .name tag, text := optStr t0, children := segs.map fin2, tail := some ['\n'] }

/-- no STX in the texts of a line of level 1 -/
def NoStx1 (segs : List Seg1) : Prop :=
  ∀ s ∈ segs, Inline.STX ∉ s.t ∧
    ∀ st d β, s.k = .em st d β → Inline.STX ∉ β.u0 ∧ ∀ x ∈ β.spans, Inline.STX ∉ x.t

theorem unescapeTree_tailed2 (esc : List Char) (s : Seg2) (hs : Inline.STX ∉ s.t)
    (hb : ∀ st d β, s.k = .em st d β → Inline.STX ∉ β.u0 ∧ NoStx1 β.segs) :
    TreeProc.unescapeTree (tailed2 esc s) = some (fin2 s) := by
  obtain ⟨k, t⟩ := s
  cases k with
  | code n b => exact unescapeTree_tailed esc ⟨n, b, t⟩ hs
  | em st d β =>
    obtain ⟨h0, hsp⟩ := hb st d β rfl
    have hcode : ((emEl st []).tag == Tag.name "code".toList) = false := em_not_code st
    have h1 := unescOpt_coded esc β.u0 h0
    have h2 := unescOpt_coded esc t hs
    have hk := unescapeKids_tailed1 esc β.segs hsp
    have e : tailed2 esc ⟨.em st d β, t⟩ =
        ⟨(emEl st []).tag, [], optStr (coded esc β.u0), false, β.segs.map (tailed1 esc), optStr (coded esc t), false⟩ := rfl
    rw [e]
    simp only [TreeProc.unescapeTree, hcode, Bool.not_false, Bool.and_true, h1, h2, hk, TreeProc.unescAttrs]
    simp [fin2, emEl, mkEl]

def NoStx2 (segs : List Seg2) : Prop :=
  ∀ s ∈ segs, Inline.STX ∉ s.t ∧ ∀ st d β, s.k = .em st d β → Inline.STX ∉ β.u0 ∧ NoStx1 β.segs

theorem unescapeKids_tailed2 (esc : List Char) (segs : List Seg2) (hs : NoStx2 segs) :
    TreeProc.unescapeKids (segs.map (tailed2 esc)) = some (segs.map fin2) := by
  induction segs with
  | nil => rfl
  | cons s r ih =>
    obtain ⟨h1, h2⟩ := hs s List.mem_cons_self
    simp only [List.map_cons, TreeProc.unescapeKids, unescapeTree_tailed2 esc s h1 h2,
      ih (fun x hx => hs x (List.mem_cons_of_mem _ hx))]

theorem unesc_l2 (esc : List Char) (tag : Str) (htag : textTags.contains tag = true) (t0 : Str)
    (segs : List Seg2) (h0 : Inline.STX ∉ t0) (hs : NoStx2 segs) :
    TreeProc.unescapeTree (l2Pretty esc tag t0 segs) = some (l2Fin tag t0 segs) := by
  have hf := tagFacts tag (List.mem_cons_of_mem _ (List.contains_iff_mem.1 htag))
  have hcode : (Tag.name tag == Tag.name "code".toList) = false := by simpa using hf.2.1
  have hnl : TreeProc.unescapeText 0 ['\n'] = some ['\n'] := by decide
  have h := unescOpt_coded esc t0 h0
  have t1 : Node.truthy (some ['\n']) = true := rfl
  simp only [l2Pretty, l2Fin, TreeProc.unescapeTree, hcode, Bool.not_false, Bool.and_true, h,
    unescapeKids_tailed2 esc segs hs, TreeProc.unescAttrs, t1, if_true, Option.getD_some, hnl, Option.map_some]
  by_cases ht : Node.truthy (optStr (coded esc t0)) = true <;> simp [ht]

/-- the serialised element of an item -/
def kout2 : K2 → Str
  | .code _ b => "<code>".toList ++ Ser.escCdata (Code.codeEscape b) ++ "</code>".toList
  | .em st _ β => '<' :: emTagS st ++ ['>'] ++ (Ser.escCdata β.u0 ++ out1 β.segs) ++ ('<' :: '/' :: emTagS st ++ ['>'])

theorem kout2_em (st : Bool) (d : Char) (β : Body1) :
    kout2 (.em st d β) =
      '<' :: emTagS st ++ ['>'] ++ (Ser.escCdata β.u0 ++ out1 β.segs) ++ ('<' :: '/' :: emTagS st ++ ['>']) := rfl

def out2 : List Seg2 → Str
  | [] => []
  | s :: r => kout2 s.k ++ Ser.escCdata s.t ++ out2 r

theorem out2_cons (s : Seg2) (r : List Seg2) : out2 (s :: r) = kout2 s.k ++ Ser.escCdata s.t ++ out2 r := rfl

def l2Out (tag : Str) (t0 : Str) (segs : List Seg2) : Str :=
  '<' :: tag ++ ['>'] ++ Ser.escCdata t0 ++ out2 segs ++ ('<' :: '/' :: tag ++ ['>'])

theorem serialize_fin2 (s : Seg2) : Ser.serialize .xhtml (fin2 s) = kout2 s.k ++ Ser.escCdata s.t := by
  obtain ⟨k, t⟩ := s
  cases k with
  | code n b => exact serialize_tailedFin ⟨n, b, t⟩
  | em st d β =>
    have e : fin2 ⟨.em st d β, t⟩ =
        ⟨.name (emTagS st), [], optStr β.u0, false, β.segs.map fin1, optStr t, false⟩ := by
      cases st <;> rfl
    have h1 : Ser.isEmptyTag (emTagS st) = false := by cases st <;> decide
    have h2 : Ser.isRawTextTag (emTagS st) = false := by cases st <;> decide
    rw [e, serialize_plain _ _ _ _ _ _ _ h1 h2, kout2_em]
    simp only [serializeList_fin1, optEsc]
    simp [List.append_assoc]

theorem serializeList_fin2 (segs : List Seg2) : Ser.serializeList .xhtml (segs.map fin2) = out2 segs := by
  induction segs with
  | nil => rfl
  | cons s r ih => rw [List.map_cons, serializeList_cons, ih, serialize_fin2, out2_cons]

theorem ser_l2 (tag : Str) (htag : textTags.contains tag = true) (t0 : Str) (segs : List Seg2) :
    Ser.serialize .xhtml (l2Fin tag t0 segs) = l2Out tag t0 segs ++ ['\n'] := by
  have hf := tagFacts tag (List.mem_cons_of_mem _ (List.contains_iff_mem.1 htag))
  have hnot : tag ≠ "hr".toList := by
    intro e
    have : textTags.contains "hr".toList = false := by decide
    rw [← e, htag] at this; cases this
  have he : Ser.isEmptyTag tag = false := by rw [hf.2.2.2.2.2.1]; simpa using hnot
  have e7 : Ser.escCdata ['\n'] = ['\n'] := by decide
  have t1 : Node.truthy (some ['\n']) = true := rfl
  simp only [l2Fin]
  rw [serialize_plain _ _ _ _ _ _ _ he hf.2.2.2.2.1]
  simp only [serializeList_fin2, optEsc, t1, if_true, Option.getD_some, e7, l2Out]
  simp [List.append_assoc]


/-! #### the inline processor visits the children of the emphasis elements again, two levels down: nothing happens -/

theorem ppTop_text_nofind (st : St) (data : Str) (parent : Node) (hne : data ≠ []) (hs : find phPrefix data = none)
    (hp1 : parent.text = none) (hp2 : parent.textAtomic = false) :
    ppTop st data false parent true = some ([], { parent with text := some data }) := by
  obtain ⟨c, r, rfl⟩ : ∃ c r, data = c :: r := by cases data <;> simp_all
  unfold ppTop
  rw [show st.stash.length + 2 = (st.stash.length + 1) + 1 from rfl]
  unfold processPlaceholders
  simp only [List.isEmpty_cons, Bool.false_eq_true, if_false, List.length_cons]
  rw [show r.length + 1 + 2 = (r.length + 2) + 1 from rfl]
  unfold ppLoop
  simp only [List.drop_zero, hs]
  cases parent
  simp_all [linkText, Node.truthy]

/-- an element whose text and tail are quiet and free of placeholders is left alone -/
theorem still_quiet (cfg : Inline.Cfg) (c : Node) (hta : c.textAtomic = false) (htla : c.tailAtomic = false)
    (ht : ∀ s, c.text = some s → Quiet s ∧ find phPrefix s = none)
    (htl : ∀ s, c.tail = some s → Quiet s ∧ find phPrefix s = none) : Still cfg c := by
  intro v
  obtain ⟨tag, attrs, text, ta, children, tail, tla⟩ := c
  simp only at hta htla ht htl
  subst hta; subst htla
  have tailFacts : ∀ s, tail = some s → s ≠ [] →
      handleInlineTop cfg s v.st = some (s, v.st) ∧
      ppTop v.st s false (mkEl "d") false = some ([], { mkEl "d" with tail := some s, tailAtomic := false }) := by
    intro s hs hne
    obtain ⟨hq, hf⟩ := htl s hs
    exact ⟨handleInlineTop_quiet cfg s v.st hq, ppTop_tail_nofind v.st s hne hf⟩
  have textFacts : ∀ s, text = some s → s ≠ [] → ∀ (parent : Node), parent.text = none →
      parent.textAtomic = false →
      handleInlineTop cfg s v.st = some (s, v.st) ∧
      ppTop v.st s false parent true = some ([], { parent with text := some s }) := by
    intro s hs hne parent hp1 hp2
    obtain ⟨hq, hf⟩ := ht s hs
    exact ⟨handleInlineTop_quiet cfg s v.st hq, ppTop_text_nofind v.st s parent hne hf hp1 hp2⟩
  have t0 : Node.truthy none = false := rfl
  have tn : Node.truthy (some []) = false := rfl
  unfold visitChild
  cases text with
  | none =>
    cases tail with
    | none => simp [t0]
    | some s' =>
      by_cases hne' : s' = []
      · subst hne'; simp [t0, tn]
      · obtain ⟨f1, f2⟩ := tailFacts s' rfl hne'
        simp [t0, (truthy_some_iff s').2 hne', f1, f2]
  | some s =>
    by_cases hne : s = []
    · subst hne
      cases tail with
      | none => simp [t0, tn]
      | some s' =>
        by_cases hne' : s' = []
        · subst hne'; simp [tn]
        · obtain ⟨f1, f2⟩ := tailFacts s' rfl hne'
          simp [tn, (truthy_some_iff s').2 hne', f1, f2]
    · obtain ⟨g1, g2⟩ := textFacts s rfl hne ⟨tag, attrs, none, false, children, tail, false⟩ rfl rfl
      cases tail with
      | none => simp [(truthy_some_iff s).2 hne, g1, g2, t0]
      | some s' =>
        by_cases hne' : s' = []
        · subst hne'; simp [(truthy_some_iff s).2 hne, g1, g2, tn]
        · obtain ⟨f1, f2⟩ := tailFacts s' rfl hne'
          simp [(truthy_some_iff s).2 hne, (truthy_some_iff s').2 hne', g1, g2, f1, f2]

theorem optStr_some {x s : Str} (h : optStr x = some s) : s = x := by
  cases x with
  | nil => simp [optStr] at h
  | cons a b => simp [optStr] at h; exact h.symm

/-- an item of a content, with its tail, is left alone -/
theorem still_tailed1 {cfg : Inline.Cfg} (hs : EscSup cfg.esc) (s : Seg1) (hk : K1OK s.k) (ht : ∀ x ∈ s.t, plainCh x) :
    Still cfg (tailed1 cfg.esc s) := by
  obtain ⟨k, t⟩ := s
  have hq : ∀ u : Str, (∀ x ∈ u, plainCh x) → Quiet (coded cfg.esc u) ∧ find phPrefix (coded cfg.esc u) = none :=
    fun u hu => ⟨quiet_coded hs u hu, find_phPrefix_coded cfg.esc u (fun hm => (plainCh_facts (hu _ hm)).2.2.2.2 rfl)⟩
  cases k with
  | code n b => exact still_tailed hs ⟨n, b, t⟩ ht
  | em st d β =>
    apply still_quiet cfg _ rfl rfl
    · intro u hu
      have hu' : optStr (coded cfg.esc β.u0) = some u := hu
      rw [optStr_some hu']
      exact hq β.u0 (fun x hx => hk.2.plain x (Or.inl hx))
    · intro u hu
      have hu' : optStr (coded cfg.esc t) = some u := hu
      rw [optStr_some hu']
      exact hq t ht

theorem stillBelow_tailed1 {cfg : Inline.Cfg} (hs : EscSup cfg.esc) (b : Nat) (s : Seg1) (hk : K1OK s.k)
    (hlen : (tailed1 cfg.esc s).children.length ≤ b) : StillBelow cfg b (tailed1 cfg.esc s) := by
  apply stillBelow_of_childless cfg _ _ hlen
  intro c hc
  obtain ⟨kk, t⟩ := s
  cases kk with
  | code n b => simp [tailed1, kfin, codeSpan, Node.el] at hc
  | em st d β =>
    have hc' : c ∈ β.spans.map (tailed cfg.esc) := hc
    obtain ⟨sp, hsp, rfl⟩ := List.mem_map.1 hc'
    exact ⟨still_tailed hs sp (fun x hx => hk.2.plain x (Or.inr ⟨sp, hsp, hx⟩)), rfl⟩

theorem tailed2_children (esc : List Char) (s : Seg2) :
    (tailed2 esc s).children = match s.k with | .code _ _ => [] | .em _ _ β => β.segs.map (tailed1 esc) := by
  obtain ⟨k, t⟩ := s
  cases k <;> rfl

theorem stillBelow_tailed2 {cfg : Inline.Cfg} (hs : EscSup cfg.esc) (b : Nat) (s : Seg2) (hk : K2OK cfg.esc s.k)
    (hlen : (tailed2 cfg.esc s).children.length ≤ b)
    (hlen1 : ∀ c ∈ (tailed2 cfg.esc s).children, c.children.length ≤ b) : StillBelow cfg b (tailed2 cfg.esc s) := by
  obtain ⟨k, t⟩ := s
  cases k with
  | code n bb =>
    apply stillBelow_of_childless cfg _ _ hlen
    intro c hc
    simp [tailed2, kfin2, codeSpan, Node.el] at hc
  | em st d β =>
    obtain ⟨hd, hβ⟩ := hk
    have hkids : (tailed2 cfg.esc ⟨.em st d β, t⟩).children = β.segs.map (tailed1 cfg.esc) := rfl
    intro p cur hp
    cases p with
    | nil =>
      simp only [getAt, Option.some.injEq] at hp; subst hp
      refine ⟨hlen, ?_⟩
      intro c hc
      rw [hkids] at hc
      obtain ⟨x, hx, rfl⟩ := List.mem_map.1 hc
      exact still_tailed1 hs x (hβ.segs x hx) (fun y hy => hβ.plain y (Or.inr ⟨x, hx, hy⟩))
    | cons j q =>
      simp only [getAt] at hp
      cases hc : (tailed2 cfg.esc ⟨.em st d β, t⟩).children[j]? with
      | none => rw [hc] at hp; cases hp
      | some c =>
        rw [hc] at hp
        have hcm := List.mem_of_getElem? hc
        have hcm' := hcm
        rw [hkids] at hcm'
        obtain ⟨x, hx, rfl⟩ := List.mem_map.1 hcm'
        exact stillBelow_tailed1 hs b x (hβ.segs x hx) (hlen1 _ hcm) q cur hp

/-- what the inline stage adds to a stash of `n` entries -/
def l2Items (esc : List Char) (t0 : Str) (segs : List Seg2) (n : Nat) : List StashItem :=
  codes2 segs ++ (stashOf esc t0 ++ escs2 esc segs) ++
    nodesS esc (n + (codes2 segs).length + escCount esc t0) n
      (n + (codes2 segs).length + escCount esc t0 + (escs2 esc segs).length) segs ++
    nodesU esc (n + (codes2 segs).length + escCount esc t0) n
      (n + (codes2 segs).length + escCount esc t0 + (escs2 esc segs).length) segs

/-- what the stages need of such a line -/
structure L2TxtOK (esc : List Char) (tag t0 : Str) (segs : List Seg2) : Prop where
  htag : textTags.contains tag = true
  ok : Segs2OK esc segs
  flat : FSegsOK (flatten2 segs)
  junctions : junctionsF t0 false (flatten2 segs)
  under : UnderOK2 esc (lastW esc t0) segs
  plain : ∀ c, (c ∈ t0 ∨ ∃ s ∈ segs, c ∈ s.t) → c ≠ '&' ∧ c ≠ '\n' ∧ c ≠ Inline.STX
  clean : ∀ s ∈ segs, s.k.clean
  ne : t0 ≠ [] ∨ segs ≠ []

theorem flatten2_length (segs : List Seg2) : segs.length ≤ (flatten2 segs).length := by
  induction segs with
  | nil => simp [flatten2]
  | cons s r ih =>
    obtain ⟨k, t⟩ := s
    cases k with
    | code n b => simp only [flatten2, List.length_cons]; omega
    | em st d β => simp only [flatten2, List.length_cons, List.length_append]; omega

theorem stageF_raw_ne2 (esc : List Char) (segs : List Seg2) (hF : FSegsOK (flatten2 segs)) (hne : segs ≠ []) :
    stageF esc false false 0 0 (flatten2 segs) ≠ [] := by
  have h1 := stageF_length esc (flatten2 segs) hF 0 0
  have h2 := flatten2_length segs
  intro e
  rw [e] at h1
  cases segs with
  | nil => exact hne rfl
  | cons s r =>
    simp only [List.length_nil, List.length_cons] at h1 h2
    omega

theorem visitChild_L2 (cfg : Inline.Cfg) (hE : EscOK cfg.esc) (hs : EscSup cfg.esc) (tag t0 : Str) (segs : List Seg2)
    (h : L2TxtOK cfg.esc tag t0 segs) (v : Visit) :
    visitChild cfg (l2Src cfg.esc tag t0 segs) v =
      some (l2Mid cfg.esc tag t0 segs, [],
        { v with pushes := ((List.range segs.length).map (fun k => [v.done.length, k])).reverse ++ v.pushes,
                 st := { v.st with stash := v.st.stash ++ l2Items cfg.esc t0 segs v.st.stash.length } }) := by
  have hraw : escAll cfg.esc t0 ++ stageF cfg.esc false false 0 0 (flatten2 segs) ≠ [] := by
    rcases h.ne with h' | h'
    · have := escAll_ne_nil (esc := cfg.esc) h'
      cases hx : escAll cfg.esc t0 with
      | nil => exact absurd hx this
      | cons a b => simp
    · intro e
      exact stageF_raw_ne2 cfg.esc segs h.flat h' (List.append_eq_nil_iff.1 e).2
  obtain ⟨hc1, hc2⟩ := flat2_codes_escs cfg.esc segs
  have hlenE : escCountF cfg.esc (flatten2 segs) = (escs2 cfg.esc segs).length := by
    rw [← stashOfF_length, hc2]
  have h1 := handleInlineTop_L2 cfg hE hs t0 segs v.st h.ok h.flat h.junctions h.under
    (fun c hc => ⟨(h.plain c hc).1, (h.plain c hc).2.1⟩)
  rw [hc1, hc2, hlenE] at h1
  have h2 := ppTop_L2 cfg.esc hs v.st.stash v.st.html t0 segs
    { tag := .name tag } rfl rfl (fun hm => (h.plain _ (Or.inl hm)).2.2 rfl)
    (fun s hs' hm => (h.plain _ (Or.inr ⟨s, hs', hm⟩)).2.2 rfl) h.ok h.clean h.ne
  simp only [l2Src, visitChild, truthy_some hraw, Bool.not_false, Bool.and_self, if_true, Option.getD_some, h1]
  rw [h2]
  simp [l2Mid, l2Items, Node.truthy]


/-- a `p`/`h1`–`h6` element of such a line, through the stages -/
def l2Elem (esc : List Char) (tag t0 : Str) (segs : List Seg2) : Elem :=
  ⟨l2Src esc tag t0 segs, l2Mid esc tag t0 segs, l2Items esc t0 segs,
   fun i => ((List.range segs.length).map (fun k => [i, k])).reverse,
   l2Pretty esc tag t0 segs, l2Fin tag t0 segs, l2Out tag t0 segs⟩

theorem stx_not_mem_kout2 (esc : List Char) (k : K2) (hk : K2OK esc k) (hcl : k.clean) : Post.STX ∉ kout2 k := by
  cases k with
  | code n b =>
    intro hm
    have hm' : Post.STX ∈ "<code>".toList ++ Ser.escCdata (Code.codeEscape b) ++ "</code>".toList := hm
    rcases List.mem_append.1 hm' with h | h
    · rcases List.mem_append.1 h with h | h
      · revert h; decide
      · exact stx_not_mem_escCdata _ hcl h
    · revert h; decide
  | em st d β =>
    intro hm
    have htag : Post.STX ∉ emTagS st := by cases st <;> decide
    have d1 : Post.STX ≠ '<' := by decide
    have d2 : Post.STX ≠ '>' := by decide
    have d3 : Post.STX ≠ '/' := by decide
    have hu : Post.STX ∉ Ser.escCdata β.u0 :=
      stx_not_mem_escCdata _ (fun hm => (plainCh_facts (hk.2.plain _ (Or.inl hm))).2.2.2.2 rfl)
    have hsp : Post.STX ∉ out1 β.segs := stx_not_mem_out1 β.segs hk.2.segs hcl
      (fun s hs hm => (plainCh_facts (hk.2.plain _ (Or.inr ⟨s, hs, hm⟩))).2.2.2.2 rfl)
    have hm' : Post.STX ∈ '<' :: emTagS st ++ ['>'] ++ (Ser.escCdata β.u0 ++ out1 β.segs) ++
        ('<' :: '/' :: emTagS st ++ ['>']) := hm
    simp only [List.mem_append, List.mem_cons, List.not_mem_nil, d1, d2, d3, htag, hu, hsp, or_self] at hm'

theorem stx_not_mem_out2 (esc : List Char) (segs : List Seg2) (hok : Segs2OK esc segs) (hcl : ∀ s ∈ segs, s.k.clean)
    (ht : ∀ s ∈ segs, Post.STX ∉ s.t) : Post.STX ∉ out2 segs := by
  induction segs with
  | nil => intro hm; cases hm
  | cons s r ih =>
    intro hm
    rw [out2_cons] at hm
    simp only [List.mem_append] at hm
    rcases hm with (hm | hm) | hm
    · exact stx_not_mem_kout2 esc s.k (hok s List.mem_cons_self) (hcl s List.mem_cons_self) hm
    · exact stx_not_mem_escCdata _ (ht s List.mem_cons_self) hm
    · exact ih (fun x hx => hok x (List.mem_cons_of_mem _ hx)) (fun x hx => hcl x (List.mem_cons_of_mem _ hx))
        (fun x hx => ht x (List.mem_cons_of_mem _ hx)) hm

theorem belowKids_sum (L : List Node) : belowKids L = (L.map (fun c => 1 + below c)).sum := by
  induction L with
  | nil => rfl
  | cons a b ih => simp only [belowKids, List.map_cons, List.sum_cons, ih]

theorem flatten1_le_flatten2 (segs : List Seg2) (s : Seg2) (hs : s ∈ segs) (st : Bool) (d : Char) (β : Body1)
    (hk : s.k = .em st d β) : (flatten1 β.segs).length + 2 ≤ (flatten2 segs).length := by
  induction segs with
  | nil => cases hs
  | cons x r ih =>
    have hmono : (flatten2 r).length ≤ (flatten2 (x :: r)).length := by
      obtain ⟨kx, tx⟩ := x
      cases kx <;> simp only [flatten2, List.length_cons, List.length_append] <;> omega
    rcases List.mem_cons.1 hs with e | e
    · subst e
      obtain ⟨kx, tx⟩ := s
      have hk' : kx = .em st d β := hk
      subst hk'
      simp only [flatten2, List.length_cons, List.length_append]; omega
    · have := ih e; omega

theorem weight_flatten2 (esc : List Char) (segs : List Seg2) :
    ((segs.map (tailed2 esc)).map (fun c => 1 + below c)).sum ≤ (flatten2 segs).length := by
  induction segs with
  | nil => simp [flatten2]
  | cons x r ih =>
    obtain ⟨kx, tx⟩ := x
    cases kx with
    | code n b =>
      have hb : below (tailed2 esc ⟨.code n b, tx⟩) = 0 := by rw [below_eq]; rfl
      simp only [List.map_cons, List.sum_cons, flatten2, List.length_cons, hb]
      omega
    | em st d β =>
      have hb : below (tailed2 esc ⟨.em st d β, tx⟩) = ((β.segs.map (tailed1 esc)).map (fun c => 1 + below c)).sum := by
        rw [below_eq, belowKids_sum]; rfl
      have hw := weight_flatten1 esc β.segs
      simp only [List.map_cons, List.sum_cons, flatten2, List.length_cons, List.length_append, hb]
      omega

theorem l2Elem_ok (cfg : Inline.Cfg) (hE : EscOK cfg.esc) (hs : EscSup cfg.esc) (tag t0 : Str) (segs : List Seg2)
    (h : L2TxtOK cfg.esc tag t0 segs) (hstx : NoStx2 segs) : ElemOK cfg (l2Elem cfg.esc tag t0 segs) where
  visit := fun v => visitChild_L2 cfg hE hs tag t0 segs h v
  pushBound := fun i => by
    have h1 := stageF_length cfg.esc (flatten2 segs) h.flat 0 0
    have h2 := flatten2_length segs
    simp only [l2Elem, List.length_reverse, List.length_map, List.length_range, l2Src, Inline.size,
      Option.getD_some, List.length_append, Inline.sizeList]
    omega
  weight := fun i => by
    have h1 := stageF_length cfg.esc (flatten2 segs) h.flat 0 0
    have h2 := weight_flatten2 cfg.esc segs
    have hw := mStack_range_all (l2Mid cfg.esc tag t0 segs) i
    have e1 : (l2Mid cfg.esc tag t0 segs).children = segs.map (tailed2 cfg.esc) := rfl
    rw [e1, List.length_map] at hw
    show mStack (l2Mid cfg.esc tag t0 segs) _ ≤ _
    simp only [l2Elem]
    rw [hw]
    simp only [l2Src, Inline.size, Option.getD_some, List.length_append, Inline.sizeList]
    omega
  pushOk := fun i q hq => by
    simp only [l2Elem, List.mem_reverse, List.mem_map, List.mem_range] at hq
    obtain ⟨k, hk, rfl⟩ := hq
    obtain ⟨s, hs'⟩ : ∃ s, segs[k]? = some s := by
      cases hx : segs[k]? with
      | none => rw [List.getElem?_eq_none_iff] at hx; omega
      | some s => exact ⟨s, rfl⟩
    have hsm : s ∈ segs := List.mem_of_getElem? hs'
    have h1 := stageF_length cfg.esc (flatten2 segs) h.flat 0 0
    have hsize : (flatten2 segs).length ≤ Inline.size (l2Elem cfg.esc tag t0 segs).src := by
      simp only [l2Elem, l2Src, Inline.size, Option.getD_some, List.length_append, Inline.sizeList]
      omega
    refine ⟨[k], tailed2 cfg.esc s, rfl, ?_, stillBelow_tailed2 hs _ s (h.ok s hsm) ?_ ?_⟩
    · simp [l2Elem, l2Mid, getAt, hs']
    · rw [tailed2_children]
      cases hkk : s.k with
      | code n b => simp
      | em st d β =>
        have := flatten1_le_flatten2 segs s hsm st d β hkk
        have h3 := flatten1_length β.segs
        simp only [List.length_map]; omega
    · intro c hc
      rw [tailed2_children] at hc
      cases hkk : s.k with
      | code n b => rw [hkk] at hc; cases hc
      | em st d β =>
        rw [hkk] at hc
        obtain ⟨x, hx, rfl⟩ := List.mem_map.1 hc
        have := flatten1_le_flatten2 segs s hsm st d β hkk
        have h3 := kids_le_flatten1 cfg.esc β.segs x hx
        omega
  block := (tagFacts tag (List.mem_cons_of_mem _ (List.contains_iff_mem.1 h.htag))).1
  pretty := pretty_l2 cfg.esc tag h.htag t0 segs
  unesc := unesc_l2 cfg.esc tag h.htag t0 segs (fun hm => (h.plain _ (Or.inl hm)).2.2 rfl) hstx
  ser := ser_l2 tag h.htag t0 segs
  outOk := by
    have hf := tagFacts tag (List.mem_cons_of_mem _ (List.contains_iff_mem.1 h.htag))
    refine ⟨?_, rfl, ?_⟩
    · intro hm
      simp only [l2Elem, l2Out, List.mem_append, List.mem_cons] at hm
      have d1 : Post.STX ≠ '<' := by decide
      have d2 : Post.STX ≠ '>' := by decide
      have d3 : Post.STX ≠ '/' := by decide
      have h7 := hf.2.2.2.2.2.2
      have hE0 : Post.STX ∉ Ser.escCdata t0 :=
        stx_not_mem_escCdata _ (fun hm' => (h.plain _ (Or.inl hm')).2.2 rfl)
      have hEs : Post.STX ∉ out2 segs := stx_not_mem_out2 cfg.esc segs h.ok h.clean
        (fun s hs' hm' => (h.plain _ (Or.inr ⟨s, hs', hm'⟩)).2.2 rfl)
      rcases hm with (((h' | h' | h') | h') | h') | (h' | h' | h' | h') <;> simp_all
    · have e : (l2Elem cfg.esc tag t0 segs).out =
          ('<' :: tag ++ ['>'] ++ Ser.escCdata t0 ++ out2 segs ++ ('<' :: '/' :: tag)) ++ ['>'] := by
        simp [l2Elem, l2Out]
      rw [e, List.getLast?_append]; rfl


/-! ### 54. such a paragraph or heading as a piece -/

def l2Piece (esc : List Char) (g : List Str) (tag t0 : Str) (segs : List Seg2) : Piece2 :=
  ⟨chunkB g (l2Src esc tag t0 segs), l2Elem esc tag t0 segs, l2Elem esc tag t0 segs⟩

theorem l2Src_clean (esc : List Char) (tag : Str) (htag : textTags.contains tag = true) (t0 : Str)
    (segs : List Seg2) :
    isListTag (l2Src esc tag t0 segs) = false ∧ preCode (l2Src esc tag t0 segs) = none := by
  have hmem : tag ∈ "hr".toList :: textTags := List.mem_cons_of_mem _ (List.contains_iff_mem.1 htag)
  have key : ∀ tag ∈ "hr".toList :: textTags, tag ≠ "ul".toList ∧ tag ≠ "ol".toList ∧ tag ≠ "pre".toList := by decide
  obtain ⟨a1, a2, a3⟩ := key _ hmem
  have b1 : tag ≠ ['u', 'l'] := a1
  have b2 : tag ≠ ['o', 'l'] := a2
  have b3 : tag ≠ ['p', 'r', 'e'] := a3
  constructor
  · simp [l2Src, isListTag, Node.isTag, b1, b2]
  · simp [l2Src, preCode, Node.isTag, b3]

theorem l2Piece_ok (g : List Str) (tag t0 : Str) (segs : List Seg2)
    (hok : L2TxtOK Generated.escapedChars tag t0 segs) (hstx : NoStx2 segs) (hne : g ≠ [])
    (hnel : noEmptyLineFrom true (joinLines g) = true)
    (hprod : Produces 4 (joinLines g) (l2Src Generated.escapedChars tag t0 segs))
    (hsafe : ∀ l ∈ g, lineSafe l = true ∧ '<' ∉ l ∧ refsClosed l = true)
    (hvis : ∃ c ∈ joinLines g, isSpace c = false) :
    Piece2OK {} (l2Piece Generated.escapedChars g tag t0 segs) where
  bok := chunkB_ok 4 g _ hne hnel hprod (l2Src_clean _ tag hok.htag t0 segs).1
    (l2Src_clean _ tag hok.htag t0 segs).2
  safe := hsafe
  vis := hvis
  src := rfl
  srcLast := rfl
  eok := fun refs => l2Elem_ok { esc := Generated.escapedChars, refs := refs } escOK_generated escSup_generated
    tag t0 segs hok hstx
  eokLast := fun refs => l2Elem_ok { esc := Generated.escapedChars, refs := refs } escOK_generated escSup_generated
    tag t0 segs hok hstx
  out := rfl

/-! ### 55. the printed form of content with emphasis inside emphasis -/

theorem rawF_flatten2_code (esc : List Char) (n : Nat) (b t : Str) (r : List Seg2) :
    rawF esc (flatten2 (⟨.code n b, t⟩ :: r)) = spanSrc n b ++ (escAll esc t ++ rawF esc (flatten2 r)) := by
  simp [flatten2, rawF, FKind.src]

theorem rawF_flatten2_em (esc : List Char) (st : Bool) (d : Char) (β : Body1) (t : Str) (r : List Seg2) :
    rawF esc (flatten2 (⟨.em st d β, t⟩ :: r)) =
      dl st d ++ (escAll esc β.u0 ++ (rawF esc (flatten1 β.segs) ++ (dl st d ++ (escAll esc t ++ rawF esc (flatten2 r))))) := by
  simp [flatten2, rawF, FKind.src, rawF_append]

/-- an item without its spelling -/
inductive Q2
  | code (b : Str)
  | em (strong : Bool) (u0 : Str) (items : List (Q1 × Str))

def K2.q : K2 → Q2
  | .code _ b => .code b
  | .em st _ β => .em st β.u0 (β.segs.map (fun s => (s.k.q, s.t)))

def splitDeep2 : List DocSpec.Inline → Str × List (Q2 × Str)
  | [] => ([], [])
  | .text w :: r => (w ++ (splitDeep2 r).1, (splitDeep2 r).2)
  | .esc c :: r => (c :: (splitDeep2 r).1, (splitDeep2 r).2)
  | .code b :: r => ([], (.code b, (splitDeep2 r).1) :: (splitDeep2 r).2)
  | .em c :: r => ([], (.em false (splitDeep c).1 (splitDeep c).2, (splitDeep2 r).1) :: (splitDeep2 r).2)
  | .strong c :: r => ([], (.em true (splitDeep c).1 (splitDeep c).2, (splitDeep2 r).1) :: (splitDeep2 r).2)
  | _ :: r => splitDeep2 r

theorem splitDeep2_text (w : Str) (r : List DocSpec.Inline) :
    splitDeep2 (.text w :: r) = (w ++ (splitDeep2 r).1, (splitDeep2 r).2) := by rw [splitDeep2]
theorem splitDeep2_esc (ch : Char) (r : List DocSpec.Inline) :
    splitDeep2 (.esc ch :: r) = (ch :: (splitDeep2 r).1, (splitDeep2 r).2) := by rw [splitDeep2]
theorem splitDeep2_code (b : Str) (r : List DocSpec.Inline) :
    splitDeep2 (.code b :: r) = ([], (.code b, (splitDeep2 r).1) :: (splitDeep2 r).2) := by rw [splitDeep2]
theorem splitDeep2_em (c : List DocSpec.Inline) (r : List DocSpec.Inline) :
    splitDeep2 (.em c :: r) = ([], (.em false (splitDeep c).1 (splitDeep c).2, (splitDeep2 r).1) :: (splitDeep2 r).2) := by
  rw [splitDeep2]
theorem splitDeep2_strong (c : List DocSpec.Inline) (r : List DocSpec.Inline) :
    splitDeep2 (.strong c :: r) = ([], (.em true (splitDeep c).1 (splitDeep c).2, (splitDeep2 r).1) :: (splitDeep2 r).2) := by
  rw [splitDeep2]

/-- well-formed content of an outer emphasis: words, escapes, code spans and emphases of these, the emphases between
    spaces; visible at both ends -/
def emBody2OK (c : List DocSpec.Inline) : Bool :=
  deepItemsOK c && startsOk c && endsOk c && okAdjacents c && noBsBeforeCode c && emphAtBoundaries true c

def deep2ItemsOK : List DocSpec.Inline → Bool
  | [] => true
  | .text w :: r => wfWords w && deep2ItemsOK r
  | .esc c :: r => ESC.contains c && deep2ItemsOK r
  | .code b :: r => wfCodeSpan b && noLt b && deep2ItemsOK r
  | .em c :: r => emBody2OK c && deep2ItemsOK r
  | .strong c :: r => emBody2OK c && deep2ItemsOK r
  | _ :: _ => false

theorem deep2Items_ind {motive : List DocSpec.Inline → Prop} (nil : motive [])
    (text : ∀ w r, wfWords w = true → deep2ItemsOK r = true → motive r → motive (.text w :: r))
    (esc : ∀ ch r, ch ∈ ESC → deep2ItemsOK r = true → motive r → motive (.esc ch :: r))
    (code : ∀ b r, wfCodeSpan b = true → noLt b = true → deep2ItemsOK r = true → motive r → motive (.code b :: r))
    (em : ∀ c r, emBody2OK c = true → deep2ItemsOK r = true → motive r → motive (.em c :: r))
    (strong : ∀ c r, emBody2OK c = true → deep2ItemsOK r = true → motive r → motive (.strong c :: r)) :
    ∀ c, deep2ItemsOK c = true → motive c := by
  intro c
  induction c with
  | nil => intro _; exact nil
  | cons x r ih =>
    intro h
    cases x with
    | text w =>
      simp only [deep2ItemsOK, Bool.and_eq_true] at h
      exact text w r h.1 h.2 (ih h.2)
    | esc ch =>
      simp only [deep2ItemsOK, Bool.and_eq_true] at h
      exact esc ch r (List.contains_iff_mem.1 h.1) h.2 (ih h.2)
    | code b =>
      simp only [deep2ItemsOK, Bool.and_eq_true] at h
      exact code b r h.1.1 h.1.2 h.2 (ih h.2)
    | em l =>
      simp only [deep2ItemsOK, Bool.and_eq_true] at h
      exact em l r h.1 h.2 (ih h.2)
    | strong l =>
      simp only [deep2ItemsOK, Bool.and_eq_true] at h
      exact strong l r h.1 h.2 (ih h.2)
    | link _ _ _ => simp [deep2ItemsOK] at h
    | image _ _ _ => simp [deep2ItemsOK] at h
    | autolink _ => simp [deep2ItemsOK] at h
    | br => simp [deep2ItemsOK] at h

/-- the items of level 1 under any enclosing emphasis -/
theorem deepItemsOK_of_wf_par (c : List DocSpec.Inline) (par : Par) (brOk : Bool) (hp : c.all isDeepItem = true)
    (hw : wfInlineList false par brOk c = true) : deepItemsOK c = true := by
  induction c with
  | nil => rfl
  | cons x r ih =>
    simp only [List.all_cons, Bool.and_eq_true] at hp
    simp only [wfInlineList, Bool.and_eq_true] at hw
    have ihr := ih hp.2 hw.2
    cases x with
    | text w => simp only [wfInline] at hw; simp [deepItemsOK, hw.1, ihr]
    | esc ch => simp only [wfInline] at hw; simp [deepItemsOK, List.contains_iff_mem.1 hw.1, ihr]
    | code b => simp only [wfInline] at hw; simp only [isDeepItem] at hp; simp [deepItemsOK, hw.1, hp.1, ihr]
    | em l =>
      have h1 := hw.1
      have hp1 := hp.1
      simp only [wfInline, wfRun, Bool.and_eq_true] at h1
      simp only [isDeepItem, Bool.and_eq_true] at hp1
      have hsp := spanItemsOK_of_wf_par l _ brOk hp1.1 h1.2
      simp [deepItemsOK, emBodyOK, hsp, h1.1.2.1.1.1, h1.1.2.1.1.2, h1.1.2.1.2, hp1.2, ihr]
    | strong l =>
      have h1 := hw.1
      have hp1 := hp.1
      simp only [wfInline, wfRun, Bool.and_eq_true] at h1
      simp only [isDeepItem, Bool.and_eq_true] at hp1
      have hsp := spanItemsOK_of_wf_par l _ brOk hp1.1 h1.2
      simp [deepItemsOK, emBodyOK, hsp, h1.1.2.1.1.1, h1.1.2.1.1.2, h1.1.2.1.2, hp1.2, ihr]
    | link _ _ _ => simp [isDeepItem] at hp
    | image _ _ _ => simp [isDeepItem] at hp
    | autolink _ => simp [isDeepItem] at hp
    | br => simp [isDeepItem] at hp

/-- the printed form of the content of an outer emphasis with delimiter `d` -/
def PrintsIn (d : Char) (c : List DocSpec.Inline) : Prop :=
  ∀ (prevB endB : Bool) (st : PSt), ∃ (segs : List Seg1) (st' : PSt),
    printInlines (some d) prevB endB c st = (escAll ESC (splitDeep c).1 ++ rawF ESC (flatten1 segs), st') ∧
    st'.defs = st.defs ∧ segs.map (fun s => (s.k.q, s.t)) = (splitDeep c).2 ∧
    (∀ s ∈ segs, K1Printed s.k) ∧ (∀ s ∈ segs, ∀ st' d' β, s.k = .em st' d' β → d' = otherDelim d)

theorem otherDelim_cases (d : Char) : otherDelim d = '*' ∨ otherDelim d = '_' := by
  unfold otherDelim; split
  · exact Or.inr rfl
  · exact Or.inl rfl

theorem printsIn_em_step (d : Char) (strong : Bool) (c' : List DocSpec.Inline) (hc' : emBodyOK c' = true)
    (r : List DocSpec.Inline) (ih : PrintsIn d r) (prevB endB : Bool) (st : PSt) (x : DocSpec.Inline)
    (hx : x = (if strong then DocSpec.Inline.strong c' else DocSpec.Inline.em c')) :
    ∃ (segs : List Seg1) (st' : PSt),
      printInlines (some d) prevB endB (x :: r) st = (rawF ESC (flatten1 segs), st') ∧
      st'.defs = st.defs ∧
      segs.map (fun s => (s.k.q, s.t)) =
        (.em strong (splitSpans c').1 (splitSpans c').2, (splitDeep r).1) :: (splitDeep r).2 ∧
      (∀ s ∈ segs, K1Printed s.k) ∧ (∀ s ∈ segs, ∀ st' d' β, s.k = .em st' d' β → d' = otherDelim d) := by
  generalize he : otherDelim d = e
  have hee : e = '*' ∨ e = '_' := by rw [← he]; exact otherDelim_cases d
  have hd : chooseDelim (some d) (draw st).1 prevB (nextBoundary endB r) = e := by rw [← he]; rfl
  simp only [emBodyOK, Bool.and_eq_true] at hc'
  obtain ⟨spans, st1, hps, hds, hms, hfs⟩ := printInlines_span c' hc'.1.1.1.1 (some e) (e = '*') (e = '*') (draw st).2
  generalize hbody : escAll ESC (splitSpans c').1 ++ rawSegs ESC spans = body at hps
  have hlast : ∀ X : Str, afterBoundary prevB (X ++ [e]) = !isWordCh e := fun X => afterBoundary_delims prevB e X
  obtain ⟨segs, st', hp, hdf, hm, hpr, hdel⟩ := ih (!isWordCh e) endB st1
  refine ⟨⟨.em strong e ⟨(splitSpans c').1, spans⟩, (splitDeep r).1⟩ :: segs, st', ?_,
    by rw [hdf, hds, draw_defs], by rw [List.map_cons, hm]; simp [K1.q, hms], ?_, ?_⟩
  · subst hx
    rw [rawF_flatten_em]
    cases strong
    · simp only [Bool.false_eq_true, if_false, printInlines, printInline, hd, hps]
      have e' : afterBoundary prevB (e :: body ++ [e]) = !isWordCh e := hlast (e :: body)
      rw [e', hp, ← hbody]
      simp [dl, List.append_assoc]
    · simp only [if_true, printInlines, printInline, hd, hps]
      have e' : afterBoundary prevB (e :: e :: body ++ [e, e]) = !isWordCh e := by
        have := hlast (e :: e :: body ++ [e])
        simpa [List.append_assoc] using this
      rw [e', hp, ← hbody]
      simp [dl, List.append_assoc, List.replicate_succ]
  · intro s hs
    rcases List.mem_cons.1 hs with rfl | hs
    · exact ⟨hee, hfs⟩
    · exact hpr s hs
  · intro s hs st'' d'' β'' hk
    rcases List.mem_cons.1 hs with rfl | hs
    · cases hk; rfl
    · rw [he] at hdel; exact hdel s hs st'' d'' β'' hk

theorem printInlines_deepIn (d : Char) (c : List DocSpec.Inline) (h : deepItemsOK c = true) : PrintsIn d c := by
  revert h
  refine deepItems_ind (motive := PrintsIn d) ?_ ?_ ?_ ?_ ?_ ?_ c
  · intro prevB endB st
    exact ⟨[], st, by simp [printInlines, splitDeep, rawF, flatten1, escAll], rfl, rfl, by simp, by simp⟩
  · intro w r hw hr ih prevB endB st
    simp only [wfWords, Bool.and_eq_true, Bool.not_eq_true', List.isEmpty_eq_false_iff] at hw
    obtain ⟨segs, st', hp, hd, hm, hds, hu⟩ := ih (afterBoundary prevB w) endB st
    refine ⟨segs, st', ?_, hd, by rw [splitDeep_text]; exact hm, hds, hu⟩
    simp only [printInlines, printInline, hp, splitDeep_text]
    rw [escAll_words w hw.1.2]; simp [List.append_assoc]
  · intro ch r hch hr ih prevB endB st
    obtain ⟨segs, st', hp, hd, hm, hds, hu⟩ := ih (afterBoundary prevB ['\\', ch]) endB st
    refine ⟨segs, st', ?_, hd, by rw [splitDeep_esc]; exact hm, hds, hu⟩
    simp only [printInlines, printInline, hp, splitDeep_esc]
    rw [escAll_esc_cons ch hch]; simp
  · intro b r hw hlt hr ih prevB endB st
    have hL : longestTickRun b ≤ 2 := (wfCodeSpan_facts hw).2.2.2.2.1
    generalize hn : longestTickRun b + 1 + (draw st).1 % (4 - (longestTickRun b + 1)) = n
    have hnb : fenceOK n b := by
      have : (draw st).1 % (4 - (longestTickRun b + 1)) < 4 - (longestTickRun b + 1) := Nat.mod_lt _ (by omega)
      constructor <;> omega
    obtain ⟨j, hj⟩ : ∃ j, n = j + 1 := ⟨n - 1, by have := hnb.1; omega⟩
    have hab : afterBoundary prevB (rep n '`' ++ codePad b ++ b ++ codePad b ++ rep n '`') = true := by
      have : rep n '`' ++ codePad b ++ b ++ codePad b ++ rep n '`' =
          (rep n '`' ++ codePad b ++ b ++ codePad b ++ rep j '`') ++ ['`'] := by
        rw [hj]; simp [rep, List.replicate_succ', List.append_assoc]
      rw [this, afterBoundary_tick]
    obtain ⟨segs, st', hp, hd, hm, hds, hu⟩ := ih true endB (draw st).2
    refine ⟨⟨.code n b, (splitDeep r).1⟩ :: segs, st', ?_, by rw [hd, draw_defs],
      by rw [List.map_cons, hm, splitDeep_code]; rfl, ?_, ?_⟩
    · rw [rawF_flatten_code]
      simp only [printInlines, printInline, hn, hab, hp, splitDeep_code]
      simp [escAll, spanSrc, padded, rep, ticks, List.append_assoc]
    · intro s hs
      rcases List.mem_cons.1 hs with rfl | hs
      · exact hnb
      · exact hds s hs
    · intro s hs st'' d'' β'' hk
      rcases List.mem_cons.1 hs with rfl | hs
      · cases hk
      · exact hu s hs st'' d'' β'' hk
  · intro c' r hc' hr ih prevB endB st
    obtain ⟨segs, st', hp, hd, hm, hds, hu⟩ := printsIn_em_step d false c' hc' r ih prevB endB st _ rfl
    refine ⟨segs, st', ?_, hd, by rw [splitDeep_em]; exact hm, hds, hu⟩
    simp only [Bool.false_eq_true, if_false] at hp
    rw [hp, splitDeep_em]; simp [escAll]
  · intro c' r hc' hr ih prevB endB st
    obtain ⟨segs, st', hp, hd, hm, hds, hu⟩ := printsIn_em_step d true c' hc' r ih prevB endB st _ rfl
    refine ⟨segs, st', ?_, hd, by rw [splitDeep_strong]; exact hm, hds, hu⟩
    simp only [if_true] at hp
    rw [hp, splitDeep_strong]; simp [escAll]


/-- what the printer guarantees of an item's spelling -/
def K2Printed : K2 → Prop
  | .code n b => fenceOK n b
  | .em _ d β => (d = '*' ∨ d = '_') ∧ (∀ s ∈ β.segs, K1Printed s.k) ∧
      ∀ s ∈ β.segs, ∀ st' d' β', s.k = .em st' d' β' → d' = otherDelim d

theorem underOK2_mono (esc : List Char) (segs : List Seg2) (h : UnderOK2 esc true segs) : UnderOK2 esc false segs := by
  cases segs with
  | nil => trivial
  | cons s r => exact ⟨fun hd => absurd (h.1 hd).1 (by decide), h.2⟩

theorem underOK2_of_pw (b : Bool) (t : Str) (segs : List Seg2) (h : UnderOK2 ESC (pwOf b t) segs) :
    UnderOK2 ESC (lastW ESC t) segs := by
  unfold pwOf at h; unfold lastW
  cases ht : t.getLast? with
  | some c => rw [ht] at h; exact h
  | none =>
    rw [ht] at h
    cases b with
    | true => exact h
    | false => exact underOK2_mono _ _ h

theorem q2_code_cls {k : K2} {b : Str} (h : k.q = .code b) : k.cls = 0 := by
  cases k with
  | code n b' => rfl
  | em s d w => simp [K2.q] at h

theorem nextNW2_of_boundary (r : List DocSpec.Inline) (h : deep2ItemsOK r = true) (endB : Bool)
    (hb : nextBoundary endB r = true) (segs : List Seg2)
    (hm : segs.map (fun s => (s.k.q, s.t)) = (splitDeep2 r).2) : nextNW2 ESC (splitDeep2 r).1 segs := by
  cases r with
  | nil =>
    have : segs = [] := by simpa [splitDeep2] using hm
    subst this; trivial
  | cons y r' =>
    cases y with
    | text w' =>
      simp only [nextBoundary, startsBoundary, decide_eq_true_eq] at hb
      cases w' with
      | nil => simp at hb
      | cons a w'' =>
        have : a = ' ' := by simpa using hb
        subst this
        rw [splitDeep2_text]
        exact Or.inr (by decide)
    | esc ch =>
      simp only [deep2ItemsOK, Bool.and_eq_true] at h
      rw [splitDeep2_esc]
      exact Or.inl (List.contains_iff_mem.1 h.1)
    | code b =>
      rw [splitDeep2_code] at hm ⊢
      cases segs with
      | nil => simp at hm
      | cons s' segs' =>
        simp only [List.map_cons, List.cons.injEq, Prod.mk.injEq] at hm
        show s'.k.cls ≠ 2
        rw [q2_code_cls hm.1.1]; omega
    | em _ => simp [nextBoundary, startsBoundary] at hb
    | strong _ => simp [nextBoundary, startsBoundary] at hb
    | link _ _ _ => simp [deep2ItemsOK] at h
    | image _ _ _ => simp [deep2ItemsOK] at h
    | autolink _ => simp [deep2ItemsOK] at h
    | br => simp [deep2ItemsOK] at h

def PrintsDeep2 (c : List DocSpec.Inline) : Prop :=
  ∀ (prevB endB : Bool) (st : PSt), ∃ (segs : List Seg2) (st' : PSt),
    printInlines none prevB endB c st = (escAll ESC (splitDeep2 c).1 ++ rawF ESC (flatten2 segs), st') ∧
    st'.defs = st.defs ∧ segs.map (fun s => (s.k.q, s.t)) = (splitDeep2 c).2 ∧
    (∀ s ∈ segs, K2Printed s.k) ∧ UnderOK2 ESC (pwOf prevB (splitDeep2 c).1) segs

theorem printsDeep2_em_step (strong : Bool) (c' : List DocSpec.Inline) (hc' : emBody2OK c' = true)
    (r : List DocSpec.Inline) (hr : deep2ItemsOK r = true)
    (ih : PrintsDeep2 r) (prevB endB : Bool) (st : PSt) (x : DocSpec.Inline)
    (hx : x = (if strong then DocSpec.Inline.strong c' else DocSpec.Inline.em c')) :
    ∃ (segs : List Seg2) (st' : PSt),
      printInlines none prevB endB (x :: r) st = (rawF ESC (flatten2 segs), st') ∧
      st'.defs = st.defs ∧
      segs.map (fun s => (s.k.q, s.t)) =
        (.em strong (splitDeep c').1 (splitDeep c').2, (splitDeep2 r).1) :: (splitDeep2 r).2 ∧
      (∀ s ∈ segs, K2Printed s.k) ∧ UnderOK2 ESC (!prevB) segs := by
  generalize hd : chooseDelim none (draw st).1 prevB (nextBoundary endB r) = d
  have hdc := chooseDelim_cases (draw st).1 prevB (nextBoundary endB r)
  rw [hd] at hdc
  have hdd : d = '*' ∨ d = '_' := by rcases hdc with ⟨h, _⟩ | h; exact Or.inr h; exact Or.inl h
  simp only [emBody2OK, Bool.and_eq_true] at hc'
  obtain ⟨segs1, st1, hps, hds, hms, hfs, hdel⟩ := printInlines_deepIn d c' hc'.1.1.1.1.1 (d = '*') (d = '*') (draw st).2
  generalize hbody : escAll ESC (splitDeep c').1 ++ rawF ESC (flatten1 segs1) = body at hps
  have hlast : ∀ X : Str, afterBoundary prevB (X ++ [d]) = !isWordCh d := fun X => afterBoundary_delims prevB d X
  obtain ⟨segs, st', hp, hdf, hm, hpr, hu⟩ := ih (!isWordCh d) endB st1
  refine ⟨⟨.em strong d ⟨(splitDeep c').1, segs1⟩, (splitDeep2 r).1⟩ :: segs, st', ?_,
    by rw [hdf, hds, draw_defs], by rw [List.map_cons, hm]; simp [K2.q, hms], ?_, ?_⟩
  · subst hx
    rw [rawF_flatten2_em]
    cases strong
    · simp only [Bool.false_eq_true, if_false, printInlines, printInline, hd, hps]
      have e : afterBoundary prevB (d :: body ++ [d]) = !isWordCh d := hlast (d :: body)
      rw [e, hp, ← hbody]
      simp [dl, List.append_assoc]
    · simp only [if_true, printInlines, printInline, hd, hps]
      have e : afterBoundary prevB (d :: d :: body ++ [d, d]) = !isWordCh d := by
        have := hlast (d :: d :: body ++ [d])
        simpa [List.append_assoc] using this
      rw [e, hp, ← hbody]
      simp [dl, List.append_assoc, List.replicate_succ]
  · intro s hs
    rcases List.mem_cons.1 hs with rfl | hs
    · exact ⟨hdd, hfs, hdel⟩
    · exact hpr s hs
  · refine ⟨fun hcl => ?_, underOK2_of_pw _ _ _ hu⟩
    have hdu : d = '_' := by
      rcases hdd with e | e
      · rw [e] at hcl; simp [K2.cls] at hcl
      · exact e
    rcases hdc with ⟨_, h1, h2⟩ | h
    · exact ⟨by simp [h1], nextNW2_of_boundary r hr endB h2 segs hm⟩
    · rw [hdu] at h; exact absurd h (by decide)

/-- **the printed form** of content with emphasis inside emphasis -/
theorem printInlines_deep2 (c : List DocSpec.Inline) (h : deep2ItemsOK c = true) : PrintsDeep2 c := by
  revert h
  refine deep2Items_ind (motive := PrintsDeep2) ?_ ?_ ?_ ?_ ?_ ?_ c
  · intro prevB endB st
    exact ⟨[], st, by simp [printInlines, splitDeep2, rawF, flatten2, escAll], rfl, rfl, by simp, trivial⟩
  · intro w r hw hr ih prevB endB st
    simp only [wfWords, Bool.and_eq_true, Bool.not_eq_true', List.isEmpty_eq_false_iff] at hw
    obtain ⟨segs, st', hp, hd, hm, hds, hu⟩ := ih (afterBoundary prevB w) endB st
    refine ⟨segs, st', ?_, hd, by rw [splitDeep2_text]; exact hm, hds, ?_⟩
    · simp only [printInlines, printInline, hp, splitDeep2_text]
      rw [escAll_words w hw.1.2]; simp [List.append_assoc]
    · rw [splitDeep2_text]
      simp only
      rw [pwOf_append prevB w _ hw.1.1 hw.1.2]; exact hu
  · intro ch r hch hr ih prevB endB st
    obtain ⟨segs, st', hp, hd, hm, hds, hu⟩ := ih (afterBoundary prevB ['\\', ch]) endB st
    refine ⟨segs, st', ?_, hd, by rw [splitDeep2_esc]; exact hm, hds, ?_⟩
    · simp only [printInlines, printInline, hp, splitDeep2_esc]
      rw [escAll_esc_cons ch hch]; simp
    · rw [splitDeep2_esc]
      simp only
      have hu' := underOK2_of_pw _ _ _ hu
      unfold pwOf
      cases ht : (splitDeep2 r).1 with
      | nil =>
        rw [ht] at hu'
        simpa [hch, lastW] using hu'
      | cons a b =>
        rw [ht] at hu'
        have : (ch :: a :: b).getLast? = (a :: b).getLast? := List.getLast?_cons_cons
        rw [this]
        obtain ⟨z, hz⟩ : ∃ z, (a :: b).getLast? = some z := by
          cases hg : (a :: b).getLast? with
          | none => exact absurd (List.getLast?_eq_none_iff.1 hg) (by simp)
          | some z => exact ⟨z, rfl⟩
        simp only [lastW, hz] at hu' ⊢
        exact hu'
  · intro b r hw hlt hr ih prevB endB st
    have hL : longestTickRun b ≤ 2 := (wfCodeSpan_facts hw).2.2.2.2.1
    generalize hn : longestTickRun b + 1 + (draw st).1 % (4 - (longestTickRun b + 1)) = n
    have hnb : fenceOK n b := by
      have : (draw st).1 % (4 - (longestTickRun b + 1)) < 4 - (longestTickRun b + 1) := Nat.mod_lt _ (by omega)
      constructor <;> omega
    obtain ⟨j, hj⟩ : ∃ j, n = j + 1 := ⟨n - 1, by have := hnb.1; omega⟩
    have hab : afterBoundary prevB (rep n '`' ++ codePad b ++ b ++ codePad b ++ rep n '`') = true := by
      have : rep n '`' ++ codePad b ++ b ++ codePad b ++ rep n '`' =
          (rep n '`' ++ codePad b ++ b ++ codePad b ++ rep j '`') ++ ['`'] := by
        rw [hj]; simp [rep, List.replicate_succ', List.append_assoc]
      rw [this, afterBoundary_tick]
    obtain ⟨segs, st', hp, hd, hm, hds, hu⟩ := ih true endB (draw st).2
    refine ⟨⟨.code n b, (splitDeep2 r).1⟩ :: segs, st', ?_, by rw [hd, draw_defs],
      by rw [List.map_cons, hm, splitDeep2_code]; rfl, ?_, ?_⟩
    · rw [rawF_flatten2_code]
      simp only [printInlines, printInline, hn, hab, hp, splitDeep2_code]
      simp [escAll, spanSrc, padded, rep, ticks, List.append_assoc]
    · intro s hs
      rcases List.mem_cons.1 hs with rfl | hs
      · exact hnb
      · exact hds s hs
    · rw [splitDeep2_code]
      refine ⟨fun hcl => ?_, ?_⟩
      · simp [K2.cls] at hcl
      · rw [pwOf_true] at hu; exact hu
  · intro c' r hc' hr ih prevB endB st
    obtain ⟨segs, st', hp, hd, hm, hds, hu⟩ := printsDeep2_em_step false c' hc' r hr ih prevB endB st _ rfl
    refine ⟨segs, st', ?_, hd, by rw [splitDeep2_em]; exact hm, hds, ?_⟩
    · simp only [Bool.false_eq_true, if_false] at hp
      rw [hp, splitDeep2_em]; simp [escAll]
    · rw [splitDeep2_em]; exact hu
  · intro c' r hc' hr ih prevB endB st
    obtain ⟨segs, st', hp, hd, hm, hds, hu⟩ := printsDeep2_em_step true c' hc' r hr ih prevB endB st _ rfl
    refine ⟨segs, st', ?_, hd, by rw [splitDeep2_strong]; exact hm, hds, ?_⟩
    · simp only [if_true] at hp
      rw [hp, splitDeep2_strong]; simp [escAll]
    · rw [splitDeep2_strong]; exact hu

/-! ### 56. from well-formed content to the facts the stages need -/

/-- what well-formedness says of an item -/
def Q2.ok : Q2 → Prop
  | .code b => wfCodeSpan b = true ∧ noLt b = true
  | .em _ u0 sp => ∃ c', emBody2OK c' = true ∧ u0 = (splitDeep c').1 ∧ sp = (splitDeep c').2

theorem splitDeep2_chars (c : List DocSpec.Inline) (h : deep2ItemsOK c = true) :
    (∀ ch ∈ (splitDeep2 c).1, plainCh ch) ∧ ∀ q ∈ (splitDeep2 c).2, (∀ ch ∈ q.2, plainCh ch) ∧ q.1.ok := by
  revert h
  refine deep2Items_ind (motive := fun c => (∀ ch ∈ (splitDeep2 c).1, plainCh ch) ∧
    ∀ q ∈ (splitDeep2 c).2, (∀ ch ∈ q.2, plainCh ch) ∧ q.1.ok) ?_ ?_ ?_ ?_ ?_ ?_ c
  · simp [splitDeep2]
  · intro w r hw _ ih
    simp only [wfWords, Bool.and_eq_true] at hw
    rw [splitDeep2_text]
    refine ⟨?_, ih.2⟩
    intro ch hch
    rcases List.mem_append.1 hch with hch | hch
    · exact Or.inl (List.all_eq_true.1 hw.1.2 ch hch)
    · exact ih.1 ch hch
  · intro e r he _ ih
    rw [splitDeep2_esc]
    refine ⟨?_, ih.2⟩
    intro ch hch
    rcases List.mem_cons.1 hch with rfl | hch
    · exact Or.inr he
    · exact ih.1 ch hch
  · intro b r hw hlt _ ih
    rw [splitDeep2_code]
    refine ⟨by simp, ?_⟩
    intro q hq
    rcases List.mem_cons.1 hq with rfl | hq
    · exact ⟨ih.1, hw, hlt⟩
    · exact ih.2 q hq
  · intro c' r hc' _ ih
    rw [splitDeep2_em]
    refine ⟨by simp, ?_⟩
    intro q hq
    rcases List.mem_cons.1 hq with rfl | hq
    · exact ⟨ih.1, c', hc', rfl, rfl⟩
    · exact ih.2 q hq
  · intro c' r hc' _ ih
    rw [splitDeep2_strong]
    refine ⟨by simp, ?_⟩
    intro q hq
    rcases List.mem_cons.1 hq with rfl | hq
    · exact ⟨ih.1, c', hc', rfl, rfl⟩
    · exact ih.2 q hq

theorem splitDeep2_nil_iff (c : List DocSpec.Inline) (h : deep2ItemsOK c = true) :
    ((splitDeep2 c).1 = [] ∧ (splitDeep2 c).2 = []) ↔ c = [] := by
  revert h
  refine deep2Items_ind (motive := fun c => ((splitDeep2 c).1 = [] ∧ (splitDeep2 c).2 = []) ↔ c = []) ?_ ?_ ?_ ?_ ?_ ?_ c
  · simp [splitDeep2]
  · intro w r hw _ _
    have : w ≠ [] := by intro e; subst e; simp [wfWords] at hw
    rw [splitDeep2_text]; simp [this]
  · intro ch r _ _ _; rw [splitDeep2_esc]; simp
  · intro b r _ _ _ _; rw [splitDeep2_code]; simp
  · intro w r _ _ _; rw [splitDeep2_em]; simp
  · intro w r _ _ _; rw [splitDeep2_strong]; simp

theorem splitDeep2_first (c : List DocSpec.Inline) (h : deep2ItemsOK c = true) :
    startsOk c = true → (splitDeep2 c).1 ≠ [] → startsVisible (splitDeep2 c).1 = true := by
  revert h
  refine deep2Items_ind (motive := fun c => startsOk c = true → (splitDeep2 c).1 ≠ [] →
    startsVisible (splitDeep2 c).1 = true) ?_ ?_ ?_ ?_ ?_ ?_ c
  · intro hs; simp [startsOk] at hs
  · intro w r hw _ _ hs _
    simp only [wfWords, Bool.and_eq_true, Bool.not_eq_true'] at hw
    simp only [startsOk, bne_iff_ne, ne_eq] at hs
    cases w with
    | nil => simp at hw
    | cons a b =>
      have ha : isAlnumSp a = true := by
        have := hw.1.2; simp only [List.all_cons, Bool.and_eq_true] at this; exact this.1
      have : a ≠ ' ' := by simpa using hs
      rw [splitDeep2_text]
      simp [startsVisible, alnum_visible a ha this]
  · intro ch r hch _ _ _ _
    rw [splitDeep2_esc]
    simp [startsVisible, (escChar_facts _ hch).2.2]
  · intro b r _ _ _ _ _ hne; rw [splitDeep2_code] at hne; exact absurd rfl hne
  · intro w r _ _ _ _ hne; rw [splitDeep2_em] at hne; exact absurd rfl hne
  · intro w r _ _ _ _ hne; rw [splitDeep2_strong] at hne; exact absurd rfl hne

def lastTextDQ2 (p : Str × List (Q2 × Str)) : Str := (p.2.getLast?.map (·.2)).getD p.1

theorem lastTextDQ2_same (t t' : Str) (ss : List (Q2 × Str)) (hss : ss ≠ []) :
    lastTextDQ2 (t, ss) = lastTextDQ2 (t', ss) := by
  simp only [lastTextDQ2]
  cases hg : ss.getLast? with
  | none => exact absurd (List.getLast?_eq_none_iff.1 hg) hss
  | some q => rfl

theorem lastTextDQ2_cons (t : Str) (q : Q2 × Str) (ss : List (Q2 × Str)) :
    lastTextDQ2 (t, q :: ss) = lastTextDQ2 (q.2, ss) := by
  cases ss with
  | nil => rfl
  | cons a b =>
    simp only [lastTextDQ2, List.getLast?_cons_cons]
    cases hg : (a :: b).getLast? with
    | none => exact absurd (List.getLast?_eq_none_iff.1 hg) (by simp)
    | some x => rfl

theorem splitDeep2_last (c : List DocSpec.Inline) (h : deep2ItemsOK c = true) :
    endsOk c = true → ∀ z, (lastTextDQ2 (splitDeep2 c)).getLast? = some z → isSpace z = false := by
  revert h
  refine deep2Items_ind (motive := fun c => endsOk c = true →
    ∀ z, (lastTextDQ2 (splitDeep2 c)).getLast? = some z → isSpace z = false) ?_ ?_ ?_ ?_ ?_ ?_ c
  · intro he; simp [endsOk] at he
  · intro w r hw hr ih he z hz
    rw [splitDeep2_text] at hz
    by_cases hss : (splitDeep2 r).2 = []
    · simp only [lastTextDQ2, hss, List.getLast?_nil, Option.map_none, Option.getD_none] at hz
      by_cases ht : (splitDeep2 r).1 = []
      · have hrn : r = [] := (splitDeep2_nil_iff r hr).1 ⟨ht, hss⟩
        subst hrn
        simp only [ht, List.append_nil] at hz
        simp only [endsOk, bne_iff_ne, ne_eq] at he
        exact alnumSp_last_visible w hw he z hz
      · have hrn : r ≠ [] := fun e => ht (by subst e; rfl)
        apply ih (endsOk_cons_ne hrn he) z
        simp only [lastTextDQ2, hss, List.getLast?_nil, Option.map_none, Option.getD_none]
        rw [List.getLast?_append] at hz
        cases hx : (splitDeep2 r).1.getLast? with
        | none => exact absurd (List.getLast?_eq_none_iff.1 hx) ht
        | some q => rw [hx] at hz; simpa using hz
    · have hrn : r ≠ [] := fun e => hss (by subst e; rfl)
      apply ih (endsOk_cons_ne hrn he) z
      rw [lastTextDQ2_same _ (w ++ (splitDeep2 r).1) _ hss]
      exact hz
  · intro ch r hch hr ih he z hz
    rw [splitDeep2_esc] at hz
    by_cases hss : (splitDeep2 r).2 = []
    · simp only [lastTextDQ2, hss, List.getLast?_nil, Option.map_none, Option.getD_none] at hz
      by_cases ht : (splitDeep2 r).1 = []
      · simp only [ht, List.getLast?_singleton, Option.some.injEq] at hz
        subst hz
        exact (escChar_facts _ hch).2.2
      · have hrn : r ≠ [] := fun e => ht (by subst e; rfl)
        apply ih (endsOk_cons_ne hrn he) z
        simp only [lastTextDQ2, hss, List.getLast?_nil, Option.map_none, Option.getD_none]
        cases hx : (splitDeep2 r).1 with
        | nil => exact absurd hx ht
        | cons a b => rw [hx] at hz; simpa [List.getLast?_cons_cons] using hz
    · have hrn : r ≠ [] := fun e => hss (by subst e; rfl)
      apply ih (endsOk_cons_ne hrn he) z
      rw [lastTextDQ2_same _ (ch :: (splitDeep2 r).1) _ hss]
      exact hz
  · intro b r _ _ hr ih he z hz
    rw [splitDeep2_code, lastTextDQ2_cons] at hz
    by_cases hrn : r = []
    · subst hrn; simp [splitDeep2, lastTextDQ2] at hz
    · exact ih (endsOk_cons_ne hrn he) z hz
  · intro w r _ hr ih he z hz
    rw [splitDeep2_em, lastTextDQ2_cons] at hz
    by_cases hrn : r = []
    · subst hrn; simp [splitDeep2, lastTextDQ2] at hz
    · exact ih (endsOk_cons_ne hrn he) z hz
  · intro w r _ hr ih he z hz
    rw [splitDeep2_strong, lastTextDQ2_cons] at hz
    by_cases hrn : r = []
    · subst hrn; simp [splitDeep2, lastTextDQ2] at hz
    · exact ih (endsOk_cons_ne hrn he) z hz


def Q2.isCode : Q2 → Bool
  | .code _ => true
  | _ => false

def K2.isCode : K2 → Bool
  | .code _ _ => true
  | _ => false

theorem q2_isCode (k : K2) : k.q.isCode = k.isCode := by cases k <;> rfl

def junctionsDQ2 : Str → Bool → List (Q2 × Str) → Prop
  | _, _, [] => True
  | t, pc, q :: r => (q.1.isCode = true → t.getLast? ≠ some '\\' ∧ (pc = true → t ≠ [])) ∧ junctionsDQ2 q.2 q.1.isCode r

theorem junctionsDQ2_retext {t : Str} {pc : Bool} {L : List (Q2 × Str)} (h : junctionsDQ2 t pc L) (t' : Str) (pc' : Bool)
    (h' : ∀ q r, L = q :: r → q.1.isCode = true → t'.getLast? ≠ some '\\' ∧ (pc' = true → t' ≠ [])) :
    junctionsDQ2 t' pc' L := by
  cases L with
  | nil => trivial
  | cons q r => exact ⟨fun hc => h' q r rfl hc, h.2⟩

theorem startsCode_of_splitDeep2 (r : List DocSpec.Inline) (h : deep2ItemsOK r = true) (h1 : (splitDeep2 r).1 = [])
    (q : Q2 × Str) (L : List (Q2 × Str)) (h2 : (splitDeep2 r).2 = q :: L) (hq : q.1.isCode = true) :
    ∃ b r', r = .code b :: r' := by
  revert h h1 h2
  refine deep2Items_ind (motive := fun r => (splitDeep2 r).1 = [] → (splitDeep2 r).2 = q :: L → ∃ b r', r = .code b :: r')
    ?_ ?_ ?_ ?_ ?_ ?_ r
  · intro _ h2; simp [splitDeep2] at h2
  · intro w r' hw _ _ h1 _
    have : w ≠ [] := by intro e; subst e; simp [wfWords] at hw
    rw [splitDeep2_text] at h1; simp [this] at h1
  · intro ch r' _ _ _ h1 _; rw [splitDeep2_esc] at h1; simp at h1
  · intro b r' _ _ _ _ _ _; exact ⟨b, r', rfl⟩
  · intro w r' _ _ _ _ h2
    rw [splitDeep2_em] at h2
    simp only [List.cons.injEq] at h2
    rw [← h2.1] at hq; simp [Q2.isCode] at hq
  · intro w r' _ _ _ _ h2
    rw [splitDeep2_strong] at h2
    simp only [List.cons.injEq] at h2
    rw [← h2.1] at hq; simp [Q2.isCode] at hq

theorem splitDeep2_junctions (c : List DocSpec.Inline) (h : deep2ItemsOK c = true) :
    okAdjacents c = true → noBsBeforeCode c = true →
      junctionsDQ2 (splitDeep2 c).1 false (splitDeep2 c).2 ∧
      (startsCode c = false → junctionsDQ2 (splitDeep2 c).1 true (splitDeep2 c).2) := by
  revert h
  refine deep2Items_ind (motive := fun c => okAdjacents c = true → noBsBeforeCode c = true →
      junctionsDQ2 (splitDeep2 c).1 false (splitDeep2 c).2 ∧
      (startsCode c = false → junctionsDQ2 (splitDeep2 c).1 true (splitDeep2 c).2)) ?_ ?_ ?_ ?_ ?_ ?_ c
  · intro _ _; exact ⟨trivial, fun _ => trivial⟩
  · intro w r hw hr ih ha hb
    obtain ⟨i1, _⟩ := ih (okAdjacents_tail ha) (noBs_tail hb)
    simp only [wfWords, Bool.and_eq_true, Bool.not_eq_true', List.isEmpty_eq_false_iff] at hw
    rw [splitDeep2_text]
    have key : ∀ pc, junctionsDQ2 (w ++ (splitDeep2 r).1) pc (splitDeep2 r).2 := by
      intro pc
      apply junctionsDQ2_retext i1
      intro q L hL hq
      refine ⟨?_, fun _ => by simp [hw.1.1]⟩
      rw [List.getLast?_append]
      cases ht : (splitDeep2 r).1.getLast? with
      | none =>
        simp only [Option.none_or]
        intro hl
        exact alnumSp_ne_bs (List.all_eq_true.1 hw.1.2 _ (List.mem_of_getLast? hl)) rfl
      | some z =>
        simp only [Option.some_or]
        rw [hL] at i1
        have := (i1.1 hq).1
        rw [ht] at this; exact this
    exact ⟨key false, fun _ => key true⟩
  · intro ch r hch hr ih ha hb
    obtain ⟨i1, _⟩ := ih (okAdjacents_tail ha) (noBs_tail hb)
    rw [splitDeep2_esc]
    have key : ∀ pc, junctionsDQ2 (ch :: (splitDeep2 r).1) pc (splitDeep2 r).2 := by
      intro pc
      apply junctionsDQ2_retext i1
      intro q L hL hq
      refine ⟨?_, fun _ => by simp⟩
      cases ht : (splitDeep2 r).1 with
      | nil =>
        obtain ⟨b, r', hr'⟩ := startsCode_of_splitDeep2 r hr ht q L hL hq
        subst hr'
        simp only [noBsBeforeCode, Bool.and_eq_true, bne_iff_ne, ne_eq] at hb
        simpa using hb.1
      | cons a b =>
        rw [hL, ht] at i1
        have := (i1.1 hq).1
        simpa [List.getLast?_cons_cons] using this
    exact ⟨key false, fun _ => key true⟩
  · intro b r _ _ hr ih ha hb
    obtain ⟨_, i2⟩ := ih (okAdjacents_tail ha) (noBs_tail hb)
    have hns : startsCode r = false := by
      cases r with
      | nil => rfl
      | cons y r' =>
        cases y <;> first | rfl | skip
        rw [okAdjacents] at ha
        simp [okAdjacent, isCodeSpan] at ha
    rw [splitDeep2_code]
    refine ⟨⟨fun _ => ⟨by simp, fun e => absurd e (by decide)⟩, i2 hns⟩, fun e => ?_⟩
    simp [startsCode] at e
  · intro w r _ hr ih ha hb
    obtain ⟨i1, _⟩ := ih (okAdjacents_tail ha) (noBs_tail hb)
    rw [splitDeep2_em]
    exact ⟨⟨fun e => by simp [Q2.isCode] at e, i1⟩, fun _ => ⟨fun e => by simp [Q2.isCode] at e, i1⟩⟩
  · intro w r _ hr ih ha hb
    obtain ⟨i1, _⟩ := ih (okAdjacents_tail ha) (noBs_tail hb)
    rw [splitDeep2_strong]
    exact ⟨⟨fun e => by simp [Q2.isCode] at e, i1⟩, fun _ => ⟨fun e => by simp [Q2.isCode] at e, i1⟩⟩

/-- every `_` emphasis of a content whose emphases stand between spaces stands between characters that are not word
    characters -/
theorem underOK1_pwOf_mono (b b' : Bool) (hbb : b = true → b' = true) (t : Str) (segs : List Seg1)
    (h : UnderOK1 ESC (pwOf b t) segs) : UnderOK1 ESC (pwOf b' t) segs := by
  unfold pwOf at h ⊢
  cases ht : t.getLast? with
  | some c => rw [ht] at h; exact h
  | none =>
    rw [ht] at h
    simp only at h ⊢
    cases hb' : b' with
    | true =>
      cases hb : b with
      | true => rw [hb] at h; exact h
      | false => rw [hb] at h; exact underOK1_mono _ _ h
    | false =>
      have : b = false := by
        cases hb : b with
        | true => rw [hbb hb] at hb'; cases hb'
        | false => rfl
      rw [this] at h; exact h

theorem underOK1_of_emph (c : List DocSpec.Inline) (h : deepItemsOK c = true) :
    ∀ (prev : Bool) (segs : List Seg1), emphAtBoundaries prev c = true →
      segs.map (fun s => (s.k.q, s.t)) = (splitDeep c).2 → UnderOK1 ESC (pwOf prev (splitDeep c).1) segs := by
  revert h
  refine deepItems_ind (motive := fun c => ∀ (prev : Bool) (segs : List Seg1), emphAtBoundaries prev c = true →
      segs.map (fun s => (s.k.q, s.t)) = (splitDeep c).2 → UnderOK1 ESC (pwOf prev (splitDeep c).1) segs)
    ?_ ?_ ?_ ?_ ?_ ?_ c
  · intro prev segs _ hm
    have : segs = [] := by simpa [splitDeep] using hm
    subst this; trivial
  · intro w r hw hr ih prev segs he hm
    simp only [wfWords, Bool.and_eq_true, Bool.not_eq_true', List.isEmpty_eq_false_iff] at hw
    simp only [emphAtBoundaries, isEmph, Bool.not_false, Bool.true_or, Bool.true_and] at he
    rw [splitDeep_text] at hm ⊢
    have hu := ih (endsSpace (.text w)) segs he hm
    simp only
    rw [pwOf_append prev w _ hw.1.1 hw.1.2]
    apply underOK1_pwOf_mono _ _ ?_ _ _ hu
    intro hes
    simp only [endsSpace, decide_eq_true_eq] at hes
    simp [afterBoundary, hes, isWordCh, isAsciiAlnum, isAsciiAlpha, isAsciiLower, isAsciiUpper, isAsciiDigit]
  · intro ch r hch hr ih prev segs he hm
    simp only [emphAtBoundaries, isEmph, Bool.not_false, Bool.true_or, Bool.true_and, endsSpace] at he
    rw [splitDeep_esc] at hm ⊢
    have hu := ih false segs he hm
    simp only
    have hu' := underOK1_of_pw _ _ _ hu
    unfold pwOf
    cases ht : (splitDeep r).1 with
    | nil =>
      rw [ht] at hu'
      simpa [hch, lastW] using hu'
    | cons a b =>
      rw [ht] at hu'
      have : (ch :: a :: b).getLast? = (a :: b).getLast? := List.getLast?_cons_cons
      rw [this]
      obtain ⟨z, hz⟩ : ∃ z, (a :: b).getLast? = some z := by
        cases hg : (a :: b).getLast? with
        | none => exact absurd (List.getLast?_eq_none_iff.1 hg) (by simp)
        | some z => exact ⟨z, rfl⟩
      simp only [lastW, hz] at hu' ⊢
      exact hu'
  · intro b r hw hlt hr ih prev segs he hm
    simp only [emphAtBoundaries, isEmph, Bool.not_false, Bool.true_or, Bool.true_and, endsSpace] at he
    rw [splitDeep_code] at hm ⊢
    cases segs with
    | nil => simp at hm
    | cons s segs' =>
      simp only [List.map_cons, List.cons.injEq, Prod.mk.injEq] at hm
      have hu := ih false segs' he hm.2
      rw [← hm.1.2] at hu
      refine ⟨fun hcl => ?_, underOK1_of_pw _ _ _ hu⟩
      rw [q1_code_cls hm.1.1] at hcl; omega
  · intro c' r hc' hr ih prev segs he hm
    simp only [emphAtBoundaries, isEmph, Bool.not_true, Bool.false_or, Bool.and_eq_true, endsSpace] at he
    rw [splitDeep_em] at hm ⊢
    cases segs with
    | nil => simp at hm
    | cons s segs' =>
      simp only [List.map_cons, List.cons.injEq, Prod.mk.injEq] at hm
      have hu := ih false segs' he.2 hm.2
      rw [← hm.1.2] at hu
      refine ⟨fun _ => ⟨by simp [pwOf, he.1.1], ?_⟩, underOK1_of_pw _ _ _ hu⟩
      rw [hm.1.2]
      cases r with
      | nil =>
        have : segs' = [] := by simpa [splitDeep] using hm.2
        subst this; simp [splitDeep, nextNW1]
      | cons y r' =>
        have hy := he.1.2
        cases y with
        | text w' =>
          simp only [startsSpace, decide_eq_true_eq] at hy
          cases w' with
          | nil => simp at hy
          | cons a w'' =>
            have : a = ' ' := by simpa using hy
            subst this
            rw [splitDeep_text]
            exact Or.inr (by decide)
        | br => simp [deepItemsOK] at hr
        | esc _ => simp [startsSpace] at hy
        | code _ => simp [startsSpace] at hy
        | em _ => simp [startsSpace] at hy
        | strong _ => simp [startsSpace] at hy
        | link _ _ _ => simp [startsSpace] at hy
        | image _ _ _ => simp [startsSpace] at hy
        | autolink _ => simp [startsSpace] at hy
  · intro c' r hc' hr ih prev segs he hm
    simp only [emphAtBoundaries, isEmph, Bool.not_true, Bool.false_or, Bool.and_eq_true, endsSpace] at he
    rw [splitDeep_strong] at hm ⊢
    cases segs with
    | nil => simp at hm
    | cons s segs' =>
      simp only [List.map_cons, List.cons.injEq, Prod.mk.injEq] at hm
      have hu := ih false segs' he.2 hm.2
      rw [← hm.1.2] at hu
      refine ⟨fun _ => ⟨by simp [pwOf, he.1.1], ?_⟩, underOK1_of_pw _ _ _ hu⟩
      rw [hm.1.2]
      cases r with
      | nil =>
        have : segs' = [] := by simpa [splitDeep] using hm.2
        subst this; simp [splitDeep, nextNW1]
      | cons y r' =>
        have hy := he.1.2
        cases y with
        | text w' =>
          simp only [startsSpace, decide_eq_true_eq] at hy
          cases w' with
          | nil => simp at hy
          | cons a w'' =>
            have : a = ' ' := by simpa using hy
            subst this
            rw [splitDeep_text]
            exact Or.inr (by decide)
        | br => simp [deepItemsOK] at hr
        | esc _ => simp [startsSpace] at hy
        | code _ => simp [startsSpace] at hy
        | em _ => simp [startsSpace] at hy
        | strong _ => simp [startsSpace] at hy
        | link _ _ _ => simp [startsSpace] at hy
        | image _ _ _ => simp [startsSpace] at hy
        | autolink _ => simp [startsSpace] at hy

/-- the junction conditions on the items: at top level, and inside every outer emphasis -/
def junctions2 : Str → Bool → List Seg2 → Prop
  | _, _, [] => True
  | t, pc, s :: r =>
    (s.k.isCode = true → t.getLast? ≠ some '\\' ∧ (pc = true → t ≠ [])) ∧
    (∀ st d β, s.k = .em st d β → junctionsF β.u0 false (flatten1 β.segs)) ∧
    junctions2 s.t s.k.isCode r

theorem junctionsF_append_junk (x t : Str) (rest : List FSeg) (hrest : junctionsF t false rest) (L : List FSeg) :
    ∀ (u : Str) (pc : Bool), junctionsF u pc L → junctionsF u pc (L ++ ⟨.junk x, t⟩ :: rest) := by
  induction L with
  | nil => intro u pc _; exact ⟨fun e => by simp [FKind.isCode] at e, hrest⟩
  | cons s r ih => intro u pc h; exact ⟨h.1, ih _ _ h.2⟩

theorem junctionsF_flatten2 (segs : List Seg2) :
    ∀ (t : Str) (pc : Bool), junctions2 t pc segs → junctionsF t pc (flatten2 segs) := by
  induction segs with
  | nil => intro _ _ _; trivial
  | cons s r ih =>
    intro t pc h
    obtain ⟨k, t'⟩ := s
    cases k with
    | code n b => exact ⟨h.1, ih _ _ h.2.2⟩
    | em st d β =>
      refine ⟨fun e => by simp [FKind.isCode] at e, ?_⟩
      exact junctionsF_append_junk (dl st d) t' (flatten2 r) (ih _ _ h.2.2) (flatten1 β.segs) β.u0 false
        (h.2.1 st d β rfl)

theorem junctions2_of (segs : List Seg2) :
    ∀ (t : Str) (pc : Bool), junctionsDQ2 t pc (segs.map (fun s => (s.k.q, s.t))) →
      (∀ s ∈ segs, ∀ st d β, s.k = .em st d β → junctionsF β.u0 false (flatten1 β.segs)) →
      junctions2 t pc segs := by
  induction segs with
  | nil => intro _ _ _ _; trivial
  | cons s r ih =>
    intro t pc h hem
    simp only [List.map_cons, junctionsDQ2, q2_isCode] at h
    exact ⟨h.1, hem s List.mem_cons_self, ih _ _ h.2 (fun x hx => hem x (List.mem_cons_of_mem _ hx))⟩

/-- the flat tokens are well shaped when the items are -/
def K2Flat : K2 → Prop
  | .code n b => FKindOK (.code n b)
  | .em _ d β => (d = '*' ∨ d = '_') ∧ FSegsOK (flatten1 β.segs)

theorem fsegsOK_flatten2 (segs : List Seg2) (h : ∀ s ∈ segs, K2Flat s.k) : FSegsOK (flatten2 segs) := by
  induction segs with
  | nil => intro s hs; cases hs
  | cons s r ih =>
    have ihr := ih (fun x hx => h x (List.mem_cons_of_mem _ hx))
    have hs := h s List.mem_cons_self
    obtain ⟨k, t⟩ := s
    cases k with
    | code n b =>
      intro y hy
      simp only [flatten2, List.mem_cons] at hy
      rcases hy with rfl | hy
      · exact hs
      · exact ihr y hy
    | em st d β =>
      intro y hy
      simp only [flatten2, List.mem_cons, List.mem_append] at hy
      rcases hy with rfl | hy | rfl | hy
      · exact dl_plain st d hs.1
      · exact hs.2 y hy
      · exact dl_plain st d hs.1
      · exact ihr y hy

/-- everything the proofs use of well-formed content, about its split form -/
structure Deep2ContentOK (c : List DocSpec.Inline) (t0 : Str) (segs : List Seg2) : Prop where
  items : deep2ItemsOK c = true
  run : wfRun .none c = true
  nobs : noBsBeforeCode c = true
  t0eq : t0 = (splitDeep2 c).1
  smap : segs.map (fun s => (s.k.q, s.t)) = (splitDeep2 c).2
  printed : ∀ s ∈ segs, K2Printed s.k
  under : UnderOK2 ESC (lastW ESC t0) segs

theorem mem_segs_splitDeep2 {c : List DocSpec.Inline} {t0 : Str} {segs : List Seg2} (h : Deep2ContentOK c t0 segs)
    {s : Seg2} (hs : s ∈ segs) : (s.k.q, s.t) ∈ (splitDeep2 c).2 := by
  rw [← h.smap]; exact List.mem_map.2 ⟨s, hs, rfl⟩

/-- the content of an outer emphasis is content in the sense of the previous rung -/
theorem inner_content (st : Bool) (d : Char) (β : Body1) (hq : (K2.em st d β).q.ok) (hp : K2Printed (.em st d β)) :
    ∃ c', DeepContentOK c' β.u0 β.segs := by
  obtain ⟨c', hc', h1, h2⟩ := hq
  simp only [emBody2OK, Bool.and_eq_true] at hc'
  obtain ⟨⟨⟨⟨⟨hi, hst⟩, hen⟩, hadj⟩, hnb⟩, hemph⟩ := hc'
  have hsm : β.segs.map (fun s => (s.k.q, s.t)) = (splitDeep c').2 := h2
  refine ⟨c', hi, ?_, hnb, h1, hsm, hp.2.1, ?_⟩
  · simp [wfRun, hst, hen, hadj]
  · have := underOK1_of_emph c' hi true β.segs hemph hsm
    rw [pwOf_true, ← h1] at this
    exact this

theorem lastText1_eq (segs : List Seg1) : ∀ u0, lastText1 u0 segs = (segs.getLast?.map (·.t)).getD u0 := by
  induction segs with
  | nil => intro u0; rfl
  | cons s r ih =>
    intro u0
    rw [lastText1, ih]
    cases r with
    | nil => rfl
    | cons a b =>
      simp only [List.getLast?_cons_cons]
      cases hg : (a :: b).getLast? with
      | none => exact absurd (List.getLast?_eq_none_iff.1 hg) (by simp)
      | some x => rfl

theorem item2_facts (k : K2) (hq : k.q.ok) (hp : K2Printed k) :
    K2OK ESC k ∧ K2Flat k ∧ k.clean ∧
      (∀ st d β, k = .em st d β → junctionsF β.u0 false (flatten1 β.segs) ∧ Inline.STX ∉ β.u0 ∧ NoStx1 β.segs) := by
  cases k with
  | code n b =>
    obtain ⟨hw, hlt⟩ := hq
    obtain ⟨_, hpr, _⟩ := wfCodeSpan_facts hw
    refine ⟨trivial, padded_ok n b hw hp, ?_, fun st d β e => by cases e⟩
    intro hm
    rcases mem_codeEscape hm with hm | hm
    · exact (printable_facts (hpr _ hm)).2.2.2.1 rfl
    · revert hm; decide
  | em st d β =>
    obtain ⟨c', hc⟩ := inner_content st d β hq hp
    obtain ⟨f1, f2, f3, f4, f5, f6, f7, f8, _⟩ := hc.facts
    have halt : ∀ s ∈ β.segs, s.k.cls ≠ (if d = '*' then 1 else 2) := by
      intro s hs
      cases hk : s.k with
      | code n b => simp only [K1.cls]; split <;> omega
      | em st' d' β' =>
        have hd' := hp.2.2 s hs st' d' β' hk
        rcases hp.1 with e | e
        · subst e; rw [hd']; simp [K1.cls, otherDelim]
        · subst e; rw [hd']; simp [K1.cls, otherDelim]
    have hstx : ∀ ch, plainCh ch → ch ≠ Inline.STX := fun ch h => (plainCh_facts h).2.2.2.2
    refine ⟨⟨hp.1, f1, halt, f5, f6, f7, by rw [lastText1_eq]; exact f8, fun _ => hc.under⟩, ⟨hp.1, f3⟩, f2, ?_⟩
    intro st' d' β' e
    cases e
    refine ⟨f4, fun hm => hstx _ (f5 _ (Or.inl hm)) rfl, ?_⟩
    intro s hs
    refine ⟨fun hm => hstx _ (f5 _ (Or.inr ⟨s, hs, hm⟩)) rfl, ?_⟩
    intro st'' d'' β'' hk
    have hk1 := f1 s hs
    rw [hk] at hk1
    exact ⟨fun hm => hstx _ (hk1.2.plain _ (Or.inl hm)) rfl,
      fun x hx hm => hstx _ (hk1.2.plain _ (Or.inr ⟨x, hx, hm⟩)) rfl⟩

theorem Deep2ContentOK.facts {c : List DocSpec.Inline} {t0 : Str} {segs : List Seg2} (h : Deep2ContentOK c t0 segs) :
    Segs2OK ESC segs ∧ (∀ s ∈ segs, s.k.clean) ∧ FSegsOK (flatten2 segs) ∧ junctionsF t0 false (flatten2 segs) ∧
      (∀ ch, (ch ∈ t0 ∨ ∃ s ∈ segs, ch ∈ s.t) → plainCh ch) ∧ (t0 ≠ [] ∨ segs ≠ []) ∧
      (t0 ≠ [] → startsVisible t0 = true) ∧
      (∀ z, ((segs.getLast?.map (·.t)).getD t0).getLast? = some z → isSpace z = false) ∧
      (∀ s ∈ segs, s.k.q.ok) ∧ NoStx2 segs := by
  have hrun := h.run
  simp only [wfRun, Bool.and_eq_true, decide_eq_true_eq, Bool.or_eq_true] at hrun
  obtain ⟨⟨⟨hst, hen⟩, hadj⟩, _⟩ := hrun
  obtain ⟨hc0, hcs⟩ := splitDeep2_chars c h.items
  have hplain : ∀ ch, (ch ∈ t0 ∨ ∃ s ∈ segs, ch ∈ s.t) → plainCh ch := by
    intro ch hch
    rcases hch with hch | ⟨s, hs, hch⟩
    · rw [h.t0eq] at hch; exact hc0 ch hch
    · exact (hcs _ (mem_segs_splitDeep2 h hs)).1 ch hch
  have hq : ∀ s ∈ segs, s.k.q.ok := fun s hs => (hcs _ (mem_segs_splitDeep2 h hs)).2
  have hk := fun s hs => item2_facts s.k (hq s hs) (h.printed s hs)
  have hne : c ≠ [] := by intro e; subst e; simp [startsOk] at hst
  have hj : junctionsF t0 false (flatten2 segs) := by
    apply junctionsF_flatten2
    apply junctions2_of
    · rw [h.smap, h.t0eq]; exact (splitDeep2_junctions c h.items hadj h.nobs).1
    · exact fun s hs st d β hkk => ((hk s hs).2.2.2 st d β hkk).1
  refine ⟨fun s hs => (hk s hs).1, fun s hs => (hk s hs).2.2.1,
    fsegsOK_flatten2 segs (fun s hs => (hk s hs).2.1), hj, hplain, ?_, ?_, ?_, hq, ?_⟩
  · by_cases ht : t0 = []
    · right
      intro hs
      have : (splitDeep2 c).1 = [] ∧ (splitDeep2 c).2 = [] := by
        rw [← h.t0eq, ← h.smap, hs]; exact ⟨ht, rfl⟩
      exact hne ((splitDeep2_nil_iff c h.items).1 this)
    · exact Or.inl ht
  · intro ht
    rw [h.t0eq] at ht ⊢
    exact splitDeep2_first c h.items hst ht
  · intro z hz
    apply splitDeep2_last c h.items hen z
    have : lastTextDQ2 (splitDeep2 c) = (segs.getLast?.map (·.t)).getD t0 := by
      simp only [lastTextDQ2]
      rw [← h.smap, ← h.t0eq]
      simp only [List.getLast?_map]
      cases segs.getLast? <;> rfl
    rw [this]; exact hz
  · intro s hs
    refine ⟨fun hm => (plainCh_facts (hplain _ (Or.inr ⟨s, hs, hm⟩))).2.2.2.2 rfl, ?_⟩
    intro st d β hkk
    exact ((hk s hs).2.2.2 st d β hkk).2

theorem Deep2ContentOK.l2TxtOK {c : List DocSpec.Inline} {t0 : Str} {segs : List Seg2} (h : Deep2ContentOK c t0 segs)
    (tag : Str) (htag : textTags.contains tag = true) : L2TxtOK ESC tag t0 segs := by
  obtain ⟨h1, h2, h3, h4, h5, h6, _, _, _, _⟩ := h.facts
  refine ⟨htag, h1, h3, h4, h.under, fun ch hch => ?_, h2, h6⟩
  obtain ⟨_, a2, a3, _, a5⟩ := plainCh_facts (h5 ch hch); exact ⟨a3, a2, a5⟩

theorem Deep2ContentOK.nostx {c : List DocSpec.Inline} {t0 : Str} {segs : List Seg2} (h : Deep2ContentOK c t0 segs) :
    NoStx2 segs := h.facts.2.2.2.2.2.2.2.2.2

/-- a property of every token of the flat view follows from the property item by item -/
theorem forall_flatten2 (P : FSeg → Prop) (segs : List Seg2)
    (h : ∀ s ∈ segs, match s.k with
      | .code n b => P ⟨.code n b, s.t⟩
      | .em st d β => P ⟨.junk (dl st d), β.u0⟩ ∧ P ⟨.junk (dl st d), s.t⟩ ∧ ∀ tok ∈ flatten1 β.segs, P tok) :
    ∀ tok ∈ flatten2 segs, P tok := by
  induction segs with
  | nil => intro tok ht; cases ht
  | cons s r ih =>
    have ihr := ih (fun x hx => h x (List.mem_cons_of_mem _ hx))
    have hs := h s List.mem_cons_self
    obtain ⟨k, t⟩ := s
    cases k with
    | code n b =>
      intro tok ht
      simp only [flatten2, List.mem_cons] at ht
      rcases ht with rfl | ht
      · exact hs
      · exact ihr tok ht
    | em st d β =>
      obtain ⟨h1, h2, h3⟩ := hs
      intro tok ht
      simp only [flatten2, List.mem_cons, List.mem_append] at ht
      rcases ht with rfl | ht | rfl | ht
      · exact h1
      · exact h3 tok ht
      · exact h2
      · exact ihr tok ht

theorem lastTextF_append_cons (L : List FSeg) (x : FSeg) (rest : List FSeg) :
    ∀ u, lastTextF u (L ++ x :: rest) = lastTextF x.t rest := by
  induction L with
  | nil => intro u; simp only [List.nil_append]; rw [lastTextF_cons]
  | cons a b ih => intro u; simp only [List.cons_append]; rw [lastTextF_cons]; exact ih a.t

theorem lastTextF_flatten2 (segs : List Seg2) : ∀ t0, lastTextF t0 (flatten2 segs) = (segs.getLast?.map (·.t)).getD t0 := by
  induction segs with
  | nil => intro t0; rfl
  | cons s r ih =>
    intro t0
    obtain ⟨k, t⟩ := s
    have hr : ((⟨k, t⟩ :: r).getLast?.map (·.t)).getD t0 = (r.getLast?.map (·.t)).getD t := by
      cases r with
      | nil => rfl
      | cons a b =>
        simp only [List.getLast?_cons_cons]
        cases hg : (a :: b).getLast? with
        | none => exact absurd (List.getLast?_eq_none_iff.1 hg) (by simp)
        | some x => rfl
    rw [hr, ← ih t]
    cases k with
    | code n b => simp only [flatten2]; rw [lastTextF_cons]
    | em st d β =>
      simp only [flatten2]
      rw [lastTextF_cons, lastTextF_append_cons]

/-- the facts about the tokens of the flat view -/
theorem Deep2ContentOK.tokens {c : List DocSpec.Inline} {t0 : Str} {segs : List Seg2} (h : Deep2ContentOK c t0 segs) :
    ∀ tok ∈ flatten2 segs, (∀ x ∈ tok.t, plainCh x) ∧ (∀ ch ∈ tok.k.src, okCh ch) ∧ '\n' ∉ tok.k.src ∧
      (∀ x, tok.k = .junk x → (x.head? = some '*' ∨ x.head? = some '_') ∧
        (x.getLast? = some '*' ∨ x.getLast? = some '_') ∧ '&' ∉ x) ∧
      (∀ n b, tok.k = .code n b → wfCodeSpan b = true ∧ ∃ k, n = k + 1) := by
  obtain ⟨h1, _, _, _, h5, _, _, _, hq, _⟩ := h.facts
  apply forall_flatten2
  intro s hs
  have hqs := hq s hs
  have hps := h.printed s hs
  have hk1 := h1 s hs
  cases hk : s.k with
  | code n b =>
    rw [hk] at hqs hps
    obtain ⟨hw, hlt⟩ := hqs
    obtain ⟨a1, a2⟩ := spanSrc_chars n b hw hlt
    refine ⟨fun x hx => h5 x (Or.inr ⟨s, hs, hx⟩), a1, a2, ?_, ?_⟩
    · intro x e; cases e
    · intro n' b' e; cases e; exact ⟨hw, (padded_ok n b hw hps).1⟩
  | em st d β =>
    rw [hk] at hqs hps hk1
    obtain ⟨c', hc⟩ := inner_content st d β hqs hps
    obtain ⟨d1, d2⟩ := dl_chars st d hps.1
    have hjunk : ∀ x, FKind.junk (dl st d) = .junk x → (x.head? = some '*' ∨ x.head? = some '_') ∧
        (x.getLast? = some '*' ∨ x.getLast? = some '_') ∧ '&' ∉ x := by
      intro x e
      cases e
      refine ⟨?_, ?_, fun hm => (d1 _ hm).2 rfl⟩
      · rcases hps.1 with e | e <;> cases st <;> simp [dl, e]
      · rcases hps.1 with e | e <;> cases st <;> simp [dl, e]
    exact ⟨⟨fun x hx => hk1.2.plain x (Or.inl hx), fun ch hc' => (d1 ch hc').1, d2, hjunk, fun n b e => by cases e⟩,
      ⟨fun x hx => h5 x (Or.inr ⟨s, hs, hx⟩), fun ch hc' => (d1 ch hc').1, d2, hjunk, fun n b e => by cases e⟩,
      hc.tokens⟩

theorem head_cons_of {X : Str} {x : Char} (h : X.head? = some x) : ∃ tl, X = x :: tl := by
  cases X with
  | nil => simp at h
  | cons a b => simp at h; subst h; exact ⟨b, rfl⟩

/-- the first character of the content of an outer emphasis with delimiter `d` -/
theorem body1_raw_head (d : Char) (hd : d = '*' ∨ d = '_') (β : Body1) (hplain : ∀ c ∈ β.u0, plainCh c)
    (hfirst : β.u0 ≠ [] → startsVisible β.u0 = true) (hne : β.u0 ≠ [] ∨ β.segs ≠ [])
    (hitems : ∀ s ∈ β.segs, match s.k with
      | .code n _ => ∃ k, n = k + 1
      | .em _ d' _ => d' ≠ d ∧ (d' = '*' ∨ d' = '_')) (X : Str) :
    ∃ x tl, escAll ESC β.u0 ++ (rawF ESC (flatten1 β.segs) ++ X) = x :: tl ∧ x ≠ ' ' ∧ x ≠ d := by
  cases hu : β.u0 with
  | cons c r =>
    by_cases hc : c ∈ ESC
    · refine ⟨'\\', _, by rw [escAll_cons_mem hc]; rfl, by decide, ?_⟩
      rcases hd with e | e <;> rw [e] <;> decide
    · have hv := hfirst (by rw [hu]; simp)
      rw [hu] at hv
      have hcs : isSpace c = false := by simpa [startsVisible] using hv
      have hpl := hplain c (by rw [hu]; simp)
      have ha : isAlnumSp c = true := by
        rcases hpl with h | h
        · exact h
        · exact absurd h hc
      have hf := wordCh_facts ha
      refine ⟨c, _, by rw [escAll_cons_not_mem hc]; rfl, ?_, ?_⟩
      · intro e; subst e; exact absurd hcs (by decide)
      · rcases hd with e | e <;> rw [e]
        · exact hf.1
        · exact hf.2.1
  | nil =>
    have hne' : β.segs ≠ [] := by rcases hne with h | h; exact absurd hu h; exact h
    cases hs : β.segs with
    | nil => exact absurd hs hne'
    | cons s r =>
      obtain ⟨k, t⟩ := s
      have hit := hitems ⟨k, t⟩ (by rw [hs]; simp)
      cases k with
      | code n b =>
        obtain ⟨j, hj⟩ : ∃ j, n = j + 1 := hit
        have hh : (escAll ESC [] ++ (rawF ESC (flatten1 (⟨.code n b, t⟩ :: r)) ++ X)).head? = some '`' := by
          rw [rawF_flatten_code]
          simp [escAll, spanSrc, hj, ticks, List.replicate_succ]
        obtain ⟨tl, htl⟩ := head_cons_of hh
        refine ⟨'`', tl, htl, by decide, ?_⟩
        rcases hd with e | e <;> rw [e] <;> decide
      | em st' d' β' =>
        obtain ⟨hdd, hd'⟩ : d' ≠ d ∧ (d' = '*' ∨ d' = '_') := hit
        have hh : (escAll ESC [] ++ (rawF ESC (flatten1 (⟨.em st' d' β', t⟩ :: r)) ++ X)).head? = some d' := by
          rw [rawF_flatten_em]
          cases st' <;> simp [escAll, dl]
        obtain ⟨tl, htl⟩ := head_cons_of hh
        refine ⟨d', tl, htl, ?_, hdd⟩
        rcases hd' with e | e <;> rw [e] <;> decide

theorem Deep2ContentOK.fline {c : List DocSpec.Inline} {t0 : Str} {segs : List Seg2} (h : Deep2ContentOK c t0 segs) :
    FLineOK ESC t0 (flatten2 segs) := by
  obtain ⟨h1, _, h3, _, h5, h6, h7, h8, hq, _⟩ := h.facts
  have htok := h.tokens
  refine ⟨?_, ?_, ?_, h7, ?_, ?_, h3, ?_⟩
  · exact fun hm => (plainCh_facts (h5 _ (Or.inl hm))).2.1 rfl
  · intro tok ht
    obtain ⟨a1, _, a3, _⟩ := htok tok ht
    exact ⟨fun hm => (plainCh_facts (a1 _ hm)).2.1 rfl, a3⟩
  · rcases h6 with h' | h'
    · exact Or.inl h'
    · right
      have := flatten2_length segs
      intro e; rw [e] at this
      cases segs with
      | nil => exact h' rfl
      | cons s r => simp at this
  · intro ht0
    have hne : segs ≠ [] := by rcases h6 with h' | h'; exact absurd ht0 h'; exact h'
    cases hsegs : segs with
    | nil => exact absurd hsegs hne
    | cons s r =>
      obtain ⟨k, t⟩ := s
      cases k with
      | code n b => exact Or.inl ⟨n, b, t, flatten2 r, rfl⟩
      | em st d β =>
        right
        have hs : (⟨K2.em st d β, t⟩ : Seg2) ∈ segs := by rw [hsegs]; simp
        have hk1 := h1 _ hs
        have hpr := h.printed _ hs
        obtain ⟨c', hc⟩ := inner_content st d β (hq _ hs) hpr
        have hctok := hc.tokens
        have hitems : ∀ s ∈ β.segs, match s.k with
            | .code n _ => ∃ k, n = k + 1
            | .em _ d' _ => d' ≠ d ∧ (d' = '*' ∨ d' = '_') := by
          intro x hx
          cases hkx : x.k with
          | code n b =>
            have := hc.printed x hx
            rw [hkx] at this
            exact ⟨n - 1, by have := this.1; omega⟩
          | em st' d' β' =>
            have hd' := hpr.2.2 x hx st' d' β' hkx
            have := hc.printed x hx
            rw [hkx] at this
            refine ⟨?_, this.1⟩
            rw [hd']
            rcases hpr.1 with e | e <;> rw [e] <;> decide
        obtain ⟨x, tl, he, hx1, hx2⟩ := body1_raw_head d hpr.1 β (fun y hy => hk1.2.plain y (Or.inl hy)) hk1.2.first
          hk1.2.ne hitems (dl st d ++ (escAll ESC t ++ rawF ESC (flatten2 r)))
        refine ⟨d, if st then 2 else 1, x, tl, ?_, hpr.1, by cases st <;> simp, by cases st <;> simp, hx2, hx1⟩
        rw [rawF_flatten2_em, he]; rfl
  · rw [lastTextF_flatten2]; exact h8
  · intro tok ht x hk
    obtain ⟨_, _, _, a4, _⟩ := htok tok ht
    obtain ⟨b1, b2, _⟩ := a4 x hk
    refine ⟨fun z hz => ?_, fun c' hc' => ?_⟩
    · rcases b2 with e | e <;> rw [e] at hz <;> cases hz <;> exact ⟨by decide, by decide, by decide⟩
    · rcases b1 with e | e <;> rw [e] at hc' <;> cases hc' <;> exact ⟨by decide, by decide, by decide⟩

theorem deep2_raw_chars {c : List DocSpec.Inline} {t0 : Str} {segs : List Seg2} (h : Deep2ContentOK c t0 segs) :
    ∀ ch ∈ escAll ESC t0 ++ rawF ESC (flatten2 segs), okCh ch := by
  obtain ⟨_, _, _, _, h5, _⟩ := h.facts
  have htok := h.tokens
  have hpl : ∀ x, plainCh x → okCh x := fun x hx => okCh_plain (plainCh_facts hx).1 (plainCh_facts hx).2.1
  have hesc : ∀ (t : Str), (∀ x ∈ t, plainCh x) → ∀ x ∈ escAll ESC t, okCh x := by
    intro t ht x hx
    rcases mem_escAll hx with rfl | hx
    · exact ⟨by decide, by decide, by decide, by decide, by decide, by decide⟩
    · exact hpl x (ht x hx)
  intro ch hch
  rcases List.mem_append.1 hch with hch | hch
  · exact hesc t0 (fun x hx => h5 x (Or.inl hx)) ch hch
  · obtain ⟨tok, ht, hc | hc⟩ := mem_rawF hch
    · exact (htok tok ht).2.1 ch hc
    · exact hesc tok.t (htok tok ht).1 ch hc

theorem refsClosed_deep2Raw {c : List DocSpec.Inline} {t0 : Str} {segs : List Seg2} (h : Deep2ContentOK c t0 segs)
    (P Q : Str) (hP : '&' ∉ P) (hQ : '&' ∉ Q) :
    refsClosed (P ++ (escAll ESC t0 ++ rawF ESC (flatten2 segs)) ++ Q) = true := by
  obtain ⟨_, _, _, _, h5, _⟩ := h.facts
  have htok := h.tokens
  have hQc : refsClosed Q = true := refsClosed_of_no_amp Q hQ
  have := refsClosed_rawF (flatten2 segs) (fun tok ht =>
    ⟨(htok tok ht).1, fun x hk => ((htok tok ht).2.2.2.1 x hk).2.2, (htok tok ht).2.2.2.2⟩) Q hQc
  have h0 := refsClosed_noamp_append _ _ (no_amp_escAll t0 (fun x hx => h5 x (Or.inl hx))) this
  have := refsClosed_noamp_append P _ hP h0
  simpa [List.append_assoc] using this


/-! ### 57. the specification side, and the pieces -/

theorem l2Src_raw (esc : List Char) (tag t0 : Str) (segs : List Seg2) :
    l2Src esc tag t0 segs = { tag := .name tag, text := some (escAll esc t0 ++ rawF esc (flatten2 segs)) } := by
  simp only [l2Src, stageF_raw]

def Q2.spec : Q2 → Str
  | .code b => S "<code>" ++ htmlEsc b ++ S "</code>"
  | .em st u0 items => '<' :: emTagS st ++ ['>'] ++ (htmlEsc u0 ++ specDeep items) ++ ('<' :: '/' :: emTagS st ++ ['>'])

theorem Q2.spec_code (b : Str) : (Q2.code b).spec = S "<code>" ++ htmlEsc b ++ S "</code>" := rfl
theorem Q2.spec_em (st : Bool) (u0 : Str) (items : List (Q1 × Str)) :
    (Q2.em st u0 items).spec =
      '<' :: emTagS st ++ ['>'] ++ (htmlEsc u0 ++ specDeep items) ++ ('<' :: '/' :: emTagS st ++ ['>']) := rfl

def specDeep2 : List (Q2 × Str) → Str
  | [] => []
  | q :: r => q.1.spec ++ htmlEsc q.2 ++ specDeep2 r

theorem specDeep2_cons (q : Q2 × Str) (r : List (Q2 × Str)) :
    specDeep2 (q :: r) = q.1.spec ++ htmlEsc q.2 ++ specDeep2 r := rfl

theorem specInlines_splitDeep2 (c : List DocSpec.Inline) (h : deep2ItemsOK c = true) :
    specInlines c = htmlEsc (splitDeep2 c).1 ++ specDeep2 (splitDeep2 c).2 := by
  revert h
  refine deep2Items_ind (motive := fun c => specInlines c = htmlEsc (splitDeep2 c).1 ++ specDeep2 (splitDeep2 c).2)
    ?_ ?_ ?_ ?_ ?_ ?_ c
  · rfl
  · intro w r _ _ ih
    rw [specInlines_cons, specInline_text, ih, splitDeep2_text, htmlEsc_append, List.append_assoc]
  · intro ch r _ _ ih
    have : ch :: (splitDeep2 r).1 = [ch] ++ (splitDeep2 r).1 := rfl
    rw [specInlines_cons, specInline_esc, ih, splitDeep2_esc, this, htmlEsc_append, List.append_assoc]
  · intro b r _ _ _ ih
    rw [specInlines_cons, specInline_code, ih, splitDeep2_code, specDeep2_cons, Q2.spec_code]
    simp only [List.append_assoc]
    rfl
  · intro c' r hc' _ ih
    simp only [emBody2OK, Bool.and_eq_true] at hc'
    rw [specInlines_cons, specInline_em_gen, specInlines_splitDeep c' hc'.1.1.1.1.1, ih, splitDeep2_em, specDeep2_cons,
      Q2.spec_em]
    simp only [List.append_assoc]
    rfl
  · intro c' r hc' _ ih
    simp only [emBody2OK, Bool.and_eq_true] at hc'
    rw [specInlines_cons, specInline_strong_gen, specInlines_splitDeep c' hc'.1.1.1.1.1, ih, splitDeep2_strong,
      specDeep2_cons, Q2.spec_em]
    simp only [List.append_assoc]
    rfl

/-- no `&` in the texts inside an outer emphasis -/
def K2.noAmp : K2 → Prop
  | .code _ _ => True
  | .em _ _ β => '&' ∉ β.u0 ∧ ∀ s ∈ β.segs, '&' ∉ s.t ∧ s.k.noAmp

theorem kout2_eq (k : K2) (h : k.noAmp) : kout2 k = k.q.spec :=
  match k, h with
  | .code n b, _ => kout1_eq_code n b
  | .em st d β, h => by
    show '<' :: emTagS st ++ ['>'] ++ (Ser.escCdata β.u0 ++ out1 β.segs) ++ ('<' :: '/' :: emTagS st ++ ['>']) =
      '<' :: emTagS st ++ ['>'] ++ (htmlEsc β.u0 ++ specDeep (β.segs.map (fun s => (s.k.q, s.t)))) ++
        ('<' :: '/' :: emTagS st ++ ['>'])
    rw [htmlEsc_eq_escCdata β.u0 h.1, out1_eq β.segs h.2]

theorem out2_eq (segs : List Seg2) (h : ∀ s ∈ segs, '&' ∉ s.t ∧ s.k.noAmp) :
    out2 segs = specDeep2 (segs.map (fun s => (s.k.q, s.t))) := by
  induction segs with
  | nil => rfl
  | cons s r ih =>
    rw [out2_cons, List.map_cons, specDeep2_cons, ih (fun x hx => h x (List.mem_cons_of_mem _ hx)),
      htmlEsc_eq_escCdata s.t (h s List.mem_cons_self).1, kout2_eq s.k (h s List.mem_cons_self).2]

theorem l2Out_eq {c : List DocSpec.Inline} {t0 : Str} {segs : List Seg2} (h : Deep2ContentOK c t0 segs)
    (tag : Str) : l2Out tag t0 segs = '<' :: tag ++ ['>'] ++ specInlines c ++ ('<' :: '/' :: tag ++ ['>']) := by
  obtain ⟨h1, _, _, _, h5, _⟩ := h.facts
  have hamp : ∀ ch, plainCh ch → ch ≠ '&' := fun ch hc => (plainCh_facts hc).2.2.1
  have ha0 : '&' ∉ t0 := fun hm => hamp _ (h5 _ (Or.inl hm)) rfl
  have has : ∀ s ∈ segs, '&' ∉ s.t ∧ s.k.noAmp := fun s hs =>
    ⟨fun hm => hamp _ (h5 _ (Or.inr ⟨s, hs, hm⟩)) rfl, by
      have := h1 s hs
      cases hk : s.k with
      | code n b => trivial
      | em st d β =>
        rw [hk] at this
        refine ⟨fun hm => hamp _ (this.2.plain _ (Or.inl hm)) rfl, ?_⟩
        intro x hx
        refine ⟨fun hm => hamp _ (this.2.plain _ (Or.inr ⟨x, hx, hm⟩)) rfl, ?_⟩
        have hx1 := this.2.segs x hx
        cases hkx : x.k with
        | code n b => trivial
        | em st' d' β' =>
          rw [hkx] at hx1
          exact ⟨fun hm => hamp _ (hx1.2.plain _ (Or.inl hm)) rfl,
            fun y hy hm => hamp _ (hx1.2.plain _ (Or.inr ⟨y, hy, hm⟩)) rfl⟩⟩
  rw [specInlines_splitDeep2 c h.items, ← h.t0eq, ← h.smap, ← out2_eq segs has, htmlEsc_eq_escCdata t0 ha0]
  simp [l2Out, List.append_assoc]

/-! #### the printed blocks as pieces -/

theorem deep2ItemsOK_of_wf (c : List DocSpec.Inline) (brOk : Bool) (hp : c.all isDeep2Item = true)
    (hw : wfInlineList false .none brOk c = true) : deep2ItemsOK c = true := by
  induction c with
  | nil => rfl
  | cons x r ih =>
    simp only [List.all_cons, Bool.and_eq_true] at hp
    simp only [wfInlineList, Bool.and_eq_true] at hw
    have ihr := ih hp.2 hw.2
    cases x with
    | text w => simp only [wfInline] at hw; simp [deep2ItemsOK, hw.1, ihr]
    | esc ch => simp only [wfInline] at hw; simp [deep2ItemsOK, List.contains_iff_mem.1 hw.1, ihr]
    | code b => simp only [wfInline] at hw; simp only [isDeep2Item] at hp; simp [deep2ItemsOK, hw.1, hp.1, ihr]
    | em l =>
      have h1 := hw.1
      have hp1 := hp.1
      simp only [wfInline, wfRun, Bool.and_eq_true] at h1
      simp only [isDeep2Item, Bool.and_eq_true] at hp1
      have hsp := deepItemsOK_of_wf_par l _ brOk hp1.1 h1.2
      have he : emphAtBoundaries true l = true := by
        have := h1.1.2.2
        simpa using this
      simp [deep2ItemsOK, emBody2OK, hsp, h1.1.2.1.1.1, h1.1.2.1.1.2, h1.1.2.1.2, hp1.2, he, ihr]
    | strong l =>
      have h1 := hw.1
      have hp1 := hp.1
      simp only [wfInline, wfRun, Bool.and_eq_true] at h1
      simp only [isDeep2Item, Bool.and_eq_true] at hp1
      have hsp := deepItemsOK_of_wf_par l _ brOk hp1.1 h1.2
      have he : emphAtBoundaries true l = true := by
        have := h1.1.2.2
        simpa using this
      simp [deep2ItemsOK, emBody2OK, hsp, h1.1.2.1.1.1, h1.1.2.1.1.2, h1.1.2.1.2, hp1.2, he, ihr]
    | link _ _ _ => simp [isDeep2Item] at hp
    | image _ _ _ => simp [isDeep2Item] at hp
    | autolink _ => simp [isDeep2Item] at hp
    | br => simp [isDeep2Item] at hp

theorem printContent_deep2 (c : List DocSpec.Inline) (brOk : Bool) (hp : deep2Run c = true)
    (hw : wfInlines false .none brOk c = true) (st : PSt) :
    ∃ (t0 : Str) (segs : List Seg2) (st' : PSt),
      printContent c st = ([escAll ESC t0 ++ rawF ESC (flatten2 segs)], st') ∧ st'.defs = st.defs ∧
        Deep2ContentOK c t0 segs := by
  simp only [deep2Run, Bool.and_eq_true] at hp
  simp only [wfInlines, Bool.and_eq_true] at hw
  have hitems := deep2ItemsOK_of_wf c brOk hp.1 hw.2
  obtain ⟨segs, st', hpr, hd, hm, hds, hu⟩ := printInlines_deep2 c hitems true true st
  rw [pwOf_true] at hu
  have hok : Deep2ContentOK c (splitDeep2 c).1 segs := ⟨hitems, hw.1, hp.2, rfl, hm, hds, hu⟩
  refine ⟨(splitDeep2 c).1, segs, st', ?_, hd, hok⟩
  have hnl := (rawOK_flat escOK_generated _ (flatten2 segs) hok.fline).nl
  simp only [printContent, hpr]
  rw [splitC_noNl _ (notNl_of_not_mem hnl)]

/-- the facts about a line `P ++ raw ++ Q` around the content -/
theorem line_facts_deep2 {c : List DocSpec.Inline} {t0 : Str} {segs : List Seg2} (h : Deep2ContentOK c t0 segs) (P Q : Str)
    (hP : ∀ x ∈ P, okCh x ∧ x ≠ '&') (hQ : ∀ x ∈ Q, okCh x ∧ x ≠ '&') :
    (lineSafe (P ++ (escAll ESC t0 ++ rawF ESC (flatten2 segs)) ++ Q) = true ∧
      '<' ∉ P ++ (escAll ESC t0 ++ rawF ESC (flatten2 segs)) ++ Q ∧
      refsClosed (P ++ (escAll ESC t0 ++ rawF ESC (flatten2 segs)) ++ Q) = true) ∧
    '\n' ∉ P ++ (escAll ESC t0 ++ rawF ESC (flatten2 segs)) ++ Q ∧
    ∃ x ∈ P ++ (escAll ESC t0 ++ rawF ESC (flatten2 segs)) ++ Q, isSpace x = false := by
  have hraw := rawOK_flat escOK_generated t0 (flatten2 segs) h.fline
  obtain ⟨c0, tail, he, hcs, _⟩ := hraw.shape
  have hc0 : c0 ∈ P ++ (escAll ESC t0 ++ rawF ESC (flatten2 segs)) ++ Q := by rw [he]; simp
  have hch : ∀ x ∈ P ++ (escAll ESC t0 ++ rawF ESC (flatten2 segs)) ++ Q, okCh x := by
    intro x hx
    simp only [List.mem_append] at hx
    rcases hx with (hx | hx) | hx
    · exact (hP x hx).1
    · exact deep2_raw_chars h x (List.mem_append.2 hx)
    · exact (hQ x hx).1
  have hs := safe_of_okCh _ hch ⟨c0, hc0, by intro e; subst e; exact absurd hcs (by decide)⟩
  exact ⟨⟨hs.1, hs.2, refsClosed_deep2Raw h P Q (fun hm => (hP _ hm).2 rfl) (fun hm => (hQ _ hm).2 rfl)⟩,
    fun hm => (hch _ hm).1 rfl, c0, hc0, hcs⟩

/-- a paragraph with emphasis around words, escapes and code spans, indented by `i < 4` -/
theorem deep2Para_ok {c : List DocSpec.Inline} {t0 : Str} {segs : List Seg2} (h : Deep2ContentOK c t0 segs) (i : Nat)
    (hi : i < 4) :
    Piece2OK {} (l2Piece ESC [spaces i ++ (escAll ESC t0 ++ rawF ESC (flatten2 segs))] "p".toList t0 segs) := by
  have hraw := rawOK_flat escOK_generated t0 (flatten2 segs) h.fline
  obtain ⟨⟨hs1, hs2, hs3⟩, hnl, hvis⟩ := line_facts_deep2 h (spaces i) [] (okCh_spaces i) (by simp)
  simp only [List.append_nil] at hs1 hs2 hs3 hnl hvis
  apply l2Piece_ok _ _ _ _ (h.l2TxtOK _ (by decide)) h.nostx (by simp)
  · simp only [joinLines, join_singleton]
    apply nel_line _ _ hnl
    obtain ⟨x, hx, _⟩ := hvis
    intro e; rw [e] at hx; simp at hx
  · simp only [joinLines, join_singleton]
    rw [l2Src_raw]; exact produces_para_raw 4 i hi (by omega) _ hraw
  · intro l hl
    have : l = spaces i ++ (escAll ESC t0 ++ rawF ESC (flatten2 segs)) := by simpa using hl
    subst this; exact ⟨hs1, hs2, hs3⟩
  · simpa [joinLines] using hvis


/-- a Setext heading with emphasis around words, escapes and code spans -/
theorem deep2Setext_ok {c : List DocSpec.Inline} {t0 : Str} {segs : List Seg2} (h : Deep2ContentOK c t0 segs)
    (i : Nat) (hi : i < 4) (lv k : Nat) (hlv : lv = 1 ∨ lv = 2) :
    Piece2OK {} (l2Piece ESC [spaces i ++ (escAll ESC t0 ++ rawF ESC (flatten2 segs)),
      List.replicate (k + 1) (if lv = 1 then '=' else '-')] ('h' :: natToDec lv) t0 segs) := by
  have hraw := rawOK_flat escOK_generated t0 (flatten2 segs) h.fline
  obtain ⟨⟨hs1, hs2, hs3⟩, hnl, hvis⟩ := line_facts_deep2 h (spaces i) [] (okCh_spaces i) (by simp)
  simp only [List.append_nil] at hs1 hs2 hs3 hnl hvis
  have hprod := produces_setext_raw 4 i hi _ hraw lv k hlv
  generalize hu : (if lv = 1 then '=' else '-') = ch at *
  have hch2 : ch = '=' ∨ ch = '-' := by rw [← hu]; split <;> simp
  have hunl : '\n' ∉ List.replicate (k + 1) ch := by
    intro hm; have := List.eq_of_mem_replicate hm
    rcases hch2 with h' | h' <;> rw [h'] at this <;> exact absurd this (by decide)
  have hjoin : joinLines [spaces i ++ (escAll ESC t0 ++ rawF ESC (flatten2 segs)), List.replicate (k + 1) ch] =
      spaces i ++ (escAll ESC t0 ++ rawF ESC (flatten2 segs)) ++ '\n' :: List.replicate (k + 1) ch := by
    simp [joinLines, join]
  have hlne : spaces i ++ (escAll ESC t0 ++ rawF ESC (flatten2 segs)) ≠ [] := by
    obtain ⟨x, hx, _⟩ := hvis
    intro e; rw [e] at hx; simp at hx
  apply l2Piece_ok _ _ _ _ (h.l2TxtOK _ (hTag_mem lv (by omega) (by omega))) h.nostx (by simp)
  · rw [hjoin]
    exact nel_two_lines _ _ hlne (by simp [List.replicate_succ]) hnl hunl
  · rw [hjoin, l2Src_raw]; exact hprod
  · intro l hl
    simp only [List.mem_cons, List.mem_nil_iff, or_false] at hl
    rcases hl with rfl | rfl
    · exact ⟨hs1, hs2, hs3⟩
    · have hall : ∀ x ∈ List.replicate (k + 1) ch, okCh x ∧ x ≠ '&' := by
        intro x hx; rw [List.eq_of_mem_replicate hx]
        rcases hch2 with h' | h' <;> rw [h'] <;>
          exact ⟨⟨by decide, by decide, by decide, by decide, by decide, by decide⟩, by decide⟩
      have := safe_of_okCh _ (fun x hx => (hall x hx).1)
        ⟨ch, by simp [List.replicate_succ], by rcases hch2 with h' | h' <;> rw [h'] <;> decide⟩
      exact ⟨this.1, this.2, refsClosed_of_no_amp _ (fun hm => (hall _ hm).2 rfl)⟩
  · obtain ⟨x, hx, hxs⟩ := hvis
    exact ⟨x, by rw [hjoin]; exact List.mem_append_left _ hx, hxs⟩

/-- an ATX heading with emphasis around words, escapes and code spans -/
theorem deep2Atx_ok {c : List DocSpec.Inline} {t0 : Str} {segs : List Seg2} (h : Deep2ContentOK c t0 segs)
    (lv : Nat) (h1 : 1 ≤ lv) (h6 : lv ≤ 6) (Y : Str) (hY : Y = [] ∨ ∃ m, Y = ' ' :: List.replicate m '#') :
    Piece2OK {} (l2Piece ESC [List.replicate lv '#' ++ ' ' :: ((escAll ESC t0 ++ rawF ESC (flatten2 segs)) ++ Y)]
      ('h' :: natToDec lv) t0 segs) := by
  have hraw := rawOK_flat escOK_generated t0 (flatten2 segs) h.fline
  have hhash : okCh '#' ∧ ('#' : Char) ≠ '&' :=
    ⟨⟨by decide, by decide, by decide, by decide, by decide, by decide⟩, by decide⟩
  have hP : ∀ x ∈ List.replicate lv '#' ++ [' '], okCh x ∧ x ≠ '&' := by
    intro x hx
    rcases List.mem_append.1 hx with hx | hx
    · rw [List.eq_of_mem_replicate hx]; exact hhash
    · have : x = ' ' := by simpa using hx
      rw [this]; exact okCh_space
  have hQ : ∀ x ∈ Y, okCh x ∧ x ≠ '&' := by
    intro x hx
    rcases hY with rfl | ⟨m, rfl⟩
    · simp at hx
    · rcases List.mem_cons.1 hx with hx | hx
      · rw [hx]; exact okCh_space
      · rw [List.eq_of_mem_replicate hx]; exact hhash
  obtain ⟨⟨hs1, hs2, hs3⟩, hnl, hvis⟩ := line_facts_deep2 h _ Y hP hQ
  have hline : List.replicate lv '#' ++ [' '] ++ (escAll ESC t0 ++ rawF ESC (flatten2 segs)) ++ Y =
      List.replicate lv '#' ++ ' ' :: ((escAll ESC t0 ++ rawF ESC (flatten2 segs)) ++ Y) := by simp [List.append_assoc]
  rw [hline] at hs1 hs2 hs3 hnl hvis
  apply l2Piece_ok _ _ _ _ (h.l2TxtOK _ (hTag_mem lv h1 h6)) h.nostx (by simp)
  · simp only [joinLines, join_singleton]
    apply nel_line _ _ hnl
    obtain ⟨x, hx, _⟩ := hvis
    intro e; rw [e] at hx; simp at hx
  · simp only [joinLines, join_singleton]
    rw [l2Src_raw]; exact produces_atx_raw 4 (by omega) _ hraw lv h1 h6 Y hY
  · intro l hl
    have : l = List.replicate lv '#' ++ ' ' :: ((escAll ESC t0 ++ rawF ESC (flatten2 segs)) ++ Y) := by simpa using hl
    subst this; exact ⟨hs1, hs2, hs3⟩
  · simpa [joinLines] using hvis





/-! #### every printed block of the sub-grammar -/

theorem l2Piece_out (g : List Str) (tag t0 : Str) (segs : List Seg2) :
    (l2Piece ESC g tag t0 segs).elem.out = l2Out tag t0 segs := rfl

theorem printBlock_deep2 (b : DocSpec.Block) (hf : isDeep2Block b = true) (hw : wfBlock none b = true) (st : PSt) :
    ∃ (p : Piece2) (st' : PSt), printBlock true b st = (p.b.g, st') ∧ st'.defs = st.defs ∧
      Piece2OK {} p ∧ p.elem.out = specBlock b ∧ p.b.isCode = isCode b := by
  cases b with
  | rule => exact printBlock_span .rule rfl hw st
  | code ls => exact printBlock_span (.code ls) hf hw st
  | para c =>
    simp only [isDeep2Block] at hf
    simp only [wfBlock] at hw
    obtain ⟨t0, segs, st', hpc, hd, hok⟩ := printContent_deep2 c true hf hw (draw st).2
    refine ⟨l2Piece ESC [spaces ((draw st).1 % 4) ++ (escAll ESC t0 ++ rawF ESC (flatten2 segs))] "p".toList t0 segs,
      st', ?_, by rw [hd, draw_defs], deep2Para_ok hok _ (Nat.mod_lt _ (by omega)), ?_, rfl⟩
    · rw [printBlock_para, hpc]; rfl
    · rw [l2Piece_out, l2Out_eq hok, specBlock_para]
      simp [S]
  | atx l c =>
    simp only [isDeep2Block] at hf
    simp only [wfBlock, Bool.and_eq_true, decide_eq_true_eq] at hw
    obtain ⟨t0, segs, st', hpc, hd, hok⟩ := printContent_deep2 c false hf hw.2 (draw st).2
    have hY : atxClosing (draw st).1 l = [] ∨ ∃ m, atxClosing (draw st).1 l = ' ' :: List.replicate m '#' := by
      unfold atxClosing
      split
      · exact Or.inl rfl
      · split
        · exact Or.inr ⟨1, rfl⟩
        · exact Or.inr ⟨l, rfl⟩
    refine ⟨l2Piece ESC [List.replicate l '#' ++ ' ' :: ((escAll ESC t0 ++ rawF ESC (flatten2 segs)) ++
        atxClosing (draw st).1 l)] ('h' :: natToDec l) t0 segs,
      st', ?_, by rw [hd, draw_defs], deep2Atx_ok hok l hw.1.1 hw.1.2 _ hY, ?_, rfl⟩
    · rw [printBlock_atx, hpc]
      simp [atxLine, join, rep, List.append_assoc, l2Piece, chunkB]
    · rw [l2Piece_out, l2Out_eq hok, specBlock_atx]
      simp [S, List.append_assoc]
  | setext l c =>
    simp only [isDeep2Block] at hf
    simp only [wfBlock, Bool.and_eq_true, Bool.or_eq_true, decide_eq_true_eq] at hw
    obtain ⟨t0, segs, st', hpc, hd, hok⟩ := printContent_deep2 c false hf hw.2 (draw (draw st).2).2
    refine ⟨l2Piece ESC [spaces ((draw st).1 % 4) ++ (escAll ESC t0 ++ rawF ESC (flatten2 segs)),
          List.replicate ((draw (draw st).2).1 % 8 + 1) (if l = 1 then '=' else '-')] ('h' :: natToDec l) t0 segs,
      st', ?_, by rw [hd]; simp [draw_defs], deep2Setext_ok hok _ (Nat.mod_lt _ (by omega)) l _ hw.1, ?_, rfl⟩
    · rw [printBlock_setext, hpc]; rfl
    · rw [l2Piece_out, l2Out_eq hok, specBlock_setext]
      simp [S, List.append_assoc]
  | quote _ => simp [isDeep2Block] at hf
  | ulist _ _ => simp [isDeep2Block] at hf
  | olist _ _ => simp [isDeep2Block] at hf

theorem printBlocks_deep2 (d : Doc) (hne : d ≠ []) (hf : ∀ b ∈ d, isDeep2Block b = true)
    (hw : ∀ b ∈ d, wfBlock none b = true) (hnext : okNexts d = true) :
    ∀ st : PSt, ∃ (ps : List Piece2) (st' : PSt), printBlocks true d st = (flatLines (ps.map (·.b.g)), st') ∧
      st'.defs = st.defs ∧ ps ≠ [] ∧ (∀ p ∈ ps, Piece2OK {} p) ∧
      joinOutS (ps.map (·.elem.out)) = specBlocks d ∧ noCodeAfterCode (ps.map (·.b)) ∧
      (ps.head?.map (·.b.isCode) = d.head?.map isCode) := by
  induction d with
  | nil => exact absurd rfl hne
  | cons b r ih =>
    intro st
    obtain ⟨p, st1, hp, hd1, hok, hout, hcode⟩ :=
      printBlock_deep2 b (hf b List.mem_cons_self) (hw b List.mem_cons_self) st
    cases r with
    | nil =>
      refine ⟨[p], st1, ?_, hd1, by simp, ?_, ?_, trivial, by simp [hcode]⟩
      · rw [printBlocks_one, hp]; rfl
      · intro q hq; have : q = p := by simpa using hq
        subst this; exact hok
      · rw [specBlocks_one, ← hout]; rfl
    | cons b' r' =>
      rw [okNexts_cons2, Bool.and_eq_true] at hnext
      obtain ⟨ps, st2, hps, hd2, hpsne, hoks, houts, hadj, hhead⟩ := ih (by simp)
        (fun x hx => hf x (List.mem_cons_of_mem _ hx)) (fun x hx => hw x (List.mem_cons_of_mem _ hx)) hnext.2 st1
      obtain ⟨q, qs, rfl⟩ : ∃ q qs, ps = q :: qs := by
        cases ps with
        | nil => exact absurd rfl hpsne
        | cons q qs => exact ⟨q, qs, rfl⟩
      have hq : q.b.isCode = isCode b' := by simpa using hhead
      refine ⟨p :: q :: qs, st2, ?_, by rw [hd2, hd1], by simp, ?_, ?_, ?_, by simp [hcode]⟩
      · rw [printBlocks_cons2, hp]
        simp only [hps]
        rfl
      · intro x hx
        rcases List.mem_cons.1 hx with rfl | hx
        · exact hok
        · exact hoks x hx
      · rw [specBlocks_cons2, ← houts, ← hout]; rfl
      · refine ⟨?_, hadj⟩
        intro hqc
        rw [hq] at hqc
        rw [hcode]
        have h1 := hnext.1
        simp only [okNext, hqc, Bool.and_true, Bool.and_eq_true, Bool.not_eq_true', Bool.or_eq_false_iff] at h1
        exact h1.1.2.1

/-- **C01 on documents with emphasis around emphasis inside emphasis**: every spelling of a well-formed document of the
    sub-grammar converts to what `spec` prescribes -/
theorem convert_deep2Doc (d : Doc) (sp : Spelling) (hwf : WF d = true) (hs : DocSpec.Deep2Doc d = true) :
    Pipeline.convert {} (print d sp) = .ok (spec d) := by
  simp only [WF, Bool.and_eq_true, Bool.not_eq_true', List.isEmpty_eq_false_iff] at hwf
  obtain ⟨⟨⟨hne, hnx⟩, hbl⟩, _⟩ := hwf
  have hf : ∀ b ∈ d, isDeep2Block b = true := by
    simpa [DocSpec.Deep2Doc, List.all_eq_true] using hs
  obtain ⟨ps, st', hps, hdefs, hpsne, hoks, houts, hadj, _⟩ :=
    printBlocks_deep2 d hne hf (wfBlockList_mem hbl) hnx ⟨sp.choices, 1, []⟩
  have hprint : print d sp = joinLines (flatLines (ps.map (·.b.g))) := by
    simp only [print, hps]
    have : st'.defs = [] := hdefs
    simp [this, joinLines]
  rw [hprint, spec, ← houts]
  exact convert_pieces2 {} rfl rfl ps hpsne hoks hadj





end MdVerif.DocParse2
