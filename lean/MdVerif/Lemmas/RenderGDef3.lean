/-
Helper lemmas for `Props/C16RenderG.lean`, part 18: definition lists — the document of several groups through the
block stage, and the list items (terms, tight and loose definitions) through the tree stages.

Core Lean only.
-/
import MdVerif.Lemmas.RenderGDef2

namespace MdVerif.RenderG
open Py Block BlockExt MdVerif.RenderX

/-! ### the groups, one after the other -/

def groupsCost : List DGroup → Nat
  | [] => 0
  | g :: r => groupCost g + groupsCost r

theorem parse_groups (cfg : XCfg) (hdef : cfg.defList = true) (tab : Nat) (htab : 0 < tab) :
    ∀ (gs : List DGroup) (K : List Node) (refs : Refs) (f : Nat) (REST : List Str), (∀ g ∈ gs, GroupOK g) →
      parseBlocksXT false cfg tab (f + 2 + groupsCost gs) [] refs (rootOf [dlOf K])
          (gs.flatMap (groupBlocks tab) ++ REST) =
        parseBlocksXT false cfg tab (f + 2) [] refs (rootOf [dlOf (K ++ gs.flatMap groupKids)]) REST := by
  intro gs
  induction gs with
  | nil => intro K refs f REST _; simp [groupsCost]
  | cons g r ih =>
    intro K refs f REST hg
    have h1 := parse_group cfg hdef tab htab g (hg g List.mem_cons_self) (some K) refs (f + groupsCost r)
      (r.flatMap (groupBlocks tab) ++ REST)
    simp only [Option.getD_some] at h1
    rw [show f + 2 + groupsCost (g :: r) = f + groupsCost r + 2 + groupCost g by simp only [groupsCost]; omega]
    simp only [List.flatMap_cons, List.append_assoc]
    rw [h1, show f + groupsCost r + 2 = f + 2 + groupsCost r by omega,
      ih _ refs f REST (fun x hx => hg x (List.mem_cons_of_mem _ hx))]
    simp [List.append_assoc]

/-- the source: the blocks of the groups, separated by empty lines -/
def defSrcG (tab : Nat) (g0 : DGroup) (gr : List DGroup) : Str :=
  DocParse.joinChunks ((g0 :: gr).flatMap (groupBlocks tab))

theorem sum_le_joinChunks : ∀ (bs : List Str), (bs.map List.length).sum ≤ (DocParse.joinChunks bs).length := by
  intro bs
  induction bs with
  | nil => simp [DocParse.joinChunks]
  | cons b r ih =>
    cases r with
    | nil => simp [DocParse.joinChunks]
    | cons b' r' =>
      simp only [List.map_cons, List.sum_cons, DocParse.joinChunks, List.length_append, List.length_cons,
        List.length_nil] at ih ⊢
      omega

theorem cost_le_blocks (tab : Nat) (htab : 0 < tab) (g : DGroup) (hg : GroupOK g) :
    groupCost g ≤ ((groupBlocks tab g).map List.length).sum := by
  have h1 := length_defSrc g.t0 g.tr g.d g.ds
  have h2 : g.conts.length ≤ ((g.conts.map (bodyBlock tab)).map List.length).sum := by
    have : ∀ (cs : List Para), (∀ p ∈ cs, ParaOK p) → cs.length ≤ ((cs.map (bodyBlock tab)).map List.length).sum := by
      intro cs
      induction cs with
      | nil => intro _; simp
      | cons p r ih =>
        intro h
        have := ih (fun x hx => h x (List.mem_cons_of_mem _ hx))
        obtain ⟨a, Y, _, hY⟩ := bodyBlock_start tab p (h p List.mem_cons_self)
        have hl : 1 ≤ (bodyBlock tab p).length := by rw [hY]; simp only [List.length_append, List.length_cons]; omega
        simp only [List.map_cons, List.sum_cons, List.length_cons]
        omega
    exact this _ hg.conts
  simp only [groupCost, groupBlocks, List.map_cons, List.sum_cons]
  omega

theorem groupsCost_le (tab : Nat) (htab : 0 < tab) : ∀ (gs : List DGroup), (∀ g ∈ gs, GroupOK g) →
    groupsCost gs ≤ ((gs.flatMap (groupBlocks tab)).map List.length).sum := by
  intro gs
  induction gs with
  | nil => intro _; simp [groupsCost]
  | cons g r ih =>
    intro h
    have h1 := cost_le_blocks tab htab g (h g List.mem_cons_self)
    have h2 := ih (fun x hx => h x (List.mem_cons_of_mem _ hx))
    simp only [groupsCost, List.flatMap_cons, List.map_append, List.sum_append]
    omega

theorem nel_defSrc (g : DGroup) (hg : GroupOK g) : Escape.noEmptyLineFrom true (defSrc (g.t0 :: g.tr) (g.d :: g.ds)) = true := by
  have hlines := lines_defSrc (g.t0 :: g.tr) (g.d :: g.ds) (by simp) hg.terms hg.defs
  rw [← Escape.lines_all_nonempty, hlines, List.all_eq_true]
  intro l hl
  rcases List.mem_append.1 hl with hl | hl
  · have := (hg.terms l hl).ne
    cases l with
    | nil => exact absurd rfl this
    | cons a b => rfl
  · obtain ⟨x, _, rfl⟩ := List.mem_map.1 hl
    simp [defLine]

theorem nel_bodyBlock (tab : Nat) (p : Para) (hp : ParaOK p) : Escape.noEmptyLineFrom true (bodyBlock tab p) = true := by
  apply nel_block _ (by simp [CodeLaw.indentLines, pLines])
  intro l hl
  obtain ⟨y, hy, rfl⟩ := List.mem_map.1 hl
  exact indentLine_facts tab y (hp y hy)

theorem preCode_dl (K : List Node) : preCode (dlOf K) = none := by
  have : (dlOf K).isTag "pre" = false := by simp only [dlOf, Node.isTag, Node.el]; decide
  simp [preCode, this]

theorem parseDocumentXT_defG (cfg : XCfg) (hdef : cfg.defList = true) (tab : Nat) (htab : 0 < tab) (g0 : DGroup)
    (gr : List DGroup) (h0 : GroupOK g0) (hr : ∀ g ∈ gr, GroupOK g) :
    parseDocumentXT false cfg tab (defSrcG tab g0 gr ++ ['\n', '\n']) =
      some (rootOf [dlOf ((g0 :: gr).flatMap groupKids)], []) := by
  have hall : ∀ g ∈ g0 :: gr, GroupOK g := by
    intro g hg
    rcases List.mem_cons.1 hg with rfl | hg
    · exact h0
    · exact hr g hg
  have hnel : ∀ x ∈ (g0 :: gr).flatMap (groupBlocks tab), Escape.noEmptyLineFrom true x = true := by
    intro x hx
    obtain ⟨g, hg, hxg⟩ := List.mem_flatMap.1 hx
    rcases List.mem_cons.1 hxg with rfl | hxg
    · exact nel_defSrc g (hall g hg)
    · obtain ⟨p, hp, rfl⟩ := List.mem_map.1 hxg
      exact nel_bodyBlock tab p ((hall g hg).conts p hp)
  have hsplit := DocParse.splitS_chunks _ (by simp [groupBlocks]) hnel
  have hcost := groupsCost_le tab htab (g0 :: gr) hall
  have hsum := sum_le_joinChunks ((g0 :: gr).flatMap (groupBlocks tab))
  obtain ⟨f, hf⟩ : ∃ f, fuelForX (defSrcG tab g0 gr ++ ['\n', '\n']).length = f + groupsCost gr + 2 + groupCost g0 := by
    refine ⟨fuelForX (defSrcG tab g0 gr ++ ['\n', '\n']).length - (groupsCost gr + groupCost g0 + 2), ?_⟩
    simp only [fuelForX, List.length_append, defSrcG]
    simp only [groupsCost] at hcost
    omega
  simp only [parseDocumentXT, parseChunk]
  rw [show defSrcG tab g0 gr = DocParse.joinChunks ((g0 :: gr).flatMap (groupBlocks tab)) from rfl] at hf ⊢
  rw [hsplit, hf]
  have h1 := parse_group cfg hdef tab htab g0 h0 none [] (f + groupsCost gr)
    (gr.flatMap (groupBlocks tab) ++ [[]])
  simp only [Option.getD_none, List.nil_append] at h1
  rw [show (Node.el "div" : Node) = rootOf [] from rfl]
  simp only [List.flatMap_cons, List.append_assoc]
  rw [h1, show f + groupsCost gr + 2 = f + 2 + groupsCost gr by omega, parse_groups cfg hdef tab htab gr _ [] f [[]] hr,
    parse_end cfg tab htab f [] _ (by
      intro c hc
      simp only [rootOf, Node.last?, Node.el, List.getLast?_singleton, Option.some.injEq] at hc
      subst hc; exact preCode_dl _)]

/-! ### the items of the list -/

/-- an item of the list: a term or a tight definition (text only), or a loose definition (paragraphs) -/
inductive DItem
  | txt (tag : String) (t : Str)
  | loose (z : Str) (texts : List Str)

def DItem.node : DItem → Node
  | .txt tag t => mkText tag t
  | .loose z ts => looseDd z ts

/-- after prettify -/
def DItem.fin : DItem → Node
  | .txt tag t => txtFin tag t
  | .loose z ts => ⟨.name "dd".toList, [], some ['\n'], false, (z :: ts).map pFin, some ['\n'], false⟩

def lDD1 : Str := "<dd>\n".toList
def lDD2 : Str := "</dd>\n".toList

def DItem.html : DItem → Str
  | .txt tag t => txtOut tag [t]
  | .loose z ts => lDD1 ++ psHtml (z :: ts) ++ lDD2

/-- plain text: non-empty, letters, digits, spaces, line feeds -/
def TextOK (t : Str) : Prop := t ≠ [] ∧ ∀ c ∈ t, c = '\n' ∨ DocSpec.isAlnumSp c = true

def DItem.ok : DItem → Prop
  | .txt tag t => (tag = "dt" ∨ tag = "dd") ∧ PlainFacts t
  | .loose z ts => PlainFacts z ∧ ∀ t ∈ ts, ∃ p : Para, ParaOK p ∧ t = pText p

def ddItems : Str → List Str → List Str → List DItem
  | d, [], texts => [if texts = [] then .txt "dd" d else .loose d texts]
  | d, e :: es, texts => .txt "dd" d :: ddItems e es texts

def groupItems (g : DGroup) : List DItem :=
  (g.t0 :: g.tr).map (.txt "dt") ++ ddItems g.d g.ds (g.conts.map pText)

theorem ddsOf_items : ∀ (ds : List Str) (d : Str) (texts : List Str),
    ddsOf d ds texts = (ddItems d ds texts).map DItem.node := by
  intro ds
  induction ds with
  | nil =>
    intro d texts
    simp only [ddsOf, ddItems, lastDd, List.map_cons, List.map_nil]
    split <;> rfl
  | cons e es ih => intro d texts; simp only [ddsOf, ddItems, List.map_cons, ih]; rfl

theorem groupKids_items (g : DGroup) : groupKids g = (groupItems g).map DItem.node := by
  simp only [groupKids, groupItems, List.map_append, List.map_map, ddsOf_items]
  rfl

theorem ddItems_ok : ∀ (ds : List Str) (d : Str) (cs : List Para), (∀ l ∈ d :: ds, PlainFacts l) → (∀ p ∈ cs, ParaOK p) →
    ∀ it ∈ ddItems d ds (cs.map pText), it.ok := by
  intro ds
  induction ds with
  | nil =>
    intro d cs hd hc it hit
    simp only [ddItems, List.mem_singleton] at hit
    subst hit
    split
    · exact ⟨Or.inr rfl, hd d List.mem_cons_self⟩
    · refine ⟨hd d List.mem_cons_self, ?_⟩
      intro t ht
      obtain ⟨p, hp, rfl⟩ := List.mem_map.1 ht
      exact ⟨p, hc p hp, rfl⟩
  | cons e es ih =>
    intro d cs hd hc it hit
    simp only [ddItems, List.mem_cons] at hit
    rcases hit with rfl | hit
    · exact ⟨Or.inr rfl, hd d List.mem_cons_self⟩
    · exact ih e cs (fun l hl => hd l (List.mem_cons_of_mem _ hl)) hc it hit

theorem groupItems_ok (g : DGroup) (hg : GroupOK g) : ∀ it ∈ groupItems g, it.ok := by
  intro it hit
  rcases List.mem_append.1 hit with h | h
  · obtain ⟨t, ht, rfl⟩ := List.mem_map.1 h
    exact ⟨Or.inl rfl, hg.terms t ht⟩
  · exact ddItems_ok g.ds g.d g.conts hg.defs hg.conts it h

theorem groupItems_head (g : DGroup) : ∃ r, groupItems g = .txt "dt" g.t0 :: r := ⟨_, rfl⟩

end MdVerif.RenderG
