/-
SECOND PORT, STRONGER TOKEN: this file is `Lemmas/C02FnPat.lean` in the namespace `MdVerif.TokH`, over the string invariant
of `Lemmas/C02FnHStr.lean`, in which a complete escape token `STX d₁…d_k ETX` must have a value below 0x110000 AND
DIFFERENT FROM 2 (`TokH.chrOk`), so that `UnescapeTreeprocessor.unescape` never writes an STX.  The one place where tokens
are created (the escape pattern, `findMatch_S` in `Lemmas/C02FnHPat.lean`) needs that STX is no escapable character:
`RefsS cfg` is the old statement together with `cfg.esc.contains Inline.STX = false`.  Header of the file copied:

PORT for `Props/C02Fn.lean` (footnotes): this file is `Lemmas/C02BigPat.lean` in the namespace `MdVerif.TokH`, over the
string invariant of `Lemmas/C02FnStr.lean`, in which an STX may be followed by `k`, `w`, **`q`, `z`** (`TokH.gl`: the two
tokens of the footnotes extension, `STX zz…qq ETX` and `STX qq…zz ETX`) or by a complete escape token.  The proofs are
those of the original up to the case splits on the letter.  Original header:

Lemmas for `Props/C02Big.lean` (the `err` answer is unreachable), part 2: the inline patterns.

Mirror of `Lemmas/AmpFullPat.lean` for the stronger invariant of `Lemmas/C02BigStr.lean`: every pattern cuts the data in
front of a delimiter of Markdown's syntax — never a digit, `k`, `w` or ETX, so never inside a token — and what it
returns (a string to stash, or an element with its texts, tails and attribute values) keeps the invariant: `SOk` for
texts, `SOkA` for attribute values (`getLink` may cut the data anywhere; the cut token stays at the end of the value).
No hypothesis on `ESCAPED_CHARS` is needed: the token of `\c` is `STX ord(c) ETX` and `ord(c) < 0x110000`.

Core Lean only.
-/
import MdVerif.Lemmas.C02FnHStr

namespace MdVerif.TokH
open Py Inline

/-- texts and tails are complete, attribute values complete up to truncation -/
def NodeS (n : Node) : Prop :=
  SOk (n.text.getD []) = true ∧ SOk (n.tail.getD []) = true ∧ ∀ kv ∈ n.attrs, SOkA kv.2 = true

def ItemS : StashItem → Prop
  | .str s => SOk s = true
  | .node n => n.Forall NodeS

def StashS (stash : List StashItem) : Prop := ∀ it ∈ stash, ItemS it

/-- the reference definitions (they come from the block parser: no STX at all) -/
def RefsS (cfg : Cfg) : Prop :=
  (∀ r ∈ cfg.refs, SOkA r.2.1 = true ∧ SOkA (r.2.2.getD []) = true) ∧ cfg.esc.contains Inline.STX = false

theorem stashS_nil : StashS [] := by intro it h; cases h

theorem stashS_push {stash : List StashItem} (h : StashS stash) {it : StashItem} (hit : ItemS it) :
    StashS (stash ++ [it]) := by
  intro x hx
  rcases List.mem_append.1 hx with hx | hx
  · exact h x hx
  · simp only [List.mem_singleton] at hx; subst hx; exact hit

/-! ### elements -/

theorem nodeS_mkEl (tag : String) : (mkEl tag).Forall NodeS := by
  rw [Node.forall_iff]
  refine ⟨⟨rfl, rfl, ?_⟩, ?_⟩
  · intro kv hkv; simp [mkEl] at hkv
  · intro c hc; simp [mkEl] at hc

theorem forallS_setAttr {n : Node} (h : n.Forall NodeS) (k : Str) {v : Str} (hv : SOkA v = true) :
    (n.setAttr k v).Forall NodeS := by
  rw [Node.forall_iff] at h ⊢
  obtain ⟨⟨h1, h2, h3⟩, hk⟩ := h
  rw [Vocab2.setAttr_children]
  refine ⟨⟨by rw [Vocab2.setAttr_text]; exact h1, by rw [Vocab2.setAttr_tail]; exact h2, ?_⟩, hk⟩
  intro kv hkv
  unfold Node.setAttr at hkv
  split at hkv
  · simp only [List.mem_map] at hkv
    obtain ⟨x, hx, rfl⟩ := hkv
    split
    · exact hv
    · exact h3 x hx
  · simp only [List.mem_append, List.mem_singleton] at hkv
    rcases hkv with hkv | rfl
    · exact h3 kv hkv
    · exact hv

theorem forallS_setText {n : Node} (h : n.Forall NodeS) {t : Str} (ht : SOk t = true) (a : Bool) :
    ({ n with text := some t, textAtomic := a } : Node).Forall NodeS := by
  rw [Node.forall_iff] at h ⊢
  exact ⟨⟨ht, h.1.2.1, h.1.2.2⟩, h.2⟩

theorem forallS_append {p el : Node} (hp : p.Forall NodeS) (he : el.Forall NodeS) : (p.append el).Forall NodeS := by
  rw [Node.forall_iff] at hp ⊢
  refine ⟨hp.1, ?_⟩
  intro c hc
  simp only [Node.append, List.mem_append, List.mem_singleton] at hc
  rcases hc with hc | rfl
  · exact hp.2 c hc
  · exact he

theorem forallS_setTextOrTail {p : Node} (hp : p.Forall NodeS) (hasLast : Bool) {text : Str}
    (ht : SOk text = true) : (setTextOrTail p hasLast text).Forall NodeS := by
  unfold setTextOrTail
  split
  · exact hp
  · split
    · split
      · rename_i l hl
        rw [Node.forall_iff] at hp ⊢
        refine ⟨hp.1, ?_⟩
        intro c hc
        simp only [Node.setLast, List.mem_append, List.mem_singleton] at hc
        rcases hc with hc | rfl
        · exact hp.2 c (List.dropLast_subset _ hc)
        · have hlm := hp.2 l (List.mem_of_mem_getLast? hl)
          rw [Node.forall_iff] at hlm ⊢
          exact ⟨⟨hlm.1.1, ht, hlm.1.2.2⟩, hlm.2⟩
      · exact hp
    · rw [Node.forall_iff] at hp ⊢
      exact ⟨⟨ht, hp.1.2.1, hp.1.2.2⟩, hp.2⟩

/-! ### `itertext`, `Pattern.unescape` -/

theorem sok_truthy_getD {t : Option Str} (h : SOk (t.getD []) = true) :
    SOk (if Node.truthy t then t.getD [] else []) = true := by
  split
  · exact h
  · rfl

mutual
theorem itertext_sok : (n : Node) → n.Forall NodeS → SOk (itertext n) = true
  | ⟨tag, attrs, text, ta, children, tail, tla⟩, h => by
    unfold Node.Forall at h
    have hk := itertextList_sok children h.2
    unfold itertext
    cases tag with
    | name s => exact SOk_append (sok_truthy_getD h.1.1) hk
    | none => exact SOk_append (sok_truthy_getD h.1.1) hk
    | comment => rfl
    | pi => rfl
    | qname s => rfl
theorem itertextList_sok : (l : List Node) → Node.ForallL NodeS l → SOk (itertextList l) = true
  | [], _ => rfl
  | c :: r, h => by
    unfold Node.ForallL at h
    unfold itertextList
    have hc := itertext_sok c h.1
    have hr := itertextList_sok r h.2
    have ht : SOk (if Node.truthy c.tail then c.tail.getD [] else []) = true := by
      have := (Node.forall_iff NodeS c).1 h.1
      exact sok_truthy_getD this.1.2.1
    exact SOk_append (SOk_append hc ht) hr
end

theorem phSub_cons_ne (lookup : Str → Option Str) {d : Char} (hd : d ≠ STX) (s : Str) :
    phSub lookup 0 (d :: s) = d :: phSub lookup 0 s := by
  rw [phSub]; simp [hd]

theorem phSub_noSTX_append (lookup : Str → Option Str) : ∀ (pre rest : Str), STX ∉ pre →
    phSub lookup 0 (pre ++ rest) = pre ++ phSub lookup 0 rest := by
  intro pre
  induction pre with
  | nil => intro rest _; rfl
  | cons c pre ih =>
    intro rest h
    have hc : c ≠ STX := fun e => h (by rw [e]; exact List.mem_cons_self)
    rw [List.cons_append, phSub_cons_ne lookup hc, ih rest (fun hm => h (List.mem_cons_of_mem _ hm))]
    rfl

theorem digits_noSTX {d : Str} (h : ∀ c ∈ d, isAsciiDigit c = true) : STX ∉ d := by
  intro hm
  have := h _ hm
  revert this; decide

theorem folA_phSub (lookup : Str → Option Str) {s : Str} (h : folA s = true) : folA (phSub lookup 0 s) = true := by
  cases s with
  | nil => rfl
  | cons d s =>
    rw [folA_cons] at h
    simp only [Bool.or_eq_true] at h
    rcases h with (h | h) | h
    · have hd : d ≠ STX := gl_ne_stx h
      rw [phSub_cons_ne lookup hd, folA_cons, h]; rfl
    · obtain ⟨ds, rest, e, h1, h2, h3⟩ := (tok_iff _).1 h
      have hno : STX ∉ ds ++ [ETX] := by
        intro hm
        rcases List.mem_append.1 hm with hm | hm
        · exact digits_noSTX h2 hm
        · revert hm; decide
      have e' : d :: s = (ds ++ [ETX]) ++ rest := by rw [e]; simp
      rw [e', phSub_noSTX_append lookup _ _ hno]
      apply fol_folA
      have : tok ((ds ++ [ETX]) ++ phSub lookup 0 rest) = true := by
        rw [tok_iff]
        exact ⟨ds, phSub lookup 0 rest, by simp, h1, h2, h3⟩
      cases hx : (ds ++ [ETX]) ++ phSub lookup 0 rest with
      | nil => rw [hx] at this; cases this
      | cons x y => rw [hx] at this; rw [fol_cons, this]; simp
    · have hno : STX ∉ d :: s := by
        rw [List.all_eq_true] at h
        exact digits_noSTX h
      have := phSub_noSTX_append lookup (d :: s) [] hno
      rw [List.append_nil] at this
      rw [this]
      have e : phSub lookup 0 [] = [] := by rw [phSub]
      rw [e, List.append_nil, folA_cons]
      simp only [Bool.or_eq_true]
      exact Or.inr h

/-- `INLINE_PLACEHOLDER_RE.sub` with complete replacements keeps a possibly truncated text in shape -/
theorem phSub_sokA (lookup : Str → Option Str) (hl : ∀ id r, lookup id = some r → SOk r = true) :
    ∀ (s : Str) (k : Nat), SOkA (s.drop k) = true → SOkA (phSub lookup k s) = true := by
  intro s
  induction s with
  | nil => intro k _; cases k <;> rfl
  | cons c s ih =>
    intro k h
    cases k with
    | succ k => rw [phSub]; exact ih k (by simpa using h)
    | zero =>
      simp only [List.drop_zero] at h
      rw [phSub]
      have hcopy : SOkA (c :: phSub lookup 0 s) = true := by
        rw [SOkA_cons] at h ⊢
        simp only [Bool.and_eq_true, Bool.or_eq_true] at h ⊢
        refine ⟨?_, ih 0 (by simpa using h.2)⟩
        rcases h.1 with h1 | h1
        · exact Or.inl h1
        · exact Or.inr (folA_phSub lookup h1)
      split
      · split
        · rename_i id l _
          have hrest : SOkA (phSub lookup (phPrefixLen + l - 1) s) = true :=
            ih _ (SOkA_drop (by rw [SOkA_cons, Bool.and_eq_true] at h; exact h.2) _)
          cases hlk : lookup id with
          | none => simpa using hrest
          | some r => simpa using SOkA_append (hl id r hlk) hrest
        · exact hcopy
      · exact hcopy

theorem stashGet_mem {stash : List StashItem} {id : Str} {it : StashItem} (h : stashGet stash id = some it) :
    it ∈ stash := Vocab2.stashGet_mem stash id it h

theorem unescape_sokA {stash : List StashItem} (hs : StashS stash) {x : Str} (hx : SOkA x = true) :
    SOkA (unescape stash x) = true := by
  unfold unescape
  refine phSub_sokA _ ?_ x 0 (by simpa using hx)
  intro id r h
  cases hg : stashGet stash id with
  | none => rw [hg] at h; cases h
  | some it =>
    rw [hg] at h
    have hit := hs it (stashGet_mem hg)
    cases it with
    | str s => simp only [Option.some.injEq] at h; subst h; exact hit
    | node n => simp only [Option.some.injEq] at h; subst h; exact itertext_sok n hit

/-! ### `getLink`: everything it returns is cut out of the data -/

theorem slice_infix (s : Str) (a b : Nat) : slice s a b <:+: s :=
  (List.drop_suffix a (s.take b)).isInfix.trans (List.take_prefix b s).isInfix

theorem pySlice_infix (s : Str) (a b : Int) : pySlice s a b <:+: s := slice_infix _ _ _

theorem infix_of_drop {a s : Str} {p : Nat} (h : a <:+: s.drop p) : a <:+: s :=
  h.trans (List.drop_suffix p s).isInfix

theorem linkAngle_infix {data : Str} {p : Nat} {g1 : Str} {g2 : Option Str} {e : Nat}
    (h : linkAngle data p = some (g1, g2, e)) :
    (g1.drop 1).dropLast <:+: data ∧ ∀ t, g2 = some t → (t.drop 1).dropLast <:+: data := by
  unfold linkAngle at h
  split at h
  · rename_i r hd
    simp only at h
    split at h
    · have hr : r <:+: data := by
        have : r <:+ data.drop p := by rw [hd]; exact List.suffix_cons _ _
        exact infix_of_drop this.isInfix
      have hg1 : ∀ a, (('<' :: List.take a r ++ ['>']).drop 1).dropLast <:+: data := by
        intro a
        simp only [List.cons_append, List.drop_succ_cons, List.drop_zero, List.dropLast_concat]
        exact (List.take_prefix a r).isInfix.trans hr
      split at h
      · rename_i qc r4 hq
        split at h
        · split at h
          · rename_i t ht
            split at h
            · simp only [Option.some.injEq, Prod.mk.injEq] at h
              obtain ⟨rfl, rfl, _⟩ := h
              refine ⟨hg1 _, ?_⟩
              intro t' ht'
              simp only [Option.some.injEq] at ht'; subst ht'
              simp only [List.cons_append, List.drop_succ_cons, List.drop_zero, List.dropLast_concat]
              have h4 : r4 <:+: r := by
                have : r4 <:+ (List.drop (spanLen (fun ch => ch != '<' && ch != '>') r + 1) r).drop
                    (spanLen isSpace (List.drop (spanLen (fun ch => ch != '<' && ch != '>') r + 1) r)) := by
                  rw [hq]; exact List.suffix_cons _ _
                exact infix_of_drop (infix_of_drop this.isInfix)
              exact (List.take_prefix t r4).isInfix.trans (h4.trans hr)
            · cases h
          · cases h
        · split at h
          · simp only [Option.some.injEq, Prod.mk.injEq] at h
            obtain ⟨rfl, rfl, _⟩ := h
            exact ⟨hg1 _, fun t ht => by cases ht⟩
          · cases h
      · cases h
    · cases h
  · cases h

theorem linkLoop_infix (data : Str) (p : Nat) : ∀ (suf : Str) (s s' : LinkSt) (href : Str) (title : Option Str),
    linkLoop data p suf s = (s', some (href, title)) →
    href <:+: data ∧ ∀ t, title = some t → t <:+: data := by
  intro suf
  induction suf with
  | nil => intro s s' href title h; simp [linkLoop] at h
  | cons c r ih =>
    intro s s' href title h
    simp only [linkLoop] at h
    split at h
    · simp only [Prod.mk.injEq, Option.some.injEq] at h
      obtain ⟨_, h2⟩ := h
      split at h2
      · simp only [Prod.mk.injEq] at h2
        obtain ⟨rfl, rfl⟩ := h2
        exact ⟨slice_infix _ _ _, fun t ht => by cases ht; exact slice_infix _ _ _⟩
      · split at h2
        · simp only [Prod.mk.injEq] at h2
          obtain ⟨rfl, rfl⟩ := h2
          exact ⟨slice_infix _ _ _, fun t ht => by cases ht; exact slice_infix _ _ _⟩
        · simp only [Prod.mk.injEq] at h2
          obtain ⟨rfl, rfl⟩ := h2
          exact ⟨slice_infix _ _ _, fun t ht => by cases ht⟩
    · exact ih _ _ _ _ h

theorem nil_infix (s : Str) : ([] : Str) <:+: s := ⟨[], s, rfl⟩

theorem getLinkRaw_infix (data : Str) (index : Nat) {href : Str} {title : Option Str} {idx : Int} {ok : Bool}
    (h : getLinkRaw data index = (href, title, idx, ok)) :
    href <:+: data ∧ ∀ t, title = some t → t <:+: data := by
  unfold getLinkRaw at h
  split at h
  · simp only [Prod.mk.injEq] at h
    obtain ⟨rfl, rfl, _⟩ := h
    exact ⟨nil_infix _, fun t ht => by cases ht⟩
  · simp only at h
    split at h
    · rename_i g1 g2 e ha
      simp only [Prod.mk.injEq] at h
      obtain ⟨rfl, rfl, _⟩ := h
      obtain ⟨a1, a2⟩ := linkAngle_infix ha
      refine ⟨(strip_infix _).trans a1, ?_⟩
      intro t ht
      cases g2 with
      | none => cases ht
      | some t0 => simp only [Option.map_some, Option.some.injEq] at ht; subst ht; exact a2 t0 rfl
    · -- the character loop
      generalize hL : linkLoop data (index + 1 + spanLen isSpace (List.drop (index + 1) data))
        (List.drop (index + 1 + spanLen isSpace (List.drop (index + 1) data)) data)
        { index := index + 1 + spanLen isSpace (List.drop (index + 1) data) } = L at h
      obtain ⟨s, res⟩ := L
      have hres : (res.getD ([], none)).1 <:+: data ∧ ∀ t, (res.getD ([], none)).2 = some t → t <:+: data := by
        cases res with
        | none => exact ⟨nil_infix _, fun t ht => by cases ht⟩
        | some x => obtain ⟨hr, tl⟩ := x; exact linkLoop_infix _ _ _ _ _ _ _ hL
      simp only at h
      split at h
      · split at h
        · simp only [Prod.mk.injEq] at h
          obtain ⟨rfl, rfl, _⟩ := h
          exact ⟨slice_infix _ _ _, hres.2⟩
        · simp only [Prod.mk.injEq] at h
          obtain ⟨rfl, rfl, _⟩ := h
          exact ⟨pySlice_infix _ _ _, hres.2⟩
      · simp only [Prod.mk.injEq] at h
        obtain ⟨rfl, rfl, _⟩ := h
        exact hres

theorem sokA_dequote {t : Str} (h : SOkA t = true) : SOkA (dequote t) = true := by
  unfold dequote
  split
  · exact SOkA_dropLast (SOkA_drop h 1)
  · exact h

theorem sokA_blankmap {t : Str} (h : SOkA t = true) :
    SOkA (t.map (fun ch => if isSpace ch then ' ' else ch)) = true := by
  refine SOkA_map (by decide) ?_ ?_ h
  · intro c hc
    have : isSpace c = false := by
      cases hs : isSpace c with
      | false => rfl
      | true => rw [cutOk_space hs] at hc; cases hc
    simp [this]
  · intro c hc
    split
    · decide
    · exact hc

/-- `getLink`: destination and title keep the invariant of attribute values, wherever the data was cut -/
theorem getLink_sokA {stash : List StashItem} (hs : StashS stash) {data : Str} (hd : SOk data = true) (index : Nat)
    {href : Str} {title : Option Str} {idx : Int} {ok : Bool}
    (h : getLink (unescape stash) data index = (href, title, idx, ok)) :
    SOkA href = true ∧ ∀ t, title = some t → SOkA t = true := by
  unfold getLink at h
  generalize hr : getLinkRaw data index = R at h
  obtain ⟨href0, title0, idx0, ok0⟩ := R
  obtain ⟨i1, i2⟩ := getLinkRaw_infix data index hr
  simp only [Prod.mk.injEq] at h
  obtain ⟨rfl, rfl, _⟩ := h
  have hA := SOkA_of_SOk hd
  refine ⟨SOkA_strip (unescape_sokA hs (SOkA_infix hA i1)), ?_⟩
  intro t ht
  cases title0 with
  | none => cases ht
  | some t0 =>
    simp only [Option.map_some, Option.some.injEq] at ht
    subst ht
    exact sokA_blankmap (sokA_dequote (unescape_sokA hs (SOkA_strip (SOkA_infix hA (i2 t0 rfl)))))

/-! ### the link, reference and image patterns -/

theorem cutOk_of_eq {c d : Char} (h : c = d) (hd : cutOk d = true) : cutOk c = true := h ▸ hd

theorem getText_sok {data : Str} (hd : SOk data = true) (mend : Nat) (h : (getText data mend).2.2 = true) :
    SOk (getText data mend).1 = true := by
  have e : getText data mend = ((getText data mend).1, (getText data mend).2.1, true) := by
    rw [← h]
  obtain ⟨rest, h1, _⟩ := NoCtl.getText_spec e
  have := SOk_drop hd mend
  rw [h1] at this
  exact SOk_left this (fun c hc => by simp only [List.head?_cons, Option.some.injEq] at hc; subst hc; decide)

theorem linkHandle_S {cfg : Cfg} {stash : List StashItem} (hs : StashS stash) (hrefs : RefsS cfg) {data : Str}
    (hd : SOk data = true) (pi mstart mend : Nat) {f : Found}
    (h : linkHandle cfg stash pi data mstart mend = some f) :
    f.start = mstart ∧ match f.node with
      | .none => True
      | .str s => SOk s = true
      | .el n => n.Forall NodeS := by
  unfold linkHandle at h
  simp only [] at h
  split at h
  · cases h
  · rename_i hh
    have hT : SOk (getText data mend).1 = true := getText_sok hd mend (by simpa using hh)
    have hTA : SOkA (unescape stash (getText data mend).1) = true := unescape_sokA hs (SOkA_of_SOk hT)
    have himg := nodeS_mkEl "img"
    have ha := nodeS_mkEl "a"
    split at h
    · split at h
      · cases h
      · obtain ⟨g1, g2⟩ := getLink_sokA hs hd (getText data mend).2.1 (href := (getLink (unescape stash) data (getText data mend).2.1).1)
          (title := (getLink (unescape stash) data (getText data mend).2.1).2.1) rfl
        simp only [Option.some.injEq] at h
        subst h
        refine ⟨rfl, ?_⟩
        simp only
        split
        · apply forallS_setAttr _ _ hTA
          split
          · rename_i t ht
            exact forallS_setAttr (forallS_setAttr himg _ g1) _ (g2 t ht)
          · exact forallS_setAttr himg _ g1
        · split
          · rename_i t ht
            exact forallS_setAttr (forallS_setAttr (forallS_setText ha hT _) _ g1) _ (g2 t ht)
          · exact forallS_setAttr (forallS_setText ha hT _) _ g1
    · split at h
      · cases h
      · split at h
        · simp only [Option.some.injEq] at h; subst h; exact ⟨rfl, trivial⟩
        · rename_i k href title hfind
          have hmem := List.mem_of_find?_eq_some hfind
          obtain ⟨r1, r2⟩ := hrefs.1 _ hmem
          simp only [Option.some.injEq] at h; subst h
          refine ⟨rfl, ?_⟩
          simp only
          split
          · apply forallS_setAttr _ _ hTA
            split
            · exact forallS_setAttr (forallS_setAttr himg _ r1) _ r2
            · exact forallS_setAttr himg _ r1
          · have he : (if Node.truthy title = true then
                ((mkEl "a").setAttr "href".toList href).setAttr "title".toList (title.getD [])
                else (mkEl "a").setAttr "href".toList href).Forall NodeS := by
              split
              · exact forallS_setAttr (forallS_setAttr ha _ r1) _ r2
              · exact forallS_setAttr ha _ r1
            exact forallS_setText he hT _

/-- what one match must satisfy: it starts at a character that continues no STX, and what it returns is in shape -/
def FoundS (data : Str) (f : Found) : Prop :=
  (∀ c, data[f.start]? = some c → cutOk c = true) ∧
  match f.node with
  | .none => True
  | .str s => SOk s = true
  | .el n => n.Forall NodeS

theorem getElem?_of_drop {data : Str} {i : Nat} {ch : Char} {r : Str} (h : data.drop i = ch :: r) :
    data[i]? = some ch ∧ data.drop (i + 1) = r := by
  constructor
  · have := List.getElem?_drop (xs := data) (i := i) (j := 0)
    rw [h] at this
    simpa using this.symm
  · rw [← List.drop_drop, h]; rfl

theorem linkScan_S {cfg : Cfg} {stash : List StashItem} (hs : StashS stash) (hrefs : RefsS cfg) {data : Str}
    (hd : SOk data = true) (pi : Nat) :
    ∀ (suf : Str) (prev : Option Char) (i : Nat) (f : Found), data.drop i = suf →
      linkScan cfg stash pi data prev suf i = some f → FoundS data f := by
  intro suf
  induction suf with
  | nil => intro prev i f _ h; simp [linkScan] at h
  | cons ch r ih =>
    intro prev i f hdrop h
    obtain ⟨hget, hnext⟩ := getElem?_of_drop hdrop
    rw [NoCtl.linkScan_cons] at h
    split at h
    · rename_i f' hf'
      simp only [Option.some.injEq] at h; subst h
      split at hf'
      · split at hf'
        · rename_i hc
          obtain ⟨e1, e2⟩ := linkHandle_S hs hrefs hd _ _ _ hf'
          refine ⟨?_, e2⟩
          rw [e1, hget]
          intro c hc'
          simp only [Option.some.injEq] at hc'; subst hc'
          simp only [Bool.and_eq_true, decide_eq_true_eq] at hc
          rw [hc.1]; decide
        · cases hf'
      · split at hf'
        · rename_i hc
          obtain ⟨e1, e2⟩ := linkHandle_S hs hrefs hd _ _ _ hf'
          refine ⟨?_, e2⟩
          rw [e1, hget]
          intro c hc'
          simp only [Option.some.injEq] at hc'; subst hc'
          simp only [Bool.and_eq_true, decide_eq_true_eq] at hc
          rw [hc.1]; decide
        · cases hf'
    · exact ih _ _ _ hnext h

/-! ### the emphasis patterns -/

theorem seqDecomp_sok {c : Char} (hc : cutOk c = true) : ∀ {st : List Step} {suf : Str} {gs : List Str} {rest : Str},
    SOk suf = true → NoCtl.SeqDecomp c st suf gs rest → NoCtl.GoodSteps st = true → ∀ g ∈ gs, SOk g = true := by
  intro st
  induction st with
  | nil =>
    intro suf gs rest _ hd _
    obtain ⟨rfl, rfl⟩ := hd
    simp
  | cons s st ih =>
    intro suf gs rest hw hd hg
    cases s with
    | lit m =>
      obtain ⟨hm, suf', rfl, hd'⟩ := hd
      exact ih (SOk_right hw) hd' (by simpa [NoCtl.GoodSteps] using hg)
    | notnext => exact ih hw hd (by simpa [NoCtl.GoodSteps] using hg)
    | nbW => exact ih hw hd (by simpa [NoCtl.GoodSteps] using hg)
    | nbC => exact ih hw hd (by simpa [NoCtl.GoodSteps] using hg)
    | naW => exact ih hw hd (by simpa [NoCtl.GoodSteps] using hg)
    | lazy a b =>
      obtain ⟨g, gs', suf', rfl, rfl, hd'⟩ := hd
      simp only [NoCtl.GoodSteps, Bool.and_eq_true] at hg
      obtain ⟨t, rfl⟩ := NoCtl.seqDecomp_head hd' hg.1
      have w1 : SOk g = true := SOk_left hw (fun x hx => by
        simp only [List.head?_cons, Option.some.injEq] at hx; subst hx; exact hc)
      have r1 := ih (SOk_right hw) hd' hg.2
      intro x hx
      rcases List.mem_cons.1 hx with rfl | hx
      · exact w1
      · exact r1 x hx
    | greedy a =>
      obtain ⟨g, gs', suf', rfl, rfl, hd'⟩ := hd
      simp only [NoCtl.GoodSteps, Bool.and_eq_true] at hg
      obtain ⟨t, rfl⟩ := NoCtl.seqDecomp_head hd' hg.1
      have w1 : SOk g = true := SOk_left hw (fun x hx => by
        simp only [List.head?_cons, Option.some.injEq] at hx; subst hx; exact hc)
      have r1 := ih (SOk_right hw) hd' hg.2
      intro x hx
      rcases List.mem_cons.1 hx with rfl | hx
      · exact w1
      · exact r1 x hx

/-- a successful `pattern.match(data, pos)`: the match starts with the delimiter, the groups are in shape -/
theorem seqMatch_sok {c : Char} (hc : cutOk c = true) {steps : List Step}
    (hs1 : NoCtl.nextIsLit steps = true) (hs2 : NoCtl.GoodSteps steps = true) {data : Str} (hd : SOk data = true)
    {pos e : Nat} {groups : List Str} (h : seqMatch data pos c steps = some (e, groups)) :
    (∃ t, data.drop pos = c :: t) ∧ ∀ g ∈ groups, SOk g = true := by
  unfold seqMatch at h
  split at h
  · cases h
  · obtain ⟨gs', rest, h1, h2, _⟩ := NoCtl.seqGo_spec c _ _ _ _ _ _ _ h
    simp only [List.reverse_nil, List.nil_append] at h1
    subst h1
    exact ⟨NoCtl.seqDecomp_head h2 hs1, seqDecomp_sok hc (SOk_drop hd pos) h2 hs2⟩

def BuildS (b : List Str → EmItem → Nat → Option Node) : Prop :=
  ∀ (groups : List Str) (item : EmItem) (idx : Nat) (el : Node), (∀ g ∈ groups, SOk g = true) →
    b groups item idx = some el → el.Forall NodeS

theorem subTry_S {c : Char} (hc : cutOk c = true) {b : List Str → EmItem → Nat → Option Node} (hb : BuildS b)
    {data : Str} (hd : SOk data = true) (idx : Nat) :
    ∀ (items : List EmItem) (index : Nat) (s s' : SubSt), (∀ item ∈ items, NoCtl.ItemGood item) →
      s.parent.Forall NodeS → subTry b data c idx items index s = some s' → s'.parent.Forall NodeS := by
  intro items
  induction items with
  | nil =>
    intro index s s' _ hs h
    simp only [subTry, Option.some.injEq] at h
    subst h; exact hs
  | cons item rest ih =>
    intro index s s' hgood hs h
    have hrest : ∀ it ∈ rest, NoCtl.ItemGood it := fun it hit => hgood it (by simp [hit])
    simp only [subTry] at h
    split at h
    · exact ih _ _ _ hrest hs h
    · cases hm : seqMatch data s.pos c item.steps with
      | none => simp only [hm] at h; exact ih _ _ _ hrest hs h
      | some r =>
        obtain ⟨e, groups⟩ := r
        simp only [hm] at h
        cases hbd : b groups item index with
        | none => simp [hbd] at h
        | some el =>
          simp only [hbd] at h
          have hig := hgood item (by simp)
          obtain ⟨⟨t, m3⟩, m4⟩ := seqMatch_sok hc hig.1 hig.2.1 hd hm
          have hel := hb groups item index el m4 hbd
          refine ih _ _ _ hrest ?_ h
          refine forallS_append (forallS_setTextOrTail hs _ ?_) hel
          refine SOk_slice hd _ _ ?_
          intro x hx
          have := (getElem?_of_drop m3).1
          rw [this] at hx
          simp only [Option.some.injEq] at hx; subst hx; exact hc

theorem subLoop_S {c : Char} (hc : cutOk c = true) {b : List Str → EmItem → Nat → Option Node} (hb : BuildS b)
    {data : Str} (hd : SOk data = true) (idx : Nat) :
    ∀ (g : Nat) (s s' : SubSt), s.parent.Forall NodeS → subLoop b data c idx g s = some s' →
      s'.parent.Forall NodeS := by
  intro g
  induction g with
  | zero => intro s s' _ h; simp [subLoop] at h
  | succ g ih =>
    intro s s' hs h
    simp only [subLoop] at h
    split at h
    · split at h
      · cases ht : subTry b data c idx (emPatterns c) 0 { s with matched := false } with
        | none => simp [ht] at h
        | some s1 =>
          simp only [ht] at h
          have hs1 := subTry_S hc hb hd idx (emPatterns c) 0 { s with matched := false } s1 (NoCtl.emPatterns_good c) hs ht
          refine ih _ _ ?_ h
          split
          · exact hs1
          · exact hs1
      · exact ih { s with pos := s.pos + 1 } _ hs h
    · simp only [Option.some.injEq] at h
      subst h; exact hs

theorem parseSub_S {c : Char} (hc : cutOk c = true) {b : List Str → EmItem → Nat → Option Node} (hb : BuildS b)
    {data : Str} (hd : SOk data = true) {parent : Node} (hp : parent.Forall NodeS)
    (hasLast : Bool) (idx : Nat) {el : Node} (h : parseSub b data parent hasLast idx c = some el) :
    el.Forall NodeS := by
  unfold parseSub at h
  cases hl : subLoop b data c idx (data.length + 1) ⟨0, 0, parent, hasLast, false⟩ with
  | none => simp [hl] at h
  | some s =>
    simp only [hl, Option.some.injEq] at h
    subst h
    have := subLoop_S hc hb hd idx _ _ _ hp hl
    exact forallS_setTextOrTail this _ (SOk_drop hd _)

theorem build_S {c : Char} (hc : cutOk c = true) : ∀ f, BuildS (build c f) := by
  intro f
  induction f with
  | zero => intro groups item idx el _ h; simp [build] at h
  | succ f ih =>
    intro groups item idx el hg h
    have hg0 : SOk (groups.headD []) = true := by
      cases groups with
      | nil => rfl
      | cons g r => exact hg g (by simp)
    have hsub : ∀ (d : Str) (p : Node) (hl : Bool) (r : Node), SOk d = true → p.Forall NodeS →
        parseSub (fun g i j => build c f g i j) d p hl idx c = some r → r.Forall NodeS :=
      fun d p hl r hd hp hr => parseSub_S hc ih hd hp hl idx hr
    have t1 := nodeS_mkEl item.tag1
    have t2 := nodeS_mkEl item.tag2
    simp only [build] at h
    split at h
    · exact hsub _ _ _ _ hg0 t1 h
    · split at h
      · cases h
      · rename_i el2 h2
        have hel2 := hsub _ _ _ _ hg0 t2 h2
        have hel1 := forallS_append t1 hel2
        split at h
        · rename_i x g1
          exact hsub _ _ _ _ (hg g1 (by simp)) hel1 h
        · simp only [Option.some.injEq] at h
          subst h; exact hel1
    · split at h
      · rename_i el1 el2 h1 h2
        simp only [Option.some.injEq] at h
        subst h
        have hg1 : SOk (groups.getD 1 []) = true := by
          cases hx : groups[1]? with
          | none => simp [List.getD, hx]; rfl
          | some g => simp [List.getD, hx]; exact hg g (List.mem_of_getElem? hx)
        exact forallS_append (hsub _ _ _ _ hg0 t1 h1) (hsub _ _ _ _ hg1 t2 h2)
      · cases h

theorem emHandle_S {c : Char} (hc : cutOk c = true) {data : Str} (hd : SOk data = true) (i : Nat) :
    ∀ (items : List EmItem) (idx : Nat) (el : Node) (e : Nat), (∀ item ∈ items, NoCtl.ItemGood item) →
      emHandle data i c items idx = some (some (el, e)) → el.Forall NodeS := by
  intro items
  induction items with
  | nil => intro idx el e _ h; simp [emHandle] at h
  | cons item rest ih =>
    intro idx el e hgood h
    simp only [emHandle] at h
    cases hm : seqMatch data i c item.steps with
    | none => simp only [hm] at h; exact ih _ _ _ (fun it hit => hgood it (by simp [hit])) h
    | some r =>
      obtain ⟨e', groups⟩ := r
      simp only [hm] at h
      cases hb : build c (data.length + 2) groups item idx with
      | none => simp [hb] at h
      | some el' =>
        simp only [hb, Option.some.injEq, Prod.mk.injEq] at h
        obtain ⟨rfl, rfl⟩ := h
        have hig := hgood item (by simp)
        obtain ⟨_, m4⟩ := seqMatch_sok hc hig.1 hig.2.1 hd hm
        exact build_S hc _ groups item idx el' m4 hb

theorem emScan_S {c : Char} (hc : cutOk c = true) {data : Str} (hd : SOk data = true) :
    ∀ (suf : Str) (i : Nat) (el : Node) (s e : Nat), data.drop i = suf →
      emScan data c suf i = some (some (el, s, e)) → FoundS data ⟨.el el, s, e⟩ := by
  intro suf
  induction suf with
  | nil => intro i el s e _ h; simp [emScan] at h
  | cons ch r ih =>
    intro i el s e hdrop h
    obtain ⟨hget, hnext⟩ := getElem?_of_drop hdrop
    simp only [emScan] at h
    split at h
    · rename_i hch
      cases hh : emHandle data i c (emPatterns c) 0 with
      | none => simp [hh] at h
      | some x =>
        cases x with
        | none => simp only [hh] at h; exact ih _ _ _ _ hnext h
        | some p =>
          obtain ⟨el', e'⟩ := p
          simp only [hh, Option.some.injEq, Prod.mk.injEq] at h
          obtain ⟨rfl, rfl, rfl⟩ := h
          refine ⟨?_, emHandle_S hc hd i _ _ _ _ (NoCtl.emPatterns_good c) hh⟩
          intro x hx
          simp only at hx
          rw [hget] at hx
          simp only [Option.some.injEq] at hx; subst hx; rw [hch]; exact hc
    · exact ih _ _ _ _ hnext h


/-! ### the backtick pattern -/

theorem btAt_S {prev : Option Char} {suf : Str} {i : Nat} {r : BtMatch} (hs : SOk suf = true)
    (h : btAt prev suf i = some r) :
    r.start = i ∧ (∃ ch t, suf = ch :: t ∧ cutOk ch = true) ∧
      (match r.kind with | .code => SOk r.group = true | .bs => STX ∉ r.group) := by
  unfold btAt at h
  split at h
  · cases h
  · simp only at h
    split at h
    · rename_i hc
      simp only [Option.some.injEq] at h; subst h
      simp only [Bool.and_eq_true, decide_eq_true_eq, beq_iff_eq, ge_iff_le] at hc
      have hp := countPrefix_prefix '\\' none suf
      refine ⟨rfl, ?_, ?_⟩
      · cases suf with
        | nil => simp at hc
        | cons ch t =>
          refine ⟨ch, t, rfl, ?_⟩
          have h2 : 2 ≤ countPrefix '\\' none (ch :: t) := hc.1.1
          have : (ch :: t).take (countPrefix '\\' none (ch :: t)) = ch :: t.take (countPrefix '\\' none (ch :: t) - 1) := by
            have e : countPrefix '\\' none (ch :: t) = (countPrefix '\\' none (ch :: t) - 1) + 1 := by omega
            conv => lhs; rw [e, List.take_succ_cons]
          rw [this] at hp
          have e : countPrefix '\\' none (ch :: t) = (countPrefix '\\' none (ch :: t) - 1) + 1 := by omega
          rw [e, List.replicate_succ] at hp
          simp only [List.cons.injEq] at hp
          rw [hp.1]; decide
      · simp only
        rw [hp]
        intro hm
        have := (List.mem_replicate.1 hm).2
        revert this; decide
    · split at h
      · rename_i x _
        split at h
        · rename_i m L hb
          simp only [Option.some.injEq] at h; subst h
          obtain ⟨G, rest, e1, e2, _, _, e5⟩ := NoCtl.btCode_decomp hb
          refine ⟨rfl, ⟨'`', x, rfl, by decide⟩, ?_⟩
          simp only
          rw [e5]
          rw [e1, List.append_assoc, List.append_assoc] at hs
          have h1 := SOk_right hs
          refine SOk_left h1 ?_
          intro c hc
          have : m = (m - 1) + 1 := by omega
          rw [this, List.replicate_succ] at hc
          simp only [List.cons_append, List.head?_cons, Option.some.injEq] at hc
          subst hc; decide
        · cases h
      · cases h

theorem btScan_S {data : Str} (hd : SOk data = true) :
    ∀ (suf : Str) (prev : Option Char) (i : Nat) (r : BtMatch), data.drop i = suf → btScan prev suf i = some r →
      (∀ c, data[r.start]? = some c → cutOk c = true) ∧
      (match r.kind with | .code => SOk r.group = true | .bs => STX ∉ r.group) := by
  intro suf
  induction suf with
  | nil =>
    intro prev i r hdrop h
    unfold btScan at h
    split at h
    · rename_i r' hr'
      simp only [Option.some.injEq] at h; subst h
      obtain ⟨_, ⟨ch, t, e, _⟩, _⟩ := btAt_S (by rfl) hr'
      cases e
    · cases h
  | cons c s ih =>
    intro prev i r hdrop h
    unfold btScan at h
    split at h
    · rename_i r' hr'
      simp only [Option.some.injEq] at h; subst h
      obtain ⟨e1, ⟨ch, t, e, hcut⟩, e3⟩ := btAt_S (by rw [← hdrop]; exact SOk_drop hd i) hr'
      refine ⟨?_, e3⟩
      rw [e1, (getElem?_of_drop hdrop).1]
      intro x hx
      simp only [Option.some.injEq] at hx; subst hx
      simp only [List.cons.injEq] at e
      rw [e.1]; exact hcut
    · exact ih _ _ _ (getElem?_of_drop hdrop).2 h

/-! ### the escape token -/

theorem digitChar_digit (n : Nat) : isAsciiDigit (digitChar n) = true := by
  have : n % 10 < 10 := Nat.mod_lt _ (by omega)
  unfold digitChar
  generalize n % 10 = m at this
  have : m = 0 ∨ m = 1 ∨ m = 2 ∨ m = 3 ∨ m = 4 ∨ m = 5 ∨ m = 6 ∨ m = 7 ∨ m = 8 ∨ m = 9 := by omega
  rcases this with rfl | rfl | rfl | rfl | rfl | rfl | rfl | rfl | rfl | rfl <;> decide

theorem char_toNat_lt (ch : Char) : ch.toNat < chrBound := by
  have := ch.valid
  unfold UInt32.isValidChar Nat.isValidChar at this
  show ch.val.toNat < 0x110000
  omega

/-- the escape token of a code that `chr()` accepts -/
theorem SOk_escToken {n : Nat} (hn : n < chrBound) (hn2 : n ≠ 2) : SOk (STX :: natToDec n ++ [ETX]) = true := by
  have hdig := natToDec_digits n
  have hno : STX ∉ natToDec n ++ [ETX] := by
    intro hm
    rcases List.mem_append.1 hm with hm | hm
    · exact digits_noSTX hdig hm
    · revert hm; decide
  rw [List.cons_append, SOk_cons, SOk_of_noSTX hno, Bool.and_true]
  have ht : tok (natToDec n ++ [ETX]) = true := by
    rw [tok_iff]
    exact ⟨natToDec n, [], rfl, natToDec_ne_nil n, hdig, by rw [decToNat_natToDec]; exact chrOk_iff.2 ⟨hn, hn2⟩⟩
  cases hx : natToDec n ++ [ETX] with
  | nil => rw [hx] at ht; cases ht
  | cons x y => rw [hx] at ht; rw [fol_cons, ht]; simp

/-! ### `findMatch` -/

theorem htmlPh_sok (k : Nat) : SOk (htmlPrefix ++ natToDec k ++ [ETX]) = true := by
  have : htmlPrefix ++ natToDec k ++ [ETX] = STX :: 'w' :: ("zxhzdk:".toList ++ natToDec k ++ [ETX]) := by
    simp [htmlPrefix]
  rw [this]
  refine SOk_stx_letter (Or.inr rfl) ?_
  intro hm
  rcases List.mem_append.1 hm with hm | hm
  · rcases List.mem_append.1 hm with hm | hm
    · revert hm; decide
    · have := natToDec_digits k _ hm
      revert this; decide
  · revert hm; decide

theorem getElem?_at_pre {data pre rest : Str} {si : Nat} (h : data.drop si = pre ++ rest) :
    data[si + pre.length]? = rest.head? := by
  have := List.getElem?_drop (xs := data) (i := si) (j := pre.length)
  rw [h] at this
  rw [← this, List.getElem?_append_right (Nat.le_refl _), Nat.sub_self, List.head?_eq_getElem?]

/-- **every pattern**: the match starts in front of a character that continues no STX, what is returned keeps the
    invariant, the node stash is not touched -/
theorem findMatch_S {cfg : Cfg} (hrefs : RefsS cfg) {pi : Nat} {data : Str}
    (hd : SOk data = true) {si : Nat} {st st' : St} (hs : StashS st.stash) {f : Found}
    (h : findMatch cfg pi data si st = some (some f, st')) : FoundS data f := by
  unfold findMatch at h
  simp only [] at h
  split at h
  · cases h
  · rename_i hsi
    have hsi' : si ≤ data.length := by omega
    split at h
    · -- 0 backtick
      split at h
      · rename_i m hm
        unfold btFind at hm
        rw [if_neg hsi] at hm
        obtain ⟨b1, b2⟩ := btScan_S hd _ _ _ _ rfl hm
        split at h
        · rename_i hk
          simp only [Option.some.injEq, Prod.mk.injEq] at h
          obtain ⟨h1, _⟩ := h; subst h1
          rw [hk] at b2
          exact ⟨b1, forallS_setText (nodeS_mkEl "code") (SOk_codeEscape (SOk_strip b2)) _⟩
        · rename_i hk
          simp only [Option.some.injEq, Prod.mk.injEq] at h
          obtain ⟨h1, _⟩ := h; subst h1
          rw [hk] at b2
          exact ⟨b1, SOk_replace b2 (by decide)⟩
      · cases h
    · -- 1 escape
      split at h
      · rename_i i ch hsc
        simp only [Option.some.injEq, Prod.mk.injEq] at h
        obtain ⟨h1, _⟩ := h; subst h1
        obtain ⟨pre, post, e1, e2⟩ := NoCtl.escScan_spec _ _ _ _ hsc
        refine ⟨?_, ?_⟩
        · simp only
          rw [e2, getElem?_at_pre (rest := ['\\', ch] ++ post) (by rw [e1]; simp)]
          intro c hc
          simp only [List.cons_append, List.head?_cons, Option.some.injEq] at hc; subst hc; decide
        · simp only
          by_cases hmem : cfg.esc.contains ch = true
          · rw [if_pos hmem]
            have hch : ch ≠ Inline.STX := by
              rintro rfl
              rw [hrefs.2] at hmem; cases hmem
            refine SOk_escToken (char_toNat_lt ch) ?_
            intro h2
            exact hch (Char.toNat_inj.1 (by rw [h2]; rfl))
          · rw [if_neg hmem]; trivial
      · cases h
    · -- 10 linebreak
      split at h
      · rename_i off hfind
        simp only [Option.some.injEq, Prod.mk.injEq] at h
        obtain ⟨h1, _⟩ := h; subst h1
        obtain ⟨pre, post, e1, e2, _⟩ := find_some_iff.1 hfind
        refine ⟨?_, nodeS_mkEl "br"⟩
        simp only
        rw [← e2, getElem?_at_pre (rest := [' ', ' ', '\n'] ++ post) (by rw [e1]; simp)]
        intro c hc
        simp only [List.cons_append, List.head?_cons, Option.some.injEq] at hc; subst hc; decide
      · cases h
    · -- 12 entity
      split at h
      · rename_i s e hf
        simp only [Option.some.injEq, Prod.mk.injEq] at h
        obtain ⟨h1, _⟩ := h; subst h1
        unfold entityFind at hf
        rw [if_neg hsi] at hf
        obtain ⟨k, r, n, rfl, hdk, _, _⟩ := Vocab2.entityScan_spec hf
        refine ⟨?_, htmlPh_sok _⟩
        simp only
        have : data.drop si = (data.drop si).take k ++ ('&' :: r) := by
          rw [← hdk, List.take_append_drop]
        have hlen : ((data.drop si).take k).length = k := by
          rw [List.length_take]
          apply Nat.min_eq_left
          have := congrArg List.length hdk
          simp only [List.length_drop, List.length_cons] at this ⊢
          omega
        have := getElem?_at_pre this
        rw [hlen] at this
        rw [this]
        intro c hc
        simp only [List.head?_cons, Option.some.injEq] at hc; subst hc; decide
      · cases h
    · -- 13 not_strong
      split at h
      · rename_i s e hf
        simp only [Option.some.injEq, Prod.mk.injEq] at h
        obtain ⟨h1, _⟩ := h; subst h1
        unfold nsFind at hf
        rw [if_neg hsi] at hf
        obtain ⟨pre, M, post, e1, e2, e3, e4, e5⟩ := NoCtl.nsScan_spec _ _ _ _ _ hf
        obtain ⟨_, _, q3, _⟩ := NoCtl.span_of_suffix e1 e4
        refine ⟨?_, ?_⟩
        · simp only
          rw [e2, getElem?_at_pre (rest := M ++ post) (by rw [e1]; simp)]
          intro c hc
          cases M with
          | nil => exact absurd rfl e4
          | cons x M' =>
            simp only [List.cons_append, List.head?_cons, Option.some.injEq] at hc; subst hc
            rcases e5 x (by simp) with rfl | rfl <;> decide
        · simp only
          rw [e3, e2, q3]
          apply SOk_of_noSTX
          intro hm
          rcases e5 _ hm with h' | h' <;> revert h' <;> decide
      · cases h
    · -- 14
      split at h
      · cases h
      · cases h
      · rename_i el s e hscan
        simp only [Option.some.injEq, Prod.mk.injEq] at h
        obtain ⟨h1, _⟩ := h; subst h1
        exact emScan_S (by simp; decide) hd _ _ _ _ _ rfl hscan
    · -- 15
      split at h
      · cases h
      · cases h
      · rename_i el s e hscan
        simp only [Option.some.injEq, Prod.mk.injEq] at h
        obtain ⟨h1, _⟩ := h; subst h1
        exact emScan_S (by simp; decide) hd _ _ _ _ _ rfl hscan
    · cases h
    · cases h
    · cases h
    · split at h
      · simp only [Option.some.injEq, Prod.mk.injEq] at h
        obtain ⟨h1, _⟩ := h
        exact linkScan_S hs hrefs hd _ _ _ _ _ rfl h1
      · cases h


end MdVerif.TokH
