/-
"No STX in, no STX out" for the string functions that the model of the toc extension applies to the name of a
heading (`TocTree.heading`): `unescapeText`, `strip`, the postprocessors (`postX`), `stripTags`, `htmlUnescape`,
`slugify`, `Toc.unique`, `escCdata`.  Core Lean only.
-/
import MdVerif.Model.PipelineX
import MdVerif.Lemmas.PyBasic
import MdVerif.Lemmas.TocTreeDoc

namespace MdVerif.C02Toc
open MdVerif.Py

/-- the one `STX` character of all the models -/
abbrev STX : Char := TreeProc.STX

theorem stx_post : Post.STX = TreeProc.STX := rfl
theorem stx_inline : Inline.STX = TreeProc.STX := rfl
theorem stx_fn : FootnotesTree.STX = TreeProc.STX := rfl

/-! ### 1. `unescapeText` -/

theorem unescapeText_noSTX {s : Str} (h : TreeProc.STX ∉ s) : TreeProc.unescapeText 0 s = some s :=
  TocTreeDoc.unesc_of_no_stx s h

/-! ### 3. `strip`, `take`, `drop` -/

theorem strip_noSTX {s : Str} (h : TreeProc.STX ∉ s) : TreeProc.STX ∉ strip s :=
  fun hm => h ((strip_infix s).subset hm)

theorem take_noSTX (n : Nat) {s : Str} (h : TreeProc.STX ∉ s) : TreeProc.STX ∉ s.take n :=
  fun hm => h (List.mem_of_mem_take hm)

theorem drop_noSTX (n : Nat) {s : Str} (h : TreeProc.STX ∉ s) : TreeProc.STX ∉ s.drop n :=
  fun hm => h (List.mem_of_mem_drop hm)

/-! ### 2. `stripTags` -/

theorem cutSpans_mem (o cl : Str) : ∀ (f : Nat) (t : Str) (c : Char), c ∈ TocTree.cutSpans o cl f t → c ∈ t := by
  intro f
  induction f with
  | zero => intro t c h; exact h
  | succ f ih =>
    intro t c h
    simp only [TocTree.cutSpans] at h
    split at h
    · exact h
    · split at h
      · exact h
      · rcases List.mem_append.mp (ih _ c h) with h | h
        · exact List.mem_of_mem_take h
        · exact List.mem_of_mem_drop h

theorem collapseWs_mem : ∀ (s : Str) (a b : Bool) (c : Char), c ∈ TocTree.collapseWs a b s → c = ' ' ∨ c ∈ s := by
  intro s
  induction s with
  | nil => intro a b c h; simp [TocTree.collapseWs] at h
  | cons x r ih =>
    intro a b c h
    simp only [TocTree.collapseWs] at h
    have hr : ∀ a b, c ∈ TocTree.collapseWs a b r → c = ' ' ∨ c ∈ x :: r := fun a b h =>
      (ih a b c h).imp id (List.mem_cons_of_mem _)
    split at h
    · exact hr _ _ h
    · split at h
      · rcases List.mem_cons.mp h with h | h
        · exact Or.inr (h ▸ List.mem_cons_self)
        · exact hr _ _ h
      · split at h
        · rcases List.mem_cons.mp h with h | h
          · exact Or.inl h
          · rcases List.mem_cons.mp h with h | h
            · exact Or.inr (h ▸ List.mem_cons_self)
            · exact hr _ _ h
        · rcases List.mem_cons.mp h with h | h
          · exact Or.inr (h ▸ List.mem_cons_self)
          · exact hr _ _ h

theorem stripTags_mem {s : Str} {c : Char} (h : c ∈ TocTree.stripTags s) : c = ' ' ∨ c ∈ s := by
  unfold TocTree.stripTags at h
  rcases collapseWs_mem _ _ _ _ h with h | h
  · exact Or.inl h
  · exact Or.inr (cutSpans_mem _ _ _ _ _ (cutSpans_mem _ _ _ _ _ h))

theorem stripTags_noSTX {s : Str} (h : TreeProc.STX ∉ s) : TreeProc.STX ∉ TocTree.stripTags s := by
  intro hm
  rcases stripTags_mem hm with hm | hm
  · revert hm; decide
  · exact h hm

/-! ### 5. `replace` with a pattern that cannot occur -/

/-- a pattern with a character that does not occur in the text is not found -/
theorem replace_absent {s p : Str} (r : Str) {c : Char} (hp : c ∈ p) (hs : c ∉ s) : replace s p r = s := by
  apply replace_id_of_not_contains
  rw [contains_eq_false_iff]
  intro pre post e
  apply hs
  rw [e]
  simp [hp]

theorem mem_replaceAux {pat b : Str} : ∀ (s : Str) (k : Nat) {x : Char}, x ∈ replaceAux pat b k s → x ∈ s ∨ x ∈ b := by
  intro s
  induction s with
  | nil => intro k x h; simp [replaceAux] at h
  | cons a r ih =>
    intro k x h
    cases k with
    | succ k =>
      simp only [replaceAux] at h
      exact (ih k h).imp (List.mem_cons_of_mem _) id
    | zero =>
      simp only [replaceAux] at h
      split at h
      · rcases List.mem_append.mp h with h | h
        · exact Or.inr h
        · exact (ih _ h).imp (List.mem_cons_of_mem _) id
      · rcases List.mem_cons.mp h with h | h
        · exact Or.inl (h ▸ List.mem_cons_self)
        · exact (ih _ h).imp (List.mem_cons_of_mem _) id

/-- the result of `replace` is made of characters of the text and of the replacement -/
theorem mem_replace {s pat b : Str} {x : Char} (h : x ∈ replace s pat b) : x ∈ s ∨ x ∈ b := by
  simp only [replace] at h
  split at h
  · exact Or.inl h
  · exact mem_replaceAux s 0 h

theorem postprocess_noSTX {s : Str} (h : TreeProc.STX ∉ s) : FootnotesTree.postprocess s = s := by
  unfold FootnotesTree.postprocess
  have h1 : replace s FootnotesTree.fnBacklinkText "&#8617;".toList = s :=
    replace_absent _ (c := TreeProc.STX) (by decide) h
  rw [h1]
  exact replace_absent _ (c := TreeProc.STX) (by decide) h

theorem ampSub_noSTX {s : Str} (h : TreeProc.STX ∉ s) : Post.ampSub s = s :=
  replace_absent _ (c := TreeProc.STX) (by decide) h

/-! ### 4. the raw-html postprocessor -/

theorem htmlPhAt_noSTX {suf : Str} (h : Post.STX ∉ suf) : Post.htmlPhAt suf = none := by
  unfold Post.htmlPhAt
  have : startsWith suf Post.htmlPrefix = false := by
    cases hs : startsWith suf Post.htmlPrefix with
    | false => rfl
    | true =>
      obtain ⟨t, e⟩ := startsWith_iff_prefix.mp hs
      exact absurd (by rw [e]; simp [Post.htmlPrefix]) h
  simp [this]

theorem subPass_noSTX (bl stash : List Str) {s : Str} (h : Post.STX ∉ s) : Post.subPass bl stash 0 s = s := by
  induction s with
  | nil => rfl
  | cons c s ih =>
    have hc : c ≠ Post.STX := fun e => h (e ▸ List.mem_cons_self)
    have hs : Post.STX ∉ s := fun hm => h (List.mem_cons_of_mem _ hm)
    have h3 : Post.htmlPhAt ((c :: s).drop 3) = none := htmlPhAt_noSTX (fun hm => h (List.mem_of_mem_drop hm))
    simp only [Post.subPass, h3, if_neg hc, ih hs, ite_self]

theorem rawHtml_noSTX (bl stash : List Str) {f : Nat} (hf : 0 < f) {s : Str} (h : Post.STX ∉ s) :
    Post.rawHtml bl stash f s = some s := by
  cases f with
  | zero => omega
  | succ f =>
    simp only [Post.rawHtml, subPass_noSTX bl stash h]
    split <;> simp

/-! ### 6. all the postprocessors -/

theorem postX_noSTX (x : PipelineX.Exts) (cfg : Pipeline.Cfg) (stash : List Str) {s : Str} (h : TreeProc.STX ∉ s) :
    PipelineX.postX x cfg stash s = some s := by
  unfold PipelineX.postX
  rw [rawHtml_noSTX _ _ (by unfold Post.rawHtmlFuel; omega) h]
  simp only [Option.map_some, Option.some.injEq]
  split
  · rw [postprocess_noSTX h, ampSub_noSTX h]
  · exact ampSub_noSTX h

/-! ### 7. `html.unescape` -/

theorem htmlUnescape_noSTX : ∀ (k : Nat) (s u : Str), TreeProc.STX ∉ s → TocTree.htmlUnescape k s = some u →
    TreeProc.STX ∉ u := by
  intro k s
  induction s generalizing k with
  | nil =>
    intro u _ h
    cases k <;> (simp only [TocTree.htmlUnescape, Option.some.injEq] at h; subst h; simp)
  | cons c r ih =>
    intro u hs h
    have hc : c ≠ TreeProc.STX := fun e => hs (e ▸ List.mem_cons_self)
    have hr : TreeProc.STX ∉ r := fun hm => hs (List.mem_cons_of_mem _ hm)
    have step : ∀ (n : Nat) (x : Char), x ≠ TreeProc.STX → (TocTree.htmlUnescape n r).map (x :: ·) = some u →
        TreeProc.STX ∉ u := by
      intro n x hx hm
      obtain ⟨u', hu', e⟩ := Option.map_eq_some_iff.mp hm
      subst e
      intro hmem
      rcases List.mem_cons.mp hmem with hmem | hmem
      · exact hx hmem.symm
      · exact ih n u' hr hu' hmem
    cases k with
    | succ k =>
      simp only [TocTree.htmlUnescape] at h
      exact ih k u hr h
    | zero =>
      simp only [TocTree.htmlUnescape] at h
      split at h
      · split at h
        · exact step _ _ (by decide) h
        · split at h
          · exact step _ _ (by decide) h
          · split at h
            · exact step _ _ (by decide) h
            · split at h
              · exact step _ _ (by decide) h
              · cases h
      · exact step _ _ hc h

/-! ### 8. `slugify`, 9. `unique` -/

theorem slugify_noSTX {v slug : Str} (h : TocTree.slugify v = some slug) : TreeProc.STX ∉ slug :=
  TocTreeDoc.slugify_no_stx h

theorem unique_noSTX {slug : Str} (used : List Str) (h : TreeProc.STX ∉ slug) :
    TreeProc.STX ∉ (Toc.unique slug used).1 :=
  TocTreeDoc.unique_no_stx used h

/-! ### 10. `_escape_cdata` -/

theorem ser_ampSub_mem : ∀ (s : Str) (c : Char), c ∈ Ser.ampSub s → c ∈ s ∨ c ∈ "&amp;".toList := by
  intro s
  induction s with
  | nil => intro c h; simp [Ser.ampSub] at h
  | cons x r ih =>
    intro c h
    simp only [Ser.ampSub] at h
    have hr : c ∈ Ser.ampSub r → c ∈ x :: r ∨ c ∈ "&amp;".toList := fun h =>
      (ih c h).imp (List.mem_cons_of_mem _) id
    split at h
    · split at h
      · rcases List.mem_cons.mp h with h | h
        · exact Or.inr (by rw [h]; decide)
        · exact hr h
      · rcases List.mem_append.mp h with h | h
        · exact Or.inr h
        · exact hr h
    · rcases List.mem_cons.mp h with h | h
      · exact Or.inl (h ▸ List.mem_cons_self)
      · exact hr h

theorem escCdata_noSTX {s : Str} (h : TreeProc.STX ∉ s) : TreeProc.STX ∉ Ser.escCdata s := by
  unfold Ser.escCdata
  intro hm
  rcases mem_replace hm with hm | hm
  · rcases mem_replace hm with hm | hm
    · rcases ser_ampSub_mem _ _ hm with hm | hm
      · exact h hm
      · revert hm; decide
    · revert hm; decide
  · revert hm; decide

end MdVerif.C02Toc
