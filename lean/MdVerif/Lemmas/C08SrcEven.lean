/-
Helper lemmas for `Props/C08Src.lean`: the case that `Props/C08.lean` leaves out (hypothesis `hcode`).  The normalised
`A` ends with an even number of line feeds and its block tree ends with a code block: alone, the last (empty) block of
`A` appends `"\n\n"` to the text of that code block; followed by `B` it does not (`C08_counter_even_filler`).  The
text is atomic: `InlineProcessor.run` does not read it (`Runs_poke`), and `PrettifyTreeprocessor` strips trailing
white space from the code of a `pre` (`prettify_poke`), so the outputs agree.
Core Lean only.
-/
import MdVerif.Lemmas.C08Src
import MdVerif.Lemmas.C08SrcPoke
import MdVerif.Lemmas.C08SrcShape

namespace MdVerif.C08Src
open Py Block InlineLocal Inline NoCtl MdVerif.C08

/-! ### plainness of the right-hand side of the renaming relation -/

theorem plainB_of_sh_right {ok : Char → Bool} {ρ : Rho} {s s' : Str} (h : Sh ok ρ s s') (hd : stxDigB s' = true) :
    plainB ok s' = true := by
  induction h with
  | nil => rfl
  | @chr c s s' hc hs _ ih =>
    rw [plainB.eq_def]
    simp only [if_neg hs, hc, Bool.true_and]
    exact ih (stxDigB_tail hd)
  | @tok d s s' hdg _ ih =>
    rw [plainB.eq_def]
    simp only [if_true, hdg, Bool.true_and]
    exact ih (stxDigB_tail (stxDigB_tail hd))
  | @ph i i' s s' _ _ hi' _ _ =>
    exfalso
    obtain ⟨a, b, c, d, hp, -⟩ := placeholder_four hi'
    rw [hp] at hd
    simp [stxDigB, isAsciiDigit] at hd

theorem plainOptB_of_rel_right {ρ : Rho} {t t' : Option Str} (h : ORel (Sh okI ρ) t t')
    (hd : stxDigB (t'.getD []) = true) : plainOptB okI t' = true := by
  match t, t', h with
  | none, none, _ => rfl
  | some a, some b, h => exact plainB_of_sh_right (show Sh okI ρ a b from h) hd

mutual
theorem plainTreeB_of_rel_right {ρ : Rho} : ∀ (n x : Node), NRel okI ρ n x → x.Forall (WNodeB 0) →
    plainTreeB okI x = true
  | ⟨tag, attrs, text, ta, ch, tail, tla⟩, ⟨tag', attrs', text', ta', ch', tail', tla'⟩, h, hw => by
    simp only [NRel] at h
    simp only [Node.Forall] at hw
    obtain ⟨-, -, -, -, h5, h6, h7⟩ := h
    obtain ⟨hn, hk⟩ := hw
    obtain ⟨s1, s2⟩ := wnodeB_stx hn
    simp only [plainTreeB, Bool.and_eq_true]
    exact ⟨⟨plainOptB_of_rel_right h5 s1, plainOptB_of_rel_right h6 s2⟩, plainTreeLB_of_rel_right ch ch' h7 hk⟩
theorem plainTreeLB_of_rel_right {ρ : Rho} : ∀ (l l' : List Node), NRelL okI ρ l l' → Node.ForallL (WNodeB 0) l' →
    plainTreeLB okI l' = true
  | [], [], _, _ => rfl
  | a :: r, a' :: r', h, hw => by
    simp only [NRelL] at h
    simp only [Node.ForallL] at hw
    simp only [plainTreeLB, Bool.and_eq_true]
    exact ⟨plainTreeB_of_rel_right a a' h.1 hw.1, plainTreeLB_of_rel_right r r' h.2 hw.2⟩
  | [], _ :: _, h, _ => by simp only [NRelL] at h
  | _ :: _, [], h, _ => by simp only [NRelL] at h
end

theorem forallL_append {P : Node → Prop} : ∀ {a b : List Node}, Node.ForallL P (a ++ b) →
    Node.ForallL P a ∧ Node.ForallL P b
  | [], _, h => ⟨trivial, h⟩
  | x :: a, b, h => by
    simp only [List.cons_append, Node.ForallL] at h ⊢
    exact ⟨⟨h.1, (forallL_append h.2).1⟩, (forallL_append h.2).2⟩

theorem plainTreeLB_append_inv {ok : Char → Bool} : ∀ {a b : List Node}, plainTreeLB ok (a ++ b) = true →
    plainTreeLB ok a = true ∧ plainTreeLB ok b = true
  | [], _, h => ⟨rfl, h⟩
  | x :: a, b, h => by
    simp only [List.cons_append, plainTreeLB, Bool.and_eq_true] at h ⊢
    exact ⟨⟨h.1, (plainTreeLB_append_inv h.2).1⟩, (plainTreeLB_append_inv h.2).2⟩

/-! ### `topChild` does not look at the poked text -/

theorem topChild_poke (fmt : Ser.Fmt) (bl : List Str) {b : Option Str} {hdr P0 c r r' : Node}
    (h : Poke b hdr P0 c r r') (ht : ∀ x ∈ r.children, topChild fmt bl x = true) :
    ∀ x ∈ r'.children, topChild fmt bl x = true := by
  obtain ⟨M, rest, rfl, rfl⟩ := h
  intro x hx
  simp only [pk, mk_children, List.mem_append, List.mem_singleton] at hx ht
  rcases hx with hx | rfl
  · exact ht x (Or.inl hx)
  · have := ht (mk P0 (c :: rest)) (Or.inr rfl)
    simpa [topChild, blockChild, voidOk, mk, Node.tagStr] using this

/-! ### the inline half, from three runs with any fuels -/

/-- the core: the later stages on the result of the combined run, given (fuel-free) runs on `div[csV]`, `div[csB]` and
    `div[csV ++ csB]`, at most 10000 stash entries, and a combined result that holds escape tokens only -/
theorem inline_half_runs (pc : Pipeline.Cfg) (cfg : Cfg) (hesc : cfg.esc.contains Inline.STX = false)
    (hd : divBlock pc.blockLevel = true) {csV csB : List Node}
    (hpV : plainTreeLB okI csV = true) (hpB : plainTreeLB okI csB = true)
    {rV rB r : Node} {tA tB t : St}
    (DV : Runs cfg (root csV) [[]] { html := [] } rV tA) (DB : Runs cfg (root csB) [[]] { html := [] } rB tB)
    (DAB : Runs cfg (root (csV ++ csB)) [[]] { html := [] } r t)
    (hNA : tA.stash.length ≤ 10000) (hNB : tB.stash.length ≤ 10000) (hN : t.stash.length ≤ 10000)
    (wAB : r.Forall (WNodeB 0))
    (tcV : ∀ x ∈ rV.children, topChild pc.fmt pc.blockLevel x = true)
    (tcB : ∀ x ∈ rB.children, topChild pc.fmt pc.blockLevel x = true)
    (nV : rV.children ≠ []) (nB : rB.children ≠ []) :
    after pc r [] =
      match after pc rV [], after pc rB [] with
      | .ok oA, .ok oB => .ok (oA ++ ['\n'] ++ oB)
      | _, _ => .err := by
  have F := visitSim okD_okI cfg hesc (emSim okI)
  obtain ⟨wA, wB, X, Y, er, hA, hB, e1', e2'⟩ :=
    Runs.append F (Node.el "div") csV csB (plainTreeLB_mem hpV) (plainTreeLB_mem hpB) DV DB DAB hNA hNB hN
  -- no placeholder is left in the combined result
  have hk := forallL_of_forall wAB
  rw [er, mk_children] at hk
  obtain ⟨hkX, hkY⟩ := forallL_append hk
  have kX := plainTreeLB_of_rel_right _ _ (NRelL.ofAll₂ hA) hkX
  have kY := plainTreeLB_of_rel_right _ _ (NRelL.ofAll₂ hB) hkY
  have eX := NRelL.eq_of_plain_right (NRelL.ofAll₂ hA) (plainTreeL_of_B kX)
  have eY := NRelL.eq_of_plain_right (NRelL.ofAll₂ hB) (plainTreeL_of_B kY)
  have er' : r = root (rV.children ++ rB.children) := by rw [er, ← eX, ← eY]; rfl
  have key := C08_render_local pc rV.children rB.children hd tcV tcB
  have e3 : after pc (root rV.children) [] = after pc rV [] := by
    have : root rV.children = rV := e1'.symm
    rw [this]
  have e4 : after pc (root rB.children) [] = after pc rB [] := by
    have : root rB.children = rB := e2'.symm
    rw [this]
  rw [er', key, e3, e4]
  have nA' : rV.children.isEmpty = false := by
    cases h : rV.children with
    | nil => exact absurd h nV
    | cons _ _ => rfl
  have nB' : rB.children.isEmpty = false := by
    cases h : rB.children with
    | nil => exact absurd h nB
    | cons _ _ => rfl
  simp only [nA', nB', Bool.or_self, Bool.false_eq_true, if_false]
  cases after pc rV [] <;> cases after pc rB [] <;> rfl

theorem ne_nil_of_length {α β : Type} {l : List α} {l' : List β} (h : l.length = l'.length) (hne : l' ≠ []) : l ≠ [] := by
  intro e; subst e; exact hne (List.eq_nil_of_length_eq_zero h.symm)

/-- the inline half when the tree of the combined document is the exact concatenation -/
theorem inline_half_exact (pc : Pipeline.Cfg) (cfg : Cfg) (hesc : cfg.esc.contains Inline.STX = false)
    (hd : divBlock pc.blockLevel = true) {csA csB : List Node}
    (hpA : plainTreeLB okI csA = true) (hpB : plainTreeLB okI csB = true)
    (hbA : ∀ c ∈ csA, blockChild pc.blockLevel c = true ∧ c.tail = none)
    (hbB : ∀ c ∈ csB, blockChild pc.blockLevel c = true ∧ c.tail = none)
    (hdA : Vocab2.DocOk (root csA) = true) (hdB : Vocab2.DocOk (root csB) = true)
    (hneA : csA ≠ []) (hneB : csB ≠ [])
    {a1 b1 a2 b2 a b : Nat} {rA rB r : Node} {tA tB t : St}
    (eA : runLoop cfg a1 b1 (root csA) [[]] { html := [] } = some (rA, tA))
    (eB : runLoop cfg a2 b2 (root csB) [[]] { html := [] } = some (rB, tB))
    (eAB : runLoop cfg a b (root (csA ++ csB)) [[]] { html := [] } = some (r, t))
    (hNA : tA.stash.length ≤ 10000) (hNB : tB.stash.length ≤ 10000) (hN : t.stash.length ≤ 10000)
    (wAB : r.Forall (WNodeB 0)) :
    after pc r t.html =
      match after pc rA tA.html, after pc rB tB.html with
      | .ok oA, .ok oB => .ok (oA ++ ['\n'] ++ oB)
      | _, _ => .err := by
  obtain ⟨tcA, lA⟩ := topChild_of_runLoop_fmt pc.fmt eA hbA hdA
  obtain ⟨tcB, lB⟩ := topChild_of_runLoop_fmt pc.fmt eB hbB hdB
  rw [runLoop_html hesc (plainTreeLB_append hpA hpB) eAB hN, runLoop_html hesc hpA eA hNA, runLoop_html hesc hpB eB hNB]
  exact inline_half_runs pc cfg hesc hd hpA hpB (runLoop_sound eA) (runLoop_sound eB) (runLoop_sound eAB) hNA hNB hN
    wAB tcA tcB (ne_nil_of_length lA hneA) (ne_nil_of_length lB hneB)

/-! ### the inline half when the code block at the end of `A` carries the filler -/

/-- the code leaf with the filler -/
def withText (code : Node) (T' : Str) : Node := { code with text := some T', textAtomic := true }

theorem inline_half_poke (pc : Pipeline.Cfg) (cfg : Cfg) (hesc : cfg.esc.contains Inline.STX = false)
    (hd : divBlock pc.blockLevel = true) {K tl csB : List Node} {sib code : Node} {T T' : Str}
    (hsibtag : sib.tag = .name "pre".toList) (hsib : Inert sib)
    (hctag : code.tag = .name "code".toList) (hat : code.textAtomic = true) (hck : code.children = [])
    (hctl : Node.truthy code.tail = false) (htxt : code.text = some T) (hrs : rstrip T' = rstrip T)
    (hpV : plainTreeLB okI (K ++ [mk sib (code :: tl)]) = true)
    (hpR : plainTreeLB okI (K ++ [mk sib (withText code T' :: tl)]) = true)
    (hpB : plainTreeLB okI csB = true)
    (hbR : ∀ c ∈ K ++ [mk sib (withText code T' :: tl)], blockChild pc.blockLevel c = true ∧ c.tail = none)
    (hbB : ∀ c ∈ csB, blockChild pc.blockLevel c = true ∧ c.tail = none)
    (hdR : Vocab2.DocOk (root (K ++ [mk sib (withText code T' :: tl)])) = true)
    (hdB : Vocab2.DocOk (root csB) = true) (hneB : csB ≠ [])
    {a1 b1 a2 b2 a b : Nat} {rA rB r : Node} {tA tB t : St}
    (eA : runLoop cfg a1 b1 (root (K ++ [mk sib (withText code T' :: tl)])) [[]] { html := [] } = some (rA, tA))
    (eB : runLoop cfg a2 b2 (root csB) [[]] { html := [] } = some (rB, tB))
    (eAB : runLoop cfg a b (root ((K ++ [mk sib (code :: tl)]) ++ csB)) [[]] { html := [] } = some (r, t))
    (hNA : tA.stash.length ≤ 10000) (hNB : tB.stash.length ≤ 10000) (hN : t.stash.length ≤ 10000)
    (wAB : r.Forall (WNodeB 0)) :
    after pc r t.html =
      match after pc rA tA.html, after pc rB tB.html with
      | .ok oA, .ok oB => .ok (oA ++ ['\n'] ++ oB)
      | _, _ => .err := by
  have hleaf : Leaf (withText code T') := ⟨rfl, hctl, hck⟩
  have hset : setText (withText code T') (some T) = code := by
    cases code; simp only at hat htxt; subst hat; subst htxt; rfl
  have hpoke : Poke (some T) (Node.el "div") sib (withText code T')
      (root (K ++ [mk sib (withText code T' :: tl)])) (root (K ++ [mk sib (code :: tl)])) :=
    ⟨K, tl, rfl, by rw [hset]; rfl⟩
  obtain ⟨rA', DV, hpk⟩ := Runs_poke hleaf hsib (runLoop_sound eA) hpoke
  obtain ⟨tcA, -⟩ := topChild_of_runLoop_fmt pc.fmt eA hbR hdR
  obtain ⟨tcB, lB⟩ := topChild_of_runLoop_fmt pc.fmt eB hbB hdB
  have tcA' := topChild_poke pc.fmt pc.blockLevel hpk tcA
  have nV : rA'.children ≠ [] := by
    obtain ⟨M, rest, -, rfl⟩ := hpk
    simp [pk]
  have e3 : after pc rA' [] = after pc rA [] := by
    unfold after
    rw [prettify_poke pc.blockLevel hpk hsibtag (c := withText code T') hctag hck (a := T') (a' := T) rfl rfl hrs]
  rw [runLoop_html hesc (plainTreeLB_append hpV hpB) eAB hN, runLoop_html hesc hpR eA hNA, runLoop_html hesc hpB eB hNB,
    ← e3]
  exact inline_half_runs pc cfg hesc hd hpV hpB DV (runLoop_sound eB) (runLoop_sound eAB) hNA hNB hN wAB tcA' tcB nV
    (ne_nil_of_length lB hneB)

/-! ### the source domain is closed under "A, blank line, B" -/

theorem domainL_compose {tab : Nat} {A B : Str} (dA : C10DomainL tab A) (dB : C10DomainL tab B)
    (hCR : (Normalize.stripCtl A).getLast? ≠ some '\r') : C10DomainL tab (A ++ nn ++ B) := by
  refine ⟨?_, ?_⟩
  · intro c hc
    simp only [List.mem_append] at hc
    rcases hc with (hc | hc) | hc
    · exact dA.1 c hc
    · simp only [List.mem_cons, List.not_mem_nil, or_false, or_self] at hc; subst hc; decide
    · exact dB.1 c hc
  · rw [normalize_split tab A B hCR]
    obtain ⟨X, hX⟩ := normalize_ends_nn tab A
    have h1 : Adj3 (X ++ ['\n']) := dA.2.infix ⟨[], ['\n'], by rw [hX]; simp⟩
    have := adj3_joinNl h1 dB.2
    rw [hX]
    simpa using this

/-! ### what `fillCode` does -/

theorem fillCode_cases (p : Node) :
    fillCode p = p ∨ ∃ sib code, p.last? = some sib ∧ preCode sib = some code ∧
      fillCode p = setCodeText p sib code (fmtOpt code.text ++ nn) := by
  cases hl : p.last? with
  | none => left; simp [fillCode, emptyP, hl]
  | some sib =>
    cases hc : preCode sib with
    | none => left; simp [fillCode, emptyP, hl, hc]
    | some code => right; exact ⟨sib, code, rfl, hc, by simp [fillCode, emptyP, hl, hc]⟩

/-! ### the composition, without the code condition -/

theorem rstrip_nn (T : Str) : rstrip (T ++ nn) = rstrip T :=
  rstripP_append_of_all (p := isSpace) (y := nn) (by decide) T

/-- **composition behind the block parser, at source level**: for sources of the domain, given the three block
    trees and three runs of the stack loop of the inline stage (with any fuels) that return, the later stages on the
    combined result give the output for `A`, a newline, the output for `B` (`after`: `Props/C08Inline.lean`) -/
theorem compose_after (pc : Pipeline.Cfg) (hcfg : EscOK pc.esc)
    (hd : divBlock pc.blockLevel = true) (hbl : blockLevelOk pc.blockLevel = true)
    {A B : Str} (dA : C10DomainL pc.tab A) (dB : C10DomainL pc.tab B)
    (hA : A.all srcOk = true) (hB : B.all srcOk = true)
    (hCR : (Normalize.stripCtl A).getLast? ≠ some '\r') (hvis : hasVisible A = true)
    (hb : startsPHR pc.tab ((splitS nn (Normalize.normalize pc.tab B)).headD []) = true)
    {ra rb rab : Node} {fa fb fab : Refs}
    (pA : parseDocument pc.tab (Pipeline.prepare pc A) = some (ra, fa))
    (pB : parseDocument pc.tab (Pipeline.prepare pc B) = some (rb, fb))
    (pAB : parseDocument pc.tab (Pipeline.prepare pc (A ++ nn ++ B)) = some (rab, fab))
    {a1 b1 a2 b2 a b : Nat} {tA tB tAB : Node} {sA sB sAB : St}
    (eA : runLoop { esc := pc.esc, refs := fa.reverse } a1 b1 ra [[]] { html := [] } = some (tA, sA))
    (eB : runLoop { esc := pc.esc, refs := fb.reverse } a2 b2 rb [[]] { html := [] } = some (tB, sB))
    (eAB : runLoop { esc := pc.esc, refs := fab.reverse } a b rab [[]] { html := [] } = some (tAB, sAB))
    (hNA : sA.stash.length ≤ 10000) (hNB : sB.stash.length ≤ 10000) (hN : sAB.stash.length ≤ 10000) :
    after pc tAB sAB.html =
      match after pc tA sA.html, after pc tB sB.html with
      | .ok oA, .ok oB => .ok (oA ++ ['\n'] ++ oB)
      | _, _ => .err := by
  have hesc := escOK_no_stx hcfg
  have hAB := srcOk_compose hA hB
  have wAB := runLoop_result_wnodeB pc hcfg (domainL_compose dA dB hCR) pAB eAB
  obtain ⟨qA, eRa, rfl, plA, tkA⟩ := C08_block_trees_plain pc hbl hA pA
  obtain ⟨qB, eRb, rfl, plB, tkB⟩ := C08_block_trees_plain pc hbl hB pB
  obtain ⟨qAB, eRab, rfl, plAB, tkAB⟩ := C08_block_trees_plain pc hbl hAB pAB
  have hsplit := normalize_split pc.tab A B hCR
  obtain ⟨X, hX⟩ := normalize_ends_nn pc.tab A
  have pA' : parseDocument pc.tab (X ++ nn) = some (ra, []) := by rw [← hX, ← qA]; exact pA
  have pB' : parseDocument pc.tab (Normalize.normalize pc.tab B) = some (rb, []) := by rw [← qB]; exact pB
  have pAB' : parseDocument pc.tab (X ++ nn ++ Normalize.normalize pc.tab B) = some (rab, []) := by
    rw [← hX, ← hsplit, ← qAB]; exact pAB
  obtain ⟨ka, hka, hrab, -⟩ := Block.C08_text hb pA' pB' pAB'
  have hneB := children_ne_of_phr hb pB'
  have hneA : ra.children ≠ [] :=
    tree_nonempty_of_visible hvis (plain_of_srcOk pc.tab hA) (by rw [hX]; exact pA')
  have eA' : runLoop { esc := pc.esc, refs := [] } a1 b1 (root ra.children) [[]] { html := [] } = some (tA, sA) := by
    rw [← eRa]; exact eA
  have eB' : runLoop { esc := pc.esc, refs := [] } a2 b2 (root rb.children) [[]] { html := [] } = some (tB, sB) := by
    rw [← eRb]; exact eB
  have dA' : Vocab2.DocOk (root ra.children) = true := by rw [← eRa]; exact docOk_block pA
  have dB' : Vocab2.DocOk (root rb.children) = true := by rw [← eRb]; exact docOk_block pB
  -- the case of an exact concatenation
  have exact_case : ra.children = ka → after pc tAB sAB.html =
      match after pc tA sA.html, after pc tB sB.html with
      | .ok oA, .ok oB => .ok (oA ++ ['\n'] ++ oB)
      | _, _ => .err := by
    intro hk
    have hrab' : rab = root (ra.children ++ rb.children) := by rw [hrab, hk]; rfl
    subst hrab'
    exact inline_half_exact pc { esc := pc.esc, refs := [] } hesc hd plA plB tkA tkB dA' dB' hneA hneB eA' eB' eAB
      hNA hNB hN wAB
  rcases hka with hka | hka
  · exact exact_case (by rw [hka]; rfl)
  · rcases fillCode_cases (withKids (Node.el "div") ka) with hf | ⟨sib, code, hl, hc, hf⟩
    · exact exact_case (by rw [hka, hf]; rfl)
    · -- `A` alone ends with a code block that carries the filler
      obtain ⟨hpre, hcode, tl, hch⟩ := preCode_inv hc
      have hkaK : ka = ka.dropLast ++ [sib] := Letters.children_of_last (n := withKids (Node.el "div") ka) hl
      have hsib_mem : sib ∈ rab.children := by
        rw [hrab]; show sib ∈ ka ++ rb.children
        rw [hkaK]; simp
      obtain ⟨hstext, code0, tl0, hch0, hck, hctl, hsome, hat⟩ := parseDocument_shape pAB' sib hsib_mem hpre
      rw [hch] at hch0
      simp only [List.cons.injEq] at hch0
      obtain ⟨rfl, rfl⟩ := hch0
      obtain ⟨T, hT⟩ := Option.isSome_iff_exists.1 hsome
      have hsibtail : sib.tail = none := (tkAB sib hsib_mem).2
      have hsibeq : sib = mk sib (code :: tl) := by rw [← hch]; exact (mk_self sib).symm
      have hraK : ra.children = ka.dropLast ++ [mk sib (withText code (T ++ nn) :: tl)] := by
        rw [hka, hf]
        simp only [setCodeText, Node.setLast, withKids, hch, hT, fmtOpt, List.drop_succ_cons, List.drop_zero]
        rfl
      have hkaV : ka = ka.dropLast ++ [mk sib (code :: tl)] := by rw [← hsibeq]; exact hkaK
      have hrab' : rab = root ((ka.dropLast ++ [mk sib (code :: tl)]) ++ rb.children) := by
        rw [hrab, ← hkaV]; rfl
      subst hrab'
      have hpV : plainTreeLB okI (ka.dropLast ++ [mk sib (code :: tl)]) = true :=
        (plainTreeLB_append_inv (a := ka.dropLast ++ [mk sib (code :: tl)]) plAB).1
      exact inline_half_poke pc { esc := pc.esc, refs := [] } hesc hd (K := ka.dropLast) (tl := tl)
        (csB := rb.children) (sib := sib) (code := code) (T := T) (T' := T ++ nn)
        (by simpa [Node.isTag] using hpre) ⟨hstext, by rw [hsibtail]; rfl⟩ (by simpa [Node.isTag] using hcode) hat hck hctl hT
        (rstrip_nn T) hpV (by rw [← hraK]; exact plA) plB (by rw [← hraK]; exact tkA) tkB
        (by rw [← hraK]; exact dA') dB' hneB (by rw [← hraK]; exact eA') eB' eAB hNA hNB hN wAB

/-- **composition at source level for `Pipeline.convert`, no condition on code blocks** -/
theorem convert_compose_all (pc : Pipeline.Cfg) (hcfg : EscOK pc.esc)
    (hd : divBlock pc.blockLevel = true) (hbl : blockLevelOk pc.blockLevel = true)
    {A B : Str} (dA : C10DomainL pc.tab A) (dB : C10DomainL pc.tab B)
    (hA : A.all srcOk = true) (hB : B.all srcOk = true)
    (hCR : (Normalize.stripCtl A).getLast? ≠ some '\r') (hvis : hasVisible A = true)
    (hb : startsPHR pc.tab ((splitS nn (Normalize.normalize pc.tab B)).headD []) = true)
    (hstash : ∀ src ∈ [A, B, A ++ nn ++ B], ∀ rt refs t st,
      parseDocument pc.tab (Pipeline.prepare pc src) = some (rt, refs) →
      Inline.run { esc := pc.esc, refs := refs.reverse } rt = some (t, st) → st.stash.length ≤ 10000)
    {out outA outB : Str} (cAB : Pipeline.convert pc (A ++ nn ++ B) = .ok out)
    (cA : Pipeline.convert pc A = .ok outA) (cB : Pipeline.convert pc B = .ok outB) :
    out = outA ++ ['\n'] ++ outB := by
  have hnA := not_blank_of_visible hvis
  have hnB := not_blank_of_phr hb
  have hnAB := not_blank_compose B hnA
  have hAB := srcOk_compose hA hB
  obtain ⟨ra, fa, tA, sA, pA, eA⟩ := convert_ok_inv cA hnA
  obtain ⟨rb, fb, tB, sB, pB, eB⟩ := convert_ok_inv cB hnB
  obtain ⟨rab, fab, tAB, sAB, pAB, eAB⟩ := convert_ok_inv cAB hnAB
  have hNA := hstash A (by simp) _ _ _ _ pA eA
  have hNB := hstash B (by simp) _ _ _ _ pB eB
  have hN := hstash (A ++ nn ++ B) (by simp) _ _ _ _ pAB eAB
  rw [C08_convert_eq_after pc _ (not_contains_lt hAB) hnAB pAB eAB] at cAB
  rw [C08_convert_eq_after pc _ (not_contains_lt hA) hnA pA eA] at cA
  rw [C08_convert_eq_after pc _ (not_contains_lt hB) hnB pB eB] at cB
  unfold Inline.run at eA eB eAB
  have key := compose_after pc hcfg hd hbl dA dB hA hB hCR hvis hb pA pB pAB eA eB eAB hNA hNB hN
  rw [key, cA, cB] at cAB
  simpa using cAB.symm

end MdVerif.C08Src
